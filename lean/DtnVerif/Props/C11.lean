/-
  C11 — forwarding preserves the bundle and updates only the hop-by-hop blocks, in the
  transmitted bytes. All statements are about `fwdOut`, the `Bundle` value that `Bundle.enc` is
  applied to when `_do_fwd` hands octets to the convergence layer (`C11_tx_is_fwdOut`); the
  BTSD fields of its blocks are the octets that are encoded.
  Model: Model/Container.lean, Model/BpAgent.lean; lemmas: Lemmas/AgentFwd.lean.
-/
import DtnVerif.Lemmas.AgentFwd
namespace DtnVerif
namespace Props
namespace C11
open Agent Bp

/-- Constants of the source the model relies on: block type codes of the hop-by-hop blocks. -/
theorem C11_facts :
    ("CanonicalBlock", "PreviousNodeBlock", "bind_type", (typePrevNode : Int)) ∈ Facts.binds
    ∧ ("CanonicalBlock", "BundleAgeBlock", "bind_type", (typeAge : Int)) ∈ Facts.binds
    ∧ ("CanonicalBlock", "HopCountBlock", "bind_type", (typeHop : Int)) ∈ Facts.binds
    ∧ (Facts.chainSteps.filter (fun s => s.1 == "tx_chain")).map (fun s => (s.2.1, s.2.2.2))
        = [(0, "_do_tx_step"), (20, "_create"), (10, "_apply_bib"), (11, "_apply_bcb")] := by
  decide

/-- The octets `_do_fwd` hands to the convergence layer are `Bundle.enc` of `fwdOut`. -/
theorem C11_tx_is_fwdOut (cfg : Cfg) (st : St) (now : Nat) (sp : SendParams) (c0 : Ctr) (q : List Ctr)
    (hq : st.fwdQ = c0 :: q) (d : Bytes) (hd : Effect.tx d ∈ (doFwd cfg st now sp).2) :
    ∃ b, fwdOut cfg { st with fwdQ := q } now sp c0 = some b ∧ d = b.enc :=
  doFwd_tx cfg st now sp c0 q hq d hd

/-! ### primary block -/

/-- the primary block fields named by the property (and the CRC type and fragment fields) -/
def primaryFieldsEq (p q : Primary) : Prop :=
  p.version = q.version ∧ p.flags = q.flags ∧ p.dest = q.dest ∧ p.src = q.src ∧ p.rpt = q.rpt
  ∧ p.ts = q.ts ∧ p.lifetime = q.lifetime ∧ p.crcType = q.crcType ∧ p.fragOff = q.fragOff
  ∧ p.totalLen = q.totalLen

/-- Full statement (received bundles: source and report-to present). -/
def PrimaryUnchanged : Prop :=
  ∀ (cfg : Cfg) (st : St) (now : Nat) (sp : SendParams) (c0 : Ctr) (b : Bundle),
    c0.srcNone = false → c0.rptNone = false →
    fwdOut cfg st now sp c0 = some b → primaryFieldsEq b.primary c0.primary

/-- **Holds when creation time and lifetime are non-zero.** Missing part: a creation time of 0
    is replaced by a fresh timestamp and a lifetime of 0 by one hour (D11). -/
theorem C11_primary_unchanged_partial (cfg : Cfg) (st : St) (now : Nat) (sp : SendParams) (c0 : Ctr)
    (b : Bundle) (hs : c0.srcNone = false) (hr : c0.rptNone = false)
    (hts : c0.primary.ts.time ≠ 0) (hlt : c0.primary.lifetime ≠ 0)
    (h : fwdOut cfg st now sp c0 = some b) : primaryFieldsEq b.primary c0.primary := by
  obtain ⟨_, rfl⟩ := fwdOut_some _ _ _ _ _ _ h
  obtain ⟨_, hp, _, hrn, hsn⟩ := fwdEdit_meta cfg st now c0
  have := applyPrimary_unchanged cfg (fwdEdit cfg st now c0).1 now (fwdEdit cfg st now c0).2.1
    (hsn.trans hs) (hrn.trans hr) (by rw [hp]; exact hts) (by rw [hp]; exact hlt)
  simp only [Ctr.wire, primaryFieldsEq, this, hp]
  simp

/-- witnesses shared with the harness (harness/props/c11.py `w_d11`, `w_life0`) -/
def wCfg : Cfg := { nodeId := .dtn [47, 47, 110, 111, 100, 101, 47], rxRoutes := [.forward] }
def wSp : SendParams := { txBits := [true] }
def wPay : Blk := { c := { typeCode := 1, blockNum := 1, btsd := some [1, 2, 3] } }
def wPri (time seq life : Nat) : Primary :=
  { dest := .dtn [47, 47, 102, 97, 114, 47, 120], src := .dtn [47, 47, 115, 114, 99, 47],
    ts := ⟨time, seq⟩, lifetime := life }
def wD11 : Ctr :=
  { primary := wPri 0 7 60000,
    blocks := [{ c := { typeCode := 7, blockNum := 2, btsd := some (encBundleAge 5) } }, wPay] }
def wLife0 : Ctr := { primary := wPri 5000 0 0, blocks := [wPay] }

/-- **The code violates the full statement (D11)**: a received creation time `[0, 7]` leaves
    as `[now, 0]` (new identity) and the age block is dropped. -/
theorem C11_primary_unchanged_counterexample : ¬ PrimaryUnchanged := by
  intro h
  have hb : ∃ b, fwdOut wCfg {} 9000 wSp wD11 = some b ∧ b.primary.ts = ⟨9000, 0⟩
      ∧ b.blocks.map (·.typeCode) = [6, 1] := by
    refine ⟨_, rfl, ?_, ?_⟩ <;> decide
  obtain ⟨b, hb, hts, _⟩ := hb
  have := (h wCfg {} 9000 wSp wD11 b rfl rfl hb).2.2.2.2.2.1
  rw [hts] at this
  exact absurd this (by decide)

/-- … and a lifetime of 0 leaves as 3 600 000 ms. -/
theorem C11_lifetime_zero_counterexample :
    ∃ b, fwdOut wCfg {} 9000 wSp wLife0 = some b ∧ b.primary.lifetime = 3600000
      ∧ wLife0.primary.lifetime = 0 := by
  refine ⟨_, rfl, ?_, rfl⟩; decide

/-! ### blocks that are neither previous-node nor age blocks -/

/-- Every received block that is not a (dissected) previous-node or age block is encoded with
    its type, number, flags, CRC type, and the BTSD `wireBtsd` picks: the cached octets when
    present. -/
theorem C11_other_blocks_kept (cfg : Cfg) (st : St) (now : Nat) (sp : SendParams) (c0 : Ctr) (b : Bundle)
    (hnd : c0.nums.Nodup) (h : fwdOut cfg st now sp c0 = some b) (x : Blk) (hx : x ∈ c0.blocks)
    (h6 : x.cls ≠ .prev) (h7 : x.cls ≠ .age) : ∃ y ∈ b.blocks, wireOf (bumpHop x) y := by
  obtain ⟨hok, rfl⟩ := fwdOut_some _ _ _ _ _ _ h
  obtain ⟨S⟩ := fwdEdit_stages cfg st now c0 hok
  have := S.keep hnd x hx h6 h7
  simp only [Ctr.wire, applyPrimary_blocks]
  exact finalBlocks_of_mem _ _ _ this

/-- Full statement: the payload block leaves with the octets it arrived with. -/
def PayloadUnchanged : Prop :=
  ∀ (cfg : Cfg) (st : St) (now : Nat) (sp : SendParams) (c0 : Ctr) (b : Bundle),
    c0.nums.Nodup → fwdOut cfg st now sp c0 = some b →
    ∀ x ∈ c0.blocks, x.c.typeCode = typePayload → ∀ d, x.c.btsd = some d →
      ∃ y ∈ b.blocks, y.typeCode = typePayload ∧ y.blockNum = x.num ∧ y.btsd = some d

/-- **Holds for payloads that are not dissected as an administrative record**
    (`adminReenc = none`). Missing part: with the administrative-record flag set the payload is
    re-encoded from the parsed record on every build (`Bundle._update_from_admin`). -/
theorem C11_payload_unchanged_partial (cfg : Cfg) (st : St) (now : Nat) (sp : SendParams) (c0 : Ctr)
    (b : Bundle) (hnd : c0.nums.Nodup) (h : fwdOut cfg st now sp c0 = some b)
    (x : Blk) (hx : x ∈ c0.blocks) (ht : x.c.typeCode = typePayload) (d : Bytes)
    (hd : x.c.btsd = some d) (hadm : x.adminReenc = none) :
    ∃ y ∈ b.blocks, y.typeCode = typePayload ∧ y.blockNum = x.num ∧ y.btsd = some d := by
  have hc : x.cls = .other := by
    simp only [Blk.cls, ht, typePayload, typePrevNode, typeAge, typeHop]
    cases x.parsed <;> simp
  obtain ⟨y, hy, h1, h2, _, _, h5⟩ :=
    C11_other_blocks_kept cfg st now sp c0 b hnd h x hx (by rw [hc]; decide) (by rw [hc]; decide)
  refine ⟨y, hy, ?_, ?_, ?_⟩
  · rw [h1, (bumpHop_c x).1, ht]
  · rw [h2, (bumpHop_c x).1]; rfl
  · rw [h5]
    simp [Blk.wireBtsd, (bumpHop_c x).1, (bumpHop_c x).2.1, hadm, hd]

/-- witness (harness `w_adminnc`): an admin-flagged bundle whose status report
    `[1, [[[true],[false],[false],[false]], 6, dtn://o/, [1, 2]]]` carries the reason code in the
    non-shortest form `18 06`; dissection + rebuild yields the shortest form `06` -/
def wRecHead : Bytes := [0x82, 0x01, 0x84, 0x84, 0x81, 0xf5, 0x81, 0xf4, 0x81, 0xf4, 0x81, 0xf4]
def wRecTail : Bytes := [0x82, 0x01, 0x64, 0x2f, 0x2f, 0x6f, 0x2f, 0x82, 0x01, 0x02]
def wAdminBlk : Blk :=
  { c := { typeCode := 1, blockNum := 1, btsd := some (wRecHead ++ [0x18, 0x06] ++ wRecTail) },
    adminReenc := some (wRecHead ++ [0x06] ++ wRecTail) }
def wAdmin : Ctr := { primary := { wPri 5000 0 60000 with flags := 2 }, blocks := [wAdminBlk] }

/-- **The code violates the full statement** for administrative-record payloads. -/
theorem C11_payload_unchanged_counterexample : ¬ PayloadUnchanged := by
  intro h
  have hb : ∃ b, fwdOut wCfg {} 9000 wSp wAdmin = some b
      ∧ ¬ ∃ y ∈ b.blocks, y.typeCode = typePayload ∧ y.blockNum = 1 ∧ y.btsd = some (wRecHead ++ [0x18, 0x06] ++ wRecTail) := by
    refine ⟨_, rfl, ?_⟩; decide
  obtain ⟨b, hb, hn⟩ := hb
  exact hn (h wCfg {} 9000 wSp wAdmin b (by decide) hb wAdminBlk (by simp [wAdmin]) rfl _ rfl)

/-! ### hop count, in the encoded BTSD -/

/-- Full statement: every hop-count block leaves with its count one greater, in the BTSD
    octets that are encoded. -/
def HopPlusOne : Prop :=
  ∀ (cfg : Cfg) (st : St) (now : Nat) (sp : SendParams) (c0 : Ctr) (b : Bundle),
    c0.nums.Nodup → fwdOut cfg st now sp c0 = some b →
    ∀ x ∈ c0.blocks, x.c.typeCode = typeHop → x.parsed = true → ∀ l c,
      x.c.btsd = some (encHopCount l c) → x.hop = some (l, c) →
      ∃ y ∈ b.blocks, y.typeCode = typeHop ∧ y.blockNum = x.num ∧ y.btsd = some (encHopCount l (c + 1))

/-- What the code does (D10): the count is bumped in memory only; the cached BTSD octets of a
    received hop-count block are what is encoded — the received count, not count + 1. -/
theorem C11_hop_bytes_stale (cfg : Cfg) (st : St) (now : Nat) (sp : SendParams) (c0 : Ctr) (b : Bundle)
    (hnd : c0.nums.Nodup) (h : fwdOut cfg st now sp c0 = some b)
    (x : Blk) (hx : x ∈ c0.blocks) (ht : x.c.typeCode = typeHop) (hp : x.parsed = true)
    (d : Bytes) (hd : x.c.btsd = some d) (hadm : x.adminReenc = none) :
    ∃ y ∈ b.blocks, y.typeCode = typeHop ∧ y.blockNum = x.num ∧ y.btsd = some d := by
  have hc := hop_cls x ht hp
  obtain ⟨y, hy, h1, h2, _, _, h5⟩ :=
    C11_other_blocks_kept cfg st now sp c0 b hnd h x hx (by rw [hc]; decide) (by rw [hc]; decide)
  refine ⟨y, hy, ?_, ?_, ?_⟩
  · rw [h1, (bumpHop_c x).1, ht]
  · rw [h2, (bumpHop_c x).1]; rfl
  · rw [h5]
    simp [Blk.wireBtsd, (bumpHop_c x).1, (bumpHop_c x).2.1, hadm, hd]

/-- **Holds when the BTSD cache is absent** (`fields['btsd']` unset, so
    `ensure_block_type_specific_data` regenerates it from the in-memory payload): then the
    encoded count is count + 1. Missing part: received blocks always carry the cache — the
    excluded region is every received hop-count block, see the counterexample. -/
theorem C11_hop_plus_one_partial (cfg : Cfg) (st : St) (now : Nat) (sp : SendParams) (c0 : Ctr) (b : Bundle)
    (hnd : c0.nums.Nodup) (h : fwdOut cfg st now sp c0 = some b)
    (x : Blk) (hx : x ∈ c0.blocks) (ht : x.c.typeCode = typeHop) (hp : x.parsed = true)
    (l c : Nat) (hcache : x.c.btsd = none) (hmem : x.hop = some (l, c)) (hadm : x.adminReenc = none) :
    ∃ y ∈ b.blocks, y.typeCode = typeHop ∧ y.blockNum = x.num ∧ y.btsd = some (encHopCount l (c + 1)) := by
  have hc := hop_cls x ht hp
  obtain ⟨y, hy, h1, h2, _, _, h5⟩ :=
    C11_other_blocks_kept cfg st now sp c0 b hnd h x hx (by rw [hc]; decide) (by rw [hc]; decide)
  refine ⟨y, hy, ?_, ?_, ?_⟩
  · rw [h1, (bumpHop_c x).1, ht]
  · rw [h2, (bumpHop_c x).1]; rfl
  · rw [h5]
    simp [Blk.wireBtsd, bumpHop, hc, hadm, hcache, hmem]

/-- witness shared with the harness (`w_d10`): hop-count block number 2, `[30, 4]` -/
def wHopBlk : Blk :=
  { c := { typeCode := 10, blockNum := 2, btsd := some (encHopCount 30 4) }, hop := some (30, 4) }
def wD10 : Ctr := { primary := wPri 5000 0 60000, blocks := [wHopBlk, wPay] }

/-- **The code violates the full statement (D10)**: `[30, 4]` leaves as `[30, 4]`. -/
theorem C11_hop_plus_one_counterexample : ¬ HopPlusOne := by
  intro h
  have hb : ∃ b, fwdOut wCfg {} 9000 wSp wD10 = some b
      ∧ (¬ ∃ y ∈ b.blocks, y.typeCode = typeHop ∧ y.blockNum = 2 ∧ y.btsd = some (encHopCount 30 5))
      ∧ ∃ y ∈ b.blocks, y.typeCode = typeHop ∧ y.blockNum = 2 ∧ y.btsd = some (encHopCount 30 4) := by
    refine ⟨_, rfl, ?_, ?_⟩ <;> decide
  obtain ⟨b, hb, hn, _⟩ := hb
  exact hn (h wCfg {} 9000 wSp wD10 b (by decide) hb wHopBlk (by simp [wD10]) rfl rfl 30 4 rfl rfl)

/-! ### previous node -/

/-- Full statement: exactly one previous-node block leaves, naming this node. -/
def OnePrevNode : Prop :=
  ∀ (cfg : Cfg) (st : St) (now : Nat) (sp : SendParams) (c0 : Ctr) (b : Bundle),
    c0.nums.Nodup → fwdOut cfg st now sp c0 = some b →
    (b.blocks.filter (isType typePrevNode)).length = 1
    ∧ ∀ y ∈ b.blocks, y.typeCode = typePrevNode → y.btsd = some (encPrevNode cfg.nodeId)


/-- **Holds when the received bundle carries at most one previous-node block and its BTSD
    dissects.** Missing part: the removal loop iterates the list it shrinks (every other
    dissected block survives) and never sees a type-6 block whose BTSD did not dissect. -/
theorem C11_one_prev_node_partial (cfg : Cfg) (st : St) (now : Nat) (sp : SendParams) (c0 : Ctr)
    (b : Bundle) (hnd : c0.nums.Nodup) (h : fwdOut cfg st now sp c0 = some b)
    (hp : ∀ x ∈ c0.blocks, x.c.typeCode = typePrevNode → x.parsed = true)
    (hl : (c0.clsNums .prev).length ≤ 1) :
    (b.blocks.filter (isType typePrevNode)).length = 1
    ∧ ∀ y ∈ b.blocks, y.typeCode = typePrevNode → y.btsd = some (encPrevNode cfg.nodeId) := by
  obtain ⟨hok, rfl⟩ := fwdOut_some _ _ _ _ _ _ h
  obtain ⟨S⟩ := fwdEdit_stages cfg st now c0 hok
  simp only [Ctr.wire, applyPrimary_blocks]
  constructor
  · rw [count_types]
    apply filter_len_one _ _ (newBlk typePrevNode S.n (encPrevNode cfg.nodeId))
      (nodup_of_map _ _ (S.out_nodup hnd))
    · intro x hx ht
      exact (typed_blocks cfg st now c0 _ S hnd x hx).1 (by simpa using ht) hp hl
    · exact S.new6_mem hnd
    · simp [newBlk]
  · intro y hy ht
    obtain ⟨x, hx, h1, _, _, _, h5⟩ := mem_finalBlocks _ _ _ hy
    have := (typed_blocks cfg st now c0 _ S hnd x hx).1 (by rw [← h1]; exact ht) hp hl
    rw [h5, this]
    rfl

def wDupPrev : Ctr :=
  { primary := wPri 5000 0 60000,
    blocks := [{ c := { typeCode := 6, blockNum := 2, btsd := some (encPrevNode (.dtn [47, 47, 112, 49, 47])) } },
               { c := { typeCode := 6, blockNum := 3, btsd := some (encPrevNode (.dtn [47, 47, 112, 50, 47])) } },
               wPay] }

/-- **The code violates the full statement**: of two received previous-node blocks the second
    survives next to the new one (harness witness `w_dupprev`). -/
theorem C11_one_prev_node_counterexample : ¬ OnePrevNode := by
  intro h
  have hb : ∃ b, fwdOut wCfg {} 9000 wSp wDupPrev = some b
      ∧ (b.blocks.filter (isType typePrevNode)).length = 2 := ⟨_, rfl, by decide⟩
  obtain ⟨b, hb, hn⟩ := hb
  have := (h wCfg {} 9000 wSp wDupPrev b (by decide) hb).1
  omega

/-! ### bundle age -/

/-- Full statement: at most one age block leaves; when the creation time is not 0 there is
    exactly one and it carries `now - creation time`. -/
def AgeAtMostOne : Prop :=
  ∀ (cfg : Cfg) (st : St) (now : Nat) (sp : SendParams) (c0 : Ctr) (b : Bundle),
    c0.nums.Nodup → fwdOut cfg st now sp c0 = some b → c0.primary.ts.time ≤ now →
    (b.blocks.filter (isType typeAge)).length ≤ 1
    ∧ (c0.primary.ts.time ≠ 0 →
        ∃ y ∈ b.blocks, y.typeCode = typeAge ∧ y.btsd = some (encBundleAge (now - c0.primary.ts.time)))

/-- **Holds when the received bundle carries at most one age block and its BTSD dissects**
    (the node clock not behind the creation time). Missing part: as for previous-node blocks,
    every other one of several age blocks survives; an undissected one is never removed. -/
theorem C11_age_at_most_one_partial (cfg : Cfg) (st : St) (now : Nat) (sp : SendParams) (c0 : Ctr)
    (b : Bundle) (hnd : c0.nums.Nodup) (h : fwdOut cfg st now sp c0 = some b)
    (hnow : c0.primary.ts.time ≤ now)
    (hp : ∀ x ∈ c0.blocks, x.c.typeCode = typeAge → x.parsed = true)
    (hl : (c0.clsNums .age).length ≤ 1) :
    (b.blocks.filter (isType typeAge)).length ≤ 1
    ∧ (c0.primary.ts.time ≠ 0 →
        ∃ y ∈ b.blocks, y.typeCode = typeAge ∧ y.btsd = some (encBundleAge (now - c0.primary.ts.time))) := by
  obtain ⟨hok, rfl⟩ := fwdOut_some _ _ _ _ _ _ h
  obtain ⟨S⟩ := fwdEdit_stages cfg st now c0 hok
  simp only [Ctr.wire, applyPrimary_blocks]
  have hall : ∀ x ∈ (fwdEdit cfg st now c0).2.1.blocks, x.c.typeCode = typeAge →
      c0.primary.ts.time ≠ 0 ∧ ∃ m, x = newBlk typeAge m (encAge now c0.primary.ts.time) :=
    fun x hx ht => (typed_blocks cfg st now c0 _ S hnd x hx).2 ht hp hl
  have hndo := nodup_of_map _ _ (S.out_nodup hnd)
  constructor
  · rw [count_types]
    -- all type-7 blocks are the new one: a duplicate-free list has it at most once
    match hf : (fwdEdit cfg st now c0).2.1.blocks.filter (fun x => x.c.typeCode == typeAge) with
    | [] => rw [hf]; simp
    | [a] => rw [hf]; simp
    | a1 :: a2 :: r =>
      exfalso
      have hm1 : a1 ∈ (fwdEdit cfg st now c0).2.1.blocks.filter (fun x => x.c.typeCode == typeAge) := by
        rw [hf]; simp
      have hm2 : a2 ∈ (fwdEdit cfg st now c0).2.1.blocks.filter (fun x => x.c.typeCode == typeAge) := by
        rw [hf]; simp
      rw [List.mem_filter] at hm1 hm2
      obtain ⟨_, m1, e1⟩ := hall a1 hm1.1 (by simpa using hm1.2)
      obtain ⟨_, m2, e2⟩ := hall a2 hm2.1 (by simpa using hm2.2)
      have hnn : ((a1 :: a2 :: r).map Blk.num).Nodup := by
        rw [← hf]
        exact List.Nodup.sublist (List.Sublist.map _ List.filter_sublist) (S.out_nodup hnd)
      have hnd2 : (a1 :: a2 :: r).Nodup := nodup_of_map _ _ hnn
      -- the two blocks have different numbers, yet both are the block `add_block` inserted
      rcases S.out_cases with ⟨hz, _⟩ | ⟨_, m, pre7, h5⟩
      · exact (hall a1 hm1.1 (by simpa using hm1.2)).1 hz
      · have hsrc : ∀ a, a ∈ (fwdEdit cfg st now c0).2.1.blocks → a.c.typeCode = typeAge →
            a = newBlk typeAge m (encAge now c0.primary.ts.time) := by
          intro a ha hta
          rw [(addBlock_spec _ _ _ _ _ h5).2, mem_insertBeforeLast] at ha
          rcases ha with rfl | ha
          · rfl
          · exfalso
            -- a block of type 7 already in c4 would be an old dissected age block: all removed
            have := removeCls_none S.c3 .age (S.c3_nodup hnd) (Nat.le_trans S.age_len hl) a ha
            obtain ⟨_, m', e'⟩ := hall a (S.c4_sub_out a ha) hta
            apply this
            rw [e', newBlk_cls7]
        have e1' := hsrc a1 hm1.1 (by simpa using hm1.2)
        have e2' := hsrc a2 hm2.1 (by simpa using hm2.2)
        simp only [List.nodup_cons, List.mem_cons, not_or] at hnd2
        exact hnd2.1.1 (e1'.trans e2'.symm)
  · intro hz
    rcases S.out_cases with ⟨hz0, _⟩ | ⟨_, m, pre7, h5⟩
    · exact absurd hz0 hz
    · have hm : newBlk typeAge m (encAge now c0.primary.ts.time) ∈ (fwdEdit cfg st now c0).2.1.blocks := by
        rw [(addBlock_spec _ _ _ _ _ h5).2, mem_insertBeforeLast]; exact Or.inl rfl
      obtain ⟨y, hy, h1, _, _, _, h5'⟩ := finalBlocks_of_mem _ (takeCrc
        (applyPrimary cfg (fwdEdit cfg st now c0).1 now (fwdEdit cfg st now c0).2.1).2.primary.crcType sp.crcs).2 _ hm
      refine ⟨y, hy, by rw [h1]; rfl, ?_⟩
      rw [h5']
      simp [Blk.wireBtsd, newBlk, encAge, hnow]

def wDupAge : Ctr :=
  { primary := wPri 5000 0 60000,
    blocks := [{ c := { typeCode := 7, blockNum := 2, btsd := some (encBundleAge 5) } },
               { c := { typeCode := 7, blockNum := 3, btsd := some (encBundleAge 6) } }, wPay] }

/-- **The code violates the full statement**: of two received age blocks the second survives
    next to the new one (harness witness `w_dupage`). -/
theorem C11_age_at_most_one_counterexample : ¬ AgeAtMostOne := by
  intro h
  have hb : ∃ b, fwdOut wCfg {} 9000 wSp wDupAge = some b
      ∧ (b.blocks.filter (isType typeAge)).length = 2 := ⟨_, rfl, by decide⟩
  obtain ⟨b, hb, hn⟩ := hb
  have := (h wCfg {} 9000 wSp wDupAge b (by decide) hb (by decide)).1
  omega

/-! ### numbering and order -/

/-- **Block numbers stay unique and the payload stays last, numbered 1** (for a received bundle
    with unique block numbers — `BundleContainer` refuses any other — whose last block is the
    payload block numbered 1). A clash of a sticky or drawn number makes `add_block` raise
    instead (nothing is transmitted). -/
theorem C11_blocknums_unique_payload_last (cfg : Cfg) (st : St) (now : Nat) (sp : SendParams)
    (c0 : Ctr) (b : Bundle) (hnd : c0.nums.Nodup) (h : fwdOut cfg st now sp c0 = some b) :
    (b.blocks.map (·.blockNum)).Nodup
    ∧ ∀ p, c0.blocks.getLast? = some p → p.c.typeCode = typePayload → p.num = 1 →
        ∃ y, b.blocks.getLast? = some y ∧ y.typeCode = typePayload ∧ y.blockNum = 1 := by
  obtain ⟨hok, rfl⟩ := fwdOut_some _ _ _ _ _ _ h
  obtain ⟨S⟩ := fwdEdit_stages cfg st now c0 hok
  simp only [Ctr.wire, applyPrimary_blocks]
  constructor
  · rw [finalBlocks_nums]; exact S.out_nodup hnd
  · intro p hl ht hn
    have hc : p.cls = .other := by
      simp only [Blk.cls, ht, typePayload, typePrevNode, typeAge, typeHop]
      cases p.parsed <;> simp
    have := S.last hnd p hl (by rw [hc]; decide) (by rw [hc]; decide)
    obtain ⟨y, hy, h1, h2, _⟩ := finalBlocks_getLast _ (takeCrc
      (applyPrimary cfg (fwdEdit cfg st now c0).1 now (fwdEdit cfg st now c0).2.1).2.primary.crcType sp.crcs).2 _ this
    refine ⟨y, hy, ?_, ?_⟩
    · rw [h1, (bumpHop_c p).1, ht]
    · rw [h2, (bumpHop_c p).1]; exact hn

-- the D10 witness meets the hypotheses of every `_partial` theorem except the hop-count one
example : wD10.nums.Nodup ∧ (wD10.clsNums .prev).length ≤ 1 ∧ (wD10.clsNums .age).length ≤ 1
    ∧ wD10.primary.ts.time ≠ 0 ∧ wD10.primary.lifetime ≠ 0 ∧ wD10.primary.ts.time ≤ 9000
    ∧ wD10.blocks.getLast? = some wPay := by decide

example : ∃ b, fwdOut wCfg {} 9000 wSp wD10 = some b ∧ primaryFieldsEq b.primary wD10.primary :=
  ⟨_, rfl, by unfold primaryFieldsEq; decide⟩

example : ∃ b, fwdOut wCfg {} 9000 wSp wD10 = some b
    ∧ b.blocks.map (fun y => (y.typeCode, y.blockNum)) = [(10, 2), (6, 3), (7, 4), (1, 1)] :=
  ⟨_, rfl, by decide⟩

end C11
end Props
end DtnVerif
