/-
  C11 — forwarding preserves the bundle and updates only the hop-by-hop blocks, in the
  transmitted bytes. All statements are about `fwdOut`, the `Bundle` value that `Bundle.enc` is
  applied to when `_do_fwd` hands octets to the convergence layer (`C11_tx_is_fwdOut`); the
  BTSD fields of its blocks are the octets that are encoded.
  Model: Model/Container.lean, Model/BpAgent.lean; lemmas: Lemmas/AgentFwd.lean.
-/
import DtnVerif.Lemmas.AgentFwd
namespace DtnVerif
namespace Props
namespace C11
open Agent Bp

/-- Constants of the source the model relies on: block type codes of the hop-by-hop blocks,
    the transmit chain. -/
theorem C11_facts :
    ("CanonicalBlock", "PreviousNodeBlock", "bind_type", (typePrevNode : Int)) ∈ Facts.binds
    ∧ ("CanonicalBlock", "BundleAgeBlock", "bind_type", (typeAge : Int)) ∈ Facts.binds
    ∧ ("CanonicalBlock", "HopCountBlock", "bind_type", (typeHop : Int)) ∈ Facts.binds
    ∧ (Facts.chainSteps.filter (fun s => s.1 == "tx_chain")).map (fun s => (s.2.1, s.2.2.2))
        = [(0, "_do_tx_step"), (10, "_apply_bib"), (11, "_apply_bcb"), (20, "_create")] := by
  decide

/-- The octets `_do_fwd` hands to the convergence layer are `Bundle.enc` of `fwdOut`. -/
theorem C11_tx_is_fwdOut (cfg : Cfg) (st : St) (now : Nat) (sp : SendParams) (c0 : Ctr) (q : List Ctr)
    (hq : st.fwdQ = c0 :: q) (d : Bytes) (hd : Effect.tx d ∈ (doFwd cfg st now sp).2) :
    ∃ b, fwdOut cfg { st with fwdQ := q } now sp c0 = some b ∧ d = b.enc :=
  doFwd_tx cfg st now sp c0 q hq d hd

/-- The hop-by-hop edits never fail (block numbers are drawn fresh): a bundle routed forward is
    handed to the convergence layer whenever a transmit route matches, its CL is attached and
    the fragment step does not take the bundle over. -/
theorem C11_forward_is_sent (cfg : Cfg) (st : St) (now : Nat) (sp : SendParams) (c0 : Ctr)
    (hr : sp.txBits.any id = true) (hcl : sp.clOk = true)
    (hf : sp.frag = .none ∨ sp.frag = .raises) : ∃ b, fwdOut cfg st now sp c0 = some b := by
  have hok := (fwdEdit_stages cfg st now c0).1
  unfold fwdOut
  simp only [hok, if_true, sendAsIs, sendRes, hr, hcl]
  rcases hf with h | h <;> simp [h]

/-! ### primary block -/

/-- the primary block fields named by the property (and the CRC type and fragment fields) -/
def primaryFieldsEq (p q : Primary) : Prop :=
  p.version = q.version ∧ p.flags = q.flags ∧ p.dest = q.dest ∧ p.src = q.src ∧ p.rpt = q.rpt
  ∧ p.ts = q.ts ∧ p.lifetime = q.lifetime ∧ p.crcType = q.crcType ∧ p.fragOff = q.fragOff
  ∧ p.totalLen = q.totalLen

/-- **Primary block unchanged.** Whatever was received — creation time 0, lifetime 0, an absent
    (CBOR null) report-to included — every primary block field of the forwarded bundle equals
    the received one: `_do_fwd` sends with `as_source=False`, so `_apply_primary` does not run.
    (Only the CRC value is recomputed.) -/
theorem C11_primary_unchanged (cfg : Cfg) (st : St) (now : Nat) (sp : SendParams) (c0 : Ctr)
    (b : Bundle) (h : fwdOut cfg st now sp c0 = some b) :
    primaryFieldsEq b.primary c0.primary := by
  obtain ⟨_, rfl⟩ := fwdOut_some _ _ _ _ _ _ h
  obtain ⟨_, hp, _, _, _⟩ := fwdEdit_meta cfg st now c0
  simp only [Ctr.wire, primaryFieldsEq, hp]
  simp

/-- **Every bit of the bundle processing flags is preserved**, named in `PrimaryBlock.Flag` or
    not (reserved / unassigned bits included): the flags field is an arbitrary natural number in
    the model and leaves as received. -/
theorem C11_flags_bits_preserved (cfg : Cfg) (st : St) (now : Nat) (sp : SendParams) (c0 : Ctr)
    (b : Bundle) (h : fwdOut cfg st now sp c0 = some b) :
    ∀ k, b.primary.flags.testBit k = c0.primary.flags.testBit k := by
  intro k
  rw [(C11_primary_unchanged cfg st now sp c0 b h).2.1]

/-- **The primary EIDs leave as received, whatever their text**: destination, source and
    report-to are opaque octet strings to the forwarder — a query or fragment part (`?…`, `#…`, empty
    ones included) is part of the scheme-specific part and is neither parsed nor rebuilt. -/
theorem C11_eids_unchanged (cfg : Cfg) (st : St) (now : Nat) (sp : SendParams) (c0 : Ctr)
    (b : Bundle) (h : fwdOut cfg st now sp c0 = some b) :
    b.primary.dest = c0.primary.dest ∧ b.primary.src = c0.primary.src ∧ b.primary.rpt = c0.primary.rpt := by
  obtain ⟨_, _, h3, h4, h5, _⟩ := C11_primary_unchanged cfg st now sp c0 b h
  exact ⟨h3, h4, h5⟩

/-- witnesses shared with the harness (harness/props/c11.py `w_d11`, `w_life0`, …) -/
def wCfg : Cfg := { nodeId := .dtn [47, 47, 110, 111, 100, 101, 47], rxRoutes := [.forward] }
def wSp : SendParams := { txBits := [true] }
def wPay : Blk := { c := { typeCode := 1, blockNum := 1, btsd := some [1, 2, 3] } }
def wPri (time seq life : Nat) : Primary :=
  { dest := .dtn [47, 47, 102, 97, 114, 47, 120], src := .dtn [47, 47, 115, 114, 99, 47],
    ts := ⟨time, seq⟩, lifetime := life }
def wD11 : Ctr :=
  { primary := wPri 0 7 60000,
    blocks := [{ c := { typeCode := 7, blockNum := 2, btsd := some (encBundleAge 5) } }, wPay] }
def wLife0 : Ctr := { primary := wPri 5000 0 0, blocks := [wPay] }
def wNullRpt : Ctr :=
  { primary := { wPri 5000 0 60000 with flags := 0x10000 }, rptNone := true, blocks := [wPay] }

-- the former D11 witnesses: creation time [0, 7], lifetime 0 and the absent report-to stay as received
example : ∃ b, fwdOut wCfg {} 9000 wSp wD11 = some b ∧ b.primary.ts = ⟨0, 7⟩
    ∧ b.blocks.map (·.typeCode) = [6, 1] := ⟨_, rfl, by decide, by decide⟩
example : ∃ b, fwdOut wCfg {} 9000 wSp wLife0 = some b ∧ b.primary.lifetime = 0 := ⟨_, rfl, by decide⟩
-- destination dtn://far/x#inbox (harness `w_eidparts`): the '#inbox' stays
example : ∃ b, fwdOut wCfg {} 9000 wSp { primary := { wPri 5000 0 60000 with dest := .dtn [47, 47, 102, 97, 114, 47, 120, 35, 105, 110, 98, 111, 120] }, blocks := [wPay] } = some b
    ∧ b.primary.dest = .dtn [47, 47, 102, 97, 114, 47, 120, 35, 105, 110, 98, 111, 120] := ⟨_, rfl, by decide⟩
-- a reserved flag bit (0x200000) next to NO_FRAGMENT, primary CRC type 0 (harness `w_resflags`)
example : ∃ b, fwdOut wCfg {} 9000 wSp { primary := { wPri 5000 0 60000 with flags := 0x200004 }, blocks := [wPay] } = some b
    ∧ b.primary.flags = 0x200004 := ⟨_, rfl, by decide⟩
example : ∃ b, fwdOut wCfg {} 9000 wSp wNullRpt = some b ∧ b.primary.rpt = .dtnNone := ⟨_, rfl, by decide⟩

/-! ### blocks that are neither previous-node nor age blocks -/

/-- Every received block whose type is neither 6 nor 7 is encoded with its type, number, flags,
    CRC type, and the BTSD `wireBtsd` picks for it after the hop-count bump. -/
theorem C11_other_blocks_kept (cfg : Cfg) (st : St) (now : Nat) (sp : SendParams) (c0 : Ctr) (b : Bundle)
    (hnd : c0.nums.Nodup) (h : fwdOut cfg st now sp c0 = some b) (x : Blk) (hx : x ∈ c0.blocks)
    (h6 : x.c.typeCode ≠ typePrevNode) (h7 : x.c.typeCode ≠ typeAge) :
    ∃ y ∈ b.blocks, wireOf (bumpHop x) y := by
  obtain ⟨_, rfl⟩ := fwdOut_some _ _ _ _ _ _ h
  obtain ⟨S⟩ := (fwdEdit_stages cfg st now c0).2
  have := S.keep hnd x hx h6 h7
  simp only [Ctr.wire]
  exact finalBlocks_of_mem _ _ _ this

/-- **Payload unchanged.** The payload block leaves with the octets it arrived with (whatever
    the administrative-record flag says: a cached BTSD is never re-encoded). -/
theorem C11_payload_unchanged (cfg : Cfg) (st : St) (now : Nat) (sp : SendParams) (c0 : Ctr)
    (b : Bundle) (hnd : c0.nums.Nodup) (h : fwdOut cfg st now sp c0 = some b)
    (x : Blk) (hx : x ∈ c0.blocks) (ht : x.c.typeCode = typePayload) (d : Bytes)
    (hd : x.c.btsd = some d) :
    ∃ y ∈ b.blocks, y.typeCode = typePayload ∧ y.blockNum = x.num ∧ y.btsd = some d := by
  have hnh : x.isHop = false := by simp [Blk.isHop, ht, typePayload, typeHop]
  obtain ⟨y, hy, h1, h2, _, _, h5⟩ :=
    C11_other_blocks_kept cfg st now sp c0 b hnd h x hx (by rw [ht]; decide) (by rw [ht]; decide)
  rw [bumpHop_not_hop x hnh] at h1 h2 h5
  refine ⟨y, hy, by rw [h1, ht], by rw [h2]; rfl, ?_⟩
  rw [h5]
  simp [Blk.wireBtsd, hd]

/-- the same holds for every other extension block that is not a dissected hop-count block -/
theorem C11_extension_unchanged (cfg : Cfg) (st : St) (now : Nat) (sp : SendParams) (c0 : Ctr)
    (b : Bundle) (hnd : c0.nums.Nodup) (h : fwdOut cfg st now sp c0 = some b)
    (x : Blk) (hx : x ∈ c0.blocks) (h6 : x.c.typeCode ≠ typePrevNode) (h7 : x.c.typeCode ≠ typeAge)
    (hnh : x.isHop = false) (d : Bytes) (hd : x.c.btsd = some d) :
    ∃ y ∈ b.blocks, y.typeCode = x.c.typeCode ∧ y.blockNum = x.num ∧ y.flags = x.c.flags
      ∧ y.crcType = x.c.crcType ∧ y.btsd = some d := by
  obtain ⟨y, hy, h1, h2, h3, h4, h5⟩ := C11_other_blocks_kept cfg st now sp c0 b hnd h x hx h6 h7
  rw [bumpHop_not_hop x hnh] at h1 h2 h3 h4 h5
  exact ⟨y, hy, h1, h2, h3, h4, by rw [h5]; simp [Blk.wireBtsd, hd]⟩

/-! ### hop count, in the encoded BTSD -/

/-- **Hop count + 1 in the bytes.** Every dissected hop-count block (`x.hop = some (l, c)` is
    what dissection of its BTSD gave) leaves with the same number and with BTSD
    `[l, c + 1]`: the cached octets are dropped after the bump, so the encoder regenerates them. -/
theorem C11_hop_plus_one (cfg : Cfg) (st : St) (now : Nat) (sp : SendParams) (c0 : Ctr) (b : Bundle)
    (hnd : c0.nums.Nodup) (h : fwdOut cfg st now sp c0 = some b)
    (x : Blk) (hx : x ∈ c0.blocks) (ht : x.c.typeCode = typeHop) (hp : x.parsed = true)
    (l c : Nat) (hmem : x.hop = some (l, c)) (hadm : x.adminReenc = none) :
    ∃ y ∈ b.blocks, y.typeCode = typeHop ∧ y.blockNum = x.num ∧ y.btsd = some (encHopCount l (c + 1)) := by
  have hh : x.isHop = true := by simp [Blk.isHop, ht, hp]
  obtain ⟨y, hy, h1, h2, _, _, h5⟩ :=
    C11_other_blocks_kept cfg st now sp c0 b hnd h x hx (by rw [ht]; decide) (by rw [ht]; decide)
  refine ⟨y, hy, ?_, ?_, ?_⟩
  · rw [h1, (bumpHop_keeps x).1, ht]
  · rw [h2, (bumpHop_keeps x).2.1]; rfl
  · rw [h5]
    simp [Blk.wireBtsd, bumpHop, hh, hadm, hmem]

/-- witness shared with the harness (`w_d10`): hop-count block number 2, `[30, 4]` -/
def wHopBlk : Blk :=
  { c := { typeCode := 10, blockNum := 2, btsd := some (encHopCount 30 4) }, hop := some (30, 4) }
def wD10 : Ctr := { primary := wPri 5000 0 60000, blocks := [wHopBlk, wPay] }

example : ∃ b, fwdOut wCfg {} 9000 wSp wD10 = some b
    ∧ ∃ y ∈ b.blocks, y.typeCode = typeHop ∧ y.blockNum = 2 ∧ y.btsd = some (encHopCount 30 5) :=
  ⟨_, rfl, by decide⟩

/-! ### previous node -/

/-- **Exactly one previous-node block leaves, naming this node** — whatever type-6 blocks were
    received (several, or with a BTSD that does not dissect). -/
theorem C11_one_prev_node (cfg : Cfg) (st : St) (now : Nat) (sp : SendParams) (c0 : Ctr)
    (b : Bundle) (hnd : c0.nums.Nodup) (h : fwdOut cfg st now sp c0 = some b) :
    (b.blocks.filter (isType typePrevNode)).length = 1
    ∧ ∀ y ∈ b.blocks, y.typeCode = typePrevNode → y.btsd = some (encPrevNode cfg.nodeId) := by
  obtain ⟨_, rfl⟩ := fwdOut_some _ _ _ _ _ _ h
  obtain ⟨S⟩ := (fwdEdit_stages cfg st now c0).2
  simp only [Ctr.wire]
  have hall : ∀ x ∈ (fwdEdit cfg st now c0).2.1.blocks, x.c.typeCode = typePrevNode →
      x = newBlk typePrevNode S.n (encPrevNode cfg.nodeId) := by
    intro x hx ht
    rcases S.mem_out hnd x hx with rfl | ⟨_, m, rfl⟩ | ⟨x0, _, rfl, h6, _⟩
    · rfl
    · simp [newBlk, typeAge, typePrevNode] at ht
    · rw [(bumpHop_keeps x0).1] at ht; exact absurd ht h6
  constructor
  · rw [count_types]
    apply filter_len_one _ _ (newBlk typePrevNode S.n (encPrevNode cfg.nodeId))
      (nodup_of_map _ _ (S.out_nodup hnd))
    · intro x hx ht; exact hall x hx (by simpa using ht)
    · exact S.new6_mem hnd
    · simp [newBlk]
  · intro y hy ht
    obtain ⟨x, hx, h1, _, _, _, h5⟩ := mem_finalBlocks _ _ _ hy
    rw [h5, hall x hx (by rw [← h1]; exact ht)]
    rfl

def wDupPrev : Ctr :=
  { primary := wPri 5000 0 60000,
    blocks := [{ c := { typeCode := 6, blockNum := 2, btsd := some (encPrevNode (.dtn [47, 47, 112, 49, 47])) } },
               { c := { typeCode := 6, blockNum := 3, btsd := some (encPrevNode (.dtn [47, 47, 112, 50, 47])) } },
               { c := { typeCode := 6, blockNum := 4, btsd := some [0x82, 0x01] }, parsed := false },
               wPay] }

-- two received previous-node blocks and one whose BTSD does not dissect: one leaves (harness `w_dupprev`)
example : ∃ b, fwdOut wCfg {} 9000 wSp wDupPrev = some b
    ∧ b.blocks.map (fun y => (y.typeCode, y.blockNum)) = [(6, 2), (7, 3), (1, 1)] := ⟨_, rfl, by decide⟩

/-! ### bundle age -/

/-- **At most one age block leaves**; when the creation time is not 0 there is exactly one and it
    carries `max(0, now - creation time)` (`Nat` subtraction). With creation time 0 none leaves:
    the received age blocks are removed and no new one is added (see the note in the report). -/
theorem C11_age_at_most_one (cfg : Cfg) (st : St) (now : Nat) (sp : SendParams) (c0 : Ctr)
    (b : Bundle) (hnd : c0.nums.Nodup) (h : fwdOut cfg st now sp c0 = some b) :
    (b.blocks.filter (isType typeAge)).length = (if c0.primary.ts.time = 0 then 0 else 1)
    ∧ ∀ y ∈ b.blocks, y.typeCode = typeAge →
        y.btsd = some (encBundleAge (now - c0.primary.ts.time)) := by
  obtain ⟨_, rfl⟩ := fwdOut_some _ _ _ _ _ _ h
  obtain ⟨S⟩ := (fwdEdit_stages cfg st now c0).2
  simp only [Ctr.wire]
  have hall : ∀ x ∈ (fwdEdit cfg st now c0).2.1.blocks, x.c.typeCode = typeAge →
      c0.primary.ts.time ≠ 0 ∧ ∃ m, x = newBlk typeAge m (encAge now c0.primary.ts.time) := by
    intro x hx ht
    rcases S.mem_out hnd x hx with rfl | ⟨hz, m, rfl⟩ | ⟨x0, _, rfl, _, h7⟩
    · simp [newBlk, typeAge, typePrevNode] at ht
    · exact ⟨hz, m, rfl⟩
    · rw [(bumpHop_keeps x0).1] at ht; exact absurd ht h7
  constructor
  · rw [count_types]
    rcases S.out_cases with ⟨hz, _⟩ | ⟨hz, m, h5⟩
    · simp only [hz, if_true]
      rw [List.length_eq_zero_iff, List.filter_eq_nil_iff]
      intro x hx ht
      exact (hall x hx (by simpa using ht)).1 hz
    · simp only [hz, if_false]
      apply filter_len_one _ _ (newBlk typeAge m (encAge now c0.primary.ts.time))
        (nodup_of_map _ _ (S.out_nodup hnd))
      · intro x hx ht
        have ht' : x.c.typeCode = typeAge := by simpa using ht
        rw [(addBlock_spec _ _ _ _ h5).2, mem_insertBeforeLast] at hx
        rcases hx with rfl | hx
        · rfl
        · exact absurd ht' (removeType_none S.c3 typeAge (S.c3_nodup hnd) x hx)
      · rw [(addBlock_spec _ _ _ _ h5).2, mem_insertBeforeLast]; exact Or.inl rfl
      · simp [newBlk]
  · intro y hy ht
    obtain ⟨x, hx, h1, _, _, _, h5⟩ := mem_finalBlocks _ _ _ hy
    obtain ⟨_, m, rfl⟩ := hall x hx (by rw [← h1]; exact ht)
    rw [h5]
    rfl

/-- **A creation time ahead of the node clock gives age 0**, never a positive age. -/
theorem C11_age_zero_for_future_creation (cfg : Cfg) (st : St) (now : Nat) (sp : SendParams) (c0 : Ctr)
    (b : Bundle) (hnd : c0.nums.Nodup) (h : fwdOut cfg st now sp c0 = some b)
    (hfut : now ≤ c0.primary.ts.time) :
    ∀ y ∈ b.blocks, y.typeCode = typeAge → y.btsd = some (encBundleAge 0) := by
  intro y hy ht
  have := (C11_age_at_most_one cfg st now sp c0 b hnd h).2 y hy ht
  rwa [Nat.sub_eq_zero_of_le hfut] at this

def wDupAge : Ctr :=
  { primary := wPri 5000 0 60000,
    blocks := [{ c := { typeCode := 7, blockNum := 2, btsd := some (encBundleAge 5) } },
               { c := { typeCode := 7, blockNum := 3, btsd := some (encBundleAge 6) } }, wPay] }
def wFuture : Ctr := { primary := wPri 10000 0 60000, blocks := [wPay] }

-- two received age blocks: one leaves, carrying 9000 - 5000 (harness `w_dupage`)
example : ∃ b, fwdOut wCfg {} 9000 wSp wDupAge = some b
    ∧ b.blocks.map (fun y => (y.typeCode, y.blockNum, y.btsd)) =
        [(6, 4, some (encPrevNode wCfg.nodeId)), (7, 5, some (encBundleAge 4000)), (1, 1, some [1, 2, 3])] :=
  ⟨_, rfl, by decide⟩
-- creation time ahead of the node clock: age 0
example : ∃ b, fwdOut wCfg {} 9000 wSp wFuture = some b
    ∧ ∃ y ∈ b.blocks, y.typeCode = typeAge ∧ y.btsd = some (encBundleAge 0) := ⟨_, rfl, by decide⟩

/-! ### numbering and order -/

/-- **Block numbers stay unique and the payload stays last, numbered 1** (for a received bundle
    with unique block numbers — `BundleContainer` refuses any other — whose last block is the
    payload block numbered 1). -/
theorem C11_blocknums_unique_payload_last (cfg : Cfg) (st : St) (now : Nat) (sp : SendParams)
    (c0 : Ctr) (b : Bundle) (hnd : c0.nums.Nodup) (h : fwdOut cfg st now sp c0 = some b) :
    (b.blocks.map (·.blockNum)).Nodup
    ∧ ∀ p, c0.blocks.getLast? = some p → p.c.typeCode = typePayload → p.num = 1 →
        ∃ y, b.blocks.getLast? = some y ∧ y.typeCode = typePayload ∧ y.blockNum = 1 := by
  obtain ⟨_, rfl⟩ := fwdOut_some _ _ _ _ _ _ h
  obtain ⟨S⟩ := (fwdEdit_stages cfg st now c0).2
  simp only [Ctr.wire]
  constructor
  · rw [finalBlocks_nums]; exact S.out_nodup hnd
  · intro p hl ht hn
    have := S.last hnd p hl (by rw [ht]; decide) (by rw [ht]; decide)
    obtain ⟨y, hy, h1, h2, _⟩ := finalBlocks_getLast _ (takeCrc
      (fwdEdit cfg st now c0).2.1.primary.crcType sp.crcs).2 _ this
    refine ⟨y, hy, ?_, ?_⟩
    · rw [h1, (bumpHop_keeps p).1, ht]
    · rw [h2, (bumpHop_keeps p).2.1]; exact hn

/-- **Duplicate block numbers are refused at reception.** A received bundle in which two blocks
    share a number (or one is numbered 0) never becomes a container: `BundleContainer(...)` raises
    in `reload`, the exception leaves the CL callback, nothing is queued, nothing is recorded. -/
theorem C11_duplicate_numbers_not_forwarded (cfg : Cfg) (st : St) (now : Nat) (rx : RxBundle)
    (h : ¬ (rx.blocks.map Blk.num).Nodup ∨ 0 ∈ rx.blocks.map Blk.num) :
    clRecv cfg st now rx = (st, [.escaped]) := by
  have : loadOk rx.blocks = false := by
    simp only [loadOk]
    rcases h with h | h
    · simp [h]
    · have hc : (rx.blocks.map Blk.num).contains 0 = true := List.contains_iff_mem.2 h
      rw [hc]; simp
  simp [clRecv, this]

/-- Hence every container in the forwarding queue has unique block numbers: together with
    `C11_blocknums_unique_payload_last` whatever is transmitted has unique block numbers, for all
    received bundles, whatever their numbering. -/
theorem C11_queue_unique_numbers (cfg : Cfg) (st : St) (now : Nat) (rx : RxBundle) (c : Ctr)
    (h : c ∈ (clRecv cfg st now rx).1.fwdQ) : c ∈ st.fwdQ ∨ c.nums.Nodup := by
  unfold clRecv at h
  split at h
  · exact Or.inl h
  · rename_i hl
    have hnd : (rx.blocks.map Blk.num).Nodup := by
      by_cases hn : (rx.blocks.map Blk.num).Nodup
      · exact hn
      · simp [loadOk, hn] at hl
    rcases recv_cases cfg st now rx with h0 | ⟨_, c1, _, hblk, h1⟩
    · rw [h0] at h; exact Or.inl h
    · rw [h1] at h
      unfold dispose at h
      simp only [] at h
      cases hd : hasAct c1.actions .delete
      · simp only [hd, Bool.false_eq_true, if_false] at h
        cases hf : hasAct c1.actions .forward <;> cases hv : hasAct c1.actions .deliver <;>
          simp only [hf, hv, if_true, if_false, Bool.false_eq_true, finish_fwdQ, List.mem_append, List.mem_singleton] at h
        · exact Or.inl h
        · exact Or.inl h
        · rcases h with h | rfl
          · exact Or.inl h
          · exact Or.inr (by unfold Ctr.nums; rw [hblk]; exact hnd)
        · rcases h with h | rfl
          · exact Or.inl h
          · exact Or.inr (by unfold Ctr.nums; rw [hblk]; exact hnd)
      · simp only [hd, if_true, finish_fwdQ] at h
        exact Or.inl h

def wDupNum : RxBundle :=
  { primary := wPri 5000 0 60000, routeBits := [true],
    blocks := [{ c := { typeCode := 192, blockNum := 2 } }, { c := { typeCode := 193, blockNum := 2 } }, wPay] }

-- two extension blocks numbered 2 (harness stream `dupnum`): refused, nothing queued
example : (clRecv wCfg {} 9000 wDupNum).2 = [.escaped] ∧ (clRecv wCfg {} 9000 wDupNum).1.fwdQ = [] := by decide

-- the D10 witness meets the hypotheses of the theorems above
example : wD10.nums.Nodup ∧ wD10.blocks.getLast? = some wPay := by decide

example : ∃ b, fwdOut wCfg {} 9000 wSp wD10 = some b ∧ primaryFieldsEq b.primary wD10.primary :=
  ⟨_, rfl, by unfold primaryFieldsEq; decide⟩

example : ∃ b, fwdOut wCfg {} 9000 wSp wD10 = some b
    ∧ b.blocks.map (fun y => (y.typeCode, y.blockNum)) = [(10, 2), (6, 3), (7, 4), (1, 1)] :=
  ⟨_, rfl, by decide⟩

end C11
end Props
end DtnVerif
