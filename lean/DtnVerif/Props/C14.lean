/-
  C14 — TCPCL negotiates parameters correctly and keeps its timers.
  Virtual time: `Ep.now` in milliseconds, advanced by `Ev.advance`; a timer source is pending iff its
  deadline field is `some`. The float arithmetic of the segment-size controller is not modelled:
  `Ev.modulate raw` stands for *any* integer it may produce, at any moment.
-/
import DtnVerif.Lemmas.TcpclSys
import DtnVerif.Lemmas.TcpclSysLift
import DtnVerif.Lemmas.TcpclNegotiated
namespace DtnVerif
namespace Tcpcl

theorem C14_facts :
    Facts.const_tcpcl_self__send_segment_size_min = (segSizeMin : Int)
    ∧ Facts.const_tcpcfg_keepalive_time = 0 ∧ Facts.const_tcpcfg_idle_time = 0
    ∧ Facts.enum_tcpcl_SessionTerm_Reason_IDLE_TIMEOUT = 1 := by decide

private theorem setState_fields (e : Ep) (st : String) :
    (setState e st).1.kaTime = e.kaTime ∧ (setState e st).1.idleTime = e.idleTime
    ∧ (setState e st).1.sendSegSize = e.sendSegSize ∧ (setState e st).1.peerInit = e.peerInit
    ∧ (setState e st).1.inSess = e.inSess ∧ (setState e st).1.kaDeadline = e.kaDeadline := by
  unfold setState; split <;> exact ⟨rfl, rfl, rfl, rfl, rfl, rfl⟩

/-- **Negotiation.** Processing the peer's SESS_INIT sets the keepalive to the smaller of the two
    announced values, the idle time to the configured one, the segment size to min(initial, peer MRU),
    and records the peer's node ID and MRUs exactly as announced. -/
theorem C14_negotiation (e : Ep) (p : PeerInit) :
    (onSessInit e p).1.kaTime = min e.cfg.keepalive p.keepalive
    ∧ (onSessInit e p).1.idleTime = e.cfg.idle
    ∧ (onSessInit e p).1.sendSegSize = min e.cfg.segInit p.segMru
    ∧ (onSessInit e p).1.peerInit = some p
    ∧ (onSessInit e p).1.inSess = true := by
  unfold onSessInit
  simp only []
  obtain ⟨a, b, c, d, f, _⟩ := setState_fields (mergeSession
    { (if e.cfg.passive then sendInit e else e) with peerInit := some p, inSess := true } p) "established"
  rw [a, b, c, d, f]
  cases e.cfg.passive <;> simp [mergeSession, kaReset, idleReset, sendInit, sendMessage, sendReady]

/-- keepalive 0 on either side disables the keepalive timer; otherwise it is armed one interval ahead -/
theorem C14_keepalive_armed (e : Ep) (p : PeerInit) :
    (onSessInit e p).1.kaDeadline =
      if 0 < min e.cfg.keepalive p.keepalive then some (e.now + min e.cfg.keepalive p.keepalive * 1000) else none := by
  unfold onSessInit
  simp only []
  obtain ⟨_, _, _, _, _, g⟩ := setState_fields (mergeSession
    { (if e.cfg.passive then sendInit e else e) with peerInit := some p, inSess := true } p) "established"
  rw [g]
  cases e.cfg.passive <;> simp [mergeSession, kaReset, idleReset, sendInit, sendMessage, sendReady]

/-- every message sent re-arms the keepalive timer one interval after *now* and the idle timer one idle
    time after *now* (so a KEEPALIVE is due exactly when the interval elapses with nothing else sent) -/
theorem C14_rearm_on_send (e : Ep) (m : Msg) :
    (sendMessage e m).kaDeadline = (if e.kaTime > 0 then some (e.now + e.kaTime * 1000) else none)
    ∧ (sendMessage e m).idleDeadline = (if e.idleTime > 0 then some (e.now + e.idleTime * 1000) else none) :=
  ⟨rfl, rfl⟩

/-- any received octets re-arm the idle timer -/
theorem C14_rearm_on_receive (e : Ep) (c : Bytes) :
    (rxEntry e c).idleDeadline = (if e.idleTime > 0 then some (e.now + e.idleTime * 1000) else none) := rfl

/-- the keepalive timer firing emits exactly one KEEPALIVE (and thereby re-arms itself) -/
theorem C14_keepalive_fires (e : Ep) (d : Nat) (hc : e.closed = false) (hd : e.kaDeadline = some d) :
    (step e .keepaliveTimer).1.emitted = e.emitted ++ [.keepalive]
    ∧ (step e .keepaliveTimer).1.kaDeadline = (if e.kaTime > 0 then some (e.now + e.kaTime * 1000) else none) := by
  unfold step
  simp [hc, hd, sendMessage, sendReady, kaReset, idleReset]

/-- the idle timer firing while established and not terminating starts termination with reason
    idle-timeout (1), not marked as reply -/
theorem C14_idle_terminates (e : Ep) (d : Nat) (hc : e.closed = false) (hd : e.idleDeadline = some d)
    (hs : e.inSess = true) (ht : e.inTerm = false) :
    (step e .idleTimer).1.emitted = e.emitted ++ [.sessTerm 0 1] ∧ (step e .idleTimer).1.inTerm = true := by
  unfold step sendSessTerm
  simp only [hc, hd, hs, ht, Bool.false_eq_true, if_false, Bool.not_true]
  simp only [flushPendStart, sendMessage, sendReady, kaReset, idleReset, setState]
  split <;> simp

/-- … and an endpoint that is already terminating and hears nothing further ends by closing -/
theorem C14_idle_closes_when_terminating (e : Ep) (d : Nat) (hc : e.closed = false)
    (hd : e.idleDeadline = some d) (ht : e.inTerm = true) :
    (step e .idleTimer).1.closed = true := by
  unfold step
  simp only [hc, hd, ht, Bool.false_eq_true, if_false, if_true]
  exact closed_doClose _

/-- a pending keepalive (idle) source implies a positive negotiated keepalive (idle) time -/
theorem C14_timer_pending (cfg : Cfg) (evs : List Ev) :
    ((runEp { cfg := cfg } evs).kaDeadline.isSome = true → 0 < (runEp { cfg := cfg } evs).kaTime)
    ∧ ((runEp { cfg := cfg } evs).idleDeadline.isSome = true → 0 < (runEp { cfg := cfg } evs).idleTime) :=
  timerInv_run evs _ (timerInv_init cfg)

/-- **The clamp.** Whatever integer the controller produces, the new segment size never exceeds the
    peer's segment MRU, and is at least the floor whenever the MRU allows it. -/
theorem C14_clamp (raw : Int) (mru : Nat) :
    clampSeg raw mru ≤ mru ∧ (segSizeMin ≤ mru → segSizeMin ≤ clampSeg raw mru) := by
  unfold clampSeg segSizeMin
  refine ⟨Nat.min_le_right _ _, ?_⟩
  intro h
  have : (10240 : Int) ≤ max raw 10240 := Int.le_max_right _ _
  have h2 : 10240 ≤ (max raw 10240).toNat := by omega
  omega

/-- **No segment larger than the peer's segment MRU, even while adapting.** For every schedule with
    arbitrary controller outputs interleaved (assume–guarantee form against any legal peer): every
    segment emitted so far, and the current segment size, are within the MRU the peer announced. -/
theorem C14_seg_le_mru (cfg : Cfg) (evs : List Ev) (h1 : 0 < cfg.segInit) (h2 : cfg.privExt = false)
    (hsend : ∀ d, Ev.send d ∈ evs → d.length < 2 ^ 64)
    (hleg : Legal (runEp (started cfg) evs).processed)
    (hok : ∀ m ∈ (runEp (started cfg) evs).processed, okMsg m) :
    ∀ p, (runEp (started cfg) evs).peerInit = some p →
      (runEp (started cfg) evs).sendSegSize ≤ p.segMru
      ∧ ∀ m ∈ (runEp (started cfg) evs).emitted, segLen m ≤ p.segMru := by
  obtain ⟨P, hP⟩ := txInv_run evs _ {} (txInv_started cfg h1 h2) (timerInv_started cfg) hsend hleg hok
  intro p hp
  have := hP.mru.1 p hp
  exact ⟨this.2.1, this.2.2⟩

/-- the same in the two-endpoint system, for every schedule -/
theorem C14_seg_le_mru_sys (cfgA cfgB : Cfg) (sch : List SysEv)
    (a1 : 0 < cfgA.segInit) (a2 : cfgA.privExt = false) (a3 : 0 < cfgA.segMru)
    (b1 : 0 < cfgB.segInit) (b2 : cfgB.privExt = false) (b3 : 0 < cfgB.segMru)
    (hwf : ∀ pre, pre <+: sch → SysWF (runSys (initSys cfgA cfgB) pre))
    (hs : ∀ ev ∈ sch, ev.sendOK) :
    let s := runSys (initSys cfgA cfgB) sch
    (∀ p, s.a.peerInit = some p → ∀ m ∈ s.a.emitted, segLen m ≤ p.segMru)
    ∧ (∀ p, s.b.peerInit = some p → ∀ m ∈ s.b.emitted, segLen m ≤ p.segMru) := by
  intro s
  have hi : SysInv s := sysInv_run sch _ (sysInv_init cfgA cfgB a1 a2 a3 b1 b2 b3) hwf hs
  obtain ⟨PA, hA⟩ := hi.ia.tx
  obtain ⟨PB, hB⟩ := hi.ib.tx
  exact ⟨fun p hp => (hA.mru.1 p hp).2.2, fun p hp => (hB.mru.1 p hp).2.2⟩

/-- **Both sides use the same, smaller keepalive interval, and what is on record about the peer is
    what the peer is configured with.** In every reachable state of the two-endpoint system — any
    schedule, chunking, user calls, timers — once an endpoint has the peer's SESS_INIT on record: the
    recorded keepalive, segment MRU, transfer MRU and node ID are the peer's configured values, the
    keepalive interval in use is `min` of the two configured intervals (zero if either is zero), and the
    idle time in use is the endpoint's own configured one. Hence both sides agree on the interval. -/
theorem C14_negotiation_sys (cfgA cfgB : Cfg) (sch : List SysEv)
    (a1 : 0 < cfgA.segInit) (a2 : cfgA.privExt = false) (a3 : 0 < cfgA.segMru)
    (b1 : 0 < cfgB.segInit) (b2 : cfgB.privExt = false) (b3 : 0 < cfgB.segMru)
    (hwf : ∀ pre, pre <+: sch → SysWF (runSys (initSys cfgA cfgB) pre))
    (hs : ∀ ev ∈ sch, ev.sendOK) :
    let s := runSys (initSys cfgA cfgB) sch
    (∀ p, s.a.peerInit = some p →
        p.keepalive = cfgB.keepalive ∧ p.segMru = cfgB.segMru ∧ p.xferMru = sizeMax ∧ p.node = cfgB.nodeId
        ∧ s.a.kaTime = min cfgA.keepalive cfgB.keepalive ∧ s.a.idleTime = cfgA.idle)
    ∧ (∀ p, s.b.peerInit = some p →
        p.keepalive = cfgA.keepalive ∧ p.segMru = cfgA.segMru ∧ p.xferMru = sizeMax ∧ p.node = cfgA.nodeId
        ∧ s.b.kaTime = min cfgB.keepalive cfgA.keepalive ∧ s.b.idleTime = cfgB.idle) := by
  intro s
  have hi : SysInv s := sysInv_run sch _ (sysInv_init cfgA cfgB a1 a2 a3 b1 b2 b3) hwf hs
  have hw : SysWF s := hwf sch (List.prefix_refl _)
  obtain ⟨pB, pA⟩ := transport s hi hw
  obtain ⟨na, nb⟩ := sys_lift_init NG ng_step ng_init cfgA cfgB sch
  have cfgs : s.a.cfg = cfgA ∧ s.b.cfg = cfgB := by
    have gen : ∀ (l : List SysEv) (t : Sys), (runSys t l).a.cfg = t.a.cfg ∧ (runSys t l).b.cfg = t.b.cfg := by
      intro l
      induction l with
      | nil => intro t; exact ⟨rfl, rfl⟩
      | cons ev rest ih =>
        intro t
        rw [runSys_cons]
        obtain ⟨h1, h2⟩ := ih (sysStep t ev)
        have hstep : (sysStep t ev).a.cfg = t.a.cfg ∧ (sysStep t ev).b.cfg = t.b.cfg := by
          unfold sysStep
          cases ev <;> simp only [] <;> split <;> simp [cfg_step]
        exact ⟨h1.trans hstep.1, h2.trans hstep.2⟩
    obtain ⟨g1, g2⟩ := gen sch (initSys cfgA cfgB)
    exact ⟨g1.trans (cfg_step _ _), g2.trans (cfg_step _ _)⟩
  have one : ∀ (x y : Ep) (cx cy : Cfg), NG x → EpInv y → x.processed <+: y.emitted → x.cfg = cx → y.cfg = cy →
      ∀ p, x.peerInit = some p →
        p.keepalive = cy.keepalive ∧ p.segMru = cy.segMru ∧ p.xferMru = sizeMax ∧ p.node = cy.nodeId
        ∧ x.kaTime = min cx.keepalive cy.keepalive ∧ x.idleTime = cx.idle := by
    intro x y cx cy hn hy hpre hcx hcy p hp
    obtain ⟨k1, k2, ext, hmem⟩ := hn.1 p hp
    have hem := hy.emit _ (hpre.subset hmem)
    simp only [emitOK] at hem
    obtain ⟨e1, e2, e3, e4⟩ := hem
    rw [hcy] at e1 e2 e4
    rw [hcx] at k1 k2
    exact ⟨e2, e1, e3, e4, by rw [k1, e2], k2⟩
  exact ⟨one s.a s.b cfgA cfgB na hi.ib pA cfgs.1 cfgs.2, one s.b s.a cfgB cfgA nb hi.ia pB cfgs.2 cfgs.1⟩

/-- non-vacuity of the clamp: floor above the MRU, huge and negative controller outputs -/
example : clampSeg (-5) 7 = 7 ∧ clampSeg 100000000 20000 = 20000 ∧ clampSeg 15000 20000 = 15000
    ∧ clampSeg 3 20000 = 10240 := by decide

end Tcpcl
end DtnVerif
