/-
  C04 — TCPCL endpoints only emit RFC 9174-legal message sequences.
  `Legal` (Model/TcpclSpec) is the sequence automaton written from RFC 9174: contact header, then
  SESS_INIT, then only XFER_SEGMENT/XFER_ACK/XFER_REFUSE/KEEPALIVE/MSG_REJECT, at most one SESS_TERM
  and no START after it; segments of a transfer contiguous, START carries the total length, END only
  on the last, transfer ids strictly increasing.
-/
import DtnVerif.Lemmas.TcpclSys
import DtnVerif.Lemmas.TcpclSysLift
import DtnVerif.Lemmas.TcpclEcho
import DtnVerif.Lemmas.TcpclAckSeqInv
namespace DtnVerif
namespace Tcpcl

theorem C04_facts :
    Facts.enum_tcpcl_SessionTerm_Flag_REPLY = 1
    ∧ Facts.enum_tcpcl_TransferSegment_Flag_END = (flagEnd : Int)
    ∧ Facts.enum_tcpcl_TransferSegment_Flag_START = (flagStart : Int)
    ∧ Facts.enum_tcpcl_SessionTerm_Reason_IDLE_TIMEOUT = 1
    ∧ Facts.enum_tcpcl_RejectMsg_Reason_UNEXPECTED = (rejUnexpected : Int)
    ∧ (Facts.binds.filter (fun b => b.1 == "MessageHead" && b.2.2.1 == "msg_id")).map (fun b => b.2.2.2)
        = [(tXferSegment : Int), tXferAck, tXferRefuse, tKeepalive, tSessTerm, tMsgReject, tSessInit] := by
  decide

/-- **One endpoint, assume–guarantee.** Under any schedule, if the sequence the peer has sent is legal,
    contains no XFER_REFUSE and announces a positive segment MRU, then the sequence this endpoint has
    emitted is legal. -/
theorem C04_legal (cfg : Cfg) (evs : List Ev) (h1 : 0 < cfg.segInit) (h2 : cfg.privExt = false)
    (hsend : ∀ d, Ev.send d ∈ evs → d.length < 2 ^ 64)
    (hleg : Legal (runEp (started cfg) evs).processed)
    (hok : ∀ m ∈ (runEp (started cfg) evs).processed, okMsg m) :
    Legal (runEp (started cfg) evs).emitted := by
  obtain ⟨P, hP⟩ := txInv_run evs _ {} (txInv_started cfg h1 h2) (timerInv_started cfg) hsend hleg hok
  have : legalRun {} (runEp (started cfg) evs).emitted = some _ := hP.L
  unfold Legal; rw [this]; rfl

/-- **Two endpoints, unconditional in the peer.** For every schedule of the two-endpoint system both
    directions of the connection carry legal sequences (the peer assumptions of `C04_legal` are
    discharged mutually, by induction over the schedule). -/
theorem C04_legal_sys (cfgA cfgB : Cfg) (sch : List SysEv)
    (a1 : 0 < cfgA.segInit) (a2 : cfgA.privExt = false) (a3 : 0 < cfgA.segMru)
    (b1 : 0 < cfgB.segInit) (b2 : cfgB.privExt = false) (b3 : 0 < cfgB.segMru)
    (hwf : ∀ pre, pre <+: sch → SysWF (runSys (initSys cfgA cfgB) pre))
    (hs : ∀ ev ∈ sch, ev.sendOK) :
    Legal (runSys (initSys cfgA cfgB) sch).a.emitted ∧ Legal (runSys (initSys cfgA cfgB) sch).b.emitted := by
  have hi := sysInv_run sch _ (sysInv_init cfgA cfgB a1 a2 a3 b1 b2 b3) hwf hs
  exact ⟨emitted_legal hi.ia, emitted_legal hi.ib⟩

/-- **The statement is about the wire.** The octets written to the socket are a prefix of the
    encoding of the emitted sequence (both buffers and every partial write accounted for), and what the
    peer's framing layer hands over is a prefix of that sequence. -/
theorem C04_wire_sys (cfgA cfgB : Cfg) (sch : List SysEv)
    (a1 : 0 < cfgA.segInit) (a2 : cfgA.privExt = false) (a3 : 0 < cfgA.segMru)
    (b1 : 0 < cfgB.segInit) (b2 : cfgB.privExt = false) (b3 : 0 < cfgB.segMru)
    (hwf : ∀ pre, pre <+: sch → SysWF (runSys (initSys cfgA cfgB) pre))
    (hs : ∀ ev ∈ sch, ev.sendOK) :
    let s := runSys (initSys cfgA cfgB) sch
    s.a.accepted <+: encodeAll s.a.emitted ∧ s.b.accepted <+: encodeAll s.b.emitted
      ∧ s.b.processed <+: s.a.emitted ∧ s.a.processed <+: s.b.emitted := by
  intro s
  have hi : SysInv s := sysInv_run sch _ (sysInv_init cfgA cfgB a1 a2 a3 b1 b2 b3) hwf hs
  have hw : SysWF s := hwf sch (List.prefix_refl _)
  have pa : encodeAll s.a.emitted = _ := hi.ia.pump
  have pb : encodeAll s.b.emitted = _ := hi.ib.pump
  obtain ⟨t1, t2⟩ := transport s hi hw
  refine ⟨?_, ?_, t1, t2⟩
  · rw [pa, List.append_assoc]; exact List.prefix_append _ _
  · rw [pb, List.append_assoc]; exact List.prefix_append _ _

/-- The implementation never emits XFER_REFUSE, its SESS_INIT announces the configured MRU and keepalive
    interval, and it sends a KEEPALIVE only if its configured keepalive interval is positive. -/
theorem C04_emit_shape (cfg : Cfg) (evs : List Ev) :
    ∀ m ∈ (runEp { cfg := cfg } evs).emitted, emitOK cfg m := by
  have h := emitInv_run evs _ (emitInv_init cfg) (by constructor <;> (intro h; cases h)) (kc_init cfg)
  have hc : (runEp { cfg := cfg } evs).cfg = cfg := by
    induction evs generalizing cfg with
    | nil => rfl
    | cons ev evs ih =>
      have : ∀ e : Ep, (runEp e (ev :: evs)).cfg = e.cfg := by
        intro e
        rw [runEp_cons]
        have gen : ∀ (l : List Ev) (e' : Ep), (runEp e' l).cfg = e'.cfg := by
          intro l
          induction l with
          | nil => intro e'; rfl
          | cons x xs ihx => intro e'; rw [runEp_cons, ihx, cfg_step]
        rw [gen, cfg_step]
      exact this _
  intro m hm
  have := h m hm
  rw [hc] at this
  exact this

/-- non-vacuity: the emitted sequences of the concrete run of `Props/C01` are non-trivial and legal -/
example : Legal [.contact 0, .sessInit 0 100 sizeMax [] [],
    .xferSegment 2 1 (encExtItem ⟨0, 1, u64 3⟩) [1, 2], .xferSegment 1 1 [] [3], .keepalive,
    .sessTerm 0 0] := by decide +kernel
example : ¬ Legal [.contact 0, .sessInit 0 100 sizeMax [] [],
    .xferSegment 2 1 (encExtItem ⟨0, 1, u64 3⟩) [1, 2], .xferSegment 3 2 (encExtItem ⟨0, 1, u64 1⟩) [9]] := by
  decide +kernel

/-- **No segment exceeds the peer's announced segment MRU**, for every schedule of the two-endpoint
    system, whatever the segment-size controller does (its output is an arbitrary integer event). -/
theorem C04_seg_le_mru_sys (cfgA cfgB : Cfg) (sch : List SysEv)
    (a1 : 0 < cfgA.segInit) (a2 : cfgA.privExt = false) (a3 : 0 < cfgA.segMru)
    (b1 : 0 < cfgB.segInit) (b2 : cfgB.privExt = false) (b3 : 0 < cfgB.segMru)
    (hwf : ∀ pre, pre <+: sch → SysWF (runSys (initSys cfgA cfgB) pre))
    (hs : ∀ ev ∈ sch, ev.sendOK) :
    let s := runSys (initSys cfgA cfgB) sch
    (∀ p, s.a.peerInit = some p → ∀ m ∈ s.a.emitted, segLen m ≤ p.segMru)
    ∧ (∀ p, s.b.peerInit = some p → ∀ m ∈ s.b.emitted, segLen m ≤ p.segMru) := by
  intro s
  have hi : SysInv s := sysInv_run sch _ (sysInv_init cfgA cfgB a1 a2 a3 b1 b2 b3) hwf hs
  obtain ⟨PA, hA⟩ := hi.ia.tx
  obtain ⟨PB, hB⟩ := hi.ib.tx
  exact ⟨fun p hp => (hA.mru.1 p hp).2.2, fun p hp => (hB.mru.1 p hp).2.2⟩

/-- **Each XFER_ACK echoes the segment it answers**, against any peer and any schedule: for every
    XFER_ACK(flags, id, length) the endpoint has emitted there is a point `p ++ [m]` of the message
    sequence it processed such that `m` is a segment with the same flags and id which the ideal
    receiver accepts after `p`, and `length` is the cumulative length of that transfer after `m`. -/
theorem C04_ack_echo (cfg : Cfg) (evs : List Ev) :
    ∀ a ∈ (runEp { cfg := cfg } evs).emitted, echoOK (runEp { cfg := cfg } evs).processed a :=
  echoInv_run evs _ (rxInv_init cfg) (echoInv_init cfg)

/-- what `ackOfStep` says, spelled out: flags and id are the segment's, the length is cumulative -/
theorem C04_ack_echo_shape (s : RxSpec) (m a : Msg) (h : ackOfStep s m = some a) :
    ∃ flags tid ext data d, m = .xferSegment flags tid ext data ∧ a = .xferAck flags tid (d ++ data).length
      ∧ (hasStart flags = true → d = []) ∧ (hasStart flags = false → s.cur = some (tid, d)) := by
  cases m with
  | xferSegment flags tid ext data =>
    simp only [ackOfStep] at h
    split at h
    · simp at h
    · by_cases hst : hasStart flags = true
      · simp only [hst, if_true, Option.some.injEq] at h
        exact ⟨flags, tid, ext, data, [], rfl, h.symm, fun _ => rfl, fun hf => by simp [hst] at hf⟩
      · have hst' : hasStart flags = false := by simpa using hst
        simp only [hst', Bool.false_eq_true, if_false] at h
        cases hc : s.cur with
        | none => simp [hc] at h
        | some p =>
          obtain ⟨t, d⟩ := p
          simp only [hc] at h
          by_cases ht : (t == tid) = true
          · simp only [ht, if_true, Option.some.injEq] at h
            have : t = tid := by simpa using ht
            subst this
            exact ⟨flags, t, ext, data, d, rfl, h.symm, fun hf => by simp [hst'] at hf, fun _ => rfl⟩
          · simp [ht] at h
  | _ => simp [ackOfStep] at h

/-- the same in the two-endpoint system: every XFER_ACK B has emitted answers a segment that A emitted
    (at a position of A's emitted sequence), and symmetrically. -/
theorem C04_ack_echo_sys (cfgA cfgB : Cfg) (sch : List SysEv)
    (a1 : 0 < cfgA.segInit) (a2 : cfgA.privExt = false) (a3 : 0 < cfgA.segMru)
    (b1 : 0 < cfgB.segInit) (b2 : cfgB.privExt = false) (b3 : 0 < cfgB.segMru)
    (hwf : ∀ pre, pre <+: sch → SysWF (runSys (initSys cfgA cfgB) pre))
    (hs : ∀ ev ∈ sch, ev.sendOK) :
    let s := runSys (initSys cfgA cfgB) sch
    (∀ x ∈ s.b.emitted, echoOK s.a.emitted x) ∧ (∀ x ∈ s.a.emitted, echoOK s.b.emitted x) := by
  intro s
  have hi : SysInv s := sysInv_run sch _ (sysInv_init cfgA cfgB a1 a2 a3 b1 b2 b3) hwf hs
  have hw : SysWF s := hwf sch (List.prefix_refl _)
  obtain ⟨tB, tA⟩ := transport s hi hw
  have lift : ∀ {ps qs : List Msg} {x : Msg}, ps <+: qs → echoOK ps x → echoOK qs x := by
    intro ps qs x hpq h
    obtain ⟨t, rfl⟩ := hpq
    exact echoOK_mono t h
  have both := sys_lift_init (fun e => RxInv e ∧ EchoInv e)
    (fun e ev h => ⟨rxInv_step e ev h.1, echoInv_step e ev h.1 h.2⟩)
    (fun cfg => ⟨rxInv_init cfg, echoInv_init cfg⟩) cfgA cfgB sch
  exact ⟨fun x hx => lift tB (both.2.2 x hx), fun x hx => lift tA (both.1.2 x hx)⟩

/-- **One acknowledgement per accepted segment, in order.** Against any peer and any schedule, the
    XFER_ACK messages the endpoint has emitted are exactly — no more, no fewer, same order — the
    acknowledgements the ideal receiver owes for the message sequence it has processed: one per
    accepted segment, with that segment's flags and transfer id and the cumulative length so far. -/
theorem C04_ack_sequence (cfg : Cfg) (evs : List Ev) :
    acksOf (runEp { cfg := cfg } evs).emitted = specAcks (runEp { cfg := cfg } evs).processed :=
  ackSeq_run evs _ (rxInv_init cfg) (ackSeq_init cfg)

/-- the same at both endpoints of the two-endpoint system, where what is processed is a prefix of
    what the peer emitted (`C01_transport`) -/
theorem C04_ack_sequence_sys (cfgA cfgB : Cfg) (sch : List SysEv) :
    let s := runSys (initSys cfgA cfgB) sch
    acksOf s.a.emitted = specAcks s.a.processed ∧ acksOf s.b.emitted = specAcks s.b.processed := by
  intro s
  have both := sys_lift_init (fun e => RxInv e ∧ AckSeqInv e)
    (fun e ev h => ⟨rxInv_step e ev h.1, ackSeq_step e ev h.1 h.2⟩)
    (fun cfg => ⟨rxInv_init cfg, ackSeq_init cfg⟩) cfgA cfgB sch
  exact ⟨both.1.2, both.2.2⟩

/-- non-vacuity: a START segment, a foreign non-START segment (ignored), the END segment -/
example : specAcks [.contact 0, .sessInit 0 10 10 [] [], .xferSegment 2 5 [] [1, 2], .xferSegment 0 6 [] [9],
      .xferSegment 1 5 [] [3]]
    = [.xferAck 2 5 2, .xferAck 1 5 3] := by decide

end Tcpcl
end DtnVerif
