import DtnVerif.Model.TcpclEp
namespace DtnVerif
namespace Tcpcl
theorem C04_placeholder : True := trivial
end Tcpcl
end DtnVerif
