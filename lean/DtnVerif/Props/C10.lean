/-
  C10 — the BP agent processes each received bundle at most once and routes by first match.
  Model: DtnVerif.Agent (Model/BpAgent.lean); helper lemmas in Lemmas/Agent.lean.
  Property theorems only.
-/
import DtnVerif.Lemmas.AgentFwd
namespace DtnVerif
namespace Props
namespace C10
open Agent Bp

/-- Constants of the source the model relies on: the receive chain (orders and step methods)
    sorts to admin routing, static routing, reassembly, BCB, BIB, admin handling; the fragment
    flag bit. -/
theorem C10_facts :
    rxChain = [.adminRoute, .static, .reasm, .bcb, .bib, .adminHandle]
    ∧ (Facts.chainSteps.filter (fun s => s.1 == "rx_chain")).map (fun s => (s.2.1, s.2.2.2))
        = [(-1, "_rx_route"), (0, "_do_rx_step"), (10, "_reassemble"), (19, "_verify_bcb"), (20, "_verify_bib"),
           (30, "_recv_bundle")]
    ∧ Facts.enum_blocks_PrimaryBlock_Flag_IS_FRAGMENT = 1 := by
  refine ⟨by decide, by decide, by decide⟩

/-- Two bundles share an identity iff source, creation time and sequence number agree, both are
    fragments or both are not, and for fragments the offset and the length of the fragment's
    payload (BTSD of the block numbered 1) agree as well. -/
theorem C10_identity (p q : Primary) (bs cs : List Blk) :
    identOf p bs = identOf q cs ↔
      p.src = q.src ∧ p.ts.time = q.ts.time ∧ p.ts.seq = q.ts.seq
      ∧ isFragment p.flags = isFragment q.flags
      ∧ (isFragment p.flags = true → p.fragOff = q.fragOff ∧ pyldLen bs = pyldLen cs) := by
  unfold identOf
  cases hp : isFragment p.flags <;> cases hq : isFragment q.flags <;> simp [Ident.mk.injEq] <;> grind

-- look-alikes: same source and timestamp, different offset / different payload length / whole bundle
example : identOf { src := .dtn [1], ts := ⟨5, 1⟩, flags := 1, fragOff := 0, totalLen := 9 } [{ c := { typeCode := 1, blockNum := 1, btsd := some [7, 7] } }]
        ≠ identOf { src := .dtn [1], ts := ⟨5, 1⟩, flags := 1, fragOff := 3, totalLen := 9 } [{ c := { typeCode := 1, blockNum := 1, btsd := some [7, 7] } }] := by decide
example : identOf { src := .dtn [1], ts := ⟨5, 1⟩, flags := 1, fragOff := 0, totalLen := 9 } [{ c := { typeCode := 1, blockNum := 1, btsd := some [7, 7] } }]
        ≠ identOf { src := .dtn [1], ts := ⟨5, 1⟩, flags := 1, fragOff := 0, totalLen := 9 } [{ c := { typeCode := 1, blockNum := 1, btsd := some [7] } }] := by decide
example : identOf { src := .dtn [1], ts := ⟨5, 1⟩, flags := 0, fragOff := 0, totalLen := 9 } []
        = identOf { src := .dtn [1], ts := ⟨5, 1⟩, flags := 4, fragOff := 3, totalLen := 7 } [{ c := { typeCode := 1, blockNum := 1 } }] := by decide

/-- `firstMatch` is the action of the first route whose match bit is set: there is an index
    with a set bit, all earlier bits are clear, and the action is the one at that index. -/
theorem C10_first_match (routes : List Action) (bits : List Bool) (a : Action)
    (hlen : bits.length = routes.length) :
    firstMatch routes bits = some a ↔
      ∃ i, bits[i]? = some true ∧ routes[i]? = some a ∧ ∀ j : Nat, j < i → bits[j]? = some false := by
  induction routes generalizing bits with
  | nil =>
    cases bits with
    | nil => simp [firstMatch]
    | cons b bs => simp at hlen
  | cons r rs ih =>
    cases bits with
    | nil => simp at hlen
    | cons b bs =>
      have hl : bs.length = rs.length := by simpa using hlen
      cases b with
      | true =>
        simp only [firstMatch, if_true, Option.some.injEq]
        constructor
        · intro h; exact ⟨0, by simp, by simp [h], by intro j hj; omega⟩
        · rintro ⟨i, h1, h2, h3⟩
          cases i with
          | zero => simpa using h2
          | succ k => have := h3 0 (by omega); simp at this
      | false =>
        simp only [firstMatch, Bool.false_eq_true, if_false]
        rw [ih bs hl]
        constructor
        · rintro ⟨i, h1, h2, h3⟩
          refine ⟨i + 1, by simpa using h1, by simpa using h2, ?_⟩
          intro j hj
          cases j with
          | zero => simp
          | succ k => simpa using h3 k (by omega)
        · rintro ⟨i, h1, h2, h3⟩
          cases i with
          | zero => simp at h1
          | succ k =>
            refine ⟨k, by simpa using h1, by simpa using h2, ?_⟩
            intro j hj
            simpa using h3 (j + 1) (by omega)

example : firstMatch [.delete, .forward, .deliver] [false, true, true] = some .forward := by decide

/-- A bundle that matches no receive route and is not addressed to the node's administrative
    endpoint is neither delivered nor forwarded (nor reported on), whatever the opaque steps
    would do: nothing at all is emitted. -/
theorem C10_no_route_nothing (cfg : Cfg) (st : St) (now : Nat) (rx : RxBundle)
    (hacc : accepted cfg st rx) (hd : rx.primary.dest ≠ cfg.nodeId)
    (hm : firstMatch cfg.rxRoutes rx.routeBits = none) :
    (recvBundle cfg st now rx).2 = [] := by
  rw [recv_accepted cfg st now rx hacc, dispose_eff, chain_static cfg rx now _ hd (by simp [Ctr.record, recordAct, hasAct]), hm]
  simp [Ctr.record, recordAct, hasAct]

example : (recvBundle { nodeId := .dtn [1], rxRoutes := [.deliver] } {} 5
    { primary := { dest := .dtn [2], src := .dtn [3], ts := ⟨4, 0⟩ }, blocks := [], routeBits := [false] }).2 = [] := by
  decide

/-- A route naming a string that is none of deliver / forward / delete has no effect either. -/
theorem C10_other_action_nothing (cfg : Cfg) (st : St) (now : Nat) (rx : RxBundle) (t : Nat)
    (hacc : accepted cfg st rx) (hd : rx.primary.dest ≠ cfg.nodeId)
    (hm : firstMatch cfg.rxRoutes rx.routeBits = some (.other t)) :
    (recvBundle cfg st now rx).2 = [] := by
  rw [recv_accepted cfg st now rx hacc, dispose_eff, chain_static cfg rx now _ hd (by simp [Ctr.record, recordAct, hasAct]), hm]
  simp [Ctr.record, recordAct, hasAct, runChain, runStep, secStep]

/-- First-match routing, action `forward`: the bundle is queued for forwarding, exactly that. -/
theorem C10_first_match_forward (cfg : Cfg) (st : St) (now : Nat) (rx : RxBundle)
    (hacc : accepted cfg st rx) (hd : rx.primary.dest ≠ cfg.nodeId)
    (hm : firstMatch cfg.rxRoutes rx.routeBits = some .forward) :
    (recvBundle cfg st now rx).2 = [.queued (identOf rx.primary rx.blocks)] := by
  rw [recv_accepted cfg st now rx hacc, dispose_eff, chain_static cfg rx now _ hd (by simp [Ctr.record, recordAct, hasAct]), hm]
  simp [Ctr.record, recordAct, hasAct, runChain, runStep, secStep, Ctr.ident]

/-- First-match routing, action `delete`: neither delivered nor queued (only the report, if one
    was requested). -/
theorem C10_first_match_delete (cfg : Cfg) (st : St) (now : Nat) (rx : RxBundle)
    (hacc : accepted cfg st rx) (hd : rx.primary.dest ≠ cfg.nodeId)
    (hm : firstMatch cfg.rxRoutes rx.routeBits = some .delete) :
    ∀ e ∈ (recvBundle cfg st now rx).2, ∃ i rep r, e = .report i rep r := by
  rw [recv_accepted cfg st now rx hacc, dispose_eff, chain_static cfg rx now _ hd (by simp [Ctr.record, recordAct, hasAct]), hm]
  simp [Ctr.record, recordAct, hasAct, runChain, runStep, secStep, finishEff, Ctr.ident]
  intro e he
  split at he <;> simp_all

/-- First-match routing, action `deliver`, for a whole (non-fragment) bundle that the security
    steps let pass: it is delivered, and not queued for forwarding. -/
theorem C10_first_match_deliver (cfg : Cfg) (st : St) (now : Nat) (rx : RxBundle)
    (hacc : accepted cfg st rx) (hd : rx.primary.dest ≠ cfg.nodeId)
    (hm : firstMatch cfg.rxRoutes rx.routeBits = some .deliver)
    (hf : isFragment rx.primary.flags = false) (hb : rx.bcb = .pass) (hi : rx.bib = .pass) :
    Effect.delivered (identOf rx.primary rx.blocks) ∈ (recvBundle cfg st now rx).2
    ∧ ∀ i, Effect.queued i ∉ (recvBundle cfg st now rx).2 := by
  rw [recv_accepted cfg st now rx hacc, dispose_eff, chain_static cfg rx now _ hd (by simp [Ctr.record, recordAct, hasAct]), hm]
  simp [Ctr.record, recordAct, hasAct, runChain, runStep, secStep, hf, hb, hi, hd, finishEff, Ctr.ident]
  intro i; split <;> simp

/-- A bundle addressed to the node's own administrative endpoint is delivered whatever the
    routing table says (whole bundle, security steps pass, the record handler does not delete). -/
theorem C10_admin_delivered (cfg : Cfg) (st : St) (now : Nat) (rx : RxBundle)
    (hacc : accepted cfg st rx) (hd : rx.primary.dest = cfg.nodeId)
    (hf : isFragment rx.primary.flags = false) (hb : rx.bcb = .pass) (hi : rx.bib = .pass)
    (ha : rx.adm ≠ .delete) :
    Effect.delivered (identOf rx.primary rx.blocks) ∈ (recvBundle cfg st now rx).2
    ∧ ∀ i, Effect.queued i ∉ (recvBundle cfg st now rx).2 := by
  rw [recv_accepted cfg st now rx hacc, dispose_eff, rxChain_eq]
  cases hadm : rx.adm <;>
    simp_all [Ctr.record, recordAct, hasAct, runChain, runStep, secStep, finishEff, Ctr.ident] <;>
    (intro i; split <;> simp)

example : Effect.delivered (identOf { src := .dtn [3], ts := ⟨4, 0⟩ } []) ∈
    (recvBundle { nodeId := .dtn [1], rxRoutes := [.forward] } {} 5
      { primary := { dest := .dtn [1], src := .dtn [3], ts := ⟨4, 0⟩ }, blocks := [], routeBits := [true] }).2 := by
  decide

/-- **At most once.** Over ANY history of events (receptions in any order with repeats,
    fragments and look-alikes, interleaved with idle forwarding / report sending), and for every
    identity `id`: the bundle is delivered at most once and accepted for forwarding at most once;
    and never when the identity was already in the seen set. -/
theorem C10_at_most_once (cfg : Cfg) (st : St) (evs : List Ev) (id : Ident) :
    (run cfg st evs).2.count (.delivered id) ≤ 1
    ∧ (run cfg st evs).2.count (.queued id) ≤ 1
    ∧ (id ∈ st.seen → (run cfg st evs).2.count (.delivered id) = 0
                      ∧ (run cfg st evs).2.count (.queued id) = 0) := by
  have a := run_dq cfg evs st id (.delivered id) (Or.inl rfl)
  have b := run_dq cfg evs st id (.queued id) (Or.inr rfl)
  exact ⟨a.1, b.1, fun h => ⟨a.2 h, b.2 h⟩⟩

/-- Each reception schedules at most one status report, and it is about the received bundle;
    a repeat, an own-source bundle or a CRC failure schedules none (`C10_repeat_ignored`, …). -/
theorem C10_recv_report_once (cfg : Cfg) (st : St) (now : Nat) (rx : RxBundle) :
    ((recvBundle cfg st now rx).2.filter isReport).length ≤ 1
    ∧ ∀ i p r, Effect.report i p r ∈ (recvBundle cfg st now rx).2 → i = identOf rx.primary rx.blocks := by
  rcases recv_cases cfg st now rx with h | ⟨_, c, hc, _, h⟩
  · rw [h]; simp
  · rw [h, dispose_eff, ← hc]
    have h1 := finishEff_report c
    have h2 := finishEff_ident c
    constructor
    · cases hasAct c.actions .delete <;> cases hasAct c.actions .deliver <;>
        cases hasAct c.actions .forward <;> simp <;> exact h1
    · intro i p r hm
      cases hd : hasAct c.actions .delete <;> cases hv : hasAct c.actions .deliver <;>
        cases hf : hasAct c.actions .forward <;> simp [hd, hv, hf] at hm <;> exact h2 i p r hm

/-- Forwarding is done once per queue entry: an idle `_do_fwd` takes one entry off the queue,
    hands at most one bundle to the convergence layer and schedules at most one report. -/
theorem C10_fwd_once (cfg : Cfg) (st : St) (now : Nat) (sp : SendParams) :
    ((doFwd cfg st now sp).2.filter isTx).length ≤ 1
    ∧ ((doFwd cfg st now sp).2.filter isReport).length ≤ 1
    ∧ (doFwd cfg st now sp).1.fwdQ = st.fwdQ.tail := by
  unfold doFwd
  split
  · rename_i h; simp [h]
  · rename_i c0 q hq
    simp only [hq, List.tail_cons]
    split
    · simp only [fwdFail, finish_eff, finish_fwdQ, fwdEdit_fwdQ, List.nil_append]
      exact ⟨by simp [finishEff_tx], finishEff_report _, trivial⟩
    · split
      · simp only [finish_eff, finish_fwdQ, sendAsIs_fwdQ, fwdEdit_fwdQ, List.filter_cons]
        refine ⟨by simp [finishEff_tx], ?_, trivial⟩
        simpa using finishEff_report _
      · simp only [finish_eff, finish_fwdQ, sendAsIs_fwdQ, fwdEdit_fwdQ, List.filter_cons]
        refine ⟨by simp [finishEff_tx], ?_, trivial⟩
        simpa using finishEff_report _
      · simp only [fwdFail, finish_eff, finish_fwdQ, sendAsIs_fwdQ, fwdEdit_fwdQ, List.nil_append]
        exact ⟨by simp [finishEff_tx], finishEff_report _, trivial⟩

-- a history with a repeat, a look-alike fragment and an own-source bundle
example :
    let cfg : Cfg := { nodeId := .dtn [1], rxRoutes := [.deliver] }
    let b : RxBundle := { primary := { dest := .dtn [2], src := .dtn [3], ts := ⟨4, 0⟩ }, blocks := [], routeBits := [true] }
    let own : RxBundle := { b with primary := { b.primary with src := .dtn [1] } }
    (run cfg {} [.recv 5 b, .recv 6 b, .recv 7 own]).2 = [.delivered (identOf b.primary b.blocks)] := by
  decide


/-- Repeats are ignored: a bundle whose identity has been seen causes no effect and no state
    change. -/
theorem C10_repeat_ignored (cfg : Cfg) (st : St) (now : Nat) (rx : RxBundle)
    (h : identOf rx.primary rx.blocks ∈ st.seen) : recvBundle cfg st now rx = (st, []) :=
  recv_repeat cfg st now rx h

/-- Bundles sourced by this node are ignored: no effect, no state change. -/
theorem C10_own_source_ignored (cfg : Cfg) (st : St) (now : Nat) (rx : RxBundle)
    (h : rx.primary.src = cfg.nodeId) : recvBundle cfg st now rx = (st, []) :=
  recv_own_source cfg st now rx h

/-- Bundles failing the CRC gate are ignored and leave no trace (not even in the seen set). -/
theorem C10_bad_crc_ignored (cfg : Cfg) (st : St) (now : Nat) (rx : RxBundle)
    (h : rx.crcOk = false) : recvBundle cfg st now rx = (st, []) :=
  recv_bad_crc cfg st now rx h

/-- **The seen set only grows.** An identity seen once stays seen after ANY number of later
    events (receptions of any other bundles, idle forwards, report sends): the memory is never
    trimmed. -/
theorem C10_seen_never_forgotten (cfg : Cfg) (st : St) (evs : List Ev) (id : Ident)
    (h : id ∈ st.seen) : id ∈ (run cfg st evs).1.seen := by
  induction evs generalizing st with
  | nil => exact h
  | cons e es ih =>
    simp only [run]
    exact ih _ ((step_dq cfg st e id (.delivered id) (Or.inl rfl)).1 h)

/-- Hence a repeat of a bundle received at any earlier point of a history — however long the
    history in between — is refused: no effect, no state change. -/
theorem C10_repeat_refused_after_any_history (cfg : Cfg) (st : St) (now now' : Nat) (rx rx' : RxBundle)
    (evs : List Ev) (hacc : accepted cfg st rx)
    (hid : identOf rx'.primary rx'.blocks = identOf rx.primary rx.blocks) :
    recvBundle cfg (run cfg (recvBundle cfg st now rx).1 evs).1 now' rx'
      = ((run cfg (recvBundle cfg st now rx).1 evs).1, []) := by
  apply recv_repeat
  rw [hid]
  apply C10_seen_never_forgotten
  rw [recv_accepted cfg st now rx hacc, dispose_seen]
  exact List.mem_cons_self

/-- **A failed forward does not block later bundles.** Whatever happens to the head of the
    forwarding queue (no transmit route, no CL, fragmentation impossible, …) it leaves the queue;
    the next idle `_do_fwd` acts on the NEXT bundle, and with a matching transmit route hands that
    bundle — not the earlier one — to the convergence layer. -/
theorem C10_later_forward_not_blocked (cfg : Cfg) (st : St) (now now' : Nat) (sp sp' : SendParams)
    (c0 c1 : Ctr) (q : List Ctr) (hq : st.fwdQ = c0 :: c1 :: q)
    (hr : sp'.txBits.any id = true) (hcl : sp'.clOk = true)
    (hf : sp'.frag = .none ∨ sp'.frag = .raises) :
    (doFwd cfg st now sp).1.fwdQ = c1 :: q
    ∧ ∃ b, fwdOut cfg { (doFwd cfg st now sp).1 with fwdQ := q } now' sp' c1 = some b
        ∧ Effect.tx b.enc ∈ (doFwd cfg (doFwd cfg st now sp).1 now' sp').2
        ∧ ∀ d, Effect.tx d ∈ (doFwd cfg (doFwd cfg st now sp).1 now' sp').2 → d = b.enc := by
  have hq1 : (doFwd cfg st now sp).1.fwdQ = c1 :: q := by rw [doFwd_fwdQ, hq]; rfl
  obtain ⟨b, hb⟩ := fwdOut_isSome cfg { (doFwd cfg st now sp).1 with fwdQ := q } now' sp' c1 hr hcl hf
  refine ⟨hq1, b, hb, doFwd_tx_of_fwdOut _ _ _ _ _ _ hq1 b hb, ?_⟩
  intro d hd
  obtain ⟨b', hb', rfl⟩ := doFwd_tx cfg _ now' sp' c1 q hq1 d hd
  rw [hb] at hb'
  cases hb'
  rfl

/-- **Finished once.** A bundle for the node's own endpoint that the administrative handler
    deletes while it still carries 'deliver' (an ACME record nobody expects) is finished by the
    'delete' branch alone: not delivered, not queued, at most one report. -/
theorem C10_admin_delete_finished_once (cfg : Cfg) (st : St) (now : Nat) (rx : RxBundle)
    (hacc : accepted cfg st rx) (hd : rx.primary.dest = cfg.nodeId)
    (hf : isFragment rx.primary.flags = false) (hb : rx.bcb = .pass) (hi : rx.bib = .pass)
    (ha : rx.adm = .delete) :
    (∀ i, Effect.delivered i ∉ (recvBundle cfg st now rx).2)
    ∧ (∀ i, Effect.queued i ∉ (recvBundle cfg st now rx).2)
    ∧ ((recvBundle cfg st now rx).2.filter isReport).length ≤ 1 := by
  refine ⟨?_, ?_, (C10_recv_report_once cfg st now rx).1⟩
  · rw [recv_accepted cfg st now rx hacc, dispose_eff, rxChain_eq]
    simp_all [Ctr.record, recordAct, hasAct, runChain, runStep, secStep, finishEff, Ctr.ident]
    intro i; split <;> simp
  · rw [recv_accepted cfg st now rx hacc, dispose_eff, rxChain_eq]
    simp_all [Ctr.record, recordAct, hasAct, runChain, runStep, secStep, finishEff, Ctr.ident]
    intro i; split <;> simp

example : ∃ i rep rc, (recvBundle { nodeId := .dtn [1], rxRoutes := [] } {} 5
      { primary := { dest := .dtn [1], src := .dtn [3], rpt := .dtn [4], ts := ⟨4, 0⟩, flags := 0x60022 },
        blocks := [], adm := .delete }).2 = [.report i rep rc] := ⟨_, _, _, rfl⟩

/-- number of idle `_do_fwd` firings of a history that found a bundle in the queue -/
def popped (cfg : Cfg) : St → List Ev → Nat
  | _, [] => 0
  | st, e :: es =>
    (match e with
      | .fwd _ _ => if st.fwdQ.isEmpty then 0 else 1
      | _ => 0) + popped cfg (step cfg st e).1 es

/-- **Every queued forward gets its own `_do_fwd`, under any arrival pattern.** Each `queued`
    effect stands for one entry appended to the forwarding queue together with one idle
    `_do_fwd` registration (the harness compares that registration with the real idle sources,
    bursts of back-to-back arrivals included); each idle `_do_fwd` takes exactly one entry off.
    So over ANY history: entries still queued + firings that found one = entries at the start +
    `queued` effects. With as many firings as registrations nothing stays behind. -/
theorem C10_queue_accounting (cfg : Cfg) (evs : List Ev) (st : St) :
    (run cfg st evs).1.fwdQ.length + popped cfg st evs
      = st.fwdQ.length + ((run cfg st evs).2.filter isQueued).length := by
  induction evs generalizing st with
  | nil => simp [run, popped]
  | cons e es ih =>
    simp only [run, popped, List.filter_append, List.length_append]
    have ih' := ih (step cfg st e).1
    cases e with
    | recv now rx =>
      have := clRecv_fwdQ_len cfg st now rx
      simp only [step] at ih' this ⊢
      omega
    | fwd now sp =>
      have h1 := doFwd_fwdQ cfg st now sp
      have h2 := plain_not_queued _ (doFwd_plain cfg st now sp).1
      simp only [step] at ih' ⊢
      rw [h2]
      cases hq : st.fwdQ with
      | nil => simp [hq] at h1 ⊢; rw [h1] at ih'; simpa using ih'
      | cons c q =>
        rw [hq] at h1
        simp only [List.tail_cons] at h1
        rw [h1] at ih'
        simp only [List.isEmpty_cons, Bool.false_eq_true, if_false, List.length_cons, List.length_nil]
        omega
    | sendRpt now sp =>
      have h1 := sendReport_fwdQ cfg st now sp
      have h2 := plain_not_queued _ (sendReport_plain cfg st now sp).1
      simp only [step] at ih' ⊢
      rw [h2]
      rw [h1] at ih'
      simp only [List.length_nil]
      omega

-- a burst: three bundles routed forward received back-to-back, then three idle firings: all three leave
example :
    let cfg : Cfg := { nodeId := .dtn [1], rxRoutes := [.forward] }
    let b (n : Nat) : RxBundle := { primary := { dest := .dtn [2], src := .dtn [3], ts := ⟨4, n⟩ },
                                    blocks := [{ c := { typeCode := 1, blockNum := 1 } }], routeBits := [true] }
    let sp : SendParams := { txBits := [true] }
    let r := run cfg {} [.recv 5 (b 0), .recv 5 (b 1), .recv 5 (b 2), .fwd 6 sp, .fwd 6 sp, .fwd 6 sp]
    r.1.fwdQ.length = 0 ∧ (r.2.filter isTx).length = 3 ∧ (r.2.filter isQueued).length = 3 := by
  decide

end C10
end Props
end DtnVerif
