/-
  C03  A COSE integrity block verifies iff nothing it covers was altered.

  What is proved (about Model/Sec.lean, which the C03 check compares call-by-call with
  `CoseSecOpCtx.get_external_aad`, pycose's `_mac_structure` and the real verifier):
  * verification of a target succeeds exactly when the stored tag equals the MAC (resp. the
    signature verifies) over `macInput` – the COSE MAC_structure around the external AAD;
  * what `apply_bib` produces verifies wherever the covered view is the same (MAC0, MAC + key wrap);
  * `macInput` is *injective* in the covered view: two bundles/contexts with the same MAC input
    agree on security source, AAD scope, every covered block item (primary block with refreshed CRC,
    type/number/flags, BTSD), the protected parameters, the protected header and the target data;
  * `macInput` *only* depends on the covered view (frame): other changes cannot cause failure.

  What is NOT proved: that HMAC / ECDSA reject forgeries. `Prims.mac`, `Prims.verifySig`,
  `Prims.unwrap` are uninterpreted; the statements reduce acceptance to "the primitive accepts this
  key and these octets", and injectivity says an altered covered view always presents *different*
  octets to the primitive. Whether that makes the primitive reject is its own security claim.
-/
import DtnVerif.Model.Sec
import DtnVerif.Lemmas.Sec
import DtnVerif.Generated.Facts
namespace DtnVerif
namespace Props
open Cbor Bp Sec

/-- Constants of the source the model relies on (regenerated from /repo on every run). -/
theorem C03_facts :
    Facts.const_bpsec_BPSEC_COSE_CONTEXT_ID = (coseContextId : Int) ∧
    Facts.enum_bpsec_CoseContext_AadScopeFlag_METADATA = (flagMetadata : Int) ∧
    Facts.enum_bpsec_CoseContext_AadScopeFlag_BTSD = (flagBtsd : Int) ∧
    ("CanonicalBlock", "BlockIntegrityBlock", "bind_type", (typeBib : Int)) ∈ Facts.binds ∧
    Facts.enum_admin_StatusReport_ReasonCode_FAILED_SEC = 15 ∧
    Facts.enum_bpsecenc_AbstractSecurityBlock_Flag_PARAMETERS_PRESENT = 1 := by
  decide

section
variable {Key : Type} (P : Prims Key) (store : Bytes → Option Key) (crcFn : Nat → Bytes → Bytes)

/-- The acceptance condition of one security result, as a proposition. -/
def TagOk (ctx : AadCtx) : Msg → Prop
  | .mac0 prot kid _ tag =>
    ∃ inp k, macInput crcFn ctx "MAC0" prot = some inp ∧ lookupKey store kid = some k ∧ tag = P.mac k inp
  | .mac prot _ tag recips =>
    ∃ inp, macInput crcFn ctx "MAC" prot = some inp ∧
      ∃ r ∈ recips, ∃ kek cek, lookupKey store r.kid = some kek ∧ P.unwrap kek r.wrapped = some cek ∧
        tag = P.mac cek inp
  | .sign1 prot kid _ sig =>
    ∃ inp k, macInput crcFn ctx "Signature1" prot = some inp ∧ lookupKey store kid = some k ∧
      P.verifySig k inp sig = true
  | _ => False

private theorem macRecipOk_iff (tag inp : Bytes) (r : Recipient) :
    macRecipOk P store tag inp r = true ↔
      ∃ kek cek, lookupKey store r.kid = some kek ∧ P.unwrap kek r.wrapped = some cek ∧ tag = P.mac cek inp := by
  unfold macRecipOk
  cases h1 : lookupKey store r.kid with
  | none => simp
  | some kek =>
    cases h2 : P.unwrap kek r.wrapped with
    | none => simp [h2]
    | some cek => simp [h2]

/-- **C03 (per target).** `verify_bib_target` accepts exactly when the tag is the MAC of the MAC input
    under the key the store holds for the key id (COSE_Mac0), some recipient's unwrapped key
    (COSE_Mac), resp. the signature verifies (COSE_Sign1). -/
theorem C03_verify_target_iff (ctx : AadCtx) (m : Msg) :
    verifyBibTarget P store crcFn ctx m = true ↔ TagOk P store crcFn ctx m := by
  cases m with
  | mac0 prot kid pl tag =>
    simp only [verifyBibTarget, TagOk]
    cases h1 : macInput crcFn ctx "MAC0" prot with
    | none => simp
    | some inp =>
      cases h2 : lookupKey store kid with
      | none => simp
      | some k => simp
  | mac prot pl tag recips =>
    simp only [verifyBibTarget, TagOk]
    cases h1 : macInput crcFn ctx "MAC" prot with
    | none => simp
    | some inp =>
      simp only [List.any_eq_true, macRecipOk_iff, Option.some.injEq, exists_eq_left']
  | sign1 prot kid pl sig =>
    simp only [verifyBibTarget, TagOk]
    cases h1 : macInput crcFn ctx "Signature1" prot with
    | none => simp
    | some inp =>
      cases h2 : lookupKey store kid with
      | none => simp
      | some k => simp
  | enc0 _ _ _ _ => simp [verifyBibTarget, TagOk]
  | enc _ _ _ _ => simp [verifyBibTarget, TagOk]

/-- What `verify_bib` requires of target number `t` at index `ix`. -/
def TargetOk (b : Bundle) (sb : SecBlock) (ix t : Nat) : Prop :=
  ∃ tgt id m, findBlock b.blocks t = some tgt ∧ sb.results[ix]? = some [(id, m)] ∧
    TagOk P store crcFn (ctxFor b.primary b.blocks sb tgt) (m.attach (tgt.btsd.getD []))

private theorem verifyBibLoop_ok (b : Bundle) (sb : SecBlock) :
    ∀ (ts : List Nat) (ix : Nat) (fail : Bool),
      verifyBibLoop P store crcFn b sb ts ix fail = .ok ↔
        fail = false ∧ ∀ j, (hj : j < ts.length) → TargetOk P store crcFn b sb (ix + j) ts[j]
  | [], ix, fail => by
    cases fail <;> simp [verifyBibLoop]
  | t :: ts, ix, fail => by
    have ih := verifyBibLoop_ok b sb ts (ix + 1)
    have shift : ∀ (Q : Nat → Nat → Prop),
        (∀ j, (hj : j < (t :: ts).length) → Q (ix + j) (t :: ts)[j]) ↔
          Q ix t ∧ ∀ j, (hj : j < ts.length) → Q (ix + 1 + j) ts[j] := by
      intro Q
      constructor
      · intro h
        refine ⟨h 0 (by simp), fun j hj => ?_⟩
        have e : ix + (j + 1) = ix + 1 + j := by omega
        have := h (j + 1) (by simp; omega)
        rw [e] at this
        exact this
      · intro h j hj
        cases j with
        | zero => exact h.1
        | succ j =>
          have e : ix + (j + 1) = ix + 1 + j := by omega
          have := h.2 j (by simpa using hj)
          rw [e]
          exact this
    rw [shift (fun i u => TargetOk P store crcFn b sb i u)]
    unfold verifyBibLoop
    cases hf : findBlock b.blocks t with
    | none => simp [TargetOk, hf]
    | some tgt =>
      simp only
      cases hr : sb.results[ix]? with
      | none => simp [TargetOk, hr]
      | some rl =>
        match rl, hr with
        | [], hr => simp [ih, TargetOk, hr]
        | [(id, m)], hr =>
          simp only [ih, Bool.or_eq_false_iff, Bool.not_eq_eq_eq_not, Bool.not_false]
          rw [C03_verify_target_iff]
          simp only [TargetOk, hf, hr, Option.some.injEq, List.cons.injEq, Prod.mk.injEq, and_true]
          constructor
          · rintro ⟨⟨h1, h2⟩, h3⟩
            exact ⟨h1, ⟨tgt, id, m, rfl, ⟨rfl, rfl⟩, h2⟩, h3⟩
          · rintro ⟨h1, ⟨tgt', id', m', e1, ⟨e2, e3⟩, h2⟩, h3⟩
            subst e1 e2 e3
            exact ⟨⟨h1, h2⟩, h3⟩
        | _ :: _ :: _, hr => simp [ih, TargetOk, hr]

/-- **C03 (whole block).** `CoseContext.verify_bib` returns "no failure" exactly when the block has
    no duplicate parameter / result ids and, for every target, the target block exists, there is
    exactly one result and its tag is the MAC of the MAC input (`TagOk`). -/
theorem C03_verify_iff (b : Bundle) (sb : SecBlock) :
    verifyBib P store crcFn b sb = .ok ↔
      checkSecblk sb = .ok ∧
      ∀ j, (hj : j < sb.targets.length) → TargetOk P store crcFn b sb j sb.targets[j] := by
  unfold verifyBib
  cases hc : checkSecblk sb with
  | failed n => simp
  | raised => simp
  | ok =>
    simp only [true_and]
    rw [verifyBibLoop_ok]
    simp

/-- **A recorded failure is never withdrawn.** Once one target of a BIB failed, `verify_bib` cannot
    return "no failure", whatever the later targets do (they may all verify). -/
theorem C03_failure_sticks (b : Bundle) (sb : SecBlock) :
    ∀ (ts : List Nat) (ix : Nat), verifyBibLoop P store crcFn b sb ts ix true ≠ .ok
  | [], ix => by simp [verifyBibLoop]
  | t :: ts, ix => by
    unfold verifyBibLoop
    split
    · simp
    · split
      · simp
      · exact C03_failure_sticks b sb ts (ix + 1)
      · exact C03_failure_sticks b sb ts (ix + 1)

/-- **Targets without a result fail.** A BIB whose results array is shorter than its targets array
    (a trailing MAC stripped, or all of them) never verifies: `verify_bib` indexes the results by
    target index (`IndexError`, which the receive step records as FAILED_SEC). -/
theorem C03_missing_result_fails (b : Bundle) (sb : SecBlock) (h : sb.results.length < sb.targets.length) :
    verifyBib P store crcFn b sb ≠ .ok := by
  intro hok
  rw [C03_verify_iff] at hok
  obtain ⟨_, hall⟩ := hok
  obtain ⟨_, _, _, _, hr, _⟩ := hall sb.results.length h
  simp at hr

/-- **The MAC input is always the target's current BTSD.** Whatever payload a security result
    embeds (attached form) is discarded: verification of `m` and of its detached form coincide, and
    both use `ctx.tgt.btsd`. -/
theorem C03_mac_input_is_target_btsd (ctx : AadCtx) (m : Msg) (d : Bytes) :
    verifyBibTarget P store crcFn ctx (m.attach d) = verifyBibTarget P store crcFn ctx m.detach ∧
    verifyBibTarget P store crcFn ctx m = verifyBibTarget P store crcFn ctx m.detach := by
  cases m <;> exact ⟨rfl, rfl⟩

/-- **Duplicate parameter ids, or duplicate result ids for one target, fail closed** (`check_secblk`). -/
theorem C03_duplicate_ids_fail (b : Bundle) (sb : SecBlock)
    (h : hasDup sb.paramIds = true ∨ sb.results.any (fun r => hasDup (r.map (·.1))) = true) :
    verifyBib P store crcFn b sb = .failed 15 := by
  have hc : checkSecblk sb = .failed 15 := by
    unfold checkSecblk
    rcases h with h | h <;> simp [h]
  simp [verifyBib, hc]

/-- **More (or fewer) than one result for a target fails closed**, wherever the genuine result stands
    among them. -/
theorem C03_result_count_fails (b : Bundle) (sb : SecBlock) (j : Nat) (hj : j < sb.targets.length)
    (hbad : ∀ id m, sb.results[j]? ≠ some [(id, m)]) :
    verifyBib P store crcFn b sb ≠ .ok := by
  intro hok
  rw [C03_verify_iff] at hok
  obtain ⟨_, id, m, _, hr, _⟩ := hok.2 j hj
  exact hbad id m hr

private theorem applyBibResults_spec (b : Bundle) (sb0 : SecBlock) (prot kid : Bytes) (k : Key) :
    ∀ (ts : List Nat) (rs : List (List (Nat × Msg))), applyBibResults P crcFn b sb0 prot kid k ts = some rs →
      (∀ r ∈ rs, ∃ m, r = [(17, m)]) ∧
      ∀ j, (hj : j < ts.length) → ∃ tgt m, findBlock b.blocks ts[j] = some tgt ∧ rs[j]? = some [(17, m)] ∧
        applyMac0 P crcFn (ctxFor b.primary b.blocks sb0 tgt) prot kid k = some m
  | [], rs, h => by
    simp only [applyBibResults, Option.some.injEq] at h
    subst h
    exact ⟨by simp, fun j hj => absurd hj (by simp)⟩
  | t :: ts, rs, h => by
    unfold applyBibResults at h
    cases hf : findBlock b.blocks t with
    | none => simp [hf] at h
    | some tgt =>
      simp only [hf] at h
      cases ha : applyMac0 P crcFn (ctxFor b.primary b.blocks sb0 tgt) prot kid k with
      | none => simp [ha] at h
      | some m =>
        cases hr : applyBibResults P crcFn b sb0 prot kid k ts with
        | none => simp [ha, hr] at h
        | some rest =>
          simp only [ha, hr, Option.some.injEq] at h
          subst h
          obtain ⟨ih1, ih2⟩ := applyBibResults_spec b sb0 prot kid k ts rest hr
          refine ⟨?_, ?_⟩
          · intro r hrm
            simp only [List.mem_cons] at hrm
            rcases hrm with e | e
            · exact ⟨m, e⟩
            · exact ih1 r e
          · intro j hj
            cases j with
            | zero => exact ⟨tgt, m, by simpa using hf, by simp, ha⟩
            | succ j =>
              obtain ⟨tgt', m', h1, h2, h3⟩ := ih2 j (by simpa using hj)
              exact ⟨tgt', m', by simpa using h1, by simpa using h2, h3⟩

/-- **Results are aligned with targets in any policy order.** Whatever the order in which the policy
    produced the operations (ascending block numbers or not, e.g. an extension-block association
    listed before the payload association), the BIB `apply_bib` builds – target list and results in
    that same order – verifies on the unmodified bundle at a receiver holding the key. -/
theorem C03_apply_block_verifies (b : Bundle) (blk : Canonical) (ssrc : Eid) (scope : List (Int × Nat))
    (prot kid : Bytes) (k : Key) (targets : List Nat) (sb : SecBlock)
    (ha : applyBib P crcFn b blk ssrc scope prot kid k targets = some sb) (hk : store kid = some k) :
    verifyBib P store crcFn b sb = .ok := by
  unfold applyBib at ha
  cases hr : applyBibResults P crcFn b ⟨blk, ssrc, targets, [5], scope, [], []⟩ prot kid k targets with
  | none => simp [hr] at ha
  | some rs =>
    simp only [hr, Option.some.injEq] at ha
    subst ha
    obtain ⟨h1, h2⟩ := applyBibResults_spec P crcFn b _ prot kid k targets rs hr
    rw [C03_verify_iff]
    refine ⟨?_, ?_⟩
    · have : rs.any (fun r => hasDup (r.map (·.1))) = false := by
        rw [List.any_eq_false]
        intro r hrm
        obtain ⟨m, e⟩ := h1 r hrm
        subst e
        simp [hasDup]
      simp [checkSecblk, hasDup, this]
    · intro j hj
      obtain ⟨tgt, m, hf, hres, hap⟩ := h2 j hj
      refine ⟨tgt, 17, m, hf, hres, ?_⟩
      unfold applyMac0 at hap
      cases hi : macInput crcFn (ctxFor b.primary b.blocks ⟨blk, ssrc, targets, [5], scope, [], []⟩ tgt) "MAC0" prot with
      | none => simp [hi] at hap
      | some inp =>
        simp only [hi, Option.some.injEq] at hap
        subst hap
        simp only [Msg.attach, TagOk]
        exact ⟨inp, k, hi, by simp [lookupKey, hk], rfl⟩

/-- **AAD scope flags, per block.** For a scope entry naming a canonical block (`k ≠ 0`): flags 1
    contribute the block's type, number and flags; flags 2 its BTSD; flags 3 *both* (metadata first,
    then the BTSD byte string); flags 0 nothing. -/
theorem C03_scope_flags (ctx : AadCtx) (k : Int) (hk : k ≠ 0) (c : Canonical) (d : Bytes)
    (hb : scopeBlock ctx k = some c) (hd : c.btsd = some d) :
    scopeItem crcFn ctx k 0 = some (.canon none none) ∧
    scopeItem crcFn ctx k 1 = some (.canon (some (c.typeCode, c.blockNum, c.flags)) none) ∧
    scopeItem crcFn ctx k 2 = some (.canon none (some d)) ∧
    scopeItem crcFn ctx k 3 = some (.canon (some (c.typeCode, c.blockNum, c.flags)) (some d)) ∧
    (Item.canon (some (c.typeCode, c.blockNum, c.flags)) (some d)).enc =
      encUint c.typeCode ++ encUint c.blockNum ++ encUint c.flags ++ encBstr d := by
  refine ⟨?_, ?_, ?_, ?_, ?_⟩ <;>
    simp [scopeItem, hk, hb, hd, hasFlag, flagMetadata, flagBtsd, Item.enc, encMeta, encData]

/-- **Frame.** The MAC input is a function of the covered view, the protected header and the target
    data: contexts that agree on these (whatever else differs in the bundles) give the same input, so
    a change outside the declared scope cannot make verification fail. -/
theorem C03_frame (x y : AadCtx) (context : String) (prot : Bytes)
    (hv : coveredView crcFn x = coveredView crcFn y) (hd : x.tgt.btsd = y.tgt.btsd) :
    macInput crcFn x context prot = macInput crcFn y context prot := by
  unfold macInput
  rw [externalAad_eq_view, externalAad_eq_view, hv, hd]

/-- The external AAD alone determines the covered view (lengths and integers below 2^64). -/
theorem C03_aad_injective (x y : AadCtx) (v w : View)
    (hx : coveredView crcFn x = some v) (hy : coveredView crcFn y = some w)
    (bv : ViewBounded v) (bw : ViewBounded w)
    (h : externalAad crcFn x = externalAad crcFn y) : v = w := by
  rw [externalAad_eq_view, externalAad_eq_view, hx, hy] at h
  simp only [Option.map_some, Option.some.injEq] at h
  exact view_inj bv bw (coveredView_conform hx) (coveredView_conform hy) h

/-- **Injectivity.** Equal MAC inputs force equal covered views, equal (effective) protected headers,
    equal COSE context strings and equal target data. Contrapositive: any change of the target
    data, the primary block, a covered block's type / number / flags / data, the security source, the
    AAD scope, the additional protected parameters or the protected header changes the octets that
    are MACed. Side conditions: every integer and every string length in the covered data is
    below 2^64 (`ViewBounded`), as are the lengths of the AADs, headers, payloads and contexts. -/
theorem C03_input_injective (x y : AadCtx) (cx cy : String) (px py : Bytes) (v w : View) (i : Bytes)
    (hx : coveredView crcFn x = some v) (hy : coveredView crcFn y = some w)
    (bv : ViewBounded v) (bw : ViewBounded w)
    (lv : v.enc.length < 2 ^ 64) (lw : w.enc.length < 2 ^ 64)
    (lcx : (ascii cx).length < 2 ^ 64) (lcy : (ascii cy).length < 2 ^ 64)
    (lpx : (effProt px).length < 2 ^ 64) (lpy : (effProt py).length < 2 ^ 64)
    (ldx : ∀ d, x.tgt.btsd = some d → d.length < 2 ^ 64) (ldy : ∀ d, y.tgt.btsd = some d → d.length < 2 ^ 64)
    (hix : macInput crcFn x cx px = some i) (hiy : macInput crcFn y cy py = some i) :
    v = w ∧ ascii cx = ascii cy ∧ effProt px = effProt py ∧ x.tgt.btsd = y.tgt.btsd := by
  unfold macInput at hix hiy
  rw [externalAad_eq_view, hx] at hix
  rw [externalAad_eq_view, hy] at hiy
  simp only [Option.map_some] at hix hiy
  cases hdx : x.tgt.btsd with
  | none => simp [hdx] at hix
  | some dx =>
    cases hdy : y.tgt.btsd with
    | none => simp [hdy] at hiy
    | some dy =>
      simp only [hdx, Option.some.injEq] at hix
      simp only [hdy, Option.some.injEq] at hiy
      have h : macStructure cx px v.enc dx ++ [] = macStructure cy py w.enc dy ++ [] := by
        rw [hix, hiy]
      simp only [macStructure, List.append_assoc] at h
      have four : (4 : Nat) < 2 ^ 64 := by omega
      obtain ⟨_, e1⟩ := arrHead_inj four four h
      obtain ⟨h1, e2⟩ := tstr_inj lcx lcy e1
      obtain ⟨h2, e3⟩ := bstr_inj lpx lpy e2
      obtain ⟨h3, e4⟩ := bstr_inj lv lw e3
      obtain ⟨h4, _⟩ := bstr_inj (ldx dx hdx) (ldy dy hdy) e4
      exact ⟨view_inj bv bw (coveredView_conform hx) (coveredView_conform hy) h3, h1, h2, by rw [h4]⟩

/-- **apply ⇒ verify, COSE_Mac0.** The result `apply_bib` builds for a target verifies at any receiver
    whose covered view and target data are those of the source and whose store maps the key id to the
    same key. -/
theorem C03_apply_verifies (src rcv : AadCtx) (prot kid : Bytes) (k : Key) (m : Msg)
    (hv : coveredView crcFn src = coveredView crcFn rcv) (hd : src.tgt.btsd = rcv.tgt.btsd)
    (hk : store kid = some k) (ha : applyMac0 P crcFn src prot kid k = some m) :
    verifyBibTarget P store crcFn rcv (m.attach (rcv.tgt.btsd.getD [])) = true := by
  unfold applyMac0 at ha
  cases hi : macInput crcFn src "MAC0" prot with
  | none => simp [hi] at ha
  | some inp =>
    simp only [hi, Option.some.injEq] at ha
    subst ha
    rw [C03_verify_target_iff]
    simp only [Msg.attach, TagOk]
    exact ⟨inp, k, by rw [← C03_frame crcFn src rcv "MAC0" prot hv hd, hi], by simp [lookupKey, hk], rfl⟩

/-- **apply ⇒ verify, COSE_Mac with a key-wrap recipient**, under `unwrap kek (keyWrap kek cek) = some cek`. -/
theorem C03_apply_verifies_kw (src rcv : AadCtx) (prot kid : Bytes) (kek cek : Key) (m : Msg)
    (hw : P.unwrap kek (P.keyWrap kek cek) = some cek)
    (hv : coveredView crcFn src = coveredView crcFn rcv) (hd : src.tgt.btsd = rcv.tgt.btsd)
    (hk : store kid = some kek) (ha : applyMacKw P crcFn src prot kid kek cek = some m) :
    verifyBibTarget P store crcFn rcv (m.attach (rcv.tgt.btsd.getD [])) = true := by
  unfold applyMacKw at ha
  cases hi : macInput crcFn src "MAC" prot with
  | none => simp [hi] at ha
  | some inp =>
    simp only [hi, Option.some.injEq] at ha
    subst ha
    rw [C03_verify_target_iff]
    simp only [Msg.attach, TagOk]
    refine ⟨inp, by rw [← C03_frame crcFn src rcv "MAC" prot hv hd, hi], ⟨some kid, P.keyWrap kek cek⟩, by simp, kek, cek, ?_, hw, rfl⟩
    simp [lookupKey, hk]

end

/-- **Alterations of the security-source text are noticed, up to the codec's normalisation** (partial
    form of "any change to bound content is detected": what is missing is exactly the normalised
    cases, see `C03_eid_normalisation_counterexample`). The AAD is
    built from the decoded-and-re-encoded source text `norm a` of the received text `a`. Two received
    texts give the same AAD only if the normalisation identifies them; with `norm = knownEidNorm`
    (TAB / CR / LF removed, '/' appended to a bare authority) nothing else goes unnoticed – in
    particular a trailing '?' or '#' does (examples below). The normalised cases themselves are a
    weakness of the implementation (the received octets are not what is authenticated). -/
theorem C03_source_text_noticed_partial (crcFn : Nat → Bytes → Bytes) (norm : Bytes → Bytes) (x : AadCtx) (a b : Bytes)
    (v w : View)
    (hx : coveredView crcFn { x with ssrc := .dtn (norm a) } = some v)
    (hy : coveredView crcFn { x with ssrc := .dtn (norm b) } = some w)
    (bv : ViewBounded v) (bw : ViewBounded w)
    (h : externalAad crcFn { x with ssrc := .dtn (norm a) } = externalAad crcFn { x with ssrc := .dtn (norm b) }) :
    norm a = norm b := by
  have hvw := C03_aad_injective crcFn _ _ v w hx hy bv bw h
  have h1 := coveredView_ssrc hx
  have h2 := coveredView_ssrc hy
  rw [hvw, h2] at h1
  simpa using h1.symm

/-- **Counterexample to the full property (known finding, D20 family).** Two *different* received
    security-source texts – `//node` (trailing '/' dropped) and `//no<TAB>de/` against the original
    `//node/` – are decoded and re-encoded to the same text, so every context gives them the same
    external AAD and hence the same MAC input: the alteration of covered octets verifies. The
    harness replays this on the implementation (`C03:eid-normalised-alteration-verifies`). -/
theorem C03_eid_normalisation_counterexample :
    ∃ a b : Bytes, a ≠ b ∧ knownEidNorm a = knownEidNorm b ∧
      ∀ (crcFn : Nat → Bytes → Bytes) (x : AadCtx) (context : String) (prot : Bytes),
        macInput crcFn { x with ssrc := .dtn (knownEidNorm a) } context prot =
        macInput crcFn { x with ssrc := .dtn (knownEidNorm b) } context prot := by
  refine ⟨ascii "//node", ascii "//node/", by decide, by decide, ?_⟩
  intro crcFn x context prot
  have h : knownEidNorm (ascii "//node") = knownEidNorm (ascii "//node/") := by decide
  rw [h]

/-- what the known normalisation identifies with `//node/`, and what it does not -/
example : knownEidNorm (ascii "//node") = ascii "//node/" ∧ knownEidNorm (ascii "//no\tde/") = ascii "//node/" ∧
    knownEidNorm (ascii "//no\nde/\r") = ascii "//node/" ∧ knownEidNorm (ascii "//node/") = ascii "//node/" ∧
    knownEidNorm (ascii "//node?") ≠ ascii "//node/" ∧ knownEidNorm (ascii "//node#") ≠ ascii "//node/" ∧
    knownEidNorm (ascii "//node/?") ≠ ascii "//node/" ∧ knownEidNorm (ascii "//node/ ") ≠ ascii "//node/" ∧
    knownEidNorm (ascii "//nodf/") ≠ ascii "//node/" := by
  decide

/-- **A certificate key is usable only on a positive identity match.** With certificates as key
    references, the verifier obtains a key exactly when the chain validates and the end-entity
    certificate carries a NODE-ID equal to the security source; "no NODE-ID in the certificate"
    (`none`) and "another NODE-ID" (`some false`) both yield no key – hence (by
    `C03_verify_target_iff`) no COSE_Sign1 result can verify through such a certificate. -/
theorem C03_cert_key_positive_match {Key : Type} (certs : Bytes → Option (CertInfo Key)) (ref : Bytes) (k : Key) :
    certStore certs ref = some k ↔
      ∃ c, certs ref = some c ∧ c.chainValid = true ∧ c.nodeIdMatch = some true ∧ c.key = k := by
  unfold certStore
  cases h : certs ref with
  | none => simp
  | some c =>
    cases hv : c.chainValid <;> cases hm : c.nodeIdMatch with
    | none => simp [hv, hm]
    | some b => cases b <;> simp [hv, hm]

theorem C03_sign1_needs_matching_cert {Key : Type} (P : Prims Key) (crcFn : Nat → Bytes → Bytes)
    (certs : Bytes → Option (CertInfo Key)) (ctx : AadCtx) (prot : Bytes) (ref : Option Bytes)
    (pl : Option Bytes) (sig : Bytes)
    (h : verifyBibTarget P (certStore certs) crcFn ctx (.sign1 prot ref pl sig) = true) :
    ∃ r c, ref = some r ∧ certs r = some c ∧ c.chainValid = true ∧ c.nodeIdMatch = some true := by
  rw [C03_verify_target_iff] at h
  obtain ⟨inp, k, _, hk, _⟩ := h
  cases ref with
  | none => simp [lookupKey] at hk
  | some r =>
    simp only [lookupKey] at hk
    obtain ⟨c, hc, hv, hm, _⟩ := (C03_cert_key_positive_match certs r k).mp hk
    exact ⟨r, c, rfl, hc, hv, hm⟩

/-! ## Concrete instances (the hypotheses are satisfiable, the functions compute) -/

namespace C03ex
def toyCrc (_ : Nat) (_ : Bytes) : Bytes := [0xab, 0xcd]
def toyP : Prims Bytes :=
  { mac := fun k d => k ++ [UInt8.ofNat d.length], verifySig := fun _ _ _ => false,
    aeadEnc := fun _ _ _ p => p, aeadDec := fun _ _ _ c => some c,
    keyWrap := fun kek cek => kek ++ cek, unwrap := fun kek w => if w.take kek.length = kek then some (w.drop kek.length) else none }
def toyStore (kid : Bytes) : Option Bytes := if kid = [1] then some [9, 9] else none
def prim : Primary := { crcType := 1, dest := .dtn [0x2f, 0x2f, 0x64], src := .ipn [1, 2], lifetime := 1000 }
def payload : Canonical := { typeCode := 1, blockNum := 1, btsd := some [1, 2, 3] }
def bibBlk : Canonical := { typeCode := 11, blockNum := 2 }
def ctx : AadCtx :=
  { ssrc := .dtn [0x2f, 0x2f, 0x6e], scope := [(-1, 1), (0, 1)], primary := prim, blocks := [payload],
    secBlk := bibBlk, tgt := payload, addlProt := [] }
/-- the receiver sees an extra, uncovered block and a different stale CRC value in the primary block -/
def ctx' : AadCtx :=
  { ctx with blocks := [payload, { typeCode := 7, blockNum := 3, btsd := some [0] }],
             primary := { prim with crc := some [0, 0] } }
end C03ex

example : (externalAad C03ex.toyCrc C03ex.ctx).isSome = true := by decide +kernel

example : coveredView C03ex.toyCrc C03ex.ctx = coveredView C03ex.toyCrc C03ex.ctx' := by decide +kernel

example : ∃ m, applyMac0 C03ex.toyP C03ex.toyCrc C03ex.ctx [0xa1, 1, 5] [1] [9, 9] = some m ∧
    verifyBibTarget C03ex.toyP C03ex.toyStore C03ex.toyCrc C03ex.ctx' (m.attach [1, 2, 3]) = true := by
  refine ⟨_, rfl, ?_⟩
  decide +kernel

namespace C03ex
def bundle : Bundle := ⟨prim, [payload, bibBlk]⟩
def secBlock (tag : Bytes) (results2 : Bool) : SecBlock :=
  { blk := bibBlk, ssrc := ctx.ssrc, targets := [1], paramIds := [5], scope := ctx.scope, addlProt := [],
    results := [(17, .mac0 [0xa1, 1, 5] (some [1]) none tag) :: (if results2 then [(18, .mac0 [] none none [])] else [])] }
end C03ex

/-- whole block: the tag `apply_bib` computes verifies; a wrong tag fails with reason 15; so does a
    second result for the same target; a missing target block raises -/
example : verifyBib C03ex.toyP C03ex.toyStore C03ex.toyCrc C03ex.bundle (C03ex.secBlock [9, 9, 58] false) = .ok ∧
    verifyBib C03ex.toyP C03ex.toyStore C03ex.toyCrc C03ex.bundle (C03ex.secBlock [9, 9, 0] false) = .failed 15 ∧
    verifyBib C03ex.toyP C03ex.toyStore C03ex.toyCrc C03ex.bundle (C03ex.secBlock [9, 9, 58] true) = .failed 15 ∧
    verifyBib C03ex.toyP C03ex.toyStore C03ex.toyCrc C03ex.bundle
      { C03ex.secBlock [9, 9, 58] false with targets := [7] } = .raised := by
  decide +kernel

/-- certificates: matching NODE-ID gives the key; no NODE-ID, another NODE-ID, or a rejected chain do not -/
example : (certStore (fun r => if r = [1] then some ⟨true, some true, (7 : Nat)⟩ else if r = [2] then some ⟨true, none, 7⟩
      else if r = [3] then some ⟨true, some false, 7⟩ else if r = [4] then some ⟨false, some true, 7⟩ else none)) [1] = some 7 ∧
    ∀ r ∈ [[2], [3], [4], [5]],
      (certStore (fun r => if r = [1] then some ⟨true, some true, (7 : Nat)⟩ else if r = [2] then some ⟨true, none, 7⟩
        else if r = [3] then some ⟨true, some false, 7⟩ else if r = [4] then some ⟨false, some true, 7⟩ else none)) r = none := by
  decide

/-- a result list stripped from a two-target BIB: `verifyBib` raises -/
example : verifyBib C03ex.toyP C03ex.toyStore C03ex.toyCrc ⟨C03ex.prim, [C03ex.payload, { typeCode := 7, blockNum := 3 }, C03ex.bibBlk]⟩
    { C03ex.secBlock [9, 9, 58] false with targets := [1, 3] } = .raised := by
  decide +kernel

/-- policy order [3, 1] (extension block first): the block built verifies; so does [1, 3] -/
example : ∀ ts ∈ [[3, 1], [1, 3]],
    (match applyBib C03ex.toyP C03ex.toyCrc ⟨C03ex.prim, [C03ex.payload, { typeCode := 7, blockNum := 3, btsd := some [0] }]⟩
        C03ex.bibBlk (.dtn [0x2f, 0x2f, 0x6e]) [(0, 1), (-1, 1)] [0xa1, 1, 5] [1] [9, 9] ts with
     | none => false
     | some sb => sb.targets == ts && decide (verifyBib C03ex.toyP C03ex.toyStore C03ex.toyCrc
        ⟨C03ex.prim, [C03ex.payload, { typeCode := 7, blockNum := 3, btsd := some [0] }]⟩ sb = .ok)) = true := by
  decide +kernel

/-- the side conditions of `C03_aad_injective` / `C03_input_injective` hold for the instance -/
example : ∃ v, coveredView C03ex.toyCrc C03ex.ctx = some v ∧ ViewBounded v ∧ v.enc.length < 2 ^ 64 ∧
    (∀ d, C03ex.ctx.tgt.btsd = some d → d.length < 2 ^ 64) := by
  refine ⟨(coveredView C03ex.toyCrc C03ex.ctx).getD default, by decide +kernel,
    viewBoundedB_sound (by decide +kernel), by decide +kernel, ?_⟩
  intro d hd
  simp only [C03ex.ctx, C03ex.payload, Option.some.injEq] at hd
  subst hd
  decide

/-- altering the target data makes the toy verifier reject the tag made for the original
    (its "MAC" depends on the input length, which the alteration changes) -/
example : ∃ m, applyMac0 C03ex.toyP C03ex.toyCrc C03ex.ctx [0xa1, 1, 5] [1] [9, 9] = some m ∧
    verifyBibTarget C03ex.toyP C03ex.toyStore C03ex.toyCrc
      { C03ex.ctx with tgt := { C03ex.payload with btsd := some [1, 2, 3, 4] } } (m.attach [1, 2, 3, 4]) = false := by
  refine ⟨_, rfl, ?_⟩
  decide +kernel

end Props
end DtnVerif
