/-
  C12  A bundle with an unverifiable security block is never delivered.

  Model: Model/SecChain.lean – the BPSec steps 19/20 of the receive chain, `CoseContext.verify_*`'s
  structure checks, target loop and accept-after-verify removal, and the chain runner. The
  cryptographic outcome of each (security block, target) pair is a parameter (`Env.orc`): nothing
  here says a wrong key or an altered byte *makes* the primitive fail (that is C03/C16's reduction
  plus the primitive's own security), only what the agent does with each outcome.

  `Quirks.current` is the code as it now is (snapshot iteration, exception ⇒ FAILED_SEC,
  undissectable type 11/12 block ⇒ FAILED_SEC, absent parameters / empty result array read as empty
  lists). `C12_fail_closed` is the property's first sentence at full strength for it, `C12_pass`
  the second. The four former defects (D15, D16, D22, D29) are kept as concrete regression
  instances: the check replays their implementation-side twins on every run.
-/
import DtnVerif.Model.SecChain
import DtnVerif.Lemmas.SecChain
import DtnVerif.Generated.Facts
namespace DtnVerif
namespace Props
open SecChain

/-- Constants of the source the model relies on: context id, block type codes, reason codes and the
    position of the two BPSec steps in the receive chain – after reassembly (10), before the first
    application step (30), BCB before BIB, nothing else in between. -/
theorem C12_facts :
    Facts.const_bpsec_BPSEC_COSE_CONTEXT_ID = (coseContextId : Int) ∧
    ("CanonicalBlock", "BlockIntegrityBlock", "bind_type", (typeBib : Int)) ∈ Facts.binds ∧
    ("CanonicalBlock", "BlockConfidentialityBlock", "bind_type", (typeBcb : Int)) ∈ Facts.binds ∧
    Facts.enum_admin_StatusReport_ReasonCode_UNKNOWN_SEC = (reasonUnknownSec : Int) ∧
    Facts.enum_admin_StatusReport_ReasonCode_FAILED_SEC = (reasonFailedSec : Int) ∧
    Facts.enum_admin_StatusReport_ReasonCode_MISSING_SEC = 12 ∧
    Facts.enum_admin_StatusReport_ReasonCode_CONFLICT_SEC = 16 ∧
    ((Facts.chainSteps.filter (fun s => s.1 == "rx_chain" && decide (10 < s.2.1) && decide (s.2.1 < 30))).map
        (fun s => (s.2.1, s.2.2.2))) = [(19, "_verify_bcb"), (20, "_verify_bib")] ∧
    ("rx_chain", 10, "Fragment reassembly", "_reassemble") ∈ Facts.chainSteps ∧
    ("rx_chain", 30, "Administrative handling", "_recv_bundle") ∈ Facts.chainSteps := by
  decide

/-! ## Fail-closed -/

/-- The property's first sentence as a statement about a quirk set. -/
def FailClosed (q : Quirks) : Prop :=
  ∀ (e : Env) (st : List Blk), bundleDefect e st = true →
    (run q e true st).delivered = false ∧ (run q e true st).secDeleted = true

private theorem sel_fixed (tc : Nat) (b : Blk) : sel Quirks.current tc b = (b.typeCode == tc) := by
  simp [sel, Quirks.current]

/-- One step of the repaired code. -/
private theorem stepRun_fixed (e : Env) (tc : Nat) (st : List Blk) :
    Evolves tc st (stepRun Quirks.current e tc st).1 ∧
    (∀ f ∈ (stepRun Quirks.current e tc st).2, f.isSecCode = true) ∧
    ((∃ b ∈ st, b.typeCode = tc ∧ blkDefect e (present st) b = true) →
      (stepRun Quirks.current e tc st).2 ≠ []) := by
  have hs : stepRun Quirks.current e tc st =
      iterCopy Quirks.current e tc (st.filter (sel Quirks.current tc)) st [] := by
    simp [stepRun, Quirks.current]
  rw [hs]
  obtain ⟨h1, suf, h2, h3, h4⟩ := iterCopy_spec Quirks.current e tc (st.filter (sel Quirks.current tc)) st []
  refine ⟨h1, ?_, ?_⟩
  · rw [h2]
    simpa using h3 rfl
  · rintro ⟨b, hb, htc, hd⟩
    rw [h2]
    have := h4 st (Evolves.refl tc st) ⟨b, List.mem_filter.mpr ⟨hb, by simp [sel_fixed, htc]⟩, hd⟩
    simpa using this

private theorem secDeleted_of_code (n : Nat) (bl : List Blk) (h : n = reasonUnknownSec ∨ n = reasonFailedSec) :
    (Result.mk false true (some (.code n)) bl).secDeleted = true := by
  rcases h with h | h <;> subst h <;> rfl

/-- **C12 fail-closed, full strength.** For every bundle recorded for
    delivery, every accept setting, every oracle of cryptographic outcomes: if some type 11/12 block
    is not an ASB, names an unknown context, has duplicate parameter / result ids, undecodable
    additional headers, or has a target that is missing, lacks exactly one result or does not
    verify – then no application step sees the bundle and `delete` is recorded with reason 13 or 15. -/
theorem C12_fail_closed : FailClosed Quirks.current := by
  intro e st hdef
  simp only [bundleDefect, List.any_eq_true, Bool.and_eq_true] at hdef
  obtain ⟨b, hb, hsec, hd⟩ := hdef
  obtain ⟨ev1, c1, d1⟩ := stepRun_fixed e typeBcb st
  have key : ∃ n bl, run Quirks.current e true st = ⟨false, true, some (.code n), bl⟩ ∧
      (n = reasonUnknownSec ∨ n = reasonFailedSec) := by
    unfold run
    simp only [Bool.not_true, Bool.false_eq_true, ↓reduceIte]
    by_cases hne : (stepRun Quirks.current e typeBcb st).2 = []
    · -- the BCB step passes: the defective block is a BIB and is still there
      rw [hne]
      simp only [verdict_nil]
      have htc : b.typeCode = typeBib := by
        simp only [isSec, Bool.or_eq_true, beq_iff_eq] at hsec
        rcases hsec with h | h
        · exact h
        · exact absurd hne (d1 ⟨b, hb, h, hd⟩)
      obtain ⟨b', hb', sh⟩ := ev1.keep b hb (by rw [htc]; decide)
      have hd' := blkDefect_mono e (present st) (present (stepRun Quirks.current e typeBcb st).1)
        (fun n => ev1.present_sub n) b b' sh hd
      obtain ⟨_, c2, d2⟩ := stepRun_fixed e typeBib (stepRun Quirks.current e typeBcb st).1
      have hne2 := d2 ⟨b', hb', by rw [sh.1, htc], hd'⟩
      obtain ⟨n, hv, hn⟩ := verdict_codes _ hne2 c2
      rw [hv]
      exact ⟨n, _, rfl, hn⟩
    · obtain ⟨n, hv, hn⟩ := verdict_codes _ hne c1
      rw [hv]
      exact ⟨n, _, rfl, hn⟩
  obtain ⟨n, bl, hr, hn⟩ := key
  rw [hr]
  exact ⟨rfl, secDeleted_of_code n bl hn⟩

/-- **Every security block is visited, whatever is removed on acceptance.** In a step of the code as
    it is, each block of the step's type that is defective when the step starts contributes a failure –
    also when blocks before it verify, are accepted and removed from the container during the loop
    (first, middle or last of any number of such blocks). -/
theorem C12_every_block_visited (e : Env) (tc : Nat) (st : List Blk) (b : Blk) (hb : b ∈ st)
    (htc : b.typeCode = tc) (hd : blkDefect e (present st) b = true) :
    (stepRun Quirks.current e tc st).2 ≠ [] :=
  (stepRun_fixed e tc st).2.2 ⟨b, hb, htc, hd⟩

/-- **A type 11/12 block whose data does not decode fails the bundle.** The steps look the blocks up by
    block type code, not by the class their data dissected to: a block that claims to be a BIB / BCB but
    is not an abstract security block (one flipped bit in a CBOR head suffices) is visited and counts
    as FAILED_SEC. -/
theorem C12_undecodable_security_block_fails (e : Env) (st : List Blk) (b : Blk) (hb : b ∈ st)
    (hs : isSec b = true) (hp : b.pl = none) :
    (run Quirks.current e true st).delivered = false ∧ (run Quirks.current e true st).secDeleted = true := by
  apply C12_fail_closed
  simp only [bundleDefect, List.any_eq_true, Bool.and_eq_true]
  exact ⟨b, hb, hs, by simp [blkDefect, hp]⟩

/-- **Any failing target fails the block, at every position.** For a security block of any quirk set,
    acceptance setting and block list: if the target at index `j` of its target list – first, middle
    or last – is missing, has no result list, has not exactly one result, or its cryptographic check
    does not return "verified", then verifying the block records a failure; later (or earlier)
    targets that verify do not withdraw it. -/
theorem C12_any_target_fails (q : Quirks) (e : Env) (tc : Nat) (st : List Blk) (num : Nat) (a : Asb)
    (j : Nat) (hj : j < a.targets.length)
    (hbad : targetDefect (e.orc num) (present st) a.results j a.targets[j] = true) :
    (verifyAsb q e tc st num a).2.isSome = true := by
  apply verifyAsb_fails
  have h := anyTargetDefect_index (e.orc num) (present st) a.results a.targets 0 j hj (by simpa using hbad)
  simp [asbDefect, h]

/-- three targets, only the first / the middle / the last one failing -/
example : ∀ bad ∈ [1, 3, 5],
    (verifyAsb Quirks.current ⟨false, fun _ t => if t == bad then .fail else .ok, fun _ _ => []⟩ 11
      [⟨1, 1, [], none⟩, ⟨7, 3, [], none⟩, ⟨10, 5, [], none⟩] 2
      { targets := [1, 3, 5], ctxId := 3, paramIds := [5], results := [[17], [17], [17]] }).2 = some (.code 15) := by
  decide

/-! ## Former defects as regression instances -/

namespace C12ex
def okAsb (targets : List Nat) : Asb := { targets := targets, ctxId := 3, paramIds := [5], results := targets.map (fun _ => [17]) }
def payload : Blk := ⟨1, 1, [0x68, 0x69], none⟩
def age : Blk := ⟨7, 3, [0x00], none⟩

/-- D15: two BIBs, acceptance on; the first (over block 3) verifies and is removed; the second (over
    the payload, tag wrong) must still be verified. -/
def envD15 : Env := ⟨true, fun s _ => if s == 2 then .ok else .fail, fun _ _ => []⟩
def stD15 : List Blk := [⟨11, 2, [], some (okAsb [3])⟩, ⟨11, 4, [], some (okAsb [1])⟩, age, payload]

/-- D16: a BIB whose target block does not exist (`KeyError` inside `verify_bib`), alone and next to
    an ordinary failure (unknown context). -/
def envD16 : Env := ⟨false, fun _ _ => .ok, fun _ _ => []⟩
def stD16 : List Blk := [⟨11, 2, [], some (okAsb [9])⟩, payload]
def stD16mixed : List Blk := [⟨11, 2, [], some { okAsb [1] with ctxId := 99 }⟩, ⟨11, 4, [], some (okAsb [9])⟩, payload]

/-- D22: a type-11 block whose BTSD is not an ASB. -/
def stD22 : List Blk := [⟨11, 2, [0xff], none⟩, payload]

/-- D29: a BIB without the optional parameters field whose only target verifies. -/
def stD29 : List Blk := [⟨11, 2, [], some { okAsb [1] with hasParams := false, paramIds := [] }⟩, payload]
end C12ex

/-- two BCBs, acceptance on: the first decrypts and is removed, the second does not decrypt -/
example : (run Quirks.current ⟨true, fun s _ => if s == 2 then .ok else .fail, fun _ _ => [1]⟩ true
    [⟨12, 2, [], some (C12ex.okAsb [3])⟩, ⟨12, 4, [], some (C12ex.okAsb [1])⟩, C12ex.age, C12ex.payload]).secDeleted = true := by
  decide


/-- hypotheses of `C12_fail_closed` hold on the four witnesses of the former defects, and its
    conclusion computes: not delivered, deleted with a security reason (15; 15 wins over 13) -/
example : bundleDefect C12ex.envD15 C12ex.stD15 = true ∧ bundleDefect C12ex.envD16 C12ex.stD16 = true ∧
    bundleDefect C12ex.envD16 C12ex.stD16mixed = true ∧ bundleDefect C12ex.envD16 C12ex.stD22 = true ∧
    (run Quirks.current C12ex.envD15 true C12ex.stD15).secDeleted = true ∧
    (run Quirks.current C12ex.envD16 true C12ex.stD16).reason = some (.code 15) ∧
    (run Quirks.current C12ex.envD16 true C12ex.stD16mixed).reason = some (.code 15) ∧
    (run Quirks.current C12ex.envD16 true C12ex.stD22).secDeleted = true ∧
    (run Quirks.current C12ex.envD16 true C12ex.stD22).delivered = false := by decide

/-- a security block without the optional parameters field is not a defect and is delivered -/
example : bundleDefect C12ex.envD16 C12ex.stD29 = false ∧
    (run Quirks.current C12ex.envD16 true C12ex.stD29).delivered = true := by decide

/-! ## Pass -/

/-- **A verifying BCB over the payload yields delivery of the decrypted data – administrative records
    included.** The receive chain does not look into the payload before the BPSec steps: for *any*
    payload octets `d` on the wire (the ciphertext of an administrative record, say, which is not
    itself a decodable record), a BCB numbered `n ≠ 1` over block 1 that verifies and is accepted
    leads to delivery, the BCB removed and the payload block holding exactly the plaintext
    `e.plain n 1` – which is what the administrative handler (order 30) then reads. Without
    acceptance the bundle is delivered unchanged. -/
theorem C12_bcb_over_payload_delivers_plaintext (e : Env) (n : Nat) (hn : n ≠ 1) (x d : Bytes)
    (hok : e.orc n 1 = .ok) :
    run Quirks.current e true
      [⟨typeBcb, n, x, some { targets := [1], ctxId := coseContextId, paramIds := [5], results := [[16]] }⟩,
       ⟨1, 1, d, none⟩] =
    (if e.accept then ⟨true, false, none, [⟨1, 1, e.plain n 1, none⟩]⟩
     else ⟨true, false, none,
       [⟨typeBcb, n, x, some { targets := [1], ctxId := coseContextId, paramIds := [5], results := [[16]] }⟩,
        ⟨1, 1, d, none⟩]⟩) := by
  have h1 : (1 == n) = false := by simpa using (Ne.symm hn)
  have h2 : (n == 1) = false := by simpa using hn
  cases hacc : e.accept <;>
    simp [run, stepRun, Quirks.current, iterCopy, sel, verifyBlock, verifyAsb, checkSecblk, checkResults, hasDup,
      targetLoop, present, hok, hacc, writePlain, removeBlk, optList, verdict, typeBcb, typeBib, coseContextId, h1, h2, hn, List.filter]

/-- **C12 pass.** (Any quirk set, in particular the code as it is.) If every security block is clean
    – dissected, known context, no duplicate ids, every target present with exactly one result that
    verifies – and no security block targets another security block (and, only for a quirk set with
    `noneRaises`, i.e. not for the current code, parameters field present and no empty result array), the bundle reaches the
    application steps, `delete` is not recorded, no block is invented and every non-security block
    is still there with its type, number and dissected payload. -/
theorem C12_pass (q : Quirks) (e : Env) (st : List Blk) (hv : AllVerify q e st) :
    (run q e true st).delivered = true ∧ (run q e true st).deleted = false ∧
    Back st (run q e true st).blocks ∧ KeepsNonSec st (run q e true st).blocks := by
  have hb0 : Back st st := fun b hb => ⟨b, hb, rfl, rfl, rfl⟩
  have hk0 : KeepsNonSec st st := fun b hb _ => ⟨b, hb, rfl, rfl, rfl⟩
  obtain ⟨h1, hb1, hk1⟩ := stepRun_clean q e typeBcb (Or.inr rfl) st st hv hb0 hk0
  obtain ⟨h2, hb2, hk2⟩ := stepRun_clean q e typeBib (Or.inl rfl) st (stepRun q e typeBcb st).1 hv hb1 hk1
  unfold run
  simp only [Bool.not_true, Bool.false_eq_true, ↓reduceIte, h1, verdict_nil, h2]
  exact ⟨trivial, trivial, hb2, hk2⟩

/-- Without acceptance a verified bundle whose security blocks each have at least one target (and
    on which nothing raises: `blkNoQuirk`) is delivered exactly as received: no block removed, no
    BTSD rewritten. -/
theorem C12_pass_unchanged (e : Env) (st : List Blk) (hacc : e.accept = false)
    (hwell : ∀ b ∈ st, isSec b = true → blkNoQuirk e (present st) b = true)
    (hv : AllVerify Quirks.current e st) : (run Quirks.current e true st).blocks = st := by
  have s12 := stepRun_const Quirks.current e typeBcb (Or.inr rfl) st hacc hwell
  have s11 := stepRun_const Quirks.current e typeBib (Or.inl rfl) st hacc hwell
  have hb0 : Back st st := fun b hb => ⟨b, hb, rfl, rfl, rfl⟩
  have hk0 : KeepsNonSec st st := fun b hb _ => ⟨b, hb, rfl, rfl, rfl⟩
  obtain ⟨h1, _, _⟩ := stepRun_clean Quirks.current e typeBcb (Or.inr rfl) st st hv hb0 hk0
  rw [s12] at h1
  simp only at h1
  obtain ⟨h2, _, _⟩ := stepRun_clean Quirks.current e typeBib (Or.inl rfl) st st hv hb0 hk0
  rw [s11] at h2
  simp only at h2
  unfold run
  simp only [Bool.not_true, Bool.false_eq_true, ↓reduceIte, s12, h1, verdict_nil, s11, h2]

namespace C12ex
/-- BCB over the payload + BIB over the payload, both verify, acceptance on -/
def envAcc : Env := ⟨true, fun _ _ => .ok, fun _ _ => [0x70]⟩
def stBoth : List Blk := [⟨11, 2, [], some (okAsb [1])⟩, ⟨12, 4, [], some (okAsb [1])⟩, age, payload]
end C12ex

/-- hypotheses of `C12_pass` are satisfiable; with acceptance the plaintext is written, both security
    blocks are removed, the other blocks stay -/
example : run Quirks.current C12ex.envAcc true C12ex.stBoth =
    ⟨true, false, none, [C12ex.age, { C12ex.payload with btsd := [0x70] }]⟩ := by decide

example : AllVerify Quirks.current C12ex.envAcc C12ex.stBoth := by
  constructor
  · intro b hb hs
    simp only [C12ex.stBoth, List.mem_cons, List.not_mem_nil, or_false] at hb
    rcases hb with h | h | h | h <;> subst h <;> first | rfl | (exact absurd hs (by decide))
  · intro _ b hb hs
    simp only [C12ex.stBoth, List.mem_cons, List.not_mem_nil, or_false] at hb
    rcases hb with h | h | h | h <;> subst h <;> rfl
  · intro b hb hs a ha t ht b' hb' hn
    simp only [C12ex.stBoth, List.mem_cons, List.not_mem_nil, or_false] at hb
    rcases hb with h | h | h | h <;> subst h
    · simp only [Option.some.injEq] at ha
      subst ha
      simp only [C12ex.okAsb, List.mem_singleton] at ht
      subst ht
      simp only [C12ex.stBoth, List.mem_cons, List.not_mem_nil, or_false] at hb'
      rcases hb' with h | h | h | h <;> subst h <;> first | rfl | (exact absurd hn (by decide))
    · simp only [Option.some.injEq] at ha
      subst ha
      simp only [C12ex.okAsb, List.mem_singleton] at ht
      subst ht
      simp only [C12ex.stBoth, List.mem_cons, List.not_mem_nil, or_false] at hb'
      rcases hb' with h | h | h | h <;> subst h <;> first | rfl | (exact absurd hn (by decide))
    · exact absurd hs (by decide)
    · exact absurd hs (by decide)

end Props
end DtnVerif
