/-
  C19 — status reports are sent exactly when requested and say what happened.
  Model: `reportFor` / `createReport` (Model/Report.lean), `_finish_bundle` call sites in
  Model/BpAgent.lean. Property theorems only.
-/
import DtnVerif.Lemmas.AgentFwd
namespace DtnVerif
namespace Props
namespace C19
open Agent Bp

/-- Constants of the source the report logic relies on. -/
theorem C19_facts :
    (flagReqDelete : Int) = Facts.enum_blocks_PrimaryBlock_Flag_REQ_DELETION_REPORT
    ∧ (flagReqDeliver : Int) = Facts.enum_blocks_PrimaryBlock_Flag_REQ_DELIVERY_REPORT
    ∧ (flagReqForward : Int) = Facts.enum_blocks_PrimaryBlock_Flag_REQ_FORWARDING_REPORT
    ∧ (flagReqReceive : Int) = Facts.enum_blocks_PrimaryBlock_Flag_REQ_RECEPTION_REPORT
    ∧ (flagStatusTime : Int) = Facts.enum_blocks_PrimaryBlock_Flag_REQ_STATUS_TIME
    ∧ (flagAdmin : Int) = Facts.enum_blocks_PrimaryBlock_Flag_PAYLOAD_ADMIN
    ∧ (reasonNoInfo : Int) = Facts.enum_admin_StatusReport_ReasonCode_NO_INFO
    ∧ (reasonNoRoute : Int) = Facts.enum_admin_StatusReport_ReasonCode_NO_ROUTE
    ∧ (crc32Type : Int) = Facts.enum_blocks_AbstractBlock_CrcType_CRC32
    ∧ ("AdminRecord", "StatusReport", "bind_type", (1 : Int)) ∈ Facts.binds := by
  decide

/-- **Report iff requested and occurred.** When `_finish_bundle` runs, a status report is
    produced exactly when the report-to endpoint is neither absent nor `dtn:none` and some
    recorded action (receive, forward, deliver, delete) has its request flag set. -/
theorem C19_iff (c : Ctr) :
    (createReport c).isSome = true ↔
      rptDisabled c = false ∧ ∃ a, hasAct c.actions a = true ∧ requested c a := by
  rw [← anyStatus_iff]
  unfold createReport reportFor
  cases h1 : rptDisabled c <;> cases h2 : anyStatus c <;> simp

example : (createReport { primary := { flags := 0x4000, rpt := .dtn [1] }, blocks := [],
                          actions := [(.receive, 5)] }).isSome = true := by decide
example : createReport { primary := { flags := 0x4000, rpt := .dtnNone }, blocks := [],
                         actions := [(.receive, 5)] } = none := by decide
example : createReport { primary := { flags := 0x4000, rpt := .dtn [1] }, blocks := [],
                         actions := [(.receive, 5)], rptNone := true } = none := by decide
example : createReport { primary := { flags := 0x20000, rpt := .dtn [1] }, blocks := [],
                         actions := [(.receive, 5), (.forward, 6)] } = none := by decide

/-- Each entry of the status array asserts an action only if that action was recorded on the
    bundle and its report was requested; a time accompanies the assertion exactly when the
    status-time flag is set, and it is the time recorded for that action. -/
theorem C19_status_entries (c : Ctr) (a : Action) :
    (statusFor c a ≠ .no ↔ hasAct c.actions a = true ∧ requested c a)
    ∧ (∀ t, statusFor c a = .yes (some t) →
        hasFlag c.primary.flags flagStatusTime = true ∧ (a, t) ∈ c.actions)
    ∧ (statusFor c a = .yes none → hasFlag c.primary.flags flagStatusTime = false) := by
  unfold statusFor requested
  cases ht : actTime c.actions a with
  | none =>
    have := actTime_none _ _ ht
    simp [this]
  | some t =>
    have hm := actTime_some _ _ _ ht
    have hh : hasAct c.actions a = true := (hasAct_iff _ _).2 ⟨t, hm⟩
    cases hf : actionFlag a with
    | none => simp [hh]
    | some f =>
      cases hr : hasFlag c.primary.flags f <;> cases hs : hasFlag c.primary.flags flagStatusTime <;>
        simp [hh, hr, hm]

/-- **Content of a report.** The reply bundle is addressed to the subject's report-to
    endpoint, is flagged as an administrative record, carries CRC-32 on the primary and on the
    payload block, and its payload is the status-report record whose subject is the bundle's
    source and creation timestamp, whose reason is the recorded one (0 when none), and whose four
    assertions obey `C19_status_entries` (requested ∧ occurred only; times iff requested). -/
theorem C19_content (c r : Ctr) (h : createReport c = some r) :
    r.primary.dest = c.primary.rpt
    ∧ hasFlag r.primary.flags flagAdmin = true
    ∧ r.primary.crcType = crc32Type
    ∧ ∃ rep : StatusReport,
        r.blocks = [{ c := { typeCode := typePayload, blockNum := 1, flags := 0, crcType := crc32Type,
                             btsd := some rep.enc, crc := none } }]
        ∧ rep.subjSrc = c.primary.src ∧ rep.subjTs = c.primary.ts
        ∧ rep.reason = c.reason.getD reasonNoInfo
        ∧ rep.received = statusFor c .receive ∧ rep.forwarded = statusFor c .forward
        ∧ rep.delivered = statusFor c .deliver ∧ rep.deleted = statusFor c .delete := by
  unfold createReport at h
  cases hr : reportFor c with
  | none => simp [hr] at h
  | some rep =>
    simp only [hr, Option.map_some, Option.some.injEq] at h
    subst h
    have : rep = reportOf c := by
      unfold reportFor at hr
      (repeat' split at hr) <;> simp_all
    subst this
    exact ⟨rfl, by simp [replyCtr, hasFlag, flagAdmin], rfl, reportOf c, rfl, rfl, rfl, rfl, rfl, rfl, rfl, rfl⟩

-- a forwarded bundle that requested reception + forwarding reports with times
example : ∃ r, createReport { primary := { flags := 0x14040, rpt := .dtn [1], src := .dtn [2], ts := ⟨7, 1⟩ },
                              blocks := [], actions := [(.receive, 5), (.forward, 6)] } = some r
    ∧ r.primary.dest = .dtn [1] ∧ r.primary.flags = 2 := ⟨_, rfl, by decide⟩

example : (statusFor { primary := { flags := 0x4040 }, blocks := [], actions := [(.receive, 9)] } .receive)
    = .yes (some 9) := by decide

/-- **No recursion.** A report's own flags request no report: whatever happens to a bundle
    carrying the flags of a status report (at this node after `_apply_primary`, or at any other
    node running this code), `create_report` yields nothing. -/
theorem C19_no_recursion (c r : Ctr) (h : createReport c = some r) :
    r.primary.flags = flagAdmin
    ∧ (∀ cfg st now, (applyPrimary cfg st now r).2.primary.flags = flagAdmin)
    ∧ ∀ c' : Ctr, c'.primary.flags = flagAdmin → createReport c' = none := by
  have hf : r.primary.flags = flagAdmin := by
    unfold createReport at h
    cases hr : reportFor c <;> simp [hr] at h
    subst h; rfl
  refine ⟨hf, ?_, ?_⟩
  · intro cfg st now
    simp only [applyPrimary, apLife, apTs, apRpt, apSrc]
    (repeat' split) <;> simp_all
  · intro c' hc'
    have : anyStatus c' = false := by
      cases hh : anyStatus c' with
      | false => rfl
      | true =>
        obtain ⟨a, _, f, hf, hb⟩ := (anyStatus_iff c').1 hh
        rw [hc'] at hb
        cases a <;> simp [actionFlag] at hf <;> subst hf <;> revert hb <;> decide
    unfold createReport reportFor
    simp [this]

/-! ### a forwarded bundle is never reported as deleted -/

/-- **Forwarded ⇒ not reported deleted.** When an idle `_do_fwd` lets the bundle leave the node —
    whole (`tx`) or as fragments (`fragmented`, the fragment-creation step took it over) — every
    report it schedules asserts forwarding and does not assert deletion. The fragment outcome
    ranges over {none, consumed, raises, unsendable}. (`c0` is a queue entry as `recv_bundle`
    makes them: no 'delete' recorded, see `C19_queue_no_delete`.) -/
theorem C19_forward_not_deleted
    (cfg : Cfg) (st : St) (now : Nat) (sp : SendParams) (c0 : Ctr) (q : List Ctr)
    (hq : st.fwdQ = c0 :: q) (hnd : hasAct c0.actions .delete = false)
    (hout : (∃ d, Effect.tx d ∈ (doFwd cfg st now sp).2) ∨ Effect.fragmented ∈ (doFwd cfg st now sp).2) :
    ∀ i rep r, Effect.report i rep r ∈ (doFwd cfg st now sp).2 → rep.deleted = .no := by
  have key : ∀ (e : St × Ctr × Bool) (s : St × Ctr × SendRes),
      e = fwdEdit cfg { st with fwdQ := q } now c0 → s = sendAsIs cfg e.1 now sp e.2.1 →
      (doFwd cfg st now sp).2 =
        if !e.2.2 then (fwdFail e.1 e.2.1 now []).2
        else match s.2.2 with
          | .sent b => Effect.tx b.enc :: finishEff (s.2.1.record .forward now)
          | .consumed => Effect.fragmented :: finishEff (s.2.1.record .forward now)
          | .noSender => (fwdFail s.1 s.2.1 now []).2 := by
    intro e s he hs
    subst he hs
    unfold doFwd
    simp only [hq]
    split
    · rfl
    · split <;> simp_all [finish_eff]
  have hfail : ∀ (s : St) (c : Ctr) (x : Effect), x ∈ (fwdFail s c now []).2 →
      (∀ d, x ≠ .tx d) ∧ x ≠ .fragmented := by
    intro s c x hx
    simp only [fwdFail, finish_eff, List.nil_append] at hx
    obtain ⟨_, _, h⟩ := finishEff_mem _ _ hx
    subst h
    exact ⟨fun d => by simp, by simp⟩
  -- a report scheduled after a successful hand-over
  have hgood : ∀ (i : Ident) (rep : StatusReport) (r : Ctr),
      Effect.report i rep r ∈ finishEff ((sendAsIs cfg (fwdEdit cfg { st with fwdQ := q } now c0).1 now sp
          (fwdEdit cfg { st with fwdQ := q } now c0).2.1).2.1.record .forward now) → rep.deleted = .no := by
    intro i rep r hm
    obtain ⟨rep', hrep, he⟩ := finishEff_mem _ _ hm
    simp only [Effect.report.injEq] at he
    obtain ⟨_, rfl, _⟩ := he
    rw [reportFor_some _ _ hrep]
    apply statusFor_delete_no
    simp only [Ctr.record]
    rw [hasAct_record_ne _ _ _ _ (by decide)]
    rw [sendAsIs_ctr, (fwdEdit_meta _ _ _ _).1]
    exact hnd
  rw [key _ _ rfl rfl] at hout ⊢
  split at hout
  · exfalso
    rcases hout with ⟨d, hd⟩ | hd
    · exact (hfail _ _ _ hd).1 d rfl
    · exact (hfail _ _ _ hd).2 rfl
  · rename_i hok
    simp only [hok]
    cases hres : (sendAsIs cfg (fwdEdit cfg { st with fwdQ := q } now c0).1 now sp
        (fwdEdit cfg { st with fwdQ := q } now c0).2.1).2.2 with
    | sent b =>
      intro i rep r hm
      simp only [Bool.false_eq_true, if_false, List.mem_cons] at hm
      rcases hm with hm | hm
      · cases hm
      · exact hgood i rep r hm
    | consumed =>
      intro i rep r hm
      simp only [Bool.false_eq_true, if_false, List.mem_cons] at hm
      rcases hm with hm | hm
      · cases hm
      · exact hgood i rep r hm
    | noSender =>
      exfalso
      simp only [hres] at hout
      rcases hout with ⟨d, hd⟩ | hd
      · exact (hfail _ _ _ hd).1 d rfl
      · exact (hfail _ _ _ hd).2 rfl

/-- Instance (the former D14 witness): a bundle requesting deletion and forwarding reports,
    routed `forward`, whose transmit route makes the fragment step consume it. -/
def d14Cfg : Cfg := { nodeId := .dtn [47, 47, 110, 111, 100, 101, 47], rxRoutes := [.forward] }
def d14Ctr : Ctr :=
  { primary := { flags := 0x50000, dest := .dtn [47, 47, 102, 114, 97, 103, 47, 120],
                 src := .dtn [47, 47, 115, 114, 99, 47], rpt := .dtn [47, 47, 114, 112, 116, 47],
                 ts := ⟨700, 0⟩, lifetime := 60000 },
    blocks := [{ c := { typeCode := 1, blockNum := 1, btsd := some [1, 2, 3] } }],
    actions := [(.receive, 800), (.forward, 800)] }
def d14St : St := { fwdQ := [d14Ctr] }

-- sent as fragments: reported forwarded, not deleted
example : ∃ i rep r, (doFwd d14Cfg d14St 900 { txBits := [true], frag := .consumed }).2
    = [.fragmented, .report i rep r] ∧ rep.forwarded = .yes none ∧ rep.deleted = .no :=
  ⟨_, _, _, rfl, by decide, by decide⟩

/-- **When forwarding fails the report says deleted and does not say forwarded**: fragmentation
    impossible, no transmit route or no convergence layer ⇒ nothing is handed over, 'forward' is
    taken back, delete / "no known route" is recorded. -/
theorem C19_failed_forward_not_reported_forwarded
    (cfg : Cfg) (st : St) (now : Nat) (sp : SendParams) (c0 : Ctr) (q : List Ctr)
    (hq : st.fwdQ = c0 :: q)
    (hfail : sp.txBits.any id = false ∨ sp.frag = .unsendable ∨ (sp.frag ≠ .consumed ∧ sp.clOk = false)) :
    (∀ d, Effect.tx d ∉ (doFwd cfg st now sp).2) ∧ Effect.fragmented ∉ (doFwd cfg st now sp).2
    ∧ ∀ i rep r, Effect.report i rep r ∈ (doFwd cfg st now sp).2 →
        rep.forwarded = .no ∧ rep.reason = reasonNoRoute := by
  have hres : (sendAsIs cfg (fwdEdit cfg { st with fwdQ := q } now c0).1 now sp
      (fwdEdit cfg { st with fwdQ := q } now c0).2.1).2.2 = .noSender := by
    simp only [sendAsIs, sendRes]
    rcases hfail with h | h | ⟨h1, h2⟩
    · simp [h]
    · cases hb : sp.txBits.any id <;> simp [h]
    · cases hb : sp.txBits.any id <;> cases hf : sp.frag <;> simp_all
  have hok := (fwdEdit_stages cfg { st with fwdQ := q } now c0).1
  have heq : (doFwd cfg st now sp).2 = (fwdFail
      (sendAsIs cfg (fwdEdit cfg { st with fwdQ := q } now c0).1 now sp
        (fwdEdit cfg { st with fwdQ := q } now c0).2.1).1
      (sendAsIs cfg (fwdEdit cfg { st with fwdQ := q } now c0).1 now sp
        (fwdEdit cfg { st with fwdQ := q } now c0).2.1).2.1 now []).2 := by
    unfold doFwd
    simp only [hq, hok, Bool.not_true, Bool.false_eq_true, if_false, hres]
  rw [heq]
  simp only [fwdFail, finish_eff, List.nil_append]
  refine ⟨?_, ?_, ?_⟩
  · intro d hd
    obtain ⟨_, _, h⟩ := finishEff_mem _ _ hd
    simp at h
  · intro hd
    obtain ⟨_, _, h⟩ := finishEff_mem _ _ hd
    simp at h
  · intro i rep r hm
    obtain ⟨rep', hrep, he⟩ := finishEff_mem _ _ hm
    simp only [Effect.report.injEq] at he
    obtain ⟨_, rfl, _⟩ := he
    rw [reportFor_some _ _ hrep]
    constructor
    · apply statusFor_absent
      simp only [Ctr.record]
      rw [hasAct_record_ne _ _ _ _ (by decide)]
      exact hasAct_delAct _ _
    · simp [reportOf, Ctr.record]

/-- Queue entries made by `recv_bundle` have no 'delete' recorded (it returns before queueing). -/
theorem C19_queue_no_delete (cfg : Cfg) (st : St) (now : Nat) (rx : RxBundle) (c : Ctr)
    (h : c ∈ (recvBundle cfg st now rx).1.fwdQ) : c ∈ st.fwdQ ∨ hasAct c.actions .delete = false := by
  rcases recv_cases cfg st now rx with h0 | ⟨_, c1, _, _, h1⟩
  · rw [h0] at h; exact Or.inl h
  · rw [h1] at h
    unfold dispose at h
    simp only [] at h
    cases hd : hasAct c1.actions .delete
    · simp only [hd, Bool.false_eq_true, if_false] at h
      cases hf : hasAct c1.actions .forward <;> cases hv : hasAct c1.actions .deliver <;>
        simp only [hf, hv, if_true, if_false, Bool.false_eq_true, finish_fwdQ, List.mem_append, List.mem_singleton] at h
      · exact Or.inl h
      · exact Or.inl h
      · rcases h with h | rfl
        · exact Or.inl h
        · exact Or.inr hd
      · rcases h with h | rfl
        · exact Or.inl h
        · exact Or.inr hd
    · simp only [hd, if_true, finish_fwdQ] at h
      exact Or.inl h


/-- **After forwarding, the subject is the received identity** (creation time 0 included) and
    **an absent report-to yields no report**. -/
theorem C19_forward_report_subject (cfg : Cfg) (st : St) (now : Nat) (sp : SendParams) (c0 : Ctr)
    (q : List Ctr) (hq : st.fwdQ = c0 :: q) :
    (∀ i rep r, Effect.report i rep r ∈ (doFwd cfg st now sp).2 →
        rep.subjSrc = c0.primary.src ∧ rep.subjTs = c0.primary.ts ∧ r.primary.dest = c0.primary.rpt)
    ∧ (c0.rptNone = true → ∀ i rep r, Effect.report i rep r ∉ (doFwd cfg st now sp).2) := by
  constructor
  · intro i rep r hm
    obtain ⟨c', hc, hp, _⟩ := doFwd_report_source cfg st now sp c0 q hq _ hm rfl
    obtain ⟨rep', hrep, he⟩ := finishEff_mem _ _ hc
    simp only [Effect.report.injEq] at he
    obtain ⟨_, rfl, rfl⟩ := he
    rw [reportFor_some _ _ hrep]
    simp [reportOf, replyCtr, hp]
  · intro hn i rep r hm
    obtain ⟨c', hc, _, hrn⟩ := doFwd_report_source cfg st now sp c0 q hq _ hm rfl
    obtain ⟨rep', hrep, _⟩ := finishEff_mem _ _ hc
    simp [reportFor, rptDisabled, hrn, hn] at hrep

/-! ### security failure -/

/-- **A bundle deleted for a BCB failure is not reported delivered.** For an accepted whole
    bundle whose confidentiality step fails with reason `r` (unknown context, undecodable block,
    decryption failure): it is not delivered, and every report asserts `delivered = no`. -/
theorem C19_security_failure_report (cfg : Cfg) (st : St) (now : Nat) (rx : RxBundle) (r : Nat)
    (hacc : accepted cfg st rx) (hf : isFragment rx.primary.flags = false) (hb : rx.bcb = .fail r) :
    (∀ i, Effect.delivered i ∉ (recvBundle cfg st now rx).2)
    ∧ ∀ i rep rc, Effect.report i rep rc ∈ (recvBundle cfg st now rx).2 → rep.delivered = .no := by
  rw [recv_accepted cfg st now rx hacc, dispose_eff, rxChain_eq]
  obtain ⟨c, hc, hnd⟩ := chain_bcb_fail cfg rx now r
    (({ primary := rx.primary, rptNone := rx.rptNone, blocks := rx.blocks } : Ctr).record .receive now) rfl hf hb
  rw [hc]
  have hrep : ∀ i rep rc, Effect.report i rep rc ∈ finishEff c → rep.delivered = .no := by
    intro i rep rc hm
    obtain ⟨rep', hrep, he⟩ := finishEff_mem _ _ hm
    simp only [Effect.report.injEq] at he
    obtain ⟨_, rfl, _⟩ := he
    rw [reportFor_some _ _ hrep]
    exact statusFor_absent _ _ hnd
  simp only [hnd, Bool.false_eq_true, if_false, List.nil_append]
  constructor
  · intro i hm
    split at hm
    · obtain ⟨_, _, h⟩ := finishEff_mem _ _ hm; simp at h
    · split at hm <;> simp at hm
  · intro i rep rc hm
    split at hm
    · exact hrep i rep rc hm
    · split at hm <;> simp at hm

-- a bundle for the admin endpoint requesting delivery + deletion reports, BCB of an unknown context
example : ∃ i rep rc, (recvBundle { nodeId := .dtn [1], rxRoutes := [] } {} 5
      { primary := { dest := .dtn [1], src := .dtn [3], rpt := .dtn [4], ts := ⟨4, 0⟩, flags := 0x60000 },
        blocks := [], bcb := .fail 13 }).2 = [.report i rep rc]
    ∧ rep.delivered = .no ∧ rep.deleted = .yes none ∧ rep.reason = 13 := ⟨_, _, _, rfl, by decide, by decide, by decide⟩

/-- **A failed forward is reported once, and the next report is about the next bundle.** After
    any idle `_do_fwd` on a queue `c0 :: c1 :: q` (successful or not), every report the next
    `_do_fwd` schedules names `c1` as its subject: the earlier bundle is not reported again. -/
theorem C19_next_report_about_next_bundle (cfg : Cfg) (st : St) (now now' : Nat) (sp sp' : SendParams)
    (c0 c1 : Ctr) (q : List Ctr) (hq : st.fwdQ = c0 :: c1 :: q) :
    ∀ i rep r, Effect.report i rep r ∈ (doFwd cfg (doFwd cfg st now sp).1 now' sp').2 →
      rep.subjSrc = c1.primary.src ∧ rep.subjTs = c1.primary.ts ∧ r.primary.dest = c1.primary.rpt := by
  have hq1 : (doFwd cfg st now sp).1.fwdQ = c1 :: q := by rw [doFwd_fwdQ, hq]; rfl
  exact (C19_forward_report_subject cfg _ now' sp' c1 q hq1).1

/-- **A fragment held for reassembly produces no delivery report.** For an accepted fragment
    whose reassembly step does not raise: it is not delivered, and no report asserts delivery
    (at its destination the step clears the action record: nothing at all is emitted). -/
theorem C19_fragment_held_no_delivery_report (cfg : Cfg) (st : St) (now : Nat) (rx : RxBundle)
    (hacc : accepted cfg st rx) (hf : isFragment rx.primary.flags = true)
    (hr : rx.reasmRaises = false) :
    (∀ i, Effect.delivered i ∉ (recvBundle cfg st now rx).2)
    ∧ ∀ i rep rc, Effect.report i rep rc ∈ (recvBundle cfg st now rx).2 → rep.delivered = .no := by
  rw [recv_accepted cfg st now rx hacc, dispose_eff, rxChain_eq]
  obtain ⟨c, hc, hnd⟩ := chain_fragment_no_deliver cfg rx now
    (({ primary := rx.primary, rptNone := rx.rptNone, blocks := rx.blocks } : Ctr).record .receive now) rfl hf hr
  rw [hc]
  have hrep : ∀ i rep rc, Effect.report i rep rc ∈ finishEff c → rep.delivered = .no := by
    intro i rep rc hm
    obtain ⟨rep', hrep, he⟩ := finishEff_mem _ _ hm
    simp only [Effect.report.injEq] at he
    obtain ⟨_, rfl, _⟩ := he
    rw [reportFor_some _ _ hrep]
    exact statusFor_absent _ _ hnd
  simp only [hnd, Bool.false_eq_true, if_false, List.nil_append]
  constructor
  · intro i hm
    split at hm
    · obtain ⟨_, _, h⟩ := finishEff_mem _ _ hm; simp at h
    · split at hm <;> simp at hm
  · intro i rep rc hm
    split at hm
    · exact hrep i rep rc hm
    · split at hm <;> simp at hm

-- a fragment for the node's own endpoint requesting delivery and reception reports: nothing is emitted
example : (recvBundle { nodeId := .dtn [1], rxRoutes := [] } {} 5
      { primary := { dest := .dtn [1], src := .dtn [3], rpt := .dtn [4], ts := ⟨4, 0⟩, flags := 0x24001,
                     fragOff := 0, totalLen := 8 },
        blocks := [{ c := { typeCode := 1, blockNum := 1, btsd := some [1, 2, 3, 4] } }] }).2 = [] := by decide

end C19
end Props
end DtnVerif
