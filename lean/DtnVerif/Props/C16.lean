/-
  C16  COSE confidentiality blocks encrypt, bind context and decrypt exactly.

  Proved about Model/Sec.lean (compared call-by-call with `get_external_aad`, pycose's
  `_enc_structure`, and end-to-end with the real `apply_bcb` / `verify_bcb`):
  * after `apply_bcb` the target's BTSD is `aeadEnc key iv (Enc_structure …) plaintext` and the
    security result carries no payload – the plaintext field is not what is emitted;
  * under the explicit AEAD law `aeadDec k iv a (aeadEnc k iv a p) = some p` (and, for key wrap,
    `unwrap kek (keyWrap kek cek) = some cek`) a receiver with the same covered view and key
    recovers exactly `p`, and writes it into the target iff acceptance is configured;
  * the associated data is injective in / only depends on the covered view (as C03);
  * if decryption fails nothing is written and the failure is reported.

  NOT proved: that AES-GCM / AES-KW reject modified ciphertext, associated data or keys. The model
  hands the primitive octets that provably differ whenever the covered view differs; rejection is
  the primitive's security property (`aeadDec … = none` appears as a hypothesis).
-/
import DtnVerif.Model.Sec
import DtnVerif.Lemmas.Sec
import DtnVerif.Generated.Facts
namespace DtnVerif
namespace Props
open Cbor Bp Sec

theorem C16_facts :
    Facts.const_bpsec_BPSEC_COSE_CONTEXT_ID = (coseContextId : Int) ∧
    Facts.enum_bpsec_CoseContext_AadScopeFlag_METADATA = (flagMetadata : Int) ∧
    Facts.enum_bpsec_CoseContext_AadScopeFlag_BTSD = (flagBtsd : Int) ∧
    ("CanonicalBlock", "BlockConfidentialityBlock", "bind_type", (typeBcb : Int)) ∈ Facts.binds ∧
    Facts.enum_admin_StatusReport_ReasonCode_FAILED_SEC = 15 ∧
    Facts.enum_blocks_CanonicalBlock_Flag_REPLICATE_IN_FRAGMENT = 1 ∧
    -- transmit chain: integrity is applied before confidentiality, both before fragmentation
    ((Facts.chainSteps.filter (fun s => s.1 == "tx_chain" && decide (0 < s.2.1))).map (fun s => (s.2.1, s.2.2.2))) =
      [(10, "_apply_bib"), (11, "_apply_bcb"), (20, "_create")] := by
  decide

/-- The AEAD law assumed by the round-trip theorems. -/
def AeadLaw {Key : Type} (P : Prims Key) : Prop :=
  ∀ k iv aad p, P.aeadDec k iv aad (P.aeadEnc k iv aad p) = some p

/-- The key-wrap law assumed for COSE_Encrypt with a key-wrap recipient. -/
def WrapLaw {Key : Type} (P : Prims Key) : Prop :=
  ∀ kek cek, P.unwrap kek (P.keyWrap kek cek) = some cek

section
variable {Key : Type} (P : Prims Key) (store : Bytes → Option Key) (crcFn : Nat → Bytes → Bytes)

/-- **Ciphertext on the wire (COSE_Encrypt0).** Whatever `apply_bcb` returns, the target block it
    leaves behind carries `aeadEnc k iv aad p` where `p` was the BTSD before and `aad` the
    Enc_structure; type, number, flags and CRC type of the target are untouched and the security
    result has a detached (nil) payload. -/
theorem C16_ciphertext_on_wire (ctx : AadCtx) (prot kid iv : Bytes) (k : Key) (m : Msg) (t : Canonical)
    (h : applyEnc0 P crcFn ctx prot kid iv k = some (m, t)) :
    ∃ aad p, encInput crcFn ctx "Encrypt0" prot = some aad ∧ ctx.tgt.btsd = some p ∧
      t.btsd = some (P.aeadEnc k iv aad p) ∧ m = .enc0 prot (some kid) iv none ∧
      t.typeCode = ctx.tgt.typeCode ∧ t.blockNum = ctx.tgt.blockNum ∧ t.flags = ctx.tgt.flags := by
  unfold applyEnc0 at h
  cases h1 : encInput crcFn ctx "Encrypt0" prot with
  | none => simp [h1] at h
  | some aad =>
    cases h2 : ctx.tgt.btsd with
    | none => simp [h1, h2] at h
    | some p =>
      simp only [h1, h2, Option.some.injEq, Prod.mk.injEq] at h
      obtain ⟨hm, ht⟩ := h
      subst hm ht
      exact ⟨aad, p, rfl, rfl, rfl, rfl, rfl, rfl, rfl⟩

/-- **Ciphertext on the wire (COSE_Encrypt + key wrap).** -/
theorem C16_ciphertext_on_wire_kw (ctx : AadCtx) (prot kid iv : Bytes) (kek cek : Key) (m : Msg) (t : Canonical)
    (h : applyEncKw P crcFn ctx prot kid iv kek cek = some (m, t)) :
    ∃ aad p, encInput crcFn ctx "Encrypt" prot = some aad ∧ ctx.tgt.btsd = some p ∧
      t.btsd = some (P.aeadEnc cek iv aad p) ∧
      m = .enc prot iv none [⟨some kid, P.keyWrap kek cek⟩] ∧
      t.typeCode = ctx.tgt.typeCode ∧ t.blockNum = ctx.tgt.blockNum ∧ t.flags = ctx.tgt.flags := by
  unfold applyEncKw at h
  cases h1 : encInput crcFn ctx "Encrypt" prot with
  | none => simp [h1] at h
  | some aad =>
    cases h2 : ctx.tgt.btsd with
    | none => simp [h1, h2] at h
    | some p =>
      simp only [h1, h2, Option.some.injEq, Prod.mk.injEq] at h
      obtain ⟨hm, ht⟩ := h
      subst hm ht
      exact ⟨aad, p, rfl, rfl, rfl, rfl, rfl, rfl, rfl⟩

/-- **The wire carries the ciphertext, attached records included.** Whatever object is attached to
    the target block at the source (an administrative record the agent built, say), once `apply_bcb`
    has stored the ciphertext in the block's `btsd` field that field – not a re-encoding of the
    attached object – is what the block emits. -/
theorem C16_wire_is_ciphertext (ctx : AadCtx) (prot kid iv : Bytes) (k : Key) (m : Msg) (t : Canonical)
    (attached : Option Bytes) (h : applyEnc0 P crcFn ctx prot kid iv k = some (m, t)) :
    ∃ aad p, encInput crcFn ctx "Encrypt0" prot = some aad ∧ ctx.tgt.btsd = some p ∧
      (TxBlock.mk t attached).wireBtsd = P.aeadEnc k iv aad p := by
  obtain ⟨aad, p, h1, h2, h3, _⟩ := C16_ciphertext_on_wire P crcFn ctx prot kid iv k m t h
  exact ⟨aad, p, h1, h2, by simp [TxBlock.wireBtsd, h3]⟩

/-- **Frame.** The AEAD associated data depends on the covered view and the protected header only. -/
theorem C16_frame (x y : AadCtx) (context : String) (prot : Bytes)
    (hv : coveredView crcFn x = coveredView crcFn y) :
    encInput crcFn x context prot = encInput crcFn y context prot := by
  unfold encInput
  rw [externalAad_eq_view, externalAad_eq_view, hv]

/-- **Injectivity of the associated data.** Equal Enc_structures force equal covered views (security
    source, scope, primary block, covered blocks' metadata / data, additional protected parameters),
    equal protected headers and equal context strings. Side conditions as in C03. -/
theorem C16_aad_injective (x y : AadCtx) (cx cy : String) (px py : Bytes) (v w : View) (i : Bytes)
    (hx : coveredView crcFn x = some v) (hy : coveredView crcFn y = some w)
    (bv : ViewBounded v) (bw : ViewBounded w)
    (lv : v.enc.length < 2 ^ 64) (lw : w.enc.length < 2 ^ 64)
    (lcx : (ascii cx).length < 2 ^ 64) (lcy : (ascii cy).length < 2 ^ 64)
    (lpx : (effProt px).length < 2 ^ 64) (lpy : (effProt py).length < 2 ^ 64)
    (hix : encInput crcFn x cx px = some i) (hiy : encInput crcFn y cy py = some i) :
    v = w ∧ ascii cx = ascii cy ∧ effProt px = effProt py := by
  unfold encInput at hix hiy
  rw [externalAad_eq_view, hx] at hix
  rw [externalAad_eq_view, hy] at hiy
  simp only [Option.map_some, Option.some.injEq] at hix hiy
  have h : encStructure cx px v.enc ++ [] = encStructure cy py w.enc ++ [] := by rw [hix, hiy]
  simp only [encStructure, List.append_assoc] at h
  have three : (3 : Nat) < 2 ^ 64 := by omega
  obtain ⟨_, e1⟩ := arrHead_inj three three h
  obtain ⟨h1, e2⟩ := tstr_inj lcx lcy e1
  obtain ⟨h2, e3⟩ := bstr_inj lpx lpy e2
  obtain ⟨h3, _⟩ := bstr_inj lv lw e3
  exact ⟨view_inj bv bw (coveredView_conform hx) (coveredView_conform hy) h3, h1, h2⟩

/-- **Exact recovery (COSE_Encrypt0).** Source context `src` (target still plaintext `p`), receiver
    context `rcv` whose target is the block `apply_bcb` left (`t`), same covered view, same key under
    the key id: decryption yields exactly `p`; the target afterwards holds `p` iff acceptance is on. -/
theorem C16_roundtrip (law : AeadLaw P) (src rcv : AadCtx) (prot kid iv : Bytes) (k : Key) (m : Msg)
    (t : Canonical) (p : Bytes) (accept : Bool)
    (hp : src.tgt.btsd = some p)
    (ha : applyEnc0 P crcFn src prot kid iv k = some (m, t))
    (ht : rcv.tgt = t) (hv : coveredView crcFn src = coveredView crcFn rcv) (hk : store kid = some k) :
    bcbPlain P store crcFn rcv (m.attach (t.btsd.getD [])) = some p ∧
    verifyBcbTarget P store crcFn accept rcv (m.attach (t.btsd.getD [])) =
      (true, if accept then { t with btsd := some p } else t) := by
  obtain ⟨aad, p', h1, h2, h3, h4, _⟩ := C16_ciphertext_on_wire P crcFn src prot kid iv k m t ha
  rw [hp] at h2
  simp only [Option.some.injEq] at h2
  subst h2 h4
  have hb : bcbPlain P store crcFn rcv ((Msg.enc0 prot (some kid) iv none).attach (t.btsd.getD [])) = some p := by
    simp only [bcbPlain, Msg.attach, ht, h3]
    rw [← C16_frame crcFn src rcv "Encrypt0" prot hv, h1]
    simp [lookupKey, hk, law k iv aad p]
  refine ⟨hb, ?_⟩
  simp only [verifyBcbTarget, hb, ht]

/-- **Exact recovery (COSE_Encrypt + key wrap)** under the AEAD and key-wrap laws. -/
theorem C16_roundtrip_kw (law : AeadLaw P) (wlaw : WrapLaw P) (src rcv : AadCtx) (prot kid iv : Bytes)
    (kek cek : Key) (m : Msg) (t : Canonical) (p : Bytes) (accept : Bool)
    (hp : src.tgt.btsd = some p)
    (ha : applyEncKw P crcFn src prot kid iv kek cek = some (m, t))
    (ht : rcv.tgt = t) (hv : coveredView crcFn src = coveredView crcFn rcv) (hk : store kid = some kek) :
    verifyBcbTarget P store crcFn accept rcv (m.attach (t.btsd.getD [])) =
      (true, if accept then { t with btsd := some p } else t) := by
  obtain ⟨aad, p', h1, h2, h3, h4, _⟩ := C16_ciphertext_on_wire_kw P crcFn src prot kid iv kek cek m t ha
  rw [hp] at h2
  simp only [Option.some.injEq] at h2
  subst h2 h4
  have hb : bcbPlain P store crcFn rcv
      ((Msg.enc prot iv none [⟨some kid, P.keyWrap kek cek⟩]).attach (t.btsd.getD [])) = some p := by
    simp only [bcbPlain, Msg.attach, ht, h3]
    rw [← C16_frame crcFn src rcv "Encrypt" prot hv, h1]
    simp [firstPlain, encRecipPlain, lookupKey, hk, wlaw kek cek, law cek iv aad p]
  simp only [verifyBcbTarget, hb, ht]

/-- **No release on failure.** If no plaintext is obtained (missing key, key unwrap failure, AEAD
    rejection, AAD construction raising, wrong message type) the target block is left exactly as it
    was and the operation reports failure (`verify_bcb_target` returns FAILED_SEC). -/
theorem C16_fail_no_release (accept : Bool) (ctx : AadCtx) (m : Msg)
    (h : bcbPlain P store crcFn ctx m = none) :
    verifyBcbTarget P store crcFn accept ctx m = (false, ctx.tgt) := by
  simp [verifyBcbTarget, h]

/-- The reduction to the primitive for COSE_Encrypt0: if the AEAD rejects (ciphertext, associated
    data, iv) under the stored key, or the store has no key for the key id, nothing is released. -/
theorem C16_fail_no_release_enc0 (accept : Bool) (ctx : AadCtx) (prot iv : Bytes) (kid pl : Option Bytes)
    (h : ∀ k aad ct, lookupKey store kid = some k → encInput crcFn ctx "Encrypt0" prot = some aad →
      ctx.tgt.btsd = some ct → P.aeadDec k iv aad ct = none) :
    verifyBcbTarget P store crcFn accept ctx (.enc0 prot kid iv pl) = (false, ctx.tgt) := by
  apply C16_fail_no_release
  unfold bcbPlain
  cases h1 : ctx.tgt.btsd with
  | none => rfl
  | some ct =>
    simp only
    cases h2 : encInput crcFn ctx "Encrypt0" prot with
    | none => rfl
    | some aad =>
      cases h3 : lookupKey store kid with
      | none => rfl
      | some k => simpa using h k aad ct h3 h2 h1

/-- **A recipient list decrypts iff SOME recipient does.** `verify_bcb_target` walks the recipients and
    keeps the first plaintext obtained; a later recipient that is not ours cannot undo it. -/
theorem C16_some_recipient_suffices (iv aad ct : Bytes) :
    ∀ (rs : List Recipient),
      (firstPlain P store iv aad ct rs).isSome = true ↔
        ∃ r ∈ rs, (encRecipPlain P store iv aad ct r).isSome = true
  | [] => by simp [firstPlain]
  | r :: rs => by
    have ih := C16_some_recipient_suffices iv aad ct rs
    unfold firstPlain
    cases h : encRecipPlain P store iv aad ct r with
    | some p => simp [h]
    | none => simp [h, ih]

/-- **…independent of the order of the recipients.** Two recipient lists with the same members either
    both yield a plaintext or both fail. -/
theorem C16_recipient_order_irrelevant (iv aad ct : Bytes) (rs rs' : List Recipient)
    (h : ∀ r, r ∈ rs ↔ r ∈ rs') :
    (firstPlain P store iv aad ct rs).isSome = (firstPlain P store iv aad ct rs').isSome := by
  have a := C16_some_recipient_suffices P store iv aad ct rs
  have b := C16_some_recipient_suffices P store iv aad ct rs'
  have : (∃ r ∈ rs, (encRecipPlain P store iv aad ct r).isSome = true) ↔
      (∃ r ∈ rs', (encRecipPlain P store iv aad ct r).isSome = true) := by
    constructor
    · rintro ⟨r, hr, hp⟩; exact ⟨r, (h r).mp hr, hp⟩
    · rintro ⟨r, hr, hp⟩; exact ⟨r, (h r).mpr hr, hp⟩
  have key : (firstPlain P store iv aad ct rs).isSome = true ↔ (firstPlain P store iv aad ct rs').isSome = true :=
    a.trans (this.trans b.symm)
  cases h1 : (firstPlain P store iv aad ct rs).isSome <;> cases h2 : (firstPlain P store iv aad ct rs').isSome
  · rfl
  · exact absurd (key.mpr h2) (by simp [h1])
  · exact absurd (key.mp h1) (by simp [h2])
  · rfl

/-- **A recorded failure is never withdrawn.** Once one target of a BCB failed, the block fails
    whatever the later targets do (all of them may decrypt): `verify_bcb` cannot return "no failure". -/
theorem C16_failure_sticks (accept : Bool) (prim : Primary) (sb : SecBlock) :
    ∀ (ts : List Nat) (blocks : List Canonical) (ix : Nat),
      (verifyBcbLoop P store crcFn accept prim sb ts blocks ix true).1 ≠ .ok
  | [], blocks, ix => by simp [verifyBcbLoop]
  | t :: ts, blocks, ix => by
    unfold verifyBcbLoop
    split
    · simp
    · split
      · simp
      · exact C16_failure_sticks accept prim sb ts _ (ix + 1)
      · exact C16_failure_sticks accept prim sb ts _ (ix + 1)

/-- **Duplicate parameter ids, or duplicate result ids for one target, fail closed**: nothing is
    decrypted, no block is rewritten. -/
theorem C16_duplicate_ids_fail (accept : Bool) (b : Bundle) (sb : SecBlock)
    (h : hasDup sb.paramIds = true ∨ sb.results.any (fun r => hasDup (r.map (·.1))) = true) :
    verifyBcb P store crcFn accept b sb = (.failed 15, b.blocks) := by
  have hc : checkSecblk sb = .failed 15 := by
    unfold checkSecblk
    rcases h with h | h <;> simp [h]
  simp [verifyBcb, hc]

private theorem verifyBcbLoop_bad_result (accept : Bool) (prim : Primary) (sb : SecBlock) :
    ∀ (ts : List Nat) (blocks : List Canonical) (ix : Nat) (fail : Bool) (j : Nat), j < ts.length →
      (∀ id m, sb.results[ix + j]? ≠ some [(id, m)]) →
      (verifyBcbLoop P store crcFn accept prim sb ts blocks ix fail).1 ≠ .ok
  | [], _, _, _, j, hj, _ => by simp at hj
  | t :: ts, blocks, ix, fail, j, hj, hbad => by
    unfold verifyBcbLoop
    split
    · simp
    · split
      · simp
      · rename_i hres
        cases j with
        | zero => exact absurd hres (by simpa using hbad _ _)
        | succ j =>
          apply verifyBcbLoop_bad_result accept prim sb ts _ (ix + 1) _ j (by simpa using hj)
          intro id m
          have e : ix + 1 + j = ix + (j + 1) := by omega
          rw [e]
          exact hbad id m
      · cases j with
        | zero => exact C16_failure_sticks P store crcFn accept prim sb ts _ (ix + 1)
        | succ j => exact C16_failure_sticks P store crcFn accept prim sb ts _ (ix + 1)

/-- **More (or fewer) than one result for a target fails closed**, with or without acceptance and
    wherever the genuine result stands among them: `verify_bcb` cannot return "no failure". -/
theorem C16_result_count_fails (accept : Bool) (b : Bundle) (sb : SecBlock) (j : Nat) (hj : j < sb.targets.length)
    (hbad : ∀ id m, sb.results[j]? ≠ some [(id, m)]) :
    (verifyBcb P store crcFn accept b sb).1 ≠ .ok := by
  unfold verifyBcb
  cases hc : checkSecblk sb with
  | failed n => simp
  | raised => simp
  | ok =>
    simp only
    exact verifyBcbLoop_bad_result P store crcFn accept b.primary sb sb.targets b.blocks 0 false j hj (by simpa using hbad)

/-- What `verify_bcb` requires of target number `t` at index `ix` (blocks as received). -/
def BcbTargetOk (b : Bundle) (sb : SecBlock) (ix t : Nat) : Prop :=
  ∃ tgt id m, findBlock b.blocks t = some tgt ∧ sb.results[ix]? = some [(id, m)] ∧
    (bcbPlain P store crcFn (ctxFor b.primary b.blocks sb tgt) (m.attach (tgt.btsd.getD []))).isSome = true

private theorem verifyBcbLoop_ok (b : Bundle) (sb : SecBlock) :
    ∀ (ts : List Nat) (ix : Nat) (fail : Bool),
      (verifyBcbLoop P store crcFn false b.primary sb ts b.blocks ix fail).1 = .ok ↔
        fail = false ∧ ∀ j, (hj : j < ts.length) → BcbTargetOk P store crcFn b sb (ix + j) ts[j]
  | [], ix, fail => by
    cases fail <;> simp [verifyBcbLoop]
  | t :: ts, ix, fail => by
    have ih := verifyBcbLoop_ok b sb ts (ix + 1)
    have shift : ∀ (Q : Nat → Nat → Prop),
        (∀ j, (hj : j < (t :: ts).length) → Q (ix + j) (t :: ts)[j]) ↔
          Q ix t ∧ ∀ j, (hj : j < ts.length) → Q (ix + 1 + j) ts[j] := by
      intro Q
      constructor
      · intro h
        refine ⟨h 0 (by simp), fun j hj => ?_⟩
        have e : ix + (j + 1) = ix + 1 + j := by omega
        have := h (j + 1) (by simp; omega)
        rw [e] at this
        exact this
      · intro h j hj
        cases j with
        | zero => exact h.1
        | succ j =>
          have e : ix + (j + 1) = ix + 1 + j := by omega
          have := h.2 j (by simpa using hj)
          rw [e]
          exact this
    rw [shift (fun i u => BcbTargetOk P store crcFn b sb i u)]
    unfold verifyBcbLoop
    cases hf : findBlock b.blocks t with
    | none => simp [BcbTargetOk, hf]
    | some tgt =>
      simp only
      cases hr : sb.results[ix]? with
      | none => simp [BcbTargetOk, hr]
      | some rl =>
        match rl, hr with
        | [], hr => simp [ih, BcbTargetOk, hr]
        | [(id, m)], hr =>
          simp only [Bool.false_eq_true, ↓reduceIte, ih, Bool.or_eq_false_iff, Bool.not_eq_eq_eq_not, Bool.not_false]
          have hv : (verifyBcbTarget P store crcFn false (ctxFor b.primary b.blocks sb tgt)
              (m.attach (tgt.btsd.getD []))).1 = true ↔
              (bcbPlain P store crcFn (ctxFor b.primary b.blocks sb tgt) (m.attach (tgt.btsd.getD []))).isSome = true := by
            unfold verifyBcbTarget
            cases bcbPlain P store crcFn (ctxFor b.primary b.blocks sb tgt) (m.attach (tgt.btsd.getD [])) <;> simp
          rw [hv]
          simp only [BcbTargetOk, hf, hr, Option.some.injEq, List.cons.injEq, Prod.mk.injEq, and_true]
          constructor
          · rintro ⟨⟨h1, h2⟩, h3⟩
            exact ⟨h1, ⟨tgt, id, m, rfl, ⟨rfl, rfl⟩, h2⟩, h3⟩
          · rintro ⟨h1, ⟨tgt', id', m', e1, ⟨e2, e3⟩, h2⟩, h3⟩
            subst e1 e2 e3
            exact ⟨⟨h1, h2⟩, h3⟩
        | _ :: _ :: _, hr => simp [ih, BcbTargetOk, hr]

/-- **Whole block (verifier role).** Without acceptance `CoseContext.verify_bcb` returns "no failure"
    exactly when the block has no duplicate parameter / result ids and *every* target – whatever its
    position in the target list – exists, has exactly one result and decrypts. (With acceptance the
    loop rewrites targets as it goes; `C16_failure_sticks` is the position-independent part then.) -/
theorem C16_verify_iff (b : Bundle) (sb : SecBlock) :
    (verifyBcb P store crcFn false b sb).1 = .ok ↔
      checkSecblk sb = .ok ∧
      ∀ j, (hj : j < sb.targets.length) → BcbTargetOk P store crcFn b sb j sb.targets[j] := by
  unfold verifyBcb
  cases hc : checkSecblk sb with
  | failed n => simp
  | raised => simp
  | ok =>
    simp only [true_and]
    rw [verifyBcbLoop_ok]
    simp

/-- Without acceptance the target is never rewritten, whatever the outcome. -/
theorem C16_no_accept_no_write (ctx : AadCtx) (m : Msg) :
    (verifyBcbTarget P store crcFn false ctx m).2 = ctx.tgt := by
  unfold verifyBcbTarget
  cases bcbPlain P store crcFn ctx m <;> rfl

end

/-! ## The laws are satisfiable; concrete instance -/

namespace C16ex
/-- a toy AEAD: ciphertext = plaintext reversed, preceded by a one-octet
    "tag" (length of key ‖ iv ‖ aad, mod 256) that decryption checks -/
def toyTag (k iv aad : Bytes) : UInt8 := UInt8.ofNat (k.length + iv.length + aad.length)
def toyP : Prims Bytes :=
  { mac := fun k _ => k, verifySig := fun _ _ _ => false,
    aeadEnc := fun k iv aad p => toyTag k iv aad :: p.reverse,
    aeadDec := fun k iv aad c =>
      match c with
      | [] => none
      | t :: body => if t = toyTag k iv aad then some body.reverse else none,
    keyWrap := fun kek cek => kek ++ cek,
    unwrap := fun kek w => if w.take kek.length = kek then some (w.drop kek.length) else none }
def store (kid : Bytes) : Option Bytes := if kid = [7] then some [1, 2, 3, 4] else none
def crc (_ : Nat) (_ : Bytes) : Bytes := [0, 0, 0, 0]
def payload : Canonical := { typeCode := 1, blockNum := 1, btsd := some [72, 105] }
def ctx : AadCtx :=
  { ssrc := .ipn [5, 0], scope := [(0, 1), (-1, 1)], primary := { crcType := 2, dest := .ipn [2, 5] },
    blocks := [payload], secBlk := { typeCode := 12, blockNum := 2, flags := 1 }, tgt := payload, addlProt := [] }
end C16ex

theorem C16_laws_satisfiable : AeadLaw C16ex.toyP ∧ WrapLaw C16ex.toyP := by
  constructor
  · intro k iv aad p
    simp [C16ex.toyP]
  · intro kek cek
    simp [C16ex.toyP]

/-- an empty and a non-empty plaintext through apply → verify with acceptance -/
example : ∃ m t, applyEnc0 C16ex.toyP C16ex.crc C16ex.ctx [0xa1, 1, 3] [7] [9, 9, 9] [1, 2, 3, 4] = some (m, t) ∧
    t.btsd ≠ C16ex.payload.btsd ∧
    verifyBcbTarget C16ex.toyP C16ex.store C16ex.crc true { C16ex.ctx with tgt := t } (m.attach (t.btsd.getD [])) =
      (true, C16ex.payload) := by
  refine ⟨_, _, rfl, by decide +kernel, by decide +kernel⟩

example : ∃ m t, applyEnc0 C16ex.toyP C16ex.crc
      { C16ex.ctx with tgt := { C16ex.payload with btsd := some [] } } [0xa1, 1, 3] [7] [9] [1, 2, 3, 4] = some (m, t) ∧
    verifyBcbTarget C16ex.toyP C16ex.store C16ex.crc true { C16ex.ctx with tgt := t } (m.attach (t.btsd.getD [])) =
      (true, { C16ex.payload with btsd := some [] }) := by
  refine ⟨_, _, rfl, by decide +kernel⟩

namespace C16ex
def age : Canonical := { typeCode := 7, blockNum := 2, btsd := some [0x18, 0x2a] }
def bundle2 : Bundle := ⟨{ crcType := 2, dest := .ipn [2, 5] }, [age, payload]⟩
def bcbBlk : Canonical := { typeCode := 12, blockNum := 3, flags := 1 }
/-- a BCB over blocks 1 and 2 built target by target with `applyEnc0` -/
def twoTargets : Option (SecBlock × Bundle) :=
  let ctx1 : AadCtx := ⟨.ipn [5, 0], [(0, 1), (-1, 1)], bundle2.primary, bundle2.blocks, bcbBlk, payload, []⟩
  match applyEnc0 toyP crc ctx1 [0xa1, 1, 3] [7] [1, 1] [1, 2, 3, 4] with
  | none => none
  | some (m1, t1) =>
    let blocks1 := replaceBlock bundle2.blocks t1
    let ctx2 : AadCtx := ⟨.ipn [5, 0], [(0, 1), (-1, 1)], bundle2.primary, blocks1, bcbBlk, age, []⟩
    match applyEnc0 toyP crc ctx2 [0xa1, 1, 3] [7] [2, 2] [1, 2, 3, 4] with
    | none => none
    | some (m2, t2) =>
      some ({ blk := bcbBlk, ssrc := .ipn [5, 0], targets := [1, 2], paramIds := [5], scope := [(0, 1), (-1, 1)],
              addlProt := [], results := [[(16, m1)], [(16, m2)]] },
            ⟨bundle2.primary, replaceBlock blocks1 t2⟩)
def sb2 : SecBlock := (twoTargets.map Prod.fst).getD default
def wire2 : Bundle := (twoTargets.map Prod.snd).getD default
def corrupt (b : Bundle) (n : Nat) : Bundle :=
  { b with blocks := b.blocks.map (fun c => if c.blockNum == n then { c with btsd := c.btsd.map (fun d => match d with | [] => [1] | x :: r => (x + 1) :: r) } else c) }
end C16ex

/-- two targets: intact ⇒ ok and both plaintexts restored on acceptance; the *first* target corrupted
    while the second is intact ⇒ FAILED_SEC (and likewise the second) -/
example : C16ex.twoTargets.isSome = true ∧
    (verifyBcb C16ex.toyP C16ex.store C16ex.crc true C16ex.wire2 C16ex.sb2) = (.ok, C16ex.bundle2.blocks) ∧
    (verifyBcb C16ex.toyP C16ex.store C16ex.crc false C16ex.wire2 C16ex.sb2).1 = .ok ∧
    (verifyBcb C16ex.toyP C16ex.store C16ex.crc true (C16ex.corrupt C16ex.wire2 1) C16ex.sb2).1 = .failed 15 ∧
    (verifyBcb C16ex.toyP C16ex.store C16ex.crc false (C16ex.corrupt C16ex.wire2 2) C16ex.sb2).1 = .failed 15 ∧
    C16ex.wire2.blocks ≠ C16ex.bundle2.blocks := by
  decide +kernel

/-- our recipient first, in the middle or last among recipients for keys we do not hold: the same plaintext -/
example : ∀ rs ∈ [[(⟨some [7], [1, 2, 3, 4, 9, 9]⟩ : Recipient), ⟨some [8], [0]⟩],
                  [⟨some [8], [0]⟩, ⟨some [7], [1, 2, 3, 4, 9, 9]⟩],
                  [⟨some [8], [0]⟩, ⟨some [7], [1, 2, 3, 4, 9, 9]⟩, ⟨some [7], [5]⟩]],
    firstPlain C16ex.toyP C16ex.store [1] [2] (C16ex.toyP.aeadEnc [9, 9] [1] [2] [42]) rs = some [42] := by
  decide

/-- a receiver that sees a different primary block (covered) computes a different tag: rejected, target untouched -/
example : ∃ m t, applyEnc0 C16ex.toyP C16ex.crc C16ex.ctx [0xa1, 1, 3] [7] [9, 9, 9] [1, 2, 3, 4] = some (m, t) ∧
    verifyBcbTarget C16ex.toyP C16ex.store C16ex.crc true
      { C16ex.ctx with tgt := t, primary := { crcType := 2, dest := .ipn [2, 500] } } (m.attach (t.btsd.getD [])) =
      (false, t) := by
  refine ⟨_, _, rfl, by decide +kernel⟩

end Props
end DtnVerif
