/-
  C05 — BP fragmentation keeps every fragment within the route MTU and loses nothing.
  Model: DtnVerif.Model.Frag (mirror of bp/app/fragment.py `_create` inside bp/agent.py `send_bundle`).
-/
import DtnVerif.Model.Frag
import DtnVerif.Lemmas.Frag
import DtnVerif.Generated.Facts
namespace DtnVerif
namespace Props
open Bp Cbor Frag

/-- The properties are about the container as the transmit chain hands it to `_create`. -/
abbrev prepared (cfg : Cfg) (b : FBundle) : FBundle := prep cfg cfg.now b

private theorem prep_primary (cfg : Cfg) (hsec : cfg.secStep = id) (b : FBundle) :
    (prep cfg cfg.now b).primary = fillPrimary (applyOpt cfg.now b.primary) := by
  simp [prep, hsec, fillFields]

private theorem prep_blocks (cfg : Cfg) (hsec : cfg.secStep = id) (b : FBundle) :
    (prep cfg cfg.now b).blocks = b.blocks.map fillBlk := by
  simp [prep, hsec, fillFields]

private theorem prep_filled (cfg : Cfg) (hsec : cfg.secStep = id) (b : FBundle) (hwf : CrcWf b) :
    Filled (prep cfg cfg.now b) := by
  have : prep cfg cfg.now b = fillFields { b with primary := applyOpt cfg.now b.primary } := by
    simp [prep, hsec]
  rw [this]
  cases cfg.now <;> exact hwf

/-- every scheduled fragment, characterised -/
private theorem frag_facts (cfg : Cfg) (hsec : cfg.secStep = id) (m : Nat) (b : FBundle) (hwf : CrcWf b)
    (hnums : numsOk b = true) (fs : List FBundle)
    (hfs : create (some m) (prepared cfg b) = .frags fs) (f : FBundle) (hf : f ∈ fs) :
    f.size ≤ m ∧ Filled f ∧ f.primary.ts = (prepared cfg b).primary.ts ∧
      f.primary.lifetime = (prepared cfg b).primary.lifetime ∧ isFragment f.primary.flags = true := by
  obtain ⟨pb, pdata, _, _, _, _, _, _, hloop⟩ := create_frags hfs
  have hmem : f ∈ (createLoop m (headLen pdata.length) pdata (prepared cfg b).primary
      (prepared cfg b).blocks pdata.length 0).1 := by rw [hloop]; exact hf
  obtain ⟨o, _, _, hbud, rfl⟩ := mem_createLoop _ _ _ hmem
  have hn1 : n1 (prepared cfg b).blocks ≤ 1 := by
    rw [prep_blocks cfg hsec, n1_map _ fillBlk_num]
    exact n1_of_numsOk hnums
  have hfl := prep_filled cfg hsec b hwf
  refine ⟨fragAt_size_le m pdata _ _ o hn1 hbud, ?_, rfl, rfl, ?_⟩
  · exact filled_fragAt _ _ _ _ _ _ hfl.1 hfl.2
  · rw [fragAt_primary]; exact isFragment_setFragFlag _

/-- **C05_size.** Security policy off, CRC values of the width of their type; the request may be made
    as source or with `as_source=False` (forwarding), creation time 0 included: whenever `_create` fragments, every byte string handed to the CL for
    this send request — for all payload lengths, MTUs, CRC types and extension-block sets — has
    length ≤ MTU. (When it does not fragment see `C05_unchanged`, `C05_impossible_…`.) -/
theorem C05_size (cfg : Cfg) (hsec : cfg.secStep = id)
    (hcrc : ∀ t d, (cfg.crcFn t d).length = crcWidth t) (m : Nat) (b : FBundle) (hwf : CrcWf b)
    (fs : List FBundle)
    (hfs : create (some m) (prepared cfg b) = .frags fs) :
    ∀ out ∈ clOutputs cfg (some m) b, out.length ≤ m := by
  intro out hout
  unfold clOutputs at hout
  by_cases hok : numsOk b = true ∧ crcTypesOk b = true
  · rw [sendBundle_ok _ _ _ _ hok.1 hok.2] at hout
    simp only [prepared] at hfs
    rw [hfs] at hout
    simp only [Option.toList, List.nil_append, List.mem_flatMap] at hout
    obtain ⟨f, hf, ho⟩ := hout
    obtain ⟨h1, h2, h3, h4, h5⟩ := frag_facts cfg hsec m b hwf hok.1 fs hfs f hf
    rw [resend_length cfg hsec hcrc (some m) f h2 h5 out ho]
    exact h1
  · rw [sendBundle_bad _ _ _ _ hok] at hout
    simp at hout

/-- **C05_head_ranges.** The head-size function of the model is CBOR's (RFC 8949 §3), all five
    ranges: arguments up to 23 in the initial octet, then 1, 2, 4 or 8 following octets — there is no
    3-octet argument, so a length of 65536 … 2^32−1 takes 5 octets, not 4. It is what
    `len(cbor2.dumps(payload_size))` measures and what every encoder lemma (`head_length`) uses. -/
theorem C05_head_ranges (n : Nat) :
    headLen n = (if n < 24 then 1 else if n < 256 then 2 else if n < 65536 then 3
                 else if n < 4294967296 then 5 else 9) ∧
    (∀ mt, (head mt n).length = headLen n) ∧ (∀ d : Bytes, d.length = n → (encBstr d).length = headLen n + n) := by
  refine ⟨rfl, fun mt => head_length mt n, ?_⟩
  intro d hd; rw [encBstr_length, hd]

example : headLen 23 = 1 ∧ headLen 24 = 2 ∧ headLen 255 = 2 ∧ headLen 256 = 3 ∧ headLen 65535 = 3 ∧
    headLen 65536 = 5 ∧ headLen 16777215 = 5 ∧ headLen 4294967295 = 5 ∧ headLen 4294967296 = 9 := by decide

/-- a byte string of exactly 65536 octets encodes to 65536 + 5 octets (a 4-octet head would be wrong) -/
example (d : Bytes) (h : d.length = 65536) : (encBstr d).length = 65541 := by
  rw [encBstr_length, h]; decide

/-- **C05_fragment_size (per fragment, every payload length).** For every fragment the loop builds —
    any total payload length, any offset, any MTU, any CRC types and block set —: its encoded size is
    exactly the size of the empty fragment, minus the one-octet empty string, plus the CBOR head of
    the fragment's OWN payload length, plus that payload; and because that payload is no longer than
    the total, its head is no larger than `head(total)` which the budget reserves
    (`headLen_mono`, all five ranges), so the fragment is within the MTU. The reserve is tight: a
    fragment that fills its budget with a payload whose head equals `head(total)` encodes to exactly
    the MTU — one octet less reserve and it would be MTU + 1. -/
theorem C05_fragment_size (m : Nat) (pdata : Bytes) (p : Primary) (bs : List Blk) (o : Nat)
    (h1 : n1 bs ≤ 1) (hp : ∃ x ∈ bs, x.c.blockNum = 1)
    (hb : (emptyFrag p bs o pdata.length).size - 1 + headLen pdata.length < m) :
    let f := fragAt m (headLen pdata.length) pdata p bs o
    f.size + 1 = (emptyFrag p bs o pdata.length).size + headLen (pdataOf f).length + (pdataOf f).length ∧
    headLen (pdataOf f).length ≤ headLen pdata.length ∧
    f.size ≤ m ∧
    ((pdataOf f).length = budget m (headLen pdata.length) pdata p bs o →
      headLen (pdataOf f).length = headLen pdata.length → f.size = m) := by
  intro f
  have hpd : pdataOf f = (pdata.drop o).take (budget m (headLen pdata.length) pdata p bs o) := by
    simp [f, pdataOf, fragAt_payload m _ pdata p bs o hp]
  have heq := fragAt_size_eq m (headLen pdata.length) pdata p bs o h1 hp
  have hle : (pdataOf f).length ≤ pdata.length := by rw [hpd]; exact (take_drop_length_le pdata o _).2
  have he := size_eq (emptyFrag p bs o pdata.length)
  refine ⟨heq, headLen_mono hle, fragAt_size_le m pdata p bs o h1 hb, ?_⟩
  intro hfull hhead
  have heq' : f.size + 1 = (emptyFrag p bs o pdata.length).size + headLen (pdataOf f).length + (pdataOf f).length := heq
  rw [hhead, hfull] at heq'
  simp only [budget] at heq'
  omega

/-- model instance used by the examples and counterexamples: zero CRC values, security off -/
def cfgW : Cfg :=
  { crcFn := fun t _ => zeros (crcWidth t), secStep := id, now := some ⟨1, 0⟩, reroute := true }

def bytesUpTo (n : Nat) : Bytes := (List.range n).map UInt8.ofNat

/-- a 64-octet payload, no extension blocks, no CRC (harness: `c05.WITNESS`) -/
def witness : FBundle :=
  { primary := { dest := .dtn "//d/".toUTF8.toList, src := .dtn "//s/".toUTF8.toList, ts := ⟨1, 0⟩, lifetime := 1000 },
    blocks := [{ c := { typeCode := 1, blockNum := 1, btsd := some (bytesUpTo 64) } }] }

/-- the same bundle as built by decoding it from the wire: the payload block carries a scapy layer -/
def witnessWire : FBundle :=
  { witness with blocks := [{ c := { typeCode := 1, blockNum := 1, btsd := some (bytesUpTo 64) },
                              layer := some (bytesUpTo 64) }] }

/-- a bundle with a replicated and a non-replicated extension block and CRCs -/
def exB : FBundle :=
  { primary := { crcType := 2, dest := .dtn "//d/".toUTF8.toList, src := .dtn "//s/".toUTF8.toList, ts := ⟨1, 0⟩, lifetime := 1000 },
    blocks := [{ c := { typeCode := 7, blockNum := 2, flags := 1, btsd := some [5] } },
               { c := { typeCode := 192, blockNum := 3, crcType := 1, btsd := some [1, 2, 3] } },
               { c := { typeCode := 1, blockNum := 1, crcType := 2, btsd := some (bytesUpTo 64) } }] }



def isFrags : CreateRes → Bool
  | .frags _ => true
  | _ => false

private theorem frags_of_isFrags {r : CreateRes} (h : isFrags r = true) : ∃ fs, r = .frags fs := by
  cases r <;> simp_all [isFrags]

/-- non-vacuity: a 130-octet bundle with CRCs and two extension blocks on a route with MTU 90 is cut in 3 -/
example : isFrags (create (some 90) (prepared cfgW exB)) = true
    ∧ (clOutputs cfgW (some 90) exB).map List.length = [89, 90, 65]
    ∧ (∀ t d, (cfgW.crcFn t d).length = crcWidth t) ∧ numsOk exB = true := by
  refine ⟨by decide +kernel, by decide +kernel, fun t d => zeros_length _, by decide +kernel⟩

/-- **C05_tiling.** Whenever `_create` fragments: the fragments' payloads, in order, concatenate to
    the original payload, their offsets are contiguous from 0, every fragment is non-empty and
    carries the original payload length as total length. -/
theorem C05_tiling (m : Nat) (b2 : FBundle) (fs : List FBundle) (hfs : create (some m) b2 = .frags fs) :
    ∃ P, b2.payload = some P ∧ (fs.map pdataOf).flatten = P ∧ offsetsContiguous 0 fs ∧
      ∀ f ∈ fs, f.payload.isSome ∧ pdataOf f ≠ [] ∧ f.primary.totalLen = P.length := by
  obtain ⟨pb, pdata, hpb, hpd, _, _, _, _, hloop⟩ := create_frags hfs
  have hex : ∃ x ∈ b2.blocks, x.c.blockNum = 1 :=
    ⟨pb, List.mem_of_find?_eq_some hpb, by simpa using List.find?_some hpb⟩
  obtain ⟨t1, t2, t3⟩ := createLoop_tiling m _ pdata b2.primary _ hex pdata.length 0 fs (by omega) hloop
  refine ⟨pdata, by simp [FBundle.payload, hpb, hpd], by simpa using t1, t2, ?_⟩
  intro f hf
  refine ⟨(t3 f hf).1, (t3 f hf).2, ?_⟩
  have hmem : f ∈ (createLoop m (headLen pdata.length) pdata b2.primary b2.blocks pdata.length 0).1 := by
    rw [hloop]; exact hf
  obtain ⟨o, _, _, _, rfl⟩ := mem_createLoop _ _ _ hmem
  rfl



/-- **C05_fields.** Every fragment carries the original primary block — version, CRC type,
    destination, source (identity), report-to, creation timestamp (identity), lifetime — with the
    fragment flag set, its own offset and the total payload length. -/
theorem C05_fields (m : Nat) (b2 : FBundle) (fs : List FBundle) (hfs : create (some m) b2 = .frags fs) :
    ∀ f ∈ fs, f.primary.version = b2.primary.version ∧ f.primary.crcType = b2.primary.crcType ∧
      f.primary.dest = b2.primary.dest ∧ f.primary.src = b2.primary.src ∧ f.primary.rpt = b2.primary.rpt ∧
      f.primary.ts = b2.primary.ts ∧ f.primary.lifetime = b2.primary.lifetime ∧
      f.primary.flags = setFragFlag b2.primary.flags ∧ isFragment f.primary.flags = true ∧
      (∃ P, b2.payload = some P ∧ f.primary.totalLen = P.length) := by
  intro f hf
  obtain ⟨pb, pdata, hpb, hpd, _, _, _, _, hloop⟩ := create_frags hfs
  have hmem : f ∈ (createLoop m (headLen pdata.length) pdata b2.primary b2.blocks pdata.length 0).1 := by
    rw [hloop]; exact hf
  obtain ⟨o, _, _, _, rfl⟩ := mem_createLoop _ _ _ hmem
  refine ⟨rfl, rfl, rfl, rfl, rfl, rfl, rfl, rfl, isFragment_setFragFlag _, pdata, by simp [FBundle.payload, hpb, hpd], rfl⟩

/-- **C05_forward_identity (fix eb817bd).** A request made with `as_source=False` (forwarding) is
    fragmented with the primary block as received: every fragment keeps the original source, creation
    timestamp — also when the creation time is 0 —, lifetime and report-to; and since fragments
    re-enter `send_bundle` with `as_source=False` too (`resend`), nothing replaces them later. -/
theorem C05_forward_identity (cfg : Cfg) (hsec : cfg.secStep = id) (hfwd : cfg.now = none) (m : Nat)
    (b : FBundle) (fs : List FBundle) (hfs : create (some m) (prepared cfg b) = .frags fs) :
    ∀ f ∈ fs, f.primary.src = b.primary.src ∧ f.primary.ts = b.primary.ts ∧
      f.primary.lifetime = b.primary.lifetime ∧ f.primary.rpt = b.primary.rpt ∧ f.primary.dest = b.primary.dest := by
  intro f hf
  obtain ⟨_, _, h3, h4, h5, h6, h7, _⟩ := C05_fields m _ fs hfs f hf
  have hp : (prepared cfg b).primary = fillPrimary b.primary := by
    rw [prep_primary cfg hsec, hfwd]; rfl
  rw [hp] at h3 h4 h5 h6 h7
  exact ⟨h4, h6, h7, h5, h3⟩

/-- a forwarded bundle with creation time 0 (identified by its sequence number 7) and lifetime 0 -/
def fwdB : FBundle := { exB with primary := { exB.primary with ts := ⟨0, 7⟩, lifetime := 0 } }

def fragSummary : CreateRes → List (Nat × Nat × Nat × Nat)
  | .frags fs => fs.map (fun (f : FBundle) => (f.primary.ts.time, f.primary.ts.seq, f.primary.lifetime, f.primary.fragOff))
  | _ => []

example : fragSummary (create (some 90) (prepared { cfgW with now := none } fwdB))
    = [(0, 7, 0, 0), (0, 7, 0, 23), (0, 7, 0, 59)] := by decide +kernel

/-- **C05_blocks.** The block list of a fragment is exactly the selection of the container's blocks
    for its offset, with the payload data replaced by the fragment's part (`setPayload`: the payload
    block's scapy layer, if any, is dropped): all blocks when the
    offset is 0 (`C05_blocks_first`), otherwise those flagged replicate-in-fragment and the payload
    block (`C05_blocks_later`). -/
theorem C05_blocks (cfg : Cfg) (hsec : cfg.secStep = id) (m : Nat) (b : FBundle) (fs : List FBundle)
    (hfs : create (some m) (prepared cfg b) = .frags fs) :
    ∀ f ∈ fs, f.blocks = setPayload (pdataOf f) (selectBlocks f.primary.fragOff (prepared cfg b).blocks) := by
  intro f hf
  obtain ⟨pb, pdata, hpb, hpd, _, _, _, _, hloop⟩ := create_frags hfs
  have hmem : f ∈ (createLoop m (headLen pdata.length) pdata (prepared cfg b).primary
      (prepared cfg b).blocks pdata.length 0).1 := by rw [hloop]; exact hf
  obtain ⟨o, _, _, _, rfl⟩ := mem_createLoop _ _ _ hmem
  have hex : ∃ x ∈ (prepared cfg b).blocks, x.c.blockNum = 1 :=
    ⟨pb, List.mem_of_find?_eq_some hpb, by simpa using List.find?_some hpb⟩
  have hpd : pdataOf (fragAt m (headLen pdata.length) pdata (prepared cfg b).primary (prepared cfg b).blocks o)
      = (pdata.drop o).take (budget m (headLen pdata.length) pdata (prepared cfg b).primary (prepared cfg b).blocks o) := by
    simp [pdataOf, fragAt_payload _ _ _ _ _ _ hex]
  rw [hpd]
  apply fragAt_blocks
  intro x hx
  rw [prep_blocks cfg hsec] at hx
  obtain ⟨y, _, rfl⟩ := List.mem_map.1 hx
  exact fillBlk_idem y

theorem C05_blocks_first (bs : List Blk) : selectBlocks 0 bs = bs := selectBlocks_zero bs

theorem C05_blocks_later (o : Nat) (bs : List Blk) (x : Blk) :
    x ∈ selectBlocks (o + 1) bs ↔ x ∈ bs ∧ (replicate x.c.flags = true ∨ x.c.blockNum = 1) :=
  mem_selectBlocks_succ o bs x

example : (selectBlocks 12 (prepared cfgW exB).blocks).map (fun x => x.c.blockNum) = [2, 1] := by decide +kernel

/-- **C05_unchanged.** No MTU on the route, NO_FRAGMENT flag, already a fragment, or the bundle fits:
    what is handed to the CL is exactly what is handed over when the route has no MTU at all — one
    byte string, the encoding of the (prepared) input with refreshed CRCs. -/
theorem C05_unchanged (cfg : Cfg) (mtu : Option Nat) (b : FBundle)
    (h : mtu = none ∨ noFragment (prepared cfg b).primary.flags = true
      ∨ isFragment (prepared cfg b).primary.flags = true ∨ (∃ m, mtu = some m ∧ (prepared cfg b).size ≤ m)) :
    clOutputs cfg mtu b = clOutputs cfg none b ∧
      (numsOk b = true → crcTypesOk b = true → clOutputs cfg mtu b = [finalize cfg (prepared cfg b)]) := by
  have hskip : create mtu (prepared cfg b) = .skip := by
    rcases h with h | h | h | ⟨m, hm, hle⟩
    · subst h; rfl
    · cases mtu <;> simp [create, h]
    · exact create_of_isFragment _ _ h
    · subst hm
      have : ¬ m < (prepared cfg b).size := by omega
      simp [create, this]
  have hnone : create none (prepared cfg b) = .skip := rfl
  by_cases hok : numsOk b = true ∧ crcTypesOk b = true
  · have e1 : clOutputs cfg mtu b = [finalize cfg (prepared cfg b)] := by
      simp only [clOutputs, sendBundle_ok _ _ _ _ hok.1 hok.2]
      simp only [prepared] at hskip
      rw [hskip]; rfl
    have e2 : clOutputs cfg none b = [finalize cfg (prepared cfg b)] := by
      simp only [clOutputs, sendBundle_ok _ _ _ _ hok.1 hok.2]
      simp only [prepared] at hnone
      rw [hnone]; rfl
    exact ⟨e1.trans e2.symm, fun _ _ => e1⟩
  · refine ⟨?_, fun h1 h2 => absurd ⟨h1, h2⟩ hok⟩
    simp [clOutputs, sendBundle_bad _ _ _ _ hok]



example : (prepared cfgW exB).size = 130 ∧ clOutputs cfgW (some 130) exB = clOutputs cfgW none exB
    ∧ (clOutputs cfgW (some 129) exB).map List.length = [129, 60] := by
  refine ⟨by decide +kernel, by decide +kernel, by decide +kernel⟩

/-- Exactly what reaches the CL when `_create` raises: nothing from this call when route and sender
    were cleared (the impossibility branches), the untouched input otherwise (KeyError/TypeError: no
    block number 1 / no payload data) — then whatever fragments had already been scheduled. -/
theorem C05_impossible_transmits (cfg : Cfg) (m : Nat) (b : FBundle) (hn : numsOk b = true)
    (hc : crcTypesOk b = true) (fs : List FBundle) (cleared : Bool)
    (hr : create (some m) (prepared cfg b) = .raised fs cleared) :
    clOutputs cfg (some m) b =
      (if cleared then [] else [finalize cfg (prepared cfg b)]) ++ fs.flatMap (resend cfg (some m)) := by
  simp only [clOutputs, sendBundle_ok _ _ _ _ hn hc]
  simp only [prepared] at hr
  rw [hr]
  cases cleared <;> rfl

/-- when `_create` raises on a container that has payload data, it is one of the two impossibility
    branches: sender cleared, and nothing had been scheduled -/
private theorem raised_shape (cfg : Cfg) (hsec : cfg.secStep = id) (m : Nat) (b : FBundle) (hwf : CrcWf b)
    (hn : numsOk b = true) (P : Bytes) (hpay : (prepared cfg b).payload = some P)
    (fs : List FBundle) (cleared : Bool) (hr : create (some m) (prepared cfg b) = .raised fs cleared) :
    fs = [] ∧ cleared = true := by
  have hfl := prep_filled cfg hsec b hwf
  have hn1 : n1 (prepared cfg b).blocks ≤ 1 := by
    rw [prep_blocks cfg hsec, n1_map _ fillBlk_num]; exact n1_of_numsOk hn
  unfold create at hr
  simp only [] at hr
  split at hr
  · cases hr
  · rename_i hc
    simp only [Bool.or_eq_true, Bool.not_eq_true', decide_eq_false_iff_not, not_or] at hc
    have hfr : isFragment (prepared cfg b).primary.flags = false := by simpa using hc.2
    split at hr
    · rename_i hnone
      simp [FBundle.payload, hnone] at hpay
    · rename_i pb hpb
      split at hr
      · rename_i hd
        simp [FBundle.payload, hpb, hd] at hpay
      · rename_i pdata hd
        split at hr
        · injection hr with h1 h2
          exact ⟨h1.symm, h2.symm⟩
        · rename_i hpre
          exfalso
          have hbud : ∀ o, o < pdata.length →
              (emptyFrag (prepared cfg b).primary (prepared cfg b).blocks o pdata.length).size - 1
                + headLen pdata.length < m := by
            intro o ho
            have := emptyFrag_size_le (prepared cfg b) pb pdata o hfl hfr hn1 hpb hd ho
            have := headLen_pos pdata.length
            omega
          have hnr := createLoop_no_raise m (headLen pdata.length) pdata (prepared cfg b).primary
            (prepared cfg b).blocks hbud pdata.length 0
          rw [hnr] at hr
          simp at hr

/-- **C05_impossible_sends_nothing (full strength since fix 9a18e3b).** For a bundle that has payload
    data: whenever `_create` raises — fragmentation is impossible — nothing at all is handed to the CL
    (and the container is not modified: `CreateRes.raised` carries no container, `_create` has no
    write access to it in the model, mirroring the removed `delfieldval`). -/
theorem C05_impossible_sends_nothing (cfg : Cfg) (hsec : cfg.secStep = id) (m : Nat) (b : FBundle)
    (hwf : CrcWf b) (P : Bytes) (hpay : (prepared cfg b).payload = some P)
    (fs : List FBundle) (cleared : Bool) (hr : create (some m) (prepared cfg b) = .raised fs cleared) :
    clOutputs cfg (some m) b = [] := by
  by_cases hok : numsOk b = true ∧ crcTypesOk b = true
  · obtain ⟨h1, h2⟩ := raised_shape cfg hsec m b hwf hok.1 P hpay fs cleared hr
    subst h1; subst h2
    rw [C05_impossible_transmits cfg m b hok.1 hok.2 [] true hr]
    rfl
  · simp [clOutputs, sendBundle_bad _ _ _ _ hok]

/-- the former D12 witness (64-octet payload, MTU 40) and the former decoded-container witness
    (MTU 80): now nothing / proper fragments -/
example : clOutputs cfgW (some 40) witness = [] ∧ create (some 40) (prepared cfgW witness) = .raised [] true
    ∧ (clOutputs cfgW (some 80) witnessWire).map List.length = [80, 62]
    ∧ (clOutputs cfgW none witness).map List.length = [100] := by
  refine ⟨by decide +kernel, by decide +kernel, by decide +kernel, by decide +kernel⟩

/-- **C05_sound (nothing altered or oversized, full strength).** Security off, bundle with payload
    data: every byte string handed to the CL is within the MTU, or it is the encoding of the input
    itself in one of the `C05_unchanged` cases. -/
theorem C05_sound (cfg : Cfg) (hsec : cfg.secStep = id)
    (hcrc : ∀ t d, (cfg.crcFn t d).length = crcWidth t) (m : Nat) (b : FBundle) (hwf : CrcWf b)
    (P : Bytes) (hpay : (prepared cfg b).payload = some P) :
    ∀ out ∈ clOutputs cfg (some m) b, out.length ≤ m ∨
      (out = finalize cfg (prepared cfg b) ∧ create (some m) (prepared cfg b) = .skip) := by
  intro out hout
  cases hcr : create (some m) (prepared cfg b) with
  | skip =>
    right
    by_cases hok : numsOk b = true ∧ crcTypesOk b = true
    · simp only [clOutputs, sendBundle_ok _ _ _ _ hok.1 hok.2] at hout
      simp only [prepared] at hcr
      rw [hcr] at hout
      simp at hout
      exact ⟨hout, rfl⟩
    · simp [clOutputs, sendBundle_bad _ _ _ _ hok] at hout
  | frags fs => exact Or.inl (C05_size cfg hsec hcrc m b hwf fs hcr out hout)
  | raised fs c =>
    rw [C05_impossible_sends_nothing cfg hsec m b hwf P hpay fs c hcr] at hout
    simp at hout

/-- **C05_outputs (nothing is lost on the way to the CL).** When `_create` fragments and the route
    table resolves the fragments, the CL receives exactly one byte string per fragment, in order: the
    encoding of that fragment with refreshed CRC values. Together with `C05_tiling` this is "the
    payload ranges handed to the CL tile the payload". -/
theorem C05_outputs (cfg : Cfg) (hsec : cfg.secStep = id) (hre : cfg.reroute = true) (m : Nat) (b : FBundle)
    (hn : numsOk b = true) (hc : crcTypesOk b = true)
    (fs : List FBundle)
    (hfs : create (some m) (prepared cfg b) = .frags fs) :
    clOutputs cfg (some m) b = fs.map (fun f => finalize cfg (fillFields f)) := by
  simp only [clOutputs, sendBundle_ok _ _ _ _ hn hc]
  have hfs' := hfs
  simp only [prepared] at hfs'
  rw [hfs']
  simp only [Option.toList, List.nil_append]
  obtain ⟨pb, pdata, _, _, _, _, _, _, hloop⟩ := create_frags hfs
  have hall : ∀ f ∈ fs, resend cfg (some m) f = [finalize cfg (fillFields f)] := by
    intro f hf
    have hmem : f ∈ (createLoop m (headLen pdata.length) pdata (prepared cfg b).primary
        (prepared cfg b).blocks pdata.length 0).1 := by rw [hloop]; exact hf
    obtain ⟨o, _, _, _, rfl⟩ := mem_createLoop _ _ _ hmem
    have hnod : (0 :: (prepared cfg b).blocks.map (fun x => x.c.blockNum)).Nodup := by
      rw [prep_blocks cfg hsec, List.map_map]
      have : ((fun x : Blk => x.c.blockNum) ∘ fillBlk) = (fun x : Blk => x.c.blockNum) := by
        funext x; simp
      rw [this]
      simpa [numsOk] using hn
    have hct : (prepared cfg b).primary.crcType ≤ 2 ∧
        ∀ x ∈ (prepared cfg b).blocks, x.c.crcType ≤ 2 := by
      simp only [crcTypesOk, Bool.and_eq_true, decide_eq_true_eq, List.all_eq_true] at hc
      refine ⟨by rw [prep_primary cfg hsec]; cases cfg.now <;> exact hc.1, ?_⟩
      intro x hx
      rw [prep_blocks cfg hsec] at hx
      obtain ⟨z, hz, rfl⟩ := List.mem_map.1 hx
      simpa using hc.2 z hz
    exact resend_eq cfg hsec hre (some m) _ (numsOk_fragAt _ _ _ _ _ _ hnod)
      (crcTypesOk_fragAt _ _ _ _ _ _ hct.1 hct.2) (by rw [fragAt_primary]; exact isFragment_setFragFlag _)
  clear hloop hfs hfs'
  induction fs with
  | nil => rfl
  | cons f fs ih =>
    simp only [List.flatMap_cons, List.map_cons]
    rw [hall f List.mem_cons_self, ih (fun g hg => hall g (List.mem_cons_of_mem _ hg))]
    rfl

/-- **C05_feasible (when does `_create` raise?).** If the container has payload data — with or without
    a scapy layer on the payload block, i.e. locally built or decoded from the wire — and the code's
    own pre-check `orig − payload + 3·head ≤ MTU` passes, the loop never raises: the bundle is
    fragmented. So `_create` raises exactly when there is no payload block/data or the pre-check fails. -/
theorem C05_feasible (cfg : Cfg) (hsec : cfg.secStep = id) (m : Nat) (b : FBundle) (hwf : CrcWf b)
    (hn : numsOk b = true) (P : Bytes) (hpay : (prepared cfg b).payload = some P)
    (hbig : m < (prepared cfg b).size) (hnf : noFragment (prepared cfg b).primary.flags = false)
    (hfr : isFragment (prepared cfg b).primary.flags = false)
    (hpre : (prepared cfg b).size - P.length + 3 * headLen P.length ≤ m) :
    ∃ fs, create (some m) (prepared cfg b) = .frags fs := by
  have hcond : (!(decide (m < (prepared cfg b).size)) || noFragment (prepared cfg b).primary.flags
      || isFragment (prepared cfg b).primary.flags) = false := by simp [hbig, hnf, hfr]
  cases hcr : create (some m) (prepared cfg b) with
  | frags fs => exact ⟨fs, rfl⟩
  | skip =>
    exfalso
    unfold create at hcr
    simp only [hcond, Bool.false_eq_true, if_false] at hcr
    split at hcr
    · cases hcr
    · split at hcr
      · cases hcr
      · split at hcr
        · cases hcr
        · split at hcr <;> cases hcr
  | raised fs c =>
    exfalso
    obtain ⟨hfs, hc⟩ := raised_shape cfg hsec m b hwf hn P hpay fs c hcr
    -- the only raise with an empty schedule and a payload is the pre-check; it passes
    have hfl := prep_filled cfg hsec b hwf
    have hn1 : n1 (prepared cfg b).blocks ≤ 1 := by
      rw [prep_blocks cfg hsec, n1_map _ fillBlk_num]; exact n1_of_numsOk hn
    unfold create at hcr
    simp only [hcond, Bool.false_eq_true, if_false] at hcr
    split at hcr
    · rename_i hnone; simp [FBundle.payload, hnone] at hpay
    · rename_i pb hpb
      split at hcr
      · rename_i hd; simp [FBundle.payload, hpb, hd] at hpay
      · rename_i pdata hd
        have hP : pdata = P := by simpa [FBundle.payload, hpb, hd] using hpay
        subst hP
        have hpre' : ¬ m < (prepared cfg b).size - pdata.length + 3 * headLen pdata.length := by omega
        simp only [hpre', if_false] at hcr
        have hbud : ∀ o, o < pdata.length →
            (emptyFrag (prepared cfg b).primary (prepared cfg b).blocks o pdata.length).size - 1
              + headLen pdata.length < m := by
          intro o ho
          have := emptyFrag_size_le (prepared cfg b) pb pdata o hfl hfr hn1 hpb hd ho
          have := headLen_pos pdata.length
          omega
        have hnr := createLoop_no_raise m (headLen pdata.length) pdata (prepared cfg b).primary
          (prepared cfg b).blocks hbud pdata.length 0
        rw [hnr] at hcr
        simp at hcr

/-- **C05_budget_lower_bound (the in-loop check `frag_size <= 0` is dead code).** Whenever the
    pre-check `orig − payload + 3·head(total) ≤ MTU` has passed, the budget of every fragment, at every
    offset, is at least `head(total)` ≥ 1 octets: `frag_size` is never 0 (nor negative), the loop
    advances by at least one octet per iteration and terminates. The smallest MTU at which a bundle is
    fragmented is therefore exactly `orig − payload + 3·head(total)`; one octet below, `_create`
    raises at the pre-check and nothing is sent (`C05_impossible_sends_nothing`). Whether the in-loop
    test reads `<= 0` or `< 0` cannot be observed. -/
theorem C05_budget_lower_bound (cfg : Cfg) (hsec : cfg.secStep = id) (m : Nat) (b : FBundle) (hwf : CrcWf b)
    (hn : numsOk b = true) (P : Bytes) (hpay : (prepared cfg b).payload = some P)
    (hfr : isFragment (prepared cfg b).primary.flags = false)
    (hpre : (prepared cfg b).size - P.length + 3 * headLen P.length ≤ m) :
    ∀ o, o < P.length →
      headLen P.length ≤ budget m (headLen P.length) P (prepared cfg b).primary (prepared cfg b).blocks o ∧
      0 < budget m (headLen P.length) P (prepared cfg b).primary (prepared cfg b).blocks o := by
  intro o ho
  have hfl := prep_filled cfg hsec b hwf
  have hn1 : n1 (prepared cfg b).blocks ≤ 1 := by
    rw [prep_blocks cfg hsec, n1_map _ fillBlk_num]; exact n1_of_numsOk hn
  cases hpb : payloadBlk (prepared cfg b).blocks with
  | none => simp [FBundle.payload, hpb] at hpay
  | some pb =>
    have hd : pb.c.btsd = some P := by simpa [FBundle.payload, hpb] using hpay
    have := emptyFrag_size_le (prepared cfg b) pb P o hfl hfr hn1 hpb hd ho
    have hp := headLen_pos P.length
    have hs := size_eq (prepared cfg b)
    simp only [budget]
    omega

/-- the boundary on a concrete bundle (size 130, payload 64, head 2): MTU 72 = 130 − 64 + 6 is the
    smallest that fragments, with budgets ≥ 2; MTU 71 raises at the pre-check and sends nothing -/
example : (prepared cfgW exB).size - 64 + 3 * headLen 64 = 72
    ∧ isFrags (create (some 72) (prepared cfgW exB)) = true
    ∧ (clOutputs cfgW (some 72) exB).all (fun o => decide (o.length ≤ 72)) = true
    ∧ create (some 71) (prepared cfgW exB) = .raised [] true ∧ clOutputs cfgW (some 71) exB = [] := by
  refine ⟨by decide +kernel, by decide +kernel, by decide +kernel, by decide +kernel, by decide +kernel⟩

example : ((payloadBlk (prepared cfgW exB).blocks).map (fun x => (x.c.btsd, x.layer))) = some (some (bytesUpTo 64), none)
    ∧ (prepared cfgW exB).size - 64 + 3 * headLen 64 ≤ 90 := by
  constructor <;> decide +kernel

/-- **C05_cl_failure.** A CL sender that raises — on any set of hand-overs — changes nothing of what is
    handed to the CL for the request: the byte strings are exactly those of the failure-free run, in
    the same order (every fragment is still created and handed over: none is lost, and the original is
    not handed over in their place). Hence `C05_size`, `C05_sound`, `C05_outputs`, `C05_tiling` hold
    verbatim for the failing run (`C05_cl_failure_size` spells out the size bound). The failure is
    visible only as escaped exceptions (`escaped`, `idleEscapes`). -/
theorem C05_cl_failure (cfg : Cfg) (fail : Nat → Bool) (mtu : Option Nat) (b : FBundle) :
    (sendFailing cfg fail mtu b).handed = clOutputs cfg mtu b := by
  simp only [sendFailing, clOutputs, runIdle_handed]

theorem C05_cl_failure_size (cfg : Cfg) (hsec : cfg.secStep = id)
    (hcrc : ∀ t d, (cfg.crcFn t d).length = crcWidth t) (fail : Nat → Bool) (m : Nat) (b : FBundle)
    (hwf : CrcWf b) (P : Bytes) (hpay : (prepared cfg b).payload = some P) :
    ∀ out ∈ (sendFailing cfg fail (some m) b).handed, out.length ≤ m ∨
      (out = finalize cfg (prepared cfg b) ∧ create (some m) (prepared cfg b) = .skip) := by
  rw [C05_cl_failure]
  exact C05_sound cfg hsec hcrc m b hwf P hpay

/-- the sender raises on the 2nd of 3 hand-overs: all three fragments are handed over, the second idle
    callback escapes, the original call does not -/
example : sendFailing cfgW (fun i => i == 1) (some 90) exB =
    { handed := clOutputs cfgW (some 90) exB, escaped := false, idleEscapes := [1] }
    ∧ (clOutputs cfgW (some 90) exB).map List.length = [89, 90, 65] := by
  constructor <;> decide +kernel

/-- a security step in the style of `_apply_bib` (transmit chain order 10, before fragment creation at
    20): it adds a block of type 11 with a fresh number and 73 octets of data targeting the payload -/
def secGrow (b : FBundle) : FBundle :=
  let num := (b.blocks.map (fun x => x.c.blockNum)).foldl max 1 + 1
  { b with blocks := { c := { typeCode := 11, blockNum := num, btsd := some (zeros 73) } } :: b.blocks }

def cfgSec : Cfg := { cfgW with secStep := secGrow }

def ex300 : FBundle :=
  { primary := { crcType := 2, dest := .dtn "//d/".toUTF8.toList, src := .dtn "//s/".toUTF8.toList, ts := ⟨1, 0⟩, lifetime := 1000 },
    blocks := [{ c := { typeCode := 1, blockNum := 1, crcType := 2, btsd := some (zeros 300) } }] }

/-- **Full statement with the security policy on (does not hold — known finding D21).** `C05_size`
    without the hypothesis that the security steps are the identity. -/
def C05_size_security_statement : Prop :=
  ∀ (cfg : Cfg) (m : Nat) (b : FBundle) (fs : List FBundle),
    (∀ t d, (cfg.crcFn t d).length = crcWidth t) → CrcWf b →
    create (some m) (prepared cfg b) = .frags fs → ∀ out ∈ clOutputs cfg (some m) b, out.length ≤ m

/-- D21 in the model: with a step that adds a block, every fragment re-enters it through
    `send_bundle` (order 10 < 20) and leaves larger than the MTU the budget was computed for: route
    MTU 230, fragments of 309, 309 and 154 octets handed to the CL. (On the real code with an
    HMAC-256 BIB: 309, 309, 187.) -/
theorem C05_size_security_witness :
    isFrags (create (some 230) (prepared cfgSec ex300)) = true ∧
    (clOutputs cfgSec (some 230) ex300).map List.length = [309, 309, 154] := by
  constructor <;> decide +kernel

theorem C05_size_security_counterexample : ¬ C05_size_security_statement := by
  intro h
  obtain ⟨fs, hfs⟩ := frags_of_isFrags C05_size_security_witness.1
  have hwf : CrcWf ex300 := by
    refine ⟨Or.inr ⟨_, rfl, rfl⟩, ?_⟩
    intro x hx
    simp [fillFields, ex300] at hx
    subst hx
    exact Or.inr ⟨_, rfl, rfl⟩
  have hall := h cfgSec 230 ex300 fs (fun t d => zeros_length _) hwf hfs
  have hl : (clOutputs cfgSec (some 230) ex300).map List.length = [309, 309, 154] := C05_size_security_witness.2
  have hmem : ∃ out ∈ clOutputs cfgSec (some 230) ex300, out.length = 309 := by
    have : 309 ∈ (clOutputs cfgSec (some 230) ex300).map List.length := by rw [hl]; simp
    obtain ⟨out, ho, hlen⟩ := List.mem_map.1 this
    exact ⟨out, ho, hlen⟩
  obtain ⟨out, ho, hlen⟩ := hmem
  have := hall out ho
  omega

/-- flag bits, payload block number/type and chain orders the model relies on -/
def stepOrder (chain name : String) : Option Int :=
  (Facts.chainSteps.find? (fun s => s.1 == chain && s.2.2.1 == name)).map (fun s => s.2.1)

theorem C05_facts :
    Facts.enum_blocks_PrimaryBlock_Flag_IS_FRAGMENT = 1 ∧
    Facts.enum_blocks_PrimaryBlock_Flag_NO_FRAGMENT = 4 ∧
    Facts.enum_blocks_CanonicalBlock_Flag_REPLICATE_IN_FRAGMENT = 1 ∧
    Facts.const_bundle_BLOCK_NUM_PAYLOAD = 1 ∧ Facts.const_bundle_BLOCK_TYPE_PAYLOAD = 1 ∧
    Facts.enum_blocks_AbstractBlock_CrcType_NONE = 0 ∧ Facts.enum_blocks_AbstractBlock_CrcType_CRC16 = 1 ∧
    Facts.enum_blocks_AbstractBlock_CrcType_CRC32 = 2 ∧
    stepOrder "tx_chain" "Static routing" = some 0 ∧
    stepOrder "tx_chain" "BPSec apply integrity" = some 10 ∧
    stepOrder "tx_chain" "BPSec apply confidentiality" = some 11 ∧
    stepOrder "tx_chain" "Fragment creation" = some 20 ∧
    (Facts.chainSteps.filter (fun s => s.1 == "tx_chain")).length = 4 := by
  decide

end Props
end DtnVerif
