/-
  C15  TCPCL enforces its TLS and peer-authentication policy.

  Model: Model/TlsPolicy.lean – `contactDecision` (merge_contact_params + the policy checks around
  `secure()`), `matchId` / `peerIdOf` (match_id over the type-filtered subjectAltName values),
  `authDecision` / `sessDecision` (merge_session_params) and `outcome` (what is written on the plain
  and on the TLS socket, state, close, escaped exception, reported authn fields). The TLS handshake,
  certificate chain validation and `ipaddress` parsing of the peer address are parameters.

  Specification: `C15spec` below – written from the property text and RFC 9174 §4.3 ("Enable TLS":
  AND of the two CAN_TLS flags, then local policy) and §4.4.3/§4.4.4 (per kind of identity claim:
  absent / success / failure; a failure, or an absence where policy requires authentication, ends
  the session with reason Contact Failure) – over *sets of presented identifiers*, not over the
  model's three-valued results.

  `Quirks.current` is the code as it is now; every theorem below is at full strength for it. Six
  former defects (D27 `ssl.match_hostname` missing; D13 uncompared DNS-ID counted as host
  authentication; peer without certificate; SESS_INIT received in the clear carried across the
  handshake; non-SSL `OSError` in the handshake; messages handled after `close()`) have been repaired
  in /repo. They stay expressible through the switches of `Quirks`; the former witnesses are kept as
  `example`s (now computing the correct outcome, and the old outcome under the old switch), and the
  check replays them on the implementation on every run.
  All certificates: the SAN list is an arbitrary `List GName` (lemmas by induction on it).
-/
import DtnVerif.Model.TlsPolicy
import DtnVerif.Lemmas.TlsPolicy
import DtnVerif.Generated.Facts
namespace DtnVerif
namespace Props
open TlsPolicy

/-- Constants and layouts of the source the model relies on. -/
theorem C15_facts :
    Facts.enum_contact_ContactV4_Flag_CAN_TLS = (canTlsBit : Int) ∧
    Facts.enum_tcpcl_SessionTerm_Reason_CONTACT_FAILURE = (reasonContactFailure : Int) ∧
    ("Head", "ContactV4", "version", 4) ∈ Facts.binds ∧
    ("MessageHead", "SessionInit", "msg_id", 7) ∈ Facts.binds ∧
    ("MessageHead", "SessionTerm", "msg_id", 5) ∈ Facts.binds ∧
    Facts.layouts.lookup "contact.ContactV4" = some [("FlagsField", "flags", "size=8")] ∧
    Facts.layouts.lookup "tcpcl.SessionTerm" = some [("FlagsField", "flags", "size=8"), ("ByteEnumField", "reason", "")] ∧
    Facts.dbusSigs.lookup "tcpcl.ContactHandler.get_session_parameters" = some ("method", "", "a{sv}") ∧
    Facts.dbusSigs.lookup "tcpcl.ContactHandler.get_session_state" = some ("method", "", "s") ∧
    Facts.dbusSigs.lookup "tcpcl.ContactHandler.session_state_changed" = some ("signal", "s", "") := by
  refine ⟨?_, ?_, ?_, ?_, ?_, ?_, ?_, ?_, ?_, ?_⟩ <;> decide

/-! ## Independent specification -/

namespace C15spec

/-- RFC 9174 §4.3, "Enable TLS": the logical AND of the two contact headers' CAN_TLS flags. -/
def enableTls (thisOffers peerOffers : Bool) : Bool := thisOffers && peerOffers

/-- The local policy accepts the negotiated Enable-TLS value. -/
def Acceptable (require : Option Bool) (enable : Bool) : Prop := ∀ r, require = some r → enable = r

/-- The facts of one negotiation (nothing here is a decision of the endpoint). -/
structure Situation where
  thisOffers : Bool
  peerOffers : Bool
  require : Option Bool
  requireHost : Bool
  requireNode : Bool
  handshakeOk : Bool
  /-- identifiers the peer's certificate presents (none when there is no certificate / no SAN) -/
  presented : List GName
  /-- address the peer is connected from / to -/
  addr : List UInt8
  /-- DNS name by which the peer was reached – only the connecting side has one, and only when it
      did not dial a literal address -/
  dnsName : Option String
  /-- node ID announced in the peer's SESS_INIT -/
  nodeId : String

def Situation.enable (s : Situation) : Bool := enableTls s.thisOffers s.peerOffers

/-- Some presented identifier contradicts the peer's address, DNS name or announced node ID:
    identifiers of that kind are presented and the peer's own value is not among them. -/
def Situation.Contradicted (s : Situation) : Prop :=
  ((∃ o, GName.ip o ∈ s.presented) ∧ GName.ip s.addr ∉ s.presented) ∨
  (∃ n, s.dnsName = some n ∧ (∃ d, GName.dns d ∈ s.presented) ∧ GName.dns n ∉ s.presented) ∨
  ((∃ u, GName.uri u ∈ s.presented) ∧ GName.uri s.nodeId ∉ s.presented)

/-- The host is authenticated: its address, or the DNS name it was reached by, is presented. -/
def Situation.HostAuthenticated (s : Situation) : Prop :=
  GName.ip s.addr ∈ s.presented ∨ ∃ n, s.dnsName = some n ∧ GName.dns n ∈ s.presented

def Situation.NodeAuthenticated (s : Situation) : Prop := GName.uri s.nodeId ∈ s.presented

def Situation.AuthAcceptable (s : Situation) : Prop :=
  ¬ s.Contradicted ∧ (s.requireHost = true → s.HostAuthenticated) ∧ (s.requireNode = true → s.NodeAuthenticated)

/-- What an observer of the endpoint saw. -/
structure Observed where
  /-- a TLS handshake was started -/
  attempted : Bool
  /-- the session layer runs over TLS -/
  secured : Bool
  /-- a SESS_INIT was written without / with TLS -/
  initInClear : Bool
  initSecured : Bool
  established : Bool
  /-- reason codes of the SESS_TERM messages written -/
  termReasons : List Nat
  /-- the peer's SESS_INIT was taken out of the receive buffer -/
  decided : Bool
  /-- … and it had been received before the TLS handshake -/
  initFromPlaintext : Bool

/-- RFC 9174 reason code "Contact Failure". -/
def contactFailure : Nat := 4

/-- The property. -/
structure Policy (s : Situation) (o : Observed) : Prop where
  /-- TLS is attempted exactly when both contact headers offer it (and local policy accepts that) -/
  attempt_iff : o.attempted = true ↔ (s.enable = true ∧ Acceptable s.require s.enable)
  /-- no SESS_INIT, no established session, unless the use of TLS is the negotiated and accepted one -/
  proceeds_ok : (o.initInClear = true ∨ o.initSecured = true ∨ o.established = true) →
    (Acceptable s.require s.enable ∧ o.secured = s.enable)
  init_clear : o.initInClear = true → s.enable = false
  init_secured : o.initSecured = true → (s.enable = true ∧ s.handshakeOk = true)
  /-- a node that requires TLS never proceeds in the clear -/
  require_never_clear : s.require = some true → (o.initInClear = false ∧ (o.established = true → o.secured = true))
  /-- one that forbids it never proceeds secured -/
  forbid_never_secured : s.require = some false → (o.secured = false ∧ o.initSecured = false ∧ o.attempted = false)
  /-- under TLS: established only if nothing contradicts and what is required is present and matches,
      and only on a SESS_INIT that itself arrived under TLS -/
  tls_established : o.established = true → o.secured = true → (s.AuthAcceptable ∧ o.initFromPlaintext = false)
  /-- otherwise the endpoint terminates with contact-failure -/
  tls_otherwise : o.secured = true → o.decided = true → ¬ s.AuthAcceptable →
    (o.established = false ∧ o.termReasons = [contactFailure])
  /-- (no over-rejection: a peer that meets the policy is accepted) -/
  tls_accepts : o.secured = true → o.decided = true → s.AuthAcceptable →
    (o.established = true ∧ o.termReasons = [])
  term_reason : ∀ r ∈ o.termReasons, r = contactFailure

end C15spec

open C15spec

/-! ## From model terms to specification terms -/

/-- Identifiers presented by the peer certificate. -/
def presentedBy (n : Conn) : List GName :=
  match n.cert with
  | some ⟨some l⟩ => l
  | _ => []

def situation (c : Cfg) (e : Env) (n : Conn) : Situation :=
  { thisOffers := c.tlsEnable
    peerOffers := e.peerFlags % 2 == 1
    require := c.requireTls
    requireHost := c.requireHost
    requireNode := c.requireNode
    handshakeOk := e.handshake == .ok
    presented := presentedBy n
    addr := n.sockOctets
    dnsName := if c.passive || n.peerName == n.sockAddr then none else some n.peerName
    nodeId := n.nodeId }

def termReasonsOf (ms : List Msg) : List Nat :=
  ms.filterMap fun m => match m with | .sessTerm r => some r | _ => none

def observe (o : Outcome) : Observed :=
  { attempted := o.attempted
    secured := o.isSecure
    initInClear := decide (Msg.sessInit ∈ o.clear)
    initSecured := decide (Msg.sessInit ∈ o.secured)
    established := decide (o.state = .established)
    termReasons := termReasonsOf (o.clear ++ o.secured)
    decided := o.sess.delivered
    initFromPlaintext := o.initFromPlaintext }

/-! ## The certificate ↦ `IdResult` abstraction is sound (all SAN lists) -/

private theorem presentedBy_some (n : Conn) (l : List GName) (h : n.cert = some ⟨some l⟩) :
    presentedBy n = l := by
  simp [presentedBy, h]

/-- IPADDR-ID: the model's three results say exactly what the certificate presents. -/
theorem C15_abstraction_ip (c : Cfg) (n : Conn) :
    ((peerIdOf c n).ip = .absent ↔ ¬ ∃ o, GName.ip o ∈ presentedBy n) ∧
    ((peerIdOf c n).ip = .matched ↔ GName.ip n.sockOctets ∈ presentedBy n) ∧
    ((peerIdOf c n).ip = .mismatch ↔ ((∃ o, GName.ip o ∈ presentedBy n) ∧ GName.ip n.sockOctets ∉ presentedBy n)) := by
  rcases hc : n.cert with _ | ⟨_ | l⟩
  · simp [peerIdOf, presentedBy, hc]
  · simp [peerIdOf, presentedBy, hc, matchId]
  · have hp : presentedBy n = l := presentedBy_some n l hc
    simp only [peerIdOf, hc, hp, Option.map_some]
    refine ⟨?_, ?_, ?_⟩
    · rw [matchId_absent_iff]
      simp only [reduceCtorEq, Option.some.injEq, false_or]
      rw [← ipValues_ne_nil]
      simp
    · rw [matchId_matched_iff]
      simp [mem_ipValues]
    · rw [matchId_mismatch_iff]
      simp [mem_ipValues, ipValues_ne_nil]

/-- NODE-ID (URI). -/
theorem C15_abstraction_node (c : Cfg) (n : Conn) :
    ((peerIdOf c n).node = .absent ↔ ¬ ∃ u, GName.uri u ∈ presentedBy n) ∧
    ((peerIdOf c n).node = .matched ↔ GName.uri n.nodeId ∈ presentedBy n) ∧
    ((peerIdOf c n).node = .mismatch ↔ ((∃ u, GName.uri u ∈ presentedBy n) ∧ GName.uri n.nodeId ∉ presentedBy n)) := by
  rcases hc : n.cert with _ | ⟨_ | l⟩
  · simp [peerIdOf, presentedBy, hc]
  · simp [peerIdOf, presentedBy, hc, matchId]
  · have hp : presentedBy n = l := presentedBy_some n l hc
    simp only [peerIdOf, hc, hp, Option.map_some]
    refine ⟨?_, ?_, ?_⟩
    · rw [matchId_absent_iff]
      simp only [reduceCtorEq, Option.some.injEq, false_or]
      rw [← uriValues_ne_nil]
      simp
    · rw [matchId_matched_iff]
      simp [mem_uriValues]
    · rw [matchId_mismatch_iff]
      simp [mem_uriValues, uriValues_ne_nil]

/-- DNS-ID: the reference is `peer_dnsid`, which may be missing (listening side, literal address):
    then a DNS-ID can only be absent or "mismatch" – never matched. -/
theorem C15_abstraction_dns (c : Cfg) (n : Conn) :
    ((peerIdOf c n).dns = .absent ↔ ¬ ∃ d, GName.dns d ∈ presentedBy n) ∧
    ((peerIdOf c n).dns = .matched ↔ ∃ name, peerDnsid c n = some name ∧ GName.dns name ∈ presentedBy n) ∧
    ((peerIdOf c n).dns = .mismatch ↔
      ((∃ d, GName.dns d ∈ presentedBy n) ∧ ∀ name, peerDnsid c n = some name → GName.dns name ∉ presentedBy n)) := by
  rcases hc : n.cert with _ | ⟨_ | l⟩
  · simp [peerIdOf, presentedBy, hc]
  · simp [peerIdOf, presentedBy, hc, matchId]
  · have hp : presentedBy n = l := presentedBy_some n l hc
    simp only [peerIdOf, hc, hp, Option.map_some]
    refine ⟨?_, ?_, ?_⟩
    · rw [matchId_absent_iff]
      simp only [reduceCtorEq, Option.some.injEq, false_or]
      rw [← dnsValues_ne_nil]
      simp
    · rw [matchId_matched_iff]
      simp [mem_dnsValues]
    · rw [matchId_mismatch_iff]
      simp [mem_dnsValues, dnsValues_ne_nil]

example : (peerIdOf ⟨false, true, none, true, true⟩
    ⟨"peer.example.org", "192.0.2.1", [192, 0, 2, 1], "dtn://peer/",
     some ⟨some [.dns "a.example", .ip [192, 0, 2, 1], .other, .uri "dtn://other/", .dns "peer.example.org"]⟩⟩)
    = ⟨true, true, .matched, .matched, .mismatch⟩ := by decide

/-! ## TLS use (finite decision table; every flags octet) -/

/-- The contact decision inside `outcome`. -/
def ctOf (q : Quirks) (c : Cfg) (e : Env) : Contact :=
  contactDecision q.handshakeOsEscapes c.requireTls c.tlsEnable (offersTls e.peerFlags) e.handshake

private theorem outcome_eq (q : Quirks) (c : Cfg) (e : Env) (p : PeerId) :
    outcome q c e p = render c e p (ctOf q c e) (sessDecision q c e p (ctOf q c e)) := rfl

/-- `flags & CAN_TLS` is bit 0 of the octet. -/
theorem C15_offers_is_bit0 (f : Nat) : offersTls f = (f % 2 == 1) := by
  have h : f &&& 1 = f % 2 := Nat.and_one_is_mod f
  unfold offersTls canTlsBit
  rw [h]
  rcases Nat.mod_two_eq_zero_or_one f with h2 | h2 <;> simp [h2]

private theorem proceeds_cases (q : Quirks) (c : Cfg) (e : Env) (p : PeerId) (ct : Contact) (ss : Sess)
    (hct : ctOf q c e = ct) (hss : sessDecision q c e p ct = ss)
    (h : Msg.sessInit ∈ (render c e p ct ss).clear ∨ Msg.sessInit ∈ (render c e p ct ss).secured ∨
         ss = .established ∨ ∃ r, ss = .terminated r) :
    (ct = .proceedClear ∧ (c.tlsEnable && offersTls e.peerFlags) = false ∧ c.requireTls ≠ some true) ∨
    (ct = .proceedTls ∧ c.tlsEnable = true ∧ offersTls e.peerFlags = true ∧ e.handshake = .ok ∧
      c.requireTls ≠ some false) := by
  have hcl : ct = .proceedClear ∨ ct = .proceedTls := by
    rcases h with h | h | h | ⟨r, h⟩
    · exact Or.inl (render_sessInit_clear c e p ct ss h)
    · exact Or.inr (render_sessInit_secured c e p ct ss h)
    · exact sessDecision_established q c e p ct (hss.trans h)
    · exact Or.inr (sessDecision_terminated q c e p ct r (hss.trans h)).1
  rcases hcl with hc | hc
  · left
    refine ⟨hc, ?_⟩
    have := hct.trans hc
    exact (contactDecision_proceedClear_iff _ _ _ _ _).mp this
  · right
    refine ⟨hc, ?_⟩
    have := hct.trans hc
    exact (contactDecision_proceedTls_iff _ _ _ _ _).mp this

/-- **TLS is attempted exactly when both contact headers offer it** – for every configuration, every
    flags octet of the peer, every handshake result: the handshake is started iff our header carries
    CAN_TLS (`tls_enable`), the peer's carries it (bit 0), and `require_tls` is not `False` (a node
    that forbids TLS closes instead, see `C15_forbid_never_tls`). -/
theorem C15_attempt_iff_both (q : Quirks) (c : Cfg) (e : Env) (p : PeerId) :
    (outcome q c e p).attempted = true ↔
      (c.tlsEnable = true ∧ e.peerFlags % 2 = 1 ∧ c.requireTls ≠ some false) := by
  rw [outcome_eq, render_attempted, ctOf, contactDecision_attempted, C15_offers_is_bit0]
  rcases c.requireTls with _ | _ | _ <;> simp

example : (outcome Quirks.current ⟨true, true, none, false, false⟩ ⟨0xff, .sslError, false, false⟩
    ⟨true, false, .absent, .absent, .absent⟩).attempted = true := by decide

/-- **A node that requires TLS never proceeds in the clear**: no SESS_INIT on the plain socket, the
    contact stage never ends in "proceed without TLS", and an established session is a TLS session. -/
theorem C15_require_never_clear (q : Quirks) (c : Cfg) (e : Env) (p : PeerId)
    (h : c.requireTls = some true) :
    Msg.sessInit ∉ (outcome q c e p).clear ∧
    (outcome q c e p).contact ≠ .proceedClear ∧
    ((outcome q c e p).state = .established → (outcome q c e p).isSecure = true) := by
  rw [outcome_eq]
  generalize hct : ctOf q c e = ct
  generalize hss : sessDecision q c e p ct = ss
  have hnc : ct ≠ .proceedClear := by
    intro hc
    exact ((contactDecision_proceedClear_iff _ _ _ _ _).mp (hct.trans hc)).2 h
  refine ⟨fun hm => hnc (render_sessInit_clear c e p ct ss hm), hnc, ?_⟩
  intro hst
  have hse := (render_state_established c e p ct ss).mp hst
  rcases sessDecision_established q c e p ct (hss.trans hse) with hc | hc
  · exact absurd hc hnc
  · exact (render_isSecure c e p ct ss).mpr hc

example : (outcome Quirks.current ⟨false, true, some true, false, false⟩ ⟨1, .ok, false, true⟩
    ⟨true, true, .matched, .matched, .matched⟩).state = .established := by decide

/-- **A node that forbids TLS never proceeds secured**: no handshake is started, nothing is ever
    written to a TLS socket, `is_secure()` stays false. -/
theorem C15_forbid_never_tls (q : Quirks) (c : Cfg) (e : Env) (p : PeerId)
    (h : c.requireTls = some false) :
    (outcome q c e p).attempted = false ∧ (outcome q c e p).isSecure = false ∧
    (outcome q c e p).secured = [] := by
  have hnt : ctOf q c e ≠ .proceedTls := by
    intro hc
    exact ((contactDecision_proceedTls_iff _ _ _ _ _).mp hc).2.2.2 h
  refine ⟨?_, ?_, ?_⟩
  · rw [outcome_eq, render_attempted, ctOf, contactDecision_attempted, h]
    simp
  · cases hs : (outcome q c e p).isSecure
    · rfl
    · rw [outcome_eq] at hs
      exact absurd ((render_isSecure _ _ _ _ _).mp hs) hnt
  · rw [outcome_eq]
    exact render_secured_nil _ _ _ _ _ hnt

example : (outcome Quirks.current ⟨true, true, some false, false, false⟩ ⟨1, .ok, false, true⟩
    ⟨true, false, .matched, .absent, .matched⟩).closed = true := by decide

/-- **No SESS_INIT is sent and no session is established (or terminated) unless the use of TLS
    matches the configured requirement**: whenever a SESS_INIT is on either socket or the state is
    `established` / `ending`, the TLS state is the AND of the two CAN_TLS flags, it equals
    `require_tls` when that is set, a SESS_INIT in the clear means TLS was not negotiated and a
    SESS_INIT under TLS means the handshake succeeded. -/
theorem C15_no_init_before_policy (q : Quirks) (c : Cfg) (e : Env) (p : PeerId)
    (h : Msg.sessInit ∈ (outcome q c e p).clear ∨ Msg.sessInit ∈ (outcome q c e p).secured ∨
         (outcome q c e p).state = .established ∨ (outcome q c e p).state = .ending) :
    (outcome q c e p).isSecure = (c.tlsEnable && (e.peerFlags % 2 == 1)) ∧
    (∀ r, c.requireTls = some r → (outcome q c e p).isSecure = r) ∧
    (Msg.sessInit ∈ (outcome q c e p).clear → (outcome q c e p).isSecure = false) ∧
    (Msg.sessInit ∈ (outcome q c e p).secured → e.handshake = .ok) ∧
    (outcome q c e p).closed = false := by
  rw [outcome_eq] at h ⊢
  generalize hct : ctOf q c e = ct at h ⊢
  generalize hss : sessDecision q c e p ct = ss at h ⊢
  rw [render_state_established, render_state_ending] at h
  rw [← C15_offers_is_bit0]
  rcases proceeds_cases q c e p ct ss hct hss h with ⟨hc, hb, hr⟩ | ⟨hc, ht, hp, hh, hr⟩
  · subst hc
    refine ⟨?_, ?_, ?_, ?_, ?_⟩
    · rw [hb]; rfl
    · intro r hreq
      cases r
      · rfl
      · exact absurd hreq hr
    · intro _; rfl
    · intro hm
      have := render_sessInit_secured _ _ _ _ _ hm
      cases this
    · rfl
  · subst hc
    refine ⟨?_, ?_, ?_, ?_, ?_⟩
    · rw [ht, hp]; rfl
    · intro r hreq
      cases r
      · exact absurd hreq hr
      · rfl
    · intro hm
      have := render_sessInit_clear _ _ _ _ _ hm
      cases this
    · intro _; exact hh
    · rfl

example : Msg.sessInit ∈ (outcome Quirks.current ⟨true, false, none, true, true⟩ ⟨0, .ok, false, false⟩
    ⟨true, false, .absent, .absent, .absent⟩).clear := by decide

/-- Without TLS nothing is ever reported as authenticated. -/
theorem C15_clear_reports_no_authn (q : Quirks) (c : Cfg) (e : Env) (p : PeerId) (r : Params)
    (hs : (outcome q c e p).isSecure = false) (hp : (outcome q c e p).params = some r) :
    r.ip = .absent ∧ r.dns = .absent ∧ r.node = .absent := by
  rw [outcome_eq] at hs hp
  generalize ctOf q c e = ct at hs hp
  generalize sessDecision q c e p ct = ss at hs hp
  cases ct <;> cases ss <;> simp_all [render, Contact.isTls, Sess.isEstablished] <;> (subst hp; simp)

/-! ## Peer authentication (all certificates) -/

/-- The region in which the code before b2a96b5 did not enforce `require_host_authn` (D13): host
    authentication required, no DNS name of the peer known (listening side, or a literal address was
    dialled), and the certificate presents DNS-IDs but no IPADDR-ID. -/
def d13Region (c : Cfg) (n : Conn) : Bool :=
  c.requireHost && !(dnsKnown c n) && (ipValues (presentedBy n)).isEmpty && !(dnsValues (presentedBy n)).isEmpty

private theorem dnsName_eq (c : Cfg) (e : Env) (n : Conn) : (situation c e n).dnsName = peerDnsid c n := by
  simp only [situation, peerDnsid]
  cases c.passive <;> simp

private theorem peerDnsid_cases (c : Cfg) (n : Conn) : peerDnsid c n = none ∨ peerDnsid c n = some n.peerName := by
  unfold peerDnsid
  split
  · exact Or.inl rfl
  · split
    · exact Or.inl rfl
    · exact Or.inr rfl

private theorem dnsKnown_iff (c : Cfg) (n : Conn) (hname : n.peerName ≠ "") :
    dnsKnown c n = true ↔ ∃ name, peerDnsid c n = some name := by
  unfold dnsKnown
  rcases peerDnsid_cases c n with h | h <;> rw [h] <;> simp [hname]

private theorem peerIdOf_dnsKnown (c : Cfg) (n : Conn) : (peerIdOf c n).dnsKnown = dnsKnown c n := by
  unfold peerIdOf
  split <;> rfl

private theorem peerIdOf_absent (c : Cfg) (n : Conn) (h : (peerIdOf c n).certPresent = false) :
    (peerIdOf c n).ip = .absent ∧ (peerIdOf c n).dns = .absent ∧ (peerIdOf c n).node = .absent := by
  rcases hc : n.cert with _ | cert
  · simp [peerIdOf, hc]
  · simp [peerIdOf, hc] at h

private theorem peerIdOf_certPresent (c : Cfg) (n : Conn) : (peerIdOf c n).certPresent = n.cert.isSome := by
  unfold peerIdOf
  split <;> simp_all

/-- The decision table of `merge_session_params` against the specification's reading, in terms of
    the three-valued results. `h7`: a DNS-ID match needs a reference. `hd`: outside the D13 region
    (only relevant while an unchecked DNS-ID counts). -/
private theorem auth_table (u k rh rn : Bool) (ip dns node : IdResult)
    (h7 : dns = .matched → k = true)
    (hd : u = true → (rh && !k && (ip == .absent) && (dns != .absent)) = false) :
    authDecision u ip dns node k rh rn = .establish ↔
      (¬ (ip = .mismatch ∨ (k = true ∧ dns = .mismatch) ∨ node = .mismatch) ∧
       (rh = true → (ip = .matched ∨ dns = .matched)) ∧ (rn = true → node = .matched)) := by
  revert h7 hd
  cases u <;> cases k <;> cases rh <;> cases rn <;> cases ip <;> cases dns <;> cases node <;> decide

private theorem d13Region_eq (c : Cfg) (n : Conn) :
    d13Region c n = (c.requireHost && !(dnsKnown c n) && ((peerIdOf c n).ip == .absent) &&
      ((peerIdOf c n).dns != .absent)) := by
  have hip : (ipValues (presentedBy n)).isEmpty = ((peerIdOf c n).ip == .absent) := by
    have h := (C15_abstraction_ip c n).1
    rw [← ipValues_ne_nil] at h
    cases hv : ipValues (presentedBy n) with
    | nil => simp [hv] at h; simp [h]
    | cons a l =>
      have : (peerIdOf c n).ip ≠ .absent := by
        intro hc; have := h.mp hc; simp [hv] at this
      simp [this]
  have hdns : (dnsValues (presentedBy n)).isEmpty = ((peerIdOf c n).dns == .absent) := by
    have h := (C15_abstraction_dns c n).1
    rw [← dnsValues_ne_nil] at h
    cases hv : dnsValues (presentedBy n) with
    | nil => simp [hv] at h; simp [h]
    | cons a l =>
      have : (peerIdOf c n).dns ≠ .absent := by
        intro hc; have := h.mp hc; simp [hv] at this
      simp [this]
  unfold d13Region
  rw [hip, hdns]
  rfl

/-- `merge_session_params` establishes exactly when the specification accepts the peer – for every
    certificate, outside the D13 region. -/
private theorem auth_iff (q : Quirks) (c : Cfg) (e : Env) (n : Conn) (hname : n.peerName ≠ "")
    (hD13 : q.uncheckedDnsCounts = true → d13Region c n = false) :
    authDecision q.uncheckedDnsCounts (peerIdOf c n).ip (peerIdOf c n).dns (peerIdOf c n).node
        (peerIdOf c n).dnsKnown c.requireHost c.requireNode = .establish ↔
      (situation c e n).AuthAcceptable := by
  obtain ⟨_, hipM, hipX⟩ := C15_abstraction_ip c n
  obtain ⟨_, hnoM, hnoX⟩ := C15_abstraction_node c n
  obtain ⟨_, hdnM, hdnX⟩ := C15_abstraction_dns c n
  have hk := dnsKnown_iff c n hname
  have h7 : (peerIdOf c n).dns = .matched → (peerIdOf c n).dnsKnown = true := by
    intro hm
    rw [peerIdOf_dnsKnown, hk]
    obtain ⟨name, hn, _⟩ := hdnM.mp hm
    exact ⟨name, hn⟩
  have hd : q.uncheckedDnsCounts = true →
      (c.requireHost && !(peerIdOf c n).dnsKnown && ((peerIdOf c n).ip == .absent) &&
        ((peerIdOf c n).dns != .absent)) = false := by
    intro hu
    rw [peerIdOf_dnsKnown, ← d13Region_eq]
    exact hD13 hu
  rw [auth_table _ _ _ _ _ _ _ h7 hd]
  -- specification side, atom by atom
  have hA : (situation c e n).AuthAcceptable ↔
      (¬ (((∃ o, GName.ip o ∈ presentedBy n) ∧ GName.ip n.sockOctets ∉ presentedBy n) ∨
          (∃ nm, (situation c e n).dnsName = some nm ∧ (∃ d, GName.dns d ∈ presentedBy n) ∧
            GName.dns nm ∉ presentedBy n) ∨
          ((∃ u, GName.uri u ∈ presentedBy n) ∧ GName.uri n.nodeId ∉ presentedBy n)) ∧
       (c.requireHost = true → (GName.ip n.sockOctets ∈ presentedBy n ∨
          ∃ nm, (situation c e n).dnsName = some nm ∧ GName.dns nm ∈ presentedBy n)) ∧
       (c.requireNode = true → GName.uri n.nodeId ∈ presentedBy n)) := Iff.rfl
  rw [hA, dnsName_eq, ← hipX, ← hipM, ← hnoX, ← hnoM, ← hdnM]
  have hdns : (∃ nm, peerDnsid c n = some nm ∧ (∃ d, GName.dns d ∈ presentedBy n) ∧
      GName.dns nm ∉ presentedBy n) ↔ ((peerIdOf c n).dnsKnown = true ∧ (peerIdOf c n).dns = .mismatch) := by
    rw [peerIdOf_dnsKnown, hk, hdnX]
    constructor
    · rintro ⟨nm, hnm, hex, hno⟩
      refine ⟨⟨nm, hnm⟩, hex, ?_⟩
      intro name hname'
      rw [hnm] at hname'
      cases hname'
      exact hno
    · rintro ⟨⟨nm, hnm⟩, hex, hall⟩
      exact ⟨nm, hnm, hex, hall nm hnm⟩
  rw [hdns]

/-- Full-strength statement of the two authentication sentences, for a quirk set: under TLS the
    session is established only if the specification accepts the peer. -/
def AuthSound (q : Quirks) : Prop :=
  ∀ (c : Cfg) (e : Env) (n : Conn), n.peerName ≠ "" →
    (outcomeC q c e n).state = .established → (outcomeC q c e n).isSecure = true →
    (situation c e n).AuthAcceptable

private theorem established_tls (q : Quirks) (c : Cfg) (e : Env) (n : Conn)
    (hst : (outcomeC q c e n).state = .established) (hsec : (outcomeC q c e n).isSecure = true) :
    authDecision q.uncheckedDnsCounts (peerIdOf c n).ip (peerIdOf c n).dns (peerIdOf c n).node
        (peerIdOf c n).dnsKnown c.requireHost c.requireNode = .establish ∧
    (e.pipelined = true → q.carriesPlaintext = true) := by
  unfold outcomeC at hst hsec
  rw [outcome_eq] at hst hsec
  have hct := (render_isSecure _ _ _ _ _).mp hsec
  rw [hct] at hst
  have hss := (render_state_established _ _ _ _ _).mp hst
  exact sessDecision_tls_established q c e (peerIdOf c n) (peerIdOf_absent c n) hss

/-- **Under TLS the session is established only if no identifier presented in the peer certificate
    contradicts the peer's address, DNS name or announced node ID** – every configuration, every
    certificate (arbitrary SAN list), both sides (stated for any setting of the former quirk switches,
    `Quirks.current` included). -/
theorem C15_no_contradiction (q : Quirks) (c : Cfg) (e : Env) (n : Conn) (hname : n.peerName ≠ "")
    (hst : (outcomeC q c e n).state = .established) (hsec : (outcomeC q c e n).isSecure = true) :
    ¬ (situation c e n).Contradicted := by
  have hA := (established_tls q c e n hst hsec).1
  rw [authDecision_establish_iff] at hA
  obtain ⟨hip, hdns, hnode, _, _⟩ := hA
  obtain ⟨_, _, hipX⟩ := C15_abstraction_ip c n
  obtain ⟨_, _, hnoX⟩ := C15_abstraction_node c n
  obtain ⟨_, _, hdnX⟩ := C15_abstraction_dns c n
  rintro (hc | ⟨nm, hnm, hex, hno⟩ | hc)
  · exact hip (hipX.mpr hc)
  · rw [dnsName_eq] at hnm
    have hk : (peerIdOf c n).dnsKnown = true := by
      rw [peerIdOf_dnsKnown, dnsKnown_iff c n hname]
      exact ⟨nm, hnm⟩
    refine hdns hk (hdnX.mpr ⟨hex, ?_⟩)
    intro name hn
    rw [hnm] at hn
    cases hn
    exact hno
  · exact hnode (hnoX.mpr hc)

/-- **When node authentication is required, established only if the node ID is present in the
    certificate and matches** – every certificate (any setting of the former quirk switches). -/
theorem C15_required_node_present_and_matches (q : Quirks) (c : Cfg) (e : Env) (n : Conn)
    (hst : (outcomeC q c e n).state = .established) (hsec : (outcomeC q c e n).isSecure = true)
    (hreq : c.requireNode = true) :
    GName.uri n.nodeId ∈ presentedBy n := by
  have hA := (established_tls q c e n hst hsec).1
  rw [authDecision_establish_iff] at hA
  exact (C15_abstraction_node c n).2.1.mp (hA.2.2.2.2 hreq)

/-- Statement for host authentication, for a quirk set. -/
def HostAuthnEnforced (q : Quirks) : Prop :=
  ∀ (c : Cfg) (e : Env) (n : Conn), n.peerName ≠ "" →
    (outcomeC q c e n).state = .established → (outcomeC q c e n).isSecure = true →
    c.requireHost = true → (situation c e n).HostAuthenticated

/-- **When host authentication is required, established only if the peer's address, or the DNS name
    it was reached by, is present in the certificate and matches** – every configuration, both sides,
    every certificate. (A DNS-ID that could not be compared – listening side, literal address
    dialled – authenticates nothing.) -/
theorem C15_required_host_present_and_matches : HostAuthnEnforced Quirks.current := by
  intro c e n hname hst hsec hreq
  have hA := (established_tls Quirks.current c e n hst hsec).1
  exact ((auth_iff Quirks.current c e n hname (fun h => by cases h)).mp hA).2.1 hreq

/-- Both authentication sentences at once: **under TLS the session is established only if the
    specification accepts the peer** (nothing contradicts, what is required is present and matches). -/
theorem C15_established_only_if_acceptable : AuthSound Quirks.current := by
  intro c e n hname hst hsec
  exact (auth_iff Quirks.current c e n hname (fun h => by cases h)).mp (established_tls Quirks.current c e n hst hsec).1

/-- Former D13 witness: listening side, `require_tls`, `require_host_authn`, peer 192.0.2.1 presenting
    a certificate whose only identifier is the DNS name of somebody else. -/
def d13Cfg : Cfg := ⟨true, true, some true, true, false⟩
def d13Env : Env := ⟨1, .ok, false, true⟩
def d13Conn : Conn := ⟨"192.0.2.1", "192.0.2.1", [192, 0, 2, 1], "dtn://peer/", some ⟨some [.dns "evil.example.net"]⟩⟩

/-- now turned away with contact failure … -/
example : (outcomeC Quirks.current d13Cfg d13Env d13Conn).secured = [.sessInit, .sessTerm 4] ∧
    (outcomeC Quirks.current d13Cfg d13Env d13Conn).state = .ending := by decide
/-- … whereas the old logic established it with nothing authenticated (regression instance) -/
example : (outcomeC { Quirks.current with uncheckedDnsCounts := true } d13Cfg d13Env d13Conn).params
    = some ⟨false, .absent, .mismatch, .absent⟩ ∧ d13Region d13Cfg d13Conn = true := by decide
/-- hypotheses met non-trivially: the same listener accepts a certificate carrying the peer address -/
example : (outcomeC Quirks.current d13Cfg d13Env
      { d13Conn with cert := some ⟨some [.dns "evil.example.net", .ip [192, 0, 2, 1]]⟩ }).state = .established := by
  decide

/-! ## "Otherwise the endpoint terminates with contact-failure" -/

private theorem sess_hc (q : Quirks) (c : Cfg) (n : Conn) (hCert : q.noCertRaises = true → n.cert ≠ none) :
    (peerIdOf c n).certPresent = true ∨
      (q.noCertRaises = false ∧ (peerIdOf c n).ip = .absent ∧ (peerIdOf c n).dns = .absent ∧
        (peerIdOf c n).node = .absent) := by
  cases hcp : (peerIdOf c n).certPresent
  · right
    refine ⟨?_, peerIdOf_absent c n hcp⟩
    cases hq : q.noCertRaises
    · rfl
    · have := hCert hq
      rw [peerIdOf_certPresent] at hcp
      cases hc : n.cert
      · exact absurd hc this
      · rw [hc] at hcp; cases hcp
  · exact Or.inl rfl

private theorem sess_tls_notDelivered (q : Quirks) (c : Cfg) (e : Env) (p : PeerId)
    (hp : e.pipelined = true) (hq : q.carriesPlaintext = false) :
    sessDecision q c e p .proceedTls = .notDelivered := by
  simp [sessDecision, hp, hq]

/-- Under TLS, once the peer's SESS_INIT has been looked at, the endpoint either establishes or sends
    SESS_TERM(contact failure): it decides (statement for a quirk set). -/
def Decides (q : Quirks) : Prop :=
  ∀ (c : Cfg) (e : Env) (n : Conn),
    (outcomeC q c e n).isSecure = true → (outcomeC q c e n).sess.delivered = true →
    ((outcomeC q c e n).state = .established ∨
     ((outcomeC q c e n).state = .ending ∧ Msg.sessTerm contactFailure ∈ (outcomeC q c e n).secured))

private theorem decides_of (q : Quirks) (c : Cfg) (e : Env) (n : Conn)
    (hNative : q.callsNative = true → e.nativeMatch = true)
    (hCert : q.noCertRaises = true → n.cert ≠ none)
    (hsec : (outcomeC q c e n).isSecure = true) (hdel : (outcomeC q c e n).sess.delivered = true) :
    ((outcomeC q c e n).state = .established ∧
      authDecision q.uncheckedDnsCounts (peerIdOf c n).ip (peerIdOf c n).dns (peerIdOf c n).node
        (peerIdOf c n).dnsKnown c.requireHost c.requireNode = .establish ∧
      termReasonsOf ((outcomeC q c e n).clear ++ (outcomeC q c e n).secured) = []) ∨
    ((outcomeC q c e n).state = .ending ∧ Msg.sessTerm contactFailure ∈ (outcomeC q c e n).secured ∧
      authDecision q.uncheckedDnsCounts (peerIdOf c n).ip (peerIdOf c n).dns (peerIdOf c n).node
        (peerIdOf c n).dnsKnown c.requireHost c.requireNode = .termContactFailure ∧
      termReasonsOf ((outcomeC q c e n).clear ++ (outcomeC q c e n).secured) = [contactFailure]) := by
  unfold outcomeC at hsec hdel ⊢
  rw [outcome_eq] at hsec hdel ⊢
  have hct := (render_isSecure _ _ _ _ _).mp hsec
  rw [hct] at hdel ⊢
  have hp : e.pipelined = true → q.carriesPlaintext = true := by
    intro hpp
    cases hq : q.carriesPlaintext
    · rw [sess_tls_notDelivered q c e _ hpp hq] at hdel
      cases hdel
    · rfl
  obtain ⟨hE, hT⟩ := sessDecision_tls q c e (peerIdOf c n) hp hNative (sess_hc q c n hCert)
  rcases authDecision_cases q.uncheckedDnsCounts (peerIdOf c n).ip (peerIdOf c n).dns (peerIdOf c n).node
      (peerIdOf c n).dnsKnown c.requireHost c.requireNode with ha | ha
  · left
    rw [hE ha]
    refine ⟨rfl, ha, ?_⟩
    rcases c with ⟨pas, te, rt, rh, rn⟩
    cases pas <;> simp [render, termReasonsOf, Contact.isTls, Contact.proceeds, Contact.closedBeforeFlush,
      Sess.delivered, Sess.termOut]
  · right
    rw [hT ha]
    refine ⟨rfl, ?_, ha, ?_⟩
    · exact (render_sessTerm_secured c e _ _ _).mpr rfl
    · rcases c with ⟨pas, te, rt, rh, rn⟩
      cases pas <;> simp [render, termReasonsOf, Contact.isTls, Contact.proceeds, Contact.closedBeforeFlush,
        Sess.delivered, Sess.termOut, reasonContactFailure, contactFailure]

/-- **Otherwise the endpoint terminates with contact-failure**: under TLS, once the peer's SESS_INIT
    has been taken out of the receive buffer, the endpoint either establishes the session or sends
    SESS_TERM(contact failure) and is `ending` – every configuration, every certificate, also for a
    peer that presented no certificate at all. -/
theorem C15_decides : Decides Quirks.current := by
  intro c e n hsec hdel
  rcases decides_of Quirks.current c e n (fun h => by cases h) (fun h => by cases h) hsec hdel with h | h
  · exact Or.inl h.1
  · exact Or.inr ⟨h.1, h.2.1⟩

/-- Former D27 witness: connecting side, everything required, a certificate in which the address, the
    DNS name and the node ID all match – on an interpreter without `ssl.match_hostname`. -/
def d27Cfg : Cfg := ⟨false, true, some true, true, true⟩
def d27Env : Env := ⟨1, .ok, false, false⟩
def d27Conn : Conn := ⟨"peer.example.org", "192.0.2.1", [192, 0, 2, 1], "dtn://peer/",
  some ⟨some [.ip [192, 0, 2, 1], .dns "peer.example.org", .uri "dtn://peer/"]⟩⟩

/-- now established with all three identifiers authenticated, whatever the interpreter … -/
example : (outcomeC Quirks.current d27Cfg d27Env d27Conn).params = some ⟨true, .matched, .matched, .matched⟩ ∧
    (outcomeC Quirks.current d27Cfg d27Env d27Conn).escaped = [] := by decide
/-- … whereas the old code died with `AttributeError` (regression instance) -/
example : (outcomeC { Quirks.current with callsNative := true } d27Cfg d27Env d27Conn).escaped = [.attributeError] := by
  decide
/-- hypotheses of `C15_no_contradiction`, `C15_required_node_present_and_matches`,
    `C15_required_host_present_and_matches`, `C15_init_under_tls` are met by this peer -/
example : (outcomeC Quirks.current d27Cfg d27Env d27Conn).state = .established ∧
    (outcomeC Quirks.current d27Cfg d27Env d27Conn).isSecure = true ∧
    d27Conn.peerName ≠ "" ∧ d27Cfg.requireNode = true ∧ d27Cfg.requireHost = true := by decide
/-- the terminating branch of `C15_decides`: a certificate for another address -/
example : (outcomeC Quirks.current d27Cfg d27Env
      { d27Conn with cert := some ⟨some [.ip [192, 0, 2, 99], .dns "peer.example.org", .uri "dtn://peer/"]⟩ }).secured
    = [.sessInit, .sessTerm 4] := by decide
/-- peer without a certificate (`CERT_OPTIONAL`): every identifier absent – established when nothing is
    required, contact failure when something is; formerly `TypeError` (regression instance) -/
example :
    (outcomeC Quirks.current ⟨true, true, none, false, false⟩ ⟨1, .ok, false, false⟩
      ⟨"192.0.2.1", "192.0.2.1", [192, 0, 2, 1], "dtn://peer/", none⟩).state = .established ∧
    (outcomeC Quirks.current ⟨true, true, none, false, true⟩ ⟨1, .ok, false, false⟩
      ⟨"192.0.2.1", "192.0.2.1", [192, 0, 2, 1], "dtn://peer/", none⟩).secured = [.sessInit, .sessTerm 4] ∧
    (outcomeC { Quirks.current with noCertRaises := true } ⟨true, true, none, false, false⟩ ⟨1, .ok, false, false⟩
      ⟨"192.0.2.1", "192.0.2.1", [192, 0, 2, 1], "dtn://peer/", none⟩).escaped = [.typeError] := by decide

/-! ## The SESS_INIT itself must have arrived under TLS -/

def InitUnderTls (q : Quirks) : Prop :=
  ∀ (c : Cfg) (e : Env) (n : Conn),
    (outcomeC q c e n).state = .established → (outcomeC q c e n).isSecure = true →
    (outcomeC q c e n).initFromPlaintext = false

private theorem initUnderTls_of (q : Quirks) (c : Cfg) (e : Env) (n : Conn)
    (hPlain : q.carriesPlaintext = true → e.pipelined = false)
    (hst : (outcomeC q c e n).state = .established) (hsec : (outcomeC q c e n).isSecure = true) :
    (outcomeC q c e n).initFromPlaintext = false := by
  have hp := (established_tls q c e n hst hsec).2
  have : e.pipelined = false := by
    cases hpp : e.pipelined
    · rfl
    · have hf := hPlain (hp hpp)
      rw [hf] at hpp
      cases hpp
  unfold outcomeC
  rw [outcome_eq]
  simp [render, this]

/-- **An established TLS session rests on a SESS_INIT that arrived under TLS**: octets received in the
    clear ahead of the handshake (same read as the contact header) are never acted upon. -/
theorem C15_init_under_tls : InitUnderTls Quirks.current := by
  intro c e n hst hsec
  exact initUnderTls_of Quirks.current c e n (fun h => by cases h) hst hsec

/-- Former plaintext-injection witness: listening side with `require_tls`; contact header and SESS_INIT
    in one read, then a successful handshake. Now the early SESS_INIT is discarded (nothing is sent,
    the endpoint waits for one under TLS); formerly the session was established on it. -/
example :
    (outcomeC Quirks.current ⟨true, true, some true, false, false⟩ ⟨1, .ok, true, false⟩
      ⟨"192.0.2.1", "192.0.2.1", [192, 0, 2, 1], "dtn://peer/", some ⟨some [.ip [192, 0, 2, 1]]⟩⟩).state
      = .sessionNegotiating ∧
    (outcomeC Quirks.current ⟨true, true, some true, false, false⟩ ⟨1, .ok, true, false⟩
      ⟨"192.0.2.1", "192.0.2.1", [192, 0, 2, 1], "dtn://peer/", some ⟨some [.ip [192, 0, 2, 1]]⟩⟩).secured = [] ∧
    (outcomeC { Quirks.current with carriesPlaintext := true } ⟨true, true, some true, false, false⟩ ⟨1, .ok, true, false⟩
      ⟨"192.0.2.1", "192.0.2.1", [192, 0, 2, 1], "dtn://peer/", some ⟨some [.ip [192, 0, 2, 1]]⟩⟩).initFromPlaintext
      = true := by decide

/-! ## The contact stage decides; no exception leaves the receive callback -/

def ContactDecides (q : Quirks) : Prop :=
  ∀ (c : Cfg) (e : Env) (p : PeerId), (outcome q c e p).contact ≠ .wedged

/-- **The contact stage decides**: it ends in proceed-clear, proceed-TLS or close, for every handshake
    result (also an `OSError` that is not an `ssl.SSLError`). -/
theorem C15_contact_decides : ContactDecides Quirks.current := by
  intro c e p h
  rw [outcome_eq] at h
  have h' : ctOf Quirks.current c e = .wedged := h
  have := ((contactDecision_wedged_iff _ _ _ _ _).mp h').2.2.2.1
  cases this

/-- Former witness: connection reset during the handshake – now closed; formerly the exception left
    `recv_message` and the endpoint was neither closed nor reading. -/
example :
    (outcome Quirks.current ⟨false, true, none, false, false⟩ ⟨1, .osError, false, false⟩
      ⟨true, false, .matched, .absent, .absent⟩).contact = .close true ∧
    (outcome { Quirks.current with handshakeOsEscapes := true } ⟨false, true, none, false, false⟩
      ⟨1, .osError, false, false⟩ ⟨true, false, .matched, .absent, .absent⟩).escaped = [.osError] := by decide

/-- **No exception leaves the receive callback** during contact and session negotiation – every
    configuration, flags octet, handshake result, certificate (or none), pipelined or not. -/
theorem C15_no_escape (c : Cfg) (e : Env) (n : Conn) :
    (outcomeC Quirks.current c e n).escaped = [] := by
  unfold outcomeC
  rw [outcome_eq]
  generalize hct : ctOf Quirks.current c e = ct
  cases ct with
  | wedged =>
    have := ((contactDecision_wedged_iff _ _ _ _ _).mp hct).2.2.2.1
    cases this
  | proceedClear => simp [render, sessDecision, Contact.escapes, Sess.escapes]
  | close a => simp [render, sessDecision, Quirks.current, Contact.escapes, Sess.escapes]
  | proceedTls =>
    cases hpp : e.pipelined
    · obtain ⟨hE, hT⟩ := sessDecision_tls Quirks.current c e (peerIdOf c n)
        (fun h => by rw [hpp] at h; cases h) (fun h => by cases h)
        (sess_hc Quirks.current c n (fun h => by cases h))
      rcases authDecision_cases Quirks.current.uncheckedDnsCounts (peerIdOf c n).ip (peerIdOf c n).dns
          (peerIdOf c n).node (peerIdOf c n).dnsKnown c.requireHost c.requireNode with ha | ha
      · rw [hE ha]; simp [render, Contact.escapes, Sess.escapes]
      · rw [hT ha]; simp [render, Contact.escapes, Sess.escapes]
    · rw [sess_tls_notDelivered Quirks.current c e _ hpp rfl]
      simp [render, Contact.escapes, Sess.escapes]

/-- failed handshake: closed, nothing escapes; SESS_INIT pipelined behind a policy failure: closed,
    never handled (formerly `AttributeError` after close – regression instance) -/
example :
    (outcomeC Quirks.current d27Cfg { d27Env with handshake := .sslError } d27Conn).contact = .close true ∧
    (outcomeC Quirks.current ⟨true, true, some true, false, false⟩ ⟨0, .ok, true, false⟩ d27Conn).sess = .notDelivered ∧
    (outcomeC { Quirks.current with handlesAfterClose := true } ⟨true, true, some true, false, false⟩
      ⟨0, .ok, true, false⟩ d27Conn).escaped = [.attributeError] := by decide

/-! ## The whole property against the independent specification -/

private theorem termReasons_mem (c : Cfg) (e : Env) (p : PeerId) (ct : Contact) (ss : Sess) (r : Nat)
    (h : r ∈ termReasonsOf ((render c e p ct ss).clear ++ (render c e p ct ss).secured)) :
    ct = .proceedTls ∧ ss = .terminated r := by
  rcases c with ⟨pas, te, rt, rh, rn⟩
  cases pas <;> rcases ct with _ | _ | (_ | _) | _ <;> cases ss <;>
    simp_all [render, termReasonsOf, Contact.isTls, Contact.proceeds, Contact.closedBeforeFlush,
      Sess.delivered, Sess.termOut]

/-- `C15spec.Policy` for any quirk set, outside the regions its (former) quirks open. -/
private theorem policy_of (q : Quirks) (c : Cfg) (e : Env) (n : Conn) (hname : n.peerName ≠ "")
    (hD13 : q.uncheckedDnsCounts = true → d13Region c n = false)
    (hPlain : q.carriesPlaintext = true → e.pipelined = false)
    (hNative : q.callsNative = true → e.nativeMatch = true)
    (hCert : q.noCertRaises = true → n.cert ≠ none) :
    Policy (situation c e n) (observe (outcomeC q c e n)) := by
  have hen : (situation c e n).enable = (c.tlsEnable && (e.peerFlags % 2 == 1)) := rfl
  have hmemC : (observe (outcomeC q c e n)).initInClear = true ↔ Msg.sessInit ∈ (outcomeC q c e n).clear := by
    simp [observe]
  have hmemS : (observe (outcomeC q c e n)).initSecured = true ↔ Msg.sessInit ∈ (outcomeC q c e n).secured := by
    simp [observe]
  have hest : (observe (outcomeC q c e n)).established = true ↔ (outcomeC q c e n).state = .established := by
    simp [observe]
  have hpol := C15_no_init_before_policy q c e (peerIdOf c n)
  refine
    { attempt_iff := ?_, proceeds_ok := ?_, init_clear := ?_, init_secured := ?_, require_never_clear := ?_,
      forbid_never_secured := ?_, tls_established := ?_, tls_otherwise := ?_, tls_accepts := ?_, term_reason := ?_ }
  · -- attempted exactly when both offer
    show (outcome q c e (peerIdOf c n)).attempted = true ↔ _
    rw [C15_attempt_iff_both, hen]
    show _ ↔ (_ ∧ Acceptable c.requireTls _)
    rcases hr : c.requireTls with _ | _ | _ <;> cases c.tlsEnable <;>
      rcases Nat.mod_two_eq_zero_or_one e.peerFlags with h2 | h2 <;> simp [Acceptable, h2]
  · intro h
    have hh : Msg.sessInit ∈ (outcome q c e (peerIdOf c n)).clear ∨ Msg.sessInit ∈ (outcome q c e (peerIdOf c n)).secured ∨
        (outcome q c e (peerIdOf c n)).state = .established ∨ (outcome q c e (peerIdOf c n)).state = .ending := by
      rcases h with h | h | h
      · exact Or.inl (hmemC.mp h)
      · exact Or.inr (Or.inl (hmemS.mp h))
      · exact Or.inr (Or.inr (Or.inl (hest.mp h)))
    obtain ⟨h1, h2, _, _, _⟩ := hpol hh
    refine ⟨?_, ?_⟩
    · intro r hr
      rw [hen, ← h1]
      exact h2 r hr
    · rw [hen]; exact h1
  · intro h
    obtain ⟨h1, _, h3, _, _⟩ := hpol (Or.inl (hmemC.mp h))
    rw [hen, ← h1]
    exact h3 (hmemC.mp h)
  · intro h
    have hm := hmemS.mp h
    obtain ⟨h1, _, _, h4, _⟩ := hpol (Or.inr (Or.inl hm))
    refine ⟨?_, ?_⟩
    · rw [hen, ← h1]
      have hm' := hm
      unfold outcomeC at hm'
      rw [outcome_eq] at hm'
      have := render_sessInit_secured _ _ _ _ _ hm'
      show (outcome q c e (peerIdOf c n)).isSecure = true
      rw [outcome_eq]
      exact (render_isSecure _ _ _ _ _).mpr this
    · show (e.handshake == Handshake.ok) = true
      rw [h4 hm]; rfl
  · intro hr
    obtain ⟨h1, _, h3⟩ := C15_require_never_clear q c e (peerIdOf c n) hr
    refine ⟨?_, ?_⟩
    · cases hc : (observe (outcomeC q c e n)).initInClear
      · rfl
      · exact absurd (hmemC.mp hc) h1
    · intro he
      exact h3 (hest.mp he)
  · intro hr
    obtain ⟨h1, h2, h3⟩ := C15_forbid_never_tls q c e (peerIdOf c n) hr
    refine ⟨h2, ?_, h1⟩
    cases hc : (observe (outcomeC q c e n)).initSecured
    · rfl
    · have := hmemS.mp hc
      unfold outcomeC at this
      rw [h3] at this
      cases this
  · intro he hs
    have hst := hest.mp he
    have hsec : (outcomeC q c e n).isSecure = true := hs
    refine ⟨?_, initUnderTls_of q c e n hPlain hst hsec⟩
    exact (auth_iff q c e n hname hD13).mp (established_tls q c e n hst hsec).1
  · intro hs hd hna
    have hsec : (outcomeC q c e n).isSecure = true := hs
    have hdel : (outcomeC q c e n).sess.delivered = true := hd
    rcases decides_of q c e n hNative hCert hsec hdel with ⟨_, ha, _⟩ | ⟨hst, _, _, htr⟩
    · exact absurd ((auth_iff q c e n hname hD13).mp ha) hna
    · refine ⟨?_, htr⟩
      cases he : (observe (outcomeC q c e n)).established
      · rfl
      · have := hest.mp he
        rw [hst] at this
        cases this
  · intro hs hd ha
    have hsec : (outcomeC q c e n).isSecure = true := hs
    have hdel : (outcomeC q c e n).sess.delivered = true := hd
    rcases decides_of q c e n hNative hCert hsec hdel with ⟨hst, _, htr⟩ | ⟨_, _, hterm, _⟩
    · exact ⟨hest.mpr hst, htr⟩
    · have := (auth_iff q c e n hname hD13).mpr ha
      rw [this] at hterm
      cases hterm
  · intro r hr
    have hr' : r ∈ termReasonsOf ((outcomeC q c e n).clear ++ (outcomeC q c e n).secured) := hr
    unfold outcomeC at hr'
    rw [outcome_eq] at hr'
    obtain ⟨hct, hss⟩ := termReasons_mem _ _ _ _ _ _ hr'
    exact (sessDecision_terminated q c e _ _ r hss).2

/-- **C15 at full strength against the independent specification `C15spec.Policy`**: every
    configuration (side, `tls_enable`, `require_tls`, `require_host_authn`, `require_node_authn`), every
    flags octet of the peer, every handshake result, SESS_INIT pipelined or not, every certificate
    (arbitrary SAN list, no SAN extension, no certificate), every peer address / name / node ID.
    (`peerName ≠ ""`: an empty host name cannot be a DNS-ID reference.) -/
theorem C15_policy (c : Cfg) (e : Env) (n : Conn) (hname : n.peerName ≠ "") :
    Policy (situation c e n) (observe (outcomeC Quirks.current c e n)) :=
  policy_of Quirks.current c e n hname (fun h => by cases h) (fun h => by cases h) (fun h => by cases h)
    (fun h => by cases h)

/-- non-vacuity: a TLS session with a many-entry certificate is established and reported … -/
example : (observe (outcomeC Quirks.current ⟨false, true, some true, true, true⟩ ⟨0x01, .ok, false, true⟩
    ⟨"peer.example.org", "2001:db8::1", [0x20, 0x01, 0x0d, 0xb8, 0, 0, 0, 0, 0, 0, 0, 0, 0, 0, 0, 1], "dtn://peer/",
     some ⟨some [.other, .dns "x.example", .uri "dtn://peer/", .ip [192, 0, 2, 9],
                 .ip [0x20, 0x01, 0x0d, 0xb8, 0, 0, 0, 0, 0, 0, 0, 0, 0, 0, 0, 1], .dns "peer.example.org"]⟩⟩)).established
    = true := by decide
/-- … and one whose URI does not match is turned away with reason 4 -/
example : (observe (outcomeC Quirks.current ⟨true, true, none, false, false⟩ ⟨0x01, .ok, false, true⟩
    ⟨"192.0.2.1", "192.0.2.1", [192, 0, 2, 1], "dtn://peer/",
     some ⟨some [.ip [192, 0, 2, 1], .uri "dtn://other/"]⟩⟩)).termReasons = [4] := by decide

/-! ## The configured requirement comes from a configuration file -/

/-- **Every policy option written in the configuration file is the option in force** – whatever its
    value (`false` and `null` included); an option that is not in the file has its documented default. -/
theorem C15_config_file_honoured (passive : Bool) (f : CfgFile) :
    (∀ v, f.tlsEnable = some v → (loadFile passive f).tlsEnable = v) ∧
    (∀ v, f.requireTls = some v → (loadFile passive f).requireTls = v) ∧
    (∀ v, f.requireHost = some v → (loadFile passive f).requireHost = v) ∧
    (∀ v, f.requireNode = some v → (loadFile passive f).requireNode = v) ∧
    (f.tlsEnable = none → (loadFile passive f).tlsEnable = true) ∧
    (f.requireTls = none → (loadFile passive f).requireTls = none) ∧
    (f.requireHost = none → (loadFile passive f).requireHost = false) ∧
    (f.requireNode = none → (loadFile passive f).requireNode = false) ∧
    (loadFile passive f).passive = passive := by
  refine ⟨?_, ?_, ?_, ?_, ?_, ?_, ?_, ?_, rfl⟩ <;> intro h <;> (try intro h') <;> simp_all [loadFile] <;> rfl

example : loadFile true ⟨some false, some (some false), none, some true⟩ = ⟨true, false, some false, false, true⟩ := by
  decide

/-- **A node whose configuration file forbids TLS (`require_tls: false`) never proceeds secured.** -/
theorem C15_file_forbid_never_tls (passive : Bool) (f : CfgFile) (e : Env) (p : PeerId)
    (h : f.requireTls = some (some false)) :
    (outcome Quirks.current (loadFile passive f) e p).attempted = false ∧
    (outcome Quirks.current (loadFile passive f) e p).isSecure = false ∧
    (outcome Quirks.current (loadFile passive f) e p).secured = [] :=
  C15_forbid_never_tls Quirks.current (loadFile passive f) e p ((C15_config_file_honoured passive f).2.1 _ h)

/-- **A node whose configuration file requires TLS (`require_tls: true`) never proceeds in the clear.** -/
theorem C15_file_require_never_clear (passive : Bool) (f : CfgFile) (e : Env) (p : PeerId)
    (h : f.requireTls = some (some true)) :
    Msg.sessInit ∉ (outcome Quirks.current (loadFile passive f) e p).clear ∧
    (outcome Quirks.current (loadFile passive f) e p).contact ≠ .proceedClear ∧
    ((outcome Quirks.current (loadFile passive f) e p).state = .established →
      (outcome Quirks.current (loadFile passive f) e p).isSecure = true) :=
  C15_require_never_clear Quirks.current (loadFile passive f) e p ((C15_config_file_honoured passive f).2.1 _ h)

/-- **A node whose configuration file disables TLS (`tls_enable: false`) does not offer it and never
    starts a handshake.** -/
theorem C15_file_tls_disabled_never_tls (passive : Bool) (f : CfgFile) (e : Env) (p : PeerId)
    (h : f.tlsEnable = some false) :
    (outcome Quirks.current (loadFile passive f) e p).attempted = false ∧
    (outcome Quirks.current (loadFile passive f) e p).isSecure = false ∧
    Msg.contact true ∉ (outcome Quirks.current (loadFile passive f) e p).clear := by
  have ht : (loadFile passive f).tlsEnable = false := (C15_config_file_honoured passive f).1 _ h
  have hatt : (outcome Quirks.current (loadFile passive f) e p).attempted = false := by
    cases ha : (outcome Quirks.current (loadFile passive f) e p).attempted
    · rfl
    · have := ((C15_attempt_iff_both _ _ _ _).mp ha).1
      rw [ht] at this
      cases this
  refine ⟨hatt, ?_, ?_⟩
  · cases hs : (outcome Quirks.current (loadFile passive f) e p).isSecure
    · rfl
    · rw [outcome_eq] at hs
      have hc := (render_isSecure _ _ _ _ _).mp hs
      have := ((contactDecision_proceedTls_iff _ _ _ _ _).mp hc).1
      rw [ht] at this
      cases this
  · rw [outcome_eq]
    generalize ctOf Quirks.current (loadFile passive f) e = ct
    generalize sessDecision Quirks.current (loadFile passive f) e p ct = ss
    generalize hc : loadFile passive f = c at ht
    rcases c with ⟨pas, te, rt, rh, rn⟩
    simp only at ht
    subst ht
    cases pas <;> rcases ct with _ | _ | (_ | _) | _ <;> cases ss <;>
      simp [render, Contact.isTls, Contact.proceeds, Contact.closedBeforeFlush, Sess.delivered]

example : (outcome Quirks.current (loadFile false ⟨none, some (some false), none, none⟩) ⟨1, .ok, false, false⟩
    ⟨true, true, .matched, .matched, .matched⟩).closed = true := by decide
example : (outcome Quirks.current (loadFile true ⟨some false, none, none, none⟩) ⟨1, .ok, false, false⟩
    ⟨true, false, .matched, .absent, .matched⟩).clear = [.contact false, .sessInit] := by decide

end Props
end DtnVerif
