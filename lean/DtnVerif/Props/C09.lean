/-
  C09 — TCPCL termination is graceful, complete and always finishes.
  Safety (one SESS_TERM each, reply flag, nothing started after it, unstarted transfers reported, no
  half-open session, closed is final, nothing silently dropped), the agent over several contacts
  (`stop()` closes every contact, `shutdown()` reaches every contact and stops only when all have
  closed) and "always finishes" as deadlock freedom: `C09_no_deadlock_partial` — in every reachable
  state of the two-endpoint system in which no internal event is enabled any more and termination was
  requested, both endpoints have closed (keepalive-free runs; with keepalives the armed timers are what
  is left enabled, see C14). The bound on the number of steps is `C09_bounded_steps`: every enabled
  internal event strictly lowers the variant `Var.mu` (Lemmas/TcpclVariant*.lean), so from any reachable
  state at most `Var.mu s` internal events happen before nothing is enabled any more, and then
  `C09_stuck_closed` applies; `C09_always_finishes` puts the two together.
-/
import DtnVerif.Lemmas.TcpclSys
import DtnVerif.Lemmas.TcpclKInv
import DtnVerif.Lemmas.TcpclWake
import DtnVerif.Lemmas.TcpclAgent
import DtnVerif.Lemmas.TcpclQuietSys
import DtnVerif.Lemmas.TcpclVariantSys
import DtnVerif.Lemmas.TcpclKaSys
namespace DtnVerif
namespace Tcpcl

theorem C09_facts :
    Facts.enum_tcpcl_SessionTerm_Flag_REPLY = 1
    ∧ (Facts.binds.filter (fun b => b.2.1 == "SessionTerm")).map (fun b => b.2.2.2) = [(tSessTerm : Int)] := by
  decide

def isTerm : Msg → Bool
  | .sessTerm .. => true
  | _ => false

private theorem legalRun_term_count (s s' : LState) (ms : List Msg) (h : legalRun s ms = some s') :
    (ms.filter isTerm).length + (if s.termSeen then 1 else 0) ≤ 1 := by
  induction ms generalizing s with
  | nil => simp; split <;> omega
  | cons m ms ih =>
    simp only [legalRun] at h
    cases hs : legalStep s m with
    | none => rw [hs] at h; simp at h
    | some s1 =>
      rw [hs] at h
      have ih' := ih s1 h
      cases m with
      | sessTerm f r =>
        simp only [legalStep] at hs
        split at hs
        · rename_i hc
          simp at hc
          injection hs with hs; subst hs
          simp only [List.filter_cons, isTerm, if_true, List.length_cons, hc.2]
          simp at ih'
          simp; omega
        · simp at hs
      | contact f =>
        simp only [legalStep] at hs
        split at hs
        · injection hs with hs; subst hs; simpa [List.filter_cons, isTerm] using ih'
        · simp at hs
      | sessInit a b c d x =>
        simp only [legalStep] at hs
        split at hs
        · injection hs with hs; subst hs; simpa [List.filter_cons, isTerm] using ih'
        · simp at hs
      | keepalive | msgReject _ _ | xferAck _ _ _ | xferRefuse _ _ =>
        simp only [legalStep] at hs
        split at hs
        · injection hs with hs; subst hs; simpa [List.filter_cons, isTerm] using ih'
        · simp at hs
      | xferSegment fl tid ext data =>
        have hts : s1.termSeen = s.termSeen := by
          simp only [legalStep] at hs
          repeat' split at hs
          all_goals (first | (simp at hs; done) | (injection hs with hs; subst hs; rfl))
        rw [hts] at ih'
        simpa [List.filter_cons, isTerm] using ih'

/-- **Exactly-at-most-one SESS_TERM per side, and no new transfer after it**, for every schedule of the
    two-endpoint system (either or both sides requesting termination at any moment): both facts are part
    of sequence legality (`Legal`), so they follow from C04. -/
theorem C09_one_term_each (cfgA cfgB : Cfg) (sch : List SysEv)
    (a1 : 0 < cfgA.segInit) (a2 : cfgA.privExt = false) (a3 : 0 < cfgA.segMru)
    (b1 : 0 < cfgB.segInit) (b2 : cfgB.privExt = false) (b3 : 0 < cfgB.segMru)
    (hwf : ∀ pre, pre <+: sch → SysWF (runSys (initSys cfgA cfgB) pre))
    (hs : ∀ ev ∈ sch, ev.sendOK) :
    ((runSys (initSys cfgA cfgB) sch).a.emitted.filter isTerm).length ≤ 1
    ∧ ((runSys (initSys cfgA cfgB) sch).b.emitted.filter isTerm).length ≤ 1 := by
  have hi := sysInv_run sch _ (sysInv_init cfgA cfgB a1 a2 a3 b1 b2 b3) hwf hs
  obtain ⟨La, ha⟩ := Option.isSome_iff_exists.mp (emitted_legal hi.ia)
  obtain ⟨Lb, hb⟩ := Option.isSome_iff_exists.mp (emitted_legal hi.ib)
  have := legalRun_term_count {} La _ ha
  have := legalRun_term_count {} Lb _ hb
  simp at *
  omega

/-- The responder's SESS_TERM is marked as reply and echoes the reason; a locally requested one is not. -/
theorem C09_reply_flag (e : Ep) (m : Msg) (reason : Nat) (hs : e.inSess = true) (ht : e.inTerm = false) :
    (onSessTerm e m reason).1.emitted = e.emitted ++ [.sessTerm 1 reason]
    ∧ (sendSessTerm e reason false).1.emitted = e.emitted ++ [.sessTerm 0 reason] := by
  constructor
  · unfold onSessTerm
    simp only [hs, ht, Bool.not_true, Bool.false_eq_true, if_false, Bool.not_false, if_true]
    have h1 : (sendSessTerm e reason true).1.emitted = e.emitted ++ [.sessTerm 1 reason] := by
      unfold sendSessTerm
      simp only [hs, ht, Bool.not_true, Bool.false_eq_true, if_false]
      simp only [flushPendStart, sendMessage, sendReady, kaReset, idleReset, setState]
      split <;> simp
    have h2 : ∀ e1 : Ep, (checkSessTerm (flushPendStart { e1 with gotTerm := true }).1).1.emitted = e1.emitted := by
      intro e1
      have := congrArg PumpView.emitted (pv_checkSessTerm (flushPendStart { e1 with gotTerm := true }).1)
      simp only [Ep.pumpView] at this
      rw [this]; rfl
    rw [h2, h1]
  · unfold sendSessTerm
    simp only [hs, ht, Bool.not_true, Bool.false_eq_true, if_false]
    simp only [flushPendStart, sendMessage, sendReady, kaReset, idleReset, setState]
    split <;> simp

/-- when both sides have requested termination, a received SESS_TERM is *not* answered by a second one -/
theorem C09_no_second_term (e : Ep) (m : Msg) (reason : Nat) (hs : e.inSess = true) (ht : e.inTerm = true) :
    (onSessTerm e m reason).1.emitted = e.emitted := by
  unfold onSessTerm
  split
  · rename_i h; simp [hs] at h
  · simp only []
    have hif : (if (!e.inTerm) = true then sendSessTerm e reason true else (e, [])) = (e, []) := by simp [ht]
    rw [hif]
    have := congrArg PumpView.emitted (pv_checkSessTerm (flushPendStart { e with gotTerm := true }).1)
    simp only [Ep.pumpView] at this
    rw [this]; rfl

/-- **Bundles queued but not started are reported, not silently lost**: whenever SESS_TERM is sent
    (requested locally, as a reply, or by the idle timer) or the connection closes, every not-yet-started
    transfer gets exactly one `send_bundle_finished` with a non-success result and leaves the send queue. -/
theorem C09_unstarted_reported (e : Ep) :
    (flushPendStart e).1.txPendStart = []
    ∧ (flushPendStart e).2 = e.txPendStart.map (fun it =>
        Out.sig "send_bundle_finished" [.str (natStr it.tid), .nat 0, .str "session terminating"])
    ∧ (∀ it ∈ e.txPendStart, (flushPendStart e).1.txMap.contains it.tid = false) := by
  refine ⟨rfl, rfl, ?_⟩
  intro it hit
  simp only [flushPendStart, List.contains_eq_mem, List.mem_filter, decide_eq_false_iff_not, not_and,
    Bool.not_eq_true', Bool.not_eq_false, List.any_eq_true]
  intro _
  exact ⟨it, hit, by simp⟩

theorem C09_term_flushes (e : Ep) (r : Nat) (b : Bool) (hs : e.inSess = true) (ht : e.inTerm = false) :
    (sendSessTerm e r b).1.txPendStart = [] ∧ (sendSessTerm e r b).1.inTerm = true := by
  unfold sendSessTerm
  simp only [hs, ht, Bool.not_true, Bool.false_eq_true, if_false]
  simp only [flushPendStart, sendMessage, sendReady, kaReset, idleReset, setState]
  split <;> simp

/-- **No session is left half-open**: a user close or the peer's disconnect closes the endpoint at any
    point of any execution and cancels its timers … -/
theorem C09_no_half_open (e : Ep) (hc : e.closed = false) :
    (step e .close).1.closed = true ∧ (step e .rxEof).1.closed = true
    ∧ (step e .close).1.kaDeadline = none ∧ (step e .close).1.idleDeadline = none
    ∧ (step e .rxEof).1.kaDeadline = none ∧ (step e .rxEof).1.idleDeadline = none := by
  have hd : (doClose e).1.kaDeadline = none ∧ (doClose e).1.idleDeadline = none := by
    unfold doClose; simp [hc]
  have h1 : (step e .close).1 = (doClose e).1 := by unfold step; simp [hc]
  have h2 : (step e .rxEof).1 = (doClose e).1 := by unfold step; simp [hc]
  rw [h1, h2]
  exact ⟨closed_doClose e, closed_doClose e, hd.1, hd.2, hd.1, hd.2⟩

/-- … and a closed endpoint stays closed and never emits again, whatever happens. -/
theorem C09_closed_is_final (e : Ep) (ev : Ev) (hc : e.closed = true) :
    (step e ev).1.closed = true ∧ (step e ev).1.emitted = e.emitted := by
  refine ⟨closed_step_mono e ev hc, ?_⟩
  unfold step
  cases ev <;> simp only [hc, if_true] <;> (try rfl)
  · rename_i t; unfold popRx; split <;> rfl

/-- **Nothing is dispatched after the message which closed the connection**: the messages which
    follow it in the same read are not handed to `recv_message` — they are neither recorded as processed
    nor answered (the `recv_raw` loop stops when the socket is gone). -/
theorem C09_no_dispatch_after_close (e : Ep) (m : Msg) (ms : List Msg) (hc : e.closed = false)
    (hm : (handleMsg { e with rxMore := !ms.isEmpty || e.rx.dead } m).1.closed = true) :
    handleMsgs e (m :: ms) = handleMsg { e with rxMore := !ms.isEmpty || e.rx.dead } m := by
  have h2 : ∀ (x : Ep), x.closed = true → handleMsgs x ms = (x, []) := by
    intro x hx
    cases ms with
    | nil => rfl
    | cons m' ms' => simp [handleMsgs, hx]
  unfold handleMsgs
  rw [if_neg (by simp [hc])]
  simp only []
  rw [h2 _ hm]
  simp

/-- **No transfer is silently dropped once its final segment is out**: at every point of every
    execution (termination requested or not, any peer), each transfer whose END segment the endpoint has
    emitted is still awaiting its final acknowledgement, or has been reported `success`, or was refused
    by the peer — it never just disappears from the bookkeeping. -/
theorem C09_sent_accounted (cfg : Cfg) (evs : List Ev) :
    ∀ f t x d, Msg.xferSegment f t x d ∈ (runEp { cfg := cfg } evs).emitted → hasEnd f = true →
      t ∈ (runEp { cfg := cfg } evs).txPendAck ∨ t ∈ (runEp { cfg := cfg } evs).successLog
        ∨ Refused t (runEp { cfg := cfg } evs).processed := by
  intro f t x d hm he
  exact kInv_run evs _ (kInv_init cfg) _ hm he

/-- **Termination cannot strand a transfer in progress**: requesting termination keeps the wake-up
    invariant — a transfer being segmented still has an idle source pending or octets to pump, so its
    remaining segments go out (`processQueue` continues an active transfer before it looks at the
    terminating flag). -/
theorem C09_terminate_keeps_progress (e : Ep) (r : Nat) (hi : WakeInv e) :
    WakeInv (step e (.terminate r)).1 ∧ (step e (.terminate r)).1.txTmp = e.txTmp := by
  constructor
  · unfold step
    simp only []
    split
    · exact hi
    · exact wake_sendSessTerm e r false hi
  · unfold step
    simp only []
    split
    · rfl
    · unfold sendSessTerm
      split
      · rfl
      · split
        · rfl
        · simp only [flushPendStart, sendMessage, sendReady, kaReset, idleReset, setState]
          split <;> rfl



/-! ### always finishes: no deadlock while terminating -/

/-- nothing more can happen in the two-endpoint system without a user action or a timer: nothing in
    flight, no idle source for `_process_queue` and no TX source at either endpoint, and a closed
    endpoint's end-of-stream has been delivered to its peer -/
structure Quiescent (s : Sys) : Prop where
  toA : s.toA = []
  toB : s.toB = []
  pqA : s.a.pqSources = 0
  pqB : s.b.pqSources = 0
  txA : s.a.txSrc = 0
  txB : s.b.txSrc = 0
  eofB : s.a.closed = true → s.b.closed = true
  eofA : s.b.closed = true → s.a.closed = true

/-- **Termination always finishes (no deadlock).** Take any schedule of the two-endpoint system — any
    user calls on both sides including `terminate()` by either or both at any moment, any chunking and
    delay of the two octet streams, any partial or blocked writes — and suppose it has reached a state
    in which no internal event is enabled any more (`Quiescent`) and at least one side has requested or
    answered termination. Then both endpoints have closed the connection: the session cannot be left
    half-open or waiting for something that will never come. Stated for keepalive-free runs (no
    KEEPALIVE was ever sent): with keepalives enabled the keepalive timers stay armed while the
    connection is open, so such a state is not quiescent in the first place; that case is covered by
    the idle/keepalive timer theorems of C14 and by the implementation-side monitor. -/
theorem C09_no_deadlock_partial (cfgA cfgB : Cfg) (sch : List SysEv)
    (a1 : 0 < cfgA.segInit) (a2 : cfgA.privExt = false) (a3 : 0 < cfgA.segMru)
    (b1 : 0 < cfgB.segInit) (b2 : cfgB.privExt = false) (b3 : 0 < cfgB.segMru)
    (hwf : ∀ pre, pre <+: sch → SysWF (runSys (initSys cfgA cfgB) pre))
    (hs : ∀ ev ∈ sch, ev.sendOK) :
    let s := runSys (initSys cfgA cfgB) sch
    Quiescent s → (s.a.inTerm = true ∨ s.b.inTerm = true) →
    (∀ m ∈ s.a.emitted, m ≠ .keepalive) → (∀ m ∈ s.b.emitted, m ≠ .keepalive) →
    s.a.closed = true ∧ s.b.closed = true := by
  intro s hq hterm nokaA nokaB
  obtain ⟨ha, hb⟩ := epAll_reachable cfgA cfgB sch a1 a2 a3 b1 b2 b3 hwf hs
  have hi : SysInv s := sysInv_run sch _ (sysInv_init cfgA cfgB a1 a2 a3 b1 b2 b3) hwf hs
  have hw : SysWF s := hwf sch (List.prefix_refl _)
  by_cases hao' : s.a.closed = true
  · exact ⟨hao', hq.eofB hao'⟩
  have hao : s.a.closed = false := by simpa using hao'
  have hbo : s.b.closed = false := by
    cases hb' : s.b.closed
    · rfl
    · have := hq.eofA hb'; rw [hao] at this; cases this
  -- both still open: everything emitted has been processed by the other side
  exfalso
  obtain ⟨pAB, rB⟩ := quiet_wire s.a s.b s.toB ha hb hw.1 hi.wireB hq.toB hao hbo hq.txA
  obtain ⟨pBA, rA⟩ := quiet_wire s.b s.a s.toA hb ha hw.2 hi.wireA hq.toA hbo hao hq.txB
  rcases hterm with ht | ht
  · obtain ⟨gb, tb⟩ := term_reaches s.a s.b ha hb pAB ht
    obtain ⟨ga, _⟩ := term_reaches s.b s.a hb ha pBA tb
    have := quiet_not_open s.a s.b ha hb pAB pBA rA hw.2 hbo hq.pqA hq.txA hq.pqB hq.txB ht ga tb nokaB
    rw [hao] at this; cases this
  · obtain ⟨ga, ta⟩ := term_reaches s.b s.a hb ha pBA ht
    obtain ⟨gb, _⟩ := term_reaches s.a s.b ha hb pAB ta
    have := quiet_not_open s.b s.a hb ha pBA pAB rB hw.1 hao hq.pqB hq.txB hq.pqA hq.txA ht gb ta nokaA
    rw [hbo] at this; cases this

/-! non-vacuity: a run which meets every hypothesis of `C09_no_deadlock_partial` -/
namespace ExampleTerm
open Example in
/-- the C01 example (hand-shake cut across reads, one bundle in two segments), then A asks to terminate,
    B answers, both write their SESS_TERM out and the leftover idle sources fire -/
def sched : List SysEv := Example.sched ++ [.atA .procQueue, .atA (.terminate 0), .atA (.pump 10240), .atA (.pump 10240),
  .deliverB 100, .atB (.pump 10240), .atB (.pump 10240), .deliverA 100, .atA .procQueue, .atB .procQueue]

example : (List.range (sched.length + 1)).all
    (fun k => decide (SysWF (runSys (initSys Example.cfgA Example.cfgB) (sched.take k)))) = true := by decide +kernel

example : let s := runSys (initSys Example.cfgA Example.cfgB) sched
    s.toA = [] ∧ s.toB = [] ∧ s.a.pqSources = 0 ∧ s.b.pqSources = 0 ∧ s.a.txSrc = 0 ∧ s.b.txSrc = 0
    ∧ s.a.inTerm = true ∧ (s.a.emitted ++ s.b.emitted).all (fun m => m != .keepalive) = true
    ∧ s.a.closed = true ∧ s.b.closed = true ∧ s.a.successLog = [1] := by decide +kernel

/-- one event earlier A is still open, waiting for B's SESS_TERM which is in flight: not quiescent -/
example : let s := runSys (initSys Example.cfgA Example.cfgB) (sched.take (sched.length - 3))
    s.a.closed = false ∧ s.b.closed = true ∧ s.toA ≠ [] := by decide +kernel
end ExampleTerm

/-- **Transfers in progress complete and are acknowledged.** In every reachable state of the two-endpoint
    system: once an endpoint has nothing left awaiting its final acknowledgement — which is the case
    whenever it closes gracefully (`C09_no_half_open`: it closes only when idle) — every transfer
    whose final segment it ever emitted has been reported `success`, the peer has completely received
    exactly that bundle, and it is the bundle the user queued under that id. Between faithful endpoints
    no transfer is ever refused, so nothing "in progress" can end any other way. -/
theorem C09_in_progress_complete (cfgA cfgB : Cfg) (sch : List SysEv)
    (a1 : 0 < cfgA.segInit) (a2 : cfgA.privExt = false) (a3 : 0 < cfgA.segMru)
    (b1 : 0 < cfgB.segInit) (b2 : cfgB.privExt = false) (b3 : 0 < cfgB.segMru)
    (hwf : ∀ pre, pre <+: sch → SysWF (runSys (initSys cfgA cfgB) pre))
    (hs : ∀ ev ∈ sch, ev.sendOK) :
    let s := runSys (initSys cfgA cfgB) sch
    (s.a.txPendAck = [] → ∀ f t x d, Msg.xferSegment f t x d ∈ s.a.emitted → hasEnd f = true →
        t ∈ s.a.successLog ∧ ∃ d', (t, d') ∈ s.b.rxLog ∧ (⟨t, d'⟩ : TxItem) ∈ s.a.sendLog)
    ∧ (s.b.txPendAck = [] → ∀ f t x d, Msg.xferSegment f t x d ∈ s.b.emitted → hasEnd f = true →
        t ∈ s.b.successLog ∧ ∃ d', (t, d') ∈ s.a.rxLog ∧ (⟨t, d'⟩ : TxItem) ∈ s.b.sendLog) := by
  intro s
  have hi : SysInv s := sysInv_run sch _ (sysInv_init cfgA cfgB a1 a2 a3 b1 b2 b3) hwf hs
  have hw : SysWF s := hwf sch (List.prefix_refl _)
  obtain ⟨tB, tA⟩ := transport s hi hw
  obtain ⟨ka, kb⟩ := sys_lift_init KInv kInv_step kInv_init cfgA cfgB sch
  obtain ⟨sa, sb⟩ := C01_success_after_receipt cfgA cfgB sch a1 a2 a3 b1 b2 b3 hwf hs
  have one : ∀ (w r : Ep), KInv w → EpInv r → w.processed <+: r.emitted → w.txPendAck = [] →
      ∀ f t x d, Msg.xferSegment f t x d ∈ w.emitted → hasEnd f = true → t ∈ w.successLog := by
    intro w r hk hr hpre hpa f t x d hm he
    have := hk _ hm
    simp only [kOK] at this
    rcases this he with h | h | ⟨rr, hrr⟩
    · rw [hpa] at h; cases h
    · exact h
    · -- a faithful peer never emits XFER_REFUSE
      have := hr.emit _ (hpre.subset hrr)
      simp [emitOK] at this
  constructor
  · intro hpa f t x d hm he
    have hsu := one s.a s.b ka hi.ib tA hpa f t x d hm he
    exact ⟨hsu, sa t hsu⟩
  · intro hpa f t x d hm he
    have hsu := one s.b s.a kb hi.ia tB hpa f t x d hm he
    exact ⟨hsu, sb t hsu⟩

/-! ### always finishes: a bound on the number of steps -/

theorem runSys_append (s : Sys) (l1 l2 : List SysEv) : runSys s (l1 ++ l2) = runSys (runSys s l1) l2 := by
  simp [runSys, List.foldl_append]

/-- **Bounded number of steps.** After any schedule `sch` (user calls, timers, deliveries, anything),
    let only internal events happen — `_process_queue` idle sources firing, TX callbacks in which the
    socket takes at least one octet, deliveries of octets in flight, end-of-stream — each enabled when
    it happens (`Var.EnabledRun`). Such a continuation is never longer than the variant `Var.mu` of
    the state it starts from, and every one of its events lowers the variant by at least one. No user
    action and no timer is needed for that; the only internal steps not counted are a TX callback which
    the socket refuses (`pump 0`) and the busy-waiting idle source of an endpoint whose session is not
    established yet — neither changes anything but the `pqPend`/`txIdle` bookkeeping flags.
    (One side has to be the active one: two passive endpoints never send anything.) -/
theorem C09_bounded_steps (cfgA cfgB : Cfg) (sch int : List SysEv)
    (a1 : 0 < cfgA.segInit) (a2 : cfgA.privExt = false) (a3 : 0 < cfgA.segMru)
    (b1 : 0 < cfgB.segInit) (b2 : cfgB.privExt = false) (b3 : 0 < cfgB.segMru)
    (hpas : ¬ (cfgA.passive = true ∧ cfgB.passive = true))
    (hwf : ∀ pre, pre <+: sch ++ int → SysWF (runSys (initSys cfgA cfgB) pre))
    (hs : ∀ ev ∈ sch, ev.sendOK)
    (hen : Var.EnabledRun (runSys (initSys cfgA cfgB) sch) int) :
    int.length + Var.mu (runSys (initSys cfgA cfgB) (sch ++ int)) ≤ Var.mu (runSys (initSys cfgA cfgB) sch) := by
  have hi : SysInv (runSys (initSys cfgA cfgB) sch) :=
    sysInv_run sch _ (sysInv_init cfgA cfgB a1 a2 a3 b1 b2 b3)
      (fun pre hpre => hwf pre (List.IsPrefix.trans hpre (List.prefix_append _ _))) hs
  rw [runSys_append]
  refine Var.bounded_run int _ hi ?_ ?_ hen
  · intro pre hpre
    rw [← runSys_append]
    exact hwf _ (by
      obtain ⟨t, ht⟩ := hpre
      exact ⟨t, by rw [← ht, List.append_assoc]⟩)
  · obtain ⟨c1, c2⟩ := Var.cfg_runSys sch (initSys cfgA cfgB)
    obtain ⟨d1, d2⟩ := Var.cfg_initSys cfgA cfgB
    rw [c1, c2, d1, d2]; exact hpas

/-- **When nothing internal is enabled any more, a session in termination is closed on both sides.**
    `C09_no_deadlock_partial` with the quiescence premise replaced by `Var.Stuck` (no event of
    `Var.Enabled` can happen), which is what a run counted by `C09_bounded_steps` ends in. -/
theorem C09_stuck_closed (cfgA cfgB : Cfg) (sch : List SysEv)
    (a1 : 0 < cfgA.segInit) (a2 : cfgA.privExt = false) (a3 : 0 < cfgA.segMru)
    (b1 : 0 < cfgB.segInit) (b2 : cfgB.privExt = false) (b3 : 0 < cfgB.segMru)
    (hwf : ∀ pre, pre <+: sch → SysWF (runSys (initSys cfgA cfgB) pre))
    (hs : ∀ ev ∈ sch, ev.sendOK) :
    let s := runSys (initSys cfgA cfgB) sch
    Var.Stuck s → (s.a.inTerm = true ∨ s.b.inTerm = true) →
    (∀ m ∈ s.a.emitted, m ≠ .keepalive) → (∀ m ∈ s.b.emitted, m ≠ .keepalive) →
    s.a.closed = true ∧ s.b.closed = true := by
  intro s hst hterm nokaA nokaB
  obtain ⟨ha, hb⟩ := epAll_reachable cfgA cfgB sch a1 a2 a3 b1 b2 b3 hwf hs
  have hi : SysInv s := sysInv_run sch _ (sysInv_init cfgA cfgB a1 a2 a3 b1 b2 b3) hwf hs
  have hw : SysWF s := hwf sch (List.prefix_refl _)
  -- what being stuck means, event by event
  have sPumpA : s.a.closed = true ∨ s.a.txSrc = 0 := by
    have := hst (.atA (.pump 1))
    simp only [Var.Enabled] at this
    cases hc : s.a.closed
    · right
      cases hn : s.a.txSrc with
      | zero => rfl
      | succ k => exact absurd ⟨Nat.le_refl 1, hc, by omega⟩ this
    · left; rfl
  have sPumpB : s.b.closed = true ∨ s.b.txSrc = 0 := by
    have := hst (.atB (.pump 1))
    simp only [Var.Enabled] at this
    cases hc : s.b.closed
    · right
      cases hn : s.b.txSrc with
      | zero => rfl
      | succ k => exact absurd ⟨Nat.le_refl 1, hc, by omega⟩ this
    · left; rfl
  have sDelB : s.b.closed = true ∨ s.toB = [] := by
    have := hst (.deliverB s.toB.length)
    simp only [Var.Enabled, List.take_length] at this
    cases hc : s.b.closed
    · right
      cases hp : s.toB with
      | nil => rfl
      | cons x xs => exact absurd ⟨hc, by rw [hp]; simp⟩ this
    · left; rfl
  have sDelA : s.a.closed = true ∨ s.toA = [] := by
    have := hst (.deliverA s.toA.length)
    simp only [Var.Enabled, List.take_length] at this
    cases hc : s.a.closed
    · right
      cases hp : s.toA with
      | nil => rfl
      | cons x xs => exact absurd ⟨hc, by rw [hp]; simp⟩ this
    · left; rfl
  have sEofB : s.a.closed = true → s.b.closed = true := by
    intro hac
    cases hc : s.b.closed
    · have hp : s.toB = [] := by
        rcases sDelB with h | h
        · rw [hc] at h; cases h
        · exact h
      exact absurd ⟨hac, hp, hc⟩ (hst .eofB)
    · rfl
  have sEofA : s.b.closed = true → s.a.closed = true := by
    intro hbc
    cases hc : s.a.closed
    · have hp : s.toA = [] := by
        rcases sDelA with h | h
        · rw [hc] at h; cases h
        · exact h
      exact absurd ⟨hbc, hp, hc⟩ (hst .eofA)
    · rfl
  by_cases hao' : s.a.closed = true
  · exact ⟨hao', sEofB hao'⟩
  have hao : s.a.closed = false := by simpa using hao'
  have hbo : s.b.closed = false := by
    cases hb' : s.b.closed
    · rfl
    · have := sEofA hb'; rw [hao] at this; cases this
  exfalso
  have txA : s.a.txSrc = 0 := by rcases sPumpA with h | h; (rw [hao] at h; cases h); exact h
  have txB : s.b.txSrc = 0 := by rcases sPumpB with h | h; (rw [hbo] at h; cases h); exact h
  have pB : s.toB = [] := by rcases sDelB with h | h; (rw [hbo] at h; cases h); exact h
  have pA : s.toA = [] := by rcases sDelA with h | h; (rw [hao] at h; cases h); exact h
  obtain ⟨pAB, rB⟩ := quiet_wire s.a s.b s.toB ha hb hw.1 hi.wireB pB hao hbo txA
  obtain ⟨pBA, rA⟩ := quiet_wire s.b s.a s.toA hb ha hw.2 hi.wireA pA hbo hao txB
  -- an endpoint in termination is in a session, so its idle source is not busy-waiting
  have pqOf : ∀ e : Ep, EpAll e → e.inTerm = true → (¬ (0 < e.pqSources ∧ (e.closed = true ∨ e.inSess = true ∨ e.txTmp ≠ none))) →
      e.pqSources = 0 := by
    intro e he ht hne
    obtain ⟨P, hP⟩ := he.inv.tx
    have hsess : e.inSess = true := hP.term ht
    cases hn : e.pqSources with
    | zero => rfl
    | succ k => exact absurd ⟨by omega, Or.inr (Or.inl hsess)⟩ hne
  have hqa := hst (.atA .procQueue)
  have hqb := hst (.atB .procQueue)
  simp only [Var.Enabled] at hqa hqb
  rcases hterm with ht | ht
  · obtain ⟨gb, tb⟩ := term_reaches s.a s.b ha hb pAB ht
    obtain ⟨ga, _⟩ := term_reaches s.b s.a hb ha pBA tb
    have := quiet_not_open s.a s.b ha hb pAB pBA rA hw.2 hbo (pqOf _ ha ht hqa) txA (pqOf _ hb tb hqb) txB ht ga tb nokaB
    rw [hao] at this; cases this
  · obtain ⟨ga, ta⟩ := term_reaches s.b s.a hb ha pBA ht
    obtain ⟨gb, _⟩ := term_reaches s.a s.b ha hb pAB ta
    have := quiet_not_open s.b s.a hb ha pBA pAB rB hw.1 hao (pqOf _ hb ht hqb) txB (pqOf _ ha ta hqa) txA ht gb ta nokaA
    rw [hbo] at this; cases this

/-- **Termination always finishes, within a bounded number of steps and without further user action.**
    Whatever happened before (`sch`: any calls, timers, chunking, on both sides), once termination has
    been requested or answered by either side and only internal events happen from then on (`int`),
    there are at most `Var.mu` of them, and when none is enabled any more both endpoints have closed
    the connection. (Keepalive-free runs, as for `C09_no_deadlock_partial`.) -/
theorem C09_always_finishes (cfgA cfgB : Cfg) (sch int : List SysEv)
    (a1 : 0 < cfgA.segInit) (a2 : cfgA.privExt = false) (a3 : 0 < cfgA.segMru)
    (b1 : 0 < cfgB.segInit) (b2 : cfgB.privExt = false) (b3 : 0 < cfgB.segMru)
    (hpas : ¬ (cfgA.passive = true ∧ cfgB.passive = true))
    (hwf : ∀ pre, pre <+: sch ++ int → SysWF (runSys (initSys cfgA cfgB) pre))
    (hs : ∀ ev ∈ sch, ev.sendOK)
    (hen : Var.EnabledRun (runSys (initSys cfgA cfgB) sch) int) :
    let s0 := runSys (initSys cfgA cfgB) sch
    let s := runSys (initSys cfgA cfgB) (sch ++ int)
    int.length ≤ Var.mu s0
    ∧ (Var.Stuck s → (s.a.inTerm = true ∨ s.b.inTerm = true) →
        (∀ m ∈ s.a.emitted, m ≠ .keepalive) → (∀ m ∈ s.b.emitted, m ≠ .keepalive) →
        s.a.closed = true ∧ s.b.closed = true) := by
  intro s0 s
  refine ⟨?_, ?_⟩
  · have := C09_bounded_steps cfgA cfgB sch int a1 a2 a3 b1 b2 b3 hpas hwf hs hen
    show int.length ≤ Var.mu (runSys (initSys cfgA cfgB) sch)
    omega
  · have hs' : ∀ ev ∈ sch ++ int, ev.sendOK := by
      intro ev hev
      rcases List.mem_append.mp hev with h | h
      · exact hs ev h
      · exact Var.enabledRun_sendOK _ _ hen ev h
    exact C09_stuck_closed cfgA cfgB (sch ++ int) a1 a2 a3 b1 b2 b3 hwf hs'

/-- when either side is configured without keepalive (`keepalive_time = 0`, the default) the negotiated
    interval is zero and neither endpoint ever sends a KEEPALIVE -/
theorem C09_no_keepalive_sent (cfgA cfgB : Cfg) (sch : List SysEv)
    (a1 : 0 < cfgA.segInit) (a2 : cfgA.privExt = false) (a3 : 0 < cfgA.segMru)
    (b1 : 0 < cfgB.segInit) (b2 : cfgB.privExt = false) (b3 : 0 < cfgB.segMru)
    (hwf : ∀ pre, pre <+: sch → SysWF (runSys (initSys cfgA cfgB) pre))
    (hs : ∀ ev ∈ sch, ev.sendOK) (hk : cfgA.keepalive = 0 ∨ cfgB.keepalive = 0) :
    let s := runSys (initSys cfgA cfgB) sch
    (∀ m ∈ s.a.emitted, m ≠ .keepalive) ∧ (∀ m ∈ s.b.emitted, m ≠ .keepalive) := by
  intro s
  obtain ⟨ka, kb⟩ := sysKa_run sch cfgA cfgB a1 a2 a3 b1 b2 b3 hwf hs
  obtain ⟨c1, c2⟩ := Var.cfg_runSys sch (initSys cfgA cfgB)
  obtain ⟨d1, d2⟩ := Var.cfg_initSys cfgA cfgB
  have ca : s.a.cfg = cfgA := c1.trans d1
  have cb : s.b.cfg = cfgB := c2.trans d2
  constructor
  · intro m hm heq
    subst heq
    have : 0 < s.a.cfg.keepalive ∧ 0 < s.b.cfg.keepalive := ka _ hm
    rw [ca, cb] at this
    omega
  · intro m hm heq
    subst heq
    have : 0 < s.b.cfg.keepalive ∧ 0 < s.a.cfg.keepalive := kb _ hm
    rw [ca, cb] at this
    omega

/-- **`C09_always_finishes` whenever keepalives are off** (`keepalive_time = 0` on either side — zero
    is the default), with no premise about the run left: after any schedule, once termination has
    been requested or answered by either side, at most `Var.mu` internal events happen, and when none
    is enabled any more both endpoints have closed the connection. -/
theorem C09_always_finishes_default (cfgA cfgB : Cfg) (sch int : List SysEv)
    (a1 : 0 < cfgA.segInit) (a2 : cfgA.privExt = false) (a3 : 0 < cfgA.segMru)
    (b1 : 0 < cfgB.segInit) (b2 : cfgB.privExt = false) (b3 : 0 < cfgB.segMru)
    (hpas : ¬ (cfgA.passive = true ∧ cfgB.passive = true))
    (hk : cfgA.keepalive = 0 ∨ cfgB.keepalive = 0)
    (hwf : ∀ pre, pre <+: sch ++ int → SysWF (runSys (initSys cfgA cfgB) pre))
    (hs : ∀ ev ∈ sch, ev.sendOK)
    (hen : Var.EnabledRun (runSys (initSys cfgA cfgB) sch) int) :
    let s0 := runSys (initSys cfgA cfgB) sch
    let s := runSys (initSys cfgA cfgB) (sch ++ int)
    int.length ≤ Var.mu s0
    ∧ (Var.Stuck s → (s.a.inTerm = true ∨ s.b.inTerm = true) → s.a.closed = true ∧ s.b.closed = true) := by
  intro s0 s
  obtain ⟨h1, h2⟩ := C09_always_finishes cfgA cfgB sch int a1 a2 a3 b1 b2 b3 hpas hwf hs hen
  refine ⟨h1, ?_⟩
  intro hst hterm
  have hs' : ∀ ev ∈ sch ++ int, ev.sendOK := by
    intro ev hev
    rcases List.mem_append.mp hev with h | h
    · exact hs ev h
    · exact Var.enabledRun_sendOK _ _ hen ev h
  obtain ⟨na, nb⟩ := C09_no_keepalive_sent cfgA cfgB (sch ++ int) a1 a2 a3 b1 b2 b3 hwf hs' hk
  exact h2 hst hterm na nb

/-! non-vacuity of `C09_always_finishes`: A asks to terminate in the middle of a transfer (2 of 3 octets
    segmented) while B has a bundle queued and not started; 23 enabled internal events later nothing is
    enabled, both sides are closed, A's transfer was delivered and acknowledged, and the variant went
    from 1832 to 0 -/
namespace ExampleBound
def sch : List SysEv := Example.sched.take 13 ++ [.atB (.send [7, 7, 7, 7, 7]), .atA (.terminate 0)]
def int : List SysEv :=
  [.atA (.pump 10240), .atA (.pump 10240), .atA (.pump 10240), .atA (.pump 10240), .atA (.pump 10240),
   .atB (.pump 10240), .atB (.pump 10240), .atB (.pump 10240), .deliverB 100,
   .atB (.pump 10240), .atB (.pump 10240), .atB (.pump 10240), .deliverA 100, .atA .procQueue,
   .atA (.pump 10240), .atA (.pump 10240), .atA (.pump 10240), .deliverB 100,
   .atB (.pump 10240), .atB (.pump 10240), .deliverA 100, .atA .procQueue, .atB .procQueue]

example : (List.range ((sch ++ int).length + 1)).all
    (fun k => decide (SysWF (runSys (initSys Example.cfgA Example.cfgB) ((sch ++ int).take k)))) = true := by decide +kernel

example : let s0 := runSys (initSys Example.cfgA Example.cfgB) sch
    s0.a.txTmp = some (⟨1, [1, 2, 3]⟩, 2) ∧ s0.a.inTerm = true ∧ s0.b.txPendStart = [⟨1, [7, 7, 7, 7, 7]⟩]
    ∧ Var.mu s0 = 1832 ∧ Var.EnabledRun s0 int := by decide +kernel

example : let s := runSys (initSys Example.cfgA Example.cfgB) (sch ++ int)
    s.a.closed = true ∧ s.b.closed = true ∧ Var.mu s = 0 ∧ s.a.successLog = [1] ∧ s.b.rxLog = [(1, [1, 2, 3])]
    ∧ s.b.txPendStart = [] ∧ s.a.txPendAck = [] ∧ s.b.txPendAck = []
    ∧ (s.a.emitted ++ s.b.emitted).all (fun m => m != .keepalive) = true
    ∧ (Var.cands.all fun ev => !decide (Var.Enabled s ev)) = true := by decide +kernel
/-- the example's configurations are the keepalive-free, one-active-one-passive kind of `C09_always_finishes_default` -/
example : Example.cfgA.keepalive = 0 ∧ Example.cfgB.keepalive = 0
    ∧ ¬ (Example.cfgA.passive = true ∧ Example.cfgB.passive = true) := by decide
end ExampleBound

/-! ### the agent over several contacts (tcpcl/agent.py) -/

/-- **`Agent.stop()` leaves no session half-open**: every contact is closed and unbound, whatever the
    number of contacts and whatever state each is in. -/
theorem C09_agent_stop_closes_all (a : TcpclAgent.Agent) : (TcpclAgent.stop a).1.handlers = [] :=
  TcpclAgent.stop_closes_all a

/-- **`Agent.shutdown()` reaches every contact**: along any history of the agent (contacts bound,
    established, terminating on their own, closing, earlier shutdown requests), after `shutdown()` every
    contact which is still open has sent its SESS_TERM; the contacts it closed instead had no session to
    end (so no transfer could be in progress); and it answers `True` exactly when nothing is left. -/
theorem C09_agent_shutdown_complete (stopOnClose : Bool) (ops : List TcpclAgent.Op) :
    let a := (TcpclAgent.run { stopOnClose := stopOnClose } ops).1
    (∀ x ∈ (TcpclAgent.shutdown a).1.handlers, x.inTerm = true)
    ∧ (∀ id, TcpclAgent.AOut.closed id ∈ (TcpclAgent.shutdown a).2 → ∃ y ∈ a.handlers, y.id = id ∧ y.inSess = false)
    ∧ TcpclAgent.AOut.ret ((TcpclAgent.shutdown a).1.handlers.isEmpty) ∈ (TcpclAgent.shutdown a).2 := by
  intro a
  have hnd : (TcpclAgent.ids a).Nodup := TcpclAgent.run_nodup ops _ (by simp [TcpclAgent.ids])
  exact ⟨TcpclAgent.shutdown_all_terminating a hnd, TcpclAgent.shutdown_closes_only_sessionless a,
    TcpclAgent.shutdown_ret a⟩

/-- **The agent stops only when every contact has closed**: the `on_stop` callback is reached from a
    closing contact only if that was the last one and a shutdown was requested (or `stop_on_close` is
    configured), and from `shutdown()` only when no contact is left. -/
theorem C09_agent_stops_when_empty (a : TcpclAgent.Agent) (id : Nat) :
    (TcpclAgent.AOut.stopped ∈ (TcpclAgent.contactClosed a id).2 →
        (TcpclAgent.contactClosed a id).1.handlers = [] ∧ (a.inShutdown = true ∨ a.stopOnClose = true))
    ∧ (TcpclAgent.AOut.stopped ∈ (TcpclAgent.shutdown a).2 → (TcpclAgent.shutdown a).1.handlers = []) :=
  ⟨TcpclAgent.contactClosed_stopped a id, TcpclAgent.shutdown_stopped a⟩

/-- three contacts — one still negotiating, one established, one already terminating — then `shutdown()`:
    the first is closed, the second gets its SESS_TERM, the third is left alone, and the agent waits -/
example : (TcpclAgent.run {} [.bind 0, .bind 1, .bind 2, .establish 1, .establish 2, .contactTerm 2, .shutdown]).2.getLast?
    = some [.closed 0, .sessTerm 1, .ret false] := by decide

end Tcpcl
end DtnVerif
