/-
  C09 — TCPCL termination is graceful, complete and always finishes.
  Safety (one SESS_TERM each, reply flag, nothing started after it, unstarted transfers reported, no
  half-open session, closed is final, nothing silently dropped), the agent over several contacts
  (`stop()` closes every contact, `shutdown()` reaches every contact and stops only when all have
  closed) and "always finishes" as deadlock freedom: `C09_no_deadlock_partial` — in every reachable
  state of the two-endpoint system in which no internal event is enabled any more and termination was
  requested, both endpoints have closed (keepalive-free runs; with keepalives the armed timers are what
  is left enabled, see C14). A bound on the number of steps is not proved; the implementation-side
  monitor runs every generated schedule to quiescence within a fixed event budget.
-/
import DtnVerif.Lemmas.TcpclSys
import DtnVerif.Lemmas.TcpclKInv
import DtnVerif.Lemmas.TcpclWake
import DtnVerif.Lemmas.TcpclAgent
import DtnVerif.Lemmas.TcpclQuietSys
namespace DtnVerif
namespace Tcpcl

theorem C09_facts :
    Facts.enum_tcpcl_SessionTerm_Flag_REPLY = 1
    ∧ (Facts.binds.filter (fun b => b.2.1 == "SessionTerm")).map (fun b => b.2.2.2) = [(tSessTerm : Int)] := by
  decide

def isTerm : Msg → Bool
  | .sessTerm .. => true
  | _ => false

private theorem legalRun_term_count (s s' : LState) (ms : List Msg) (h : legalRun s ms = some s') :
    (ms.filter isTerm).length + (if s.termSeen then 1 else 0) ≤ 1 := by
  induction ms generalizing s with
  | nil => simp; split <;> omega
  | cons m ms ih =>
    simp only [legalRun] at h
    cases hs : legalStep s m with
    | none => rw [hs] at h; simp at h
    | some s1 =>
      rw [hs] at h
      have ih' := ih s1 h
      cases m with
      | sessTerm f r =>
        simp only [legalStep] at hs
        split at hs
        · rename_i hc
          simp at hc
          injection hs with hs; subst hs
          simp only [List.filter_cons, isTerm, if_true, List.length_cons, hc.2]
          simp at ih'
          simp; omega
        · simp at hs
      | contact f =>
        simp only [legalStep] at hs
        split at hs
        · injection hs with hs; subst hs; simpa [List.filter_cons, isTerm] using ih'
        · simp at hs
      | sessInit a b c d x =>
        simp only [legalStep] at hs
        split at hs
        · injection hs with hs; subst hs; simpa [List.filter_cons, isTerm] using ih'
        · simp at hs
      | keepalive | msgReject _ _ | xferAck _ _ _ | xferRefuse _ _ =>
        simp only [legalStep] at hs
        split at hs
        · injection hs with hs; subst hs; simpa [List.filter_cons, isTerm] using ih'
        · simp at hs
      | xferSegment fl tid ext data =>
        have hts : s1.termSeen = s.termSeen := by
          simp only [legalStep] at hs
          repeat' split at hs
          all_goals (first | (simp at hs; done) | (injection hs with hs; subst hs; rfl))
        rw [hts] at ih'
        simpa [List.filter_cons, isTerm] using ih'

/-- **Exactly-at-most-one SESS_TERM per side, and no new transfer after it**, for every schedule of the
    two-endpoint system (either or both sides requesting termination at any moment): both facts are part
    of sequence legality (`Legal`), so they follow from C04. -/
theorem C09_one_term_each (cfgA cfgB : Cfg) (sch : List SysEv)
    (a1 : 0 < cfgA.segInit) (a2 : cfgA.privExt = false) (a3 : 0 < cfgA.segMru)
    (b1 : 0 < cfgB.segInit) (b2 : cfgB.privExt = false) (b3 : 0 < cfgB.segMru)
    (hwf : ∀ pre, pre <+: sch → SysWF (runSys (initSys cfgA cfgB) pre))
    (hs : ∀ ev ∈ sch, ev.sendOK) :
    ((runSys (initSys cfgA cfgB) sch).a.emitted.filter isTerm).length ≤ 1
    ∧ ((runSys (initSys cfgA cfgB) sch).b.emitted.filter isTerm).length ≤ 1 := by
  have hi := sysInv_run sch _ (sysInv_init cfgA cfgB a1 a2 a3 b1 b2 b3) hwf hs
  obtain ⟨La, ha⟩ := Option.isSome_iff_exists.mp (emitted_legal hi.ia)
  obtain ⟨Lb, hb⟩ := Option.isSome_iff_exists.mp (emitted_legal hi.ib)
  have := legalRun_term_count {} La _ ha
  have := legalRun_term_count {} Lb _ hb
  simp at *
  omega

/-- The responder's SESS_TERM is marked as reply and echoes the reason; a locally requested one is not. -/
theorem C09_reply_flag (e : Ep) (m : Msg) (reason : Nat) (hs : e.inSess = true) (ht : e.inTerm = false) :
    (onSessTerm e m reason).1.emitted = e.emitted ++ [.sessTerm 1 reason]
    ∧ (sendSessTerm e reason false).1.emitted = e.emitted ++ [.sessTerm 0 reason] := by
  constructor
  · unfold onSessTerm
    simp only [hs, ht, Bool.not_true, Bool.false_eq_true, if_false, Bool.not_false, if_true]
    have h1 : (sendSessTerm e reason true).1.emitted = e.emitted ++ [.sessTerm 1 reason] := by
      unfold sendSessTerm
      simp only [hs, ht, Bool.not_true, Bool.false_eq_true, if_false]
      simp only [flushPendStart, sendMessage, sendReady, kaReset, idleReset, setState]
      split <;> simp
    have h2 : ∀ e1 : Ep, (checkSessTerm (flushPendStart { e1 with gotTerm := true }).1).1.emitted = e1.emitted := by
      intro e1
      have := congrArg PumpView.emitted (pv_checkSessTerm (flushPendStart { e1 with gotTerm := true }).1)
      simp only [Ep.pumpView] at this
      rw [this]; rfl
    rw [h2, h1]
  · unfold sendSessTerm
    simp only [hs, ht, Bool.not_true, Bool.false_eq_true, if_false]
    simp only [flushPendStart, sendMessage, sendReady, kaReset, idleReset, setState]
    split <;> simp

/-- when both sides have requested termination, a received SESS_TERM is *not* answered by a second one -/
theorem C09_no_second_term (e : Ep) (m : Msg) (reason : Nat) (hs : e.inSess = true) (ht : e.inTerm = true) :
    (onSessTerm e m reason).1.emitted = e.emitted := by
  unfold onSessTerm
  split
  · rename_i h; simp [hs] at h
  · simp only []
    have hif : (if (!e.inTerm) = true then sendSessTerm e reason true else (e, [])) = (e, []) := by simp [ht]
    rw [hif]
    have := congrArg PumpView.emitted (pv_checkSessTerm (flushPendStart { e with gotTerm := true }).1)
    simp only [Ep.pumpView] at this
    rw [this]; rfl

/-- **Bundles queued but not started are reported, not silently lost**: whenever SESS_TERM is sent
    (requested locally, as a reply, or by the idle timer) or the connection closes, every not-yet-started
    transfer gets exactly one `send_bundle_finished` with a non-success result and leaves the send queue. -/
theorem C09_unstarted_reported (e : Ep) :
    (flushPendStart e).1.txPendStart = []
    ∧ (flushPendStart e).2 = e.txPendStart.map (fun it =>
        Out.sig "send_bundle_finished" [.str (natStr it.tid), .nat 0, .str "session terminating"])
    ∧ (∀ it ∈ e.txPendStart, (flushPendStart e).1.txMap.contains it.tid = false) := by
  refine ⟨rfl, rfl, ?_⟩
  intro it hit
  simp only [flushPendStart, List.contains_eq_mem, List.mem_filter, decide_eq_false_iff_not, not_and,
    Bool.not_eq_true', Bool.not_eq_false, List.any_eq_true]
  intro _
  exact ⟨it, hit, by simp⟩

theorem C09_term_flushes (e : Ep) (r : Nat) (b : Bool) (hs : e.inSess = true) (ht : e.inTerm = false) :
    (sendSessTerm e r b).1.txPendStart = [] ∧ (sendSessTerm e r b).1.inTerm = true := by
  unfold sendSessTerm
  simp only [hs, ht, Bool.not_true, Bool.false_eq_true, if_false]
  simp only [flushPendStart, sendMessage, sendReady, kaReset, idleReset, setState]
  split <;> simp

/-- **No session is left half-open**: a user close or the peer's disconnect closes the endpoint at any
    point of any execution and cancels its timers … -/
theorem C09_no_half_open (e : Ep) (hc : e.closed = false) :
    (step e .close).1.closed = true ∧ (step e .rxEof).1.closed = true
    ∧ (step e .close).1.kaDeadline = none ∧ (step e .close).1.idleDeadline = none
    ∧ (step e .rxEof).1.kaDeadline = none ∧ (step e .rxEof).1.idleDeadline = none := by
  have hd : (doClose e).1.kaDeadline = none ∧ (doClose e).1.idleDeadline = none := by
    unfold doClose; simp [hc]
  have h1 : (step e .close).1 = (doClose e).1 := by unfold step; simp [hc]
  have h2 : (step e .rxEof).1 = (doClose e).1 := by unfold step; simp [hc]
  rw [h1, h2]
  exact ⟨closed_doClose e, closed_doClose e, hd.1, hd.2, hd.1, hd.2⟩

/-- … and a closed endpoint stays closed and never emits again, whatever happens. -/
theorem C09_closed_is_final (e : Ep) (ev : Ev) (hc : e.closed = true) :
    (step e ev).1.closed = true ∧ (step e ev).1.emitted = e.emitted := by
  refine ⟨closed_step_mono e ev hc, ?_⟩
  unfold step
  cases ev <;> simp only [hc, if_true] <;> (try rfl)
  · rename_i t; unfold popRx; split <;> rfl

/-- **Nothing is dispatched after the message which closed the connection**: the messages which
    follow it in the same read are not handed to `recv_message` — they are neither recorded as processed
    nor answered (the `recv_raw` loop stops when the socket is gone). -/
theorem C09_no_dispatch_after_close (e : Ep) (m : Msg) (ms : List Msg) (hc : e.closed = false)
    (hm : (handleMsg { e with rxMore := !ms.isEmpty || e.rx.dead } m).1.closed = true) :
    handleMsgs e (m :: ms) = handleMsg { e with rxMore := !ms.isEmpty || e.rx.dead } m := by
  have h2 : ∀ (x : Ep), x.closed = true → handleMsgs x ms = (x, []) := by
    intro x hx
    cases ms with
    | nil => rfl
    | cons m' ms' => simp [handleMsgs, hx]
  unfold handleMsgs
  rw [if_neg (by simp [hc])]
  simp only []
  rw [h2 _ hm]
  simp

/-- **No transfer is silently dropped once its final segment is out**: at every point of every
    execution (termination requested or not, any peer), each transfer whose END segment the endpoint has
    emitted is still awaiting its final acknowledgement, or has been reported `success`, or was refused
    by the peer — it never just disappears from the bookkeeping. -/
theorem C09_sent_accounted (cfg : Cfg) (evs : List Ev) :
    ∀ f t x d, Msg.xferSegment f t x d ∈ (runEp { cfg := cfg } evs).emitted → hasEnd f = true →
      t ∈ (runEp { cfg := cfg } evs).txPendAck ∨ t ∈ (runEp { cfg := cfg } evs).successLog
        ∨ Refused t (runEp { cfg := cfg } evs).processed := by
  intro f t x d hm he
  exact kInv_run evs _ (kInv_init cfg) _ hm he

/-- **Termination cannot strand a transfer in progress**: requesting termination keeps the wake-up
    invariant — a transfer being segmented still has an idle source pending or octets to pump, so its
    remaining segments go out (`processQueue` continues an active transfer before it looks at the
    terminating flag). -/
theorem C09_terminate_keeps_progress (e : Ep) (r : Nat) (hi : WakeInv e) :
    WakeInv (step e (.terminate r)).1 ∧ (step e (.terminate r)).1.txTmp = e.txTmp := by
  constructor
  · unfold step
    simp only []
    split
    · exact hi
    · exact wake_sendSessTerm e r false hi
  · unfold step
    simp only []
    split
    · rfl
    · unfold sendSessTerm
      split
      · rfl
      · split
        · rfl
        · simp only [flushPendStart, sendMessage, sendReady, kaReset, idleReset, setState]
          split <;> rfl



/-! ### always finishes: no deadlock while terminating -/

/-- nothing more can happen in the two-endpoint system without a user action or a timer: nothing in
    flight, no idle source for `_process_queue` and no TX source at either endpoint, and a closed
    endpoint's end-of-stream has been delivered to its peer -/
structure Quiescent (s : Sys) : Prop where
  toA : s.toA = []
  toB : s.toB = []
  pqA : s.a.pqSources = 0
  pqB : s.b.pqSources = 0
  txA : s.a.txSrc = 0
  txB : s.b.txSrc = 0
  eofB : s.a.closed = true → s.b.closed = true
  eofA : s.b.closed = true → s.a.closed = true

/-- **Termination always finishes (no deadlock).** Take any schedule of the two-endpoint system — any
    user calls on both sides including `terminate()` by either or both at any moment, any chunking and
    delay of the two octet streams, any partial or blocked writes — and suppose it has reached a state
    in which no internal event is enabled any more (`Quiescent`) and at least one side has requested or
    answered termination. Then both endpoints have closed the connection: the session cannot be left
    half-open or waiting for something that will never come. Stated for keepalive-free runs (no
    KEEPALIVE was ever sent): with keepalives enabled the keepalive timers stay armed while the
    connection is open, so such a state is not quiescent in the first place; that case is covered by
    the idle/keepalive timer theorems of C14 and by the implementation-side monitor. -/
theorem C09_no_deadlock_partial (cfgA cfgB : Cfg) (sch : List SysEv)
    (a1 : 0 < cfgA.segInit) (a2 : cfgA.privExt = false) (a3 : 0 < cfgA.segMru)
    (b1 : 0 < cfgB.segInit) (b2 : cfgB.privExt = false) (b3 : 0 < cfgB.segMru)
    (hwf : ∀ pre, pre <+: sch → SysWF (runSys (initSys cfgA cfgB) pre))
    (hs : ∀ ev ∈ sch, ev.sendOK) :
    let s := runSys (initSys cfgA cfgB) sch
    Quiescent s → (s.a.inTerm = true ∨ s.b.inTerm = true) →
    (∀ m ∈ s.a.emitted, m ≠ .keepalive) → (∀ m ∈ s.b.emitted, m ≠ .keepalive) →
    s.a.closed = true ∧ s.b.closed = true := by
  intro s hq hterm nokaA nokaB
  obtain ⟨ha, hb⟩ := epAll_reachable cfgA cfgB sch a1 a2 a3 b1 b2 b3 hwf hs
  have hi : SysInv s := sysInv_run sch _ (sysInv_init cfgA cfgB a1 a2 a3 b1 b2 b3) hwf hs
  have hw : SysWF s := hwf sch (List.prefix_refl _)
  by_cases hao' : s.a.closed = true
  · exact ⟨hao', hq.eofB hao'⟩
  have hao : s.a.closed = false := by simpa using hao'
  have hbo : s.b.closed = false := by
    cases hb' : s.b.closed
    · rfl
    · have := hq.eofA hb'; rw [hao] at this; cases this
  -- both still open: everything emitted has been processed by the other side
  exfalso
  obtain ⟨pAB, rB⟩ := quiet_wire s.a s.b s.toB ha hb hw.1 hi.wireB hq.toB hao hbo hq.txA
  obtain ⟨pBA, rA⟩ := quiet_wire s.b s.a s.toA hb ha hw.2 hi.wireA hq.toA hbo hao hq.txB
  rcases hterm with ht | ht
  · obtain ⟨gb, tb⟩ := term_reaches s.a s.b ha hb pAB ht
    obtain ⟨ga, _⟩ := term_reaches s.b s.a hb ha pBA tb
    have := quiet_not_open s.a s.b ha hb pAB pBA rA hw.2 hbo hq.pqA hq.txA hq.pqB hq.txB ht ga tb nokaB
    rw [hao] at this; cases this
  · obtain ⟨ga, ta⟩ := term_reaches s.b s.a hb ha pBA ht
    obtain ⟨gb, _⟩ := term_reaches s.a s.b ha hb pAB ta
    have := quiet_not_open s.b s.a hb ha pBA pAB rB hw.1 hao hq.pqB hq.txB hq.pqA hq.txA ht gb ta nokaA
    rw [hbo] at this; cases this

/-! non-vacuity: a run which meets every hypothesis of `C09_no_deadlock_partial` -/
namespace ExampleTerm
open Example in
/-- the C01 example (hand-shake cut across reads, one bundle in two segments), then A asks to terminate,
    B answers, both write their SESS_TERM out and the leftover idle sources fire -/
def sched : List SysEv := Example.sched ++ [.atA .procQueue, .atA (.terminate 0), .atA (.pump 10240), .atA (.pump 10240),
  .deliverB 100, .atB (.pump 10240), .atB (.pump 10240), .deliverA 100, .atA .procQueue, .atB .procQueue]

example : (List.range (sched.length + 1)).all
    (fun k => decide (SysWF (runSys (initSys Example.cfgA Example.cfgB) (sched.take k)))) = true := by decide +kernel

example : let s := runSys (initSys Example.cfgA Example.cfgB) sched
    s.toA = [] ∧ s.toB = [] ∧ s.a.pqSources = 0 ∧ s.b.pqSources = 0 ∧ s.a.txSrc = 0 ∧ s.b.txSrc = 0
    ∧ s.a.inTerm = true ∧ (s.a.emitted ++ s.b.emitted).all (fun m => m != .keepalive) = true
    ∧ s.a.closed = true ∧ s.b.closed = true ∧ s.a.successLog = [1] := by decide +kernel

/-- one event earlier A is still open, waiting for B's SESS_TERM which is in flight: not quiescent -/
example : let s := runSys (initSys Example.cfgA Example.cfgB) (sched.take (sched.length - 3))
    s.a.closed = false ∧ s.b.closed = true ∧ s.toA ≠ [] := by decide +kernel
end ExampleTerm

/-! ### the agent over several contacts (tcpcl/agent.py) -/

/-- **`Agent.stop()` leaves no session half-open**: every contact is closed and unbound, whatever the
    number of contacts and whatever state each is in. -/
theorem C09_agent_stop_closes_all (a : TcpclAgent.Agent) : (TcpclAgent.stop a).1.handlers = [] :=
  TcpclAgent.stop_closes_all a

/-- **`Agent.shutdown()` reaches every contact**: along any history of the agent (contacts bound,
    established, terminating on their own, closing, earlier shutdown requests), after `shutdown()` every
    contact which is still open has sent its SESS_TERM; the contacts it closed instead had no session to
    end (so no transfer could be in progress); and it answers `True` exactly when nothing is left. -/
theorem C09_agent_shutdown_complete (stopOnClose : Bool) (ops : List TcpclAgent.Op) :
    let a := (TcpclAgent.run { stopOnClose := stopOnClose } ops).1
    (∀ x ∈ (TcpclAgent.shutdown a).1.handlers, x.inTerm = true)
    ∧ (∀ id, TcpclAgent.AOut.closed id ∈ (TcpclAgent.shutdown a).2 → ∃ y ∈ a.handlers, y.id = id ∧ y.inSess = false)
    ∧ TcpclAgent.AOut.ret ((TcpclAgent.shutdown a).1.handlers.isEmpty) ∈ (TcpclAgent.shutdown a).2 := by
  intro a
  have hnd : (TcpclAgent.ids a).Nodup := TcpclAgent.run_nodup ops _ (by simp [TcpclAgent.ids])
  exact ⟨TcpclAgent.shutdown_all_terminating a hnd, TcpclAgent.shutdown_closes_only_sessionless a,
    TcpclAgent.shutdown_ret a⟩

/-- **The agent stops only when every contact has closed**: the `on_stop` callback is reached from a
    closing contact only if that was the last one and a shutdown was requested (or `stop_on_close` is
    configured), and from `shutdown()` only when no contact is left. -/
theorem C09_agent_stops_when_empty (a : TcpclAgent.Agent) (id : Nat) :
    (TcpclAgent.AOut.stopped ∈ (TcpclAgent.contactClosed a id).2 →
        (TcpclAgent.contactClosed a id).1.handlers = [] ∧ (a.inShutdown = true ∨ a.stopOnClose = true))
    ∧ (TcpclAgent.AOut.stopped ∈ (TcpclAgent.shutdown a).2 → (TcpclAgent.shutdown a).1.handlers = []) :=
  ⟨TcpclAgent.contactClosed_stopped a id, TcpclAgent.shutdown_stopped a⟩

/-- three contacts — one still negotiating, one established, one already terminating — then `shutdown()`:
    the first is closed, the second gets its SESS_TERM, the third is left alone, and the agent waits -/
example : (TcpclAgent.run {} [.bind 0, .bind 1, .bind 2, .establish 1, .establish 2, .contactTerm 2, .shutdown]).2.getLast?
    = some [.closed 0, .sessTerm 1, .ret false] := by decide

end Tcpcl
end DtnVerif
