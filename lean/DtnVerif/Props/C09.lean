import DtnVerif.Model.TcpclEp
namespace DtnVerif
namespace Tcpcl
theorem C09_placeholder : True := trivial
end Tcpcl
end DtnVerif
