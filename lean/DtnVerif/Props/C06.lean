/-
  C06 — fragments reassemble to the original bundle once, in any arrival order.
  Models: DtnVerif.Model.Reasm (bp/app/fragment.py `_reassemble` inside bp/agent.py `recv_bundle`),
  DtnVerif.Model.Cover.
  A history is any list of events: the CL hands over a bundle (`recv`) or the j-th pending
  re-injection callback runs (`idle j`). Induction over that list is the quantifier "every arrival
  order, every duplication, every interleaving with other bundles' fragments and with idle callbacks".
-/
import DtnVerif.Model.Reasm
import DtnVerif.Lemmas.Reasm
import DtnVerif.Generated.Facts
namespace DtnVerif
namespace Props
open Bp Frag Reasm Cover

def stepOrderRx (name : String) : Option Int :=
  (Facts.chainSteps.find? (fun s => s.1 == "rx_chain" && s.2.2.1 == name)).map (fun s => s.2.1)

/-- deliveries / pending re-injections of the bundle `k` -/
def deliveredOf (k : Key) (s : AState) : List FBundle := s.delivered.filter (hasKey k)
def pendingOf (k : Key) (s : AState) : List FBundle := s.pending.filter (hasKey k)

/-- distinct fragments of `k` in the history never share an offset (they may overlap otherwise) -/
def OffsetsDetermineLength (k : Key) (hist : List Ev) : Prop :=
  ∀ b ∈ kfrags k hist, ∀ b' ∈ kfrags k hist, b.primary.fragOff = b'.primary.fragOff → rangeOf b = rangeOf b'

private theorem phase_of_run (cfg : RCfg) (k : Key) (P : Bytes) (hist : List Ev)
    (hcons : ∀ b ∈ kfrags k hist, ConsFrag cfg k P b) (hoff : OffsetsDetermineLength k hist) :
    Phase P (kfrags k hist) (proj k (run cfg AState.init hist)) := by
  have := (run_inv cfg k P hist AState.init [] tableWf_init (Or.inl (invA_init P k))
    (by simpa using hcons) (by simpa [OffsetsDetermineLength] using hoff)).2
  simpa using this

/-- **C06_no_early.** Whatever else is received and whenever the idle callbacks run: if a bundle of key
    `k` has been delivered (or is scheduled for re-injection), the fragments of `k` received so far
    cover [0, total). -/
theorem C06_no_early (cfg : RCfg) (k : Key) (P : Bytes) (hist : List Ev)
    (hcons : ∀ b ∈ kfrags k hist, ConsFrag cfg k P b) (hoff : OffsetsDetermineLength k hist)
    (hd : deliveredOf k (run cfg AState.init hist) ≠ [] ∨ pendingOf k (run cfg AState.init hist) ≠ []) :
    covered ((kfrags k hist).map rangeOf) P.length := by
  rcases phase_of_run cfg k P hist hcons hoff with hA | hB
  · rcases hd with h | h
    · exact absurd hA.del h
    · exact absurd hA.pend h
  · exact hB.cov

/-- the same at the level of one step, with no assumption on the fragments at all: the reassembly
    step schedules a bundle only when the ranges spliced into the entry (this one included) are
    exactly [0, total) -/
theorem C06_no_early_step (cur : Option Entry) (b rb : FBundle) (d : Bytes) (hd : b.payload = some d)
    (h : (reasmEntry cur b).2 = .cleared (some rb)) :
    exact ((b.primary.fragOff, d.length) :: (entryOf cur b).ranges) (entryOf cur b).total := by
  simp only [reasmEntry, hd, finish] at h
  split at h
  · rename_i hx; exact (exactB_iff _ _).1 hx
  · simp at h

/-- **C06_complete_partial.** (Full statement: `C06_complete_statement`; it fails on the excluded
    region, see `C06_complete_counterexample`. Excluded region, as an explicit decidable hypothesis:
    two distinct fragments of the bundle share an offset — `OffsetsDetermineLength`.)
    Let the history contain — in any order, with any duplicates, interleaved with
    anything of other keys and with idle callbacks at any time — fragments of the bundle `k` that are
    consistent with the payload `P`, cover it, and of which no two distinct ones share an offset.
    Then exactly one bundle of key `k` has been delivered or awaits its idle callback; it is the
    bundle synthesised from the first offset-0 fragment: payload `P`, and all other blocks those of
    that fragment. -/
theorem C06_complete_partial (cfg : RCfg) (k : Key) (P : Bytes) (hist : List Ev)
    (hcons : ∀ b ∈ kfrags k hist, ConsFrag cfg k P b) (hoff : OffsetsDetermineLength k hist)
    (hne : kfrags k hist ≠ []) (hcov : covered ((kfrags k hist).map rangeOf) P.length) :
    ∃ f0, firstZero (kfrags k hist) = some f0 ∧
      (norm (synth (norm f0) P)).payload = some P ∧
      (norm (synth (norm f0) P)).blocks.filter (fun x => x.c.blockNum != 1)
        = (norm f0).blocks.filter (fun x => x.c.blockNum != 1) ∧
      ((pendingOf k (run cfg AState.init hist) = [synth (norm f0) P] ∧ deliveredOf k (run cfg AState.init hist) = []) ∨
       (pendingOf k (run cfg AState.init hist) = [] ∧
        deliveredOf k (run cfg AState.init hist) = [norm (synth (norm f0) P)])) := by
  rcases phase_of_run cfg k P hist hcons hoff with hA | hB
  · exfalso
    obtain ⟨e, _, hok, _, hnx⟩ := hA.entry hne
    apply hnx
    refine ⟨(covered_congr hok.ranges _).2 hcov, ?_⟩
    intro r hr _
    obtain ⟨b, hb, rfl⟩ := List.mem_map.1 ((hok.ranges r).1 hr)
    obtain ⟨d, hd, hle, _⟩ := (hcons b hb).data
    simpa [rangeOf, hd] using hle
  · obtain ⟨f0, hf0, hone⟩ := hB.one
    have hc := hcons f0 (firstZero_some_mem hf0).1
    obtain ⟨d0, hd0, _, _⟩ := hc.data
    refine ⟨f0, hf0, synth_payload f0 d0 P hd0, synth_ext_blocks f0 P, ?_⟩
    rcases hone with ⟨h1, h2, _⟩ | ⟨h1, h2, _⟩
    · exact Or.inl ⟨h1, h2⟩
    · exact Or.inr ⟨h1, h2⟩

/-- … hence, once the loop is quiescent, exactly one delivery. -/
theorem C06_complete_partial_quiescent (cfg : RCfg) (k : Key) (P : Bytes) (hist : List Ev)
    (hcons : ∀ b ∈ kfrags k hist, ConsFrag cfg k P b) (hoff : OffsetsDetermineLength k hist)
    (hne : kfrags k hist ≠ []) (hcov : covered ((kfrags k hist).map rangeOf) P.length)
    (hq : (run cfg AState.init hist).pending = []) :
    ∃ R, deliveredOf k (run cfg AState.init hist) = [R] ∧ R.payload = some P := by
  obtain ⟨f0, _, hp, _, h⟩ := C06_complete_partial cfg k P hist hcons hoff hne hcov
  rcases h with ⟨h1, _⟩ | ⟨_, h2⟩
  · simp [pendingOf, hq] at h1
  · exact ⟨_, h2, hp⟩

/-- **C06_no_mix (frame).** An event that is not about key `k` — a bundle or fragment of another
    source / creation time / sequence number, or the re-injection of another bundle — leaves
    everything about `k` untouched: table entry, seen identities, pending re-injections, deliveries.
    No assumption on the event's bundle. -/
theorem C06_no_mix (cfg : RCfg) (s : AState) (ev : Ev) (k : Key) (hw : TableWf s.table)
    (hk : evKeyIs k s ev = false) : proj k (step cfg s ev) = proj k s ∧ TableWf (step cfg s ev).table :=
  ⟨step_frame cfg s ev k hw hk, step_wf cfg s ev hw⟩

/-- permutation / duplication invariance of coverage -/
theorem C06_cover_perm {rs rs' : List Range} (h : rs.Perm rs') (t : Nat) : covered rs t ↔ covered rs' t :=
  covered_perm h t

theorem C06_cover_dup (r : Range) (rs : List Range) (hr : r ∈ rs) (t : Nat) :
    covered (r :: rs) t ↔ covered rs t := covered_dup r rs hr t

/-- the executable test the model (and the driver) use is the specification -/
theorem C06_cover_decide (rs : List Range) (t : Nat) :
    (coveredB rs t = true ↔ covered rs t) ∧ (exactB rs t = true ↔ exact rs t) :=
  ⟨coveredB_iff rs t, exactB_iff rs t⟩

/-! ### concrete instances: non-vacuity and the same-offset counterexample -/

def cfgR : RCfg := { nodeId := .dtn "//node/".toUTF8.toList, deliver := fun _ => true, crcOk := fun _ => true }
def PW : Bytes := (List.range 30).map UInt8.ofNat
def srcW : Eid := .dtn "//src/".toUTF8.toList
def kW : Key := ⟨srcW, 9, 1⟩

/-- fragment [off, off+len) of the 30-octet payload `PW`, as decoded from the wire -/
def mkFrag (src : Eid) (off len : Nat) : FBundle :=
  { primary := { flags := 1, dest := .dtn "//dst/svc".toUTF8.toList, src := src, ts := ⟨9, 1⟩,
                 lifetime := 100000, fragOff := off, totalLen := 30 },
    blocks := [{ c := { typeCode := 7, blockNum := 2, flags := 1, btsd := some [off.toUInt8] },
                 layer := some [off.toUInt8] },
               { c := { typeCode := 1, blockNum := 1, btsd := some ((PW.drop off).take len) },
                 layer := some ((PW.drop off).take len) }] }

private theorem consFrag_mk (off len : Nat) (h : off + len ≤ 30) : ConsFrag cfgR kW PW (mkFrag srcW off len) := by
  have hl : ((PW.drop off).take len).length = len := by
    have : PW.length = 30 := by decide
    simp [this]; omega
  have h1 : isFragment (mkFrag srcW off len).primary.flags = true := by
    show isFragment 1 = true; decide
  have h2 : numsOk (mkFrag srcW off len) = true := by
    simp [numsOk, mkFrag]
  have h3 : ((mkFrag srcW off len).primary.src == cfgR.nodeId) = false := by
    show (srcW == cfgR.nodeId) = false; decide +kernel
  refine ⟨rfl, h1, rfl, h2, rfl, h3, rfl, ⟨(PW.drop off).take len, rfl, ?_, ?_⟩, fun _ => rfl⟩
  · show off + ((PW.drop off).take len).length ≤ PW.length
    rw [hl]; exact h
  · show (PW.drop off).take len = (PW.drop off).take ((PW.drop off).take len).length
    rw [hl]

/-- arrival order [10,30) · fragment of another bundle · [0,10) · duplicate [10,30) · idle -/
def histOk : List Ev :=
  [.recv (mkFrag srcW 10 20), .recv (mkFrag (.dtn "//other/".toUTF8.toList) 0 30), .recv (mkFrag srcW 0 10),
   .recv (mkFrag srcW 10 20), .idle 0, .idle 0]

/-- non-vacuity of `C06_complete_partial` / `C06_no_early`: hypotheses hold, two bundles delivered, ours once -/
example : (∀ b ∈ kfrags kW histOk, ConsFrag cfgR kW PW b) ∧ OffsetsDetermineLength kW histOk ∧
    kfrags kW histOk ≠ [] ∧ covered ((kfrags kW histOk).map rangeOf) PW.length ∧
    (run cfgR AState.init histOk).delivered.length = 2 ∧
    deliveredOf kW (run cfgR AState.init histOk) = [norm (synth (norm (mkFrag srcW 0 10)) PW)] := by
  have hk : kfrags kW histOk = [mkFrag srcW 10 20, mkFrag srcW 0 10, mkFrag srcW 10 20] := by decide +kernel
  refine ⟨?_, ?_, by rw [hk]; simp, ?_, by decide +kernel, by decide +kernel⟩
  · intro b hb
    rw [hk] at hb
    simp only [List.mem_cons, List.not_mem_nil, or_false] at hb
    rcases hb with rfl | rfl | rfl
    · exact consFrag_mk 10 20 (by omega)
    · exact consFrag_mk 0 10 (by omega)
    · exact consFrag_mk 10 20 (by omega)
  · unfold OffsetsDetermineLength; rw [hk]; decide +kernel
  · rw [hk]; exact (coveredB_iff _ _).1 (by decide +kernel)

/-- **Full statement (does not hold).** `C06_complete_partial` without the hypothesis that distinct fragments
    never share an offset: "for any set of fragments that together cover the payload, overlapping
    allowed, in any order". -/
def C06_complete_statement : Prop :=
  ∀ (cfg : RCfg) (k : Key) (P : Bytes) (hist : List Ev),
    (∀ b ∈ kfrags k hist, ConsFrag cfg k P b) → kfrags k hist ≠ [] →
    covered ((kfrags k hist).map rangeOf) P.length → (run cfg AState.init hist).pending = [] →
    ∃ R, deliveredOf k (run cfg AState.init hist) = [R] ∧ R.payload = some P

/-- arrival order [0,10) · [0,20) · [20,30): the second fragment has the identity (source, time,
    sequence, offset 0, total 30) of the first and is dropped as "already seen"; [10,20) never arrives -/
def histBad : List Ev :=
  [.recv (mkFrag srcW 0 10), .recv (mkFrag srcW 0 20), .recv (mkFrag srcW 20 10), .idle 0]

/-- the same three fragments with the long one first are reassembled at once -/
def histGood : List Ev :=
  [.recv (mkFrag srcW 0 20), .recv (mkFrag srcW 0 10), .recv (mkFrag srcW 20 10), .idle 0]

theorem C06_complete_counterexample : ¬ C06_complete_statement := by
  intro h
  have hk : kfrags kW histBad = [mkFrag srcW 0 10, mkFrag srcW 0 20, mkFrag srcW 20 10] := by decide +kernel
  have hc : ∀ b ∈ kfrags kW histBad, ConsFrag cfgR kW PW b := by
    intro b hb
    rw [hk] at hb
    simp only [List.mem_cons, List.not_mem_nil, or_false] at hb
    rcases hb with rfl | rfl | rfl
    · exact consFrag_mk 0 10 (by omega)
    · exact consFrag_mk 0 20 (by omega)
    · exact consFrag_mk 20 10 (by omega)
  obtain ⟨R, hR, _⟩ := h cfgR kW PW histBad hc (by rw [hk]; simp)
    (by rw [hk]; exact (coveredB_iff _ _).1 (by decide +kernel)) (by decide +kernel)
  have : deliveredOf kW (run cfgR AState.init histBad) = [] := by decide +kernel
  rw [this] at hR
  cases hR

/-- order dependence made explicit: same fragment set, other order ⇒ delivered -/
theorem C06_complete_counterexample_order :
    deliveredOf kW (run cfgR AState.init histBad) = [] ∧
    (deliveredOf kW (run cfgR AState.init histGood)).map FBundle.payload = [some PW] := by
  constructor <;> decide +kernel

/-- **What reassembly does to the primary block (D28).** The synthesised bundle's primary block is the
    offset-0 fragment's with the fragment flag cleared, CRC type none and no CRC value — not the
    original's when that carried a CRC. A BIB whose AAD covers the primary block therefore cannot
    verify on the reassembled bundle (the harness exhibits this on the real code with security on). -/
theorem C06_synth_primary (f : FBundle) (d : Bytes) :
    (synth f d).primary = { f.primary with flags := clearFragFlag f.primary.flags, crcType := 0, crc := none } ∧
    (∀ p : Primary, p.crcType ≠ 0 → (synth f d).primary ≠ p) := by
  refine ⟨rfl, ?_⟩
  intro p hp h
  apply hp
  rw [← h]; rfl

/-- flag bits, payload block number and the receive-chain orders the model relies on: reassembly
    (10) runs after routing (-1, 0) and before the BPSec steps (19, 20) and the application step (30) -/
theorem C06_facts :
    Facts.enum_blocks_PrimaryBlock_Flag_IS_FRAGMENT = 1 ∧
    Facts.const_bundle_BLOCK_NUM_PAYLOAD = 1 ∧
    Facts.enum_blocks_AbstractBlock_CrcType_NONE = 0 ∧
    stepOrderRx "Administrative routing" = some (-1) ∧
    stepOrderRx "Static routing" = some 0 ∧
    stepOrderRx "Fragment reassembly" = some 10 ∧
    stepOrderRx "BPSec accept confidentiality" = some 19 ∧
    stepOrderRx "BPSec verify integrity" = some 20 ∧
    stepOrderRx "Administrative handling" = some 30 ∧
    (Facts.chainSteps.filter (fun s => s.1 == "rx_chain")).length = 6 := by
  decide

end Props
end DtnVerif
