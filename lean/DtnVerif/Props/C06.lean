/-
  C06 — fragments reassemble to the original bundle once, in any arrival order.
  Models: DtnVerif.Model.Reasm (bp/app/fragment.py `_reassemble` inside bp/agent.py `recv_bundle`),
  DtnVerif.Model.Cover.
  A history is any list of events: the CL hands over a bundle (`recv`) or the j-th pending
  re-injection callback runs (`idle j`). Induction over that list is the quantifier "every arrival
  order, every duplication, every interleaving with other bundles' fragments and with idle callbacks".
-/
import DtnVerif.Model.Reasm
import DtnVerif.Lemmas.Reasm
import DtnVerif.Generated.Facts
namespace DtnVerif
namespace Props
open Bp Frag Reasm Cover

def stepOrderRx (name : String) : Option Int :=
  (Facts.chainSteps.find? (fun s => s.1 == "rx_chain" && s.2.2.1 == name)).map (fun s => s.2.1)

/-- deliveries / pending re-injections of the bundle `k` -/
def deliveredOf (k : Key) (s : AState) : List FBundle := s.delivered.filter (hasKey k)
def pendingOf (k : Key) (s : AState) : List FBundle := s.pending.filter (hasKey k)

private theorem inv_of_run (cfg : RCfg) (k : Key) (P : Bytes) (hist : List Ev)
    (hcons : ∀ b ∈ kfrags k hist, ConsFrag cfg k P b) :
    Inv cfg P (kfrags k hist) (proj k (run cfg AState.init hist)) := by
  have := (run_inv cfg k P hist AState.init [] tableWf_init (inv_init cfg P k) (by simpa using hcons)).2
  simpa using this

/-- **C06_no_early.** Whatever else is received and whenever the idle callbacks run: if a bundle of key
    `k` has been delivered (or is scheduled for re-injection), the fragments of `k` received so far
    cover [0, total). -/
theorem C06_no_early (cfg : RCfg) (k : Key) (P : Bytes) (hist : List Ev)
    (hcons : ∀ b ∈ kfrags k hist, ConsFrag cfg k P b)
    (hd : deliveredOf k (run cfg AState.init hist) ≠ [] ∨ pendingOf k (run cfg AState.init hist) ≠ []) :
    covered ((kfrags k hist).map rangeOf) P.length :=
  (inv_of_run cfg k P hist hcons).early (hd.symm)

/-- the same at the level of one step, with no assumption on the fragments at all: the reassembly
    step schedules a bundle only when the ranges spliced into the entry (this one included) are
    exactly [0, total) -/
theorem C06_no_early_step (crcFn : Nat → Bytes → Bytes) (cur : Option Entry) (b rb : FBundle) (d : Bytes)
    (hd : b.payload = some d) (h : (reasmEntry crcFn cur b).2 = .cleared (some rb)) :
    exact ((b.primary.fragOff, d.length) :: (entryOf cur b).ranges) (entryOf cur b).total := by
  simp only [reasmEntry, hd, finish] at h
  split at h
  · rename_i hx; exact (exactB_iff _ _).1 hx
  · simp at h

/-- what every correctly synthesised bundle contains: payload `P`, and all other blocks those of the
    offset-0 fragment it was built from -/
theorem C06_synth_content (cfg : RCfg) (k : Key) (P : Bytes) (fr : List FBundle) (rb : FBundle)
    (hcons : ∀ b ∈ fr, ConsFrag cfg k P b) (h : Synth cfg P fr rb) :
    (norm rb).payload = some P ∧
    ∃ f0 ∈ fr, f0.primary.fragOff = 0 ∧
      (norm rb).blocks.filter (fun x => x.c.blockNum != 1) = (norm f0).blocks.filter (fun x => x.c.blockNum != 1) := by
  obtain ⟨f0, hm, h0, rfl⟩ := h
  obtain ⟨d0, hd0, _, _⟩ := (hcons f0 hm).data
  exact ⟨synth_payload cfg.crcFn f0 d0 P hd0, f0, hm, h0, synth_ext_blocks cfg.crcFn f0 P⟩

/-- **C06_complete (full strength since fix dc31f2b).** Let the history contain — in any order, with
    any duplicates, overlapping or not, interleaved with anything of other keys and with idle
    callbacks at any time — fragments of the bundle `k` that cover the payload `P`.
    The only hypothesis left is `ConsFrag` for the fragments of `k` in the history: each really is a
    fragment of that bundle (fragment flag, total length |P|, its data is the slice of `P` at its
    offset) and passes the gates in front of reassembly (CRCs valid, not our own source, routed to
    'deliver', unique block numbers). Nothing is assumed about offsets or lengths.
    Then exactly one bundle of key `k` has been delivered, or none yet and at least one re-injection
    awaits its idle callback; every such bundle is synthesised from an offset-0 fragment received
    (`Synth`), hence has payload `P` and that fragment's other blocks (`C06_synth_content`). -/
theorem C06_complete (cfg : RCfg) (k : Key) (P : Bytes) (hist : List Ev)
    (hcons : ∀ b ∈ kfrags k hist, ConsFrag cfg k P b)
    (hne : kfrags k hist ≠ []) (hcov : covered ((kfrags k hist).map rangeOf) P.length) :
    (∃ rb, Synth cfg P (kfrags k hist) rb ∧ deliveredOf k (run cfg AState.init hist) = [norm rb]) ∨
    (deliveredOf k (run cfg AState.init hist) = [] ∧ pendingOf k (run cfg AState.init hist) ≠ [] ∧
      ∀ rb ∈ pendingOf k (run cfg AState.init hist), Synth cfg P (kfrags k hist) rb) := by
  have hI := inv_of_run cfg k P hist hcons
  rcases hI.del with hd | ⟨rb, h1, h2⟩
  · right
    refine ⟨hd, ?_, hI.pend⟩
    intro hp
    rcases hI.fresh hp hd with ⟨h, _⟩ | ⟨e, he, hsup⟩
    · exact hne h
    · obtain ⟨hG, hnx⟩ := hI.entry e he
      apply hnx
      refine ⟨covered_mono hsup _ hcov, ?_⟩
      intro r hr _
      obtain ⟨b, hb, rfl⟩ := List.mem_map.1 (hG.sub r hr)
      obtain ⟨d, hd', hle, _⟩ := (hcons b hb).data
      simpa [rangeOf, hd'] using hle
  · exact Or.inl ⟨rb, h1, h2⟩

/-- … hence, once the loop is quiescent, exactly one delivery: payload `P`, extension blocks of an
    offset-0 fragment received. -/
theorem C06_complete_quiescent (cfg : RCfg) (k : Key) (P : Bytes) (hist : List Ev)
    (hcons : ∀ b ∈ kfrags k hist, ConsFrag cfg k P b)
    (hne : kfrags k hist ≠ []) (hcov : covered ((kfrags k hist).map rangeOf) P.length)
    (hq : (run cfg AState.init hist).pending = []) :
    ∃ R, deliveredOf k (run cfg AState.init hist) = [R] ∧ R.payload = some P ∧
      ∃ f0 ∈ kfrags k hist, f0.primary.fragOff = 0 ∧
        R.blocks.filter (fun x => x.c.blockNum != 1) = (norm f0).blocks.filter (fun x => x.c.blockNum != 1) := by
  rcases C06_complete cfg k P hist hcons hne hcov with ⟨rb, h1, h2⟩ | ⟨_, hp, _⟩
  · obtain ⟨c1, c2⟩ := C06_synth_content cfg k P _ rb hcons h1
    exact ⟨norm rb, h2, c1, c2⟩
  · simp [pendingOf, hq] at hp

/-- **C06_at_most_once (re-injection de-duplication).** With no coverage assumption at all and for
    histories containing any number of complete covers of the bundle — the same fragmentation again,
    or differently cut ones whose fragments have fresh identities and therefore complete a second and
    a third reassembly —: at most one bundle of key `k` is ever delivered. The reassembled bundle is
    re-injected through `recv_bundle`, its identity (source, time, sequence; not a fragment) enters the
    seen set at the first delivery, and every later re-injection is absorbed there
    (`Inv.seenNone`, `idle_key_step`). Together with `C06_complete`: exactly one. -/
theorem C06_at_most_once (cfg : RCfg) (k : Key) (P : Bytes) (hist : List Ev)
    (hcons : ∀ b ∈ kfrags k hist, ConsFrag cfg k P b) :
    (deliveredOf k (run cfg AState.init hist)).length ≤ 1 ∧
    ((run cfg AState.init hist).seen ⟨k, none⟩ = true ↔ deliveredOf k (run cfg AState.init hist) ≠ []) := by
  have hI := inv_of_run cfg k P hist hcons
  refine ⟨?_, hI.seenNone⟩
  rcases hI.del with h | ⟨rb, _, h⟩
  · show (proj k (run cfg AState.init hist)).delivered.length ≤ 1
    rw [h]; simp
  · show (proj k (run cfg AState.init hist)).delivered.length ≤ 1
    rw [h]; simp

/-- **C06_no_mix (frame).** An event that is not about key `k` — a bundle or fragment of another
    source / creation time / sequence number, or the re-injection of another bundle — leaves
    everything about `k` untouched: table entry, seen identities, pending re-injections, deliveries.
    No assumption on the event's bundle. -/
theorem C06_no_mix (cfg : RCfg) (s : AState) (ev : Ev) (k : Key) (hw : TableWf s.table)
    (hk : evKeyIs k s ev = false) : proj k (step cfg s ev) = proj k s ∧ TableWf (step cfg s ev).table :=
  ⟨step_frame cfg s ev k hw hk, step_wf cfg s ev hw⟩

/-- permutation / duplication invariance of coverage -/
theorem C06_cover_perm {rs rs' : List Range} (h : rs.Perm rs') (t : Nat) : covered rs t ↔ covered rs' t :=
  covered_perm h t

theorem C06_cover_dup (r : Range) (rs : List Range) (hr : r ∈ rs) (t : Nat) :
    covered (r :: rs) t ↔ covered rs t := covered_dup r rs hr t

/-- the executable test the model (and the driver) use is the specification -/
theorem C06_cover_decide (rs : List Range) (t : Nat) :
    (coveredB rs t = true ↔ covered rs t) ∧ (exactB rs t = true ↔ exact rs t) :=
  ⟨coveredB_iff rs t, exactB_iff rs t⟩

/-! ### concrete instances: non-vacuity, and the former same-offset counterexample now delivered -/

def cfgR : RCfg := { nodeId := .dtn "//node/".toUTF8.toList, deliver := fun _ => true, crcOk := fun _ => true,
                     crcFn := fun t _ => zeros (crcWidth t) }
def PW : Bytes := (List.range 30).map UInt8.ofNat
def srcW : Eid := .dtn "//src/".toUTF8.toList
def kW : Key := ⟨srcW, 9, 1⟩

/-- fragment [off, off+len) of the 30-octet payload `PW`, as decoded from the wire; CRC-16 primary -/
def mkFrag (src : Eid) (off len : Nat) : FBundle :=
  { primary := { flags := 1, crcType := 1, dest := .dtn "//dst/svc".toUTF8.toList, src := src, ts := ⟨9, 1⟩,
                 lifetime := 100000, fragOff := off, totalLen := 30, crc := some [0, 0] },
    blocks := [{ c := { typeCode := 7, blockNum := 2, flags := 1, btsd := some [off.toUInt8] },
                 layer := some [off.toUInt8] },
               { c := { typeCode := 1, blockNum := 1, btsd := some ((PW.drop off).take len) },
                 layer := some ((PW.drop off).take len) }] }

private theorem consFrag_mk (off len : Nat) (h : off + len ≤ 30) : ConsFrag cfgR kW PW (mkFrag srcW off len) := by
  have hl : ((PW.drop off).take len).length = len := by
    have : PW.length = 30 := by decide
    simp [this]; omega
  have h1 : isFragment (mkFrag srcW off len).primary.flags = true := by
    show isFragment 1 = true; decide
  have h2 : numsOk (mkFrag srcW off len) = true := by
    simp [numsOk, mkFrag]
  have h3 : ((mkFrag srcW off len).primary.src == cfgR.nodeId) = false := by
    show (srcW == cfgR.nodeId) = false; decide +kernel
  refine ⟨rfl, h1, rfl, h2, rfl, h3, rfl, ⟨(PW.drop off).take len, rfl, ?_, ?_⟩, fun _ => rfl⟩
  · show off + ((PW.drop off).take len).length ≤ PW.length
    rw [hl]; exact h
  · show (PW.drop off).take len = (PW.drop off).take ((PW.drop off).take len).length
    rw [hl]

/-- arrival order [10,30) · fragment of another bundle · [0,10) · duplicate [10,30) · idle · idle -/
def histOk : List Ev :=
  [.recv (mkFrag srcW 10 20), .recv (mkFrag (.dtn "//other/".toUTF8.toList) 0 30), .recv (mkFrag srcW 0 10),
   .recv (mkFrag srcW 10 20), .idle 0, .idle 0]

/-- arrival order [0,10) · [0,20) · [20,30): distinct fragments sharing offset 0 (the witness of the
    former defect: before fix dc31f2b the second was dropped as "already seen" and nothing was ever
    delivered) -/
def histBad : List Ev :=
  [.recv (mkFrag srcW 0 10), .recv (mkFrag srcW 0 20), .recv (mkFrag srcW 20 10), .idle 0]

/-- the same three fragments with the long one first -/
def histGood : List Ev :=
  [.recv (mkFrag srcW 0 20), .recv (mkFrag srcW 0 10), .recv (mkFrag srcW 20 10), .idle 0]

/-- non-vacuity of `C06_complete` / `C06_no_early`: hypotheses hold, two bundles delivered, ours once -/
example : (∀ b ∈ kfrags kW histOk, ConsFrag cfgR kW PW b) ∧
    kfrags kW histOk ≠ [] ∧ covered ((kfrags kW histOk).map rangeOf) PW.length ∧
    (run cfgR AState.init histOk).delivered.length = 2 ∧
    deliveredOf kW (run cfgR AState.init histOk) = [norm (synth cfgR.crcFn (norm (mkFrag srcW 0 10)) PW)] := by
  have hk : kfrags kW histOk = [mkFrag srcW 10 20, mkFrag srcW 0 10, mkFrag srcW 10 20] := by decide +kernel
  refine ⟨?_, by rw [hk]; simp, ?_, by decide +kernel, by decide +kernel⟩
  · intro b hb
    rw [hk] at hb
    simp only [List.mem_cons, List.not_mem_nil, or_false] at hb
    rcases hb with rfl | rfl | rfl
    · exact consFrag_mk 10 20 (by omega)
    · exact consFrag_mk 0 10 (by omega)
    · exact consFrag_mk 10 20 (by omega)
  · rw [hk]; exact (coveredB_iff _ _).1 (by decide +kernel)

/-- … and on the former counterexample: both arrival orders of the overlapping set deliver `PW`;
    the extension blocks are those of the offset-0 fragment accepted last before completion -/
theorem C06_complete_overlap_instances :
    (deliveredOf kW (run cfgR AState.init histBad)).map FBundle.payload = [some PW] ∧
    (deliveredOf kW (run cfgR AState.init histGood)).map FBundle.payload = [some PW] ∧
    (∀ b ∈ kfrags kW histBad, ConsFrag cfgR kW PW b) := by
  refine ⟨by decide +kernel, by decide +kernel, ?_⟩
  have hk : kfrags kW histBad = [mkFrag srcW 0 10, mkFrag srcW 0 20, mkFrag srcW 20 10] := by decide +kernel
  intro b hb
  rw [hk] at hb
  simp only [List.mem_cons, List.not_mem_nil, or_false] at hb
  rcases hb with rfl | rfl | rfl
  · exact consFrag_mk 0 10 (by omega)
  · exact consFrag_mk 0 20 (by omega)
  · exact consFrag_mk 20 10 (by omega)

/-- three complete covers of the same bundle by different fragmentations, the idle callbacks run after
    each: [0,10)+[10,30) · idle · [0,15)+[15,30) · idle · [0,30) · idle -/
def histCovers : List Ev :=
  [.recv (mkFrag srcW 0 10), .recv (mkFrag srcW 10 20), .idle 0,
   .recv (mkFrag srcW 0 15), .recv (mkFrag srcW 15 15), .idle 0,
   .recv (mkFrag srcW 0 30), .idle 0]

/-- the same with all callbacks at the end: three re-injections pending, the first to run is
    delivered, the others are absorbed by the seen set -/
def histCoversLate : List Ev :=
  [.recv (mkFrag srcW 0 10), .recv (mkFrag srcW 10 20), .recv (mkFrag srcW 0 15), .recv (mkFrag srcW 15 15),
   .recv (mkFrag srcW 0 30), .idle 2, .idle 0, .idle 0]

/-- the second and third cover complete a reassembly again (their fragments have fresh identities),
    yet the bundle is delivered once -/
theorem C06_second_cover_absorbed :
    (deliveredOf kW (run cfgR AState.init histCovers)).map FBundle.payload = [some PW] ∧
    (run cfgR AState.init histCovers).pending = [] ∧
    (run cfgR AState.init (histCovers.take 5)).pending.length = 1 ∧
    (pendingOf kW (run cfgR AState.init (histCoversLate.take 5))).length = 3 ∧
    (deliveredOf kW (run cfgR AState.init histCoversLate)).map FBundle.payload = [some PW] ∧
    (run cfgR AState.init histCoversLate).pending = [] := by
  refine ⟨by decide +kernel, by decide +kernel, by decide +kernel, by decide +kernel, by decide +kernel,
    by decide +kernel⟩

/-- **What reassembly does to the primary block (after fix dffcae7; formerly D28).** The synthesised
    bundle's primary block is the offset-0 fragment's with the fragment flag cleared and the CRC value
    recomputed: every other field — in particular the CRC type — is kept, so the primary block is the
    original's (whose fragments differ from it only in flag, offset, total length and CRC value), and a
    BIB whose AAD covers the primary block verifies again on the reassembled bundle. -/
theorem C06_synth_primary (crcFn : Nat → Bytes → Bytes) (f : FBundle) (d : Bytes) :
    (synth crcFn f d).primary.crcType = f.primary.crcType ∧
    (synth crcFn f d).primary.flags = clearFragFlag f.primary.flags ∧
    (synth crcFn f d).primary.version = f.primary.version ∧ (synth crcFn f d).primary.dest = f.primary.dest ∧
    (synth crcFn f d).primary.src = f.primary.src ∧ (synth crcFn f d).primary.rpt = f.primary.rpt ∧
    (synth crcFn f d).primary.ts = f.primary.ts ∧ (synth crcFn f d).primary.lifetime = f.primary.lifetime ∧
    (synth crcFn f d).primary = updPrimary crcFn { f.primary with flags := clearFragFlag f.primary.flags, crc := none } := by
  have h : (synth crcFn f d).primary
      = updPrimary crcFn { f.primary with flags := clearFragFlag f.primary.flags, crc := none } := rfl
  rw [h]
  unfold updPrimary
  split <;> exact ⟨rfl, rfl, rfl, rfl, rfl, rfl, rfl, rfl, rfl⟩

example : (deliveredOf kW (run cfgR AState.init histOk)).map (fun b => (b.primary.crcType, b.primary.crc, b.primary.flags))
    = [(1, some [0, 0], 0)] := by decide +kernel

/-- flag bits, payload block number and the receive-chain orders the model relies on: reassembly
    (10) runs after routing (-1, 0) and before the BPSec steps (19, 20) and the application step (30) -/
theorem C06_facts :
    Facts.enum_blocks_PrimaryBlock_Flag_IS_FRAGMENT = 1 ∧
    Facts.const_bundle_BLOCK_NUM_PAYLOAD = 1 ∧
    Facts.enum_blocks_AbstractBlock_CrcType_NONE = 0 ∧
    stepOrderRx "Administrative routing" = some (-1) ∧
    stepOrderRx "Static routing" = some 0 ∧
    stepOrderRx "Fragment reassembly" = some 10 ∧
    stepOrderRx "BPSec accept confidentiality" = some 19 ∧
    stepOrderRx "BPSec verify integrity" = some 20 ∧
    stepOrderRx "Administrative handling" = some 30 ∧
    (Facts.chainSteps.filter (fun s => s.1 == "rx_chain")).length = 6 := by
  decide

end Props
end DtnVerif
