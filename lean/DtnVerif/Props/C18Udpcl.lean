/-
  C18, UDPCL half — the D-Bus view of the UDPCL agent is type-correct and consistent with reality.
  Theorems over `DtnVerif.Udpcl` (Model/Udpcl.lean, Model/UdpclDbus.lean): every signal and return
  value conforms to the signature declared for it in the source (`Facts.dbusSigs`), numeric ranges
  included; the receive queue is exactly "announced and not yet popped", a pop returns that
  transfer's data once; every transfer handed out is finished at most once, exactly once after the
  queue has drained.
-/
import DtnVerif.Model.UdpclDbus
import DtnVerif.Lemmas.UdpclQueue
import DtnVerif.Lemmas.UdpclLen
import DtnVerif.Props.C13
import DtnVerif.Generated.Facts
namespace DtnVerif
namespace Udpcl

/-! ## declared signatures -/

def usigOf (name : String) : Option (String × String × String) :=
  (Facts.dbusSigs.find? (fun r => r.1 == "udpcl.Agent." ++ name)).map (·.2)

/-- The signature strings of the source, and how they split into complete types. -/
theorem C18u_facts :
    usigOf "send_bundle_started" = some ("signal", "st", "")
    ∧ usigOf "send_bundle_finished" = some ("signal", "sts", "")
    ∧ usigOf "recv_bundle_finished" = some ("signal", "sta{sv}", "")
    ∧ usigOf "polling_received" = some ("signal", "xissq", "")
    ∧ usigOf "recv_bundle_get_queue" = some ("method", "", "as")
    ∧ usigOf "recv_bundle_pop_data" = some ("method", "s", "ay")
    ∧ usigOf "send_bundle_data" = some ("method", "aya{sv}", "s")
    ∧ parseSig "st" = some [.s, .t] ∧ parseSig "sts" = some [.s, .t, .s]
    ∧ parseSig "sta{sv}" = some [.s, .t, .asv] ∧ parseSig "xissq" = some [.x, .i, .s, .s, .q]
    ∧ parseSig "as" = some [.as_] ∧ parseSig "ay" = some [.ay] ∧ parseSig "s" = some [.s] := by
  refine ⟨?_, ?_, ?_, ?_, ?_, ?_, ?_, ?_, ?_, ?_, ?_, ?_, ?_, ?_⟩ <;> decide

-- from here on the table is used through `C18u_facts` only
attribute [irreducible] usigOf
attribute [local irreducible] parseSig

/-- Conformance of one thing seen on the bus to what the source declares for it: a signal's
    arguments to its signature, a method's return value to its out-signature (an exception is not a
    value). -/
def sigOKFacts : DOut → Bool
  | .sig name args =>
    match usigOf name with
    | some (kind, sig, _) =>
      kind == "signal" && (match parseSig sig with
        | some tys => conformsAll args tys
        | none => false)
    | none => false
  | .ret method v =>
    match usigOf method with
    | some (kind, _, out) =>
      kind == "method" && (match parseSig out with
        | some [ty] => conformsTo v ty
        | _ => false)
    | none => false
  | .raised _ _ => true

/-! ## types -/

private theorem u64_ok (n : Nat) (h : n < 2 ^ 64) : inRangeU 64 (.int n) = true := by
  simp only [inRangeU, decide_eq_true_eq]
  constructor
  · exact Int.natCast_nonneg n
  · exact_mod_cast h

/-- what the render of one observation needs -/
def ObsOK : Obs → Prop
  | .announced _ q => q.length < 2 ^ 64
  | .tx (.started _ len) => len < 2 ^ 64
  | .tx (.finished _ len _) => len < 2 ^ 64
  | _ => True

private theorem render_ok (o : Obs) (d : DOut) (ho : ObsOK o) (h : render o = some d) :
    sigOKFacts d = true := by
  obtain ⟨f1, f2, f3, _, f5, f6, f7, p1, p2, p3, _, p5, p6, p7⟩ := C18u_facts
  cases o with
  | announced id q =>
    simp only [render, Option.some.injEq] at h; subst h
    simp only [sigOKFacts, f3, p3, conformsAll, conformsTo, u64_ok q.length ho, rxMeta, List.all_cons,
      List.all_nil, isVariant, Bool.and_self, beq_self_eq_true]
  | queueRet ids =>
    simp only [render, Option.some.injEq] at h; subst h
    simp only [sigOKFacts, f5, p5, conformsTo, beq_self_eq_true, Bool.and_self]
  | popRet bid b =>
    simp only [render, Option.some.injEq] at h; subst h
    simp only [sigOKFacts, f6, p6, conformsTo, beq_self_eq_true, Bool.and_self]
  | popRaised bid =>
    simp only [render, Option.some.injEq] at h; subst h; rfl
  | sendRet id =>
    simp only [render, Option.some.injEq] at h; subst h
    simp only [sigOKFacts, f7, p7, conformsTo, beq_self_eq_true, Bool.and_self]
  | tx e =>
    cases e with
    | started id len =>
      simp only [render, Option.some.injEq] at h; subst h
      simp only [sigOKFacts, f1, p1, conformsAll, conformsTo, u64_ok len ho, Bool.and_self, beq_self_eq_true]
    | finished id len r =>
      simp only [render, Option.some.injEq] at h; subst h
      simp only [sigOKFacts, f2, p2, conformsAll, conformsTo, u64_ok len ho, Bool.and_self, beq_self_eq_true]
    | dgram b => simp [render] at h

/-- input guards: datagrams and bundles handed to `send_bundle_data` are shorter than 2^64 octets -/
def EvOK : DEv → Prop
  | .dgram _ _ data => data.length < 2 ^ 64
  | .send data => data.length < 2 ^ 64
  | _ => True

private def StOK (st : DState) : Prop :=
  LenOK st.rx ∧ ∀ t ∈ st.txQueue, t.2.length < 2 ^ 64

private theorem txRun_lens (mtu : Option Nat) : ∀ (q : List (Nat × Bytes)),
    (∀ t ∈ q, t.2.length < 2 ^ 64) → ∀ e ∈ txRun mtu q, ObsOK (.tx e) := by
  intro q
  induction q with
  | nil => intro _ e he; cases he
  | cons t q ih =>
    intro hq e he
    simp only [txRun, List.flatMap_cons] at he
    rcases List.mem_append.mp he with h | h
    · have ht := hq t List.mem_cons_self
      unfold txItem at h
      rcases List.mem_cons.mp h with rfl | h
      · exact ht
      · cases hs : sendTransfer t.1 t.2 mtu with
        | failed =>
          rw [hs] at h
          simp only [List.mem_singleton] at h; subst h; exact ht
        | ok ds =>
          rw [hs] at h
          rcases List.mem_append.mp h with h | h
          · obtain ⟨d, _, rfl⟩ := List.mem_map.mp h; trivial
          · simp only [List.mem_singleton] at h; subst h; exact ht
    · exact ih (fun t ht => hq t (List.mem_cons_of_mem _ ht)) e h

private theorem dstep_ok (st : DState) (ev : DEv) (hst : StOK st) (hev : EvOK ev) :
    StOK (dstep st ev).1 ∧ ∀ o ∈ (dstep st ev).2, ObsOK o := by
  cases ev with
  | dgram addr port data =>
    have hl := recvDatagram_lenOK false st.rx addr port data hst.1 hev
    refine ⟨⟨hl, hst.2⟩, ?_⟩
    intro o ho
    simp only [dstep] at ho
    obtain ⟨e, he, rfl⟩ := List.mem_map.mp ho
    exact hl.2 e (List.mem_of_mem_drop he)
  | pop bid =>
    simp only [dstep]
    cases hp : popData st.rx bid with
    | none => exact ⟨hst, by intro o ho; simp only [List.mem_singleton] at ho; subst ho; trivial⟩
    | some p =>
      obtain ⟨d, rx'⟩ := p
      refine ⟨⟨?_, hst.2⟩, by intro o ho; simp only [List.mem_singleton] at ho; subst ho; trivial⟩
      unfold popData at hp
      cases hf : st.rx.queue.find? (fun q => q.1 == bid) with
      | none => rw [hf] at hp; cases hp
      | some q =>
        rw [hf] at hp
        simp only [Option.some.injEq, Prod.mk.injEq] at hp
        obtain ⟨_, rfl⟩ := hp
        exact ⟨hst.1.1, fun e he => hst.1.2 e (List.mem_filter.mp he).1⟩
  | getQueue => exact ⟨hst, by intro o ho; simp only [dstep, List.mem_singleton] at ho; subst ho; trivial⟩
  | send data =>
    refine ⟨⟨hst.1, ?_⟩, by intro o ho; simp only [dstep, List.mem_singleton] at ho; subst ho; trivial⟩
    intro t ht
    simp only [dstep] at ht
    rcases List.mem_append.mp ht with h | h
    · exact hst.2 t h
    · simp only [List.mem_singleton] at h; subst h; exact hev
  | drain =>
    refine ⟨⟨hst.1, by intro t ht; cases ht⟩, ?_⟩
    intro o ho
    simp only [dstep] at ho
    obtain ⟨e, he, rfl⟩ := List.mem_map.mp ho
    exact txRun_lens st.mtu st.txQueue hst.2 e he

private theorem drun_ok : ∀ (evs : List DEv) (st : DState), StOK st → (∀ ev ∈ evs, EvOK ev) →
    ∀ o ∈ (drun st evs).2, ObsOK o := by
  intro evs
  induction evs with
  | nil => intro st _ _ o ho; cases ho
  | cons ev evs ih =>
    intro st hst hev o ho
    obtain ⟨h1, h2⟩ := dstep_ok st ev hst (hev ev List.mem_cons_self)
    simp only [drun] at ho
    rcases List.mem_append.mp ho with h | h
    · exact h2 o h
    · exact ih _ h1 (fun e he => hev e (List.mem_cons_of_mem _ he)) o h

/-- Every signal emitted and every value returned over any event list conforms to the signature the
    source declares for it, ranges included: the lengths in `send_bundle_started/finished` and
    `recv_bundle_finished` are within 't' — for whole bundles because a datagram is shorter than
    2^64 octets, for reassembled ones because the peer's total length is a CBOR unsigned integer;
    ids are strings, the queue a list of strings, popped data a byte array, the metadata a
    string-keyed dict of basic values. Guards: datagrams and sent bundles shorter than 2^64 octets. -/
theorem C18u_types (mtu : Option Nat) (evs : List DEv) (hev : ∀ ev ∈ evs, EvOK ev) :
    ∀ o ∈ (drun { mtu := mtu } evs).2, ∀ d, render o = some d → sigOKFacts d = true := by
  intro o ho d hd
  have hst : StOK { mtu := mtu } :=
    ⟨⟨(fun e he => by cases he), (fun e he => by cases he)⟩, (fun t ht => by cases ht)⟩
  exact render_ok o d (drun_ok evs _ hst hev o ho) hd

/-- `polling_received` (xissq): whatever a peer puts into SENDER_LISTEN / SENDER_NODEID, a signal
    that is emitted conforms — the interval is checked to be an `int` in `0 ≤ · < 2^31` and the node
    id to be a `str`. Guards (local values): the DTN time of `datetime.now` is within int64 and the
    UDP source port below 65536. -/
theorem C18u_polling_types (dtntime : Int) (interval nodeId : PyVal) (addr : String) (port : Nat)
    (o : DOut) (h : pollingSignal dtntime interval nodeId addr port = some o)
    (ht : -(2 ^ 63 : Int) ≤ dtntime ∧ dtntime < 2 ^ 63) (hp : port < 65536) :
    sigOKFacts o = true := by
  obtain ⟨_, _, _, f4, _, _, _, _, _, _, p4, _, _, _⟩ := C18u_facts
  have hport : inRangeU 16 (.int port) = true := by
    simp only [inRangeU, decide_eq_true_eq]
    exact ⟨Int.natCast_nonneg port, by exact_mod_cast hp⟩
  have hdt : inRangeS 64 (.int dtntime) = true := by
    simp only [inRangeS, decide_eq_true_eq]; exact ht
  unfold pollingSignal at h
  split at h
  · rename_i hc
    simp only [Option.some.injEq] at h
    subst h
    simp only [Bool.and_eq_true] at hc
    obtain ⟨hn, hi⟩ := hc
    cases nodeId with
    | str s =>
      have hival : inRangeS 32 interval.toD = true := by
        cases interval with
        | int v =>
          simp only [ivalOK, Bool.and_eq_true, decide_eq_true_eq] at hi
          have e : ((2 : Int) ^ (32 - 1)) = 2147483648 := by decide
          simp only [PyVal.toD, inRangeS, decide_eq_true_eq, e]; omega
        | bool b => rfl
        | str s' => simp [ivalOK] at hi
        | other => simp [ivalOK] at hi
      have hs : conformsTo (PyVal.str s).toD .s = true := rfl
      have hiv : conformsTo interval.toD .i = true := hival
      have hx : conformsTo (.int dtntime) .x = true := hdt
      have hq : conformsTo (.int port) .q = true := hport
      simp only [sigOKFacts, f4, p4, conformsAll, hs, hiv, hx, hq, Bool.and_self, beq_self_eq_true]
      rfl
    | int v => simp [nodeOK] at hn
    | bool b => simp [nodeOK] at hn
    | other => simp [nodeOK] at hn
  · cases h

example : pollingSignal 777 (.int 2147483648) (.str "dtn://peer/") "192.0.2.9" 4556 = none := by decide
example : (pollingSignal 777 (.int 1000) (.str "dtn://peer/") "192.0.2.9" 4556).isSome = true := by decide

/-! ## the receive queue -/

def announcedIds : List Obs → List Nat
  | [] => []
  | .announced id _ :: r => id :: announcedIds r
  | _ :: r => announcedIds r

/-- ids whose pop returned data -/
def poppedIds : List Obs → List Nat
  | [] => []
  | .popRet bid _ :: r => bid :: poppedIds r
  | _ :: r => poppedIds r

private theorem announcedIds_append (a b : List Obs) :
    announcedIds (a ++ b) = announcedIds a ++ announcedIds b := by
  induction a with
  | nil => rfl
  | cons o a ih => cases o <;> simp [announcedIds, ih]

private theorem poppedIds_append (a b : List Obs) : poppedIds (a ++ b) = poppedIds a ++ poppedIds b := by
  induction a with
  | nil => rfl
  | cons o a ih => cases o <;> simp [poppedIds, ih]

private def QInv (st : DState) (obs : List Obs) : Prop :=
  IdsOK st.rx ∧
  queueIds st.rx = (announcedIds obs).filter (fun i => !(poppedIds obs).contains i) ∧
  (∀ i ∈ announcedIds obs, i < st.rx.rxId) ∧ (∀ i ∈ poppedIds obs, i < st.rx.rxId)

private theorem announced_map (l : List (Nat × QItem)) :
    announcedIds (l.map fun e => Obs.announced e.1 e.2) = l.map (·.1) := by
  induction l with
  | nil => rfl
  | cons e l ih => simp [announcedIds, ih]

private theorem popped_map_announced (l : List (Nat × QItem)) :
    poppedIds (l.map fun e => Obs.announced e.1 e.2) = [] := by
  induction l with
  | nil => rfl
  | cons e l ih => simp [poppedIds, ih]

private theorem qinv_step (st : DState) (ev : DEv) (pre : List Obs) (h : QInv st pre) :
    QInv (dstep st ev).1 (pre ++ (dstep st ev).2) := by
  obtain ⟨hids, hq, ha, hp⟩ := h
  cases ev with
  | dgram addr port data =>
    have hext := recvDatagram_ext false st.rx addr port data
    obtain ⟨hr, ex, hqe, hb, hpw⟩ := hext
    have hdrop : (recvDatagram false st.rx addr port data).1.queue.drop st.rx.queue.length = ex := by
      rw [hqe]; simp
    simp only [dstep, hdrop]
    refine ⟨(recvDatagram_ext false st.rx addr port data).idsOK hids, ?_, ?_, ?_⟩
    · rw [announcedIds_append, poppedIds_append, announced_map, popped_map_announced, List.append_nil,
        List.filter_append, ← hq]
      simp only [queueIds, hqe, List.map_append]
      congr 1
      symm
      rw [List.filter_eq_self]
      intro i hi
      obtain ⟨e, he, rfl⟩ := List.mem_map.mp hi
      have := (hb e he).1
      simp only [Bool.not_eq_true', List.contains_eq_mem, decide_eq_false_iff_not]
      intro hm
      have := hp _ hm; omega
    · intro i hi
      rw [announcedIds_append, announced_map] at hi
      show i < (recvDatagram false st.rx addr port data).1.rxId
      rcases List.mem_append.mp hi with h | h
      · have := ha i h; omega
      · obtain ⟨e, he, rfl⟩ := List.mem_map.mp h; exact (hb e he).2
    · intro i hi
      rw [poppedIds_append, popped_map_announced, List.append_nil] at hi
      show i < (recvDatagram false st.rx addr port data).1.rxId
      have := hp i hi; omega
  | pop bid =>
    simp only [dstep]
    cases hpd : popData st.rx bid with
    | none =>
      show QInv st (pre ++ [Obs.popRaised bid])
      refine ⟨hids, ?_, ?_, ?_⟩
      · rw [announcedIds_append, poppedIds_append]; simpa [announcedIds, poppedIds] using hq
      · intro i hi; rw [announcedIds_append] at hi; simp [announcedIds] at hi; exact ha i hi
      · intro i hi; rw [poppedIds_append] at hi; simp [poppedIds] at hi; exact hp i hi
    | some p =>
      obtain ⟨d, rx'⟩ := p
      obtain ⟨hids', hrx⟩ := popData_idsOK st.rx rx' bid d hpd hids
      have hq' : queueIds rx' = (queueIds st.rx).filter (· != bid) := by
        unfold popData at hpd
        cases hf : st.rx.queue.find? (fun q => q.1 == bid) with
        | none => rw [hf] at hpd; cases hpd
        | some q =>
          rw [hf] at hpd
          simp only [Option.some.injEq, Prod.mk.injEq] at hpd
          obtain ⟨_, rfl⟩ := hpd
          simp only [queueIds, List.filter_map]; congr 1
      have hbid : bid < st.rx.rxId := by
        unfold popData at hpd
        cases hf : st.rx.queue.find? (fun q => q.1 == bid) with
        | none => rw [hf] at hpd; cases hpd
        | some q =>
          have hm := List.mem_of_find?_eq_some hf
          have he : q.1 = bid := by simpa using List.find?_some hf
          have := hids.1 q hm; omega
      show QInv { st with rx := rx' } (pre ++ [Obs.popRet bid d])
      refine ⟨hids', ?_, ?_, ?_⟩
      · rw [announcedIds_append, poppedIds_append]
        simp only [announcedIds, poppedIds, List.append_nil]
        show queueIds rx' = _
        rw [hq', hq, List.filter_filter]
        apply List.filter_congr
        intro i _
        by_cases hib : i = bid
        · subst hib; simp
        · simp [hib]
      · intro i hi; rw [announcedIds_append] at hi; simp [announcedIds] at hi
        show i < rx'.rxId
        have := ha i hi; omega
      · intro i hi; rw [poppedIds_append] at hi
        simp only [poppedIds, List.mem_append, List.mem_singleton] at hi
        show i < rx'.rxId
        rcases hi with h | h
        · have := hp i h; omega
        · omega
  | getQueue =>
    refine ⟨hids, ?_, ?_, ?_⟩
    · simp only [dstep, announcedIds_append, poppedIds_append]; simpa [announcedIds, poppedIds] using hq
    · intro i hi; simp only [dstep, announcedIds_append] at hi; simp [announcedIds] at hi; exact ha i hi
    · intro i hi; simp only [dstep, poppedIds_append] at hi; simp [poppedIds] at hi; exact hp i hi
  | send data =>
    refine ⟨hids, ?_, ?_, ?_⟩
    · simp only [dstep, announcedIds_append, poppedIds_append]; simpa [announcedIds, poppedIds] using hq
    · intro i hi; simp only [dstep, announcedIds_append] at hi; simp [announcedIds] at hi; exact ha i hi
    · intro i hi; simp only [dstep, poppedIds_append] at hi; simp [poppedIds] at hi; exact hp i hi
  | drain =>
    have ha0 : ∀ l : List TxEvent, announcedIds (l.map Obs.tx) = [] := by
      intro l; induction l with
      | nil => rfl
      | cons e l ih => simp [announcedIds, ih]
    have hp0 : ∀ l : List TxEvent, poppedIds (l.map Obs.tx) = [] := by
      intro l; induction l with
      | nil => rfl
      | cons e l ih => simp [poppedIds, ih]
    refine ⟨hids, ?_, ?_, ?_⟩
    · simp only [dstep, announcedIds_append, poppedIds_append, ha0, hp0, List.append_nil]; exact hq
    · intro i hi; simp only [dstep, announcedIds_append, ha0, List.append_nil] at hi; exact ha i hi
    · intro i hi; simp only [dstep, poppedIds_append, hp0, List.append_nil] at hi; exact hp i hi

private theorem qinv_run : ∀ (evs : List DEv) (st : DState) (pre : List Obs), QInv st pre →
    QInv (drun st evs).1 (pre ++ (drun st evs).2) := by
  intro evs
  induction evs with
  | nil => intro st pre h; simpa [drun] using h
  | cons ev evs ih =>
    intro st pre h
    have h1 := qinv_step st ev pre h
    have h2 := ih _ _ h1
    simp only [drun, ← List.append_assoc]
    exact h2

/-- The receive queue lists exactly the transfer ids announced as finished and not yet popped —
    after any history of datagrams, pops, queue reads and sends —, every id at most once, and
    `recv_bundle_get_queue` returns that list. -/
theorem C18u_recv_queue (mtu : Option Nat) (evs : List DEv) :
    queueIds (drun { mtu := mtu } evs).1.rx =
      (announcedIds (drun { mtu := mtu } evs).2).filter
        (fun i => !(poppedIds (drun { mtu := mtu } evs).2).contains i) ∧
    (queueIds (drun { mtu := mtu } evs).1.rx).Pairwise (· < ·) ∧
    (dstep (drun { mtu := mtu } evs).1 .getQueue).2 =
      [.queueRet (queueIds (drun { mtu := mtu } evs).1.rx)] := by
  have h0 : QInv { mtu := mtu } [] :=
    ⟨⟨(fun e he => by cases he), List.Pairwise.nil⟩, rfl, (fun i hi => by cases hi), (fun i hi => by cases hi)⟩
  have h := qinv_run evs _ [] h0
  simp only [List.nil_append] at h
  refine ⟨h.2.1, ?_, rfl⟩
  simpa [queueIds, List.pairwise_map] using h.1.2

/-- Popping returns that transfer's data exactly once: for an id that is queued (announced, not
    yet popped) the pop returns the data announced under it as a byte array and removes exactly that
    id; a second pop, or a pop of any id that is not queued, raises `KeyError` and changes nothing. -/
theorem C18u_pop (mtu : Option Nat) (evs : List DEv) (bid : Nat) :
    (∀ q, (bid, q) ∈ (drun { mtu := mtu } evs).1.rx.queue →
      (dstep (drun { mtu := mtu } evs).1 (.pop bid)).2 = [.popRet bid q.data] ∧
      queueIds (dstep (drun { mtu := mtu } evs).1 (.pop bid)).1.rx =
        (queueIds (drun { mtu := mtu } evs).1.rx).filter (· != bid) ∧
      (dstep (dstep (drun { mtu := mtu } evs).1 (.pop bid)).1 (.pop bid)).2 = [.popRaised bid]) ∧
    (bid ∉ queueIds (drun { mtu := mtu } evs).1.rx →
      dstep (drun { mtu := mtu } evs).1 (.pop bid) = ((drun { mtu := mtu } evs).1, [.popRaised bid])) := by
  have h0 : QInv { mtu := mtu } [] :=
    ⟨⟨(fun e he => by cases he), List.Pairwise.nil⟩, rfl, (fun i hi => by cases hi), (fun i hi => by cases hi)⟩
  have hids := (qinv_run evs _ [] h0).1
  generalize (drun { mtu := mtu } evs).1 = st at hids
  refine ⟨?_, ?_⟩
  · intro q hm
    obtain ⟨s', h1, h2, h3, _⟩ := popData_exact st.rx hids bid q hm
    simp only [dstep, h1, h2]
    exact ⟨trivial, h3, trivial⟩
  · intro hn
    simp only [dstep, popData_absent st.rx bid hn]

/-! ## the send queue -/

def txEvents : List Obs → List TxEvent
  | [] => []
  | .tx e :: r => e :: txEvents r
  | _ :: r => txEvents r

/-- number of `send_bundle_finished` signals for transfer `i` -/
def finishedCount (i : Nat) (obs : List Obs) : Nat := finCount i (txEvents obs)

private theorem txEvents_append (a b : List Obs) : txEvents (a ++ b) = txEvents a ++ txEvents b := by
  induction a with
  | nil => rfl
  | cons o a ih => cases o <;> simp [txEvents, ih]

private theorem txEvents_map (l : List TxEvent) : txEvents (l.map Obs.tx) = l := by
  induction l with
  | nil => rfl
  | cons e l ih => simp [txEvents, ih]

private theorem finCount_app (i : Nat) (a b : List TxEvent) :
    finCount i (a ++ b) = finCount i a + finCount i b := by
  simp [finCount, List.filter_append]

private def TInv (i : Nat) (st : DState) (obs : List Obs) : Prop :=
  finishedCount i obs + (st.txQueue.map (·.1)).count i = (if i < st.txNext then 1 else 0) ∧
  ∀ t ∈ st.txQueue, t.1 < st.txNext

private theorem tinv_step (i : Nat) (st : DState) (ev : DEv) (pre : List Obs) (h : TInv i st pre) :
    TInv i (dstep st ev).1 (pre ++ (dstep st ev).2) := by
  obtain ⟨hc, hq⟩ := h
  have hnone : ∀ (o : List Obs), txEvents o = [] →
      finishedCount i (pre ++ o) = finishedCount i pre := by
    intro o ho; simp [finishedCount, txEvents_append, ho]
  cases ev with
  | dgram addr port data =>
    refine ⟨?_, hq⟩
    have : txEvents (dstep st (.dgram addr port data)).2 = [] := by
      simp only [dstep]
      generalize (List.drop _ _ : List (Nat × QItem)) = l
      induction l with
      | nil => rfl
      | cons e l ih => simp [txEvents, ih]
    rw [hnone _ this]; exact hc
  | pop bid =>
    simp only [dstep]
    cases hpd : popData st.rx bid with
    | none => exact ⟨by rw [hnone _ rfl]; exact hc, hq⟩
    | some p => exact ⟨by rw [hnone _ rfl]; exact hc, hq⟩
  | getQueue => exact ⟨by rw [hnone _ rfl]; exact hc, hq⟩
  | send data =>
    refine ⟨?_, ?_⟩
    · simp only [dstep]
      rw [hnone _ rfl, List.map_append, List.count_append]
      simp only [List.map_cons, List.map_nil, List.count_cons, List.count_nil]
      by_cases hi : i < st.txNext
      · have : ¬ (st.txNext = i) := by omega
        simp only [hi, if_true] at hc
        have h2 : i < st.txNext + 1 := by omega
        simp [this, h2]; omega
      · simp only [hi, if_false] at hc
        by_cases he : st.txNext = i
        · have h2 : i < st.txNext + 1 := by omega
          simp [he, h2]; subst he; simp at h2; omega
        · have h2 : ¬ (i < st.txNext + 1) := by omega
          simp [he, h2]; omega
    · intro t ht
      simp only [dstep] at ht ⊢
      rcases List.mem_append.mp ht with h | h
      · have := hq t h; omega
      · simp only [List.mem_singleton] at h; subst h; simp
  | drain =>
    refine ⟨?_, by intro t ht; cases ht⟩
    simp only [dstep, finishedCount, txEvents_append, txEvents_map, finCount_app, List.map_nil,
      List.count_nil, Nat.add_zero]
    rw [C13_tx_finished_exactly_once]
    simp only [finishedCount] at hc
    exact hc

private theorem tinv_run (i : Nat) : ∀ (evs : List DEv) (st : DState) (pre : List Obs), TInv i st pre →
    TInv i (drun st evs).1 (pre ++ (drun st evs).2) := by
  intro evs
  induction evs with
  | nil => intro st pre h; simpa [drun] using h
  | cons ev evs ih =>
    intro st pre h
    have h2 := ih _ _ (tinv_step i st ev pre h)
    simp only [drun, ← List.append_assoc]
    exact h2

/-- A transfer never gets more than one `send_bundle_finished`, and gets exactly one once the queue
    has drained: over any history, the number of finished signals for id `i` plus its presence in
    the pending queue is 1 if `send_bundle_data` has returned `i`, else 0 (lifted from
    `C13_tx_finished_exactly_once`, whatever the MTU — 'success' or 'failed'). -/
theorem C18u_finished_once (mtu : Option Nat) (evs : List DEv) (i : Nat) :
    finishedCount i (drun { mtu := mtu } evs).2 ≤ 1 ∧
    (i < (drun { mtu := mtu } evs).1.txNext → (drun { mtu := mtu } evs).1.txQueue = [] →
      finishedCount i (drun { mtu := mtu } evs).2 = 1) ∧
    ((drun { mtu := mtu } evs).1.txNext ≤ i → finishedCount i (drun { mtu := mtu } evs).2 = 0) := by
  have h0 : TInv i { mtu := mtu } [] := ⟨by simp [finishedCount, txEvents, finCount], (fun t ht => by cases ht)⟩
  have h := tinv_run i evs _ [] h0
  simp only [List.nil_append] at h
  obtain ⟨hc, _⟩ := h
  refine ⟨?_, ?_, ?_⟩
  · split at hc <;> omega
  · intro hi hq
    rw [hq] at hc
    simp only [hi, if_true, List.map_nil, List.count_nil] at hc
    omega
  · intro hi
    have : ¬ (i < (drun { mtu := mtu } evs).1.txNext) := by omega
    simp only [this, if_false] at hc
    omega

/-- The idle indication of the UDPCL agent: after any history it is true exactly when every bundle
    announced as received has been popped and every transfer handed out by `send_bundle_data` has
    got its `send_bundle_finished` — true only when nothing is queued, and true once all of that
    has drained. -/
theorem C18u_idle (mtu : Option Nat) (evs : List DEv) :
    isTransferIdle (drun { mtu := mtu } evs).1 = true ↔
      ((announcedIds (drun { mtu := mtu } evs).2).filter
        (fun i => !(poppedIds (drun { mtu := mtu } evs).2).contains i) = [] ∧
       ∀ i, i < (drun { mtu := mtu } evs).1.txNext → finishedCount i (drun { mtu := mtu } evs).2 = 1) := by
  have hq := (C18u_recv_queue mtu evs).1
  have ht : ∀ i, TInv i (drun { mtu := mtu } evs).1 (drun { mtu := mtu } evs).2 := by
    intro i
    have h0 : TInv i { mtu := mtu } [] :=
      ⟨by simp [finishedCount, txEvents, finCount], (fun t ht => by cases ht)⟩
    have h := tinv_run i evs _ [] h0
    simpa using h
  generalize (drun { mtu := mtu } evs).1 = st at hq ht
  generalize (drun { mtu := mtu } evs).2 = obs at hq ht
  rw [← hq]
  simp only [isTransferIdle, Bool.and_eq_true, List.isEmpty_iff]
  constructor
  · rintro ⟨h1, h2⟩
    refine ⟨by simp [queueIds, h1], ?_⟩
    intro i hi
    have := (ht i).1
    rw [h2] at this
    simp only [hi, if_true, List.map_nil, List.count_nil] at this
    omega
  · rintro ⟨h1, h2⟩
    refine ⟨by simpa [queueIds] using h1, ?_⟩
    cases hql : st.txQueue with
    | nil => rfl
    | cons t r =>
      exfalso
      have hlt := (ht t.1).2 t (by rw [hql]; exact List.mem_cons_self)
      have hc := (ht t.1).1
      rw [h2 t.1 hlt] at hc
      simp only [hlt, if_true, hql, List.map_cons, List.count_cons_self] at hc
      omega

/-- `send_bundle_data` hands out the ids 0, 1, 2, … as strings, one per call. -/
theorem C18u_send_ids (st : DState) (data : Bytes) :
    (dstep st (.send data)).2 = [.sendRet st.txNext] ∧
    (dstep st (.send data)).1.txNext = st.txNext + 1 ∧
    render (.sendRet st.txNext) = some (.ret "send_bundle_data" (.str (toString st.txNext))) :=
  ⟨rfl, rfl, rfl⟩

/-- two bundles in one datagram, one queued transfer that cannot be segmented and one that can -/
example : ((drun { mtu := some 10 } [.dgram "10.0.0.2" 4556 [0x82, 1, 2, 0x81, 3], .getQueue, .pop 0, .pop 0,
      .send (List.replicate 100 7), .send [1, 2, 3], .drain]).2.filterMap render).length = 11 := by
  decide

end Udpcl
end DtnVerif
