/-
  C08 — Block CRCs are always valid on output and always checked on input.

  `Crc.crc16x25` / `Crc.crc32c` are bit-at-a-time reflected CRCs over `BitVec` (Model/Crc.lean),
  independent of the table-driven crcmod used by the repository and pinned to the CRC catalogue
  check values below. `updateCrc / checkCrc / updateAllCrc / checkAllCrc / recvGate` mirror
  `AbstractBlock.update_crc / check_crc`, `Bundle.update_all_crc / check_all_crc` and the first
  statement of `Agent.recv_bundle`.
-/
import DtnVerif.Lemmas.Crc
import DtnVerif.Lemmas.BundleDec
import DtnVerif.Lemmas.Cbor
import DtnVerif.Lemmas.CrcBurst
import DtnVerif.Model.BundleDec
import DtnVerif.Generated.Facts
namespace DtnVerif
namespace Props
namespace C08
open Bp Crc

def ascii (s : String) : Bytes := s.toList.map (fun c => UInt8.ofNat c.toNat)

/-! ### The two algorithms are the catalogued ones (kernel evaluation) -/

/-- CRC-16/X.25 (a.k.a. CRC-16/IBM-SDLC) check value of "123456789" is 0x906E. -/
theorem C08_check_crc16 : crc16x25 (ascii "123456789") = 0x906E := by decide +kernel

/-- CRC-32C (Castagnoli, CRC-32/ISCSI) check value of "123456789" is 0xE3069283. -/
theorem C08_check_crc32c : crc32c (ascii "123456789") = 0xE3069283 := by decide +kernel

/-- residues of the empty message and of a single zero octet (further pinning: init and xorout) -/
theorem C08_check_small : crc16x25 [] = 0 ∧ crc32c [] = 0 ∧ crc16x25 [0] = 0xF078
    ∧ crc32c [0] = 0x527D5351 := by decide +kernel

/-! ### update then check -/

/-- `check_crc()` holds after `update_crc()` for every primary and every canonical block value
    (any CRC type, any previous CRC value, any field contents). -/
theorem C08_check_update (p : Primary) (c : Canonical) :
    p.updateCrc.checkCrc = true ∧ c.updateCrc.checkCrc = true :=
  ⟨Primary.check_update p, Canonical.check_update c⟩

/-- … hence `check_all_crc()` is empty after `update_all_crc()` for every bundle. -/
theorem C08_check_update_all (b : Bundle) : b.updateAllCrc.checkAllCrc = [] := by
  rw [checkAllCrc_nil_iff]
  refine ⟨Primary.check_update _, ?_⟩
  intro c hc
  simp only [Bundle.updateAllCrc, List.mem_map] at hc
  obtain ⟨c0, _, rfl⟩ := hc
  exact Canonical.check_update c0

/-! ### what is on the wire after `update_all_crc` -/

/-- Every canonical block of `updateAllCrc b`: with CRC type 1 it carries the 2-octet big-endian
    bitwise CRC-16/X.25, with CRC type 2 the 4-octet big-endian bitwise CRC-32C, in both cases of
    the block encoded with a zeroed CRC field of that width; with CRC type 0 it carries no CRC
    field (5-item array). Nothing else of the block changes. -/
theorem C08_output (b : Bundle) : ∀ c ∈ b.updateAllCrc.blocks,
    (c.crcType = 1 → c.crc = some (beBytes 2 (crc16x25 c.zeroed.enc)) ∧ c.count = 6
        ∧ c.zeroed.crc = some [0, 0])
    ∧ (c.crcType = 2 → c.crc = some (beBytes 4 (crc32c c.zeroed.enc)) ∧ c.count = 6
        ∧ c.zeroed.crc = some [0, 0, 0, 0])
    ∧ (c.crcType = 0 → c.crc = none ∧ c.count = 5
        ∧ c.enc = Cbor.encArrHead 5 ++ (Cbor.encUint c.typeCode ++ Cbor.encUint c.blockNum
            ++ Cbor.encUint c.flags ++ Cbor.encUint 0 ++ encOptBstr c.btsd)) := by
  intro c hc
  simp only [Bundle.updateAllCrc, List.mem_map] at hc
  obtain ⟨c0, _, rfl⟩ := hc
  unfold Canonical.updateCrc
  refine ⟨?_, ?_, ?_⟩
  · intro h
    split at h
    · rename_i h0; simp at h0; simp [h0] at h
    · simp only at h
      simp [Canonical.crcValue, Canonical.zeroed, crcOf, h, Canonical.count, zeroCrc, crcWidth]
  · intro h
    split at h
    · rename_i h0; simp at h0; simp [h0] at h
    · simp only at h
      simp [Canonical.crcValue, Canonical.zeroed, crcOf, h, Canonical.count, zeroCrc, crcWidth]
  · intro h
    split at h
    · simp only at h
      simp [h, Canonical.count, Canonical.enc, Canonical.fields]
    · rename_i h0; simp at h0; simp only at h; exact absurd h h0

/-- The same for the primary block (8 or 10 items without CRC, 9 or 11 with). -/
theorem C08_output_primary (b : Bundle) :
    let p := b.updateAllCrc.primary
    (p.crcType = 1 → p.crc = some (beBytes 2 (crc16x25 p.zeroed.enc)) ∧ p.zeroed.crc = some [0, 0])
    ∧ (p.crcType = 2 → p.crc = some (beBytes 4 (crc32c p.zeroed.enc))
        ∧ p.zeroed.crc = some [0, 0, 0, 0])
    ∧ (p.crcType = 0 → p.crc = none ∧ p.count = 8 + (if isFragment p.flags then 2 else 0)) := by
  simp only [Bundle.updateAllCrc]
  unfold Primary.updateCrc
  refine ⟨?_, ?_, ?_⟩
  · intro h
    split at h
    · rename_i h0; simp at h0; simp [h0] at h
    · simp only at h
      simp [Primary.crcValue, Primary.zeroed, crcOf, h, zeroCrc, crcWidth]
  · intro h
    split at h
    · rename_i h0; simp at h0; simp [h0] at h
    · simp only at h
      simp [Primary.crcValue, Primary.zeroed, crcOf, h, zeroCrc, crcWidth]
  · intro h
    split at h
    · simp only at h
      simp [h, Primary.count]
    · rename_i h0; simp at h0; simp only at h; exact absurd h h0

/-- `update_all_crc` changes nothing but the CRC values. -/
theorem C08_update_only_crc (b : Bundle) :
    b.updateAllCrc.primary.zeroed = b.primary.zeroed
    ∧ b.updateAllCrc.blocks.map Canonical.zeroed = b.blocks.map Canonical.zeroed := by
  constructor
  · simp only [Bundle.updateAllCrc, Primary.updateCrc]; split <;> rfl
  · simp only [Bundle.updateAllCrc, List.map_map]
    apply List.map_congr_left
    intro c _
    simp only [Function.comp, Canonical.updateCrc]; split <;> rfl

/-- a concrete instance: all three CRC types in one bundle -/
def exC : Bundle :=
  { primary := { flags := 0x40, crcType := 2, dest := .dtn (ascii "//dst/svc"),
                 src := .dtn (ascii "//src/"), rpt := .dtn (ascii "//src/"), ts := ⟨1000, 5⟩,
                 lifetime := 3600000 },
    blocks := [ { typeCode := 7, blockNum := 2, crcType := 1, btsd := some (encBundleAge 70000) },
                { typeCode := 1, blockNum := 1, btsd := some (ascii "hello") } ] }

example : (exC.updateAllCrc.blocks.map (·.crc)) = [some [0xac, 0x72], none] := by decide +kernel
example : exC.updateAllCrc.checkAllCrc = [] := C08_check_update_all exC
example : exC.checkAllCrc = [0, 2] := by decide +kernel

/-! ### transmit: whatever happened to the primary block before, it leaves with its own CRC -/

/-- `send_bundle` ends with `update_all_crc()` for every bundle it transmits — locally sourced,
    relayed, or a fragment whose primary block was rewritten (IS_FRAGMENT, offset, total length) and
    still holds the all-zero placeholder or the CRC of the unfragmented primary block (`stale`).
    The transmitted primary block carries the CRC of *its own* zeroed encoding, independent of
    `stale`, and every block passes its check. -/
theorem C08_send_any_primary (p : Primary) (bs : List Canonical) (stale : Option Bytes) :
    let out := ({ primary := { p with crc := stale }, blocks := bs } : Bundle).updateAllCrc
    out.checkAllCrc = []
    ∧ out.primary.crc = (if p.crcType == 0 then none else some p.crcValue)
    ∧ out.primary.zeroed = p.zeroed := by
  refine ⟨C08_check_update_all _, ?_, ?_⟩
  · simp only [Bundle.updateAllCrc, Primary.updateCrc]
    split <;> simp [Primary.crcValue_setCrc]
  · simp only [Bundle.updateAllCrc, Primary.updateCrc]
    split <;> rfl

/-- fragment of a CRC-16 bundle: rewritten primary with the stale CRC of the unfragmented one fails
    the check (what an independent receiver sees when the CRC is not recomputed), and passes after
    `updateCrc` -/
def exFragSrc : Primary := ({ crcType := 1, ts := ⟨1, 1⟩, lifetime := 9 } : Primary).updateCrc
def exFrag : Primary := { exFragSrc with flags := 1, fragOff := 0, totalLen := 40 }
example : exFragSrc.checkCrc = true ∧ exFrag.checkCrc = false ∧ exFrag.updateCrc.checkCrc = true
    ∧ exFrag.updateCrc.crc ≠ exFragSrc.crc := by decide +kernel

/-- The CRCs are computed when everything else is done: whatever the TX-chain steps do to the
    bundle (encrypt a payload, add or alter blocks, touch the primary block — any functions
    `Bundle → Bundle`, in any number), the bundle encoded afterwards passes every check. -/
theorem C08_send_after_steps (steps : List (Bundle → Bundle)) (b : Bundle) :
    ((steps.foldl (fun acc f => f acc) b).updateAllCrc).checkAllCrc = [] :=
  C08_check_update_all _

/-- … whereas CRCs computed *before* a step are those of other octets: a step replacing the payload
    data (as an encryption does) after `updateAllCrc` leaves a block that fails its check. -/
def exStepSrc : Bundle :=
  { primary := { crcType := 0, ts := ⟨1, 1⟩, lifetime := 9 },
    blocks := [ { typeCode := 1, blockNum := 1, crcType := 1, btsd := some (ascii "attack") } ] }
def exEncrypt (b : Bundle) : Bundle :=
  { b with blocks := b.blocks.map fun c =>
      { c with btsd := c.btsd.map (fun d => d.map (fun x => x ^^^ 0x5a)) } }
example : (exEncrypt exStepSrc.updateAllCrc).checkAllCrc = [1]
    ∧ ((exEncrypt exStepSrc).updateAllCrc).checkAllCrc = [] := by decide +kernel

/-! ### the CRC of a block does not depend on the CRC value it already carries -/

/-- `update_crc()` on a block that already has a CRC value (a decoded block, or a second
    `update_all_crc()`): the value present is overwritten by zeros before the computation, so the
    result is the same as for the block without it. -/
theorem C08_update_ignores_old_value (c : Canonical) (p : Primary) (v : Option Bytes) :
    ({ c with crc := v } : Canonical).updateCrc = c.updateCrc
    ∧ ({ p with crc := v } : Primary).updateCrc = p.updateCrc := by
  constructor
  · simp only [Canonical.updateCrc, Canonical.crcValue_setCrc]
  · simp only [Primary.updateCrc, Primary.crcValue_setCrc]

theorem C08_update_idempotent (b : Bundle) : b.updateAllCrc.updateAllCrc = b.updateAllCrc := by
  have hp := Primary.update_of_check _ (Primary.check_update b.primary)
  simp only [Bundle.updateAllCrc, List.map_map, hp]
  congr 1
  apply List.map_congr_left
  intro c _
  exact Canonical.update_of_check _ (Canonical.check_update c)

/-- A bundle whose CRCs all check (e.g. one just decoded from valid octets) is left unchanged by
    `update_all_crc()`: the agent's `fill_fields(); update_all_crc(); bytes()` reproduces its octets. -/
theorem C08_update_of_valid (b : Bundle) (h : b.checkAllCrc = []) : b.updateAllCrc = b := by
  obtain ⟨hp, hc⟩ := (checkAllCrc_nil_iff b).1 h
  cases b with
  | mk p bs =>
    simp only [Bundle.updateAllCrc, Primary.update_of_check p hp]
    congr 1
    conv => rhs; rw [← List.map_id bs]
    apply List.map_congr_left
    intro c hcm
    exact Canonical.update_of_check c (hc c hcm)

/-- `update_crc(keep_existing=True)`: a block without a value gets the right one (and passes its
    check), a block that has a value keeps exactly that value, CRC type 0 ends without a value. -/
theorem C08_update_keep (c : Canonical) :
    (c.crc = none → c.updateCrcKeep.checkCrc = true)
    ∧ (∀ v, c.crcType ≠ 0 → c.crc = some v → c.updateCrcKeep = c)
    ∧ (c.crcType = 0 → c.updateCrcKeep.crc = none ∧ c.updateCrcKeep.checkCrc = true) := by
  refine ⟨?_, ?_, ?_⟩
  · intro h
    have : c.updateCrcKeep = c.updateCrc := by
      unfold Canonical.updateCrcKeep Canonical.updateCrc
      split
      · rfl
      · simp [h]
    rw [this]; exact Canonical.check_update c
  · intro v h0 hv
    have : (c.crcType == 0) = false := by simpa using h0
    simp [Canonical.updateCrcKeep, this, hv]
  · intro h0
    simp [Canonical.updateCrcKeep, Canonical.checkCrc, h0]

/-! ### surplus array items ⇒ rejected -/

/-- A canonical block whose array head announces a number of items different from what its CRC type
    dictates (5, or 6 with a CRC) does not decode — in particular a block whose CRC type octet was
    corrupted to 0 while the CRC value is still there (head says 6, type 0 allows 5), and a head
    `86 → 87` that swallows the following block. -/
theorem C08_surplus_items_rejected (c : Canonical) (n : Nat) (r : Bytes) (h : wfCanonical c = true)
    (hn : n < 2 ^ 64) (hne : n ≠ c.count) :
    decCanonical (Cbor.encArrHead n ++ c.fields ++ r) = none := by
  simp only [wfCanonical, Bool.and_eq_true, decide_eq_true_eq] at h
  obtain ⟨⟨⟨⟨⟨ht, hnm⟩, hf⟩, hc⟩, hb⟩, hcrc⟩ := h
  have hc' : ¬ (c.crcType > 2) := by omega
  simp only [Canonical.fields, List.append_assoc, decCanonical,
    Cbor.decArrHead_enc _ _ hn, Cbor.decUint_enc _ _ ((u64_iff _).1 ht),
    Cbor.decUint_enc _ _ ((u64_iff _).1 hnm), Cbor.decUint_enc _ _ ((u64_iff _).1 hf),
    Cbor.decUint_enc c.crcType _ (by omega), hc', if_false, decOptBstr_enc _ _ hb,
    decCanonical, decCrcSlot_enc _ _ _ hcrc]
  simp [hne]

/-- CRC type octet flipped to 0 in a CRC-16 payload block: 6 items, type 0 -/
example : decCanonical [0x86, 0x01, 0x01, 0x00, 0x00, 0x41, 0x61, 0x42, 0x12, 0x34] = none := by
  decide +kernel

/-! ### a text string in a byte-string slot is not the same field value -/

/-- In a byte-string slot (block data, CRC value) the text string with octets `d` decodes to "no
    value", the byte string with the same octets to `d`: flipping the major type of the head
    (`40+n` ↔ `60+n`) changes the decoded field, even when `d` is valid UTF-8. -/
theorem C08_text_not_bytes (d r : Bytes) (h : d.length < 2 ^ 64) :
    decOptBstr (Cbor.encTstr d ++ r) = some (none, r)
    ∧ decOptBstr (Cbor.encBstr d ++ r) = some (some d, r) := by
  constructor
  · have hh := Cbor.decHead_head 3 d.length (d ++ r) (by omega) h
    have hlt : ¬ (d.length + r.length < d.length) := by omega
    simp [decOptBstr, Cbor.decBstr, Cbor.decUint, Cbor.decTstr, Cbor.encTstr, List.append_assoc, hh, hlt]
  · simp [decOptBstr, Cbor.decBstr_enc d r h]

/-- block level: the payload `"hello world"` as a text string in a CRC-16 block decodes to a block
    without data, which re-encodes differently and fails the CRC carried by the original block -/
def exTextBlk : Canonical :=
  ({ typeCode := 1, blockNum := 1, crcType := 1, btsd := some (ascii "hello world") } : Canonical).updateCrc
example : exTextBlk.checkCrc = true ∧ exTextBlk.enc[5]? = some 0x4b
    ∧ (decCanonical (exTextBlk.enc.set 5 0x6b)).map (fun x => (x.1.btsd, x.1.checkCrc))
      = some (none, false) := by decide +kernel

/-! ### a CRC field that is not a byte string of the right width is a CRC failure -/

/-- For a block with CRC type 1 or 2, a missing CRC value (CBOR null, or — as `BstrField.m2i`
    yields `None` for it — a text string) or a value of the wrong length never passes `check_crc`;
    for CRC type 0 any value present fails. Canonical and primary blocks. -/
theorem C08_crc_field_malformed (t : Nat) (ht : t = 1 ∨ t = 2) :
    (∀ c : Canonical, c.crcType = t →
      (c.crc = none ∨ ∃ d, c.crc = some d ∧ d.length ≠ crcWidth t) → c.checkCrc = false)
    ∧ (∀ p : Primary, p.crcType = t →
      (p.crc = none ∨ ∃ d, p.crc = some d ∧ d.length ≠ crcWidth t) → p.checkCrc = false) := by
  have ht0 : (t == 0) = false := by rcases ht with rfl | rfl <;> decide
  constructor
  · intro c h1 h
    simp only [Canonical.checkCrc, h1, ht0, Bool.false_eq_true, if_false]
    rcases h with h | ⟨d, hd, hl⟩
    · simp [h]
    · rw [hd]
      cases hb : (some d == some c.crcValue)
      · rfl
      · simp only [beq_iff_eq, Option.some.injEq] at hb
        have := crcOf_length c.crcType c.zeroed.enc
        rw [Canonical.crcValue] at hb
        rw [← hb, h1] at this
        exact absurd this hl
  · intro p h1 h
    simp only [Primary.checkCrc, h1, ht0, Bool.false_eq_true, if_false]
    rcases h with h | ⟨d, hd, hl⟩
    · simp [h]
    · rw [hd]
      cases hb : (some d == some p.crcValue)
      · rfl
      · simp only [beq_iff_eq, Option.some.injEq] at hb
        have := crcOf_length p.crcType p.zeroed.enc
        rw [Primary.crcValue] at hb
        rw [← hb, h1] at this
        exact absurd this hl

/-- the decoder hands such fields to the check as "no value": `62 xx xx` (text) and `f6` (null) in
    the CRC slot of a CRC-16 block decode, and the decoded block fails its check -/
example : (decCanonical [0x86, 0x01, 0x01, 0x00, 0x01, 0x41, 0x61, 0x62, 0x31, 0x32]).map
    (fun x => (x.1.crc, x.1.checkCrc)) = some (none, false) := by decide +kernel
example : (decCanonical [0x86, 0x01, 0x01, 0x00, 0x01, 0x41, 0x61, 0xf6]).map
    (fun x => (x.1.crc, x.1.checkCrc)) = some (none, false) := by decide +kernel

/-! ### the receive gate -/

/-- A bundle with any failing block leaves the agent state (seen set, queues, … — every component
    of `σ`) unchanged and produces no effect, whatever the rest of the receive path is. -/
theorem C08_gate {σ ε : Type} (rest : σ → Bundle → σ × List ε) (s : σ) (b : Bundle)
    (h : b.checkAllCrc ≠ []) : recvGate rest s b = (s, []) := by
  unfold recvGate
  cases hb : b.checkAllCrc with
  | nil => exact absurd hb h
  | cons x xs => simp

/-- … and the gate stops exactly those bundles: with all CRCs valid the rest of the path runs. -/
theorem C08_gate_pass {σ ε : Type} (rest : σ → Bundle → σ × List ε) (s : σ) (b : Bundle)
    (h : b.checkAllCrc = []) : recvGate rest s b = rest s b := by
  simp [recvGate, h]

/-- `check_all_crc` is empty exactly when every block passes its own check. -/
theorem C08_check_all (b : Bundle) :
    b.checkAllCrc = [] ↔ b.primary.checkCrc = true ∧ ∀ c ∈ b.blocks, c.checkCrc = true :=
  checkAllCrc_nil_iff b

/-- Type 0 is valid iff there is no CRC value. -/
theorem C08_type0 (c : Canonical) (h : c.crcType = 0) : c.checkCrc = c.crc.isNone := by
  simp [Canonical.checkCrc, h]

example : recvGate (recvSeen .dtnNone) [] exC = ([], []) := C08_gate _ _ _ (by decide +kernel)
example : recvGate (recvSeen .dtnNone) [] exC.updateAllCrc
    = ([exC.ident], [.accepted exC.ident]) := by decide +kernel

/-- … hence the gate drops every bundle that has such a block. -/
theorem C08_gate_malformed_crc {σ ε : Type} (rest : σ → Bundle → σ × List ε) (s : σ) (b : Bundle)
    (c : Canonical) (hc : c ∈ b.blocks) (ht : c.crcType = 1 ∨ c.crcType = 2)
    (h : c.crc = none ∨ ∃ d, c.crc = some d ∧ d.length ≠ crcWidth c.crcType) :
    recvGate rest s b = (s, []) := by
  apply C08_gate
  intro hnil
  have := ((checkAllCrc_nil_iff b).1 hnil).2 c hc
  rw [(C08_crc_field_malformed c.crcType ht).1 c rfl h] at this
  exact absurd this (by decide)

/-! ### GF(2) linearity and burst detection (generic width, any message length) -/

/-- One CRC step is linear over GF(2) in (register, input bit). -/
theorem C08_step_linear {w : Nat} (p a b : BitVec w) (x y : Bool) :
    crcStep p (a ^^^ b) (x != y) = crcStep p a x ^^^ crcStep p b y := crcStep_xor p a b x y

/-- The zero-input step is injective (and fixes 0) when the reflected polynomial has its top bit
    set, i.e. the generator polynomial has a non-zero constant term. -/
theorem C08_step0_inj {w : Nat} (p c d : BitVec w) (hp : p.msb = true)
    (h : crcStep p c false = crcStep p d false) : c = d := step0_inj p c d hp h

/-- Burst detection for the bit-level CRC register, message of any length, any initial register:
    an error pattern confined to a window of at most `w` bits and not all zero changes the result. -/
theorem C08_crc_burst {w : Nat} (p init xorout : BitVec w) (hp : p.msb = true) (z z' : Bytes)
    (pre post : Nat) (burst : List Bool)
    (hm : (bitsOf z).length = pre + burst.length + post)
    (hz : bitsOf z' = xorBits (bitsOf z) (burstPattern pre burst post))
    (hlen : burst.length ≤ w) (hne : burst.any id = true) :
    crc p init xorout z' ≠ crc p init xorout z :=
  crc_burst p init xorout hp z z' pre post burst hm hz hlen hne

/-- both BPv7 polynomials satisfy the hypothesis -/
example : (0x8408#16).msb = true ∧ (0x82F63B78#32).msb = true := by decide
/-- a single flipped bit is a burst: CRC-16/X.25 of "123456789" vs "123456788" -/
example : bitsOf (ascii "123456788")
    = xorBits (bitsOf (ascii "123456789")) (burstPattern 64 [true] 7) := by decide +kernel

/-- **Burst detection at block level (partial).** Let `c` be a block whose CRC checks (type 1 or 2)
    and `c'` the block a receiver decoded from corrupted octets, with the same CRC type and the same
    CRC value octets. If the encodings-with-zeroed-CRC-field of `c'` and `c` (what `check_crc`
    feeds to the CRC) differ by a non-zero error pattern confined to a window of at most 16 resp. 32
    bits, then `check_crc` fails on `c'`. Same for the primary block.

    Missing for the full property (`C08_burst_statement` below, which is false, see the counterexample):
    the hypothesis is about the *re-encoding* `c'.zeroed.enc` of the decoded fields, because that is what
    the code checks. It coincides with the received octets only when those are the canonical
    encoding of what they decode to (D20: `bytes(int)` in byte-string slots, the remaining `urlsplit`
    normalisations of non-RFC EIDs; outside the model also the
    lenient dissector: ignored surplus array items, CRC type flipped to 0, `true == 1`; the uint in a
    bstr slot is modelled and is the witness of `C08_burst_counterexample`).
    Bursts that straddle the boundary between the covered fields and the CRC value are not covered
    either (the CRC value is stored big-endian while the CRC is reflected, so the block is not a
    polynomial code word); corruption confined to the CRC value is `C08_crcfield`. -/
theorem C08_burst_partial (t : Nat) (ht : t = 1 ∨ t = 2) (pre post : Nat) (burst : List Bool)
    (hlen : burst.length ≤ 16 * t) (hne : burst.any id = true) :
    (∀ c c' : Canonical, c.crcType = t → c'.crcType = t → c.checkCrc = true → c'.crc = c.crc →
      (bitsOf c.zeroed.enc).length = pre + burst.length + post →
      bitsOf c'.zeroed.enc = xorBits (bitsOf c.zeroed.enc) (burstPattern pre burst post) →
      c'.checkCrc = false)
    ∧ (∀ p p' : Primary, p.crcType = t → p'.crcType = t → p.checkCrc = true → p'.crc = p.crc →
      (bitsOf p.zeroed.enc).length = pre + burst.length + post →
      bitsOf p'.zeroed.enc = xorBits (bitsOf p.zeroed.enc) (burstPattern pre burst post) →
      p'.checkCrc = false) := by
  have ht0 : (t == 0) = false := by rcases ht with rfl | rfl <;> decide
  constructor
  · intro c c' h1 h2 hchk hcrc hm hz
    have hne' := crcOf_burst t ht c.zeroed.enc c'.zeroed.enc pre post burst hm hz hlen hne
    simp only [Canonical.checkCrc, h1, h2, ht0, Bool.false_eq_true, if_false, beq_iff_eq] at hchk ⊢
    rw [hcrc, hchk]
    simp only [Canonical.crcValue, h1, h2]
    cases hb : (some (crcOf t c.zeroed.enc) == some (crcOf t c'.zeroed.enc))
    · rfl
    · simp only [beq_iff_eq, Option.some.injEq] at hb
      exact absurd hb.symm hne'
  · intro p p' h1 h2 hchk hcrc hm hz
    have hne' := crcOf_burst t ht p.zeroed.enc p'.zeroed.enc pre post burst hm hz hlen hne
    simp only [Primary.checkCrc, h1, h2, ht0, Bool.false_eq_true, if_false, beq_iff_eq] at hchk ⊢
    rw [hcrc, hchk]
    simp only [Primary.crcValue, h1, h2]
    cases hb : (some (crcOf t p.zeroed.enc) == some (crcOf t p'.zeroed.enc))
    · rfl
    · simp only [beq_iff_eq, Option.some.injEq] at hb
      exact absurd hb.symm hne'

/-- Corruption confined to the CRC value itself is always detected. -/
theorem C08_crcfield (c c' : Canonical) (ht : c.crcType ≠ 0) (hchk : c.checkCrc = true)
    (hz : c'.zeroed = c.zeroed) (hcrc : c'.crc ≠ c.crc) : c'.checkCrc = false := by
  have ht' : c'.crcType = c.crcType := by
    have := congrArg Canonical.crcType hz; simpa using this
  have h0 : (c.crcType == 0) = false := by simpa using ht
  simp only [Canonical.checkCrc, ht', h0, Bool.false_eq_true, if_false, beq_iff_eq] at hchk ⊢
  simp only [Canonical.crcValue, ht', hz]
  simp only [Canonical.crcValue] at hchk
  cases hb : (c'.crc == some (crcOf c.crcType c.zeroed.enc))
  · rfl
  · simp only [beq_iff_eq] at hb
    exact absurd (hb.trans hchk.symm) hcrc

/-- two octet strings of equal length that differ in exactly one bit, not in the first or last octet -/
def oneBitInside : Bytes → Bytes → Nat → Bool
  | x :: xs, y :: ys, i =>
    if x == y then oneBitInside xs ys (i + 1)
    else i != 0 && !xs.isEmpty && xs == ys
         && [1, 2, 4, 8, 16, 32, 64, 128].contains (x ^^^ y).toNat
  | _, _, _ => false

/-- The full-strength input half of C08 for single-bit corruption, as a proposition: every bundle all
    of whose blocks are CRC-protected and valid, corrupted in one bit anywhere between the outer
    array framing octets, is — if it still decodes — rejected by the gate. -/
def C08_burst_statement : Prop :=
  ∀ (b b' : Bundle) (r : Bytes), b.checkAllCrc = [] → b.primary.crcType ≠ 0 →
    (∀ c ∈ b.blocks, c.crcType ≠ 0) → oneBitInside b.enc r 0 = true →
    decodeBundle r = some b' → b'.checkAllCrc ≠ []

/-- D20 witness (still reproduces on the repository after the D19 fix): an extension block (type
    192, CRC-16) with empty block-type-specific data. Flipping one bit of its `40` (empty bstr) gives
    `00` (unsigned 0); `BstrField.m2i` turns that into `bytes(0) = b''`, the decoded bundle is the
    original one, every CRC check — run over the re-encoding — passes. -/
def d20Orig : Bundle :=
  { primary := { flags := 0x64000, crcType := 2, dest := .dtn (ascii "//node/svc"),
                 src := .dtn (ascii "//src/"), rpt := .dtn (ascii "//src/"), ts := ⟨1000, 5⟩,
                 lifetime := 300000, crc := some [0xb1, 0x44, 0x3e, 0x22] },
    blocks := [ { typeCode := 192, blockNum := 2, crcType := 1, btsd := some [],
                  crc := some [0x9e, 0x97] },
                { typeCode := 1, blockNum := 1, crcType := 1, btsd := some (ascii "hello"),
                  crc := some [0x4b, 0xf3] } ] }

/-- octet 61 (`40`, the empty BTSD of block 2) with bit 6 flipped -/
def d20Corrupted : Bytes := d20Orig.enc.set 61 0x00

/- The kernel evaluates the bitwise CRC of the witness in 8-octet pieces (a single 57-octet fold
   exceeds its recursion depth); the pieces are chained with `crcReg_append`. -/
private theorem d20_prim_0 : crcReg (0x82F63B78#32) (0xFFFFFFFF#32) [137, 7, 26, 0, 6, 64, 0, 2] = 0xC8A978DB#32 := by decide +kernel
private theorem d20_prim_1 : crcReg (0x82F63B78#32) (0xC8A978DB#32) [130, 1, 106, 47, 47, 110, 111, 100] = 0x926C60B9#32 := by decide +kernel
private theorem d20_prim_2 : crcReg (0x82F63B78#32) (0x926C60B9#32) [101, 47, 115, 118, 99, 130, 1, 102] = 0xEA5FF38A#32 := by decide +kernel
private theorem d20_prim_3 : crcReg (0x82F63B78#32) (0xEA5FF38A#32) [47, 47, 115, 114, 99, 47, 130, 1] = 0x47266B1F#32 := by decide +kernel
private theorem d20_prim_4 : crcReg (0x82F63B78#32) (0x47266B1F#32) [102, 47, 47, 115, 114, 99, 47, 130] = 0xA16FC565#32 := by decide +kernel
private theorem d20_prim_5 : crcReg (0x82F63B78#32) (0xA16FC565#32) [25, 3, 232, 5, 26, 0, 4, 147] = 0x6A54BEC2#32 := by decide +kernel
private theorem d20_prim_6 : crcReg (0x82F63B78#32) (0x6A54BEC2#32) [224, 68, 0, 0, 0, 0] = 0x4EBBC1DD#32 := by decide +kernel
private theorem d20_ext_0 : crcReg (0x8408#16) (0xFFFF#16) [134, 24, 192, 2, 0, 1, 64, 66] = 0xADAD#16 := by decide +kernel
private theorem d20_ext_1 : crcReg (0x8408#16) (0xADAD#16) [0, 0] = 0x6168#16 := by decide +kernel
private theorem d20_pay_0 : crcReg (0x8408#16) (0xFFFF#16) [134, 1, 1, 0, 1, 69, 104, 101] = 0x8D6F#16 := by decide +kernel
private theorem d20_pay_1 : crcReg (0x8408#16) (0x8D6F#16) [108, 108, 111, 66, 0, 0] = 0xB40C#16 := by decide +kernel

private theorem d20_prim_enc : d20Orig.primary.zeroed.enc =
    [137, 7, 26, 0, 6, 64, 0, 2] ++ ([130, 1, 106, 47, 47, 110, 111, 100] ++ ([101, 47, 115, 118, 99, 130, 1, 102]
    ++ ([47, 47, 115, 114, 99, 47, 130, 1] ++ ([102, 47, 47, 115, 114, 99, 47, 130]
    ++ ([25, 3, 232, 5, 26, 0, 4, 147] ++ [224, 68, 0, 0, 0, 0]))))) := by decide +kernel

private theorem d20_blk_enc (c : Canonical) (h : c ∈ d20Orig.blocks) :
    c.crcType = 1 ∧
    ((c.crc = some [0x9e, 0x97] ∧ c.zeroed.enc = [134, 24, 192, 2, 0, 1, 64, 66] ++ [0, 0])
     ∨ (c.crc = some [0x4b, 0xf3] ∧ c.zeroed.enc = [134, 1, 1, 0, 1, 69, 104, 101] ++ [108, 108, 111, 66, 0, 0])) := by
  simp only [d20Orig, List.mem_cons, List.not_mem_nil, or_false] at h
  rcases h with rfl | rfl
  · exact ⟨rfl, Or.inl ⟨rfl, by decide +kernel⟩⟩
  · exact ⟨rfl, Or.inr ⟨rfl, by decide +kernel⟩⟩

theorem C08_d20_checks : d20Orig.checkAllCrc = [] := by
  rw [checkAllCrc_nil_iff]
  constructor
  · have ht : d20Orig.primary.crcType = 2 := rfl
    have hc : d20Orig.primary.crc = some [0xb1, 0x44, 0x3e, 0x22] := rfl
    simp only [Primary.checkCrc, ht, hc, Primary.crcValue, crcOf, crc32c, crc, d20_prim_enc,
      crcReg_append, d20_prim_0, d20_prim_1, d20_prim_2, d20_prim_3, d20_prim_4, d20_prim_5,
      d20_prim_6]
    decide
  · intro c hc
    obtain ⟨h1, h | h⟩ := d20_blk_enc c hc
    · simp only [Canonical.checkCrc, h1, h.1, Canonical.crcValue, crcOf, crc16x25, crc, h.2,
        crcReg_append, d20_ext_0, d20_ext_1]
      decide
    · simp only [Canonical.checkCrc, h1, h.1, Canonical.crcValue, crcOf, crc16x25, crc, h.2,
        crcReg_append, d20_pay_0, d20_pay_1]
      decide

theorem C08_burst_counterexample : ¬ C08_burst_statement := by
  intro h
  have := h d20Orig d20Orig d20Corrupted C08_d20_checks (by decide +kernel) (by decide +kernel)
    (by decide +kernel) (by decide +kernel)
  exact this C08_d20_checks

/-- the witness octets (replayed on the implementation by harness/props/c08.py `check_d20`) -/
example : toHex d20Orig.enc =
    "9f89071a000640000282016a2f2f6e6f64652f7376638201662f2f7372632f8201662f2f7372632f821903e8051a000493e044b1443e228618c002000140429e9786010100014568656c6c6f424bf3ff" := by
  decide +kernel
example : d20Orig.enc[61]? = some 0x40 ∧ d20Corrupted[61]? = some 0x00 := by decide +kernel

/-- The former witness (one-bit flip `/`→`?` at the end of `dtn://src/`) is detected since the D19
    fix: the decoded bundle re-encodes with `//src/?`, so the CRC-32C check of the primary block
    fails in the model exactly as in the repository. -/
example : (decodeBundle (({ d20Orig with primary := { d20Orig.primary with rpt := .dtn (ascii "//src?") } }
    : Bundle).enc)).map (fun b => b.primary.rpt) = some (.dtn (ascii "//src/?")) := by decide +kernel

/-! ### Facts of the source -/

theorem C08_facts :
    Facts.crcDefs = [("CRC16", "x-25", ">H"), ("CRC32", "crc-32c", ">L")]
    ∧ Facts.enum_blocks_AbstractBlock_CrcType_NONE = 0
    ∧ Facts.enum_blocks_AbstractBlock_CrcType_CRC16 = 1
    ∧ Facts.enum_blocks_AbstractBlock_CrcType_CRC32 = 2
    ∧ crcWidth 1 = 2 ∧ crcWidth 2 = 4 ∧ crcWidth 0 = 0 := by
  repeat' apply And.intro
  all_goals decide

end C08
end Props
end DtnVerif
