/-
  C13 — UDPCL transfers arrive intact and no datagram exceeds the MTU.
  Theorems about `DtnVerif.Udpcl` (Model/Udpcl.lean), all unbounded in lengths, MTUs, numbers of
  segments, arrival orders and interleavings.
-/
import DtnVerif.Model.Udpcl
import DtnVerif.Lemmas.UdpclSend
import DtnVerif.Lemmas.UdpclRecv
import DtnVerif.Lemmas.UdpclDgram
import DtnVerif.Lemmas.UdpclQueue
import DtnVerif.Generated.Facts
namespace DtnVerif
namespace Udpcl
open Cbor

/-- Constants of the source the model relies on: extension keys (2 = TRANSFER is handled, 3..8 are
    outside the model), and the D-Bus shapes of the observation points. -/
theorem C13_facts :
    Facts.enum_udpcl_ExtensionKey_TRANSFER = 2 ∧
    Facts.enum_udpcl_ExtensionKey_SENDER_LISTEN = 3 ∧
    Facts.enum_udpcl_ExtensionKey_SENDER_NODEID = 4 ∧
    Facts.enum_udpcl_ExtensionKey_STARTTLS = 5 ∧
    Facts.enum_udpcl_ExtensionKey_PEER_PROBE = 6 ∧
    Facts.enum_udpcl_ExtensionKey_PEER_CONFIRM = 7 ∧
    Facts.enum_udpcl_ExtensionKey_ECN_COUNTS = 8 ∧
    ("udpcl.Agent.recv_bundle_finished", "signal", "sta{sv}", "") ∈ Facts.dbusSigs ∧
    ("udpcl.Agent.recv_bundle_get_queue", "method", "", "as") ∈ Facts.dbusSigs ∧
    ("udpcl.Agent.recv_bundle_pop_data", "method", "s", "ay") ∈ Facts.dbusSigs := by
  decide

/-! ## Sending -/

/-- `len(data) < mtu` (or no MTU configured): exactly one datagram, the bundle itself. -/
theorem C13_single (id : Nat) (data : Bytes) (mtu : Nat) (h : data.length < mtu) :
    sendTransfer id data (some mtu) = .ok [data] ∧ sendTransfer id data none = .ok [data] := by
  simp [sendTransfer, h]

example : sendTransfer 7 [0x9f, 1, 2, 0xff] (some 5) = .ok [[0x9f, 1, 2, 0xff]] := by decide

/-- The segmented case: whenever `remain_size > 0` the datagrams are the TRANSFER maps of
    consecutive, non-empty parts `(offset, chunk)` that start at 0 and concatenate to the bundle:
    together they carry every octet exactly once. -/
theorem C13_cover (id : Nat) (data : Bytes) (mtu : Nat) (hseg : mtu ≤ data.length)
    (hrem : 0 < remainSize mtu id data.length) :
    ∃ ps : List (Nat × Bytes),
      sendTransfer id data (some mtu) =
        .ok (ps.map fun p => encTransfer id data.length p.1 p.2) ∧
      Contig 0 ps ∧ (ps.map (·.2)).flatten = data ∧
      (∀ p ∈ ps, 0 < p.2.length ∧ (p.2.length : Int) ≤ remainSize mtu id data.length) ∧
      (∀ p ∈ ps, p.1 + p.2.length ≤ data.length ∧ p.2 = (data.drop p.1).take p.2.length) := by
  have hr : 0 < (remainSize mtu id data.length).toNat := by omega
  obtain ⟨hc, hcat, hall⟩ := splitLoop_spec data _ hr (data.length + 1) 0 (by omega)
  refine ⟨_, ?_, hc, by simpa using hcat, ?_, ?_⟩
  · have : ¬ (remainSize mtu id data.length ≤ 0) := by omega
    simp only [sendTransfer, Nat.not_lt.mpr hseg, if_false, this]
  · intro p hp
    obtain ⟨h1, h2⟩ := hall p hp
    exact ⟨h1, by omega⟩
  · exact contig_slices data _ 0 (Nat.zero_le _) hc (by simpa using hcat)

/-- `_send_transfer` either fails — exactly when the bundle does not fit one datagram and
    `remain_size ≤ 0` — or every datagram it returns is within the MTU (for all lengths, MTUs and
    ids, across every CBOR head-size boundary: the bound is arithmetic over `headLen`). -/
theorem C13_size (id : Nat) (data : Bytes) (mtu : Nat) :
    (sendTransfer id data (some mtu) = .failed ∧ mtu ≤ data.length ∧
        remainSize mtu id data.length ≤ 0) ∨
    ∃ segs, sendTransfer id data (some mtu) = .ok segs ∧ ∀ d ∈ segs, d.length ≤ mtu := by
  by_cases hseg : mtu ≤ data.length
  · by_cases hrem : 0 < remainSize mtu id data.length
    · right
      obtain ⟨ps, hs, _, _, hall, hsl⟩ := C13_cover id data mtu hseg hrem
      refine ⟨_, hs, ?_⟩
      intro d hd
      obtain ⟨p, hp, rfl⟩ := List.mem_map.mp hd
      have := hsl p hp
      exact encTransfer_le_mtu mtu id data.length p.1 p.2 (by omega) (by omega) (hall p hp).2
    · left
      have hle : remainSize mtu id data.length ≤ 0 := by omega
      exact ⟨by simp only [sendTransfer, Nat.not_lt.mpr hseg, if_false, hle, if_true], hseg, hle⟩
  · right
    have h : data.length < mtu := Nat.lt_of_not_le hseg
    refine ⟨[data], (C13_single id data mtu h).1, ?_⟩
    intro d hd
    simp at hd; subst hd; omega

/-- The bound is uniform in the transfer id: a series of transfers from one agent — same MTU, any
    ids (growing across 24, 256, 65536, 2^32), any lengths — never contains a datagram above the MTU.
    The sizing depends on nothing but `(mtu, id, len)`; there is no state carried between transfers. -/
theorem C13_size_any_ids (mtu : Nat) (transfers : List (Nat × Bytes)) :
    ∀ t ∈ transfers, sendTransfer t.1 t.2 (some mtu) = .failed ∨
      ∃ segs, sendTransfer t.1 t.2 (some mtu) = .ok segs ∧ ∀ d ∈ segs, d.length ≤ mtu := by
  intro t _
  rcases C13_size t.1 t.2 mtu with ⟨h, _, _⟩ | h
  · exact Or.inl h
  · exact Or.inr h

/-- Why the room for data must be computed per transfer: it shrinks when the id's CBOR head grows
    (a size computed for a smaller id is too large for a bigger one). -/
theorem C13_remain_antitone (mtu total : Nat) {id id' : Nat} (h : id ≤ id') :
    remainSize mtu id' total ≤ remainSize mtu id total := by
  rw [remainSize_eq, remainSize_eq]
  unfold overhead
  have := headLen_mono h
  omega

example : remainSize 400 24 1000 < remainSize 400 23 1000 := by decide

example : 0 < remainSize 30 5 300 := by decide
example : (0 : Int) < remainSize 1280 (2 ^ 32) 70000 := by decide

/-- The failure branch: a bundle that does not fit one datagram with an MTU that leaves no room
    for fragment data (`remain_size ≤ 0`) is not segmented at all — no datagram is handed on and
    `send_bundle_finished(id, total_length, 'failed')` is signalled. -/
theorem C13_too_small_fails (id : Nat) (data : Bytes) (mtu : Nat) (hseg : mtu ≤ data.length)
    (hrem : remainSize mtu id data.length ≤ 0) :
    sendTransfer id data (some mtu) = .failed ∧
    processTx id data (some mtu) = ([], some (id, data.length, "failed")) := by
  have h : sendTransfer id data (some mtu) = .failed := by
    simp only [sendTransfer, Nat.not_lt.mpr hseg, if_false, hrem, if_true]
  exact ⟨h, by simp only [processTx, h]⟩

example : processTx 0 [0x9f, 1, 2, 3, 4, 5, 0xff] (some 7) = ([], some (0, 7, "failed")) := by decide

/-- Conversely nothing fails needlessly: with room for at least one data octet, or a bundle that
    fits, datagrams are produced and no failure is signalled. -/
theorem C13_fails_only_when_too_small (id : Nat) (data : Bytes) (mtu : Nat)
    (h : data.length < mtu ∨ 0 < remainSize mtu id data.length) :
    ∃ ds, processTx id data (some mtu) = (ds, none) ∧ (data ≠ [] → ds ≠ []) := by
  rcases C13_size id data mtu with ⟨_, h1, h2⟩ | ⟨segs, hs, _⟩
  · omega
  · refine ⟨segs, by simp only [processTx, hs], ?_⟩
    intro hne
    by_cases hseg : mtu ≤ data.length
    · have hrem : 0 < remainSize mtu id data.length := by omega
      obtain ⟨ps, hs', _, hcat, _, _⟩ := C13_cover id data mtu hseg hrem
      rw [hs] at hs'
      injection hs' with hs'
      rw [hs']
      intro hnil
      have : ps = [] := by simpa using hnil
      subst this
      simp at hcat
      exact hne hcat
    · have := (C13_single id data mtu (Nat.lt_of_not_le hseg)).1
      rw [hs] at this
      injection this with this
      rw [this]; simp

/-! ## The send queue -/

private theorem finCount_append (i : Nat) (a b : List TxEvent) :
    finCount i (a ++ b) = finCount i a + finCount i b := by
  simp [finCount, List.filter_append]

private theorem finCount_dgrams (i : Nat) (ds : List Bytes) : finCount i (ds.map .dgram) = 0 := by
  induction ds with
  | nil => rfl
  | cons d ds ih => simp [finCount]

private theorem finCount_item (i : Nat) (mtu : Option Nat) (t : Nat × Bytes) :
    finCount i (txItem mtu t) = if t.1 = i then 1 else 0 := by
  unfold txItem
  cases sendTransfer t.1 t.2 mtu with
  | failed =>
    by_cases h : t.1 = i
    · simp [finCount, List.filter, h]
    · have hb : (t.1 == i) = false := by simpa using h
      simp [finCount, List.filter, h, hb]
  | ok ds =>
    have := finCount_dgrams i ds
    rw [show (TxEvent.started t.1 t.2.length :: (ds.map TxEvent.dgram ++
        [TxEvent.finished t.1 t.2.length "success"])) =
      [TxEvent.started t.1 t.2.length] ++ (ds.map TxEvent.dgram ++
        [TxEvent.finished t.1 t.2.length "success"]) from rfl]
    rw [finCount_append, finCount_append, this]
    by_cases h : t.1 = i
    · simp [finCount, List.filter, h]
    · have hb : (t.1 == i) = false := by simpa using h
      simp [finCount, List.filter, h, hb]

/-- Every queued transfer is finished exactly once, whatever the MTU: the number of
    `send_bundle_finished` signals with id `i` is the number of times `i` was queued (one, for the
    ids `_add_tx_item` hands out) — be it `'success'` or `'failed'`. -/
theorem C13_tx_finished_exactly_once (mtu : Option Nat) (q : List (Nat × Bytes)) (i : Nat) :
    finCount i (txRun mtu q) = (q.map (·.1)).count i := by
  induction q with
  | nil => rfl
  | cons t q ih =>
    simp only [txRun, List.flatMap_cons, List.map_cons] at ih ⊢
    rw [finCount_append, finCount_item, List.count_cons]
    rw [ih]
    by_cases h : t.1 = i <;> simp [h] <;> omega

/-- A transfer that cannot be sent does not disturb the queue: what the others get is what they
    would get without it, and the failed one contributes `started` and `finished 'failed'` only. -/
theorem C13_tx_failure_isolated (mtu : Nat) (a b : List (Nat × Bytes)) (t : Nat × Bytes)
    (hseg : mtu ≤ t.2.length) (hrem : remainSize mtu t.1 t.2.length ≤ 0) :
    txRun (some mtu) (a ++ t :: b) =
      txRun (some mtu) a ++ [.started t.1 t.2.length, .finished t.1 t.2.length "failed"] ++
        txRun (some mtu) b := by
  have h := (C13_too_small_fails t.1 t.2 mtu hseg hrem).1
  simp only [txRun, List.flatMap_append, List.flatMap_cons, txItem, h, List.append_assoc,
    List.cons_append, List.nil_append]

/-- The result says what happened: `'failed'` exactly for a bundle that does not fit one datagram
    with `remain_size ≤ 0`, otherwise the datagrams of `_send_transfer` followed by `'success'`. -/
theorem C13_tx_result (mtu : Nat) (t : Nat × Bytes) :
    (txItem (some mtu) t = [.started t.1 t.2.length, .finished t.1 t.2.length "failed"] ∧
      mtu ≤ t.2.length ∧ remainSize mtu t.1 t.2.length ≤ 0) ∨
    ∃ ds, sendTransfer t.1 t.2 (some mtu) = .ok ds ∧ (∀ d ∈ ds, d.length ≤ mtu) ∧
      txItem (some mtu) t =
        .started t.1 t.2.length :: (ds.map .dgram ++ [.finished t.1 t.2.length "success"]) := by
  rcases C13_size t.1 t.2 mtu with ⟨h, h1, h2⟩ | ⟨ds, h, hb⟩
  · exact Or.inl ⟨by simp only [txItem, h], h1, h2⟩
  · exact Or.inr ⟨ds, h, hb, by simp only [txItem, h]⟩

/-- MTU 10: a 100-octet transfer fails, the 5-octet one queued behind it goes out and succeeds -/
example : txRun (some 10) [(0, List.replicate 100 7), (1, [1, 2, 3, 4, 5])] =
    [.started 0 100, .finished 0 100 "failed",
     .started 1 5, .dgram [1, 2, 3, 4, 5], .finished 1 5 "success"] := by decide

/-! ## Receiving -/

/-- Repeated segments never yield a corrupted or partial bundle: whatever genuine segments of
    transfer `k` arrive (any number of copies, any order, anything else in between), every queue
    entry that `k` produces is exactly the bundle. -/
theorem C13_dup_safe (data : Bytes) (k : Key) (evs : List Ev) (s0 : Rx)
    (h0 : getX k s0.frags = none)
    (hg : ∀ t ∈ kev k evs, t.1 = data.length ∧ t.2.1 + t.2.2.length ≤ data.length ∧
      t.2.2 = (data.drop t.2.1).take t.2.2.length) :
    ∃ n, queued k (run s0 evs) = queued k s0 ++ List.replicate n (item k data) := by
  have hJ : JE data k s0 := by intro x hx; rw [h0] at hx; cases hx
  exact (run_dup data k evs s0 hJ hg).2

private theorem disj_of_arith {a b : Nat × Nat × Bytes}
    (h : a.2.1 + a.2.2.length ≤ b.2.1 ∨ b.2.1 + b.2.2.length ≤ a.2.1) : DisjR (rng a) (rng b) := by
  intro i hi
  obtain ⟨h1, h2⟩ := hi
  rw [inRange_iff] at h1 h2
  simp only [rng] at h1 h2
  omega

/-- Each segment of transfer `k` exactly once (non-empty, pairwise non-overlapping slices of the
    bundle that cover it), in any order and interleaved with any messages of other transfers,
    other peers or whole bundles: exactly one copy of the bundle is queued for `k` and its
    reassembly entry is removed. -/
theorem C13_reasm (data : Bytes) (k : Key) (evs : List Ev) (s0 : Rx)
    (h0 : getX k s0.frags = none)
    (hg : ∀ t ∈ kev k evs, t.1 = data.length ∧ t.2.1 + t.2.2.length ≤ data.length ∧
      t.2.2 = (data.drop t.2.1).take t.2.2.length)
    (hpos : ∀ t ∈ kev k evs, 0 < t.2.2.length)
    (hpw : (kev k evs).Pairwise
      (fun a b => a.2.1 + a.2.2.length ≤ b.2.1 ∨ b.2.1 + b.2.2.length ≤ a.2.1))
    (hcov : ∀ i, i < data.length → ∃ t ∈ kev k evs, t.2.1 ≤ i ∧ i < t.2.1 + t.2.2.length)
    (hne : 0 < data.length) :
    queued k (run s0 evs) = queued k s0 ++ [item k data] ∧ getX k (run s0 evs).frags = none := by
  have hJ : JE data k s0 := by intro x hx; rw [h0] at hx; cases hx
  have hev : entryValid k s0 = [] := by unfold entryValid; rw [h0]
  have hnonempty : kev k evs ≠ [] := by
    obtain ⟨t, ht, _⟩ := hcov 0 hne
    intro h; rw [h] at ht; cases ht
  obtain ⟨r1, r2⟩ := reasm_main data k evs s0 hJ hg hnonempty
    (List.pairwise_map.mpr (hpw.imp disj_of_arith)) hpos
    (by intro a ha; rw [hev] at ha; cases ha)
    (by
      intro i hi
      obtain ⟨t, ht, h1, h2⟩ := hcov i hi
      exact Or.inr ⟨t, ht, by rw [inRange_iff]; exact ⟨h1, h2⟩⟩)
  exact ⟨r2, r1⟩

/-- a concrete arrival sequence: transfer 7 in reverse order, with a segment of transfer 8 of the
    same peer and a whole bundle from another peer in between -/
private def kA : Key := ⟨"10.0.0.2", 4556, 7⟩
private def kB : Key := ⟨"10.0.0.2", 4556, 8⟩
private def evsEx : List Ev :=
  [.xfer kA 5 3 [13, 14], .xfer kB 9 0 [1], .bundle "10.0.0.3" 1 [0x80], .xfer kA 5 0 [10, 11, 12]]

example : queued kA (run Rx.init evsEx) = [item kA [10, 11, 12, 13, 14]] :=
  (C13_reasm [10, 11, 12, 13, 14] kA evsEx Rx.init rfl (by decide) (by decide) (by decide)
    (by decide) (by decide)).1

/-- Nothing is queued while octets are missing: as long as one of the segments is still to come
    (`post` contains a message of `k`), the prefix `pre` queues nothing for `k`. -/
theorem C13_nothing_while_missing (data : Bytes) (k : Key) (pre post : List Ev) (s0 : Rx)
    (h0 : getX k s0.frags = none)
    (hg : ∀ t ∈ kev k (pre ++ post), t.1 = data.length ∧ t.2.1 + t.2.2.length ≤ data.length ∧
      t.2.2 = (data.drop t.2.1).take t.2.2.length)
    (hpos : ∀ t ∈ kev k (pre ++ post), 0 < t.2.2.length)
    (hpw : (kev k (pre ++ post)).Pairwise
      (fun a b => a.2.1 + a.2.2.length ≤ b.2.1 ∨ b.2.1 + b.2.2.length ≤ a.2.1))
    (hmiss : kev k post ≠ []) :
    queued k (run s0 pre) = queued k s0 := by
  have hJ : JE data k s0 := by intro x hx; rw [h0] at hx; cases hx
  have hev : entryValid k s0 = [] := by unfold entryValid; rw [h0]
  rw [kev_append] at hg hpos hpw
  obtain ⟨m, hm⟩ : ∃ m, m ∈ kev k post := by
    cases hkp : kev k post with
    | nil => exact absurd hkp hmiss
    | cons m _ => exact ⟨m, List.mem_cons_self⟩
  obtain ⟨_, _, hcross⟩ := List.pairwise_append.mp hpw
  exact (missing_main data k m (hg m (List.mem_append_right _ hm))
    (hpos m (List.mem_append_right _ hm)) pre s0 hJ
    (fun t ht => hg t (List.mem_append_left _ ht))
    (fun t ht => disj_of_arith (hcross t ht m hm))
    (by intro a ha; rw [hev] at ha; cases ha)).1

/-- The same for the segments the sender produces: any permutation of consecutive non-empty parts
    of the bundle, interleaved with anything else, queues exactly one copy. -/
theorem C13_reasm_perm (data : Bytes) (k : Key) (ps : List (Nat × Bytes)) (evs : List Ev) (s0 : Rx)
    (h0 : getX k s0.frags = none) (hc : Contig 0 ps) (hcat : (ps.map (·.2)).flatten = data)
    (hpos : ∀ p ∈ ps, 0 < p.2.length) (hne : 0 < data.length)
    (hperm : (kev k evs).Perm (ps.map fun p => (data.length, p.1, p.2))) :
    queued k (run s0 evs) = queued k s0 ++ [item k data] ∧ getX k (run s0 evs).frags = none := by
  have hsl := contig_slices data ps 0 (Nat.zero_le _) hc (by simpa using hcat)
  have hmem : ∀ t, t ∈ kev k evs ↔ ∃ p ∈ ps, t = (data.length, p.1, p.2) := by
    intro t; rw [hperm.mem_iff, List.mem_map]
    constructor
    · rintro ⟨p, hp, rfl⟩; exact ⟨p, hp, rfl⟩
    · rintro ⟨p, hp, rfl⟩; exact ⟨p, hp, rfl⟩
  -- consecutive parts do not overlap
  have hpwps : ∀ (qs : List (Nat × Bytes)) (off : Nat), Contig off qs →
      (qs.map fun p => (data.length, p.1, p.2)).Pairwise
        (fun a b => a.2.1 + a.2.2.length ≤ b.2.1 ∨ b.2.1 + b.2.2.length ≤ a.2.1) := by
    intro qs
    induction qs with
    | nil => intro _ _; exact List.Pairwise.nil
    | cons q qs ih =>
      intro off hcq
      obtain ⟨hq, hcq'⟩ := hcq
      simp only [List.map_cons, List.pairwise_cons]
      refine ⟨?_, ih _ hcq'⟩
      intro b hb
      obtain ⟨p, hp, rfl⟩ := List.mem_map.mp hb
      have := contig_lower qs _ hcq' p hp
      left; simp only; omega
  apply C13_reasm data k evs s0 h0
  · intro t ht
    obtain ⟨p, hp, rfl⟩ := (hmem t).mp ht
    exact ⟨rfl, (hsl p hp).1, (hsl p hp).2⟩
  · intro t ht
    obtain ⟨p, hp, rfl⟩ := (hmem t).mp ht
    exact hpos p hp
  · exact (hperm.pairwise_iff (fun h => h.symm)).mpr (hpwps ps 0 hc)
  · intro i hi
    obtain ⟨p, hp, h1, h2⟩ := contig_cover ps 0 hc i (Nat.zero_le _) (by rw [hcat]; omega)
    exact ⟨_, (hmem _).mpr ⟨p, hp, rfl⟩, h1, h2⟩
  · exact hne

/-! ## Datagrams -/

/-- Per-message handling: a datagram that consists of several TRANSFER messages followed by
    nothing or by padding (a zero octet and anything after it) is processed message by message. -/
theorem C13_per_message (addr : String) (port : Nat) (pad : Bytes)
    (hpad : pad = [] ∨ ∃ r, pad = 0x00 :: r) :
    ∀ (msgs : List (Nat × Nat × Nat × Bytes)) (s : Rx),
    (∀ m ∈ msgs, m.1 < 2 ^ 64 ∧ m.2.1 < 2 ^ 64 ∧ m.2.2.1 < 2 ^ 64 ∧ m.2.2.2.length < 2 ^ 64) →
    recvDatagram false s addr port
      ((msgs.map fun m => encTransfer m.1 m.2.1 m.2.2.1 m.2.2.2).flatten ++ pad) =
    runT s addr port msgs := by
  have key : ∀ (msgs : List (Nat × Nat × Nat × Bytes)) (s : Rx) (f : Nat),
      (∀ m ∈ msgs, m.1 < 2 ^ 64 ∧ m.2.1 < 2 ^ 64 ∧ m.2.2.1 < 2 ^ 64 ∧ m.2.2.2.length < 2 ^ 64) →
      msgs.length < f →
      recvLoop f false addr port s
        ((msgs.map fun m => encTransfer m.1 m.2.1 m.2.2.1 m.2.2.2).flatten ++ pad) =
      runT s addr port msgs := by
    intro msgs
    induction msgs with
    | nil =>
      intro s f _ _
      simp only [List.map_nil, List.flatten_nil, List.nil_append, runT]
      rcases hpad with rfl | ⟨r, rfl⟩
      · exact recvLoop_nil _ _ _ _ _
      · exact recvLoop_pad _ _ _ _ _ _
    | cons m rest ih =>
      intro s f hb hf
      obtain ⟨id, total, off, chunk⟩ := m
      cases f with
      | zero => simp at hf
      | succ f =>
        obtain ⟨b1, b2, b3, b4⟩ := hb _ List.mem_cons_self
        simp only [List.map_cons, List.flatten_cons, List.append_assoc, runT]
        rw [recvLoop_enc f addr port s id total off chunk _ b1 b2 b3 b4]
        cases recvTransfer s ⟨addr, port, id⟩ total off chunk with
        | error e => rfl
        | ok s' =>
          exact ih s' f (fun m hm => hb m (List.mem_cons_of_mem _ hm))
            (by simp at hf; omega)
  intro msgs s hb
  unfold recvDatagram
  apply key msgs s _ hb
  have : msgs.length ≤ ((msgs.map fun m => encTransfer m.1 m.2.1 m.2.2.1 m.2.2.2).flatten).length := by
    clear hb
    induction msgs with
    | nil => simp
    | cons m rest ih =>
      obtain ⟨tl, htl⟩ := encTransfer_head m.1 m.2.1 m.2.2.1 m.2.2.2
      simp only [List.map_cons, List.flatten_cons, List.length_append, List.length_cons, htl]
      omega
  simp only [List.length_append]; omega

/-- Octets of value zero at the end of a datagram are data when they belong to the last message:
    padding is recognised per message by its first octet, it is never stripped from the end. A
    segment whose data ends in zeros, sent unpadded, is handled with all of its data. -/
theorem C13_trailing_zero_kept (addr : String) (port : Nat) (s : Rx) (id total off : Nat)
    (chunk : Bytes) (zeros : Nat)
    (h1 : id < 2 ^ 64) (h2 : total < 2 ^ 64) (h3 : off < 2 ^ 64)
    (h4 : (chunk ++ List.replicate zeros 0).length < 2 ^ 64) :
    recvDatagram false s addr port (encTransfer id total off (chunk ++ List.replicate zeros 0)) =
      runT s addr port [(id, total, off, chunk ++ List.replicate zeros 0)] := by
  have := C13_per_message addr port [] (Or.inl rfl)
    [(id, total, off, chunk ++ List.replicate zeros 0)] s
    (by intro m hm; simp only [List.mem_singleton] at hm; subst hm; exact ⟨h1, h2, h3, h4⟩)
  simpa using this

/-- an all-zero bundle of 5 octets in two unpadded segments (both datagrams end in 0x00) -/
example : ((recvDatagram false (recvDatagram false Rx.init "a" 1 (encTransfer 0 5 3 [0, 0])).1 "a" 1
    (encTransfer 0 5 0 [0, 0, 0])).1.queue.map fun q => q.2.data) = [[0, 0, 0, 0, 0]] := by decide

/-- Per-message handling of a whole bundle inside a datagram: a message that starts with a major
    type 4 octet and is a self-delimiting CBOR item (`skipItem` stops right after it) is queued as
    one bundle, and processing goes on with what follows. (Delimiting arbitrary CBOR is `skipItem`;
    that it agrees with `cbor2.load` is checked by the correspondence run, not proved.) -/
theorem C13_per_message_bundle (f : Nat) (addr : String) (port : Nat) (s : Rx) (x : UInt8)
    (tl r : Bytes) (hx : x.toNat / 32 = 4)
    (hd : skipItem (skipFuel (x :: tl ++ r)) (x :: tl ++ r) = some r) :
    recvLoop (f + 1) false addr port s (x :: tl ++ r) =
      recvLoop f false addr port (addRx s ⟨addr, port, none, (x :: tl).length, x :: tl⟩) r := by
  have h0 : x ≠ 0x00 := by intro h; rw [h] at hx; revert hx; decide
  have h6 : x ≠ 0x06 := by intro h; rw [h] at hx; revert hx; decide
  have hdtls : ¬ (20 ≤ x.toNat ∧ x.toNat ≤ 23) := by omega
  have htake : (x :: tl ++ r).take ((x :: tl ++ r).length - r.length) = x :: tl := by
    have : (x :: tl ++ r).length - r.length = (x :: tl).length := by
      simp only [List.length_append]; omega
    rw [this]; exact List.take_left' rfl
  conv => lhs; unfold recvLoop
  simp only [List.cons_append] at hd htake ⊢
  simp only [h0, h6, hdtls, hx, if_false, if_true, hd, htake, Bool.false_eq_true]

example : ∀ r : Bytes, skipItem (skipFuel ([0x82, 1, 2] ++ r)) ([0x82, 1, 2] ++ r) = some r := by
  intro r
  have : skipFuel ([0x82, 1, 2] ++ r) = (2 * r.length + 4) + 4 := by simp [skipFuel]; omega
  rw [this]
  simp [skipItem, skipN, Cbor.decHead]

/-- End to end: the datagrams `_send_transfer` produces for a bundle that needs segmenting
    (with `remain_size > 0`), delivered one per datagram in any order to a receiver that has no
    entry for that transfer, queue exactly one copy of the bundle. -/
theorem C13_end_to_end (id : Nat) (data : Bytes) (mtu : Nat) (addr : String) (port : Nat) (s0 : Rx)
    (hid : id < 2 ^ 64) (hlen : data.length < 2 ^ 64) (hne : 0 < data.length)
    (hseg : mtu ≤ data.length) (hrem : 0 < remainSize mtu id data.length)
    (h0 : getX ⟨addr, port, id⟩ s0.frags = none) :
    ∃ ps : List (Nat × Bytes),
      sendTransfer id data (some mtu) =
        .ok (ps.map fun p => encTransfer id data.length p.1 p.2) ∧
      ∀ ps' : List (Nat × Bytes), ps'.Perm ps →
        queued ⟨addr, port, id⟩
          ((ps'.map fun p => encTransfer id data.length p.1 p.2).foldl
            (fun s d => (recvDatagram false s addr port d).1) s0) =
        queued ⟨addr, port, id⟩ s0 ++ [item ⟨addr, port, id⟩ data] := by
  obtain ⟨ps, hs, hc, hcat, hall, hsl⟩ := C13_cover id data mtu hseg hrem
  refine ⟨ps, hs, ?_⟩
  intro ps' hperm
  -- one datagram = one step
  have hstep : ∀ (qs : List (Nat × Bytes)) (s : Rx), (∀ p ∈ qs, p ∈ ps) →
      (qs.map fun p => encTransfer id data.length p.1 p.2).foldl
        (fun s d => (recvDatagram false s addr port d).1) s =
      run s (qs.map fun p => Ev.xfer ⟨addr, port, id⟩ data.length p.1 p.2) := by
    intro qs
    induction qs with
    | nil => intro s _; rfl
    | cons q qs ih =>
      intro s hq
      have hqm := hsl q (hq q List.mem_cons_self)
      simp only [List.map_cons, List.foldl_cons, run_cons]
      rw [← ih _ (fun p hp => hq p (List.mem_cons_of_mem _ hp))]
      congr 1
      have := C13_per_message addr port [] (Or.inl rfl) [(id, data.length, q.1, q.2)] s
        (by intro m hm; simp at hm; subst hm; simp only; omega)
      simp only [List.map_cons, List.map_nil, List.flatten_cons, List.flatten_nil,
        List.append_nil] at this
      rw [this]
      simp only [runT, step]
      cases recvTransfer s ⟨addr, port, id⟩ data.length q.1 q.2 <;> rfl
  rw [hstep ps' s0 (fun p hp => hperm.mem_iff.mp hp)]
  have hkev : ∀ qs : List (Nat × Bytes),
      kev ⟨addr, port, id⟩ (qs.map fun p => Ev.xfer ⟨addr, port, id⟩ data.length p.1 p.2) =
      qs.map fun p => (data.length, p.1, p.2) := by
    intro qs
    induction qs with
    | nil => rfl
    | cons q qs ih => simp only [List.map_cons, kev_self, ih]
  exact (C13_reasm_perm data ⟨addr, port, id⟩ ps _ s0 h0 hc hcat (fun p hp => (hall p hp).1) hne
    (by rw [hkev]; exact hperm.map _)).1

/-! ## Receive-queue ids (`_rx_id`, `recv_bundle_get_queue`, `recv_bundle_pop_data`) -/

private theorem foldl_idsOK : ∀ (ops : List Op) (s : Rx), IdsOK s → IdsOK (ops.foldl opStep s) := by
  intro ops
  induction ops with
  | nil => intro s h; exact h
  | cons op ops ih => intro s h; exact ih _ (opStep_idsOK s op h).1

private theorem idsOK_init : IdsOK Rx.init :=
  ⟨(fun e he => by cases he), List.Pairwise.nil⟩

/-- Whatever datagrams arrive and whatever the application pops, in any order: the queued ids
    are all below the counter and strictly increase along the queue — every bundle is announced
    under an id of its own. -/
theorem C13_rx_ids_distinct (ops : List Op) :
    (queueIds (ops.foldl opStep Rx.init)).Pairwise (· < ·) ∧
    ∀ i ∈ queueIds (ops.foldl opStep Rx.init), i < (ops.foldl opStep Rx.init).rxId := by
  obtain ⟨h1, h2⟩ := foldl_idsOK ops Rx.init idsOK_init
  refine ⟨by simpa [queueIds, List.pairwise_map] using h2, ?_⟩
  intro i hi
  obtain ⟨e, he, rfl⟩ := List.mem_map.mp hi
  exact h1 e he

/-- The receive id of a reassembled bundle is the local counter, whatever transfer id the peer
    chose: a TRANSFER message either queues nothing, or exactly one entry under `_rx_id`, and the
    counter moves on by one. -/
theorem C13_rx_id_is_local_counter (s : Rx) (k : Key) (total off : Nat) (chunk : Bytes) :
    ((step s (.xfer k total off chunk)).queue = s.queue ∧
      (step s (.xfer k total off chunk)).rxId = s.rxId) ∨
    ∃ q, (step s (.xfer k total off chunk)).queue = s.queue ++ [(s.rxId, q)] ∧
      q.xid = some k.xid ∧ (step s (.xfer k total off chunk)).rxId = s.rxId + 1 := by
  have key : ∀ x : Xfer, ((applyFrag s k x off chunk).queue = s.queue ∧
        (applyFrag s k x off chunk).rxId = s.rxId) ∨
      ∃ q, (applyFrag s k x off chunk).queue = s.queue ++ [(s.rxId, q)] ∧
        q.xid = some k.xid ∧ (applyFrag s k x off chunk).rxId = s.rxId + 1 := by
    intro x
    unfold applyFrag
    split
    · exact Or.inr ⟨_, rfl, rfl, rfl⟩
    · exact Or.inl ⟨rfl, rfl⟩
  have hcase : step s (.xfer k total off chunk) = s ∨
      ∃ x, step s (.xfer k total off chunk) = applyFrag s k x off chunk := by
    rw [step_xfer]
    cases getX k s.frags with
    | none => exact Or.inr ⟨_, rfl⟩
    | some x =>
      by_cases ht : total ≠ x.total
      · left; show (if total ≠ x.total then s else _) = s; rw [if_pos ht]
      · right; exact ⟨x, by show (if total ≠ x.total then s else _) = _; rw [if_neg ht]⟩
  rcases hcase with h | ⟨x, h⟩
  · rw [h]; exact Or.inl ⟨rfl, rfl⟩
  · rw [h]; exact key x

/-- a peer that numbers its transfer 0 while receive id 0 is already queued: the reassembled
    bundle is queued under 1 -/
example : queueIds (run Rx.init [.bundle "a" 1 [0x80], .xfer ⟨"a", 1, 0⟩ 2 0 [0x81, 0]]) = [0, 1] := by
  decide

/-- Hence `_rx_queue[id] = item` never replaces an entry: in every reachable state the dict
    assignment under the next id is an append (what `addRx` does). -/
theorem C13_rx_never_overwrites (ops : List Op) (q : QItem) :
    dictSet (ops.foldl opStep Rx.init).rxId q (ops.foldl opStep Rx.init).queue =
      (addRx (ops.foldl opStep Rx.init) q).queue := by
  obtain ⟨h1, _⟩ := foldl_idsOK ops Rx.init idsOK_init
  rw [dictSet_fresh _ _ _ (fun e he => by have := h1 e he; omega)]
  rfl

/-- An id is never used again, not even after it was popped: whatever is queued after further
    operations was either queued before or got an id at or above the earlier counter (and all ids
    announced earlier are below it). -/
theorem C13_rx_id_never_reused (ops more : List Op) :
    (ops.foldl opStep Rx.init).rxId ≤ ((ops ++ more).foldl opStep Rx.init).rxId ∧
    ∀ e ∈ ((ops ++ more).foldl opStep Rx.init).queue,
      e ∈ (ops.foldl opStep Rx.init).queue ∨ (ops.foldl opStep Rx.init).rxId ≤ e.1 := by
  rw [List.foldl_append]
  generalize ops.foldl opStep Rx.init = s
  have key : ∀ (more : List Op) (t : Rx), s.rxId ≤ t.rxId →
      (∀ e ∈ t.queue, e ∈ s.queue ∨ s.rxId ≤ e.1) →
      s.rxId ≤ (more.foldl opStep t).rxId ∧
      ∀ e ∈ (more.foldl opStep t).queue, e ∈ s.queue ∨ s.rxId ≤ e.1 := by
    intro more
    induction more with
    | nil => intro t h1 h2; exact ⟨h1, h2⟩
    | cons op more ih =>
      intro t h1 h2
      apply ih
      · cases op with
        | dgram rej addr port data =>
          have := (recvDatagram_ext rej t addr port data).1
          simp only [opStep]; omega
        | pop bid =>
          simp only [opStep]
          cases hp : popData t bid with
          | none => exact h1
          | some p =>
            unfold popData at hp
            cases hf : t.queue.find? (fun q => q.1 == bid) with
            | none => rw [hf] at hp; cases hp
            | some q =>
              rw [hf] at hp
              simp only [Option.some.injEq] at hp
              rw [← hp]; exact h1
      · intro e he
        cases op with
        | dgram rej addr port data =>
          obtain ⟨_, ex, hq, hb, _⟩ := recvDatagram_ext rej t addr port data
          simp only [opStep] at he
          rw [hq] at he
          rcases List.mem_append.mp he with h | h
          · exact h2 e h
          · right; have := (hb e h).1; omega
        | pop bid =>
          simp only [opStep] at he
          cases hp : popData t bid with
          | none => rw [hp] at he; exact h2 e he
          | some p =>
            rw [hp] at he
            unfold popData at hp
            cases hf : t.queue.find? (fun q => q.1 == bid) with
            | none => rw [hf] at hp; cases hp
            | some q =>
              rw [hf] at hp
              simp only [Option.some.injEq] at hp
              rw [← hp] at he
              exact h2 e (List.mem_filter.mp he).1
  exact key more s (Nat.le_refl _) (fun e he => Or.inl he)

/-- Popping a queued id returns exactly the data announced under that id, once: the entry is
    gone afterwards (a second pop is a `KeyError`), every other entry stays, and the queue lists
    exactly the other ids. -/
theorem C13_pop_exact (ops : List Op) (bid : Nat) (q : QItem)
    (hm : (bid, q) ∈ (ops.foldl opStep Rx.init).queue) :
    ∃ s', popData (ops.foldl opStep Rx.init) bid = some (q.data, s') ∧
      popData s' bid = none ∧
      queueIds s' = (queueIds (ops.foldl opStep Rx.init)).filter (· != bid) ∧
      ∀ e ∈ (ops.foldl opStep Rx.init).queue, e.1 ≠ bid → e ∈ s'.queue :=
  popData_exact _ (foldl_idsOK ops Rx.init idsOK_init) bid q hm

/-- two bundles in one datagram and a third one later, from another peer: ids 0, 1, 2; popping 1
    gives the second bundle and leaves 0 and 2 -/
example : (queueIds ([Op.dgram false "10.0.0.2" 4556 [0x82, 1, 2, 0x81, 3],
      Op.dgram false "10.0.0.3" 4556 [0x80], Op.pop 1].foldl opStep Rx.init) = [0, 2]) ∧
    ((popData ([Op.dgram false "10.0.0.2" 4556 [0x82, 1, 2, 0x81, 3],
      Op.dgram false "10.0.0.3" 4556 [0x80]].foldl opStep Rx.init) 1).map (·.1) = some [0x81, 3]) := by
  decide

/-! ## Confirmation ranges -/

/-- `range_decode(range_encode(s)) == s` for every normalised interval set (ascending, non-empty
    atomic intervals separated by gaps — what `portion` keeps). -/
theorem C13_range_roundtrip (s : List (Nat × Nat)) (h : Norm false 0 s) :
    rangeDecode (rangeEncode s) = s := by
  unfold rangeDecode rangeEncode
  rw [rangeDecode_encode_from s false 0 [] h (fun h => by cases h) (fun _ => rfl)]
  simp

example : Norm false 0 [(0, 3), (5, 9), (20, 21)] := by simp [Norm]
example : rangeEncode [(0, 3), (5, 9), (20, 21)] = [0, 3, 2, 4, 11, 1] := by decide

end Udpcl
end DtnVerif
