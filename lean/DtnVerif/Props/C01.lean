/-
  C01 — TCPCL delivers every queued bundle exactly once, intact and in order.
  Property theorems only. `deliver` (Model/TcpclSpec) is the ideal receiver: it is what the
  property means by "the bundle the segments carry".
-/
import DtnVerif.Lemmas.TcpclSys
import DtnVerif.Lemmas.TcpclSysLift
import DtnVerif.Lemmas.TcpclLive
import DtnVerif.Lemmas.TcpclCausalSys
namespace DtnVerif
namespace Tcpcl

/-- constants of the source the model relies on -/
theorem C01_facts :
    Facts.const_tcpcl_CHUNK_SIZE = chunkSize
    ∧ Facts.const_tcpcfg_segment_size_tx_initial = 104857
    ∧ Facts.const_tcpcfg_segment_size_mru = 10485760
    ∧ (Facts.binds.filter (fun b => b.1 == "TransferExtendHeader" && b.2.1 == "TransferTotalLength")).map
        (fun b => b.2.2.2) = [1] := by
  decide

/-- **G-rx.** Against an arbitrary peer and schedule: the list of completely received transfers of an
    endpoint is exactly what the ideal receiver reconstructs from the messages it processed — nothing
    truncated, duplicated, merged or reordered by anything else that happens at the endpoint. -/
theorem C01_rx_spec (cfg : Cfg) (evs : List Ev) :
    (runEp { cfg := cfg } evs).rxLog = deliver (runEp { cfg := cfg } evs).processed :=
  (rxInv_run evs _ (rxInv_init cfg)).1

/-- **G-pump.** The octets the socket accepted are always a prefix of the encoding of the emitted
    message sequence, for every pattern of partial writes. -/
theorem C01_wire (cfg : Cfg) (evs : List Ev) :
    (runEp { cfg := cfg } evs).accepted <+: encodeAll (runEp { cfg := cfg } evs).emitted := by
  have h : encodeAll _ = _ := pumpInv_run evs _ (pumpInv_init cfg)
  rw [h, List.append_assoc]; exact List.prefix_append _ _

/-- **G-tx.** Against any schedule and any peer whose own sequence is legal, refuses nothing and
    announces a positive segment MRU: an ideal receiver of what the endpoint emitted reconstructs a
    prefix of the bundles the user queued, byte-identical and in order. -/
theorem C01_tx_spec (cfg : Cfg) (evs : List Ev) (h1 : 0 < cfg.segInit) (h2 : cfg.privExt = false)
    (hsend : ∀ d, Ev.send d ∈ evs → d.length < 2 ^ 64)
    (hleg : Legal (runEp (started cfg) evs).processed)
    (hok : ∀ m ∈ (runEp (started cfg) evs).processed, okMsg m) :
    deliver (runEp (started cfg) evs).emitted <+:
      (runEp (started cfg) evs).sendLog.map (fun it => (it.tid, it.data)) := by
  obtain ⟨P, hP⟩ := txInv_run evs _ {} (txInv_started cfg h1 h2) (timerInv_started cfg) hsend hleg hok
  have hD := hP.D
  unfold deliver
  simp only [Ep.txView] at hD
  rw [hD]
  simp only [doneD]
  rw [List.map_take]
  exact List.take_prefix _ _

/-- **C01, safety, two endpoints.** For every schedule of the two-endpoint system — any interleaving
    of user sends, idle sources, partial socket writes, arbitrary read chunking and delays, timers,
    terminations and closes — the data of the transfers B has completely received is a prefix of the
    data A's user queued (and symmetrically): no truncation, duplication, merge or reordering. -/
theorem C01_prefix (cfgA cfgB : Cfg) (sch : List SysEv)
    (a1 : 0 < cfgA.segInit) (a2 : cfgA.privExt = false) (a3 : 0 < cfgA.segMru)
    (b1 : 0 < cfgB.segInit) (b2 : cfgB.privExt = false) (b3 : 0 < cfgB.segMru)
    (hwf : ∀ pre, pre <+: sch → SysWF (runSys (initSys cfgA cfgB) pre))
    (hs : ∀ ev ∈ sch, ev.sendOK) :
    let s := runSys (initSys cfgA cfgB) sch
    s.b.rxLog.map (·.2) <+: s.a.sendLog.map (·.data) ∧ s.a.rxLog.map (·.2) <+: s.b.sendLog.map (·.data) := by
  intro s
  have hi : SysInv s := sysInv_run sch _ (sysInv_init cfgA cfgB a1 a2 a3 b1 b2 b3) hwf hs
  have hw : SysWF s := hwf sch (List.prefix_refl _)
  obtain ⟨tB, tA⟩ := transport s hi hw
  have one : ∀ (w r : Ep), EpInv w → EpInv r → r.processed <+: w.emitted →
      r.rxLog.map (·.2) <+: w.sendLog.map (·.data) := by
    intro w r hw' hr ht
    have h1 : r.rxLog = deliver r.processed := hr.rx.1
    obtain ⟨P, hP⟩ := hw'.tx
    have hD := hP.D
    have h2 : deliver w.emitted = (w.sendLog.take (w.nStarted - (if w.txTmp.isSome then 1 else 0))).map
        (fun it => (it.tid, it.data)) := by
      unfold deliver
      simp only [Ep.txView] at hD
      rw [hD]; rfl
    have h3 := deliver_prefix ht
    rw [h2, ← h1] at h3
    obtain ⟨t, ht'⟩ := h3
    have := congrArg (List.map (·.2)) ht'
    simp only [List.map_append, List.map_map, List.map_take] at this
    refine List.IsPrefix.trans ⟨_, this⟩ ?_
    have hcomp : List.map ((fun x => x.2) ∘ fun it : TxItem => (it.tid, it.data)) w.sendLog
        = List.map (·.data) w.sendLog := by
      apply List.map_congr_left; intro a _; rfl
    rw [hcomp]
    exact List.take_prefix _ _
  exact ⟨one s.a s.b hi.ia hi.ib tB, one s.b s.a hi.ib hi.ia tA⟩

/-- **Transport**, as a property of its own: at every reachable state of the two-endpoint system what
    one side has processed is a prefix of what the other side has emitted. -/
theorem C01_transport (cfgA cfgB : Cfg) (sch : List SysEv)
    (a1 : 0 < cfgA.segInit) (a2 : cfgA.privExt = false) (a3 : 0 < cfgA.segMru)
    (b1 : 0 < cfgB.segInit) (b2 : cfgB.privExt = false) (b3 : 0 < cfgB.segMru)
    (hwf : ∀ pre, pre <+: sch → SysWF (runSys (initSys cfgA cfgB) pre))
    (hs : ∀ ev ∈ sch, ev.sendOK) :
    (runSys (initSys cfgA cfgB) sch).b.processed <+: (runSys (initSys cfgA cfgB) sch).a.emitted
    ∧ (runSys (initSys cfgA cfgB) sch).a.processed <+: (runSys (initSys cfgA cfgB) sch).b.emitted :=
  transport _ (sysInv_run sch _ (sysInv_init cfgA cfgB a1 a2 a3 b1 b2 b3) hwf hs) (hwf sch (List.prefix_refl _))

/-- **C01, identities too.** The completely received transfers of B, as (transfer id, data) pairs,
    are a prefix of A's queued bundles as (id handed out by `send`, data) pairs — and symmetrically. -/
theorem C01_prefix_ids (cfgA cfgB : Cfg) (sch : List SysEv)
    (a1 : 0 < cfgA.segInit) (a2 : cfgA.privExt = false) (a3 : 0 < cfgA.segMru)
    (b1 : 0 < cfgB.segInit) (b2 : cfgB.privExt = false) (b3 : 0 < cfgB.segMru)
    (hwf : ∀ pre, pre <+: sch → SysWF (runSys (initSys cfgA cfgB) pre))
    (hs : ∀ ev ∈ sch, ev.sendOK) :
    let s := runSys (initSys cfgA cfgB) sch
    s.b.rxLog <+: s.a.sendLog.map (fun it => (it.tid, it.data))
    ∧ s.a.rxLog <+: s.b.sendLog.map (fun it => (it.tid, it.data)) := by
  intro s
  have hi : SysInv s := sysInv_run sch _ (sysInv_init cfgA cfgB a1 a2 a3 b1 b2 b3) hwf hs
  have hw : SysWF s := hwf sch (List.prefix_refl _)
  obtain ⟨tB, tA⟩ := transport s hi hw
  have one : ∀ (w r : Ep), EpInv w → EpInv r → r.processed <+: w.emitted →
      r.rxLog <+: w.sendLog.map (fun it => (it.tid, it.data)) := by
    intro w r hw' hr ht
    have h1 : r.rxLog = deliver r.processed := hr.rx.1
    obtain ⟨P, hP⟩ := hw'.tx
    have hD := hP.D
    have h2 : deliver w.emitted = (w.sendLog.take (w.nStarted - (if w.txTmp.isSome then 1 else 0))).map
        (fun it => (it.tid, it.data)) := by
      unfold deliver
      simp only [Ep.txView] at hD
      rw [hD]; rfl
    have h3 := deliver_prefix ht
    rw [h2, ← h1, List.map_take] at h3
    exact List.IsPrefix.trans h3 (List.take_prefix _ _)
  exact ⟨one s.a s.b hi.ia hi.ib tB, one s.b s.a hi.ib hi.ia tA⟩

/-- **Success only after receipt.** In every reachable state of the two-endpoint system, for every
    transfer id A has reported as `send_bundle_finished(…, 'success')`, B has completely received a
    transfer with that id — and it is the very bundle A's user queued under that id (same octets).
    Symmetrically for B. -/
theorem C01_success_after_receipt (cfgA cfgB : Cfg) (sch : List SysEv)
    (a1 : 0 < cfgA.segInit) (a2 : cfgA.privExt = false) (a3 : 0 < cfgA.segMru)
    (b1 : 0 < cfgB.segInit) (b2 : cfgB.privExt = false) (b3 : 0 < cfgB.segMru)
    (hwf : ∀ pre, pre <+: sch → SysWF (runSys (initSys cfgA cfgB) pre))
    (hs : ∀ ev ∈ sch, ev.sendOK) :
    let s := runSys (initSys cfgA cfgB) sch
    (∀ t ∈ s.a.successLog, ∃ d, (t, d) ∈ s.b.rxLog ∧ (⟨t, d⟩ : TxItem) ∈ s.a.sendLog)
    ∧ (∀ t ∈ s.b.successLog, ∃ d, (t, d) ∈ s.a.rxLog ∧ (⟨t, d⟩ : TxItem) ∈ s.b.sendLog) := by
  intro s
  have hi : SysInv s := sysInv_run sch _ (sysInv_init cfgA cfgB a1 a2 a3 b1 b2 b3) hwf hs
  have hw : SysWF s := hwf sch (List.prefix_refl _)
  obtain ⟨tB, tA⟩ := transport s hi hw
  obtain ⟨pB, pA⟩ := C01_prefix_ids cfgA cfgB sch a1 a2 a3 b1 b2 b3 hwf hs
  obtain ⟨sa, sb⟩ := sys_lift_init SuccInv succInv_step succInv_init cfgA cfgB sch
  obtain ⟨ka, kb⟩ := sys_lift_init AckInv ackInv_step ackInv_init cfgA cfgB sch
  have one : ∀ (w r : Ep), SuccInv w → AckInv r → w.processed <+: r.emitted →
      r.rxLog <+: w.sendLog.map (fun it => (it.tid, it.data)) →
      ∀ t ∈ w.successLog, ∃ d, (t, d) ∈ r.rxLog ∧ (⟨t, d⟩ : TxItem) ∈ w.sendLog := by
    intro w r hs' hk ht hp t htm
    obtain ⟨f, l, hend, hmem⟩ := hs' t htm
    obtain ⟨d, hd, _⟩ := hk _ (ht.subset hmem) hend
    refine ⟨d, hd, ?_⟩
    have := hp.subset hd
    simp only [List.mem_map] at this
    obtain ⟨it, hit, heq⟩ := this
    cases it
    simp only [Prod.mk.injEq] at heq
    obtain ⟨rfl, rfl⟩ := heq
    exact hit
  exact ⟨one s.a s.b sa kb tA pB, one s.b s.a sb ka tB pA⟩

/-- **No lost wake-up (progress is always possible).** In every reachable state of the two-endpoint
    system, an endpoint that is not closed and has a transfer being segmented has either an idle
    source for `_process_queue` pending or octets in its message-level transmit buffer (so its TX
    callback runs and re-triggers the queue when the buffer drains); one that has queued transfers
    and none in progress has an idle source pending; and the pending flag is never set without a
    source. (The zero-length-bundle stall repaired in 46e8b2d was a violation of exactly this.) -/
theorem C01_no_lost_wakeup (cfgA cfgB : Cfg) (sch : List SysEv)
    (a1 : 0 < cfgA.segInit) (a2 : cfgA.privExt = false) (a3 : 0 < cfgA.segMru)
    (b1 : 0 < cfgB.segInit) (b2 : cfgB.privExt = false) (b3 : 0 < cfgB.segMru)
    (hwf : ∀ pre, pre <+: sch → SysWF (runSys (initSys cfgA cfgB) pre))
    (hs : ∀ ev ∈ sch, ev.sendOK) :
    WakeInv (runSys (initSys cfgA cfgB) sch).a ∧ WakeInv (runSys (initSys cfgA cfgB) sch).b := by
  refine wake_sys_run sch _ (sysInv_init cfgA cfgB a1 a2 a3 b1 b2 b3) ⟨?_, ?_⟩ hwf hs
  · exact wake_step _ _ a2 (by simp) (wake_init cfgA)
  · exact wake_step _ _ b2 (by simp) (wake_init cfgB)

/-- **Delivery at quiescence.** In any reachable state of the two-endpoint system in which the
    direction A → B has drained — both endpoints open, A not terminating, A's two transmit buffers and
    the wire empty, no `_process_queue` idle source pending at A — B has processed exactly the message
    sequence A emitted and has completely received *every* bundle A's user ever queued: same ids,
    same octets, same order, each exactly once. (With `C01_no_lost_wakeup`: as long as that is not
    yet the case, some internal event is enabled.) -/
theorem C01_quiescent_delivery (cfgA cfgB : Cfg) (sch : List SysEv)
    (a1 : 0 < cfgA.segInit) (a2 : cfgA.privExt = false) (a3 : 0 < cfgA.segMru)
    (b1 : 0 < cfgB.segInit) (b2 : cfgB.privExt = false) (b3 : 0 < cfgB.segMru)
    (hwf : ∀ pre, pre <+: sch → SysWF (runSys (initSys cfgA cfgB) pre))
    (hs : ∀ ev ∈ sch, ev.sendOK) :
    let s := runSys (initSys cfgA cfgB) sch
    (Drained s.a s.b s.toB → s.b.processed = s.a.emitted
        ∧ s.b.rxLog = s.a.sendLog.map (fun it => (it.tid, it.data)))
    ∧ (Drained s.b s.a s.toA → s.a.processed = s.b.emitted
        ∧ s.a.rxLog = s.b.sendLog.map (fun it => (it.tid, it.data))) := by
  intro s
  have hi : SysInv s := sysInv_run sch _ (sysInv_init cfgA cfgB a1 a2 a3 b1 b2 b3) hwf hs
  have hw : SysWF s := hwf sch (List.prefix_refl _)
  obtain ⟨wa, wb⟩ := C01_no_lost_wakeup cfgA cfgB sch a1 a2 a3 b1 b2 b3 hwf hs
  constructor
  · intro hd
    have := drained_delivery s.a s.b s.toB hi.ia hi.ib wa hw.1 hi.wireB hd
    exact ⟨this.2.2.1, this.2.2.2⟩
  · intro hd
    have := drained_delivery s.b s.a s.toA hi.ib hi.ia wb hw.2 hi.wireA hd
    exact ⟨this.2.2.1, this.2.2.2⟩

/-- **Success at quiescence.** In any reachable state of the two-endpoint system in which the
    direction A → B has drained, the return direction B → A holds nothing either (B's two transmit
    buffers and the wire empty), and A never had to send a MSG_REJECT: every bundle A's user ever
    queued has been reported `send_bundle_finished(…, 'success')` (by `C18_finished_once` exactly once)
    and A's send queue is empty — and symmetrically for B. The MSG_REJECT premise is an observable of
    the run; that two faithful endpoints never reject each other is checked by the monitors, not proved. -/
theorem C01_quiescent_success (cfgA cfgB : Cfg) (sch : List SysEv)
    (a1 : 0 < cfgA.segInit) (a2 : cfgA.privExt = false) (a3 : 0 < cfgA.segMru)
    (b1 : 0 < cfgB.segInit) (b2 : cfgB.privExt = false) (b3 : 0 < cfgB.segMru)
    (hwf : ∀ pre, pre <+: sch → SysWF (runSys (initSys cfgA cfgB) pre))
    (hs : ∀ ev ∈ sch, ev.sendOK) :
    let s := runSys (initSys cfgA cfgB) sch
    (Drained s.a s.b s.toB → s.b.txBuf = [] → s.b.connBuf = [] → s.toA = [] →
        (∀ m ∈ s.a.emitted, m.isRej = false) →
        (∀ it ∈ s.a.sendLog, it.tid ∈ s.a.successLog) ∧ s.a.txMap = [])
    ∧ (Drained s.b s.a s.toA → s.a.txBuf = [] → s.a.connBuf = [] → s.toB = [] →
        (∀ m ∈ s.b.emitted, m.isRej = false) →
        (∀ it ∈ s.b.sendLog, it.tid ∈ s.b.successLog) ∧ s.b.txMap = []) := by
  intro s
  have hi : SysInv s := sysInv_run sch _ (sysInv_init cfgA cfgB a1 a2 a3 b1 b2 b3) hwf hs
  have hw : SysWF s := hwf sch (List.prefix_refl _)
  obtain ⟨wa, wb⟩ := C01_no_lost_wakeup cfgA cfgB sch a1 a2 a3 b1 b2 b3 hwf hs
  obtain ⟨qa, qb⟩ := sys_lift_init (fun e => QInv e ∧ SP e)
    (fun e ev h => ⟨h.1.step e ev, sp_step e ev h.1 h.2⟩)
    (fun cfg => ⟨QInv.init cfg, sp_init cfg⟩) cfgA cfgB sch
  obtain ⟨sa, sb⟩ := sys_lift_init ASInv asInv_step asInv_init cfgA cfgB sch
  obtain ⟨ra, rb⟩ := sys_lift_init RxAckInv rxAckInv_step rxAckInv_init cfgA cfgB sch
  constructor
  · intro hd h1 h2 h3 hn
    exact drained_success s.a s.b s.toB s.toA hi.ia hi.ib wa hw.1 hw.2 hi.wireB hi.wireA hd h1 h2 h3 qa.1 qa.2 sa rb hn
  · intro hd h1 h2 h3 hn
    exact drained_success s.b s.a s.toA s.toB hi.ib hi.ia wb hw.2 hw.1 hi.wireA hi.wireB hd h1 h2 h3 qb.1 qb.2 sb ra hn

/-- the causality invariant holds at the start of the two-endpoint system -/
theorem cs_init (cfgA cfgB : Cfg)
    (a1 : 0 < cfgA.segInit) (a2 : cfgA.privExt = false) (a3 : 0 < cfgA.segMru)
    (b1 : 0 < cfgB.segInit) (b2 : cfgB.privExt = false) (b3 : 0 < cfgB.segMru) : CS (initSys cfgA cfgB) := by
  refine ⟨sysInv_init cfgA cfgB a1 a2 a3 b1 b2 b3, (QInv.init cfgA).step _ _, (QInv.init cfgB).step _ _,
    ackSeq_step _ _ (rxInv_init cfgA) (ackSeq_init cfgA), ackSeq_step _ _ (rxInv_init cfgB) (ackSeq_init cfgB), ?_, ?_⟩
  · exact ci_step_local _ _ (by intro c h; cases h) a2 (by simp [nAcks, acksOf]) (ci_init cfgA)
  · exact ci_step_local _ _ (by intro c h; cases h) b2 (by simp [nAcks, acksOf]) (ci_init cfgB)

/-- **Two faithful endpoints never reject each other, and acknowledgements stay aligned.** For every
    schedule of the two-endpoint system: neither endpoint ever emits a MSG_REJECT; the acknowledgements
    each side has processed answer, one for one and in order, the first segments that side has emitted;
    and every emitted segment not yet answered belongs to a transfer still awaiting its acknowledgement
    or still being segmented. -/
theorem C01_no_reject_sys (cfgA cfgB : Cfg) (sch : List SysEv)
    (a1 : 0 < cfgA.segInit) (a2 : cfgA.privExt = false) (a3 : 0 < cfgA.segMru)
    (b1 : 0 < cfgB.segInit) (b2 : cfgB.privExt = false) (b3 : 0 < cfgB.segMru)
    (hwf : ∀ pre, pre <+: sch → SysWF (runSys (initSys cfgA cfgB) pre))
    (hs : ∀ ev ∈ sch, ev.sendOK) :
    let s := runSys (initSys cfgA cfgB) sch
    (∀ m ∈ s.a.emitted, m.isRej = false) ∧ (∀ m ∈ s.b.emitted, m.isRej = false)
    ∧ (acksOf s.a.processed).map ackInfo <+: segInfo s.a.emitted
    ∧ (acksOf s.b.processed).map ackInfo <+: segInfo s.b.emitted
    ∧ CI s.a ∧ CI s.b := by
  intro s
  have hcs : CS s := cs_run sch _ (cs_init cfgA cfgB a1 a2 a3 b1 b2 b3) hwf hs
  obtain ⟨alA, alB⟩ := hcs.aligned (hwf sch (List.prefix_refl _))
  have nr : ∀ e : Ep, CI e → ∀ m ∈ e.emitted, m.isRej = false := by
    intro e hc m hm
    have := hc.norej
    simp only [rejsOf, List.filter_eq_nil_iff] at this
    simpa using this m hm
  exact ⟨nr _ hcs.ca, nr _ hcs.cb, alA, alB, hcs.ca, hcs.cb⟩

/-- **Success at quiescence, unconditionally.** When both directions have drained, every bundle ever
    queued at A has been reported `success` and A's send queue is empty (and symmetrically). -/
theorem C01_quiescent_all_success (cfgA cfgB : Cfg) (sch : List SysEv)
    (a1 : 0 < cfgA.segInit) (a2 : cfgA.privExt = false) (a3 : 0 < cfgA.segMru)
    (b1 : 0 < cfgB.segInit) (b2 : cfgB.privExt = false) (b3 : 0 < cfgB.segMru)
    (hwf : ∀ pre, pre <+: sch → SysWF (runSys (initSys cfgA cfgB) pre))
    (hs : ∀ ev ∈ sch, ev.sendOK) :
    let s := runSys (initSys cfgA cfgB) sch
    (Drained s.a s.b s.toB → s.b.txBuf = [] → s.b.connBuf = [] → s.toA = [] →
        (∀ it ∈ s.a.sendLog, it.tid ∈ s.a.successLog) ∧ s.a.txMap = [])
    ∧ (Drained s.b s.a s.toA → s.a.txBuf = [] → s.a.connBuf = [] → s.toB = [] →
        (∀ it ∈ s.b.sendLog, it.tid ∈ s.b.successLog) ∧ s.b.txMap = []) := by
  intro s
  obtain ⟨na, nb, _⟩ := C01_no_reject_sys cfgA cfgB sch a1 a2 a3 b1 b2 b3 hwf hs
  obtain ⟨ha, hb⟩ := C01_quiescent_success cfgA cfgB sch a1 a2 a3 b1 b2 b3 hwf hs
  exact ⟨fun hd h1 h2 h3 => ha hd h1 h2 h3 na, fun hd h1 h2 h3 => hb hd h1 h2 h3 nb⟩

/-! ### non-vacuity: a concrete two-endpoint run meeting every hypothesis and delivering a bundle -/

namespace Example
def cfgA : Cfg := { passive := false, segInit := 2, segMru := 100 }
def cfgB : Cfg := { passive := true, segInit := 5, segMru := 100 }
/-- contact and session negotiation cut across reads and partial writes, then a 3-octet bundle in
    two segments (segment size 2), acknowledged -/
def sched : List SysEv := [
  .atA (.pump 10240), .deliverB 4, .deliverB 10, .atB (.pump 3), .atB (.pump 10240), .deliverA 100,
  .atA (.pump 10240), .deliverB 7, .deliverB 100, .atB (.pump 10240), .deliverA 100,
  .atA (.send [1, 2, 3]), .atA .procQueue, .atA (.pump 30), .atA .procQueue, .atA (.pump 10240),
  .deliverB 50, .deliverB 100, .atB (.pump 10240), .deliverA 100]

instance (s : Sys) : Decidable (SysWF s) := by unfold SysWF; infer_instance

example : (List.range (sched.length + 1)).all
    (fun k => decide (SysWF (runSys (initSys cfgA cfgB) (sched.take k)))) = true := by decide +kernel
example : (runSys (initSys cfgA cfgB) sched).b.rxLog = [(1, [1, 2, 3])]
    ∧ (runSys (initSys cfgA cfgB) sched).a.successLog = [1]
    ∧ (runSys (initSys cfgA cfgB) sched).a.sendLog.map (·.data) = [[1, 2, 3]] := by decide +kernel
instance (w r : Ep) (p : Bytes) : Decidable (Drained w r p) :=
  decidable_of_iff (w.closed = false ∧ r.closed = false ∧ w.inTerm = false ∧ w.txBuf = [] ∧ w.connBuf = []
      ∧ p = [] ∧ w.pqSources = 0)
    ⟨fun ⟨a, b, c, d, e, f, g⟩ => ⟨a, b, c, d, e, f, g⟩, fun h => ⟨h.1, h.2, h.3, h.4, h.5, h.6, h.7⟩⟩
/-- after one more firing of A's idle source the direction A → B is drained: the premise of
    `C01_quiescent_delivery` is satisfiable (and its conclusion visible) -/
example : let s := runSys (initSys cfgA cfgB) (sched ++ [.atA .procQueue])
    Drained s.a s.b s.toB ∧ s.b.rxLog = s.a.sendLog.map (fun it => (it.tid, it.data)) ∧ s.a.successLog = [1] := by
  decide +kernel
/-- … and the further premises of `C01_quiescent_success` hold there too -/
example : let s := runSys (initSys cfgA cfgB) (sched ++ [.atA .procQueue])
    s.b.txBuf = [] ∧ s.b.connBuf = [] ∧ s.toA = [] ∧ (s.a.emitted.all fun m => !m.isRej) = true ∧ s.a.txMap = [] := by
  decide +kernel
end Example

end Tcpcl
end DtnVerif
