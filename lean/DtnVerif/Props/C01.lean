import DtnVerif.Model.TcpclEp
namespace DtnVerif
namespace Tcpcl
theorem C01_placeholder : True := trivial
end Tcpcl
end DtnVerif
