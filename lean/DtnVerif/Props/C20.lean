/-
  C20 — BTP-U messages round-trip and segmented transfers reassemble.
  Theorems about `DtnVerif.Btpu` (Model/Btpu.lean), unbounded in lengths, MTUs, hint lists,
  numbers of segments, arrival orders and interleavings.
-/
import DtnVerif.Model.Btpu
import DtnVerif.Lemmas.BtpuSend
import DtnVerif.Lemmas.BtpuRecv
import DtnVerif.Lemmas.BtpuCodec
import DtnVerif.Generated.Facts
namespace DtnVerif
namespace Btpu

/-- Constants and layouts of the source the model relies on: message type bindings, the field
    layouts of `MessageHead`, `HintHead`, `_Transfer`, `MessageSet`, and the observation points. -/
theorem C20_facts :
    ("MessageHead", "DefinitePadding", "msg_type", (1 : Int)) ∈ Facts.binds ∧
    ("MessageHead", "BundlePdu", "msg_type", (2 : Int)) ∈ Facts.binds ∧
    ("MessageHead", "TransferSeg", "msg_type", (3 : Int)) ∈ Facts.binds ∧
    ("MessageHead", "TransferEnd", "msg_type", (4 : Int)) ∈ Facts.binds ∧
    ("MessageHead", "TransferCancel", "msg_type", (5 : Int)) ∈ Facts.binds ∧
    ("btpu.HintHead", [("BitField", "hint_type", "size=7"), ("BitField", "h_flag", "size=1"),
      ("LenField", "length", "fmt=B")]) ∈ Facts.layouts ∧
    ("btpu.MessageHead", [("ByteField", "msg_type", ""), ("FlagsField", "flags", "size=4"),
      ("BitFieldLenField", "length", "size=20 length_of=hints"),
      ("PacketListField", "hints", "")]) ∈ Facts.layouts ∧
    ("btpu._Transfer", [("IntField", "xfer_num", ""), ("IntField", "seg_idx", "")]) ∈ Facts.layouts ∧
    ("btpu.MessageSet", [("PacketListField", "msgs", "")]) ∈ Facts.layouts ∧
    Facts.const_btpu_RX_XFER_TIMEOUT_MS = 1000 ∧
    ("btpu.Agent.recv_bundle_finished", "signal", "sta{sv}", "") ∈ Facts.dbusSigs ∧
    ("btpu.Agent.recv_bundle_get_queue", "method", "", "as") ∈ Facts.dbusSigs ∧
    ("btpu.Agent.recv_bundle_pop_data", "method", "s", "ay") ∈ Facts.dbusSigs :=
  ⟨by decide, by decide, by decide, by decide, by decide, by decide, by decide, by decide,
   by decide, by decide, by decide, by decide, by decide⟩

/-! ## Codec -/

/-- decode ∘ encode = id on every message set whose fields fit their widths and whose declared
    lengths are the actual ones (any hint lists, any payloads, lengths `< 2^20`), followed by
    nothing or by padding. -/
theorem C20_roundtrip (msgs : List Msg) (pad : Bytes) (hpad : pad = [] ∨ ∃ r, pad = 0 :: r)
    (hwf : ∀ m ∈ msgs, m.wf ∧ m.mtype ≠ 0) :
    decodeSet (encSet msgs ++ pad) = some (msgs, pad) := by
  unfold decodeSet
  apply decSet_enc pad hpad msgs _ hwf
  have : ∀ ms : List Msg, ms.length ≤ (encSet ms).length := by
    intro ms
    induction ms with
    | nil => simp [encSet]
    | cons m r ih =>
      have := encMsg_length_ge m
      simp only [encSet, List.length_append, List.length_cons]; omega
  have := this msgs
  simp only [List.length_append]; omega

/-- What the agent builds is such a message: a Bundle PDU of `< 2^20` octets … -/
theorem C20_roundtrip_bundle (data : Bytes) (h : data.length < 2 ^ 20) (hne : data ≠ []) :
    ∃ m, decodeSet (bundleFrame data) = some ([m], []) ∧ m.exact = true ∧
      m.length = data.length ∧ m.body = .bundle data := by
  refine ⟨mkMsg 2 [] data, ?_, ?_, ?_, ?_⟩
  · have := C20_roundtrip [mkMsg 2 [] data] [] (Or.inl rfl) (by
      intro m hm; simp at hm; subst hm
      refine ⟨⟨by simp [mkMsg], by simp [mkMsg], ?_, ?_, ?_⟩, by simp [mkMsg]⟩
      · simp [mkMsg, normFlags, hintsLen]; omega
      · simp [mkMsg, normFlags, Msg.exact, hintsExact, hintsLen, Nat.mod_eq_of_lt h]
      · intro x hx; simp [mkMsg, normFlags] at hx)
    simpa [encSet, bundleFrame] using this
  · simp [mkMsg, normFlags, Msg.exact, hintsExact, hintsLen, Nat.mod_eq_of_lt h]
  · simp [mkMsg, normFlags, hintsLen, Nat.mod_eq_of_lt h]
  · cases data with
    | nil => exact absurd rfl hne
    | cons a t => simp [mkMsg, Msg.body]

/-- … and a Transfer segment with the total-length hint: it decodes to the same transfer number,
    index, end marker and data, with declared length = actual length. -/
theorem C20_roundtrip_seg (total xfer idx : Nat) (isEnd : Bool) (chunk : Bytes)
    (hx : xfer < 2 ^ 32) (hi : idx < 2 ^ 32) (hc : chunk.length + 14 < 2 ^ 20) :
    ∃ m, decodeSet (segFrame total xfer idx isEnd chunk) = some ([m], []) ∧ m.exact = true ∧
      m.length = chunk.length + 14 ∧ m.body = .seg isEnd xfer idx chunk := by
  have hlen : (beBytes 4 xfer ++ (beBytes 4 idx ++ chunk)).length = chunk.length + 8 := by
    simp; omega
  have hmod : (6 + (chunk.length + 8)) % 2 ^ 20 = chunk.length + 14 := by
    rw [Nat.mod_eq_of_lt (by omega)]; omega
  refine ⟨mkMsg (if isEnd then 4 else 3) [(0, beBytes 4 total)] (beBytes 4 xfer ++ (beBytes 4 idx ++ chunk)),
    ?_, ?_, ?_, ?_⟩
  · have := C20_roundtrip [mkMsg (if isEnd then 4 else 3) [(0, beBytes 4 total)]
        (beBytes 4 xfer ++ (beBytes 4 idx ++ chunk))] [] (Or.inl rfl) (by
      intro m hm; simp only [List.mem_singleton] at hm; subst hm
      refine ⟨⟨by cases isEnd <;> simp [mkMsg], by simp [mkMsg], ?_, ?_, ?_⟩,
        by cases isEnd <;> simp [mkMsg]⟩
      · simp only [mkMsg, List.map_cons, List.map_nil, normFlags, hintsLen, beBytes_length, hlen]
        exact Nat.mod_lt _ (by decide)
      · simp only [mkMsg, List.map_cons, List.map_nil, normFlags, Msg.exact, hintsExact, hintsLen,
          beBytes_length, hlen, hmod]
        simp; omega
      · intro x hx'
        simp only [mkMsg, List.map_cons, List.map_nil, normFlags, List.mem_singleton] at hx'
        subst hx'; simp)
    simpa [encSet, segFrame] using this
  · simp only [mkMsg, List.map_cons, List.map_nil, normFlags, Msg.exact, hintsExact, hintsLen,
      beBytes_length, hlen, hmod]
    simp; omega
  · simp only [mkMsg, List.map_cons, List.map_nil, normFlags, hintsLen, beBytes_length, hlen, hmod]
  · have h8 : ¬ ((beBytes 4 xfer ++ (beBytes 4 idx ++ chunk)).length < 8) := by rw [hlen]; omega
    have hne : (beBytes 4 xfer ++ (beBytes 4 idx ++ chunk)).isEmpty = false := by
      cases hh : (beBytes 4 xfer ++ (beBytes 4 idx ++ chunk)) with
      | nil => rw [hh] at hlen; simp at hlen
      | cons _ _ => rfl
    have t1 : (beBytes 4 xfer ++ (beBytes 4 idx ++ chunk)).take 4 = beBytes 4 xfer := by
      rw [List.take_append_of_le_length (by simp)]; simp [List.take_of_length_le]
    have t2 : ((beBytes 4 xfer ++ (beBytes 4 idx ++ chunk)).drop 4).take 4 = beBytes 4 idx := by
      rw [List.drop_append_of_le_length (by simp)]
      simp only [List.drop_of_length_le (Nat.le_of_eq (beBytes_length 4 xfer)), List.nil_append]
      rw [List.take_append_of_le_length (by simp)]; simp [List.take_of_length_le]
    have t3 : (beBytes 4 xfer ++ (beBytes 4 idx ++ chunk)).drop 8 = chunk := by
      rw [← List.append_assoc]
      rw [List.drop_append_of_le_length (by simp)]
      simp [List.drop_of_length_le]
    simp only [mkMsg, Msg.body, hne, Bool.false_eq_true, if_false, h8, t1, t2, t3,
      beNat_beBytes 4 xfer (by simpa using hx), beNat_beBytes 4 idx (by simpa using hi)]
    cases isEnd <;> simp

/-- Decoding any frame and re-encoding it reproduces the frame, whenever every declared length
    in it equals the actual length (`Msg.exact`; no truncation, proper H-flag chain). The padding
    is kept as it is. -/
theorem C20_reencode (f : Bytes) (msgs : List Msg) (rest : Bytes)
    (h : decodeSet f = some (msgs, rest)) (hex : ∀ m ∈ msgs, m.exact = true) :
    encSet msgs ++ rest = f :=
  decSet_exact _ _ _ _ h hex

example : decodeSet [2, 0x80, 0, 9, 1, 2, 0x61, 0x62, 2, 1, 0xee, 0xcc, 0xdd, 0, 0xff] =
    some ([⟨2, 8, 9, [⟨0, true, 2, [0x61, 0x62]⟩, ⟨1, false, 1, [0xee]⟩], [0xcc, 0xdd]⟩], [0, 0xff]) := by
  decide

example : (⟨2, 8, 9, [⟨0, true, 2, [0x61, 0x62]⟩, ⟨1, false, 1, [0xee]⟩], [0xcc, 0xdd]⟩ : Msg).exact = true := by
  decide

example : decodeSet (segFrame 200 7 2 true [1, 2, 3]) =
    some ([mkMsg 4 [(0, [0, 0, 0, 200])] [0, 0, 0, 7, 0, 0, 0, 2, 1, 2, 3]], []) := by decide

/-! ## Sending -/

/-- `total_len < mtu - 4` (or no MTU) and `total_len < 2^20`: one frame, the Bundle PDU,
    `total_len + 4` octets. -/
theorem C20_single (xfer : Nat) (data : Bytes) (mtu : Nat) (h : data.length + 4 < mtu)
    (hl : data.length < 2 ^ 20) :
    sendTransfer xfer data (some mtu) = .ok [bundleFrame data] ∧
    sendTransfer xfer data none = .ok [bundleFrame data] ∧
    (bundleFrame data).length = data.length + 4 := by
  have hnl : ¬ (2 ^ 20 ≤ data.length) := by omega
  refine ⟨by simp only [sendTransfer, h, if_true, sendPdu, hnl, if_false],
    by simp only [sendTransfer, sendPdu, hnl, if_false], ?_⟩
  rw [bundleFrame_length]; omega

/-- A bundle that would go out as one PDU but has 2^20 octets or more does not fit the 20-bit
    message length: `ValueError`, nothing is sent. -/
theorem C20_too_long_fails (xfer : Nat) (data : Bytes) (mtu : Option Nat)
    (hun : ∀ m, mtu = some m → data.length + 4 < m) (hl : 2 ^ 20 ≤ data.length) :
    sendTransfer xfer data mtu = .failed ∧ framesSent xfer data mtu = [] := by
  have h : sendTransfer xfer data mtu = .failed := by
    cases mtu with
    | none => simp only [sendTransfer, sendPdu, hl, if_true]
    | some m => simp only [sendTransfer, hun m rfl, if_true, sendPdu, hl]
  exact ⟨h, by simp only [framesSent, h]⟩

example : (2 : Nat) ^ 20 ≤ (List.replicate (2 ^ 20) (1 : UInt8)).length := by
  rw [List.length_replicate]; exact Nat.le_refl _

/-- The segmented case with `mtu > 18`: the frames are the TransferSeg … TransferEnd messages of
    consecutive non-empty chunks with indices 0, 1, 2, …, exactly the last being the TransferEnd,
    whose data concatenated by index is the bundle; every frame fits the MTU and the 20-bit
    message length; there are at least two. -/
theorem C20_cover (xfer : Nat) (data : Bytes) (mtu : Nat) (hseg : mtu ≤ data.length + 4)
    (hmtu : 18 < mtu) :
    ∃ ps : List (Nat × Bool × Bytes),
      sendTransfer xfer data (some mtu) =
        .ok (ps.map fun p => segFrame data.length xfer p.1 p.2.1 p.2.2) ∧
      SegsOK 0 ps ∧ (ps.map (·.2.2)).flatten = data ∧
      (∀ p ∈ ps, 0 < p.2.2.length ∧ p.2.2.length + 18 ≤ mtu ∧ p.2.2.length + 14 < 2 ^ 20) ∧
      2 ≤ ps.length := by
  have hr : 0 < (remainSize mtu).toNat := by unfold remainSize headLenSeg; omega
  have hrv : (remainSize mtu).toNat ≤ mtu - 18 ∧ (remainSize mtu).toNat ≤ 2 ^ 20 - 15 := by
    unfold remainSize headLenSeg; omega
  have hnz : ¬ (remainSize mtu ≤ 0) := by unfold remainSize headLenSeg; omega
  obtain ⟨hok, hcat, hall, _⟩ := segLoop_spec data _ hr (data.length + 1) 0 0 (by omega)
  generalize hps : segLoop (data.length + 1) data (remainSize mtu).toNat 0 0 = ps at hok hcat hall
  have hcat' : (ps.map (·.2.2)).flatten = data := by simpa using hcat
  refine ⟨ps, ?_, hok, hcat', ?_, ?_⟩
  · simp only [sendTransfer, Nat.not_lt.mpr hseg, if_false, hnz, hps]
  · intro p hp
    obtain ⟨h1, h2⟩ := hall p hp
    exact ⟨h1, by omega, by omega⟩
  · match ps, hcat', hall with
    | [], hc, _ => simp at hc; subst hc; simp at hseg; omega
    | [p], hc, ha =>
      simp at hc
      have := (ha p List.mem_cons_self).2
      rw [hc] at this; omega
    | _ :: _ :: _, _, _ => simp

/-- When `_send_transfer` fails, exactly: the bundle would be one PDU of 2^20 octets or more, or
    it needs segmenting and `mtu ≤ 18` (`remain_size ≤ 0`). -/
theorem C20_fails_iff (xfer : Nat) (data : Bytes) (mtu : Nat) :
    sendTransfer xfer data (some mtu) = .failed ↔
      (data.length + 4 < mtu ∧ 2 ^ 20 ≤ data.length) ∨ (mtu ≤ data.length + 4 ∧ mtu ≤ 18) := by
  by_cases hseg : data.length + 4 < mtu
  · by_cases hl : 2 ^ 20 ≤ data.length
    · simp only [sendTransfer, hseg, if_true, sendPdu, hl, true_and, true_or]
    · have hv : sendTransfer xfer data (some mtu) = .ok [bundleFrame data] := by
        simp only [sendTransfer, hseg, if_true, sendPdu, hl, if_false]
      rw [hv]
      constructor
      · intro h; cases h
      · rintro (⟨_, h⟩ | ⟨h, _⟩) <;> omega
  · by_cases hmtu : mtu ≤ 18
    · have hz : remainSize mtu ≤ 0 := by unfold remainSize headLenSeg; omega
      simp only [sendTransfer, hseg, if_false, hz, if_true, true_iff]
      exact Or.inr ⟨by omega, hmtu⟩
    · have hz : ¬ (remainSize mtu ≤ 0) := by unfold remainSize headLenSeg; omega
      have hv : ∃ fs, sendTransfer xfer data (some mtu) = .ok fs :=
        ⟨_, by simp only [sendTransfer, hseg, if_false, hz]; rfl⟩
      obtain ⟨fs, hv⟩ := hv
      rw [hv]
      constructor
      · intro h; cases h
      · rintro (⟨h, _⟩ | ⟨_, h⟩) <;> omega

/-- `_send_transfer` either fails (see `C20_fails_iff`) or every frame it yields is within the
    MTU. -/
theorem C20_size (xfer : Nat) (data : Bytes) (mtu : Nat) :
    sendTransfer xfer data (some mtu) = .failed ∨
    ∃ frames, sendTransfer xfer data (some mtu) = .ok frames ∧ ∀ f ∈ frames, f.length ≤ mtu := by
  by_cases hf : sendTransfer xfer data (some mtu) = .failed
  · exact Or.inl hf
  · right
    have hnf := (not_congr (C20_fails_iff xfer data mtu)).mp hf
    by_cases hseg : mtu ≤ data.length + 4
    · have hmtu : 18 < mtu := by
        apply Nat.lt_of_not_le; intro h; exact hnf (Or.inr ⟨hseg, h⟩)
      obtain ⟨ps, hs, _, _, hall, _⟩ := C20_cover xfer data mtu hseg hmtu
      refine ⟨_, hs, ?_⟩
      intro f hf'
      obtain ⟨p, hp, rfl⟩ := List.mem_map.mp hf'
      rw [segFrame_length]; have := (hall p hp).2.1; omega
    · have h : data.length + 4 < mtu := Nat.lt_of_not_le hseg
      have hl : data.length < 2 ^ 20 := by
        apply Nat.lt_of_not_le; intro hl; exact hnf (Or.inl ⟨h, hl⟩)
      refine ⟨[bundleFrame data], (C20_single xfer data mtu h hl).1, ?_⟩
      intro f hf'
      simp at hf'; subst hf'
      rw [bundleFrame_length]; omega

example : (match sendTransfer 7 (List.replicate 30 1) (some 30) with
    | .ok fs => fs.map List.length | .failed => []) = [30, 30, 24] := by decide

/-- The failure branch: a bundle that is not sent as one PDU with `mtu ≤ 18` is not segmented at
    all: `ValueError` before the first frame, nothing is sent. -/
theorem C20_too_small_fails (xfer : Nat) (data : Bytes) (mtu : Nat) (hseg : mtu ≤ data.length + 4)
    (hmtu : mtu ≤ 18) :
    sendTransfer xfer data (some mtu) = .failed ∧ framesSent xfer data (some mtu) = [] := by
  have hz : remainSize mtu ≤ 0 := by unfold remainSize headLenSeg; omega
  have h : sendTransfer xfer data (some mtu) = .failed := by
    simp only [sendTransfer, Nat.not_lt.mpr hseg, if_false, hz, if_true]
  exact ⟨h, by simp only [framesSent, h]⟩

example : framesSent 0 [0x9f, 1, 2, 3, 4, 5, 6, 7, 8, 9, 10, 11, 12, 13, 0xff] (some 18) = [] := by decide

/-! ## Receiving -/

/-- Each segment of transfer `k` exactly once — indices `0..n-1` with `n ≥ 1` (a transfer of one
    segment, TransferEnd with index 0, included), the last one the TransferEnd —, in any order and interleaved with any segments of other transfers or channels
    and Bundle PDUs: exactly the concatenation by index is queued for `k`, once, and the
    reassembly entry is removed. -/
theorem C20_reasm (cs : List Bytes) (k : Key) (evs : List Ev) (s0 : Rx)
    (h0 : getT k s0.prog = none) (hn : 1 ≤ cs.length)
    (hg : ∀ t ∈ kev k evs, t.2.1 < cs.length ∧ cs[t.2.1]? = some t.2.2 ∧
      (t.1 = true ↔ t.2.1 + 1 = cs.length))
    (hpw : ((kev k evs).map (·.2.1)).Pairwise (· ≠ ·))
    (hcov : ∀ i, i < cs.length → ∃ t ∈ kev k evs, t.2.1 = i) :
    queued k (run s0 evs) = queued k s0 ++ [cs.flatten] ∧ getT k (run s0 evs).prog = none := by
  have hJ : JE cs k s0 := by intro x hx; rw [h0] at hx; cases hx
  have hev : entryGot k s0 = [] := by unfold entryGot base; rw [h0]; rfl
  have hne : kev k evs ≠ [] := by
    obtain ⟨t, ht, _⟩ := hcov 0 (by omega)
    intro h; rw [h] at ht; cases ht
  obtain ⟨r1, r2⟩ := reasm_main cs k hn evs s0 hJ hg hne hpw
    (by intro a ha; rw [hev] at ha; cases ha)
    (fun i hi => Or.inr (hcov i hi))
  exact ⟨r2, r1⟩

private def kA : Key := ⟨"eth0|02-00-00-00-00-02|02-00-00-00-00-01", 7⟩
private def kB : Key := ⟨"eth0|02-00-00-00-00-02|02-00-00-00-00-01", 8⟩
private def evsEx : List Ev :=
  [.seg kA "a" true 2 [5], .seg kB "a" false 0 [9], .bundle "b" [0x9f, 0xff], .seg kA "a" false 0 [1, 2],
   .seg kA "a" false 1 [3, 4]]

example : queued kA (run Rx.init evsEx) = [[1, 2, 3, 4, 5]] :=
  (C20_reasm [[1, 2], [3, 4], [5]] kA evsEx Rx.init rfl (by decide) (by decide) (by decide)
    (by decide)).1

/-- Nothing is queued for `k` while one of its segments (index `m`) is still to come. -/
theorem C20_nothing_while_missing (cs : List Bytes) (k : Key) (pre : List Ev) (s0 : Rx) (m : Nat)
    (h0 : getT k s0.prog = none) (hm : m < cs.length)
    (hg : ∀ t ∈ kev k pre, t.2.1 < cs.length ∧ cs[t.2.1]? = some t.2.2 ∧
      (t.1 = true ↔ t.2.1 + 1 = cs.length))
    (hmiss : ∀ t ∈ kev k pre, t.2.1 ≠ m) :
    queued k (run s0 pre) = queued k s0 := by
  have hJ : JE cs k s0 := by intro x hx; rw [h0] at hx; cases hx
  have hev : entryGot k s0 = [] := by unfold entryGot base; rw [h0]; rfl
  exact (missing_main cs k m hm pre s0 hJ hg hmiss (by rw [hev]; intro h; cases h)).1

/-- A transfer that consists of one segment (TransferEnd with index 0) completes at once. -/
example : queued ⟨"c", 5⟩ (run Rx.init [.seg ⟨"c", 5⟩ "a" true 0 [0x9f, 1, 0xff]]) = [[0x9f, 1, 0xff]] :=
  (C20_reasm [[0x9f, 1, 0xff]] ⟨"c", 5⟩ [.seg ⟨"c", 5⟩ "a" true 0 [0x9f, 1, 0xff]] Rx.init rfl
    (by decide) (by decide) (by decide) (by decide)).1

/-! ## End to end -/

private theorem segsOK_spec : ∀ (ps : List (Nat × Bool × Bytes)) (idx : Nat), SegsOK idx ps →
    ∀ j, j < ps.length → ∃ p, ps[j]? = some p ∧ p.1 = idx + j ∧ (p.2.1 = true ↔ j + 1 = ps.length) := by
  intro ps
  induction ps with
  | nil => intro idx _ j hj; simp at hj
  | cons p rest ih =>
    intro idx hok j hj
    cases rest with
    | nil =>
      obtain ⟨h1, h2⟩ := hok
      have : j = 0 := by simp at hj; omega
      subst this
      exact ⟨p, rfl, by omega, by simp [h2]⟩
    | cons q r =>
      obtain ⟨h1, h2, h3⟩ := hok
      cases j with
      | zero => exact ⟨p, rfl, by omega, by simp [h2]⟩
      | succ j =>
        obtain ⟨p', hp', e1, e2⟩ := ih (idx + 1) h3 j (by simp at hj ⊢; omega)
        refine ⟨p', by simpa using hp', by omega, ?_⟩
        rw [e2]; simp only [List.length_cons]; omega

/-- A Bundle PDU frame as the agent builds it is queued as that bundle. -/
theorem C20_pdu_received (data : Bytes) (chan addr : String) (s : Rx) (h : data.length < 2 ^ 20)
    (hne : data ≠ []) :
    recvFrame s chan addr (bundleFrame data) = (addRx s ⟨addr, none, data.length, data⟩, .done) := by
  obtain ⟨m, hm, _, _, hbody⟩ := C20_roundtrip_bundle data h hne
  simp only [recvFrame, hm, recvMsgs, hbody]

/-- A transfer of one segment — a single frame carrying TransferEnd with index 0 — is queued as its
    data at once (the case the former truthiness test of `got_end` lost). -/
theorem C20_one_segment (total xfer : Nat) (chunk : Bytes) (chan addr : String) (s0 : Rx)
    (hx : xfer < 2 ^ 32) (hc : chunk.length + 14 < 2 ^ 20) (hne : chunk ≠ [])
    (h0 : getT ⟨chan, xfer⟩ s0.prog = none) :
    queued ⟨chan, xfer⟩ (recvFrame s0 chan addr (segFrame total xfer 0 true chunk)).1 =
      queued ⟨chan, xfer⟩ s0 ++ [chunk] := by
  obtain ⟨m, hm, _, _, hbody⟩ := C20_roundtrip_seg total xfer 0 true chunk hx (by decide) hc
  have hemp : chunk.isEmpty = false := by cases chunk with
    | nil => exact absurd rfl hne
    | cons _ _ => rfl
  have hstep : (recvFrame s0 chan addr (segFrame total xfer 0 true chunk)).1 =
      run s0 [.seg ⟨chan, xfer⟩ addr true 0 chunk] := by
    simp only [recvFrame, hm, recvMsgs, hbody, hemp, Bool.false_eq_true, if_false, run,
      List.foldl_cons, List.foldl_nil, step]
  rw [hstep]
  have := (C20_reasm [chunk] ⟨chan, xfer⟩ [.seg ⟨chan, xfer⟩ addr true 0 chunk] s0 h0 (by simp)
    (by intro t ht; simp [kev] at ht; subst ht; simp)
    (by simp [kev])
    (by intro i hi; simp at hi; subst hi; exact ⟨(true, 0, chunk), by simp [kev], rfl⟩)).1
  simpa using this

/-- Every frame the agent builds for a segmented transfer — for every MTU above 18, however
    large — decodes to one message with declared length = actual length and the same transfer
    number, index, end marker and data. -/
theorem C20_built_frames_decode (xfer : Nat) (data : Bytes) (mtu : Nat)
    (hx : xfer < 2 ^ 32) (hlen : data.length < 2 ^ 32) (hmtu : 18 < mtu)
    (hseg : mtu ≤ data.length + 4) :
    ∃ ps : List (Nat × Bool × Bytes),
      sendTransfer xfer data (some mtu) =
        .ok (ps.map fun p => segFrame data.length xfer p.1 p.2.1 p.2.2) ∧
      ∀ p ∈ ps, ∃ m, decodeSet (segFrame data.length xfer p.1 p.2.1 p.2.2) = some ([m], []) ∧
        m.exact = true ∧ m.body = .seg p.2.1 xfer p.1 p.2.2 := by
  obtain ⟨ps, hs, hok, hcat, hall, _⟩ := C20_cover xfer data mtu hseg hmtu
  refine ⟨ps, hs, ?_⟩
  have hlen_aux : ∀ l : List (Nat × Bool × Bytes), (∀ p ∈ l, 0 < p.2.2.length) →
      l.length ≤ ((l.map (·.2.2)).flatten).length := by
    intro l
    induction l with
    | nil => intro _; simp
    | cons q r ih =>
      intro hl
      have h1 := hl q List.mem_cons_self
      have h2 := ih (fun p hp => hl p (List.mem_cons_of_mem _ hp))
      simp only [List.map_cons, List.flatten_cons, List.length_append, List.length_cons]; omega
  have hnle : ps.length ≤ data.length := by
    have := hlen_aux ps (fun p hp => (hall p hp).1)
    rw [hcat] at this; exact this
  intro p hp
  obtain ⟨j, hj, hjp⟩ := List.getElem_of_mem hp
  obtain ⟨p', hp', e1, _⟩ := segsOK_spec ps 0 hok j hj
  have : p' = p := by
    rw [List.getElem?_eq_getElem hj] at hp'
    exact (Option.some.inj hp').symm.trans hjp
  subst this
  obtain ⟨m, hm, hex, _, hbody⟩ := C20_roundtrip_seg data.length xfer p'.1 p'.2.1 p'.2.2 hx
    (by omega) (hall p' hp).2.2
  exact ⟨m, hm, hex, hbody⟩

/-- The frames `_send_transfer` produces for a bundle that needs segmenting (`mtu > 18`), each
    delivered as one frame, in any order, to a receiver that has no entry for that transfer, queue
    exactly one copy of the bundle. -/
theorem C20_end_to_end (xfer : Nat) (data : Bytes) (mtu : Nat) (chan addr : String) (s0 : Rx)
    (hx : xfer < 2 ^ 32) (hlen : data.length < 2 ^ 32) (hmtu : 18 < mtu)
    (hseg : mtu ≤ data.length + 4) (h0 : getT ⟨chan, xfer⟩ s0.prog = none) :
    ∃ ps : List (Nat × Bool × Bytes),
      sendTransfer xfer data (some mtu) =
        .ok (ps.map fun p => segFrame data.length xfer p.1 p.2.1 p.2.2) ∧
      ∀ ps' : List (Nat × Bool × Bytes), ps'.Perm ps →
        queued ⟨chan, xfer⟩ ((ps'.map fun p => segFrame data.length xfer p.1 p.2.1 p.2.2).foldl
            (fun s f => (recvFrame s chan addr f).1) s0) =
          queued ⟨chan, xfer⟩ s0 ++ [data] := by
  obtain ⟨ps, hs, hok, hcat, hall, hn⟩ := C20_cover xfer data mtu hseg hmtu
  refine ⟨ps, hs, ?_⟩
  intro ps' hperm
  have hspec := segsOK_spec ps 0 hok
  -- every part: its index is its position, below 2^32
  have hpart : ∀ p ∈ ps, p.1 < ps.length ∧ ps[p.1]? = some p ∧ (p.2.1 = true ↔ p.1 + 1 = ps.length) := by
    intro p hp
    obtain ⟨j, hj, hjp⟩ := List.getElem_of_mem hp
    obtain ⟨p', hp', e1, e2⟩ := hspec j hj
    have : p' = p := by
      rw [List.getElem?_eq_getElem hj] at hp'
      exact (Option.some.inj hp').symm.trans hjp
    subst this
    have e1' : p'.1 = j := by omega
    rw [e1']; exact ⟨hj, hp', e2⟩
  have hlen_aux : ∀ l : List (Nat × Bool × Bytes), (∀ p ∈ l, 0 < p.2.2.length) →
      l.length ≤ ((l.map (·.2.2)).flatten).length := by
    intro l
    induction l with
    | nil => intro _; simp
    | cons q r ih =>
      intro hl
      have h1 := hl q List.mem_cons_self
      have h2 := ih (fun p hp => hl p (List.mem_cons_of_mem _ hp))
      simp only [List.map_cons, List.flatten_cons, List.length_append, List.length_cons]; omega
  have hnle : ps.length ≤ data.length := by
    have := hlen_aux ps (fun p hp => (hall p hp).1)
    rw [hcat] at this; exact this
  -- one frame = one step
  have hstep : ∀ (qs : List (Nat × Bool × Bytes)) (s : Rx), (∀ p ∈ qs, p ∈ ps) →
      (qs.map fun p => segFrame data.length xfer p.1 p.2.1 p.2.2).foldl
        (fun s f => (recvFrame s chan addr f).1) s =
      run s (qs.map fun p => Ev.seg ⟨chan, xfer⟩ addr p.2.1 p.1 p.2.2) := by
    intro qs
    induction qs with
    | nil => intro s _; rfl
    | cons q qs ih =>
      intro s hq
      have hqm := hq q List.mem_cons_self
      simp only [List.map_cons, List.foldl_cons, run_cons]
      rw [← ih _ (fun p hp => hq p (List.mem_cons_of_mem _ hp))]
      congr 1
      obtain ⟨m, hm, _, _, hbody⟩ := C20_roundtrip_seg data.length xfer q.1 q.2.1 q.2.2 hx
        (by have := (hpart q hqm).1; omega) (hall q hqm).2.2
      have hne : q.2.2.isEmpty = false := by
        have := (hall q hqm).1
        cases hh : q.2.2 with
        | nil => rw [hh] at this; simp at this
        | cons _ _ => rfl
      simp only [recvFrame, hm, recvMsgs, hbody, hne, Bool.false_eq_true, if_false, step]
  rw [hstep ps' s0 (fun p hp => hperm.mem_iff.mp hp)]
  have hkev : ∀ qs : List (Nat × Bool × Bytes),
      kev ⟨chan, xfer⟩ (qs.map fun p => Ev.seg ⟨chan, xfer⟩ addr p.2.1 p.1 p.2.2) =
      qs.map fun p => (p.2.1, p.1, p.2.2) := by
    intro qs
    induction qs with
    | nil => rfl
    | cons q qs ih => simp only [List.map_cons, kev_self, ih]
  have hcs : (ps.map (·.2.2)).length = ps.length := by simp
  have hres := C20_reasm (ps.map (·.2.2)) ⟨chan, xfer⟩ _ s0 h0 (by rw [hcs]; omega)
    (by
      rw [hkev]
      intro t ht
      obtain ⟨p, hp, rfl⟩ := List.mem_map.mp ht
      obtain ⟨a, b, c⟩ := hpart p (hperm.mem_iff.mp hp)
      refine ⟨by rw [hcs]; exact a, ?_, by rw [hcs]; exact c⟩
      simp only [List.getElem?_map, b, Option.map_some])
    (by
      rw [hkev, List.map_map]
      have hbase : (ps.map ((fun t : Bool × Nat × Bytes => t.2.1) ∘ fun p => (p.2.1, p.1, p.2.2))).Pairwise (· ≠ ·) := by
        rw [List.pairwise_map]
        rw [List.pairwise_iff_getElem]
        intro i j hi hj hij
        obtain ⟨p, hp, e1, _⟩ := hspec i hi
        obtain ⟨q, hq, e2, _⟩ := hspec j hj
        rw [List.getElem?_eq_getElem hi] at hp
        rw [List.getElem?_eq_getElem hj] at hq
        have hp' := Option.some.inj hp
        have hq' := Option.some.inj hq
        simp only [Function.comp]
        rw [hp', hq']; omega
      exact ((hperm.map _).pairwise_iff (fun h => h.symm)).mpr hbase)
    (by
      rw [hkev, hcs]
      intro i hi
      obtain ⟨p, hp, e1, _⟩ := hspec i hi
      have hpm : p ∈ ps := List.mem_of_getElem? hp
      exact ⟨_, List.mem_map_of_mem (hperm.mem_iff.mpr hpm), by simp only; omega⟩)
  rw [hcat] at hres
  exact hres.1

end Btpu
end DtnVerif
