/-
  C01 — delivery without an appeal to scheduler fairness beyond "an enabled event happens".
  `C01_quiescent_delivery` / `C01_quiescent_all_success` say what holds once a direction has drained,
  `C01_no_lost_wakeup` that an internal event is enabled as long as work remains. With the variant of
  Lemmas/TcpclVariantSys.lean the gap in between is closed: whatever happened before, letting the
  enabled internal events happen — in any order — takes at most `Var.mu` of them, and when none is
  left every bundle ever queued on either side has been delivered intact, in order, exactly once, and
  reported `success` to its sender (sessions not in termination; C09 covers those).
-/
import DtnVerif.Props.C09
namespace DtnVerif
namespace Tcpcl

theorem est_bool : ∀ (pX pY cX iX cY iY : Bool), ¬ (pX = true ∧ pY = true) →
    cX = (if pX = true then decide (1 ≤ if iY = true then 2 else if cY = true then 1 else 0) else true) →
    iX = (if pX = true then decide ((if iY = true then 2 else if cY = true then 1 else 0) = 2)
          else decide (1 ≤ if iY = true then 2 else if cY = true then 1 else 0)) →
    cY = (if pY = true then decide (1 ≤ if iX = true then 2 else if cX = true then 1 else 0) else true) →
    iY = (if pY = true then decide ((if iX = true then 2 else if cX = true then 1 else 0) = 2)
          else decide (1 ≤ if iX = true then 2 else if cX = true then 1 else 0)) →
    decide ((if iY = true then 2 else if cY = true then 1 else 0) = 2) = true
    ∧ decide ((if iX = true then 2 else if cX = true then 1 else 0) = 2) = true := by decide

/-- two endpoints which have each processed everything the other emitted have established the
    session, unless both are passive -/
theorem established_of_exchanged (x y : Ep) (Px Py : LState) (hx : TxInv x Px) (hy : TxInv y Py)
    (hxy : y.processed = x.emitted) (hyx : x.processed = y.emitted)
    (hpas : ¬ (x.cfg.passive = true ∧ y.cfg.passive = true)) : x.inSess = true ∧ y.inSess = true := by
  have e1 : Py.phase = phaseOf x.txView := by
    have h1 : legalRun {} y.processed = some Py := hy.hP
    have h2 : legalRun {} x.emitted = some ⟨phaseOf x.txView, x.inTerm, curL x.txView, x.nStarted⟩ := hx.L
    rw [hxy, h2] at h1
    have := Option.some.inj h1
    rw [← this]
  have e2 : Px.phase = phaseOf y.txView := by
    have h1 : legalRun {} x.processed = some Px := hx.hP
    have h2 : legalRun {} y.emitted = some ⟨phaseOf y.txView, y.inTerm, curL y.txView, y.nStarted⟩ := hy.L
    rw [hyx, h2] at h1
    have := Option.some.inj h1
    rw [← this]
  have cx := hx.phaseC
  have ix := hx.phaseI
  have sx := hx.sess
  have cy := hy.phaseC
  have iy := hy.phaseI
  have sy := hy.sess
  simp only [Ep.txView] at cx ix sx cy iy sy
  rw [e2] at cx ix sx
  rw [e1] at cy iy sy
  simp only [phaseOf, Ep.txView] at cx ix sx cy iy sy
  rw [sx, sy]
  have hp' : ¬ (x.cfg.passive = true ∧ y.cfg.passive = true) := hpas
  exact est_bool _ _ _ _ _ _ hp' cx ix cy iy

/-- **Every queued bundle is delivered and acknowledged within a bounded number of internal steps.**
    After any schedule `sch`, let the enabled internal events happen in any order (`int`). There are at
    most `Var.mu` of them; and when none is enabled any more, with both endpoints open and neither in
    termination, B has completely received every bundle A's user ever queued — same ids, same octets,
    same order, each exactly once — A has reported `success` for each of them and its send queue is
    empty; and the same in the other direction. -/
theorem C01_all_delivered_bounded (cfgA cfgB : Cfg) (sch int : List SysEv)
    (a1 : 0 < cfgA.segInit) (a2 : cfgA.privExt = false) (a3 : 0 < cfgA.segMru)
    (b1 : 0 < cfgB.segInit) (b2 : cfgB.privExt = false) (b3 : 0 < cfgB.segMru)
    (hpas : ¬ (cfgA.passive = true ∧ cfgB.passive = true))
    (hwf : ∀ pre, pre <+: sch ++ int → SysWF (runSys (initSys cfgA cfgB) pre))
    (hs : ∀ ev ∈ sch, ev.sendOK)
    (hen : Var.EnabledRun (runSys (initSys cfgA cfgB) sch) int) :
    let s0 := runSys (initSys cfgA cfgB) sch
    let s := runSys (initSys cfgA cfgB) (sch ++ int)
    int.length ≤ Var.mu s0
    ∧ (Var.Stuck s → s.a.closed = false → s.b.closed = false → s.a.inTerm = false → s.b.inTerm = false →
        s.b.rxLog = s.a.sendLog.map (fun it => (it.tid, it.data))
        ∧ (∀ it ∈ s.a.sendLog, it.tid ∈ s.a.successLog) ∧ s.a.txMap = []
        ∧ s.a.rxLog = s.b.sendLog.map (fun it => (it.tid, it.data))
        ∧ (∀ it ∈ s.b.sendLog, it.tid ∈ s.b.successLog) ∧ s.b.txMap = []) := by
  intro s0 s
  have hs' : ∀ ev ∈ sch ++ int, ev.sendOK := by
    intro ev hev
    rcases List.mem_append.mp hev with h | h
    · exact hs ev h
    · exact Var.enabledRun_sendOK _ _ hen ev h
  refine ⟨?_, ?_⟩
  · have := C09_bounded_steps cfgA cfgB sch int a1 a2 a3 b1 b2 b3 hpas hwf hs hen
    show int.length ≤ Var.mu (runSys (initSys cfgA cfgB) sch)
    omega
  intro hst hao hbo hta htb
  obtain ⟨ha, hb⟩ := epAll_reachable cfgA cfgB (sch ++ int) a1 a2 a3 b1 b2 b3 hwf hs'
  have hi : SysInv s := sysInv_run (sch ++ int) _ (sysInv_init cfgA cfgB a1 a2 a3 b1 b2 b3) hwf hs'
  have hw : SysWF s := hwf (sch ++ int) (List.prefix_refl _)
  -- what being stuck means with both endpoints open
  have txA : s.a.txSrc = 0 := by
    have := hst (.atA (.pump 1))
    simp only [Var.Enabled] at this
    cases hn : s.a.txSrc with
    | zero => rfl
    | succ k => exact absurd ⟨Nat.le_refl 1, hao, by omega⟩ this
  have txB : s.b.txSrc = 0 := by
    have := hst (.atB (.pump 1))
    simp only [Var.Enabled] at this
    cases hn : s.b.txSrc with
    | zero => rfl
    | succ k => exact absurd ⟨Nat.le_refl 1, hbo, by omega⟩ this
  have pB : s.toB = [] := by
    have := hst (.deliverB s.toB.length)
    simp only [Var.Enabled, List.take_length] at this
    cases hp : s.toB with
    | nil => rfl
    | cons x xs => exact absurd ⟨hbo, by rw [hp]; simp⟩ this
  have pA : s.toA = [] := by
    have := hst (.deliverA s.toA.length)
    simp only [Var.Enabled, List.take_length] at this
    cases hp : s.toA with
    | nil => rfl
    | cons x xs => exact absurd ⟨hao, by rw [hp]; simp⟩ this
  obtain ⟨pAB, -⟩ := quiet_wire s.a s.b s.toB ha hb hw.1 hi.wireB pB hao hbo txA
  obtain ⟨pBA, -⟩ := quiet_wire s.b s.a s.toA hb ha hw.2 hi.wireA pA hbo hao txB
  obtain ⟨Pa, hPa⟩ := ha.inv.tx
  obtain ⟨Pb, hPb⟩ := hb.inv.tx
  have hcfg : ¬ (s.a.cfg.passive = true ∧ s.b.cfg.passive = true) := by
    obtain ⟨c1, c2⟩ := Var.cfg_runSys (sch ++ int) (initSys cfgA cfgB)
    obtain ⟨d1, d2⟩ := Var.cfg_initSys cfgA cfgB
    show ¬ ((runSys (initSys cfgA cfgB) (sch ++ int)).a.cfg.passive = true ∧ (runSys (initSys cfgA cfgB) (sch ++ int)).b.cfg.passive = true)
    rw [c1, c2, d1, d2]; exact hpas
  obtain ⟨sa, sb⟩ := established_of_exchanged s.a s.b Pa Pb hPa hPb pAB pBA hcfg
  have pqA : s.a.pqSources = 0 := by
    have := hst (.atA .procQueue)
    simp only [Var.Enabled] at this
    cases hn : s.a.pqSources with
    | zero => rfl
    | succ k => exact absurd ⟨by omega, Or.inr (Or.inl sa)⟩ this
  have pqB : s.b.pqSources = 0 := by
    have := hst (.atB .procQueue)
    simp only [Var.Enabled] at this
    cases hn : s.b.pqSources with
    | zero => rfl
    | succ k => exact absurd ⟨by omega, Or.inr (Or.inl sb)⟩ this
  obtain ⟨ba1, ba2⟩ := no_src_buffers ha.ts hao txA
  obtain ⟨bb1, bb2⟩ := no_src_buffers hb.ts hbo txB
  have dA : Drained s.a s.b s.toB := ⟨hao, hbo, hta, ba1, ba2, pB, pqA⟩
  have dB : Drained s.b s.a s.toA := ⟨hbo, hao, htb, bb1, bb2, pA, pqB⟩
  obtain ⟨qa, qb⟩ := C01_quiescent_delivery cfgA cfgB (sch ++ int) a1 a2 a3 b1 b2 b3 hwf hs'
  obtain ⟨ra, rb⟩ := C01_quiescent_all_success cfgA cfgB (sch ++ int) a1 a2 a3 b1 b2 b3 hwf hs'
  obtain ⟨ra1, ra2⟩ := ra dA bb1 bb2 pA
  obtain ⟨rb1, rb2⟩ := rb dB ba1 ba2 pB
  exact ⟨(qa dA).2, ra1, ra2, (qb dB).2, rb1, rb2⟩

/-! non-vacuity: the C01 example from the moment the bundle is queued, continued by 26 enabled internal
    events (variant 855 → 56: what is left is "open" and "SESS_TERM not sent yet" on both sides); at the
    end nothing is enabled, both endpoints are open, neither is terminating, and the bundle is
    delivered and acknowledged -/
namespace ExampleDeliver
def sch : List SysEv := Example.sched.take 12
def int : List SysEv :=
  [.atA (.pump 10240), .atA (.pump 10240), .atA (.pump 10240), .atB (.pump 10240), .atB (.pump 10240), .atB (.pump 10240),
   .atA .procQueue, .atA (.pump 10240), .atA (.pump 10240), .atA (.pump 10240), .deliverB 100,
   .atB (.pump 10240), .atB (.pump 10240), .atB (.pump 10240), .deliverA 100, .atA .procQueue,
   .atA (.pump 10240), .atA (.pump 10240), .atA (.pump 10240), .deliverB 100,
   .atB (.pump 10240), .atB (.pump 10240), .atB (.pump 10240), .deliverA 100, .atA .procQueue, .atB .procQueue]

example : (List.range ((sch ++ int).length + 1)).all
    (fun k => decide (SysWF (runSys (initSys Example.cfgA Example.cfgB) ((sch ++ int).take k)))) = true := by decide +kernel

example : let s0 := runSys (initSys Example.cfgA Example.cfgB) sch
    s0.a.txPendStart = [⟨1, [1, 2, 3]⟩] ∧ Var.EnabledRun s0 int ∧ Var.mu s0 = 855 := by decide +kernel

example : let s := runSys (initSys Example.cfgA Example.cfgB) (sch ++ int)
    s.a.closed = false ∧ s.b.closed = false ∧ s.a.inTerm = false ∧ s.b.inTerm = false
    ∧ (Var.cands.all fun ev => !decide (Var.Enabled s ev)) = true
    ∧ s.b.rxLog = [(1, [1, 2, 3])] ∧ s.a.successLog = [1] ∧ s.a.txMap = [] ∧ Var.mu s = 56 := by decide +kernel
end ExampleDeliver

end Tcpcl
end DtnVerif
