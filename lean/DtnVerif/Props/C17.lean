import DtnVerif.Model.TcpclEp
namespace DtnVerif
namespace Tcpcl
theorem C17_placeholder : True := trivial
end Tcpcl
end DtnVerif
