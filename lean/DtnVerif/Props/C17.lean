/-
  C17 — TCPCL answers out-of-place peer messages without corrupting state.
  The peer is arbitrary here: events carry arbitrary octets, so every theorem quantified over event
  lists is a theorem against every adversarial peer and every history.
-/
import DtnVerif.Lemmas.TcpclEsc
import DtnVerif.Lemmas.TcpclRx
import DtnVerif.Lemmas.TcpclFrame
import DtnVerif.Lemmas.TcpclDecodeWF
namespace DtnVerif
namespace Tcpcl

theorem C17_facts :
    Facts.enum_tcpcl_RejectMsg_Reason_UNEXPECTED = (rejUnexpected : Int)
    ∧ Facts.enum_tcpcl_RejectMsg_Reason_UNKNOWN = (rejUnknown : Int) := by decide

/-- **No callback ever escapes with an exception** (private test extensions off): for every event
    list — every schedule, every octet string the peer may send, every user call — no step of the
    endpoint produces an `escaped` output. -/
theorem C17_no_escape (cfg : Cfg) (hp : cfg.privExt = false) (evs : List Ev) :
    ∀ os ∈ (run { cfg := cfg } evs).2, ∀ o ∈ os, ∀ w, o ≠ .escaped w := by
  intro os hos o ho w heq
  have h := esc_run evs { cfg := cfg } hp os hos
  unfold noEsc at h
  rw [List.all_eq_true] at h
  have := h o ho
  subst heq
  simp [Out.isEsc] at this

/-- **Nothing is ever assembled from mismatched transfers**: whatever the peer sends, the completed
    receptions are exactly those of the ideal receiver (a non-START segment extends only the open
    transfer with the same id; anything else leaves reassembly untouched). -/
theorem C17_rx_spec (cfg : Cfg) (evs : List Ev) :
    (runEp { cfg := cfg } evs).rxLog = deliver (runEp { cfg := cfg } evs).processed :=
  (rxInv_run evs _ (rxInv_init cfg)).1

/-- **The handlers only ever see in-range values**: whatever octets the peer sends and however they are
    chunked, every message handed to `recv_message` has every field below the bound of its wire field
    (lengths and transfer ids < 2^64, flags and reason codes < 256, …), and the data carried by all
    messages handled so far is no more than the octets received so far. -/
theorem C17_handled_wf (cfg : Cfg) (evs : List Ev) :
    (∀ m ∈ (runEp { cfg := cfg } evs).processed, m.WF)
    ∧ sumData (runEp { cfg := cfg } evs).processed ≤ (runEp { cfg := cfg } evs).rxBytes.length := by
  obtain ⟨-, hpre, -⟩ := frameInv_run evs _ (frameInv_init cfg)
  obtain ⟨w, l⟩ := feed_wf {} (runEp { cfg := cfg } evs).rxBytes
  refine ⟨fun m hm => w m (hpre.subset hm), ?_⟩
  obtain ⟨rest, hrest⟩ := hpre
  have : sumData (feed {} (runEp { cfg := cfg } evs).rxBytes).2
      = sumData (runEp { cfg := cfg } evs).processed + sumData rest := by rw [← hrest, sumData_append]
  have h0 : ({} : Rx).buf.length = 0 := rfl
  omega

/-- a peer message that is out of place in the current state -/
def OutOfPlace (e : Ep) : Msg → Prop
  | .xferSegment flags tid _ _ =>
      e.inSess = false ∨ (hasStart flags = false ∧ ∀ t d, e.rxTmp = some (t, d) → (t == tid) = false)
  | .xferAck flags tid _ =>
      e.inSess = false ∨ e.txMap.contains tid = false ∨ (hasEnd flags = true ∧ e.txPendAck.contains tid = false)
  | .xferRefuse _ tid => e.inSess = false ∨ e.txMap.contains tid = false
  | .sessTerm _ _ => e.inSess = false
  | _ => False

/-- the endpoint's own transmit state -/
def Ep.ownTx (e : Ep) := (e.txPendStart, e.txTmp, e.txPendAck, e.txMap, e.sendLog, e.txNextId, e.nStarted)

/-- **Response and isolation.** An out-of-place segment, ACK, refusal or SESS_TERM is answered with
    exactly one MSG_REJECT (reason "unexpected", naming the offending type); the endpoint's own
    transfers, its reassembly state and its open/closed state are untouched. -/
theorem C17_response (e : Ep) (m : Msg) (h : OutOfPlace e m) :
    (handleMsg e m).1.emitted = e.emitted ++ [.msgReject m.type rejUnexpected]
    ∧ (handleMsg e m).1.ownTx = e.ownTx
    ∧ (handleMsg e m).1.rxLog = e.rxLog ∧ (handleMsg e m).1.rxTmp = e.rxTmp
    ∧ (handleMsg e m).1.closed = e.closed ∧ (handleMsg e m).2 = [] := by
  unfold handleMsg
  cases m with
  | contact f => exact absurd h (by simp [OutOfPlace])
  | sessInit a b c d x => exact absurd h (by simp [OutOfPlace])
  | keepalive => exact absurd h (by simp [OutOfPlace])
  | msgReject a b => exact absurd h (by simp [OutOfPlace])
  | sessTerm f r =>
    have hs : e.inSess = false := h
    simp [onSessTerm, hs, sendReject, sendMessage, sendReady, kaReset, idleReset, Ep.ownTx]
  | xferRefuse r t =>
    rcases h with hs | hm
    · simp [onRefuse, hs, sendReject, sendMessage, sendReady, kaReset, idleReset, Ep.ownTx]
    · have hm' : t ∉ e.txMap := by simpa using hm
      cases hs : e.inSess <;> simp [onRefuse, hs, hm', sendReject, sendMessage, sendReady, kaReset, idleReset, Ep.ownTx]
  | xferAck f t l =>
    rcases h with hs | hm | ⟨he, hp⟩
    · simp [onAck, hs, sendReject, sendMessage, sendReady, kaReset, idleReset, Ep.ownTx]
    · have hm' : t ∉ e.txMap := by simpa using hm
      cases hs : e.inSess <;> simp [onAck, hs, hm', sendReject, sendMessage, sendReady, kaReset, idleReset, Ep.ownTx]
    · have hp' : t ∉ e.txPendAck := by simpa using hp
      cases hs : e.inSess <;> by_cases hm : t ∈ e.txMap <;>
        simp [onAck, hs, hm, he, hp', sendReject, sendMessage, sendReady, kaReset, idleReset, Ep.ownTx]
  | xferSegment f t x d =>
    rcases h with hs | ⟨hst, hrt⟩
    · simp [onSegment, hs, sendReject, sendMessage, sendReady, kaReset, idleReset, Ep.ownTx]
    · cases hs : e.inSess
      · simp [onSegment, hs, sendReject, sendMessage, sendReady, kaReset, idleReset, Ep.ownTx]
      · cases hr : e.rxTmp with
        | none => simp [onSegment, hs, hst, hr, sendReject, sendMessage, sendReady, kaReset, idleReset, Ep.ownTx]
        | some p =>
          obtain ⟨t', d'⟩ := p
          have := hrt t' d' hr
          simp [onSegment, hs, hst, hr, this, sendReject, sendMessage, sendReady, kaReset, idleReset, Ep.ownTx]

/-- **A contact header with wrong magic or version closes the connection** (and nothing is processed). -/
theorem C17_bad_contact_closes (e : Ep) (c : Bytes) (hc : e.closed = false)
    (hbad : (feed e.rx c).1.dead = true) : (step e (.rx c)).1.closed = true := by
  have hstep : (step e (.rx c)).1 = (recvRaw e c).1 := by unfold step; simp [hc]
  rw [hstep]
  unfold recvRaw
  simp only [hbad, if_true]
  exact closed_doClose _

/-- non-vacuity: an established endpoint with an open reception and a queued transfer; an ACK for an
    unknown transfer and a stray non-START segment are out of place; the ACK is rejected -/
def exEp : Ep := { inSess := true, sentInit := true, sentContact := true, started := true, sendSegSize := 10,
                   rxTmp := some (7, [1, 2]), txMap := [1], txPendStart := [⟨1, [9, 9, 9]⟩], txNextId := 2,
                   sendLog := [⟨1, [9, 9, 9]⟩] }
example : OutOfPlace exEp (.xferAck 1 999 5) := Or.inr (Or.inl (by decide))
example : OutOfPlace exEp (.xferSegment 0 8 [] [3]) :=
  Or.inr ⟨by decide, by intro t d h; cases h; decide⟩
example : (handleMsg exEp (.xferAck 1 999 5)).1.emitted = [.msgReject tXferAck rejUnexpected] := by decide

end Tcpcl
end DtnVerif
