/-
  C02 — BPv7 bundle encoding round-trips and is RFC 9171 well-formed.

  Model encoder: `Bundle.enc` (Model/Bundle.lean, mirrors scapy_cbor + bp.encoding).
  Model decoder: `decodeBundle` (Model/BundleDec.lean, mirrors `Bundle(bytes)` + the EID
  normalisation of `EidField`). Independent, written from RFC 9171/RFC 8949: `rfcEncode` (CBOR item
  tree) and `rfc9171Shape` (generic CBOR item skipper).
  Well-formedness predicates are explicit Boolean functions: `wf` (what the codec needs:
  integers and lengths < 2^64, CRC type ≤ 2, fragment fields zero unless the fragment flag is
  set, CRC field absent iff CRC type 0, EIDs fixed points of the `urlsplit` normalisation) and
  `rfcWf` (= `wf` + version 7 + no CBOR null + CRC fields of the right width + payload block last
  and unique).
-/
import DtnVerif.Lemmas.BundleRfc
import DtnVerif.Lemmas.Crc
import DtnVerif.Lemmas.BpAsb
import DtnVerif.Generated.Facts
namespace DtnVerif
namespace Props
namespace C02
open Bp Cbor

/-! ### Concrete bundles used as non-vacuity witnesses -/

def ascii (s : String) : Bytes := s.toList.map (fun c => UInt8.ofNat c.toNat)

/-- fragment, CRC-32C primary, dtn / ipn / dtn:none EIDs, values on both sides of every CBOR head
    boundary (23/24, 255/256, 65535/65536, 2^32-1/2^32, 2^64-1), extension blocks 6, 7, 10, an
    unknown type 192 with CRC-16, payload last. -/
def exA : Bundle :=
  { primary := { version := 7, flags := 0x40001, crcType := 2,
                 dest := .dtn (ascii "//dst/svc"), src := .ipn [4294967296, 23],
                 rpt := .dtnNone, ts := ⟨18446744073709551615, 24⟩, lifetime := 65536,
                 fragOff := 255, totalLen := 256, crc := some [1, 2, 3, 4] },
    blocks := [
      { typeCode := 6, blockNum := 2, btsd := some (encPrevNode (.dtn (ascii "//n1/"))) },
      { typeCode := 7, blockNum := 3, flags := 1, crcType := 1, btsd := some (encBundleAge 65535),
        crc := some [9, 9] },
      { typeCode := 10, blockNum := 4, btsd := some (encHopCount 30 4294967295) },
      { typeCode := 192, blockNum := 24, flags := 0x10, crcType := 1,
        btsd := some (List.replicate 24 0xaa), crc := some [0, 0] },
      { typeCode := 1, blockNum := 1, crcType := 2, btsd := some (List.replicate 256 0x55),
        crc := some [0, 0, 0, 0] } ] }

/-- `wf` but not `rfcWf`: version 6, a null BTSD, a null CRC value, no payload block. -/
def exB : Bundle :=
  { primary := { version := 6, flags := 4, crcType := 1, dest := .ipn [1, 2, 3], src := .dtnNone,
                 rpt := .dtn (ascii "~mcast"), crc := none },
    blocks := [ { typeCode := 7, blockNum := 23, btsd := none } ] }

/-! ### Round trip -/

/-- For every `wf` bundle value, decoding the encoded octets yields exactly that value
    (all field values; unbounded block count, BTSD and EID lengths up to the CBOR limit 2^64). -/
theorem C02_roundtrip (b : Bundle) (h : wf b = true) : decodeBundle b.enc = some b :=
  decodeBundle_enc b h

example : wf exA = true := by decide +kernel
example : wf exB = true ∧ rfcWf exB = false := by decide +kernel
example : decodeBundle exA.enc = some exA := C02_roundtrip exA (by decide +kernel)

/-- Decoding is injective on encodings of well-formed bundles: two `wf` bundles with the same
    octets are the same bundle. -/
theorem C02_enc_injective (a b : Bundle) (ha : wf a = true) (hb : wf b = true)
    (h : a.enc = b.enc) : a = b := by
  have h1 := C02_roundtrip a ha
  have h2 := C02_roundtrip b hb
  rw [h] at h1
  exact Option.some.inj (h1.symm.trans h2)

/-- The round trip also holds in front of arbitrary trailing octets of the block stream: each block
    decoder returns exactly its own octets' worth (prefix-freeness of block encodings). -/
theorem C02_block_prefix (c : Canonical) (r : Bytes) (h : wfCanonical c = true) :
    decCanonical (c.enc ++ r) = some (c, r) := decCanonical_enc c r h

theorem C02_primary_prefix (p : Primary) (r : Bytes) (h : wfPrimary p = true) :
    decPrimaryRaw (p.enc ++ r) = some (p, r) := decPrimaryRaw_enc p r h

/-! ### Re-encoding against the independent RFC 9171 encoder -/

/-- The model of the repository's encoder and the encoder written from RFC 9171 produce the same
    octets for every bundle value (no side condition at all). -/
theorem C02_reencode_eq (b : Bundle) : b.enc = rfcEncode b := (rfcEncode_eq b).symm

/-- Octets produced by the independent encoder decode to the bundle, and re-encoding what was decoded
    reproduces those octets. -/
theorem C02_reencode (b : Bundle) (h : wf b = true) :
    ∃ d, decodeBundle (rfcEncode b) = some d ∧ d = b ∧ d.enc = rfcEncode b := by
  refine ⟨b, ?_, rfl, (rfcEncode_eq b).symm⟩
  rw [rfcEncode_eq]; exact C02_roundtrip b h

example : rfcEncode exA = exA.enc := (C02_reencode_eq exA).symm
example : (rfcEncode exA).length = 410 := by decide +kernel

/-! ### RFC 9171 shape -/

/-- Every `rfcWf` bundle encodes to the RFC 9171 structure as the independent recogniser reads it:
    indefinite array; primary block = definite array of 8–11 items; each further item a definite
    array of 5–6 items; payload block (type 1) last and unique; break; nothing after. -/
theorem C02_shape (b : Bundle) (h : rfcWf b = true) : rfc9171Shape b.enc = true :=
  rfc9171Shape_enc b h

example : rfcWf exA = true := by decide +kernel
example : rfc9171Shape exA.enc = true := C02_shape exA (by decide +kernel)
/-- the recogniser is not trivially true: payload block not last / missing break / wrong arity -/
example : rfc9171Shape exB.enc = false := by decide +kernel
example : rfc9171Shape (exA.enc.dropLast) = false := by decide +kernel
example : rfc9171Shape ({ exA with blocks := exA.blocks.reverse }).enc = false := by decide +kernel

/-- `rfcWf` implies `wf`. -/
theorem C02_rfcWf_wf (b : Bundle) (h : rfcWf b = true) : wf b = true := by
  simp only [rfcWf, Bool.and_eq_true] at h
  exact h.1.1.1.1

/-! ### EID normalisation: what is still rewritten, and the round trip over all RFC 9171 EIDs

`normEid e = some e` (the EID part of `wf`) holds for a `dtn` scheme-specific part `s` exactly when
`s ≠ "none"`, there is no TAB/CR/LF before the first `?`/`#`, and — with `p` the part of `s` before
the first `?`/`#` — either `p` does not start with `//`, or it is `//` + non-empty ASCII authority
without `[` `]` + `/` + anything. Still rewritten (none of them RFC 9171 EIDs): `//host` and
`//host?q` get the `/` (`//host/`, `//host/?q`), an empty authority is dropped (`///x` → `/x`),
TAB/CR/LF before the query are removed, the text `none` becomes `dtn:none`. -/

example : normEid (.dtn (ascii "//src?")) = some (.dtn (ascii "//src/?")) := by decide +kernel
example : normEid (.dtn (ascii "//n/a?b#c")) = some (.dtn (ascii "//n/a?b#c")) := by decide +kernel
example : normEid (.dtn (ascii "//host")) = some (.dtn (ascii "//host/")) := by decide +kernel
example : normEid (.dtn (ascii "///x")) = some (.dtn (ascii "/x")) := by decide +kernel
example : normEid (.dtn (ascii "//h/a\tb?c\td")) = some (.dtn (ascii "//h/ab?c\td")) := by decide +kernel
example : normEid (.dtn (ascii "none")) = some .dtnNone := by decide +kernel
example : wfEid (.dtn (ascii "//node/svc?x=1#y")) = true ∧ wfEid (.dtn (ascii "//node")) = false
    ∧ wfEid (.dtn (ascii "~mcast/grp")) = true := by decide +kernel

/-- Every RFC 9171 endpoint ID (`dtn:none`, `dtn://node-name/demux` with `demux = *VCHAR`, including
    `?` and `#`; two-element `ipn`) is a fixed point of the code's normalisation. -/
theorem C02_rfc_eid_fixed (e : Eid) (h : rfcEid e = true) : normEid e = some e :=
  wfEid_norm (rfcEid_wf e h)

/-- `wfRfcEids` (RFC 9171 EIDs, otherwise the conditions of `wf`) implies `wf`. -/
theorem C02_wfRfcEids_wf (b : Bundle) (h : wfRfcEids b = true) : wf b = true := by
  simp only [wfRfcEids, Bool.and_eq_true] at h
  obtain ⟨⟨⟨⟨⟨⟨⟨⟨⟨⟨⟨hv, hf⟩, hc⟩, hd⟩, hs⟩, hr⟩, ht⟩, hq⟩, hl⟩, hfr⟩, hcrc⟩, hbl⟩ := h
  simp only [wf, wfPrimary, Bool.and_eq_true]
  exact ⟨⟨⟨⟨⟨⟨⟨⟨⟨⟨⟨hv, hf⟩, hc⟩, rfcEid_wf _ hd⟩, rfcEid_wf _ hs⟩, rfcEid_wf _ hr⟩, ht⟩, hq⟩, hl⟩, hfr⟩,
    hcrc⟩, hbl⟩

/-- **Round trip at the strength of the property text**: for every bundle whose EIDs are RFC 9171
    well-formed (and whose integers/lengths fit CBOR, CRC type ≤ 2, conditional fields consistent),
    decoding the encoded octets yields exactly the bundle. (Before the D19 fix in the repository
    this statement was false: `dtn://node/svc?x=1` lost its query.) -/
theorem C02_roundtrip_rfc (b : Bundle) (h : wfRfcEids b = true) : decodeBundle b.enc = some b :=
  C02_roundtrip b (C02_wfRfcEids_wf b h)

/-- destination `dtn://node/svc?x=1#f` (`?`, `#` are VCHAR, allowed in the demux) -/
def exD : Bundle :=
  { primary := { dest := .dtn (ascii "//node/svc?x=1#f"), ts := ⟨1, 1⟩, lifetime := 1000 },
    blocks := [ { typeCode := 1, blockNum := 1, btsd := some (ascii "x") } ] }

example : wfRfcEids exD = true := by decide +kernel
example : decodeBundle exD.enc = some exD := C02_roundtrip_rfc exD (by decide +kernel)
example : wfRfcEids exA = true := by decide +kernel

/-! ### Any number of blocks (the outer array is indefinite: no count is ever encoded) -/

/-- `n` extension blocks (type 192, numbers 2 …) followed by the payload block -/
def manyBlocks (n : Nat) : Bundle :=
  { primary := { dest := .dtn (ascii "//dst/svc"), src := .ipn [1, 2], ts := ⟨1, 1⟩, lifetime := 1000 },
    blocks := (List.range n).map (fun i => { typeCode := 192, blockNum := i + 2, btsd := some [UInt8.ofNat i] })
              ++ [ { typeCode := 1, blockNum := 1, btsd := some (ascii "payload") } ] }

/-- The encoding starts with the indefinite-array octet immediately followed by the primary block's
    own array head (`88`…`8b`), whatever the number of blocks: the octet after `9f` never is an item
    count. -/
theorem C02_frame_no_count (b : Bundle) :
    ∃ t, b.enc = 0x9f :: UInt8.ofNat (4 * 32 + b.primary.count) :: t ∧ 8 ≤ b.primary.count
      ∧ b.primary.count ≤ 11 := by
  have hc : 8 ≤ b.primary.count ∧ b.primary.count ≤ 11 := by
    unfold Primary.count; split <;> split <;> omega
  refine ⟨b.primary.fields ++ encBlocks b.blocks ++ [0xff], ?_, hc.1, hc.2⟩
  have : encArrHead b.primary.count = [UInt8.ofNat (4 * 32 + b.primary.count)] := by
    unfold encArrHead head; simp [show b.primary.count < 24 by omega]
  simp [Bundle.enc, Primary.enc, this]

/-- 24, 25 and 256 top-level items (primary + 23 / 24 / 255 canonical blocks): round trip and shape
    are instances of the general theorems — the quantifier over `b.blocks` is unbounded. -/
example : wfRfcEids (manyBlocks 22) = true ∧ wfRfcEids (manyBlocks 23) = true
    ∧ wfRfcEids (manyBlocks 254) = true := by decide +kernel
example : decodeBundle (manyBlocks 22).enc = some (manyBlocks 22) :=
  C02_roundtrip_rfc _ (by decide +kernel)
example : decodeBundle (manyBlocks 23).enc = some (manyBlocks 23) :=
  C02_roundtrip_rfc _ (by decide +kernel)
example : decodeBundle (manyBlocks 254).enc = some (manyBlocks 254) :=
  C02_roundtrip_rfc _ (by decide +kernel)
example : rfc9171Shape (manyBlocks 23).enc = true := C02_shape _ (by decide +kernel)
example : ((manyBlocks 23).enc.take 2) = [0x9f, 0x88] := by decide +kernel

/-! ### Block-type-specific data is opaque to the bundle codec -/

/-- `wf` says nothing about the *content* of block-type-specific data: replacing the data of every
    block by arbitrary octets keeps a bundle well-formed. -/
theorem C02_wf_any_block_data (b : Bundle) (h : wf b = true) (f : Canonical → Bytes)
    (hf : ∀ c, u64 (f c).length = true) :
    wf { b with blocks := b.blocks.map (fun c => { c with btsd := some (f c) }) } = true := by
  simp only [wf, Bool.and_eq_true] at h ⊢
  refine ⟨h.1, ?_⟩
  rw [List.all_eq_true] at *
  intro c hc
  simp only [List.mem_map] at hc
  obtain ⟨c0, hc0, rfl⟩ := hc
  have := h.2 c0 hc0
  simp only [wfCanonical, Bool.and_eq_true] at this ⊢
  obtain ⟨⟨⟨⟨⟨h1, h2⟩, h3⟩, h4⟩, _⟩, h6⟩ := this
  exact ⟨⟨⟨⟨⟨h1, h2⟩, h3⟩, h4⟩, by simpa [wfOptBytes] using hf c0⟩, h6⟩

/-- Whatever octets the blocks carry — data of a known block type serialised by another encoder
    (longer heads, indefinite-length arrays, EID text this code would normalise), an administrative
    payload that is not a dissectable record, ciphertext — decoding succeeds, returns exactly those
    octets, and re-encoding is byte-identical. The PAYLOAD_ADMIN flag and the block type codes play no
    role. -/
theorem C02_any_block_data (b : Bundle) (h : wf b = true) (f : Canonical → Bytes)
    (hf : ∀ c, u64 (f c).length = true) :
    let b' : Bundle := { b with blocks := b.blocks.map (fun c => { c with btsd := some (f c) }) }
    decodeBundle b'.enc = some b' ∧ (decodeBundle b'.enc).map Bundle.enc = some b'.enc := by
  have hw := C02_wf_any_block_data b h f hf
  have hr := C02_roundtrip _ hw
  exact ⟨hr, by rw [hr]; rfl⟩

/-- Re-encoding a decoded bundle reproduces the octets, for every well-formed bundle. -/
theorem C02_reencode_identical (b : Bundle) (h : wf b = true) :
    (decodeBundle b.enc).map Bundle.enc = some b.enc := by
  rw [C02_roundtrip b h]; rfl

/-- hop count as an indefinite-length array, previous node `dtn://node7` (no trailing `/`), bundle age
    with a two-octet head, and an admin-flagged bundle whose payload is the integer 5 -/
def exForeign : Bundle :=
  { primary := { flags := 2, dest := .dtn (ascii "//dst/svc"), src := .ipn [1, 2], ts := ⟨1, 1⟩, lifetime := 1000 },
    blocks := [ { typeCode := 10, blockNum := 2, btsd := some [0x9f, 0x18, 0x1e, 0x01, 0xff] },
                { typeCode := 6, blockNum := 3,
                  btsd := some ([0x82, 0x01, 0x67] ++ ascii "//node7") },
                { typeCode := 7, blockNum := 4, btsd := some [0x19, 0x00, 0x05] },
                { typeCode := 1, blockNum := 1, btsd := some [0x05] } ] }

example : wfRfcEids exForeign = true := by decide +kernel
example : (decodeBundle exForeign.enc).map (fun b => b.blocks.map (·.btsd))
    = some (exForeign.blocks.map (·.btsd)) := by
  rw [C02_roundtrip_rfc exForeign (by decide +kernel)]; rfl
example : (decodeBundle exForeign.enc).map Bundle.enc = some exForeign.enc :=
  C02_reencode_identical _ (C02_wfRfcEids_wf _ (by decide +kernel))

/-! ### Re-encoding the way the agent does it: decode, `update_all_crc()`, encode -/

/-- For a well-formed bundle whose CRCs check, decoding its octets, recomputing every CRC and
    encoding again reproduces the octets (the CRC values already present do not enter the
    computation). -/
theorem C02_reencode_after_crc_update (b : Bundle) (h : wf b = true) (hc : b.checkAllCrc = []) :
    (decodeBundle b.enc).map (fun d => d.updateAllCrc.enc) = some b.enc := by
  rw [C02_roundtrip b h]
  have : b.updateAllCrc = b := by
    obtain ⟨hp, hcs⟩ := (checkAllCrc_nil_iff b).1 hc
    cases b with
    | mk p bs =>
      simp only [Bundle.updateAllCrc, Primary.update_of_check p hp]
      congr 1
      conv => rhs; rw [← List.map_id bs]
      apply List.map_congr_left
      intro c hcm
      exact Canonical.update_of_check c (hcs c hcm)
  simp [this]

/-- … and for any well-formed bundle after the first `update_all_crc()` (no hypothesis on the CRCs). -/
theorem C02_reencode_updated (b : Bundle) (h : wf b.updateAllCrc = true) :
    (decodeBundle b.updateAllCrc.enc).map (fun d => d.updateAllCrc.enc) = some b.updateAllCrc.enc := by
  apply C02_reencode_after_crc_update _ h
  rw [checkAllCrc_nil_iff]
  refine ⟨Primary.check_update _, ?_⟩
  intro c hc
  simp only [Bundle.updateAllCrc, List.mem_map] at hc
  obtain ⟨c0, _, rfl⟩ := hc
  exact Canonical.check_update c0

/-! ### DTN time conversion is exact integer arithmetic -/

/-- A datetime that is `t` milliseconds (plus `r < 1000` microseconds) after the epoch converts to
    exactly `t`, for every `t` — no value is off by one — and converts back to the millisecond. -/
theorem C02_dtntime_exact (t r : Nat) (hr : r < 1000) :
    dtnTimeOfMicros (microsOfDtnTime t + r) = t
    ∧ microsOfDtnTime (dtnTimeOfMicros (microsOfDtnTime t + r)) = microsOfDtnTime t := by
  have h1 : dtnTimeOfMicros (microsOfDtnTime t + r) = t := by
    unfold dtnTimeOfMicros microsOfDtnTime; omega
  exact ⟨h1, by rw [h1]⟩

/-- the values a floating-point conversion gets wrong: 1 s + 1 ms, 2^29 s + 1 ms (2017), 2^30 s + 1 ms
    (2034-01-09) after the epoch -/
example : dtnTimeOfMicros 1001000 = 1001 ∧ dtnTimeOfMicros ((2 ^ 29 * 1000 + 1) * 1000) = 2 ^ 29 * 1000 + 1
    ∧ dtnTimeOfMicros ((2 ^ 30 * 1000 + 1) * 1000 + 999) = 2 ^ 30 * 1000 + 1 := by decide

/-! ### Security block payloads (types 11 / 12): the Abstract Security Block sequence -/

/-- Round trip of the ASB codec for every well-formed value: any number of targets, parameters
    present iff flag bit 0, and **any** result arrays — including empty ones (a target without
    results decodes to the empty list, not to "no value"). -/
theorem C02_asb_roundtrip (a : Asb) (h : wfAsb a = true) : decAsb a.enc = some a :=
  decAsb_enc a h

/-- … and in front of any following octets (the ASB items are self-delimiting). -/
theorem C02_asb_prefix (a : Asb) (r : Bytes) (h : wfAsb a = true) :
    decAsbPrefix (a.enc ++ r) = some (a, r) := decAsbPrefix_enc a r h

/-- BCB with one target whose result array is empty (`results = [[]]`), and a mixed one -/
def exAsb : Asb :=
  { targets := [1], contextId := 3, flags := 1, source := .dtn (ascii "//n/"),
    params := [(1, .uint 5), (2, .bstr (ascii "ab"))], results := [[]] }
def exAsb2 : Asb :=
  { targets := [1, 2, 24], contextId := 256, flags := 0, source := .ipn [1, 2],
    results := [[], [(1, .bstr (ascii "xyz"))], []] }

example : wfAsb exAsb = true ∧ wfAsb exAsb2 = true := by decide +kernel
example : (decAsb exAsb.enc).map (·.results) = some [[]] := by
  rw [C02_asb_roundtrip exAsb (by decide +kernel)]; rfl
example : toHex exAsb.enc = "810103018201642f2f6e2f8282010582024261628180" := by decide +kernel
/-- an empty result array is distinguishable from an absent one on the wire and after decoding -/
example : exAsb.enc ≠ ({ exAsb with results := [] } : Asb).enc
    ∧ decAsb ({ exAsb with results := [] } : Asb).enc = some { exAsb with results := [] } := by
  decide +kernel

/-! ### Facts of the source the model relies on -/

/-- Field order, field kinds and conditions of the classes the model mirrors, the enum values and
    the block type bindings — regenerated from /repo on every run. -/
theorem C02_facts :
    Facts.layouts.lookup "blocks.PrimaryBlock" = some [
      ("UintField", "bp_version", ""), ("FlagsField", "bundle_flags", ""),
      ("EnumField", "crc_type", ""), ("EidField", "destination", ""), ("EidField", "source", ""),
      ("EidField", "report_to", ""), ("PacketField", "create_ts", "cls=Timestamp"),
      ("UintField", "lifetime", ""),
      ("UintField", "fragment_offset", "if(lambda p: p.getfieldval('bundle_flags') & PrimaryBlock.Flag.IS_FRAGMENT) "),
      ("UintField", "total_app_data_len", "if(lambda p: p.getfieldval('bundle_flags') & PrimaryBlock.Flag.IS_FRAGMENT) "),
      ("BstrField", "crc_value", "if(lambda p: p.getfieldval('crc_type') != 0) ")]
    ∧ Facts.layouts.lookup "blocks.CanonicalBlock" = some [
      ("UintField", "type_code", ""), ("UintField", "block_num", ""),
      ("FlagsField", "block_flags", ""), ("EnumField", "crc_type", ""), ("BstrField", "btsd", ""),
      ("BstrField", "crc_value", "if(lambda p: p.crc_type != 0) ")]
    ∧ Facts.layouts.lookup "blocks.Timestamp" = some [
      ("DtnTimeField", "dtntime", ""), ("UintField", "seqno", "")]
    ∧ Facts.layouts.lookup "bundle.Bundle" = some [
      ("PacketField", "primary", "cls=PrimaryBlock"),
      ("PacketListField", "blocks", "cls=CanonicalBlock")]
    ∧ Facts.layouts.lookup "blocks.PreviousNodeBlock" = some [("EidField", "node", "")]
    ∧ Facts.layouts.lookup "blocks.BundleAgeBlock" = some [("UintField", "age", "")]
    ∧ Facts.layouts.lookup "blocks.HopCountBlock" = some [
      ("UintField", "limit", ""), ("UintField", "count", "")]
    ∧ Facts.layouts.lookup "bpsecenc.AbstractSecurityBlock" = some [
      ("FieldListField", "targets", "ArrayWrapField fld=UintField"), ("UintField", "context_id", ""),
      ("FlagsField", "context_flags", ""), ("EidField", "source", ""),
      ("PacketListField", "parameters", "if(lambda p: p.getfieldval('context_flags') & AbstractSecurityBlock.Flag.PARAMETERS_PRESENT) ArrayWrapField cls=TypeValuePair"),
      ("PacketListField", "results", "ArrayWrapField cls=TargetResultList")]
    ∧ Facts.layouts.lookup "bpsecenc.TargetResultList" = some [
      ("PacketListField", "results", "cls=TypeValuePair")]
    ∧ Facts.layouts.lookup "bpsecenc.TypeValuePair" = some [
      ("UintField", "type_code", ""), ("CborField", "value", "")]
    ∧ (Facts.binds.filter (fun b => b.1 == "CanonicalBlock")).map (fun b => (b.2.1, b.2.2.2)) = [
      ("PreviousNodeBlock", 6), ("BundleAgeBlock", 7), ("HopCountBlock", 10),
      ("BlockIntegrityBlock", 11), ("BlockConfidentialityBlock", 12)]
    ∧ Facts.enum_blocks_AbstractBlock_CrcType_NONE = 0
    ∧ Facts.enum_blocks_AbstractBlock_CrcType_CRC16 = 1
    ∧ Facts.enum_blocks_AbstractBlock_CrcType_CRC32 = 2
    ∧ Facts.enum_blocks_PrimaryBlock_Flag_IS_FRAGMENT = 1
    ∧ Facts.enum_blocks_PrimaryBlock_Flag_PAYLOAD_ADMIN = 2
    -- RFC 9171 §4.2.3 bundle processing control flags
    ∧ Facts.enum_blocks_PrimaryBlock_Flag_NONE = 0
    ∧ Facts.enum_blocks_PrimaryBlock_Flag_NO_FRAGMENT = 0x4
    ∧ Facts.enum_blocks_PrimaryBlock_Flag_USER_APP_ACK = 0x20
    ∧ Facts.enum_blocks_PrimaryBlock_Flag_REQ_STATUS_TIME = 0x40
    ∧ Facts.enum_blocks_PrimaryBlock_Flag_REQ_RECEPTION_REPORT = 0x4000
    ∧ Facts.enum_blocks_PrimaryBlock_Flag_REQ_FORWARDING_REPORT = 0x10000
    ∧ Facts.enum_blocks_PrimaryBlock_Flag_REQ_DELIVERY_REPORT = 0x20000
    ∧ Facts.enum_blocks_PrimaryBlock_Flag_REQ_DELETION_REPORT = 0x40000
    -- RFC 9171 §4.2.4 block processing control flags
    ∧ Facts.enum_blocks_CanonicalBlock_Flag_NONE = 0
    ∧ Facts.enum_blocks_CanonicalBlock_Flag_REPLICATE_IN_FRAGMENT = 0x01
    ∧ Facts.enum_blocks_CanonicalBlock_Flag_STATUS_IF_NO_PROCESS = 0x02
    ∧ Facts.enum_blocks_CanonicalBlock_Flag_DELETE_IF_NO_PROCESS = 0x04
    ∧ Facts.enum_blocks_CanonicalBlock_Flag_REMOVE_IF_NO_PROCESS = 0x10
    -- RFC 9171 §6.1.1 status report reason codes and RFC 9172 security reason codes known to the code
    ∧ Facts.enum_admin_StatusReport_ReasonCode_NO_INFO = 0
    ∧ Facts.enum_admin_StatusReport_ReasonCode_LIFETIME_EXP = 1
    ∧ Facts.enum_admin_StatusReport_ReasonCode_HOP_LIMIT_EXC = 9
    ∧ Facts.enum_bpsecenc_AbstractSecurityBlock_Flag_PARAMETERS_PRESENT = 1
    ∧ Facts.enum_efields_EidField_TypeCode_dtn = 1
    ∧ Facts.enum_efields_EidField_TypeCode_ipn = 2
    ∧ Facts.enum_efields_EidField_WellKnownSsp_none = 0
    ∧ Facts.const_bundle_BLOCK_TYPE_PAYLOAD = 1
    ∧ Facts.const_bundle_BLOCK_NUM_PAYLOAD = 1 := by
  repeat' apply And.intro
  all_goals decide

end C02
end Props
end DtnVerif
