/-
  Coverage of [0,total) by a history of received ranges (offset, length).
  Used by reassembly (bp/app/fragment.py: `valid |= closedopen(off,end)`,
  `valid == closedopen(0,total)`). The `portion` library contract (documented assumption):
  for integer bounds the union of closed-open ranges equals `closedopen(0,total)` iff every
  integer of [0,total) is in some range and no non-empty range reaches beyond `total`.
  Import-free, executable.
-/
namespace DtnVerif
namespace Cover

/-- (offset, length) -/
abbrev Range := Nat × Nat

def coveredAt (rs : List Range) (i : Nat) : Prop := ∃ r ∈ rs, r.1 ≤ i ∧ i < r.1 + r.2
/-- every octet index below `total` lies in some received range -/
def covered (rs : List Range) (total : Nat) : Prop := ∀ i, i < total → coveredAt rs i
/-- no non-empty range reaches beyond `total` -/
def within (rs : List Range) (total : Nat) : Prop := ∀ r ∈ rs, r.2 ≠ 0 → r.1 + r.2 ≤ total
/-- `valid == closedopen(0,total)` under the `portion` contract -/
def exact (rs : List Range) (total : Nat) : Prop := covered rs total ∧ within rs total

def coveredAtB (rs : List Range) (i : Nat) : Bool := rs.any (fun r => decide (r.1 ≤ i) && decide (i < r.1 + r.2))

/-- Decision procedure: it is enough to test index 0 and the first index after every range. -/
def coveredB (rs : List Range) (total : Nat) : Bool :=
  (0 :: rs.map (fun r => r.1 + r.2)).all (fun c => !decide (c < total) || coveredAtB rs c)

def withinB (rs : List Range) (total : Nat) : Bool :=
  rs.all (fun r => r.2 == 0 || decide (r.1 + r.2 ≤ total))

def exactB (rs : List Range) (total : Nat) : Bool := coveredB rs total && withinB rs total

end Cover
end DtnVerif
