/-
  Bitwise reflected CRC (generic width, `BitVec w`), the two BPv7 instances, and the block CRC
  operations of bp/encoding/blocks.py (`AbstractBlock.update_crc/check_crc`),
  bp/encoding/bundle.py (`update_all_crc/check_all_crc`) and the CRC gate at the top of
  `bp.agent.Agent.recv_bundle`. Import-free (apart from the shared models), executable.
  The CRC here is deliberately *bit at a time*: the repository uses crcmod (table driven), so the
  two implementations are independent and are pinned together by the catalogue check values.
-/
import DtnVerif.Model.Bundle
namespace DtnVerif
namespace Crc

/-- One step of a reflected (LSB-first) CRC register with reflected polynomial `p`. -/
def crcStep {w : Nat} (p c : BitVec w) (bit : Bool) : BitVec w :=
  if (c.getLsbD 0 != bit) then (c >>> 1) ^^^ p else c >>> 1

/-- Feed a bit string (in transmission order) into the register. -/
def crcBits {w : Nat} (p : BitVec w) (c : BitVec w) (bits : List Bool) : BitVec w :=
  bits.foldl (crcStep p) c

/-- The 8 bits of an octet, least significant first (reflected input). -/
def byteBits (b : UInt8) : List Bool :=
  [b.toNat.testBit 0, b.toNat.testBit 1, b.toNat.testBit 2, b.toNat.testBit 3,
   b.toNat.testBit 4, b.toNat.testBit 5, b.toNat.testBit 6, b.toNat.testBit 7]

def bitsOf : Bytes → List Bool
  | [] => []
  | b :: r => byteBits b ++ bitsOf r

/-- Byte-wise fold: register after one more octet. -/
def crcByte {w : Nat} (p c : BitVec w) (b : UInt8) : BitVec w := crcBits p c (byteBits b)

/-- Register after a whole message (no final xor). -/
def crcReg {w : Nat} (p c : BitVec w) (d : Bytes) : BitVec w := d.foldl (crcByte p) c

/-- Complete CRC: initial register `init`, final xor `xorout`. -/
def crc {w : Nat} (p init xorout : BitVec w) (d : Bytes) : BitVec w := crcReg p init d ^^^ xorout

/-- CRC-16/X.25 (IBM-SDLC): poly 0x1021 reflected = 0x8408, init 0xFFFF, xorout 0xFFFF. -/
def crc16x25 (d : Bytes) : Nat := (crc (w := 16) 0x8408#16 0xFFFF#16 0xFFFF#16 d).toNat

/-- CRC-32C (Castagnoli, iSCSI): poly 0x1EDC6F41 reflected = 0x82F63B78, init/xorout 0xFFFFFFFF. -/
def crc32c (d : Bytes) : Nat :=
  (crc (w := 32) 0x82F63B78#32 0xFFFFFFFF#32 0xFFFFFFFF#32 d).toNat

end Crc

namespace Bp
open Crc

/-- `defn['encode'](0)`: the zero-valued CRC field of the right width. -/
def zeroCrc (t : Nat) : Bytes := List.replicate (crcWidth t) 0

/-- `defn['encode'](defn['func'](data))` : CRC type 1 = CRC-16/X.25 packed `>H`, type 2 = CRC-32C
    packed `>L`. (Other types do not exist: `CrcType(n)` raises for n > 2; the model returns the
    empty string there so that every function stays total.) -/
def crcOf (t : Nat) (data : Bytes) : Bytes :=
  if t == 1 then beBytes 2 (crc16x25 data)
  else if t == 2 then beBytes 4 (crc32c data)
  else []

/-- The block as it is encoded for the CRC computation: CRC field zeroed. -/
def Primary.zeroed (p : Primary) : Primary := { p with crc := some (zeroCrc p.crcType) }
def Canonical.zeroed (c : Canonical) : Canonical := { c with crc := some (zeroCrc c.crcType) }

/-- CRC value that belongs to this block. -/
def Primary.crcValue (p : Primary) : Bytes := crcOf p.crcType p.zeroed.enc
def Canonical.crcValue (c : Canonical) : Bytes := crcOf c.crcType c.zeroed.enc

/-- `AbstractBlock.update_crc()` (keep_existing = False). -/
def Primary.updateCrc (p : Primary) : Primary :=
  if p.crcType == 0 then { p with crc := none } else { p with crc := some p.crcValue }
def Canonical.updateCrc (c : Canonical) : Canonical :=
  if c.crcType == 0 then { c with crc := none } else { c with crc := some c.crcValue }

/-- `AbstractBlock.update_crc(keep_existing=True)`: compute only where no value is present. -/
def Primary.updateCrcKeep (p : Primary) : Primary :=
  if p.crcType == 0 then { p with crc := none }
  else match p.crc with
    | none => { p with crc := some p.crcValue }
    | some _ => p
def Canonical.updateCrcKeep (c : Canonical) : Canonical :=
  if c.crcType == 0 then { c with crc := none }
  else match c.crc with
    | none => { c with crc := some c.crcValue }
    | some _ => c

/-- `AbstractBlock.check_crc()`: type 0 ⇒ valid iff there is no value. -/
def Primary.checkCrc (p : Primary) : Bool :=
  if p.crcType == 0 then p.crc.isNone else p.crc == some p.crcValue
def Canonical.checkCrc (c : Canonical) : Bool :=
  if c.crcType == 0 then c.crc.isNone else c.crc == some c.crcValue

/-- `Bundle.update_all_crc()`. -/
def Bundle.updateAllCrc (b : Bundle) : Bundle :=
  { primary := b.primary.updateCrc, blocks := b.blocks.map Canonical.updateCrc }

/-- `Bundle.check_all_crc()`: block numbers (0 = primary) whose check fails, in block order. -/
def Bundle.checkAllCrc (b : Bundle) : List Nat :=
  (if b.primary.checkCrc then [] else [0])
  ++ (b.blocks.filter (fun c => !c.checkCrc)).map Canonical.blockNum

/-- The CRC gate at the top of `Agent.recv_bundle`: when any block fails its CRC the method
    returns at once. `rest` is everything after the gate (own-source test, seen set, RX chain,
    deliver / forward / report), a state transformer producing effects; the gate theorem holds for
    every such continuation. -/
def recvGate {σ ε : Type} (rest : σ → Bundle → σ × List ε) (s : σ) (b : Bundle) : σ × List ε :=
  if b.checkAllCrc.isEmpty then rest s b else (s, [])

/-- Bundle identity as `BundleContainer.bundle_ident()` forms it: source, time, seq, and for a
    fragment its offset and the length of its own payload (block number 1; `none` when absent). -/
structure Ident where
  src : Eid
  time : Nat
  seq : Nat
  frag : Option (Nat × Option Nat)
  deriving DecidableEq, Repr

def payloadLen (b : Bundle) : Option Nat :=
  match b.blocks.reverse.find? (fun c => c.blockNum == 1) with
  | some c => c.btsd.map List.length
  | none => none

def Bundle.ident (b : Bundle) : Ident :=
  { src := b.primary.src, time := b.primary.ts.time, seq := b.primary.ts.seq,
    frag := if isFragment b.primary.flags then some (b.primary.fragOff, payloadLen b) else none }

inductive RxEffect where
  | ignoredOwn | ignoredSeen | accepted (id : Ident)
  deriving DecidableEq, Repr

/-- The first part of what follows the gate: own-source test and the seen-identity set
    (the RX chain itself belongs to C10). State = seen identities. -/
def recvSeen (own : Eid) (seen : List Ident) (b : Bundle) : List Ident × List RxEffect :=
  if b.primary.src == own then (seen, [.ignoredOwn])
  else if seen.contains b.ident then (seen, [.ignoredSeen])
  else (b.ident :: seen, [.accepted b.ident])

end Bp
end DtnVerif
