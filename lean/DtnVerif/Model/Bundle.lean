/-
  BPv7 bundle structures and their CBOR encoding, mirroring
  bp/encoding/{fields,blocks,bundle}.py as driven through scapy_cbor
  (CborArray.self_build + cbor2.dumps, Bundle.__bytes__).
  Import-free, executable. Encoders only; decoders live in Model/BundleDec.lean.
-/
import DtnVerif.Model.Cbor
namespace DtnVerif
namespace Bp
open Cbor

/-- CBOR-level endpoint ID (what `EidField.i2m` produces). `dtn ssp` carries the UTF-8 octets of
    the scheme-specific part; `ipn` the list of integer components (2 or 3 in practice). -/
inductive Eid where
  | dtnNone
  | dtn (ssp : Bytes)
  | ipn (parts : List Nat)
  deriving Repr, DecidableEq, Inhabited

def encNatList : List Nat → Bytes
  | [] => []
  | n :: ns => encUint n ++ encNatList ns

def Eid.enc : Eid → Bytes
  | .dtnNone => encArrHead 2 ++ encUint 1 ++ encUint 0
  | .dtn ssp => encArrHead 2 ++ encUint 1 ++ encTstr ssp
  | .ipn parts => encArrHead 2 ++ encUint 2 ++ encArrHead parts.length ++ encNatList parts

structure Timestamp where
  time : Nat
  seq : Nat
  deriving Repr, DecidableEq, Inhabited

def Timestamp.enc (t : Timestamp) : Bytes := encArrHead 2 ++ encUint t.time ++ encUint t.seq

/-- CBOR `null` (what scapy_cbor emits for a `None` value in a bstr slot). -/
def encNull : Bytes := [0xf6]

/-- An optional byte string slot: `none` is emitted as CBOR null (BstrField.i2m(None) = None). -/
def encOptBstr : Option Bytes → Bytes
  | none => encNull
  | some d => encBstr d

structure Primary where
  version : Nat := 7
  flags : Nat := 0
  crcType : Nat := 0
  dest : Eid := .dtnNone
  src : Eid := .dtnNone
  rpt : Eid := .dtnNone
  ts : Timestamp := ⟨0, 0⟩
  lifetime : Nat := 0
  fragOff : Nat := 0
  totalLen : Nat := 0
  /-- value of the crc_value field (only encoded when `crcType ≠ 0`) -/
  crc : Option Bytes := none
  deriving Repr, DecidableEq, Inhabited

def isFragment (flags : Nat) : Bool := flags % 2 == 1

def Primary.count (p : Primary) : Nat :=
  8 + (if isFragment p.flags then 2 else 0) + (if p.crcType != 0 then 1 else 0)

/-- Field list of `PrimaryBlock.fields_desc` in order; ConditionalFields as in the source. -/
def Primary.fields (p : Primary) : Bytes :=
  encUint p.version ++ encUint p.flags ++ encUint p.crcType
  ++ p.dest.enc ++ p.src.enc ++ p.rpt.enc ++ p.ts.enc ++ encUint p.lifetime
  ++ (if isFragment p.flags then encUint p.fragOff ++ encUint p.totalLen else [])
  ++ (if p.crcType != 0 then encOptBstr p.crc else [])

def Primary.enc (p : Primary) : Bytes := encArrHead p.count ++ p.fields

structure Canonical where
  typeCode : Nat
  blockNum : Nat
  flags : Nat := 0
  crcType : Nat := 0
  /-- block-type-specific data; `none` = the field was deleted (encodes as CBOR null) -/
  btsd : Option Bytes := some []
  crc : Option Bytes := none
  deriving Repr, DecidableEq, Inhabited

def Canonical.count (c : Canonical) : Nat := 5 + (if c.crcType != 0 then 1 else 0)

def Canonical.fields (c : Canonical) : Bytes :=
  encUint c.typeCode ++ encUint c.blockNum ++ encUint c.flags ++ encUint c.crcType
  ++ encOptBstr c.btsd
  ++ (if c.crcType != 0 then encOptBstr c.crc else [])

def Canonical.enc (c : Canonical) : Bytes := encArrHead c.count ++ c.fields

structure Bundle where
  primary : Primary
  blocks : List Canonical
  deriving Repr, DecidableEq, Inhabited

def encBlocks : List Canonical → Bytes
  | [] => []
  | c :: cs => c.enc ++ encBlocks cs

/-- `Bundle.__bytes__`: indefinite-length array of primary + canonical blocks. -/
def Bundle.enc (b : Bundle) : Bytes := [0x9f] ++ b.primary.enc ++ encBlocks b.blocks ++ [0xff]

/-- CRC field width in octets for a CRC type (struct formats `>H`, `>L`). -/
def crcWidth (t : Nat) : Nat := if t == 1 then 2 else if t == 2 then 4 else 0

/-- Block-type-specific payloads that the agent itself builds. -/
def encPrevNode (e : Eid) : Bytes := e.enc
def encBundleAge (age : Nat) : Bytes := encUint age
def encHopCount (limit count : Nat) : Bytes := encArrHead 2 ++ encUint limit ++ encUint count

end Bp
end DtnVerif
