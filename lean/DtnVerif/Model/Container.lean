/-
  `bp.util.BundleContainer` as the agent uses it: the per-bundle action record, the block list with
  its derived block-number map / type index lists, `get_block_num`, `add_block` (insert before the
  last block), `remove_block` (by number) and the BTSD cache of `CanonicalBlock`
  (`ensure_block_type_specific_data` does nothing when `fields['btsd']` is set; `_do_fwd` deletes
  the cache of a hop-count block after bumping its count).
  Import-free, executable. Mirrors the code that exists, quirks included.
-/
import DtnVerif.Model.Bundle
namespace DtnVerif
namespace Agent
open Bp Cbor

/-- Keys of `ctr.actions`; a route may name any string (`other`). -/
inductive Action where
  | receive | deliver | forward | delete
  | other (tag : Nat)
  deriving DecidableEq, Repr, Inhabited

/-- `ctr.actions : Dict[str, datetime]` in insertion order; times are DTN milliseconds. -/
abbrev Actions := List (Action × Nat)

def hasAct (a : Actions) (x : Action) : Bool := a.any (fun p => p.1 == x)

/-- `self.actions[action] = now` (dict assignment keeps the position of an existing key). -/
def recordAct (a : Actions) (x : Action) (t : Nat) : Actions :=
  if hasAct a x then a.map (fun p => if p.1 == x then (x, t) else p) else a ++ [(x, t)]

/-- `del ctr.actions[x]` -/
def delAct (a : Actions) (x : Action) : Actions := a.filter (fun p => p.1 != x)

def actTime (a : Actions) (x : Action) : Option Nat := (a.find? (fun p => p.1 == x)).map (·.2)

/-- Block type codes bound with `CanonicalBlock.bind_type` (pinned against Facts in Props). -/
def typePayload : Nat := 1
def typePrevNode : Nat := 6
def typeAge : Nat := 7
def typeHop : Nat := 10

/-- A canonical block as held in memory. `c.btsd` is the cached `fields['btsd']`; `parsed` says
    whether dissection attached the payload class bound to the type code (a parameter: scapy's
    BTSD parser is not modelled); `hop` is the in-memory `HopCountBlock` payload;
    `adminReenc` is what `bytes(blk.payload)` yields for an `AdminRecord` payload (parameter),
    which `Bundle._update_from_admin` writes into the BTSD only when the cache is absent. -/
structure Blk where
  c : Canonical
  parsed : Bool := true
  hop : Option (Nat × Nat) := none
  adminReenc : Option Bytes := none
  deriving Repr, DecidableEq, Inhabited

/-- member of `ctr.block_type(HopCountBlock)`: a type-10 block whose BTSD dissected -/
def Blk.isHop (b : Blk) : Bool := b.parsed && b.c.typeCode == typeHop

def Blk.num (b : Blk) : Nat := b.c.blockNum

structure Ctr where
  primary : Primary
  /-- `primary.source is None` (locally created bundles only) -/
  srcNone : Bool := false
  /-- `primary.report_to is None` (CBOR null received, or locally created) -/
  rptNone : Bool := false
  blocks : List Blk
  /-- `_last_block_num` -/
  lastNum : Nat := 1
  actions : Actions := []
  /-- `status_reason` -/
  reason : Option Nat := none
  deriving Repr, DecidableEq, Inhabited

def Ctr.nums (c : Ctr) : List Nat := c.blocks.map Blk.num

/-- Keys of `_block_num`: `reload` always enters key 0 (`bundle.payload` is a `NoPayload`
    instance, never `None`). -/
def Ctr.used (c : Ctr) : List Nat := 0 :: c.nums

/-- `record_action(action, reason)` -/
def Ctr.record (c : Ctr) (x : Action) (t : Nat) (reason : Option Nat := none) : Ctr :=
  { c with actions := recordAct c.actions x t,
           reason := match reason with | some r => some r | none => c.reason }

/-- `BundleContainer(Bundle(data))` succeeds: `reload` raises on a duplicate number (0 included). -/
def loadOk (blocks : List Blk) : Bool :=
  let ns := blocks.map Blk.num
  decide (ns.Nodup) && !ns.contains 0

/-- Numbers of the blocks in the type-code list `ctr.block_type(t)`, in block order (the lists
    are rebuilt by `reload` in block order). `_do_fwd` iterates over a copy of it. -/
def Ctr.typeNums (c : Ctr) (t : Nat) : List Nat :=
  (c.blocks.filter (fun b => b.c.typeCode == t)).map Blk.num

/-- `remove_block(blk)`: drop the first block with that number. -/
def Ctr.removeNum (c : Ctr) (n : Nat) : Ctr :=
  { c with blocks := c.blocks.eraseP (fun b => b.num == n) }

def Ctr.removeNums (c : Ctr) : List Nat → Ctr
  | [] => c
  | n :: ns => (c.removeNum n).removeNums ns

/-- `list.insert(-1, x)`: before the last element; at the front of an empty list. -/
def insertBeforeLast {α : Type} (x : α) : List α → List α
  | [] => [x]
  | [l] => [x, l]
  | a :: b :: r => a :: insertBeforeLast x (b :: r)

/-- First `n' ≥ n` not in `used`, searching at most `fuel` candidates. -/
def nextFree (used : List Nat) : Nat → Nat → Nat
  | 0, n => n
  | fuel + 1, n => if used.contains n then nextFree used fuel (n + 1) else n

def maxOf (l : List Nat) : Nat := l.foldr max 0

/-- `get_block_num()`: `while True: last += 1; if last not in _block_num: return last`.
    The fuel `maxOf used + 1` is enough for the loop to end on a free number. -/
def Ctr.getBlockNum (c : Ctr) : Nat := nextFree c.used (maxOf c.used + 1) (c.lastNum + 1)

/-- `add_block(CanonicalBlock() / payload)` for a fresh extension block: `_fix_blk_num` draws a
    number with `get_block_num` and sets it on the block; a number already in `_block_num` would
    raise (`none`; `getBlockNum_fresh` shows it never happens). -/
def Ctr.addBlock (c : Ctr) (typeCode : Nat) (btsd : Bytes) : Option (Ctr × Nat) :=
  let n := c.getBlockNum
  if c.used.contains n then none
  else
    let blk : Blk := { c := { typeCode := typeCode, blockNum := n, flags := 0, crcType := 0,
                              btsd := some btsd, crc := none } }
    some ({ c with blocks := insertBeforeLast blk c.blocks, lastNum := n }, n)

/-- `blk.payload.count += 1; blk.delfieldval('btsd')` on every dissected hop-count block: the
    in-memory count is bumped and the cached encoding dropped, so that it is regenerated. -/
def bumpHop (b : Blk) : Blk :=
  if b.isHop then { b with hop := b.hop.map (fun p => (p.1, p.2 + 1)), c := { b.c with btsd := none } }
  else b

/-- `ensure_block_type_specific_data` / `_update_from_admin`: the cached BTSD wins; only when it
    is absent is it regenerated from the in-memory payload (an `AdminRecord`, or the hop count). -/
def Blk.wireBtsd (b : Blk) : Option Bytes :=
  match b.c.btsd with
  | some d => some d
  | none =>
    match b.adminReenc with
    | some r => some r
    | none => b.hop.map (fun p => encHopCount p.1 p.2)

/-- CRC oracle: the next supplied value for a block with a CRC type, `None` otherwise
    (`update_crc`). CRC values are parameters of this model; when the oracle runs dry the
    zero placeholder of `fill_fields` stands in (right length, used for size computations). -/
def takeCrc (t : Nat) (crcs : List Bytes) : Option Bytes × List Bytes :=
  if t == 0 then (none, crcs)
  else match crcs with
    | x :: r => (some x, r)
    | [] => (some (List.replicate (crcWidth t) 0), [])

def finalBlocks : List Blk → List Bytes → List Canonical
  | [], _ => []
  | b :: bs, crcs =>
    let (v, rest) := takeCrc b.c.crcType crcs
    { b.c with btsd := b.wireBtsd, crc := v } :: finalBlocks bs rest

/-- `update_all_crc` + what `bytes(ctr.bundle)` encodes. -/
def Ctr.wire (c : Ctr) (crcs : List Bytes) : Bundle :=
  let (v, rest) := takeCrc c.primary.crcType crcs
  { primary := { c.primary with crc := v }, blocks := finalBlocks c.blocks rest }

end Agent
end DtnVerif
