/-
  The part of the receive chain of bp.agent.Agent that decides C12: the two BPSec steps
  `Bpsec._verify_bcb` (order 19) and `Bpsec._verify_bib` (order 20) together with
  `CoseContext.verify_bcb / verify_bib` (structure checks, target loop, accept-after-verify
  removal) and the chain runner's treatment of an interrupted / raising step
  (bp/agent.py recv_bundle). Cryptographic per-target outcomes are a parameter (`Outcome`).

  Four defects of this code (DESIGN §8: D15, D16, D22, D29) have been repaired in /repo; the old
  behaviours remain expressible through the switches of `Quirks` (all off in `Quirks.current`, the
  code under verification) so that a regression can be named.
  Import-free, executable.
-/
import DtnVerif.Model.Bytes
namespace DtnVerif
namespace SecChain

/-- Abstract security block (RFC 9172 §3.6) as far as the structure checks read it. -/
structure Asb where
  targets : List Nat
  ctxId : Nat
  /-- type codes of the security parameters -/
  paramIds : List Nat
  /-- per target index: type codes of the results -/
  results : List (List Nat)
  /-- `false`: `extract_secblk` raises (additional headers undecodable / duplicated) -/
  extractOk : Bool := true
  /-- `false`: the parameters field is absent (context flag 0): `payload.parameters` is `None` -/
  hasParams : Bool := true
  deriving Repr, DecidableEq, Inhabited

structure Blk where
  typeCode : Nat
  num : Nat
  btsd : Bytes
  /-- `some` = the BTSD dissected as an ASB (payload class BIB/BCB); `none` for a type 11/12
      block = dissection failed, payload class `Raw` -/
  pl : Option Asb
  deriving Repr, DecidableEq, Inhabited

/-- Result of the cryptographic part of `verify_*_target` for one (security block, target). -/
inductive Outcome where
  | ok
  | fail
  | raises
  deriving Repr, DecidableEq, Inhabited

/-- Elements of the `failure` list of `_verify_bib/_verify_bcb`: a reason code or (exception
    text) a Python `str`. -/
inductive Fail where
  | code (n : Nat)
  | str
  deriving Repr, DecidableEq, Inhabited

structure Quirks where
  /-- D15: the step iterates `ctr.block_type(...)` while `remove_block` mutates that list -/
  skipAfterRemove : Bool
  /-- D16: an exception inside `ctx.verify_*` is recorded as a string, not as a reason code -/
  excAsString : Bool
  /-- D22: a type 11/12 block whose BTSD is not an ASB is keyed under `Raw` and never looked at -/
  ignoreRawSec : Bool
  /-- D29: an absent parameters field / an empty result array dissect to `None`, and `check_secblk`
      iterates over it (`TypeError`); repaired: treated as empty lists -/
  noneRaises : Bool
  deriving Repr, DecidableEq, Inhabited

/-- The code under verification: all four defects are repaired (fix commits 9f5b43d, f461ab6,
    4c320af, 34748f5 of /repo). A switch set to `true` re-creates the corresponding old behaviour;
    the C12 check uses that only to name a regression. -/
def Quirks.current : Quirks := ⟨false, false, false, false⟩

def typeBib : Nat := 11
def typeBcb : Nat := 12
def coseContextId : Nat := 3
def reasonUnknownSec : Nat := 13
def reasonFailedSec : Nat := 15

/-- Parameters of one run: accept-after-verify, outcome oracle and decrypted plaintexts,
    both indexed by (security block number, target block number). -/
structure Env where
  accept : Bool
  orc : Nat → Nat → Outcome
  plain : Nat → Nat → Bytes

def hasDup : List Nat → Bool
  | [] => false
  | x :: xs => xs.contains x || hasDup xs

inductive Chk where
  | ok
  /-- `check_secblk` returned `False` -/
  | bad
  /-- `check_secblk` raised `TypeError` (iterating `None`) -/
  | raises
  deriving Repr, DecidableEq, Inhabited

/-- Second loop of `check_secblk`: an empty result array dissects to `results = None`. -/
def checkResults (q : Quirks) : List (List Nat) → Chk
  | [] => .ok
  | r :: rs =>
    if r.isEmpty && q.noneRaises then .raises else if hasDup r then .bad else checkResults q rs

/-- `check_secblk` -/
def checkSecblk (q : Quirks) (a : Asb) : Chk :=
  if !a.hasParams && q.noneRaises then .raises
  else if hasDup a.paramIds then .bad
  else checkResults q a.results

def present (st : List Blk) (n : Nat) : Bool := st.any (fun b => b.num == n)

inductive LoopRes where
  /-- an exception left the target loop; `written` = targets already overwritten with plaintext -/
  | raised (written : List Nat)
  /-- loop ended: a failure was recorded?, every target accepted?, plaintext writes -/
  | done (fail : Bool) (allAcc : Bool) (written : List Nat)
  deriving Repr, DecidableEq, Inhabited

/-- Target loop of `CoseContext.verify_bib / verify_bcb` from target index `ix`. -/
def targetLoop (accept isBcb : Bool) (orc : Nat → Outcome) (pres : Nat → Bool)
    (results : List (List Nat)) : List Nat → Nat → Bool → Bool → List Nat → LoopRes
  | [], _, fail, allAcc, w => .done fail allAcc w
  | t :: ts, ix, fail, allAcc, w =>
    if !pres t then .raised w                      -- ctr.block_num(t): KeyError
    else
      match results[ix]? with
      | none => .raised w                          -- results[tgt_ix]: IndexError
      | some rl =>
        if rl.length != 1 then targetLoop accept isBcb orc pres results ts (ix + 1) true false w
        else
          match orc t with
          | .ok =>
            targetLoop accept isBcb orc pres results ts (ix + 1) fail (allAcc && accept)
              (if accept && isBcb then t :: w else w)
          | .fail => targetLoop accept isBcb orc pres results ts (ix + 1) true false w
          | .raises => .raised w

/-- `tgt_blk.setfieldval('btsd', plaintext)` for the accepted BCB targets. -/
def writePlain (plain : Nat → Bytes) (w : List Nat) (st : List Blk) : List Blk :=
  st.map (fun b => if w.contains b.num then { b with btsd := plain b.num } else b)

/-- `ctr.remove_block(blk)` for the security block of type `tc` numbered `n` (block numbers are
    unique in a container; the type is carried so that the statement needs no such hypothesis). -/
def removeBlk (tc n : Nat) (st : List Blk) : List Blk :=
  st.filter (fun b => !(b.typeCode == tc && b.num == n))

def excFail (q : Quirks) : Fail := if q.excAsString then .str else .code reasonFailedSec

/-- Body of the `for bib in integ_blocks` loop for a block that dissected as an ASB. -/
def verifyAsb (q : Quirks) (e : Env) (tc : Nat) (st : List Blk) (num : Nat) (a : Asb) :
    List Blk × Option Fail :=
  if a.ctxId != coseContextId then (st, some (.code reasonUnknownSec))
  else match checkSecblk q a with
  | .bad => (st, some (.code reasonFailedSec))
  | .raises => (st, some (excFail q))
  | .ok =>
  if !a.extractOk then (st, some (excFail q))
  else
    match targetLoop e.accept (tc == typeBcb) (e.orc num) (present st) a.results a.targets 0 false true [] with
    | .raised w => (writePlain (e.plain num) w st, some (excFail q))
    | .done fail allAcc w =>
      let st1 := writePlain (e.plain num) w st
      (if allAcc then removeBlk tc num st1 else st1, if fail then some (.code reasonFailedSec) else none)

def verifyBlock (q : Quirks) (e : Env) (tc : Nat) (st : List Blk) (b : Blk) : List Blk × Option Fail :=
  match b.pl with
  | some a => verifyAsb q e tc st b.num a
  | none => (st, some (.code reasonFailedSec))      -- only reached when `ignoreRawSec = false`

/-- Blocks the step of type `tc` iterates over: `ctr.block_type(BlockIntegrityBlock)` is keyed by
    payload class, so an undissectable block is not in it. -/
def sel (q : Quirks) (tc : Nat) (b : Blk) : Bool :=
  b.typeCode == tc && (b.pl.isSome || !q.ignoreRawSec)

def optList : Option Fail → List Fail
  | none => []
  | some f => [f]

/-- Python `for b in lst` over the live list: index `i` into whatever the list is *now*. -/
def iterIdx (q : Quirks) (e : Env) (tc : Nat) : Nat → Nat → List Blk → List Fail → List Blk × List Fail
  | 0, _, st, acc => (st, acc)
  | fuel + 1, i, st, acc =>
    match (st.filter (sel q tc))[i]? with
    | none => (st, acc)
    | some b =>
      let r := verifyBlock q e tc st b
      iterIdx q e tc fuel (i + 1) r.1 (acc ++ optList r.2)

/-- Iteration over a snapshot (`for b in list(lst)`). -/
def iterCopy (q : Quirks) (e : Env) (tc : Nat) : List Blk → List Blk → List Fail → List Blk × List Fail
  | [], st, acc => (st, acc)
  | b :: bs, st, acc =>
    let r := verifyBlock q e tc st b
    iterCopy q e tc bs r.1 (acc ++ optList r.2)

def stepRun (q : Quirks) (e : Env) (tc : Nat) (st : List Blk) : List Blk × List Fail :=
  if q.skipAfterRemove then iterIdx q e tc (st.length + 1) 0 st []
  else iterCopy q e tc (st.filter (sel q tc)) st []

/-- Python value stored in `ctr.status_reason`. -/
inductive Reason where
  | code (n : Nat)
  | str
  deriving Repr, DecidableEq, Inhabited

inductive StepVerdict where
  /-- `failure` empty: the step returns `None`, the chain goes on -/
  | pass
  /-- `del actions['deliver']`, `record_action('delete', max(failure))`, chain interrupted -/
  | del (r : Reason)
  /-- `max(failure)` raised `TypeError` (ints and strings mixed) after `deliver` was withdrawn:
      the runner logs and aborts the chain; no `delete` is recorded -/
  | exc
  deriving Repr, DecidableEq, Inhabited

def codesOf : List Fail → Option (List Nat)
  | [] => some []
  | .code n :: r => (codesOf r).map (n :: ·)
  | .str :: _ => none

def allStr : List Fail → Bool
  | [] => true
  | .str :: r => allStr r
  | .code _ :: _ => false

def maxList : List Nat → Nat
  | [] => 0
  | x :: xs => Nat.max x (maxList xs)

def verdict (fs : List Fail) : StepVerdict :=
  match fs with
  | [] => .pass
  | _ =>
    match codesOf fs with
    | some cs => .del (.code (maxList cs))
    | none => if allStr fs then .del .str else .exc

structure Result where
  /-- `deliver` is still recorded when the application steps (order 30) are reached -/
  delivered : Bool
  /-- `delete` is recorded -/
  deleted : Bool
  reason : Option Reason
  blocks : List Blk
  deriving Repr, DecidableEq, Inhabited

/-- Steps 19 and 20 followed by the runner's decision. `deliver` = the routing steps (orders -1, 0)
    recorded `deliver` for this bundle (destination is local). -/
def run (q : Quirks) (e : Env) (deliver : Bool) (st : List Blk) : Result :=
  if !deliver then ⟨false, false, none, st⟩
  else
    let r1 := stepRun q e typeBcb st
    match verdict r1.2 with
    | .del r => ⟨false, true, some r, r1.1⟩
    | .exc => ⟨false, false, none, r1.1⟩
    | .pass =>
      let r2 := stepRun q e typeBib r1.1
      match verdict r2.2 with
      | .del r => ⟨false, true, some r, r2.1⟩
      | .exc => ⟨false, false, none, r2.1⟩
      | .pass => ⟨true, false, none, r2.1⟩

/-- "marked deleted with a security reason": reason codes 12–16 of RFC 9172 §7.1 -/
def Result.secDeleted (r : Result) : Bool :=
  r.deleted && (match r.reason with
    | some (.code n) => 12 ≤ n && n ≤ 16
    | _ => false)

end SecChain
end DtnVerif
