/-
  BTP-U messages (src/btpu/messages.py, scapy) and the agent's segmentation / reassembly
  (src/btpu/agent.py `_send_transfer`, `_recv_msg`). Import-free, executable; mirrors the code that
  exists, quirks included:
  * a bundle that needs segmenting with `remain_size = mtu - 18 ≤ 0` fails with `ValueError`
    before any frame is produced;
  * a Transfer message without data octets makes `_recv_msg` raise `AttributeError`
    (`msg.payload.payload.load` on `NoPayload`);
  * a bundle PDU of 2^20 octets or more is refused (`ValueError`); segment data is capped at
    2^20 - 15 octets so that the 20-bit length never wraps in what the agent builds (the codec
    itself still masks: `mkMsg`);
  * the dissector accepts truncated messages (slices are clamped) and a declared length smaller
    than the hints (negative Python slice index).
  Not modelled (`none` = outside the model): a message header of 1..3 octets and a hint header of
  1 octet (scapy falls back to `Raw` there); the per-segment GLib timeouts (`RX_XFER_TIMEOUT_MS`),
  which are never cancelled (timing is outside C20).
-/
import DtnVerif.Model.Bytes
namespace DtnVerif
namespace Btpu

/-! ## Codec -/

/-- `HintHead`: 7-bit type, H flag, 8-bit length, then `length` octets. `length` is the declared
    value; `data` what is actually there. -/
structure Hint where
  htype : Nat
  hflag : Bool
  length : Nat
  data : Bytes
  deriving DecidableEq, Repr

/-- `MessageHead` with its payload octets (`length` is the declared 20-bit value). -/
structure Msg where
  mtype : Nat
  flags : Nat
  length : Nat
  hints : List Hint
  payload : Bytes
  deriving DecidableEq, Repr

def encHint (h : Hint) (more : Bool) : Bytes :=
  UInt8.ofNat (h.htype % 128 * 2 + (if more then 1 else 0)) :: UInt8.ofNat (h.length % 256) :: h.data

/-- `MessageHead.self_build`: the H flag of every hint but the last is set, the last is cleared. -/
def encHints : List Hint → Bytes
  | [] => []
  | [h] => encHint h false
  | h :: h' :: rest => encHint h true ++ encHints (h' :: rest)

/-- `fld.i2len(pkt, hints)`: the octets the hints occupy. -/
def hintsLen : List Hint → Nat
  | [] => 0
  | h :: rest => 2 + h.data.length + hintsLen rest

def encHead (m : Msg) : Bytes :=
  [UInt8.ofNat (m.mtype % 256), UInt8.ofNat (m.flags % 16 * 16 + m.length / 65536 % 16),
   UInt8.ofNat (m.length / 256 % 256), UInt8.ofNat (m.length % 256)]

def encMsg (m : Msg) : Bytes := encHead m ++ (encHints m.hints ++ m.payload)

/-- `MessageSet`: the messages one after the other (padding, if any, follows). -/
def encSet : List Msg → Bytes
  | [] => []
  | m :: rest => encMsg m ++ encSet rest

/-- H flags as `self_build` leaves them. -/
def normFlags : List Hint → List Hint
  | [] => []
  | [h] => [{ h with hflag := false }]
  | h :: h' :: rest => { h with hflag := true } :: normFlags (h' :: rest)

/-- A message as the agent builds it: `flags`/`length` left to scapy (`0x8` iff there are hints;
    length of hints plus payload, masked to 20 bits), hint lengths from their data. -/
def mkMsg (mtype : Nat) (hints : List (Nat × Bytes)) (payload : Bytes) : Msg :=
  let hs := normFlags (hints.map fun h => ⟨h.1, false, h.2.length, h.2⟩)
  ⟨mtype, if hints.isEmpty then 0 else 8, (hintsLen hs + payload.length) % 2 ^ 20, hs, payload⟩

/-- The hint chain (`hint_cb`): starts when flag bit 0x8 is set, goes on while the last hint has
    its H flag set and octets are left. A hint's data is clamped to what is there. -/
def decHints : Nat → Bytes → Option (List Hint × Bytes)
  | 0, b => some ([], b)
  | _, [] => some ([], [])
  | _, [_] => none
  | f+1, t :: l :: rest =>
    let h : Hint := ⟨t.toNat / 2, t.toNat % 2 = 1, l.toNat, rest.take l.toNat⟩
    if h.hflag then
      match decHints f (rest.drop l.toNat) with
      | none => none
      | some (hs, r) => some (h :: hs, r)
    else some ([h], rest.drop l.toNat)

/-- One `MessageHead` and its payload (`extract_padding`: `length - hints_len` octets; a negative
    count is a Python slice from the end). -/
def decMsg : Bytes → Option (Msg × Bytes)
  | b0 :: b1 :: b2 :: b3 :: r =>
    let flags := b1.toNat / 16
    let length := b1.toNat % 16 * 65536 + b2.toNat * 256 + b3.toNat
    match (if flags / 8 % 2 = 1 then decHints (r.length + 1) r else some ([], r)) with
    | none => none
    | some (hs, r1) =>
      let hl := hintsLen hs
      let n := if hl ≤ length then length - hl else r1.length - (hl - length)
      some (⟨b0.toNat, flags, length, hs, r1.take n⟩, r1.drop n)
  | _ => none

/-- `MessageSet(data)`: messages until the octets end or a zero octet starts the padding. -/
def decSet : Nat → Bytes → Option (List Msg × Bytes)
  | 0, b => some ([], b)
  | _, [] => some ([], [])
  | f+1, b0 :: r =>
    if b0 = 0 then some ([], b0 :: r)
    else
      match decMsg (b0 :: r) with
      | none => none
      | some (m, rest) =>
        match decSet f rest with
        | none => none
        | some (ms, p) => some (m :: ms, p)

def decodeSet (b : Bytes) : Option (List Msg × Bytes) := decSet (b.length + 1) b

/-- Declared lengths equal actual lengths and the H flags form a proper chain. -/
def hintsExact : List Hint → Bool
  | [] => true
  | [h] => !h.hflag && h.length == h.data.length
  | h :: h' :: rest => h.hflag && h.length == h.data.length && hintsExact (h' :: rest)

def Msg.exact (m : Msg) : Bool :=
  hintsExact m.hints && m.length == hintsLen m.hints + m.payload.length &&
  ((m.flags / 8 % 2 == 1) == !m.hints.isEmpty)

/-- What the payload of a message is bound to (`bind_layers` + scapy's fallbacks). -/
inductive Body
  | nothing                                            -- `NoPayload`
  | bundle (data : Bytes)                              -- `BundlePdu`
  | seg (isEnd : Bool) (xfer idx : Nat) (data : Bytes) -- `TransferSeg` / `TransferEnd`
  | other                                              -- padding, cancel, unknown type, short transfer
  deriving DecidableEq, Repr

def Msg.body (m : Msg) : Body :=
  if m.payload.isEmpty then .nothing
  else if m.mtype = 2 then .bundle m.payload
  else if m.mtype = 3 ∨ m.mtype = 4 then
    if m.payload.length < 8 then .other
    else .seg (m.mtype = 4) (beNat (m.payload.take 4)) (beNat ((m.payload.drop 4).take 4))
      (m.payload.drop 8)
  else .other

/-! ## Sending -/

/-- `msg_head/TransferSeg|TransferEnd(xfer_num, seg_idx)/Raw(seg_data)` with the total-length hint
    `HintHead(hint_type=0)/Raw(total_len.to_bytes(4, 'big'))`. -/
def segFrame (total xfer idx : Nat) (isEnd : Bool) (chunk : Bytes) : Bytes :=
  encMsg (mkMsg (if isEnd then 4 else 3) [(0, beBytes 4 total)] (beBytes 4 xfer ++ (beBytes 4 idx ++ chunk)))

/-- `MessageHead()/BundlePdu(data)` -/
def bundleFrame (data : Bytes) : Bytes := encMsg (mkMsg 2 [] data)

/-- The `while seg_offset < total_len` loop for `remain > 0`:
    `(seg_idx, is it the TransferEnd, seg_data)`. The first argument bounds the number of
    iterations; `total_len + 1` is always enough when `remain > 0`. -/
def segLoop : Nat → Bytes → Nat → Nat → Nat → List (Nat × Bool × Bytes)
  | 0, _, _, _, _ => []
  | fuel+1, data, remain, off, idx =>
    if off < data.length then
      (idx, !decide (off + remain < data.length), (data.drop off).take remain) ::
        segLoop fuel data remain (off + remain) (idx + 1)
    else []

/-- `len(msg_head)`: 4 octets of head, 6 of the total-length hint. -/
def headLenSeg : Nat := 10

/-- `remain_size = min(mtu - len(msg_head) - 8, 2**20 - 1 - (len(msg_head) - 4) - 8)`, a Python
    int: what the MTU leaves for data, capped so that hints, transfer header and data fit the
    20-bit message length. -/
def remainSize (mtu : Nat) : Int :=
  min ((mtu : Int) - headLenSeg - 8) (2 ^ 20 - 1 - ((headLenSeg : Int) - 4) - 8)

/-- What iterating `_send_transfer(item)` gives. -/
inductive SendResult
  | ok (frames : List Bytes)
  | failed     -- `ValueError` before the first frame (bundle PDU of 2^20 octets or more; MTU too
               -- small to segment); caught and logged by `_process_tx_queue`, nothing is sent
  deriving DecidableEq, Repr

/-- The unsegmented branch: `total_len >= 2 ** 20` does not fit the 20-bit message length. -/
def sendPdu (data : Bytes) : SendResult :=
  if 2 ^ 20 ≤ data.length then .failed else .ok [bundleFrame data]

/-- `_send_transfer(item)`; `total_len < mtu - 4` is over Python ints (`total + 4 < mtu`). -/
def sendTransfer (xfer : Nat) (data : Bytes) (mtu : Option Nat) : SendResult :=
  match mtu with
  | none => sendPdu data
  | some m =>
    if data.length + 4 < m then sendPdu data
    else if remainSize m ≤ 0 then .failed
    else .ok ((segLoop (data.length + 1) data (remainSize m).toNat 0 0).map
      fun p => segFrame data.length xfer p.1 p.2.1 p.2.2)

/-- What `_process_tx_queue` hands to the sender for one item. -/
def framesSent (xfer : Nat) (data : Bytes) (mtu : Option Nat) : List Bytes :=
  match sendTransfer xfer data mtu with
  | .ok fs => fs
  | .failed => []

/-! ## Receiving -/

/-- `(conv.key, xfer_num)`; the channel tuple (interface, peer, local address, VLAN) is a string. -/
structure Key where
  chan : String
  xfer : Nat
  deriving DecidableEq, Repr

/-- `RxTransfer` -/
structure RxT where
  gotEnd : Option Nat
  got : List Nat
  data : List (Nat × Bytes)
  deriving Repr

/-- Queue entry; `src` is a ghost field (which transfer produced it, `none` for a Bundle PDU). -/
structure QItem where
  addr : String
  src : Option Key
  length : Nat
  data : Bytes
  deriving Repr

structure Rx where
  prog : List (Key × RxT)
  rxId : Nat
  queue : List (Nat × QItem)
  deriving Repr

def Rx.init : Rx := ⟨[], 0, []⟩

def getT (k : Key) : List (Key × RxT) → Option RxT
  | [] => none
  | (k', x) :: rest => if k' = k then some x else getT k rest

def delT (k : Key) : List (Key × RxT) → List (Key × RxT)
  | [] => []
  | (k', x) :: rest => if k' = k then delT k rest else (k', x) :: delT k rest

def putT (k : Key) (x : RxT) (l : List (Key × RxT)) : List (Key × RxT) := (k, x) :: delT k l

def addRx (s : Rx) (q : QItem) : Rx :=
  { s with rxId := s.rxId + 1, queue := s.queue ++ [(s.rxId, q)] }

def lookupD (i : Nat) : List (Nat × Bytes) → Bytes
  | [] => []
  | (j, d) :: rest => if j = i then d else lookupD i rest

/-- `if xfer.got_end is not None:` and `xfer.got_idx == closed(0, got_end)` -/
def complete (x : RxT) : Bool :=
  match x.gotEnd with
  | none => false
  | some e => (List.range (e + 1)).all (fun i => x.got.contains i) &&
      x.got.all (fun i => decide (i ≤ e))

/-- `fulldata`: the segments in index order. -/
def fullData (x : RxT) (e : Nat) : Bytes := (List.range (e + 1)).flatMap fun i => lookupD i x.data

/-- the entry after a new segment -/
def updT (x : RxT) (isEnd : Bool) (idx : Nat) (chunk : Bytes) : RxT :=
  ⟨if isEnd then some idx else x.gotEnd, idx :: x.got, (idx, chunk) :: x.data⟩

/-- The Transfer branch of `_recv_msg` (segment with at least one data octet). -/
def recvSeg (s : Rx) (k : Key) (addr : String) (isEnd : Bool) (idx : Nat) (chunk : Bytes) : Rx :=
  let x := (getT k s.prog).getD ⟨none, [], []⟩
  if x.got.contains idx then s          -- duplicate: ignored (the entry exists already)
  else
    if complete (updT x isEnd idx chunk) then
      addRx { s with prog := delT k s.prog }
        ⟨addr, some k, (fullData (updT x isEnd idx chunk) ((updT x isEnd idx chunk).gotEnd.getD 0)).length,
          fullData (updT x isEnd idx chunk) ((updT x isEnd idx chunk).gotEnd.getD 0)⟩
    else { s with prog := putT k (updT x isEnd idx chunk) s.prog }

inductive Outcome
  | done
  | attrError    -- AttributeError escapes `_recv_msg` (Transfer message without data octets)
  | outside      -- frame shape not modelled
  deriving DecidableEq, Repr

/-- the `for msg in pkt.msgs` loop -/
def recvMsgs (s : Rx) (chan addr : String) : List Msg → Rx × Outcome
  | [] => (s, .done)
  | m :: rest =>
    match m.body with
    | .bundle d => recvMsgs (addRx s ⟨addr, none, d.length, d⟩) chan addr rest
    | .seg isEnd xfer idx d =>
      if d.isEmpty then (s, .attrError)
      else recvMsgs (recvSeg s ⟨chan, xfer⟩ addr isEnd idx d) chan addr rest
    | _ => recvMsgs s chan addr rest

/-- `_recv_msg(sock, data, conv)` -/
def recvFrame (s : Rx) (chan addr : String) (data : Bytes) : Rx × Outcome :=
  match decodeSet data with
  | none => (s, .outside)
  | some (ms, _) => recvMsgs s chan addr ms

/-- One message as the reassembly sees it. -/
inductive Ev
  | seg (k : Key) (addr : String) (isEnd : Bool) (idx : Nat) (chunk : Bytes)
  | bundle (addr : String) (data : Bytes)
  deriving Repr

def step (s : Rx) : Ev → Rx
  | .seg k addr isEnd idx chunk => recvSeg s k addr isEnd idx chunk
  | .bundle addr d => addRx s ⟨addr, none, d.length, d⟩

def run (s : Rx) (evs : List Ev) : Rx := evs.foldl step s

/-- the `(is end, index, data)` of the segments of transfer `k`, in arrival order -/
def kev (k : Key) : List Ev → List (Bool × Nat × Bytes)
  | [] => []
  | .seg k' _ isEnd idx chunk :: rest =>
    if k' = k then (isEnd, idx, chunk) :: kev k rest else kev k rest
  | .bundle _ _ :: rest => kev k rest

def fromKey (k : Key) (q : Nat × QItem) : Bool := decide (q.2.src = some k)

/-- the bundles transfer `k` has put into the queue -/
def queued (k : Key) (s : Rx) : List Bytes := (s.queue.filter (fromKey k)).map (·.2.data)

end Btpu
end DtnVerif
