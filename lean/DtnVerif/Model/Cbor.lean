/-
  CBOR heads (RFC 8949 §3) as used by cbor2's encoder (shortest form) and decoder
  (any definite form). Import-free, executable.
-/
import DtnVerif.Model.Bytes
namespace DtnVerif
namespace Cbor

/-- Length of the shortest-form head for argument `n` (`n < 2^64`). -/
def headLen (n : Nat) : Nat :=
  if n < 24 then 1 else if n < 256 then 2 else if n < 65536 then 3
  else if n < 4294967296 then 5 else 9

/-- Shortest-form head for major type `mt` (0..7) and argument `n`. -/
def head (mt n : Nat) : Bytes :=
  if n < 24 then [UInt8.ofNat (mt * 32 + n)]
  else if n < 256 then UInt8.ofNat (mt * 32 + 24) :: beBytes 1 n
  else if n < 65536 then UInt8.ofNat (mt * 32 + 25) :: beBytes 2 n
  else if n < 4294967296 then UInt8.ofNat (mt * 32 + 26) :: beBytes 4 n
  else UInt8.ofNat (mt * 32 + 27) :: beBytes 8 n

/-- Decode a definite head: `(major type, argument, rest)`. Non-shortest forms are accepted, as
    cbor2 does. Additional-information values 28..31 are rejected here (31 = indefinite is handled
    by callers that allow it). -/
def decHead : Bytes → Option (Nat × Nat × Bytes)
  | [] => none
  | b :: rest =>
    let mt := b.toNat / 32
    let ai := b.toNat % 32
    if ai < 24 then some (mt, ai, rest)
    else
      let k := if ai = 24 then 1 else if ai = 25 then 2 else if ai = 26 then 4
               else if ai = 27 then 8 else 0
      if k = 0 then none
      else if rest.length < k then none
      else some (mt, beNat (rest.take k), rest.drop k)

/-- unsigned integer item -/
def encUint (n : Nat) : Bytes := head 0 n
/-- byte string item -/
def encBstr (d : Bytes) : Bytes := head 2 d.length ++ d
/-- text string item; the argument is the UTF-8 octets -/
def encTstr (d : Bytes) : Bytes := head 3 d.length ++ d
/-- definite array head for `n` items -/
def encArrHead (n : Nat) : Bytes := head 4 n
/-- definite map head for `n` pairs -/
def encMapHead (n : Nat) : Bytes := head 5 n

def decUint (b : Bytes) : Option (Nat × Bytes) :=
  match decHead b with
  | some (0, n, r) => some (n, r)
  | _ => none

def decBstr (b : Bytes) : Option (Bytes × Bytes) :=
  match decHead b with
  | some (2, n, r) => if r.length < n then none else some (r.take n, r.drop n)
  | _ => none

def decTstr (b : Bytes) : Option (Bytes × Bytes) :=
  match decHead b with
  | some (3, n, r) => if r.length < n then none else some (r.take n, r.drop n)
  | _ => none

def decArrHead (b : Bytes) : Option (Nat × Bytes) :=
  match decHead b with
  | some (4, n, r) => some (n, r)
  | _ => none

def decMapHead (b : Bytes) : Option (Nat × Bytes) :=
  match decHead b with
  | some (5, n, r) => some (n, r)
  | _ => none

end Cbor
end DtnVerif
