/-
  Fragment reassembly (bp/app/fragment.py `Fragment._reassemble`) composed with the part of
  `Agent.recv_bundle` (bp/agent.py) that decides whether a bundle reaches it: CRC gate, own-source
  filter, seen-set of bundle identities (after fix dc31f2b a fragment's identity is source, creation
  time, sequence number, fragment offset and its own payload length), routing to 'deliver', and the
  re-injection of the synthesised bundle through `glib.idle_add(recv_bundle, ·)`.
  Security blocks are assumed absent (the BPSec receive steps are then no-ops).
  Tables are functions (frame properties are immediate); everything is executable.
-/
import DtnVerif.Model.Frag
import DtnVerif.Model.Cover
namespace DtnVerif
namespace Reasm
open Bp Frag Cover

/-- `bundle_ident()[:3]` -/
structure Key where
  src : Eid
  time : Nat
  seq : Nat
  deriving Repr, DecidableEq, Inhabited

/-- `bundle_ident()`: fragments add (fragment_offset, len(payload btsd) or None) -/
structure Ident where
  key : Key
  frag : Option (Nat × Option Nat)
  deriving Repr, DecidableEq, Inhabited

def keyOf (p : Primary) : Key := ⟨p.src, p.ts.time, p.ts.seq⟩
def identOf (b : FBundle) : Ident :=
  ⟨keyOf b.primary,
   if isFragment b.primary.flags then some (b.primary.fragOff, b.payload.map List.length) else none⟩

/-- `Reassembly` dataclass: `valid` kept as the history of received ranges (newest first) -/
structure Entry where
  total : Nat
  first : Option FBundle
  ranges : List Range
  data : Bytes
  deriving Repr, DecidableEq, Inhabited

abbrev Table := Key → Option Entry

/-- `BundleContainer.reload()`: every block's data ensured -/
def norm (b : FBundle) : FBundle := ⟨b.primary, b.blocks.map Blk.ensure⟩

/-- the synthesised original bundle: primary of the first fragment with the fragment flag cleared
    and its CRC refreshed (`crc_value = None; update_crc()` — the CRC type is kept, fix dffcae7),
    blocks copied from it, payload = buffer with CRC none -/
def synth (crcFn : Nat → Bytes → Bytes) (first : FBundle) (data : Bytes) : FBundle :=
  { primary := updPrimary crcFn { first.primary with flags := clearFragFlag first.primary.flags, crc := none },
    blocks := (norm first).blocks.map (fun x =>
      if x.c.blockNum == 1 then { x with c := { x.c with btsd := some data, crcType := 0, crc := none } }
      else x) }

inductive RRes where
  /-- `ctr.actions.clear(); return True`, possibly after scheduling the reassembled bundle -/
  | cleared (reinject : Option FBundle)
  /-- an exception left the step (chain broken; the fragment keeps its actions) -/
  | raised
  deriving Repr, DecidableEq

/-- get or create the `Reassembly` entry, then `if frag_offset == 0: first_frag = ctr.bundle` -/
def entryOf (cur : Option Entry) (b : FBundle) : Entry :=
  let e0 : Entry := cur.getD ⟨b.primary.totalLen, none, [], zeros b.primary.totalLen⟩
  if b.primary.fragOff == 0 then { e0 with first := some b } else e0

/-- `data[off:end] = payload; valid |= closedopen(off, end)` -/
def inject (e : Entry) (off : Nat) (d : Bytes) : Entry :=
  { e with data := splice e.data off d, ranges := (off, d.length) :: e.ranges }

/-- `if valid == total_valid:` delete the entry, synthesise and schedule the bundle -/
def finish (crcFn : Nat → Bytes → Bytes) (e : Entry) : Option Entry × RRes :=
  if exactB e.ranges e.total then
    match e.first with
    | none => (none, .raised)                -- `None.primary`
    | some f =>
      if (payloadBlk f.blocks).isSome then (none, .cleared (some (synth crcFn f e.data)))
      else (none, .raised)                   -- KeyError from rctr.block_num(1)
  else (some e, .cleared none)

/-- `_reassemble` on the table entry of the fragment's key (`cur`), for a fragment that has
    'deliver' among its actions: new entry (none = deleted) and how the step ended -/
def reasmEntry (crcFn : Nat → Bytes → Bytes) (cur : Option Entry) (b : FBundle) : Option Entry × RRes :=
  match b.payload with
  | none => (some (entryOf cur b), .raised)  -- KeyError (no block 1) / TypeError (btsd None)
  | some d => finish crcFn (inject (entryOf cur b) b.primary.fragOff d)

def reassemble (crcFn : Nat → Bytes → Bytes) (t : Table) (b : FBundle) : Table × RRes :=
  let k := keyOf b.primary
  let r := reasmEntry crcFn (t k) b
  (fun k' => if k' = k then r.1 else t k', r.2)

structure RCfg where
  nodeId : Eid
  /-- administrative routing (destination = own node) or first matching rx route says 'deliver' -/
  deliver : Eid → Bool
  /-- `check_all_crc()` finds nothing -/
  crcOk : FBundle → Bool
  /-- encoded CRC value for (type, block encoded with zero CRC) -/
  crcFn : Nat → Bytes → Bytes

structure AState where
  table : Table
  seen : Ident → Bool
  /-- `idle_add(recv_bundle, rctr)` not yet run, oldest first -/
  pending : List FBundle
  /-- bundles that reached the application steps with 'deliver' (never fragments) -/
  delivered : List FBundle

def AState.init : AState := ⟨fun _ => none, fun _ => false, [], []⟩

/-- `BundleContainer(Bundle(data))` + `Agent.recv_bundle` -/
def recvBundle (cfg : RCfg) (s : AState) (b0 : FBundle) : AState :=
  if !numsOk b0 then s                       -- reload() raises in the constructor
  else
    let b := norm b0
    if !cfg.crcOk b then s
    else if b.primary.src == cfg.nodeId then s
    else
      let id := identOf b
      if s.seen id then s
      else
        let s1 : AState := { s with seen := fun i => i == id || s.seen i }
        if !cfg.deliver b.primary.dest then s1
        else if !isFragment b.primary.flags then { s1 with delivered := s1.delivered ++ [b] }
        else
          let r := reassemble cfg.crcFn s1.table b
          match r.2 with
          | .cleared (some rb) => { s1 with table := r.1, pending := s1.pending ++ [rb] }
          | _ => { s1 with table := r.1 }

inductive Ev where
  /-- the CL hands over a decoded bundle -/
  | recv (b : FBundle)
  /-- the `j`-th pending idle callback runs -/
  | idle (j : Nat)
  deriving Repr

def step (cfg : RCfg) (s : AState) : Ev → AState
  | .recv b => recvBundle cfg s b
  | .idle j =>
    match s.pending[j]? with
    | none => s
    | some rb => recvBundle cfg { s with pending := s.pending.eraseIdx j } rb

def run (cfg : RCfg) (s : AState) (evs : List Ev) : AState := evs.foldl (step cfg) s

end Reasm
end DtnVerif
