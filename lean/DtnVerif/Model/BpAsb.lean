/-
  BPSec Abstract Security Block (RFC 9172 §3.6) as bp/encoding/bpsec.py encodes and decodes it
  (`AbstractSecurityBlock`, a `CborSequence`: the items follow each other without an enclosing
  array; `TargetResultList`, `TypeValuePair`). This is the block-type-specific data of block
  types 11 (BIB) and 12 (BCB). Import-free (apart from the shared models), executable.
  Parameter / result values are restricted to unsigned integers and byte strings (what the
  security contexts of the repository use); the real `CborField` takes any CBOR item.
-/
import DtnVerif.Model.BundleDec
namespace DtnVerif
namespace Bp
open Cbor

inductive SecVal where
  | uint (n : Nat)
  | bstr (d : Bytes)
  deriving Repr, DecidableEq, Inhabited

/-- `TypeValuePair`: `[id, value]` -/
abbrev SecPair := Nat × SecVal

structure Asb where
  targets : List Nat
  contextId : Nat
  flags : Nat := 0
  source : Eid := .dtnNone
  /-- encoded only when bit 0 of `flags` (PARAMETERS_PRESENT) is set -/
  params : List SecPair := []
  /-- one result array per target; a target may have no result (empty array) -/
  results : List (List SecPair) := []
  deriving Repr, DecidableEq, Inhabited

def SecVal.enc : SecVal → Bytes
  | .uint n => encUint n
  | .bstr d => encBstr d

def encPair (p : SecPair) : Bytes := encArrHead 2 ++ encUint p.1 ++ p.2.enc

def encPairList : List SecPair → Bytes
  | [] => []
  | p :: ps => encPair p ++ encPairList ps

/-- an array of `[id, value]` pairs (`ArrayWrapField(PacketListField(TypeValuePair))`, and
    `TargetResultList`) -/
def encPairs (ps : List SecPair) : Bytes := encArrHead ps.length ++ encPairList ps

def encResultList : List (List SecPair) → Bytes
  | [] => []
  | r :: rs => encPairs r ++ encResultList rs

def hasParams (flags : Nat) : Bool := flags % 2 == 1

/-- `bytes(AbstractSecurityBlock)`: the field items one after the other, no outer array. -/
def Asb.enc (a : Asb) : Bytes :=
  encArrHead a.targets.length ++ encNatList a.targets
  ++ encUint a.contextId ++ encUint a.flags ++ a.source.enc
  ++ (if hasParams a.flags then encPairs a.params else [])
  ++ encArrHead a.results.length ++ encResultList a.results

/-! decoders -/

def decSecVal (b : Bytes) : Option (SecVal × Bytes) :=
  match decUint b with
  | some (n, r) => some (.uint n, r)
  | none =>
    match decBstr b with
    | some (d, r) => some (.bstr d, r)
    | none => none

def decPair (b : Bytes) : Option (SecPair × Bytes) :=
  match decArrHead b with
  | none => none
  | some (n, r0) =>
    if n != 2 then none else
    match decUint r0 with
    | none => none
    | some (k, r1) =>
      match decSecVal r1 with
      | none => none
      | some (v, r2) => some ((k, v), r2)

def decPairList : Nat → Bytes → Option (List SecPair × Bytes)
  | 0, b => some ([], b)
  | n+1, b =>
    match decPair b with
    | none => none
    | some (p, r) =>
      match decPairList n r with
      | none => none
      | some (ps, r') => some (p :: ps, r')

/-- An array of pairs. An **empty** array is the empty list — a present, empty `TargetResultList`,
    not an absent one. -/
def decPairs (b : Bytes) : Option (List SecPair × Bytes) :=
  match decArrHead b with
  | none => none
  | some (n, r) => decPairList n r

def decResultList : Nat → Bytes → Option (List (List SecPair) × Bytes)
  | 0, b => some ([], b)
  | n+1, b =>
    match decPairs b with
    | none => none
    | some (r, rest) =>
      match decResultList n rest with
      | none => none
      | some (rs, rest') => some (r :: rs, rest')

def decParams (c : Bool) (b : Bytes) : Option (List SecPair × Bytes) :=
  if c then decPairs b else some ([], b)

/-- `AbstractSecurityBlock(bytes)`; the whole BTSD must be consumed. -/
def decAsbPrefix (b : Bytes) : Option (Asb × Bytes) :=
  match decArrHead b with
  | none => none
  | some (nt, r0) =>
  match decNatList nt r0 with
  | none => none
  | some (targets, r1) =>
  match decUint r1 with
  | none => none
  | some (contextId, r2) =>
  match decUint r2 with
  | none => none
  | some (flags, r3) =>
  match decEidRaw r3 with
  | none => none
  | some (source, r4) =>
  match decParams (hasParams flags) r4 with
  | none => none
  | some (params, r5) =>
  match decArrHead r5 with
  | none => none
  | some (nr, r6) =>
  match decResultList nr r6 with
  | none => none
  | some (results, r7) => some ({ targets, contextId, flags, source, params, results }, r7)

def decAsb (b : Bytes) : Option Asb :=
  match decAsbPrefix b with
  | some (a, []) => some a
  | _ => none

/-! well-formedness -/

def wfSecVal : SecVal → Bool
  | .uint n => u64 n
  | .bstr d => u64 d.length

def wfPair (p : SecPair) : Bool := u64 p.1 && wfSecVal p.2
def wfPairs (ps : List SecPair) : Bool := u64 ps.length && ps.all wfPair

def sizeEidB : Eid → Bool
  | .dtnNone => true
  | .dtn ssp => u64 ssp.length
  | .ipn ps => !ps.isEmpty && u64 ps.length && ps.all u64

def wfAsb (a : Asb) : Bool :=
  u64 a.targets.length && a.targets.all u64 && u64 a.contextId && u64 a.flags && sizeEidB a.source
  && (if hasParams a.flags then wfPairs a.params else a.params.isEmpty)
  && u64 a.results.length && a.results.all wfPairs

end Bp
end DtnVerif
