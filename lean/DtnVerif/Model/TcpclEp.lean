/-
  One TCPCLv4 endpoint (tcpcl/session.py: Connection → Messenger → ContactHandler) as a
  deterministic transition system `step : Ep → Ev → Ep × List Out`, TLS disabled.
  The two transmit buffers (message level, connection level), the receive buffer with its probe
  framing (Model/TcpclCodec), the `_process_queue` idle sources, both timers (virtual time) and all
  D-Bus-visible signals are in the state/outputs. Import-free, executable.
-/
import DtnVerif.Model.TcpclCodec
namespace DtnVerif
namespace Tcpcl

def chunkSize : Nat := 10240

/-- `SessionInit.SIZE_MAX`, the default announced transfer MRU -/
def sizeMax : Nat := 2 ^ 64 - 1

/-- `_send_segment_size_min` -/
def segSizeMin : Nat := 10240

/-- the clamp at the end of `_modulate_tx_seg_size` -/
def clampSeg (raw : Int) (mru : Nat) : Nat := min (max raw (segSizeMin : Int)).toNat mru

structure Cfg where
  passive : Bool := false
  nodeId : Bytes := []
  keepalive : Nat := 0        -- config.keepalive_time (s)
  idle : Nat := 0             -- config.idle_time (s)
  segMru : Nat := 10485760    -- config.segment_size_mru (announced)
  segInit : Nat := 104857     -- config.segment_size_tx_initial
  privExt : Bool := false     -- 'private_extensions' in enable_test
  deriving Repr, DecidableEq, Inhabited

structure TxItem where
  tid : Nat
  data : Bytes
  deriving Repr, DecidableEq, Inhabited

/-- D-Bus argument values as Python hands them to the signal (type-faithful). -/
inductive Val where
  | str (s : String)
  | nat (n : Nat)
  | bytes (b : Bytes)
  | strs (l : List String)
  | bool (b : Bool)
  deriving Repr, DecidableEq, Inhabited

inductive Out where
  /-- octets accepted by the socket -/
  | wire (b : Bytes)
  | sig (name : String) (args : List Val)
  | closed
  /-- an exception escaping a GLib callback / returned to the D-Bus caller -/
  | escaped (what : String)
  | raised (what : String)
  | ret (v : Val)
  deriving Repr, DecidableEq, Inhabited

inductive Query where
  | state | idle | txQueue | rxQueue
  deriving Repr, DecidableEq, Inhabited

inductive Ev where
  | start
  | send (data : Bytes)
  | terminate (reason : Nat)
  | close
  | pop (tid : Nat)
  | query (q : Query)
  /-- fire one pending `_process_queue` idle source -/
  | procQueue
  /-- fire a TX callback; the socket accepts at most `n` octets (`0`: the send would block) -/
  | pump (n : Nat)
  /-- RX callback delivering these octets (non-empty, ≤ CHUNK_SIZE) -/
  | rx (chunk : Bytes)
  | rxEof
  | advance (ms : Nat)
  | keepaliveTimer
  | idleTimer
  /-- the segment-size controller produced `raw` (any integer: the float PID arithmetic is not modelled) -/
  | modulate (raw : Int)
  deriving Repr, DecidableEq, Inhabited

structure PeerInit where
  keepalive : Nat
  segMru : Nat
  xferMru : Nat
  node : Bytes
  deriving Repr, DecidableEq, Inhabited

structure Ep where
  cfg : Cfg := {}
  started : Bool := false
  closed : Bool := false
  state : String := "connecting"
  rx : Rx := {}
  inSess : Bool := false
  inTerm : Bool := false
  /-- peer's SESS_TERM received -/
  gotTerm : Bool := false
  sentContact : Bool := false
  sentInit : Bool := false
  peerInit : Option PeerInit := none
  /-- message-level transmit buffer (`Messenger.__tx_buf`) -/
  txBuf : Bytes := []
  /-- connection-level transmit buffer (`Connection.__tx_buf`) -/
  connBuf : Bytes := []
  sendSegSize : Nat := 0
  kaTime : Nat := 0            -- negotiated keepalive (s)
  idleTime : Nat := 0
  now : Nat := 0               -- virtual ms
  kaDeadline : Option Nat := none
  idleDeadline : Option Nat := none
  txNextId : Nat := 1
  txPendStart : List TxItem := []
  /-- active TX transfer and octets handed to segments so far -/
  txTmp : Option (TxItem × Nat) := none
  txPendAck : List Nat := []
  /-- keys of `_tx_map` in insertion order -/
  txMap : List Nat := []
  /-- last acknowledged length per pending transfer (`BundleItem.ack_length`) -/
  ackLen : List (Nat × Nat) := []
  rxTmp : Option (Nat × Bytes) := none
  /-- `_rx_map` (dict: insertion order, overwrite keeps position) -/
  rxMap : List (Nat × Bytes) := []
  pqPend : Bool := false
  pqSources : Nat := 0
  /-- `__avail_tx_notls_id is not None`: a TX watch is registered -/
  txWatch : Bool := false
  /-- `__avail_tx_notls_pend is not None`: an immediate (idle) call of the TX callback is registered -/
  txIdle : Bool := false
  /-- number of installed GLib sources whose callback is `_avail_tx_notls` (tracked while open) -/
  txSrc : Nat := 0
  /-- ghost: every message handed to `send_message`, in order -/
  emitted : List Msg := []
  /-- ghost: every message handed to `recv_message`, in order -/
  processed : List Msg := []
  /-- ghost: bundles accepted from the user, in order -/
  sendLog : List TxItem := []
  /-- ghost: completely received transfers in order of completion -/
  rxLog : List (Nat × Bytes) := []
  /-- ghost: tids for which `send_bundle_finished(…, 'success')` was emitted -/
  successLog : List Nat := []
  /-- ghost: octets accepted by the socket -/
  accepted : Bytes := []
  /-- ghost: number of transfers started so far -/
  nStarted : Nat := 0
  /-- ghost: every octet handed to `recv_raw`, in order -/
  rxBytes : Bytes := []
  /-- inside the `recv_raw` loop: later messages of the same read (or an undecodable octet) are still
      in `__rx_buf` while this message is handled -/
  rxMore : Bool := false
  deriving Repr, DecidableEq, Inhabited

abbrev Res := Ep × List Out

def natStr (n : Nat) : String := toString n

/- ------------------------------------------------------------------ timers -/

def kaReset (e : Ep) : Ep :=
  { e with kaDeadline := if e.kaTime > 0 then some (e.now + e.kaTime * 1000) else none }

def idleReset (e : Ep) : Ep :=
  { e with idleDeadline := if e.idleTime > 0 then some (e.now + e.idleTime * 1000) else none }

/- ------------------------------------------------------------------ sending -/

/-- `Connection.send_ready`: make sure a TX watch and an immediate call of the TX callback are installed -/
def sendReady (e : Ep) : Ep :=
  { e with txWatch := true, txIdle := true,
           txSrc := e.txSrc + (if e.txWatch then 0 else 1) + (if e.txIdle then 0 else 1) }

/-- `Messenger.send_message` -/
def sendMessage (e : Ep) (m : Msg) : Ep :=
  idleReset (kaReset (sendReady { e with txBuf := e.txBuf ++ encode m, emitted := e.emitted ++ [m] }))

def setState (e : Ep) (s : String) : Res :=
  if e.state = s then (e, []) else ({ e with state := s }, [.sig "session_state_changed" [.str s]])

/-- `_process_queue_trigger` -/
def pqTrigger (e : Ep) : Ep :=
  if e.pqPend then e else { e with pqPend := true, pqSources := e.pqSources + 1 }

/-- report every not-yet-started transfer as not sent (`_tx_flush_pend_start`) -/
def flushPendStart (e : Ep) : Res :=
  ({ e with txPendStart := [], txMap := e.txMap.filter (fun t => !(e.txPendStart.any (·.tid == t))) },
   e.txPendStart.map fun it =>
     .sig "send_bundle_finished" [.str (natStr it.tid), .nat 0, .str "session terminating"])

/-- `ContactHandler.close` → `Messenger.close` → `Connection.close` -/
def doClose (e : Ep) : Res :=
  if e.closed then (e, [])
  else
    let r := flushPendStart e
    ({ r.1 with closed := true, kaDeadline := none, idleDeadline := none,
                txWatch := false, txIdle := false, txSrc := 0 }, r.2 ++ [.closed])

/-- `Messenger.is_sess_idle` ∧ ContactHandler's additional conditions -/
def isSessIdle (e : Ep) : Bool :=
  e.rx.buf.isEmpty && !e.rxMore && e.txBuf.isEmpty && e.connBuf.isEmpty && e.rxTmp.isNone && e.txTmp.isNone
    && e.txPendStart.isEmpty && e.txPendAck.isEmpty

/-- `_check_sess_term` -/
def checkSessTerm (e : Ep) : Res :=
  if e.inTerm && e.gotTerm && isSessIdle e then doClose e else (e, [])

def sessionExt (c : Cfg) : Bytes :=
  if c.privExt then encExtItem ⟨1, 0xFF, List.replicate 10 0⟩ else []

def sendContact (e : Ep) : Ep := { sendMessage e (.contact 0) with sentContact := true }

def sendInit (e : Ep) : Ep :=
  { sendMessage e (.sessInit e.cfg.keepalive e.cfg.segMru sizeMax e.cfg.nodeId (sessionExt e.cfg))
    with sentInit := true }

/-- `send_sess_term` (ContactHandler level: also flushes the unstarted queue). Errors are reported
    as `raised` (they go back to the caller). -/
def sendSessTerm (e : Ep) (reason : Nat) (reply : Bool) : Res :=
  if !e.inSess then (e, [.raised "RuntimeError"])
  else if e.inTerm then (e, [.raised "RuntimeError"])
  else
    let r1 := setState { e with inTerm := true } "ending"
    let r3 := flushPendStart (sendMessage r1.1 (.sessTerm (if reply then 1 else 0) reason))
    (r3.1, r1.2 ++ r3.2)

def transferExt (c : Cfg) (start : Bool) (total : Nat) : Bytes :=
  (if c.privExt then encExtItem ⟨1, 0xFF, List.replicate 10 0⟩ else [])
  ++ (if start then encExtItem ⟨0, 1, u64 total⟩ else [])

/-- emit the next segment of the active transfer `it` of which `sent` octets are out already.
    Returns whether the idle source stays installed (never, here). -/
def sendSegment (e : Ep) (it : TxItem) (sent : Nat) : Ep × List Out × Bool :=
  let seg := (it.data.drop sent).take e.sendSegSize
  let sent' := sent + seg.length
  let isStart := sent == 0
  let isEnd := sent' == it.data.length
  let flags := (if isEnd then flagEnd else 0) + (if isStart then flagStart else 0)
  let ext := if isStart then transferExt e.cfg true it.data.length
             else if e.cfg.privExt then transferExt e.cfg false 0 else []
  if !isStart && e.cfg.privExt then
    -- send_xfer_data refuses extension items outside START: RuntimeError escapes the idle callback
    ({ e with txTmp := some (it, sent') }, [.escaped "RuntimeError"], false)
  else
    let e2 := sendMessage e (.xferSegment flags it.tid ext seg)
    if isEnd then
      (pqTrigger { e2 with txTmp := none, txPendAck := e2.txPendAck ++ [it.tid] }, [], false)
    else
      ({ e2 with txTmp := some (it, sent') }, [], false)

/-- `_process_queue` body (one firing of the idle source). Returns whether the source stays. -/
def processQueue (e : Ep) : Ep × List Out × Bool :=
  match e.txTmp with
  | some (it, sent) => sendSegment e it sent
  | none =>
    if !e.inSess then (e, [], true)          -- waiting for session: source stays
    else if e.inTerm then
      let r1 := flushPendStart e
      let r2 := checkSessTerm r1.1
      (r2.1, r1.2 ++ r2.2, false)
    else
      match e.txPendStart with
      | [] => (e, [], false)
      | it :: rest =>
        let r := sendSegment { e with txPendStart := rest, txTmp := some (it, 0), nStarted := e.nStarted + 1 } it 0
        (r.1, Out.sig "send_bundle_started" [.str (natStr it.tid), .nat it.data.length] :: r.2.1, r.2.2)

/-- `send_buffer_decreased` heuristic -/
def sendBufferDecreased (e : Ep) : Ep :=
  if e.txBuf.length < 5 * e.sendSegSize then pqTrigger e else e

/-- first half of `_tx_proxy`: pull up to CHUNK_SIZE octets from the message level -/
def pullTx (e : Ep) : Ep :=
  if e.connBuf.length < chunkSize then
    sendBufferDecreased { e with txBuf := e.txBuf.drop chunkSize, connBuf := e.connBuf ++ e.txBuf.take chunkSize }
  else e

/-- was the pull empty (`up_empty`) -/
def upEmpty (e : Ep) : Bool := e.connBuf.length < chunkSize && e.txBuf.isEmpty

/-- second half of `_tx_proxy`: write, then notice that everything has drained -/
def writeConn (e : Ep) (n : Nat) (up : Bool) : Res :=
  if e.connBuf.isEmpty then
    if up then checkSessTerm e else (e, [])
  else
    let data := e.connBuf.take chunkSize
    let k := min n data.length
    if k == 0 then (e, [])      -- the send would block (EAGAIN): nothing written, try again later
    else
      let e2 := { e with connBuf := e.connBuf.drop k, accepted := e.accepted ++ data.take k }
      if up && e2.connBuf.isEmpty then
        let r := checkSessTerm e2
        (r.1, Out.wire (data.take k) :: r.2)
      else (e2, [.wire (data.take k)])

/-- one TX callback (`_avail_tx_notls` → `_tx_proxy`), socket accepting at most `n` octets -/
def pump (e : Ep) (n : Nat) : Res := writeConn (pullTx e) n (upEmpty e)

/- ------------------------------------------------------------------ receiving -/

def sendReject (e : Ep) (reason : Nat) (m : Msg) : Ep := sendMessage e (.msgReject m.type reason)

def rejUnexpected : Nat := 3
def rejUnknown : Nat := 1

/-- `merge_session_params` without TLS -/
def mergeSession (e : Ep) (p : PeerInit) : Ep :=
  idleReset (kaReset { e with kaTime := min e.cfg.keepalive p.keepalive, idleTime := e.cfg.idle,
                              sendSegSize := min e.cfg.segInit p.segMru })

def rxMapSet (m : List (Nat × Bytes)) (tid : Nat) (d : Bytes) : List (Nat × Bytes) :=
  if m.any (·.1 == tid) then m.map (fun kv => if kv.1 == tid then (tid, d) else kv) else m ++ [(tid, d)]

def onContact (e : Ep) : Res :=
  let e1 := if e.cfg.passive then sendContact e else e
  let r2 := setState e1 "session-negotiating"
  -- TLS disabled on this side: never attempted; require_tls = None
  (if !e.cfg.passive then sendInit r2.1 else r2.1, r2.2)

def onSessInit (e : Ep) (p : PeerInit) : Res :=
  let e1 := if e.cfg.passive then sendInit e else e
  setState (mergeSession { e1 with peerInit := some p, inSess := true } p) "established"

def onSessTerm (e : Ep) (m : Msg) (reason : Nat) : Res :=
  if !e.inSess then (sendReject e rejUnexpected m, [])
  else
    let r1 := if !e.inTerm then sendSessTerm e reason true else (e, [])
    let r2 := flushPendStart { r1.1 with gotTerm := true }
    let r3 := checkSessTerm r2.1
    (r3.1, r1.2 ++ r2.2 ++ r3.2)

/-- a segment accepted into the transfer `(tid, cur)`; `o1` = signals already due (started) -/
def segAccept (e : Ep) (flags tid : Nat) (cur data : Bytes) (o1 : List Out) : Res :=
  let d' := cur ++ data
  if hasEnd flags then
    let e2 := sendMessage e (.xferAck flags tid d'.length)
    let r := checkSessTerm { e2 with rxTmp := none, rxMap := rxMapSet e2.rxMap tid d', rxLog := e2.rxLog ++ [(tid, d')] }
    (r.1, o1 ++ [.sig "recv_bundle_finished" [.str (natStr tid), .nat d'.length, .str "success"]] ++ r.2)
  else
    (sendMessage { e with rxTmp := some (tid, d') } (.xferAck flags tid d'.length),
     o1 ++ [.sig "recv_bundle_intermediate" [.str (natStr tid), .nat d'.length]])

def onSegment (e : Ep) (m : Msg) (flags tid : Nat) (data : Bytes) : Res :=
  if !e.inSess then (sendReject e rejUnexpected m, [])
  else if hasStart flags then
    segAccept { e with rxTmp := some (tid, []) } flags tid [] data
      [.sig "recv_bundle_started" [.str (natStr tid), .str ""]]
  else
    match e.rxTmp with
    | some (t, d) => if t == tid then segAccept e flags tid d data [] else (sendReject e rejUnexpected m, [])
    | none => (sendReject e rejUnexpected m, [])

def onAck (e : Ep) (m : Msg) (flags tid len : Nat) : Res :=
  if !e.inSess then (sendReject e rejUnexpected m, [])
  else if !e.txMap.contains tid then (sendReject e rejUnexpected m, [])
  else if hasEnd flags then
    if !e.txPendAck.contains tid then (sendReject e rejUnexpected m, [])
    else
      let r := checkSessTerm { e with txPendAck := e.txPendAck.erase tid, txMap := e.txMap.erase tid,
                                      successLog := e.successLog ++ [tid] }
      (r.1, Out.sig "send_bundle_finished" [.str (natStr tid), .nat len, .str "success"] :: r.2)
  else
    ({ e with ackLen := (tid, len) :: e.ackLen.filter (·.1 != tid) },
     [.sig "send_bundle_intermediate" [.str (natStr tid), .nat len]])

def onRefuse (e : Ep) (m : Msg) (reason tid : Nat) : Res :=
  if !e.inSess then (sendReject e rejUnexpected m, [])
  else if !e.txMap.contains tid then (sendReject e rejUnexpected m, [])
  else
    let e1 := { e with txMap := e.txMap.erase tid, txPendAck := e.txPendAck.erase tid,
                       txPendStart := e.txPendStart.filter (·.tid != tid) }
    let e2 := match e1.txTmp with
      | some (it, _) => if it.tid == tid then pqTrigger { e1 with txTmp := none } else e1
      | none => e1
    let r := checkSessTerm e2
    (r.1, Out.sig "send_bundle_finished"
        [.str (natStr tid), .nat ((e.ackLen.find? (·.1 == tid)).map (·.2) |>.getD 0),
         .str ("refused with code " ++ natStr reason)] :: r.2)

/-- `recv_message` for one decoded message (contact header included) -/
def handleMsg (e0 : Ep) (m : Msg) : Res :=
  let e := { e0 with processed := e0.processed ++ [m] }
  match m with
  | .contact _ => onContact e
  | .sessInit ka sm xm node _ => onSessInit e ⟨ka, sm, xm, node⟩
  | .sessTerm _ reason => onSessTerm e m reason
  | .keepalive => (e, [])
  | .msgReject _ _ => (e, [])
  | .xferSegment flags tid _ data => onSegment e m flags tid data
  | .xferAck flags tid len => onAck e m flags tid len
  | .xferRefuse reason tid => onRefuse e m reason tid

def handleMsgs : Ep → List Msg → Res
  | e, [] => (e, [])
  | e, m :: ms =>
    if e.closed then (e, []) else
    let r1 := handleMsg { e with rxMore := !ms.isEmpty || e.rx.dead } m
    let r2 := handleMsgs r1.1 ms
    (r2.1, r1.2 ++ r2.2)

/-- entry of `recv_raw(chunk)`: idle timer re-armed, octets appended and framed -/
def rxEntry (e : Ep) (chunk : Bytes) : Ep :=
  { idleReset e with rx := (feed e.rx chunk).1, rxBytes := e.rxBytes ++ chunk }

/-- `recv_raw(chunk)` -/
def recvRaw (e : Ep) (chunk : Bytes) : Res :=
  let r0 := handleMsgs (rxEntry e chunk) (feed e.rx chunk).2
  let r1 : Res := ({ r0.1 with rxMore := false }, r0.2)
  if (feed e.rx chunk).1.dead then
    let r2 := doClose r1.1
    (r2.1, r1.2 ++ r2.2)
  else r1

/- ------------------------------------------------------------------ step -/

def strsOf (l : List Nat) : Val := .strs (l.map natStr)

def queryVal (e : Ep) (q : Query) : Val :=
  match q with
  | .state => .str e.state
  | .idle => .bool (isSessIdle e)
  | .txQueue => strsOf e.txMap
  | .rxQueue => strsOf (e.rxMap.map (·.1))

def popRx (e : Ep) (tid : Nat) : Res :=
  match e.rxMap.find? (·.1 == tid) with
  | some (_, d) => ({ e with rxMap := e.rxMap.filter (·.1 != tid) }, [.ret (.bytes d)])
  | none => (e, [.raised "KeyError"])

def step (e : Ep) (ev : Ev) : Res :=
  match ev with
  | .advance ms => ({ e with now := e.now + ms }, [])
  | _ =>
  if e.closed then
    match ev with
    | .query q => (e, [.ret (queryVal e q)])
    | .pop tid => popRx e tid
    | .procQueue => ({ e with pqSources := e.pqSources - 1, pqPend := false }, [])
    | _ => (e, [])
  else
  match ev with
  | .advance _ => (e, [])
  | .start =>
    if e.started then (e, []) else
    let e1 := { e with started := true }
    let e2 := if !e1.cfg.passive then sendContact e1 else e1
    setState e2 "contact-negotiating"
  | .send data =>
    let it : TxItem := ⟨e.txNextId, data⟩
    let e1 := pqTrigger { e with txNextId := e.txNextId + 1, txPendStart := e.txPendStart ++ [it],
                                 txMap := e.txMap ++ [it.tid], sendLog := e.sendLog ++ [it] }
    (e1, [.ret (.str (natStr it.tid))])
  | .terminate reason => sendSessTerm e reason false
  | .close => doClose e
  | .pop tid => popRx e tid
  | .query q => (e, [.ret (queryVal e q)])
  | .procQueue =>
    if e.pqSources == 0 then (e, []) else
    let r := processQueue { e with pqPend := false }
    ({ r.1 with pqSources := if r.2.2 then r.1.pqSources else r.1.pqSources - 1 }, r.2.1)
  | .pump n =>
    -- the TX callback runs only while one of its sources is installed; it stays installed unless
    -- the callback found nothing to pull and nothing left to write (`cont`)
    if e.txSrc == 0 then (e, []) else
    let r := pump { e with txIdle := false } n
    let cont := r.1.closed || !r.1.connBuf.isEmpty || !upEmpty e
    ({ r.1 with txWatch := r.1.txWatch && cont, txSrc := if cont then r.1.txSrc else r.1.txSrc - 1 }, r.2)
  | .rx chunk => recvRaw e chunk
  | .rxEof => doClose e
  | .keepaliveTimer =>
    match e.kaDeadline with
    | none => (e, [])
    | some _ => (sendMessage { e with kaDeadline := none } .keepalive, [])
  | .idleTimer =>
    match e.idleDeadline with
    | none => (e, [])
    | some _ =>
      let e1 := { e with idleDeadline := none }
      if e1.inTerm then doClose e1 else sendSessTerm e1 1 false
  | .modulate raw =>
    match e.peerInit with
    | some p => ({ e with sendSegSize := clampSeg raw p.segMru }, [])
    | none => (e, [])

def run : Ep → List Ev → Ep × List (List Out)
  | e, [] => (e, [])
  | e, ev :: evs =>
    let (e1, o1) := step e ev
    let (e2, os) := run e1 evs
    (e2, o1 :: os)

def runEp (e : Ep) (evs : List Ev) : Ep := (run e evs).1

end Tcpcl
end DtnVerif
