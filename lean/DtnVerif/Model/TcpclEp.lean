/-
  One TCPCLv4 endpoint (tcpcl/session.py: Connection → Messenger → ContactHandler) as a
  deterministic transition system `step : Ep → Ev → Ep × List Out`, TLS disabled.
  The two transmit buffers (message level, connection level), the receive buffer with its probe
  framing (Model/TcpclCodec), the `_process_queue` idle sources, both timers (virtual time) and all
  D-Bus-visible signals are in the state/outputs. Import-free, executable.
-/
import DtnVerif.Model.TcpclCodec
namespace DtnVerif
namespace Tcpcl

def chunkSize : Nat := 10240

structure Cfg where
  passive : Bool := false
  nodeId : Bytes := []
  keepalive : Nat := 0        -- config.keepalive_time (s)
  idle : Nat := 0             -- config.idle_time (s)
  segMru : Nat := 10485760    -- config.segment_size_mru (announced)
  segInit : Nat := 104857     -- config.segment_size_tx_initial
  privExt : Bool := false     -- 'private_extensions' in enable_test
  deriving Repr, DecidableEq, Inhabited

structure TxItem where
  tid : Nat
  data : Bytes
  deriving Repr, DecidableEq, Inhabited

/-- D-Bus argument values as Python hands them to the signal (type-faithful). -/
inductive Val where
  | str (s : String)
  | nat (n : Nat)
  | bytes (b : Bytes)
  | strs (l : List String)
  | bool (b : Bool)
  deriving Repr, DecidableEq, Inhabited

inductive Out where
  /-- octets accepted by the socket -/
  | wire (b : Bytes)
  | sig (name : String) (args : List Val)
  | closed
  /-- an exception escaping a GLib callback / returned to the D-Bus caller -/
  | escaped (what : String)
  | raised (what : String)
  | ret (v : Val)
  deriving Repr, DecidableEq, Inhabited

inductive Query where
  | state | idle | txQueue | rxQueue
  deriving Repr, DecidableEq, Inhabited

inductive Ev where
  | start
  | send (data : Bytes)
  | terminate (reason : Nat)
  | close
  | pop (tid : Nat)
  | query (q : Query)
  /-- fire one pending `_process_queue` idle source -/
  | procQueue
  /-- fire a TX callback; the socket accepts at most `n ≥ 1` octets -/
  | pump (n : Nat)
  /-- RX callback delivering these octets (non-empty, ≤ CHUNK_SIZE) -/
  | rx (chunk : Bytes)
  | rxEof
  | advance (ms : Nat)
  | keepaliveTimer
  | idleTimer
  deriving Repr, DecidableEq, Inhabited

structure PeerInit where
  keepalive : Nat
  segMru : Nat
  xferMru : Nat
  node : Bytes
  deriving Repr, DecidableEq, Inhabited

structure Ep where
  cfg : Cfg := {}
  started : Bool := false
  closed : Bool := false
  state : String := "connecting"
  rx : Rx := {}
  inSess : Bool := false
  inTerm : Bool := false
  /-- peer's SESS_TERM received -/
  gotTerm : Bool := false
  sentContact : Bool := false
  sentInit : Bool := false
  peerInit : Option PeerInit := none
  /-- message-level transmit buffer (`Messenger.__tx_buf`) -/
  txBuf : Bytes := []
  /-- connection-level transmit buffer (`Connection.__tx_buf`) -/
  connBuf : Bytes := []
  sendSegSize : Nat := 0
  kaTime : Nat := 0            -- negotiated keepalive (s)
  idleTime : Nat := 0
  now : Nat := 0               -- virtual ms
  kaDeadline : Option Nat := none
  idleDeadline : Option Nat := none
  txNextId : Nat := 1
  txPendStart : List TxItem := []
  /-- active TX transfer and octets handed to segments so far -/
  txTmp : Option (TxItem × Nat) := none
  txPendAck : List Nat := []
  /-- keys of `_tx_map` in insertion order -/
  txMap : List Nat := []
  /-- last acknowledged length per pending transfer (`BundleItem.ack_length`) -/
  ackLen : List (Nat × Nat) := []
  rxTmp : Option (Nat × Bytes) := none
  /-- `_rx_map` (dict: insertion order, overwrite keeps position) -/
  rxMap : List (Nat × Bytes) := []
  pqPend : Bool := false
  pqSources : Nat := 0
  /-- ghost: every message handed to `send_message`, in order -/
  emitted : List Msg := []
  /-- ghost: every message handed to `recv_message`, in order -/
  processed : List Msg := []
  /-- ghost: bundles accepted from the user, in order -/
  sendLog : List TxItem := []
  /-- ghost: completely received transfers in order of completion -/
  rxLog : List (Nat × Bytes) := []
  /-- ghost: tids for which `send_bundle_finished(…, 'success')` was emitted -/
  successLog : List Nat := []
  /-- ghost: octets accepted by the socket -/
  accepted : Bytes := []
  deriving Repr, DecidableEq, Inhabited

abbrev Res := Ep × List Out

def natStr (n : Nat) : String := toString n

/- ------------------------------------------------------------------ timers -/

def kaReset (e : Ep) : Ep :=
  { e with kaDeadline := if e.kaTime > 0 then some (e.now + e.kaTime * 1000) else none }

def idleReset (e : Ep) : Ep :=
  { e with idleDeadline := if e.idleTime > 0 then some (e.now + e.idleTime * 1000) else none }

/- ------------------------------------------------------------------ sending -/

/-- `Messenger.send_message` -/
def sendMessage (e : Ep) (m : Msg) : Ep :=
  idleReset (kaReset { e with txBuf := e.txBuf ++ encode m, emitted := e.emitted ++ [m] })

def setState (e : Ep) (s : String) : Res :=
  if e.state = s then (e, []) else ({ e with state := s }, [.sig "session_state_changed" [.str s]])

/-- `_process_queue_trigger` -/
def pqTrigger (e : Ep) : Ep :=
  if e.pqPend then e else { e with pqPend := true, pqSources := e.pqSources + 1 }

/-- report every not-yet-started transfer as not sent (`_tx_flush_pend_start`) -/
def flushPendStart (e : Ep) : Res :=
  ({ e with txPendStart := [], txMap := e.txMap.filter (fun t => !(e.txPendStart.any (·.tid == t))) },
   e.txPendStart.map fun it =>
     .sig "send_bundle_finished" [.str (natStr it.tid), .nat 0, .str "session terminating"])

/-- `ContactHandler.close` → `Messenger.close` → `Connection.close` -/
def doClose (e : Ep) : Res :=
  if e.closed then (e, [])
  else
    let (e1, o1) := flushPendStart e
    ({ e1 with closed := true, kaDeadline := none, idleDeadline := none }, o1 ++ [.closed])

/-- `Messenger.is_sess_idle` ∧ ContactHandler's additional conditions -/
def isSessIdle (e : Ep) : Bool :=
  e.rx.buf.isEmpty && e.txBuf.isEmpty && e.connBuf.isEmpty && e.rxTmp.isNone && e.txTmp.isNone
    && e.txPendStart.isEmpty && e.txPendAck.isEmpty

/-- `_check_sess_term` -/
def checkSessTerm (e : Ep) : Res :=
  if e.inTerm && e.gotTerm && isSessIdle e then doClose e else (e, [])

def sessionExt (c : Cfg) : Bytes :=
  if c.privExt then encExtItem ⟨1, 0xFF, List.replicate 10 0⟩ else []

def sendContact (e : Ep) : Ep := { sendMessage e (.contact 0) with sentContact := true }

def sendInit (e : Ep) : Ep :=
  { sendMessage e (.sessInit e.cfg.keepalive e.cfg.segMru (2^64 - 1) e.cfg.nodeId (sessionExt e.cfg))
    with sentInit := true }

/-- `send_sess_term` (ContactHandler level: also flushes the unstarted queue). Errors are reported
    as `raised` (they go back to the caller). -/
def sendSessTerm (e : Ep) (reason : Nat) (reply : Bool) : Res :=
  if !e.inSess then (e, [.raised "RuntimeError"])
  else if e.inTerm then (e, [.raised "RuntimeError"])
  else
    let (e1, o1) := setState { e with inTerm := true } "ending"
    let e2 := sendMessage e1 (.sessTerm (if reply then 1 else 0) reason)
    let (e3, o3) := flushPendStart e2
    (e3, o1 ++ o3)

def transferExt (c : Cfg) (start : Bool) (total : Nat) : Bytes :=
  (if c.privExt then encExtItem ⟨1, 0xFF, List.replicate 10 0⟩ else [])
  ++ (if start then encExtItem ⟨0, 1, u64 total⟩ else [])

/-- `_process_queue` body (one firing of the idle source). Returns whether the source stays. -/
def processQueue (e : Ep) : Ep × List Out × Bool :=
  -- pick the next transfer if none is active
  let pick : Option (Ep × List Out) :=
    match e.txTmp with
    | some _ => some (e, [])
    | none =>
      match e.txPendStart with
      | [] => none
      | it :: rest =>
        some ({ e with txPendStart := rest, txTmp := some (it, 0) },
              [.sig "send_bundle_started" [.str (natStr it.tid), .nat it.data.length]])
  if e.txTmp.isNone && !e.inSess then (e, [], true)          -- waiting for session: source stays
  else if e.txTmp.isNone && e.inTerm then
    let (e1, o1) := flushPendStart e
    let (e2, o2) := checkSessTerm e1
    (e2, o1 ++ o2, false)
  else
  match pick with
  | none => (e, [], false)
  | some (e1, o1) =>
    match e1.txTmp with
    | none => (e1, o1, false)
    | some (it, sent) =>
      let seg := (it.data.drop sent).take e1.sendSegSize
      let sent' := sent + seg.length
      let isStart := sent == 0
      let isEnd := sent' == it.data.length
      let flags := (if isEnd then flagEnd else 0) + (if isStart then flagStart else 0)
      let ext := if isStart then transferExt e1.cfg true it.data.length
                 else if e1.cfg.privExt then transferExt e1.cfg false 0 else []
      if !isStart && e1.cfg.privExt then
        -- send_xfer_data refuses extension items outside START: RuntimeError escapes the idle callback
        ({ e1 with txTmp := some (it, sent') }, o1 ++ [.escaped "RuntimeError"], false)
      else
      let e2 := sendMessage e1 (.xferSegment flags it.tid ext seg)
      if isEnd then
        let e3 := pqTrigger { e2 with txTmp := none, txPendAck := e2.txPendAck ++ [it.tid] }
        (e3, o1, false)
      else
        ({ e2 with txTmp := some (it, sent') }, o1, false)

/-- `send_buffer_decreased` heuristic -/
def sendBufferDecreased (e : Ep) : Ep :=
  if e.txBuf.length < 5 * e.sendSegSize then pqTrigger e else e

/-- one TX callback (`_avail_tx_notls` → `_tx_proxy`), socket accepting at most `n` octets -/
def pump (e : Ep) (n : Nat) : Res :=
  let pulls := e.connBuf.length < chunkSize
  let data0 := if pulls then e.txBuf.take chunkSize else []
  let upEmpty := pulls && data0.isEmpty
  let e1 :=
    if pulls then
      sendBufferDecreased { e with txBuf := e.txBuf.drop data0.length, connBuf := e.connBuf ++ data0 }
    else e
  if e1.connBuf.isEmpty then
    -- nothing to write; `cont` is false exactly when nothing was pulled either
    if upEmpty then checkSessTerm e1 else (e1, [])
  else
    let data := e1.connBuf.take chunkSize
    let k := min n data.length
    if k == 0 then doClose e1
    else
      let e2 := { e1 with connBuf := e1.connBuf.drop k, accepted := e1.accepted ++ data.take k }
      if upEmpty && e2.connBuf.isEmpty then
        let (e3, o3) := checkSessTerm e2
        (e3, [.wire (data.take k)] ++ o3)
      else (e2, [.wire (data.take k)])

/- ------------------------------------------------------------------ receiving -/

def sendReject (e : Ep) (reason : Nat) (m : Msg) : Ep := sendMessage e (.msgReject m.type reason)

def rejUnexpected : Nat := 3
def rejUnknown : Nat := 1

/-- `merge_session_params` without TLS -/
def mergeSession (e : Ep) (p : PeerInit) : Ep :=
  let ka := min e.cfg.keepalive p.keepalive
  idleReset (kaReset { e with kaTime := ka, idleTime := e.cfg.idle, sendSegSize := min e.cfg.segInit p.segMru })

def rxMapSet (m : List (Nat × Bytes)) (tid : Nat) (d : Bytes) : List (Nat × Bytes) :=
  if m.any (·.1 == tid) then m.map (fun kv => if kv.1 == tid then (tid, d) else kv) else m ++ [(tid, d)]

/-- `recv_message` for one decoded message (contact header included) -/
def handleMsg (e : Ep) (m : Msg) : Res :=
  let e := { e with processed := e.processed ++ [m] }
  match m with
  | .contact _ =>
    let e1 := if e.cfg.passive then sendContact e else e
    let (e2, o2) := setState e1 "session-negotiating"
    -- TLS disabled on this side: never attempted; require_tls = None
    let e3 := if !e.cfg.passive then sendInit e2 else e2
    (e3, o2)
  | .sessInit ka sm xm node _ =>
    let e1 := if e.cfg.passive then sendInit e else e
    let p : PeerInit := ⟨ka, sm, xm, node⟩
    let e2 := mergeSession { e1 with peerInit := some p, inSess := true } p
    setState e2 "established"
  | .sessTerm _ reason =>
    if !e.inSess then (sendReject e rejUnexpected m, [])
    else
      let (e1, o1) := if !e.inTerm then sendSessTerm e reason true else (e, [])
      let (e2, o2) := flushPendStart { e1 with gotTerm := true }
      let (e3, o3) := checkSessTerm e2
      (e3, o1 ++ o2 ++ o3)
  | .keepalive => (e, [])
  | .msgReject _ _ => (e, [])
  | .xferSegment flags tid _ data =>
    if !e.inSess then (sendReject e rejUnexpected m, [])
    else
      let started : Option (Ep × List Out) :=
        if hasStart flags then
          some ({ e with rxTmp := some (tid, []) },
                [.sig "recv_bundle_started" [.str (natStr tid), .str ""]])
        else match e.rxTmp with
          | some (t, _) => if t == tid then some (e, []) else none
          | none => none
      match started with
      | none => (sendReject e rejUnexpected m, [])
      | some (e1, o1) =>
        let cur := match e1.rxTmp with | some (_, d) => d | none => []
        let d' := cur ++ data
        if hasEnd flags then
          let e2 := sendMessage e1 (.xferAck flags tid d'.length)
          let e3 := { e2 with rxTmp := none, rxMap := rxMapSet e2.rxMap tid d', rxLog := e2.rxLog ++ [(tid, d')] }
          let (e4, o4) := checkSessTerm e3
          (e4, o1 ++ [.sig "recv_bundle_finished" [.str (natStr tid), .nat d'.length, .str "success"]] ++ o4)
        else
          let e2 := sendMessage { e1 with rxTmp := some (tid, d') } (.xferAck flags tid d'.length)
          (e2, o1 ++ [.sig "recv_bundle_intermediate" [.str (natStr tid), .nat d'.length]])
  | .xferAck flags tid len =>
    if !e.inSess then (sendReject e rejUnexpected m, [])
    else if !e.txMap.contains tid then (sendReject e rejUnexpected m, [])
    else if hasEnd flags then
      if !e.txPendAck.contains tid then (sendReject e rejUnexpected m, [])
      else
        let e1 := { e with txPendAck := e.txPendAck.erase tid, txMap := e.txMap.erase tid,
                           successLog := e.successLog ++ [tid] }
        let (e2, o2) := checkSessTerm e1
        (e2, [.sig "send_bundle_finished" [.str (natStr tid), .nat len, .str "success"]] ++ o2)
    else
      ({ e with ackLen := (tid, len) :: e.ackLen.filter (·.1 != tid) },
       [.sig "send_bundle_intermediate" [.str (natStr tid), .nat len]])
  | .xferRefuse reason tid =>
    if !e.inSess then (sendReject e rejUnexpected m, [])
    else if !e.txMap.contains tid then (sendReject e rejUnexpected m, [])
    else
      let o1 := [Out.sig "send_bundle_finished"
        [.str (natStr tid), .nat ((e.ackLen.find? (·.1 == tid)).map (·.2) |>.getD 0),
         .str ("refused with code " ++ natStr reason)]]
      let e1 := { e with txMap := e.txMap.erase tid, txPendAck := e.txPendAck.erase tid,
                         txPendStart := e.txPendStart.filter (·.tid != tid) }
      let e2 := match e1.txTmp with
        | some (it, _) => if it.tid == tid then pqTrigger { e1 with txTmp := none } else e1
        | none => e1
      let (e3, o3) := checkSessTerm e2
      (e3, o1 ++ o3)

def handleMsgs : Ep → List Msg → Res
  | e, [] => (e, [])
  | e, m :: ms =>
    if e.closed then (e, []) else
    let (e1, o1) := handleMsg e m
    let (e2, o2) := handleMsgs e1 ms
    (e2, o1 ++ o2)

/-- `recv_raw(chunk)` -/
def recvRaw (e : Ep) (chunk : Bytes) : Res :=
  let e0 := idleReset e
  let (rx', ms) := feed e0.rx chunk
  let (e1, o1) := handleMsgs { e0 with rx := rx' } ms
  if rx'.dead then
    let (e2, o2) := doClose e1
    (e2, o1 ++ o2)
  else (e1, o1)

/- ------------------------------------------------------------------ step -/

def strsOf (l : List Nat) : Val := .strs (l.map natStr)

def queryVal (e : Ep) (q : Query) : Val :=
  match q with
  | .state => .str e.state
  | .idle => .bool (isSessIdle e)
  | .txQueue => strsOf e.txMap
  | .rxQueue => strsOf (e.rxMap.map (·.1))

def popRx (e : Ep) (tid : Nat) : Res :=
  match e.rxMap.find? (·.1 == tid) with
  | some (_, d) => ({ e with rxMap := e.rxMap.filter (·.1 != tid) }, [.ret (.bytes d)])
  | none => (e, [.raised "KeyError"])

def step (e : Ep) (ev : Ev) : Res :=
  match ev with
  | .advance ms => ({ e with now := e.now + ms }, [])
  | _ =>
  if e.closed then
    match ev with
    | .query q => (e, [.ret (queryVal e q)])
    | .pop tid => popRx e tid
    | .procQueue => ({ e with pqSources := e.pqSources - 1, pqPend := false }, [])
    | _ => (e, [])
  else
  match ev with
  | .advance _ => (e, [])
  | .start =>
    if e.started then (e, []) else
    let e1 := { e with started := true }
    let e2 := if !e1.cfg.passive then sendContact e1 else e1
    setState e2 "contact-negotiating"
  | .send data =>
    let it : TxItem := ⟨e.txNextId, data⟩
    let e1 := pqTrigger { e with txNextId := e.txNextId + 1, txPendStart := e.txPendStart ++ [it],
                                 txMap := e.txMap ++ [it.tid], sendLog := e.sendLog ++ [it] }
    (e1, [.ret (.str (natStr it.tid))])
  | .terminate reason => sendSessTerm e reason false
  | .close => doClose e
  | .pop tid => popRx e tid
  | .query q => (e, [.ret (queryVal e q)])
  | .procQueue =>
    if e.pqSources == 0 then (e, []) else
    let (e1, o1, stays) := processQueue { e with pqPend := false }
    ({ e1 with pqSources := if stays then e1.pqSources else e1.pqSources - 1 }, o1)
  | .pump n => pump e n
  | .rx chunk => recvRaw e chunk
  | .rxEof => doClose e
  | .keepaliveTimer =>
    match e.kaDeadline with
    | none => (e, [])
    | some _ => (sendMessage { e with kaDeadline := none } .keepalive, [])
  | .idleTimer =>
    match e.idleDeadline with
    | none => (e, [])
    | some _ =>
      let e1 := { e with idleDeadline := none }
      if e1.inTerm then doClose e1
      else
        let (e2, o2) := sendSessTerm e1 1 false
        (e2, o2)

def run : Ep → List Ev → Ep × List (List Out)
  | e, [] => (e, [])
  | e, ev :: evs =>
    let (e1, o1) := step e ev
    let (e2, os) := run e1 evs
    (e2, o1 :: os)

def runEp (e : Ep) (evs : List Ev) : Ep := (run e evs).1

end Tcpcl
end DtnVerif
