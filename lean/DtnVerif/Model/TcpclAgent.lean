/-
  tcpcl/agent.py `Agent` as far as termination is concerned: the list of contact handlers, the
  shutdown flag, `stop_on_close`, and the three ways a contact leaves the list (it closes itself,
  `shutdown()`, `stop()`). A contact is abstracted to what the agent can observe of it.
  Import-free, executable.
-/
namespace DtnVerif
namespace TcpclAgent

structure Contact where
  id : Nat
  /-- session established (`_in_sess`) -/
  inSess : Bool := false
  /-- SESS_TERM sent (`_in_term`) -/
  inTerm : Bool := false
  deriving Repr, DecidableEq, Inhabited

inductive AOut where
  /-- `connection_closed` signal: the contact was closed and unbound -/
  | closed (id : Nat)
  /-- `terminate()` accepted by the contact: its SESS_TERM is queued -/
  | sessTerm (id : Nat)
  /-- the `on_stop` callback ran -/
  | stopped
  | ret (b : Bool)
  deriving Repr, DecidableEq, Inhabited

structure Agent where
  handlers : List Contact := []
  inShutdown : Bool := false
  stopOnClose : Bool := false
  deriving Repr, DecidableEq, Inhabited

/-- `_unbind_handler` (run by the contact's on-close callback). When it empties the list while
    shutting down (or with `stop_on_close`) it calls `stop()`, which then has nothing to close. -/
def unbind (a : Agent) (id : Nat) : Agent × List AOut :=
  let a' := { a with handlers := a.handlers.filter (·.id != id) }
  if a'.handlers.isEmpty && (a.inShutdown || a.stopOnClose) then (a', [.closed id, .stopped])
  else (a', [.closed id])

/-- a contact closes (peer disconnect, graceful end, user close): nothing happens for an unknown id -/
def contactClosed (a : Agent) (id : Nat) : Agent × List AOut :=
  if a.handlers.any (·.id == id) then unbind a id else (a, [])

def closeAll : Agent → List Nat → Agent × List AOut
  | a, [] => (a, [])
  | a, id :: ids =>
    let r1 := contactClosed a id
    let r2 := closeAll r1.1 ids
    (r2.1, r1.2 ++ r2.2)

/-- `Agent.stop`: close every contact (over a copy of the list), then `on_stop` -/
def stop (a : Agent) : Agent × List AOut :=
  let r := closeAll a (a.handlers.map (·.id))
  (r.1, r.2 ++ [.stopped])

/-- one iteration of the loop in `shutdown()` for the contact `c` of the snapshot -/
def shutdownOne (a : Agent) (c : Contact) : Agent × List AOut :=
  match a.handlers.find? (·.id == c.id) with
  | none => (a, [])           -- closed meanwhile: terminate() on a closed contact raises 'not in session' … and close() does nothing
  | some cur =>
    if cur.inSess && !cur.inTerm then
      ({ a with handlers := a.handlers.map fun x => if x.id == c.id then { x with inTerm := true } else x },
       [.sessTerm c.id])
    else if cur.inTerm then (a, [])      -- already terminating: skipped
    else contactClosed a c.id            -- no session yet: closed

def shutdownLoop : Agent → List Contact → Agent × List AOut
  | a, [] => (a, [])
  | a, c :: cs =>
    let r1 := shutdownOne a c
    let r2 := shutdownLoop r1.1 cs
    (r2.1, r1.2 ++ r2.2)

/-- `Agent.shutdown` -/
def shutdown (a : Agent) : Agent × List AOut :=
  let a1 := { a with inShutdown := true }
  if a1.handlers.isEmpty then
    let r := stop a1
    (r.1, r.2 ++ [.ret true])
  else
    let r := shutdownLoop a1 a1.handlers
    (r.1, r.2 ++ [.ret r.1.handlers.isEmpty])

inductive Op where
  | bind (id : Nat)
  | establish (id : Nat)
  /-- the contact starts terminating on its own (user terminate on it, or a peer's SESS_TERM answered) -/
  | contactTerm (id : Nat)
  | contactClosed (id : Nat)
  | shutdown
  | stop
  deriving Repr, DecidableEq, Inhabited

def step (a : Agent) : Op → Agent × List AOut
  | .bind id => if a.handlers.any (·.id == id) then (a, []) else ({ a with handlers := a.handlers ++ [{ id := id }] }, [])
  | .establish id =>
    ({ a with handlers := a.handlers.map fun x => if x.id == id then { x with inSess := true } else x }, [])
  | .contactTerm id =>
    ({ a with handlers := a.handlers.map fun x => if x.id == id && x.inSess then { x with inTerm := true } else x }, [])
  | .contactClosed id => contactClosed a id
  | .shutdown => shutdown a
  | .stop => stop a

def run : Agent → List Op → Agent × List (List AOut)
  | a, [] => (a, [])
  | a, op :: ops =>
    let r := step a op
    let r2 := run r.1 ops
    (r2.1, r.2 :: r2.2)

end TcpclAgent
end DtnVerif
