/-
  Two TCPCL endpoints joined by two reliable, ordered octet pipes (the TCP connection).
  A schedule is any list of events: local events of either endpoint (user calls, idle sources, TX
  pump with arbitrary partial writes, timers), delivery of any non-empty prefix of what is in flight
  (arbitrary chunking and delay), and end-of-stream once the peer has closed and the pipe is empty.
-/
import DtnVerif.Model.TcpclEp
namespace DtnVerif
namespace Tcpcl

structure Sys where
  a : Ep
  b : Ep
  /-- octets written by A and not yet read by B -/
  toB : Bytes := []
  toA : Bytes := []
  deriving Repr, DecidableEq, Inhabited

inductive SysEv where
  | atA (ev : Ev)
  | atB (ev : Ev)
  | deliverA (k : Nat)
  | deliverB (k : Nat)
  | eofA
  | eofB
  deriving Repr, DecidableEq, Inhabited

/-- events an endpoint performs on its own (everything except socket reads) -/
def Ev.isLocal : Ev → Bool
  | .rx _ => false
  | .rxEof => false
  | _ => true

/-- octets newly written to the socket between two states of an endpoint -/
def newWire (e e' : Ep) : Bytes := e'.accepted.drop e.accepted.length

def sysStep (s : Sys) : SysEv → Sys
  | .atA ev =>
    if ev.isLocal then
      let a' := (step s.a ev).1
      { s with a := a', toB := s.toB ++ newWire s.a a' }
    else s
  | .atB ev =>
    if ev.isLocal then
      let b' := (step s.b ev).1
      { s with b := b', toA := s.toA ++ newWire s.b b' }
    else s
  | .deliverB k =>
    if s.b.closed || (s.toB.take k).isEmpty then s
    else
      let b' := (step s.b (.rx (s.toB.take k))).1
      { s with b := b', toB := s.toB.drop k, toA := s.toA ++ newWire s.b b' }
  | .deliverA k =>
    if s.a.closed || (s.toA.take k).isEmpty then s
    else
      let a' := (step s.a (.rx (s.toA.take k))).1
      { s with a := a', toA := s.toA.drop k, toB := s.toB ++ newWire s.a a' }
  | .eofB =>
    if s.a.closed && s.toB.isEmpty then { s with b := (step s.b .rxEof).1 } else s
  | .eofA =>
    if s.b.closed && s.toA.isEmpty then { s with a := (step s.a .rxEof).1 } else s

def runSys (s : Sys) (sch : List SysEv) : Sys := sch.foldl sysStep s

/-- both endpoints right after `start()`: A active, B passive -/
def initSys (cfgA cfgB : Cfg) : Sys :=
  { a := (step { cfg := cfgA } .start).1, b := (step { cfg := cfgB } .start).1 }

end Tcpcl
end DtnVerif
