/-
  Fragment creation (bp/app/fragment.py `Fragment._create`) and the part of
  `Agent.send_bundle` (bp/agent.py) it runs in, including the re-entry of every fragment
  through `send_bundle`. Written to mirror the code that exists, quirks included:

  * (after the fixes 9a18e3b / d1f6768) `_create` leaves the container untouched; every fragment
    template gets its payload block emptied (`remove_payload(); btsd = b''`) before it is measured,
    so a scapy payload layer on the original's payload block (every block decoded from the wire has a
    `Raw` layer, admin records an `AdminRecord` layer) no longer matters;
  * when fragmentation is impossible (`pre-check` or `frag_size <= 0`) route and sender are cleared
    before raising: the chain runner swallows the exception, `send_bundle` finds no sender and raises
    — nothing is transmitted (`escaped = true`). A KeyError/TypeError (no block number 1, no payload
    data) is raised without that: the untouched original is transmitted;
  * after a successful fragmentation `_create` clears route and sender and returns True; the chain
    was interrupted, so `send_bundle` returns silently (`escaped = false`).

  Not representable with Model/Bundle.lean and therefore outside this model: `source`/`report_to`
  = None (Eid is not optional), block numbers = None (numbering is unchanged by `fix_block_num`
  for numbered blocks), CRC types other than 0/1/2 (a KeyError escapes somewhere and nothing
  reaches the CL: `escaped`). CRC values are a parameter (`crcFn`).
  Import-free (shared models only), executable.
-/
import DtnVerif.Model.Bundle
namespace DtnVerif
namespace Frag
open Bp Cbor

/-- A canonical block with the build of its scapy payload layer, if it has one.
    Assumption on inputs: when both are present the layer builds to the `btsd` value (true for
    dissected blocks and for admin records after `_update_from_admin`). -/
structure Blk where
  c : Canonical
  layer : Option Bytes := none
  deriving Repr, DecidableEq, Inhabited

/-- `CanonicalBlock.ensure_block_type_specific_data` -/
def Blk.ensure (x : Blk) : Blk :=
  match x.c.btsd, x.layer with
  | none, some d => { x with c := { x.c with btsd := some d } }
  | _, _ => x

structure FBundle where
  primary : Primary
  blocks : List Blk
  deriving Repr, DecidableEq, Inhabited

/-- what `self_build` encodes: every block after `ensure_block_type_specific_data` -/
def FBundle.toBundle (b : FBundle) : Bundle := ⟨b.primary, b.blocks.map (fun x => x.ensure.c)⟩
def FBundle.enc (b : FBundle) : Bytes := b.toBundle.enc
/-- `len(ctr.bundle)` -/
def FBundle.size (b : FBundle) : Nat := b.enc.length

/-- `bundle_flags & NO_FRAGMENT` (0x4) -/
def noFragment (f : Nat) : Bool := f / 4 % 2 == 1
/-- `bundle_flags |= IS_FRAGMENT` (0x1) -/
def setFragFlag (f : Nat) : Nat := if isFragment f then f else f + 1
/-- `bundle_flags &= ~IS_FRAGMENT` -/
def clearFragFlag (f : Nat) : Nat := if isFragment f then f - 1 else f
/-- `block_flags & REPLICATE_IN_FRAGMENT` (0x01) -/
def replicate (f : Nat) : Bool := f % 2 == 1

def zeros (n : Nat) : Bytes := List.replicate n 0

/-- `AbstractBlock.fill_fields` on the CRC value: `if crc_type and not crc_value: zero-fill` -/
def fillCrc (t : Nat) (crc : Option Bytes) : Option Bytes :=
  if t == 0 then crc
  else match crc with
    | none => some (zeros (crcWidth t))
    | some [] => some (zeros (crcWidth t))
    | some v => some v

def fillPrimary (p : Primary) : Primary := { p with crc := fillCrc p.crcType p.crc }
def fillBlk (x : Blk) : Blk :=
  let y := x.ensure
  { y with c := { y.c with crc := fillCrc y.c.crcType y.c.crc } }

/-- `ctr.reload()` (ensure data) + `Bundle.fill_fields()` -/
def fillFields (b : FBundle) : FBundle := ⟨fillPrimary b.primary, b.blocks.map fillBlk⟩

/-- `AbstractBlock.update_crc()`; `crcFn t pre` = the encoded CRC value of type `t` over the
    block encoded with a zero CRC value. -/
def updPrimary (crcFn : Nat → Bytes → Bytes) (p : Primary) : Primary :=
  if p.crcType == 0 then { p with crc := none }
  else
    let z : Primary := { p with crc := some (zeros (crcWidth p.crcType)) }
    { p with crc := some (crcFn p.crcType z.enc) }

def updCanon (crcFn : Nat → Bytes → Bytes) (c : Canonical) : Canonical :=
  if c.crcType == 0 then { c with crc := none }
  else
    let z : Canonical := { c with crc := some (zeros (crcWidth c.crcType)) }
    { c with crc := some (crcFn c.crcType z.enc) }

def updBlk (crcFn : Nat → Bytes → Bytes) (x : Blk) : Blk :=
  let y := x.ensure
  { y with c := updCanon crcFn y.c }

def updateCrcs (crcFn : Nat → Bytes → Bytes) (b : FBundle) : FBundle :=
  ⟨updPrimary crcFn b.primary, b.blocks.map (updBlk crcFn)⟩

/-- `Agent._apply_primary` on the representable fields. -/
def applyPrimary (now : Timestamp) (p : Primary) : Primary :=
  { p with ts := if p.ts.time == 0 then now else p.ts,
           lifetime := if p.lifetime == 0 then 3600000 else p.lifetime }

/-- `if as_source: self._apply_primary(ctr)` — `none` = `as_source=False` (a forwarded bundle, or a
    fragment re-entering `send_bundle`: the primary block is sent as it is, fix eb817bd) -/
def applyOpt (now : Option Timestamp) (p : Primary) : Primary :=
  match now with
  | some t => applyPrimary t p
  | none => p

/-- `ctr.block_num(1)` -/
def payloadBlk (bs : List Blk) : Option Blk := bs.find? (fun x => x.c.blockNum == 1)

/-- set / delete the `btsd` field of block number 1 -/
def setBtsd (v : Option Bytes) (bs : List Blk) : List Blk :=
  bs.map (fun x => if x.c.blockNum == 1 then { x with c := { x.c with btsd := v } } else x)

def FBundle.payload (b : FBundle) : Option Bytes := (payloadBlk b.blocks).bind (fun x => x.c.btsd)

/-- blocks copied into the fragment at offset `off` -/
def selectBlocks (off : Nat) (bs : List Blk) : List Blk :=
  bs.filter (fun x => off == 0 || replicate x.c.flags || x.c.blockNum == 1)

def fragPrimary (p : Primary) (off total : Nat) : Primary :=
  { p with flags := setFragFlag p.flags, fragOff := off, totalLen := total }

/-- `fpyld_blk.remove_payload(); fpyld_blk.setfieldval('btsd', b'')` on block number 1 -/
def clearPayload (bs : List Blk) : List Blk :=
  bs.map (fun x => if x.c.blockNum == 1 then { c := { x.c with btsd := some [] }, layer := none } else x)

/-- the fragment container before its payload is set: copies, `reload()`, payload block emptied,
    `fill_fields()` -/
def emptyFrag (p : Primary) (bs : List Blk) (off total : Nat) : FBundle :=
  fillFields ⟨fragPrimary p off total, clearPayload (selectBlocks off bs)⟩

/-- The `while frag_offset < len(payload_data)` loop. Result: fragments already handed to
    `idle_add`, and whether the loop ended by raising. `fuel` = payload length suffices because
    every iteration advances by `frag_size > 0`. -/
def createLoop (mtu pe : Nat) (pdata : Bytes) (p : Primary) (bs : List Blk) :
    Nat → Nat → List FBundle × Bool
  | 0, _ => ([], false)
  | fuel + 1, off =>
    if off < pdata.length then
      let e := emptyFrag p bs off pdata.length
      let over := e.size - 1 + pe
      if mtu ≤ over then ([], true)            -- frag_size <= 0 ⇒ RuntimeError
      else
        let fsz := mtu - over
        let f : FBundle := { e with blocks := setBtsd (some ((pdata.drop off).take fsz)) e.blocks }
        let r := createLoop mtu pe pdata p bs fuel (off + fsz)
        (f :: r.1, r.2)
    else ([], false)

inductive CreateRes where
  /-- returned None: no fragmentation -/
  | skip
  /-- returned True: fragments scheduled, route and sender cleared -/
  | frags (fs : List FBundle)
  /-- raised: fragments scheduled so far; `cleared` = route and sender were cleared before raising.
      The container itself is never modified. -/
  | raised (fs : List FBundle) (cleared : Bool)
  deriving Repr, DecidableEq

/-- `Fragment._create` on a container that has a route with the given `mtu` (None allowed). -/
def create (mtu : Option Nat) (b : FBundle) : CreateRes :=
  match mtu with
  | none => .skip
  | some m =>
    if !(decide (m < b.size)) || noFragment b.primary.flags || isFragment b.primary.flags then .skip
    else match payloadBlk b.blocks with
      | none => .raised [] false                           -- KeyError from block_num(1)
      | some pb =>
        match pb.c.btsd with
        | none => .raised [] false                         -- len(None): TypeError
        | some pdata =>
          let pe := headLen pdata.length
          if m < b.size - pdata.length + 3 * pe then .raised [] true
          else
            let r := createLoop m pe pdata b.primary b.blocks pdata.length 0
            if r.2 then .raised r.1 true else .frags r.1

structure Cfg where
  /-- encoded CRC value for (type, block encoded with zero CRC) -/
  crcFn : Nat → Bytes → Bytes
  /-- the BPSec transmit steps (orders 10, 11) as one function on the reloaded container -/
  secStep : FBundle → FBundle
  /-- the request: `some t` = `send_bundle(ctr)` as source, `Timestamper()` would return `t`;
      `none` = `send_bundle(ctr, as_source=False)` (forwarding) -/
  now : Option Timestamp
  /-- static routing finds a route with a bound CL for the fragments -/
  reroute : Bool

/-- `reload()` raises on duplicate block numbers (number 0 is taken by the scapy payload slot) -/
def numsOk (b : FBundle) : Bool := decide ((0 :: b.blocks.map (fun x => x.c.blockNum)).Nodup)
def crcTypesOk (b : FBundle) : Bool :=
  decide (b.primary.crcType ≤ 2) && b.blocks.all (fun x => decide (x.c.crcType ≤ 2))

/-- final `fix_block_num(); fill_fields(); update_all_crc(); bytes(bundle)` -/
def finalize (cfg : Cfg) (b : FBundle) : Bytes := (updateCrcs cfg.crcFn (fillFields b)).enc

structure SendRes where
  /-- an exception left `send_bundle` -/
  escaped : Bool
  /-- octets handed to `ctr.sender` by this call -/
  direct : Option Bytes
  /-- containers handed to `glib.idle_add(self._agent.send_bundle, ·)` -/
  scheduled : List FBundle
  deriving Repr, DecidableEq

/-- `Agent.send_bundle` for a container that has a route (MTU `mtu`) and a sender. -/
def sendBundle (cfg : Cfg) (now : Option Timestamp) (mtu : Option Nat) (b : FBundle) : SendRes :=
  if !numsOk b || !crcTypesOk b then ⟨true, none, []⟩
  else
    let b1 := fillFields { b with primary := applyOpt now b.primary }
    let b2 := cfg.secStep b1
    match create mtu b2 with
    | .skip => ⟨false, some (finalize cfg b2), []⟩
    | .frags fs => ⟨false, none, fs⟩                       -- chain interrupted: returns silently
    | .raised fs true => ⟨true, none, fs⟩                  -- no sender: RuntimeError, nothing sent
    | .raised fs false => ⟨false, some (finalize cfg b2), fs⟩

/-- the idle callback `send_bundle(fctr, False)`: routed by the table (the MTU found is immaterial for
    a bundle that already is a fragment, it is passed for completeness) -/
def resend (cfg : Cfg) (mtu : Option Nat) (f : FBundle) : List Bytes :=
  if cfg.reroute then (sendBundle cfg none mtu f).direct.toList else []

/-- Every byte string handed to the CL for one send request, in order. -/
def clOutputs (cfg : Cfg) (mtu : Option Nat) (b : FBundle) : List Bytes :=
  let r := sendBundle cfg cfg.now mtu b
  r.direct.toList ++ r.scheduled.flatMap (resend cfg mtu)

/-! ### a CL sender that raises

  `ctr.sender(data)` is the last statement of `send_bundle`: the octets have been handed over when it
  raises. The fragments are separate idle callbacks (`glib.idle_add(send_bundle, fctr, False)`), so a
  sender that raises on one hand-over makes that one callback escape (GLib logs it and drops the
  source) and nothing else: the other fragments are still created and handed over, and the original is
  never handed to the CL. `fail i` = the sender raises on the i-th hand-over (0-based) of the request. -/

structure FailRes where
  /-- every byte string handed to the CL, in order (a hand-over that raises counts: the CL got it) -/
  handed : List Bytes
  /-- an exception left the original `send_bundle` call -/
  escaped : Bool
  /-- indices (in hand-over order) of the idle callbacks that ended by an escaped exception -/
  idleEscapes : List Nat
  deriving Repr, DecidableEq

/-- the idle callbacks, one after the other; `i` = hand-overs so far -/
def runIdle (cfg : Cfg) (mtu : Option Nat) (fail : Nat → Bool) : Nat → List FBundle → List Bytes × List Nat
  | _, [] => ([], [])
  | i, f :: fs =>
    let outs := resend cfg mtu f
    let r := runIdle cfg mtu fail (i + outs.length) fs
    (outs ++ r.1, (if outs.length == 1 && fail i then [i] else []) ++ r.2)

/-- one send request with a sender that raises on the hand-overs selected by `fail` -/
def sendFailing (cfg : Cfg) (fail : Nat → Bool) (mtu : Option Nat) (b : FBundle) : FailRes :=
  let r := sendBundle cfg cfg.now mtu b
  let idle := runIdle cfg mtu fail r.direct.toList.length r.scheduled
  { handed := r.direct.toList ++ idle.1,
    escaped := r.escaped || (r.direct.isSome && fail 0),
    idleEscapes := idle.2 }

end Frag
end DtnVerif
