/-
  `bp.agent.Agent`: receive path (`recv_bundle`), forwarding (`_do_fwd`), `_apply_primary`,
  `send_bundle`, `_finish_bundle`, `Timestamper`. Import-free apart from Facts, executable.
  Parameters (supplied by the harness per bundle / per send): CRC check result and CRC values,
  regular-expression match bits of every route, outcomes of the fragment-reassembly, BPSec and
  administrative-handling steps, outcome of the fragment-creation TX step.
-/
import DtnVerif.Model.Report
import DtnVerif.Generated.Facts
namespace DtnVerif
namespace Agent
open Bp Cbor

/-! ### identities -/

/-- `bundle_ident()`: (source, time, seqno) and, for fragments only, (offset, length of the BTSD
    of the block numbered 1 — `None` when there is no such block or no BTSD). -/
structure Ident where
  src : Eid
  time : Nat
  seq : Nat
  frag : Option (Nat × Option Nat)
  deriving DecidableEq, Repr, Inhabited

/-- `len(pyld_blk.getfieldval('btsd'))` of `_block_num.get(1)` -/
def pyldLen (blocks : List Blk) : Option Nat :=
  (blocks.find? (fun b => b.num == 1)).bind (fun b => b.c.btsd.map List.length)

def identOf (p : Primary) (blocks : List Blk) : Ident :=
  { src := p.src, time := p.ts.time, seq := p.ts.seq,
    frag := if isFragment p.flags then some (p.fragOff, pyldLen blocks) else none }

def Ctr.ident (c : Ctr) : Ident := identOf c.primary c.blocks

/-! ### receive chain from Facts -/

inductive StepKind where
  | adminRoute | static | reasm | bcb | bib | adminHandle | unknown
  deriving DecidableEq, Repr

def kindOf (method : String) : StepKind :=
  if method == "_rx_route" then .adminRoute
  else if method == "_do_rx_step" then .static
  else if method == "_reassemble" then .reasm
  else if method == "_verify_bcb" then .bcb
  else if method == "_verify_bib" then .bib
  else if method == "_recv_bundle" then .adminHandle
  else .unknown

/-- stable insertion (what `list.sort()` with `ChainStep.__lt__` on `order` gives) -/
def insertStep (x : Int × StepKind) : List (Int × StepKind) → List (Int × StepKind)
  | [] => [x]
  | y :: ys => if x.1 < y.1 then x :: y :: ys else y :: insertStep x ys

def sortSteps (l : List (Int × StepKind)) : List (Int × StepKind) :=
  l.foldl (fun acc x => insertStep x acc) []

/-- The receive chain of the source as it stands: the `rx_chain` entries of
    `Facts.chainSteps`, sorted by order. -/
def rxChain : List StepKind :=
  (sortSteps ((Facts.chainSteps.filter (fun s => s.1 == "rx_chain")).map
    (fun s => (s.2.1, kindOf s.2.2.2)))).map (·.2)

/-! ### configuration, inputs, state -/

structure Cfg where
  nodeId : Eid
  /-- action named by each receive route, in table order -/
  rxRoutes : List Action
  deriving Repr

inductive SecOut where
  | pass
  | fail (reason : Nat)   -- a verify result is not None: drop 'deliver', record delete, stop
  | raises
  deriving DecidableEq, Repr, Inhabited

inductive AdmOut where
  | done      -- record handled, returns True
  | raises
  | delete    -- handler records 'delete', returns True
  deriving DecidableEq, Repr, Inhabited

/-- A bundle handed to `_cl_recv_bundle_finish`, with the parameters of its processing. -/
structure RxBundle where
  primary : Primary
  rptNone : Bool := false
  blocks : List Blk
  /-- `check_all_crc()` returned the empty set -/
  crcOk : Bool := true
  /-- `item.eid_pattern.match(destination) is not None`, one bit per receive route -/
  routeBits : List Bool := []
  reasmRaises : Bool := false
  bcb : SecOut := .pass
  bib : SecOut := .pass
  adm : AdmOut := .done
  deriving Repr, Inhabited

structure St where
  /-- `_seen_bundle_ident` -/
  seen : List Ident := []
  /-- `_fwd_queue` (one idle `_do_fwd` source is registered per entry) -/
  fwdQ : List Ctr := []
  /-- status reports waiting in an idle `send_bundle` source -/
  rptQ : List Ctr := []
  /-- `Timestamper._time`, `._seqno` -/
  tsTime : Option Nat := none
  tsSeq : Nat := 0
  deriving Repr, Inhabited

inductive Effect where
  | delivered (id : Ident)             -- the 'Delivered bundle' branch
  | queued (id : Ident)                -- accepted into the forwarding queue
  | report (id : Ident) (rep : StatusReport) (reply : Ctr)  -- a status report about `id` scheduled
  | tx (data : Bytes)                  -- octets handed to the convergence layer
  | fragmented                         -- the fragment-creation step consumed the bundle
  | escaped                            -- an exception left the callback
  deriving DecidableEq, Repr

/-! ### receive path -/

/-- static routing: the first route whose match bit is set -/
def firstMatch : List Action → List Bool → Option Action
  | a :: as, b :: bs => if b then some a else firstMatch as bs
  | _, _ => none

def secStep (c : Ctr) (now : Nat) (o : SecOut) : Ctr × Bool :=
  if !hasAct c.actions .deliver then (c, false)
  else match o with
    | .pass => (c, false)
    | .fail r => (({ c with actions := delAct c.actions .deliver }).record .delete now (some r), true)
    | .raises => (c, true)

/-- One chain step: new container and "stop the chain" (returned True or raised). -/
def runStep (cfg : Cfg) (rx : RxBundle) (now : Nat) (k : StepKind) (c : Ctr) : Ctr × Bool :=
  match k with
  | .adminRoute =>
    if c.primary.dest == cfg.nodeId then (c.record .deliver now, false) else (c, false)
  | .static =>
    if hasAct c.actions .deliver then (c, false)
    else match firstMatch cfg.rxRoutes rx.routeBits with
      | some a => (c.record a now, false)
      | none => (c, false)
  | .reasm =>
    if hasAct c.actions .deliver && isFragment c.primary.flags then
      (if rx.reasmRaises then (c, true) else ({ c with actions := [] }, true))
    else (c, false)
  | .bcb => secStep c now rx.bcb
  | .bib => secStep c now rx.bib
  | .adminHandle =>
    if hasAct c.actions .deliver && c.primary.dest == cfg.nodeId && !isFragment c.primary.flags then
      match rx.adm with
      | .done => (c, true)
      | .raises => (c, true)
      | .delete => (c.record .delete now, true)
    else (c, false)
  | .unknown => (c, false)

def runChain (cfg : Cfg) (rx : RxBundle) (now : Nat) : List StepKind → Ctr → Ctr
  | [], c => c
  | k :: ks, c =>
    let r := runStep cfg rx now k c
    if r.2 then r.1 else runChain cfg rx now ks r.1

/-- `_finish_bundle`: schedule the report, if any. -/
def finish (st : St) (c : Ctr) : St × List Effect :=
  match reportFor c with
  | some rep =>
    ({ st with rptQ := st.rptQ ++ [replyCtr c.primary.rpt rep] },
     [.report c.ident rep (replyCtr c.primary.rpt rep)])
  | none => (st, [])

/-- After the chain: delete ⇒ report and stop; deliver ⇒ report; forward ⇒ queue. -/
def dispose (st : St) (c : Ctr) : St × List Effect :=
  let id := c.ident
  if hasAct c.actions .delete then finish st c
  else
    let (st1, e1) := if hasAct c.actions .deliver then
        let (s, e) := finish st c
        (s, Effect.delivered id :: e)
      else (st, [])
    if hasAct c.actions .forward then
      ({ st1 with fwdQ := st1.fwdQ ++ [c] }, e1 ++ [.queued id])
    else (st1, e1)

/-- `recv_bundle` on a container built from the received octets. -/
def recvBundle (cfg : Cfg) (st : St) (now : Nat) (rx : RxBundle) : St × List Effect :=
  if !rx.crcOk then (st, [])
  else if rx.primary.src == cfg.nodeId then (st, [])
  else
    let id := identOf rx.primary rx.blocks
    if st.seen.contains id then (st, [])
    else
      let st1 := { st with seen := id :: st.seen }
      let c0 : Ctr := { primary := rx.primary, rptNone := rx.rptNone, blocks := rx.blocks }
      let c1 := runChain cfg rx now rxChain (c0.record .receive now)
      dispose st1 c1

/-- `_cl_recv_bundle_finish`: `BundleContainer(...)` raises on duplicate block numbers. -/
def clRecv (cfg : Cfg) (st : St) (now : Nat) (rx : RxBundle) : St × List Effect :=
  if !loadOk rx.blocks then (st, [.escaped]) else recvBundle cfg st now rx

/-! ### transmit path -/

/-- `Timestamper.__call__` -/
def timestamp (st : St) (now : Nat) : St × Timestamp :=
  if st.tsTime == some now then
    ({ st with tsSeq := st.tsSeq + 1 }, ⟨now, st.tsSeq + 1⟩)
  else ({ st with tsTime := some now, tsSeq := 0 }, ⟨now, 0⟩)

def anyReportFlags : Nat := flagReqDelete ||| flagReqDeliver ||| flagReqForward ||| flagReqReceive
def defaultLifetime : Nat := 3600000

/-- `if pri_blk.source is None: pri_blk.source = node_id` -/
def apSrc (cfg : Cfg) (c : Ctr) : Ctr :=
  if c.srcNone then { c with primary := { c.primary with src := cfg.nodeId }, srcNone := false } else c

/-- `if flags & any_report and report_to is None: report_to = node_id` -/
def apRpt (cfg : Cfg) (c : Ctr) : Ctr :=
  if hasFlag c.primary.flags anyReportFlags && c.rptNone then
    { c with primary := { c.primary with rpt := cfg.nodeId }, rptNone := false }
  else c

/-- creation time 0 ⇒ a NEW timestamp from the `Timestamper` -/
def apTs (st : St) (now : Nat) (c : Ctr) : St × Ctr :=
  if c.primary.ts.time == 0 then
    ((timestamp st now).1, { c with primary := { c.primary with ts := (timestamp st now).2 } })
  else (st, c)

/-- lifetime 0 ⇒ one hour -/
def apLife (c : Ctr) : Ctr :=
  if c.primary.lifetime == 0 then { c with primary := { c.primary with lifetime := defaultLifetime } }
  else c

/-- `_apply_primary` -/
def applyPrimary (cfg : Cfg) (st : St) (now : Nat) (c : Ctr) : St × Ctr :=
  let r := apTs st now (apRpt cfg (apSrc cfg c))
  (r.1, apLife r.2)

inductive FragOut where
  | none       -- not fragmented
  | consumed   -- fragments scheduled, `route = sender = None`, returns True
  | raises     -- step raised with the route kept; the chain breaks, the bundle leaves whole
  | unsendable -- cannot be fragmented: `route = sender = None`, then raises
  deriving DecidableEq, Repr, Inhabited

structure SendParams where
  /-- `item.eid_pattern.match(destination) is not None`, one bit per transmit route -/
  txBits : List Bool := []
  /-- `_cl_agent.get(route.cl_type)` is there -/
  clOk : Bool := true
  frag : FragOut := .none
  /-- CRC values (primary first, then blocks in order, only those with a CRC type) -/
  crcs : List Bytes := []
  deriving Repr, Inhabited

inductive SendRes where
  | sent (b : Bundle)
  | consumed      -- a chain step took over transmission (fragments): `send_bundle` returns
  | noSender      -- "TX chain completed with no sender" raised
  deriving Repr

/-- The TX chain and the sender lookup of `send_bundle`, then `update_all_crc` and encoding. -/
def sendRes (sp : SendParams) (c : Ctr) : SendRes :=
  if !sp.txBits.any id then .noSender
  else if sp.frag == .consumed then .consumed
  else if sp.frag == .unsendable then .noSender
  else if !sp.clOk then .noSender
  else .sent (c.wire sp.crcs)

/-- `send_bundle(ctr, as_source=False)`: a received bundle (or a fragment): the primary block is
    complete and is sent as it is — `_apply_primary` does not run. -/
def sendAsIs (_cfg : Cfg) (st : St) (_now : Nat) (sp : SendParams) (c : Ctr) : St × Ctr × SendRes :=
  (st, c, sendRes sp c)

/-- `send_bundle(ctr)` with `as_source=True` (locally built bundles, e.g. status reports):
    returns the mutated container too. -/
def sendBundle (cfg : Cfg) (st : St) (now : Nat) (sp : SendParams) (c : Ctr) : St × Ctr × SendRes :=
  let r := applyPrimary cfg st now c
  (r.1, r.2, sendRes sp r.2)

/-- BTSD of the age block: `max(0, now - create)` -/
def encAge (now create : Nat) : Bytes := encBundleAge (now - create)

/-- the `except` branch of `_do_fwd`: the forwarding chosen by routing did not happen -/
def fwdFail (st : St) (c : Ctr) (now : Nat) (extra : List Effect) : St × List Effect :=
  let f := finish st (({ c with actions := delAct c.actions .forward }).record .delete now (some reasonNoRoute))
  (f.1, extra ++ f.2)

/-- The hop-by-hop edits of `_do_fwd` up to `send_bundle`; the flag is false when an
    `add_block` raised (it never does, see `fwdEdit_ok`). -/
def fwdEdit (cfg : Cfg) (st : St) (now : Nat) (c0 : Ctr) : St × Ctr × Bool :=
  let c1 := c0.removeNums (c0.typeNums typePrevNode)
  match c1.addBlock typePrevNode (encPrevNode cfg.nodeId) with
  | none => (st, c1, false)
  | some r =>
    let c3 := { r.1 with blocks := r.1.blocks.map bumpHop }
    let c4 := c3.removeNums (c3.typeNums typeAge)
    if c4.primary.ts.time == 0 then (st, c4, true)
    else
      let st2 := (timestamp st now).1
      match c4.addBlock typeAge (encAge now c4.primary.ts.time) with
      | none => (st2, c4, false)
      | some r2 => (st2, r2.1, true)

/-- `_do_fwd` fired from the idle loop. -/
def doFwd (cfg : Cfg) (st : St) (now : Nat) (sp : SendParams) : St × List Effect :=
  match st.fwdQ with
  | [] => (st, [])
  | c0 :: q =>
    let e := fwdEdit cfg { st with fwdQ := q } now c0
    if !e.2.2 then fwdFail e.1 e.2.1 now []
    else
      let s := sendAsIs cfg e.1 now sp e.2.1
      match s.2.2 with
      | .sent b =>
        let f := finish s.1 (s.2.1.record .forward now)
        (f.1, Effect.tx b.enc :: f.2)
      | .consumed =>
        let f := finish s.1 (s.2.1.record .forward now)
        (f.1, Effect.fragmented :: f.2)
      | .noSender => fwdFail s.1 s.2.1 now []

/-- the idle `send_bundle(status)` source -/
def sendReport (cfg : Cfg) (st : St) (now : Nat) (sp : SendParams) : St × List Effect :=
  match st.rptQ with
  | [] => (st, [])
  | r :: q =>
    let s := sendBundle cfg { st with rptQ := q } now sp r
    match s.2.2 with
    | .sent b => (s.1, [.tx b.enc])
    | .consumed => (s.1, [.fragmented])
    | .noSender => (s.1, [.escaped])

/-! ### histories -/

inductive Ev where
  | recv (now : Nat) (rx : RxBundle)
  | fwd (now : Nat) (sp : SendParams)
  | sendRpt (now : Nat) (sp : SendParams)
  deriving Repr

def step (cfg : Cfg) (st : St) : Ev → St × List Effect
  | .recv now rx => clRecv cfg st now rx
  | .fwd now sp => doFwd cfg st now sp
  | .sendRpt now sp => sendReport cfg st now sp

def run (cfg : Cfg) (st : St) : List Ev → St × List Effect
  | [] => (st, [])
  | e :: es =>
    let r := step cfg st e
    let r' := run cfg r.1 es
    (r'.1, r.2 ++ r'.2)

end Agent
end DtnVerif
