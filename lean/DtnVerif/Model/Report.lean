/-
  `BundleContainer.create_report` (bp/util.py) and the status-report administrative record
  (bp/encoding/admin.py). Import-free, executable.
-/
import DtnVerif.Model.Container
namespace DtnVerif
namespace Agent
open Bp Cbor

/-- `PrimaryBlock.Flag` values used by the agent (pinned against Facts in Props). -/
def flagReqDelete : Nat := 0x040000
def flagReqDeliver : Nat := 0x020000
def flagReqForward : Nat := 0x010000
def flagReqReceive : Nat := 0x004000
def flagStatusTime : Nat := 0x40
def flagAdmin : Nat := 0x2
def reasonNoInfo : Nat := 0
def reasonNoRoute : Nat := 6
def crc32Type : Nat := 2

/-- `flags & bit` is truthy -/
def hasFlag (flags bit : Nat) : Bool := (flags &&& bit) != 0

/-- `FLAGS` of `create_report` -/
def actionFlag : Action → Option Nat
  | .delete => some flagReqDelete
  | .deliver => some flagReqDeliver
  | .forward => some flagReqForward
  | .receive => some flagReqReceive
  | .other _ => none

/-- One `StatusInfo`: `[false]`, `[true]` or `[true, time]`. -/
inductive StatusInfo where
  | no
  | yes (at_ : Option Nat)
  deriving DecidableEq, Repr, Inhabited

def StatusInfo.enc : StatusInfo → Bytes
  | .no => encArrHead 1 ++ [0xf4]
  | .yes none => encArrHead 1 ++ [0xf5]
  | .yes (some t) => encArrHead 2 ++ [0xf5] ++ encUint t

/-- The entry `create_report` leaves in the status array for one action. -/
def statusFor (c : Ctr) (a : Action) : StatusInfo :=
  match actTime c.actions a, actionFlag a with
  | some t, some f =>
    if hasFlag c.primary.flags f then
      .yes (if hasFlag c.primary.flags flagStatusTime then some t else none)
    else .no
  | _, _ => .no

/-- `any_status`: some recorded action has a FLAGS entry whose request bit is set. -/
def anyStatus (c : Ctr) : Bool :=
  c.actions.any (fun p => match actionFlag p.1 with
    | some f => hasFlag c.primary.flags f
    | none => false)

/-- `status_dest is None or status_dest == 'dtn:none'` -/
def rptDisabled (c : Ctr) : Bool := c.rptNone || c.primary.rpt == Eid.dtnNone

structure StatusReport where
  received : StatusInfo
  forwarded : StatusInfo
  delivered : StatusInfo
  deleted : StatusInfo
  reason : Nat
  subjSrc : Eid
  subjTs : Timestamp
  deriving DecidableEq, Repr, Inhabited

/-- `AdminRecord() / StatusReport(...)`: `[1, [[rcv, fwd, dlv, del], reason, source, ts]]`
    (the optional fragment fields are never set by `create_report`). -/
def StatusReport.enc (r : StatusReport) : Bytes :=
  encArrHead 2 ++ encUint 1 ++
    (encArrHead 4 ++
      (encArrHead 4 ++ r.received.enc ++ r.forwarded.enc ++ r.delivered.enc ++ r.deleted.enc)
      ++ encUint r.reason ++ r.subjSrc.enc ++ r.subjTs.enc)

def reportOf (c : Ctr) : StatusReport :=
  { received := statusFor c .receive, forwarded := statusFor c .forward,
    delivered := statusFor c .deliver, deleted := statusFor c .delete,
    reason := c.reason.getD reasonNoInfo,  -- `status_reason if status_reason else NO_INFO` (NO_INFO = 0)
    subjSrc := c.primary.src, subjTs := c.primary.ts }

/-- The reply container `create_report` builds around a report. -/
def replyCtr (dest : Eid) (r : StatusReport) : Ctr :=
  { primary := { version := 7, flags := flagAdmin, crcType := crc32Type, dest := dest,
                 src := .dtnNone, rpt := .dtnNone, ts := ⟨0, 0⟩, lifetime := 0 },
    srcNone := true, rptNone := true,
    blocks := [{ c := { typeCode := typePayload, blockNum := 1, flags := 0, crcType := crc32Type,
                        btsd := some r.enc, crc := none } }] }

/-- The status report `create_report()` decides to send, if any. -/
def reportFor (c : Ctr) : Option StatusReport :=
  if rptDisabled c then none
  else if !anyStatus c then none
  else some (reportOf c)

/-- `create_report()` -/
def createReport (c : Ctr) : Option Ctr := (reportFor c).map (replyCtr c.primary.rpt)

end Agent
end DtnVerif
