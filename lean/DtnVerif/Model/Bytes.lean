/-
  Byte-string foundations shared by all models. Import-free, executable.
-/
namespace DtnVerif

abbrev Bytes := List UInt8

/-- Big-endian encoding of `n` in exactly `k` octets (high octets truncated, as `struct.pack` would
    reject them; callers guard `n < 256^k`). -/
def beBytes : Nat → Nat → Bytes
  | 0, _ => []
  | k+1, n => UInt8.ofNat (n / 256^k % 256) :: beBytes k (n % 256^k)

/-- Big-endian value of an octet string. -/
def beNat (b : Bytes) : Nat := b.foldl (fun acc x => acc * 256 + x.toNat) 0

/-- Python slice assignment `buf[off:off+len p] = p` on a bytearray. -/
def splice (buf : Bytes) (off : Nat) (p : Bytes) : Bytes :=
  buf.take off ++ p ++ buf.drop (off + p.length)

def hexDigit (n : Nat) : Char :=
  if n < 10 then Char.ofNat (48 + n) else Char.ofNat (87 + n)

def toHex (b : Bytes) : String :=
  String.ofList (b.flatMap fun x => [hexDigit (x.toNat / 16), hexDigit (x.toNat % 16)])

def hexVal (c : Char) : Option Nat :=
  if '0' ≤ c ∧ c ≤ '9' then some (c.toNat - 48)
  else if 'a' ≤ c ∧ c ≤ 'f' then some (c.toNat - 87)
  else if 'A' ≤ c ∧ c ≤ 'F' then some (c.toNat - 55)
  else none

def ofHexChars : List Char → Option Bytes
  | [] => some []
  | [_] => none
  | a :: b :: rest => do
    let x ← hexVal a
    let y ← hexVal b
    let r ← ofHexChars rest
    pure (UInt8.ofNat (x * 16 + y) :: r)

def ofHex (s : String) : Option Bytes := ofHexChars s.toList

end DtnVerif
