/-
  UDPCL agent logic (src/udpcl/agent.py): `_send_transfer`, `_recv_datagram`, `_recv_ext_map`,
  `_add_rx_item`, `range_encode/range_decode`. Import-free, executable; written to mirror the
  code that exists (a bundle that needs segmenting with `remain_size ≤ 0` fails with `ValueError`).

  Abstractions (documented, compared by the harness only where stated):
  * transfer ids, total lengths and offsets are CBOR unsigned integers `< 2^64`;
  * `portion` intervals are a history list of closed-open ranges; `valid == closedopen(0,total)`
    is "every index below `total` is in some range and no non-empty range ends above `total`"
    (the contract of the library, DESIGN §5);
  * extension keys 3..8 (STARTTLS, SENDER_LISTEN, PMTUD, ECN) are outside this model: a map that
    carries one is reported as `Outcome.outside`;
  * the token-bucket pacing of `_process_tx_queue` is not modelled: datagrams leave in iterator order.
-/
import DtnVerif.Model.Cbor
namespace DtnVerif
namespace Udpcl
open Cbor

/-! ## Sending -/

/-- `cbor2.dumps({ExtensionKey.TRANSFER: [id, total, off, chunk]})` -/
def encTransfer (id total off : Nat) (chunk : Bytes) : Bytes :=
  encMapHead 1 ++ (encUint 2 ++ (encArrHead 4 ++ (encUint id ++ (encUint total ++
    (encUint off ++ encBstr chunk)))))

/-- `ext_base_encsize`: the map with the largest values and an empty byte string. -/
def extBaseEncsize (id total : Nat) : Nat := (encTransfer id total total []).length

/-- `data_size_encsize = len(cbor2.dumps(total_length))` -/
def dataSizeEncsize (total : Nat) : Nat := (encUint total).length

/-- `remain_size = mtu - (ext_base_encsize - 1 + data_size_encsize)`; a Python int, may be ≤ 0. -/
def remainSize (mtu id total : Nat) : Int :=
  (mtu : Int) - ((extBaseEncsize id total : Int) - 1 + (dataSizeEncsize total : Int))

/-- The `while frag_offset < len(data)` loop for `remain > 0`:
    `(frag_offset, data[frag_offset:frag_offset+remain])`. The first argument bounds the number of
    iterations; `len(data) + 1` is always enough when `remain > 0` (every iteration advances the
    offset), which is the only way the loop is entered. -/
def splitLoop : Nat → Bytes → Nat → Nat → List (Nat × Bytes)
  | 0, _, _, _ => []
  | fuel+1, data, remain, off =>
    if off < data.length then
      (off, (data.drop off).take remain) :: splitLoop fuel data remain (off + remain)
    else []

/-- What `_send_transfer` gives back. -/
inductive SendResult
  | ok (dgrams : List Bytes)   -- `iter(segments)`
  | failed                     -- `ValueError('MTU … too small to segment transfer …')`
  deriving DecidableEq, Repr

/-- `_send_transfer(item)` with `item.transfer_id = id`, `item.total_length = len(data)` (as set by
    `_add_tx_item`) and `mtu = config.mtu_default` (`none` = Python `None`). When the bundle does
    not fit one datagram and `remain_size ≤ 0`, it raises before anything is produced. -/
def sendTransfer (id : Nat) (data : Bytes) (mtu : Option Nat) : SendResult :=
  match mtu with
  | none => .ok [data]
  | some m =>
    if data.length < m then .ok [data]
    else if remainSize m id data.length ≤ 0 then .failed
    else .ok ((splitLoop (data.length + 1) data (remainSize m id data.length).toNat 0).map
      fun p => encTransfer id data.length p.1 p.2)

/-- The transfer branch of `_process_tx_queue` as far as C13 looks at it: the datagrams handed to
    the pacing queue and, for a failed segmentation, the `send_bundle_finished(str(id), total,
    'failed')` signal that is emitted at once (`'success'` is emitted later by the pacing loop,
    after the last datagram has gone out). -/
def processTx (id : Nat) (data : Bytes) (mtu : Option Nat) : List Bytes × Option (Nat × Nat × String) :=
  match sendTransfer id data mtu with
  | .ok ds => (ds, none)
  | .failed => ([], some (id, data.length, "failed"))

/-- What the D-Bus client and the wire see of the transfers queued to one peer, in queue order:
    `_process_tx_queue` announces a transfer and hands its datagrams to the pacing queue
    (`TxSendWait`), which sends them in order and announces `'success'` after the last one; a
    transfer that cannot be segmented is announced `'failed'` at once and nothing of it is sent.
    (Relative order between different transfers' `started` signals and earlier transfers' datagrams
    depends on idle/timer scheduling and is not modelled: the list is per transfer.) -/
inductive TxEvent
  | started (id len : Nat)
  | dgram (d : Bytes)
  | finished (id len : Nat) (result : String)
  deriving DecidableEq, Repr

def txItem (mtu : Option Nat) (t : Nat × Bytes) : List TxEvent :=
  .started t.1 t.2.length ::
    match sendTransfer t.1 t.2 mtu with
    | .ok ds => ds.map .dgram ++ [.finished t.1 t.2.length "success"]
    | .failed => [.finished t.1 t.2.length "failed"]

/-- the whole TX queue `(transfer id, data)` -/
def txRun (mtu : Option Nat) (q : List (Nat × Bytes)) : List TxEvent := q.flatMap (txItem mtu)

/-- how many `send_bundle_finished` signals carry id `i` -/
def finCount (i : Nat) (evs : List TxEvent) : Nat :=
  (evs.filter fun e => match e with
    | .finished j _ _ => j == i
    | _ => false).length

/-! ## Receiving: state -/

/-- Key of the RX fragment table: `(str(conv.peer_address), conv.peer_port, xfer_id)`. -/
structure Key where
  addr : String
  port : Nat
  xid : Nat
  deriving DecidableEq, Repr

/-- `Transfer` (`total_valid` is `closedopen(0,total)`). -/
structure Xfer where
  total : Nat
  valid : List (Nat × Nat)
  data : Bytes
  deriving Repr

/-- A `BundleItem` of the RX queue. `xid` is a ghost field (the peer's transfer id for reassembled
    transfers, `none` for a bundle that came as one message); Python does not keep it and the
    driver does not print it. It lets the theorems say *which* transfer produced a queue entry. -/
structure QItem where
  addr : String
  port : Nat
  xid : Option Nat
  length : Nat
  data : Bytes
  deriving Repr

/-- `_rx_fragments`, `_rx_id`, and every `_add_rx_item` so far in order (`_rx_queue` before any pop;
    the `recv_bundle_finished` signals are `(str id, length, {address, port})` of the same list). -/
structure Rx where
  frags : List (Key × Xfer)
  rxId : Nat
  queue : List (Nat × QItem)
  deriving Repr

def Rx.init : Rx := ⟨[], 0, []⟩

def getX (k : Key) : List (Key × Xfer) → Option Xfer
  | [] => none
  | (k', x) :: rest => if k' = k then some x else getX k rest

def delX (k : Key) : List (Key × Xfer) → List (Key × Xfer)
  | [] => []
  | (k', x) :: rest => if k' = k then delX k rest else (k', x) :: delX k rest

def putX (k : Key) (x : Xfer) (l : List (Key × Xfer)) : List (Key × Xfer) := (k, x) :: delX k l

/-- `_add_rx_item` -/
def addRx (s : Rx) (q : QItem) : Rx :=
  { s with rxId := s.rxId + 1, queue := s.queue ++ [(s.rxId, q)] }

def inRange (r : Nat × Nat) (i : Nat) : Bool := decide (r.1 ≤ i) && decide (i < r.2)

/-- `xfer.valid == xfer.total_valid` -/
def complete (x : Xfer) : Bool :=
  (List.range x.total).all (fun i => x.valid.any (fun r => inRange r i)) &&
  x.valid.all (fun r => decide (r.1 < r.2 → r.2 ≤ x.total))

inductive RxErr
  | mismatch   -- ValueError('Mismatched total length')
  deriving DecidableEq, Repr

/-- `xfer.data[off:off+len(chunk)] = chunk; xfer.valid |= closedopen(off, off+len(chunk))` -/
def upd (x : Xfer) (off : Nat) (chunk : Bytes) : Xfer :=
  { x with data := splice x.data off chunk, valid := (off, off + chunk.length) :: x.valid }

/-- Splice the fragment, extend the coverage, finish when everything is there. -/
def applyFrag (s : Rx) (k : Key) (x : Xfer) (off : Nat) (chunk : Bytes) : Rx :=
  if complete (upd x off chunk) then
    addRx { s with frags := delX k s.frags }
      ⟨k.addr, k.port, some k.xid, (upd x off chunk).total, (upd x off chunk).data⟩
  else { s with frags := putX k (upd x off chunk) s.frags }

/-- The `ExtensionKey.TRANSFER` part of `_recv_ext_map`. -/
def recvTransfer (s : Rx) (k : Key) (total off : Nat) (chunk : Bytes) : Except RxErr Rx :=
  match getX k s.frags with
  | some x => if total ≠ x.total then .error .mismatch else .ok (applyFrag s k x off chunk)
  | none => .ok (applyFrag s k ⟨total, [], List.replicate total 0⟩ off chunk)

/-- One message as `_recv_datagram` hands it on: a TRANSFER extension from peer `(k.addr, k.port)`
    or a whole bundle. -/
inductive Ev
  | xfer (k : Key) (total off : Nat) (chunk : Bytes)
  | bundle (addr : String) (port : Nat) (data : Bytes)
  deriving Repr

/-- Process one message; an escaping `ValueError` leaves the agent state as it was. -/
def step (s : Rx) : Ev → Rx
  | .xfer k total off chunk =>
    match recvTransfer s k total off chunk with
    | .ok s' => s'
    | .error _ => s
  | .bundle a p d => addRx s ⟨a, p, none, d.length, d⟩

/-- Any arrival sequence. -/
def run (s : Rx) (evs : List Ev) : Rx := evs.foldl step s

/-- The `(total, offset, data)` of the messages of transfer `k` in arrival order. -/
def kev (k : Key) : List Ev → List (Nat × Nat × Bytes)
  | [] => []
  | .xfer k' total off chunk :: rest =>
    if k' = k then (total, off, chunk) :: kev k rest else kev k rest
  | .bundle _ _ _ :: rest => kev k rest

/-- Queue entries that came from transfer `k`. -/
def fromKey (k : Key) (q : Nat × QItem) : Bool :=
  decide (q.2.addr = k.addr) && decide (q.2.port = k.port) && decide (q.2.xid = some k.xid)

def queued (k : Key) (s : Rx) : List QItem := (s.queue.filter (fromKey k)).map (·.2)

/-! ## Receiving: messages of one datagram -/

mutual
/-- Skip one CBOR data item (what `cbor2.load` consumes), returning the rest. Definite and
    indefinite containers, tags, simple values and floats; no semantic checks (UTF-8, tag
    contents), which is where cbor2 can reject more than this does. -/
def skipItem : Nat → Bytes → Option Bytes
  | 0, _ => none
  | _, [] => none
  | f+1, b :: rest =>
    let mt := b.toNat / 32
    let ai := b.toNat % 32
    if ai = 31 then
      if mt = 2 ∨ mt = 3 ∨ mt = 4 ∨ mt = 5 then skipIndef f rest else none
    else
      match decHead (b :: rest) with
      | none => none
      | some (_, n, r) =>
        if mt = 2 ∨ mt = 3 then (if r.length < n then none else some (r.drop n))
        else if mt = 4 then skipN f n r
        else if mt = 5 then skipN f (2 * n) r
        else if mt = 6 then skipItem f r
        else some r
/-- skip `n` items -/
def skipN : Nat → Nat → Bytes → Option Bytes
  | 0, _, _ => none
  | _+1, 0, b => some b
  | f+1, n+1, b =>
    match skipItem f b with
    | none => none
    | some r => skipN f n r
/-- skip items up to and including the break octet -/
def skipIndef : Nat → Bytes → Option Bytes
  | 0, _ => none
  | _, [] => none
  | f+1, b :: rest =>
    if b = 0xff then some rest
    else
      match skipItem f (b :: rest) with
      | none => none
      | some r => skipIndef f r
end

/-- fuel that is always enough for `skipItem` on `b` -/
def skipFuel (b : Bytes) : Nat := 2 * b.length + 2

/-- What `_recv_ext_map` looks at: the TRANSFER value (last one wins, as in a dict) and the other
    unsigned keys that were present. -/
structure ExtMap where
  transfer : Option (Nat × Nat × Nat × Bytes)
  others : List Nat
  deriving Repr

/-- `xfer_id, total_len, frag_offset, frag_data = extmap[TRANSFER]` for the shape
    `[uint, uint, uint, bstr]` (anything else is a decode error of the model). -/
def parseTransferVal (b : Bytes) : Option ((Nat × Nat × Nat × Bytes) × Bytes) :=
  match decArrHead b with
  | none => none
  | some (n, r0) =>
    if n ≠ 4 then none else
    match decUint r0 with
    | none => none
    | some (id, r1) =>
      match decUint r1 with
      | none => none
      | some (total, r2) =>
        match decUint r2 with
        | none => none
        | some (off, r3) =>
          match decBstr r3 with
          | none => none
          | some (d, r4) => some ((id, total, off, d), r4)

/-- the pairs of a definite map with unsigned keys -/
def parsePairs : Nat → Bytes → ExtMap → Option (ExtMap × Bytes)
  | 0, b, acc => some (acc, b)
  | n+1, b, acc =>
    match decUint b with
    | none => none
    | some (k, r) =>
      if k = 2 then
        match parseTransferVal r with
        | none => none
        | some (t, r') => parsePairs n r' { acc with transfer := some t }
      else
        match skipItem (skipFuel r) r with
        | none => none
        | some r' => parsePairs n r' { acc with others := k :: acc.others }

def parseExtMap (b : Bytes) : Option (ExtMap × Bytes) :=
  match decMapHead b with
  | none => none
  | some (n, r) => parsePairs n r ⟨none, []⟩

/-- How the processing of one datagram ended. -/
inductive Outcome
  | done                 -- returned normally
  | decodeError          -- cbor2 / unpacking raised (escapes `_recv_datagram`)
  | error (e : RxErr)    -- ValueError from `Transfer.validate` escapes
  | outside              -- extension keys 3..8 present: not modelled
  deriving DecidableEq, Repr

/-- `_recv_ext_map` restricted to TRANSFER; `rej` = `sock and config.require_tls`. -/
def recvExtMap (rej : Bool) (s : Rx) (addr : String) (port : Nat) (m : ExtMap) : Rx × Outcome :=
  if m.others.any (fun k => decide (3 ≤ k ∧ k ≤ 8)) then (s, .outside)
  else if rej then (s, .done)
  else
    match m.transfer with
    | none => (s, .done)
    | some (id, total, off, d) =>
      match recvTransfer s ⟨addr, port, id⟩ total off d with
      | .ok s' => (s', .done)
      | .error e => (s, .error e)

/-- The `while True` loop of `_recv_datagram` over the octets that are left. Every iteration that
    continues consumes at least one octet, so `fuel = len(data) + 1` is always enough. -/
def recvLoop : Nat → Bool → String → Nat → Rx → Bytes → Rx × Outcome
  | 0, _, _, _, s, _ => (s, .done)
  | _, _, _, _, s, [] => (s, .done)
  | f+1, rej, addr, port, s, b :: rest =>
    if b = 0x00 then (s, .done)                               -- padding to the end of the packet
    else if 20 ≤ b.toNat ∧ b.toNat ≤ 23 then (s, .done)       -- DTLS record: not UDPCL data
    else if b = 0x06 then (s, .done)                          -- BPv6: ignored (or rejected)
    else if b.toNat / 32 = 4 then
      if rej then (s, .done)
      else
        match skipItem (skipFuel (b :: rest)) (b :: rest) with
        | none => (s, .decodeError)
        | some r =>
          let msg := (b :: rest).take ((b :: rest).length - r.length)
          recvLoop f rej addr port (addRx s ⟨addr, port, none, msg.length, msg⟩) r
    else if b.toNat / 32 = 5 then
      match parseExtMap (b :: rest) with
      | none => (s, .decodeError)
      | some (m, r) =>
        match recvExtMap rej s addr port m with
        | (s', .done) => recvLoop f rej addr port s' r
        | (s', o) => (s', o)
    else (s, .done)

/-- `_recv_datagram(sock, data, conv)` -/
def recvDatagram (rej : Bool) (s : Rx) (addr : String) (port : Nat) (data : Bytes) : Rx × Outcome :=
  recvLoop (data.length + 1) rej addr port s data

/-- What a datagram made of the TRANSFER messages `(id, total, offset, data)` amounts to: each is
    handled on its own, in order; the first escaping error ends the datagram. -/
def runT (s : Rx) (addr : String) (port : Nat) : List (Nat × Nat × Nat × Bytes) → Rx × Outcome
  | [] => (s, .done)
  | (id, total, off, chunk) :: rest =>
    match recvTransfer s ⟨addr, port, id⟩ total off chunk with
    | .ok s' => runT s' addr port rest
    | .error e => (s, .error e)

/-! ## The receive queue as the application sees it -/

/-- `_rx_queue[bid] = item` on a Python dict: an existing key keeps its place and gets the new
    value (the old entry is lost), a new key goes to the end. `addRx` appends; that the two agree in
    every reachable state is `C13_rx_never_overwrites`. -/
def dictSet (bid : Nat) (q : QItem) : List (Nat × QItem) → List (Nat × QItem)
  | [] => [(bid, q)]
  | (i, x) :: rest => if i = bid then (bid, q) :: rest else (i, x) :: dictSet bid q rest

/-- `recv_bundle_get_queue()`: the ids that are queued. -/
def queueIds (s : Rx) : List Nat := s.queue.map (·.1)

/-- `recv_bundle_pop_data(bid)`: `_rx_queue.pop(bid)` — the data stored under `bid` and the queue
    without it; `none` = `KeyError`. -/
def popData (s : Rx) (bid : Nat) : Option (Bytes × Rx) :=
  match s.queue.find? (fun q => q.1 == bid) with
  | some q => some (q.2.data, { s with queue := s.queue.filter (fun q => q.1 != bid) })
  | none => none

/-- One step of the D-Bus visible history: a datagram arrives or the application pops an id. -/
inductive Op
  | dgram (rej : Bool) (addr : String) (port : Nat) (data : Bytes)
  | pop (bid : Nat)
  deriving Repr

/-- the state after an operation (a failing pop changes nothing) -/
def opStep (s : Rx) : Op → Rx
  | .dgram rej addr port data => (recvDatagram rej s addr port data).1
  | .pop bid => match popData s bid with
    | some (_, s') => s'
    | none => s

/-! ## Confirmation ranges -/

/-- `range_encode` over the atomic intervals `(lower, upper)` of a `portion` interval, ascending.
    (Subtractions are over Python ints; for ascending input they are non-negative.) -/
def rangeEncodeFrom : Nat → List (Nat × Nat) → List Nat
  | _, [] => []
  | seen, (lo, hi) :: rest => (lo - seen) :: (hi - lo) :: rangeEncodeFrom hi rest

def rangeEncode (s : List (Nat × Nat)) : List Nat := rangeEncodeFrom 0 s

/-- `intvls |= closedopen(low, high)` when `low` is not below anything already present: an empty
    range changes nothing, a range that touches the last one extends it. The accumulator is kept
    in descending order (last interval first). -/
def pushRange (acc : List (Nat × Nat)) (lo hi : Nat) : List (Nat × Nat) :=
  if hi ≤ lo then acc
  else
    match acc with
    | [] => [(lo, hi)]
    | (l, h) :: t => if lo ≤ h then (l, max h hi) :: t else (lo, hi) :: (l, h) :: t

/-- `range_decode`: (offset, length) pairs, a trailing single value is dropped (StopIteration). -/
def rangeDecodeFrom : Nat → List (Nat × Nat) → List Nat → List (Nat × Nat)
  | seen, acc, off :: len :: rest =>
    rangeDecodeFrom (seen + off + len) (pushRange acc (seen + off) (seen + off + len)) rest
  | _, acc, _ => acc

def rangeDecode (v : List Nat) : List (Nat × Nat) := (rangeDecodeFrom 0 [] v).reverse

end Udpcl
end DtnVerif
