/-
  Specification-side definitions for the TCPCL session properties, written from RFC 9174 and from
  the property texts, independently of the endpoint model:
  * `deliver`   — what an ideal receiver reconstructs from a message sequence;
  * `Legal`     — the RFC 9174 sequence automaton for one direction of a connection.
  Import-free, executable.
-/
import DtnVerif.Model.TcpclCodec
namespace DtnVerif
namespace Tcpcl

/-- State of the ideal receiver: session seen, transfer in progress, completed transfers. -/
structure RxSpec where
  inSess : Bool := false
  cur : Option (Nat × Bytes) := none
  done : List (Nat × Bytes) := []
  deriving Repr, DecidableEq, Inhabited

/-- One message at the ideal receiver: segments count only inside a session; START opens a
    transfer (dropping any unfinished one), a non-START segment extends the open transfer only if
    its id matches, END completes it. Everything else leaves the reassembly state alone. -/
def rxSpecStep (s : RxSpec) (m : Msg) : RxSpec :=
  match m with
  | .sessInit .. => { s with inSess := true }
  | .xferSegment flags tid _ data =>
    if !s.inSess then s else
    let cur : Option (Nat × Bytes) :=
      if hasStart flags then some (tid, [])
      else match s.cur with
        | some (t, d) => if t == tid then some (t, d) else none
        | none => none
    match cur with
    | none => s            -- rejected: state untouched
    | some (t, d) =>
      if hasEnd flags then { s with cur := none, done := s.done ++ [(t, d ++ data)] }
      else { s with cur := some (t, d ++ data) }
  | _ => s

def rxSpec (ms : List Msg) : RxSpec := ms.foldl rxSpecStep {}

/-- completed transfers an ideal receiver reconstructs from `ms` -/
def deliver (ms : List Msg) : List (Nat × Bytes) := (rxSpec ms).done

/- ------------------------------------------------------------------ legal sequences -/

/-- Monitor state for one direction of a connection (RFC 9174 §4, §5, §6). -/
structure LState where
  /-- 0: nothing yet, 1: contact header seen, 2: SESS_INIT seen -/
  phase : Nat := 0
  termSeen : Bool := false
  /-- open transfer: id, announced total length, octets so far -/
  cur : Option (Nat × Nat × Nat) := none
  lastTid : Nat := 0
  deriving Repr, DecidableEq, Inhabited

/-- total length announced by the Transfer Length extension item (type 1) of a START segment -/
def totalLengthOf (ext : Bytes) : Option Nat :=
  match decExtItems (ext.length + 1) ext with
  | some items =>
    match items.find? (fun e => e.type == 1 && e.value.length == 8) with
    | some e => some (beNat e.value)
    | none => none
  | none => none

/-- One emitted message against the monitor; `none` = illegal. -/
def legalStep (s : LState) (m : Msg) : Option LState :=
  match m with
  | .contact _ => if s.phase == 0 then some { s with phase := 1 } else none
  | .sessInit .. => if s.phase == 1 then some { s with phase := 2 } else none
  | .sessTerm .. => if s.phase == 2 && !s.termSeen then some { s with termSeen := true } else none
  | .xferAck .. | .xferRefuse .. | .keepalive | .msgReject .. =>
    if s.phase == 2 then some s else none
  | .xferSegment flags tid ext data =>
    if s.phase != 2 then none else
    if hasStart flags then
      -- new transfer: none open, not after SESS_TERM, fresh id, carries its total length
      if s.termSeen || s.cur.isSome || tid ≤ s.lastTid then none else
      match totalLengthOf ext with
      | none => none
      | some total =>
        if hasEnd flags then
          if data.length == total then some { s with lastTid := tid } else none
        else
          if data.length < total then
            some { s with cur := some (tid, total, data.length), lastTid := tid }
          else none
    else
      if ext != [] then none else
      match s.cur with
      | none => none
      | some (t, total, sofar) =>
        if t != tid then none else
        let sofar' := sofar + data.length
        if hasEnd flags then
          if sofar' == total then some { s with cur := none } else none
        else
          if sofar' < total then some { s with cur := some (t, total, sofar') } else none

def legalRun : LState → List Msg → Option LState
  | s, [] => some s
  | s, m :: ms =>
    match legalStep s m with
    | some s' => legalRun s' ms
    | none => none

/-- The emitted sequence is legal per RFC 9174. -/
def Legal (ms : List Msg) : Prop := (legalRun {} ms).isSome

instance (ms : List Msg) : Decidable (Legal ms) := by unfold Legal; infer_instance

end Tcpcl
end DtnVerif
