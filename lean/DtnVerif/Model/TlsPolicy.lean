/-
  TLS-use and peer-authentication policy of tcpcl.session (property C15), as the code is now.

  Mirrors, in decision-table form:
    * `Messenger.merge_contact_params` and the contact-header branch of `Messenger.recv_message`
      (policy check before the attempt, `secure()`, policy check after the attempt, SESS_INIT of
      the active side)                                                  → `contactDecision`
    * `match_id` (module function)                                      → `matchId`
    * `Messenger.merge_session_params` (peer_dnsid derivation, the "native" reference call,
      certificate loading, the three `match_id` calls, any_fail / netname_absent / required)
                                                                        → `authDecision`, `sessDecision`
    * what an observer of the endpoint sees for one contact + session negotiation (octets on the
      plain socket, octets on the TLS socket, state names, close, escaped exception, authn fields
      of `get_session_parameters()`)                                    → `outcome`

  Parameters (not modelled, DESIGN §4): the TLS handshake (`Handshake`), chain validation, the
  `ipaddress` parser (the peer address arrives parsed, as its packed octets), and the existence of
  `ssl.match_hostname` in the running interpreter (`Env.nativeMatch`; read only under the former
  quirk `callsNative`).

  Six defects of this code have been repaired in /repo (3b62066, b2a96b5, 65245fc, 2dfed8d, ad23ebd,
  9005d8e); the old behaviours remain expressible through the switches of `Quirks` (all off in
  `Quirks.current`, the code under verification) so that a regression can be named.
  Import-free, executable.
-/
namespace DtnVerif
namespace TlsPolicy

/-! ## Constants of the source (pinned by `C15_facts`) -/

/-- `contact.ContactV4.Flag.CAN_TLS` -/
def canTlsBit : Nat := 1
/-- `messages.SessionTerm.Reason.CONTACT_FAILURE` -/
def reasonContactFailure : Nat := 4

/-! ## `match_id` -/

/-- Return value of `match_id`: `None` / the matched reference / `False`. -/
inductive IdResult where
  | absent
  | matched
  | mismatch
  deriving DecidableEq, Repr, Inhabited

/-- `match_id(ref_id, cert, san_key, …)` after `get_values_for_type(san_key)`.
    `ids = none`: no subjectAltName extension (`x509.ExtensionNotFound`), `cert_ids` stays `None`.
    `ref = none`: the reference is Python `None` (`None in cert_ids` is `False`). -/
def matchId {α : Type} [DecidableEq α] (ref : Option α) (ids : Option (List α)) : IdResult :=
  match ids with
  | none => .absent
  | some [] => .absent                       -- `if cert_ids:` is falsy for the empty list
  | some (i :: is) =>
    match ref with
    | none => .mismatch
    | some r => if r ∈ (i :: is) then .matched else .mismatch

/-- One GeneralName of a subjectAltName extension, as far as `get_values_for_type` distinguishes. -/
inductive GName where
  /-- iPAddress: 4 / 16 octets (address) or 8 / 32 (network: never equal to an address) -/
  | ip (octets : List UInt8)
  | dns (name : String)
  | uri (value : String)
  /-- any other kind (rfc822Name, otherName, directoryName, …) -/
  | other
  deriving DecidableEq, Repr, Inhabited

/-- `ext.value.get_values_for_type(x509.IPAddress)` -/
def ipValues (names : List GName) : List (List UInt8) :=
  names.filterMap fun g => match g with | .ip o => some o | _ => none

/-- `ext.value.get_values_for_type(x509.DNSName)` -/
def dnsValues (names : List GName) : List String :=
  names.filterMap fun g => match g with | .dns s => some s | _ => none

/-- `ext.value.get_values_for_type(x509.UniformResourceIdentifier)` -/
def uriValues (names : List GName) : List String :=
  names.filterMap fun g => match g with | .uri s => some s | _ => none

/-- The peer's end-entity certificate as `merge_session_params` reads it.
    `san = none`: no subjectAltName extension. -/
structure Cert where
  san : Option (List GName)
  deriving DecidableEq, Repr, Inhabited

/-! ## Configuration, environment -/

/-- The fields of `tcpcl.config.Config` the policy reads, and the side of the connection. -/
structure Cfg where
  /-- `fromaddr` given: the listening side -/
  passive : Bool
  /-- `tls_enable`: CAN_TLS is set in our contact header -/
  tlsEnable : Bool
  /-- `require_tls`: `None` / `True` / `False` -/
  requireTls : Option Bool
  /-- `require_host_authn` -/
  requireHost : Bool
  /-- `require_node_authn` -/
  requireNode : Bool
  deriving DecidableEq, Repr, Inhabited

/-- Outcome of `s_tls.do_handshake()` inside `Connection.secure`. -/
inductive Handshake where
  | ok
  /-- `ssl.SSLError` (or a subclass: certificate verification, EOF, alert) -/
  | sslError
  /-- an `OSError` which is not an `ssl.SSLError` (connection reset, timeout, …) -/
  | osError
  deriving DecidableEq, Repr, Inhabited

/-- Exception classes that leave the receive callback in this model. -/
inductive Esc where
  /-- `AttributeError` (former defects only): `ssl.match_hostname` missing / `get_app_socket()` is `None` -/
  | attributeError
  /-- `TypeError` (former defect only): `x509.load_der_x509_certificate(None)` -/
  | typeError
  /-- the `OSError` raised by the handshake (former defect only) -/
  | osError
  deriving DecidableEq, Repr, Inhabited

/-- Former behaviours of the code, each removed by a fix commit of /repo. A switch set to `true`
    re-creates the old behaviour; the C15 check uses that only to name a regression. -/
structure Quirks where
  /-- D27 (3b62066): `ssl.match_hostname(...)` was called "for reference"; where the interpreter has no
      such function (Python ≥ 3.12) the `AttributeError` escaped -/
  callsNative : Bool
  /-- D13 (b2a96b5): `match_id(None, cert, DNSName)` yields `False` for any DNS-ID, and `False is None`
      is false, so an *unverifiable* DNS-ID made `netname_absent` false -/
  uncheckedDnsCounts : Bool
  /-- (2dfed8d) octets which followed the contact header in the same read stayed in the receive buffer
      across the TLS handshake and were then processed as if they had arrived protected; now discarded -/
  carriesPlaintext : Bool
  /-- (65245fc) `getpeercert(True)` returning `None` (no peer certificate) raised `TypeError`; now every
      identifier counts as absent -/
  noCertRaises : Bool
  /-- (ad23ebd) a non-SSL `OSError` from the handshake escaped `recv_message` (only `ssl.SSLError` was
      caught); now `except OSError` -/
  handshakeOsEscapes : Bool
  /-- (9005d8e) `recv_raw` kept taking messages out of its buffer after `recv_message` had closed the
      connection; now the loop stops -/
  handlesAfterClose : Bool
  deriving DecidableEq, Repr, Inhabited

/-- The code under verification (/repo working tree): all six defects are repaired. -/
def Quirks.current : Quirks := ⟨false, false, false, false, false, false⟩

/-- The code before the six fix commits (regression naming only). -/
def Quirks.old : Quirks := ⟨true, true, true, true, true, true⟩

/-! ## Contact stage -/

/-- Result of the contact-header branch of `recv_message`. -/
inductive Contact where
  /-- session negotiation goes on without TLS -/
  | proceedClear
  /-- `secure()` succeeded; session negotiation goes on under TLS -/
  | proceedTls
  /-- `self.close()`; `attempted` = the handshake had been started -/
  | close (attempted : Bool)
  /-- (former defect only) an exception left `recv_message` during the handshake: not closed, no read
      watch any more -/
  | wedged
  deriving DecidableEq, Repr, Inhabited

/-- `peer_can_tls = conhead_peer.flags & CAN_TLS` -/
def offersTls (flags : Nat) : Bool := (flags &&& canTlsBit) != 0

/-- `merge_contact_params` + the policy checks around `secure()`.
    `thisCan`: CAN_TLS in our own contact header (= `tls_enable`);
    `osEscapes`: `Quirks.handshakeOsEscapes`. -/
def contactDecision (osEscapes : Bool) (require : Option Bool) (thisCan peerCan : Bool) (hs : Handshake) : Contact :=
  let attempt := thisCan && peerCan                      -- self._tls_attempt
  -- "Check policy before attempt"
  let before : Bool := match require with
    | none => true
    | some r => attempt == r
  if !before then .close false
  else
    -- "Both sides immediately try TLS"
    let afterTls : Option Bool :=                        -- is_secure() afterwards; none = left early
      if attempt then
        match hs with
        | .ok => some true
        | .sslError => none
        | .osError => none
      else some false
    match afterTls with
    | none =>
      match hs with
      | .osError => if osEscapes then .wedged else .close true
      | _ => .close true
    | some secured =>
      -- "Check policy after attempt"
      let after : Bool := match require with
        | none => true
        | some r => secured == r
      if !after then .close attempt
      else if secured then .proceedTls else .proceedClear

def Contact.attempted : Contact → Bool
  | .proceedTls => true
  | .close a => a
  | .wedged => true
  | .proceedClear => false

def Contact.proceeds : Contact → Bool
  | .proceedTls => true
  | .proceedClear => true
  | _ => false

/-! ## Session stage -/

inductive Auth where
  | establish
  | termContactFailure
  deriving DecidableEq, Repr, Inhabited

/-- The last lines of the `if sock_tls:` block of `merge_session_params`.
    `dnsKnown`: truthiness of `peer_dnsid`. (`peer_ipaddrid` is an `ipaddress` object: always truthy.)
    `uncheckedDnsCounts`: `Quirks.uncheckedDnsCounts`. -/
def authDecision (uncheckedDnsCounts : Bool) (ip dns node : IdResult) (dnsKnown requireHost requireNode : Bool) : Auth :=
  let anyFail := ip == .mismatch || (dnsKnown && dns == .mismatch) || node == .mismatch
  -- `authn_dnsid is None or not peer_dnsid`: a DNS-ID nobody could compare is no authentication
  let dnsAbsent := if uncheckedDnsCounts then dns == .absent          -- former D13 behaviour
                   else dns == .absent || !dnsKnown
  let netnameAbsent := ip == .absent && dnsAbsent
  if anyFail || (netnameAbsent && requireHost) || (node == .absent && requireNode) then .termContactFailure
  else .establish

/-- What the peer and the runtime contribute to one negotiation (abstract view). -/
structure Env where
  /-- flags octet of the peer's contact header -/
  peerFlags : Nat
  handshake : Handshake
  /-- the peer's SESS_INIT arrives in the same read as its contact header -/
  pipelined : Bool
  /-- `hasattr(ssl, 'match_hostname')` -/
  nativeMatch : Bool
  deriving DecidableEq, Repr, Inhabited

/-- The peer as seen by `merge_session_params` (abstract view). -/
structure PeerId where
  /-- `getpeercert(True)` is not `None` -/
  certPresent : Bool
  dnsKnown : Bool
  ip : IdResult
  dns : IdResult
  node : IdResult
  deriving DecidableEq, Repr, Inhabited

/-- Result of handling the peer's SESS_INIT. -/
inductive Sess where
  /-- the endpoint no longer reads: the SESS_INIT of a later read is never looked at -/
  | notDelivered
  | escaped (x : Esc)
  | established
  /-- `TerminateError(reason)` ⇒ `send_sess_term(reason, False)` -/
  | terminated (reason : Nat)
  deriving DecidableEq, Repr, Inhabited

/-- The SESS_INIT branch of `recv_message` + `merge_session_params`. -/
def sessDecision (q : Quirks) (c : Cfg) (e : Env) (p : PeerId) (ct : Contact) : Sess :=
  match ct with
  | .wedged => .notDelivered                 -- the exception ended `recv_raw`; the watch is gone
  | .close _ =>
    -- `while self.__rx_buf and self.get_app_socket() is not None`: nothing is handled after `close()`
    -- (formerly a pipelined SESS_INIT was still handled: `None.getpeername()`)
    if e.pipelined && q.handlesAfterClose then .escaped .attributeError else .notDelivered
  | .proceedClear => .established            -- no `sock_tls`: nothing is checked
  | .proceedTls =>
    -- octets received ahead of the handshake are discarded after `secure()`
    if e.pipelined && !q.carriesPlaintext then .notDelivered
    else if q.callsNative && !e.nativeMatch then .escaped .attributeError
    else if !p.certPresent then
      (if q.noCertRaises then .escaped .typeError
       else match authDecision q.uncheckedDnsCounts .absent .absent .absent p.dnsKnown c.requireHost c.requireNode with
         | .establish => .established
         | .termContactFailure => .terminated reasonContactFailure)
    else match authDecision q.uncheckedDnsCounts p.ip p.dns p.node p.dnsKnown c.requireHost c.requireNode with
      | .establish => .established
      | .termContactFailure => .terminated reasonContactFailure

/-! ## Observable outcome -/

inductive Msg where
  | contact (canTls : Bool)
  | sessInit
  | sessTerm (reason : Nat)
  deriving DecidableEq, Repr, Inhabited

inductive St where
  | contactNegotiating
  | sessionNegotiating
  | established
  | ending
  deriving DecidableEq, Repr, Inhabited

/-- authn part of `get_session_parameters()`: key absent / `False` / the matched value. -/
structure Params where
  /-- `peer_dnsid` present -/
  peerDns : Bool
  ip : IdResult
  dns : IdResult
  node : IdResult
  deriving DecidableEq, Repr, Inhabited

structure Outcome where
  contact : Contact
  sess : Sess
  /-- messages written to the plain socket, in order -/
  clear : List Msg
  /-- messages written to the TLS socket, in order -/
  secured : List Msg
  state : St
  closed : Bool
  /-- `is_secure()` at the end -/
  isSecure : Bool
  /-- `wrap_socket` / `do_handshake` was called -/
  attempted : Bool
  escaped : List Esc
  /-- `none`: `_sess_parameters` still empty -/
  params : Option Params
  /-- the SESS_INIT on which the session result rests had been received before the TLS handshake -/
  initFromPlaintext : Bool
  deriving DecidableEq, Repr, Inhabited

def Contact.isTls : Contact → Bool
  | .proceedTls => true
  | _ => false

def Contact.isClose : Contact → Bool
  | .close _ => true
  | _ => false

/-- `close()` before the TX pump ever ran for the passive side's contact header -/
def Contact.closedBeforeFlush : Contact → Bool
  | .close false => true
  | _ => false

def Contact.escapes : Contact → List Esc
  | .wedged => [.osError]
  | _ => []

def Sess.delivered : Sess → Bool
  | .notDelivered => false
  | _ => true

def Sess.termOut : Sess → List Msg
  | .terminated r => [.sessTerm r]
  | _ => []

def Sess.state : Sess → St
  | .established => .established
  | .terminated _ => .ending
  | _ => .sessionNegotiating

def Sess.escapes : Sess → List Esc
  | .escaped x => [x]
  | _ => []

def Sess.isEstablished : Sess → Bool
  | .established => true
  | _ => false

/-- What an observer sees, given the two decisions: `start()`, TX pump, the peer's contact header,
    TX pump, the peer's SESS_INIT (same read when `pipelined`), TX pump. -/
def render (c : Cfg) (e : Env) (p : PeerId) (ct : Contact) (ss : Sess) : Outcome :=
  -- our contact header: the active side writes it at start; the passive side queues it on reception
  -- of the peer's, and it reaches the wire only if the connection is not closed before the pump
  -- (policy failure before the attempt) – the flush loop ahead of `secure()` writes it first
  let contactOut : List Msg :=
    if c.passive && ct.closedBeforeFlush then [] else [.contact c.tlsEnable]
  -- our SESS_INIT: active side right after a successful contact stage; passive side on reception
  -- of the peer's SESS_INIT (before `merge_session_params`), lost if the connection is closed
  let initSent : Bool := ct.proceeds && (!c.passive || ss.delivered)
  let initOut : List Msg := if initSent then [.sessInit] else []
  { contact := ct
    sess := ss
    clear := contactOut ++ (if ct.isTls then [] else initOut)
    secured := if ct.isTls then initOut ++ ss.termOut else []
    state := ss.state
    closed := ct.isClose
    isSecure := ct.isTls
    attempted := ct.attempted
    escaped := ct.escapes ++ ss.escapes
    params :=
      if ss.isEstablished then
        (if ct.isTls && p.certPresent then some ⟨p.dnsKnown, p.ip, p.dns, p.node⟩
         else some ⟨p.dnsKnown, .absent, .absent, .absent⟩)
      else none
    initFromPlaintext := ct.isTls && e.pipelined && ss.delivered }

/-- One contact + session negotiation. -/
def outcome (q : Quirks) (c : Cfg) (e : Env) (p : PeerId) : Outcome :=
  let ct := contactDecision q.handshakeOsEscapes c.requireTls c.tlsEnable (offersTls e.peerFlags) e.handshake
  render c e p ct (sessDecision q c e p ct)

/-! ## Concrete layer: certificate contents and peer references -/

/-- The concrete facts `merge_session_params` reads. -/
structure Conn where
  /-- `toaddr[0]` (what was dialled) / `fromaddr[0]` -/
  peerName : String
  /-- `getpeername()[0]` -/
  sockAddr : String
  /-- `ipaddress.ip_address(sockAddr).packed` (the parser is not modelled) -/
  sockOctets : List UInt8
  /-- `str(sessinit_peer.nodeid_data)` -/
  nodeId : String
  /-- `none`: `getpeercert(True)` is `None` -/
  cert : Option Cert
  deriving DecidableEq, Repr, Inhabited

/-- `peer_dnsid` of `merge_session_params`. -/
def peerDnsid (c : Cfg) (n : Conn) : Option String :=
  if c.passive then none
  else if n.peerName == n.sockAddr then none
  else some n.peerName

/-- Truthiness of `peer_dnsid` (`None` and `''` are falsy). -/
def dnsKnown (c : Cfg) (n : Conn) : Bool :=
  match peerDnsid c n with
  | some s => s != ""
  | none => false

/-- The three `match_id` calls. -/
def peerIdOf (c : Cfg) (n : Conn) : PeerId :=
  match n.cert with
  | none => ⟨false, dnsKnown c n, .absent, .absent, .absent⟩
  | some cert =>
    { certPresent := true
      dnsKnown := dnsKnown c n
      ip := matchId (some n.sockOctets) (cert.san.map ipValues)
      dns := matchId (peerDnsid c n) (cert.san.map dnsValues)
      node := matchId (some n.nodeId) (cert.san.map uriValues) }

/-- Negotiation outcome for concrete certificate contents. -/
def outcomeC (q : Quirks) (c : Cfg) (e : Env) (n : Conn) : Outcome :=
  outcome q c e (peerIdOf c n)

/-! ## Configuration file (`Config.from_file`) -/

/-- The four policy options as the `tcpcl:` section of a configuration file gives them:
    `none` = key not in the file (or no such section); for `require_tls`, `some none` = `null`.
    Values are of the declared types (booleans). -/
structure CfgFile where
  tlsEnable : Option Bool
  requireTls : Option (Option Bool)
  requireHost : Option Bool
  requireNode : Option Bool
  deriving DecidableEq, Repr, Inhabited

/-- Defaults of the `Config` dataclass: `tls_enable = True`, `require_tls = None`,
    `require_host_authn = False`, `require_node_authn = False`. -/
def defaultTlsEnable : Bool := true
def defaultRequireTls : Option Bool := none
def defaultRequireHost : Bool := false
def defaultRequireNode : Bool := false

/-- `Config().from_file(f)` on the policy options:
    `if fld.name in cldat: setattr(self, fld.name, cldat[fld.name])` – a key that is present wins
    whatever its value (`false` and `null` included), an absent key keeps the default. -/
def loadFile (passive : Bool) (f : CfgFile) : Cfg :=
  { passive := passive
    tlsEnable := match f.tlsEnable with | some v => v | none => defaultTlsEnable
    requireTls := match f.requireTls with | some v => v | none => defaultRequireTls
    requireHost := match f.requireHost with | some v => v | none => defaultRequireHost
    requireNode := match f.requireNode with | some v => v | none => defaultRequireNode }

end TlsPolicy
end DtnVerif
