/-
  BPSec COSE context (bp/app/bpsec.py): external AAD construction (`CoseSecOpCtx.get_external_aad`),
  the COSE to-be-authenticated structures that pycose builds (`_mac_structure`, `_sig_structure`,
  `_enc_structure`), detached-payload re-attachment (`decode_msg`), the per-target verify/accept
  functions and the source-side apply functions of `CoseContext`.

  The cryptographic primitives are *parameters* (`Prims`): nothing here says that HMAC, AES-GCM,
  AES-KW or ECDSA are secure; the model fixes exactly which octets are handed to them.
  Import-free (only shared models), executable.
-/
import DtnVerif.Model.Bundle
namespace DtnVerif
namespace Sec
open Cbor Bp

/-! ## AAD scope -/

/-- `CoseContext.AadScopeFlag.METADATA` -/
def flagMetadata : Nat := 1
/-- `CoseContext.AadScopeFlag.BTSD` -/
def flagBtsd : Nat := 2
/-- Python `flags & FLAG` truthiness. -/
def hasFlag (f m : Nat) : Bool := (f &&& m) != 0

/-- Security context id of the COSE context, BIB / BCB block type codes. -/
def coseContextId : Nat := 3
def typeBib : Nat := 11
def typeBcb : Nat := 12

/-- `cbor2.dumps` of a Python int (major type 0 or 1). -/
def encInt : Int → Bytes
  | .ofNat n => head 0 n
  | .negSucc n => head 1 n

def encScopeItems : List (Int × Nat) → Bytes
  | [] => []
  | (k, f) :: r => encInt k ++ encUint f ++ encScopeItems r

/-- `cbor2.dumps(scope)` of a map whose entries are already in the order given. -/
def encScope (s : List (Int × Nat)) : Bytes := encMapHead s.length ++ encScopeItems s

def bytesLt : Bytes → Bytes → Bool
  | [], [] => false
  | [], _ :: _ => true
  | _ :: _, [] => false
  | a :: as, b :: bs => if a < b then true else if b < a then false else bytesLt as bs

/-- cbor2's canonical key order: shorter encoding first, then bytewise. -/
def keyLe (a b : Int) : Bool :=
  let ea := encInt a
  let eb := encInt b
  ea.length < eb.length || (ea.length == eb.length && !(bytesLt eb ea))

def insertScope (e : Int × Nat) : List (Int × Nat) → List (Int × Nat)
  | [] => [e]
  | x :: xs => if keyLe e.1 x.1 then e :: x :: xs else x :: insertScope e xs

/-- The order in which `cbor2.loads(cbor2.dumps(scope, canonical=True))` iterates. -/
def canonScope (s : List (Int × Nat)) : List (Int × Nat) := s.foldr insertScope []

/-! ## External AAD -/

def zeroCrc (t : Nat) : Bytes := List.replicate (crcWidth t) 0

/-- Fields that `PrimaryBlock` does not emit for a non-fragment, set to their default. -/
def normFrag (p : Primary) : Primary :=
  if isFragment p.flags then p else { p with fragOff := 0, totalLen := 0 }

/-- `blk.update_crc()` on the primary block (CRC recomputed over the encoding with a zeroed CRC
    field; `None` for CRC type 0), with the fields the encoder does not emit normalised, so that
    the result is determined by its encoding. `crcFn t data` is the CRC of type `t`, big-endian. -/
def refreshPrimary (crcFn : Nat → Bytes → Bytes) (p : Primary) : Primary :=
  let p0 := normFrag p
  if p0.crcType == 0 then { p0 with crc := none }
  else { p0 with crc := some (crcFn p0.crcType ({ p0 with crc := some (zeroCrc p0.crcType) }).enc) }

/-- Everything `get_external_aad` reads. `blocks` are the canonical blocks reachable through
    `ctr.block_num(n)`; `secBlk` is the security block (not yet part of the bundle at the source);
    `tgt` the target block of the operation. -/
structure AadCtx where
  ssrc : Eid
  scope : List (Int × Nat)
  primary : Primary
  blocks : List Canonical
  secBlk : Canonical
  tgt : Canonical
  addlProt : Bytes
  deriving Repr, DecidableEq, Inhabited

/-- What one AAD-scope entry contributes. -/
inductive Item where
  /-- key 0: the whole primary block (with refreshed CRC) when METADATA is set, else nothing -/
  | prim (p : Option Primary)
  /-- other keys: first three items of the block array when METADATA, BTSD bstr when BTSD -/
  | canon (md : Option (Nat × Nat × Nat)) (data : Option Bytes)
  deriving Repr, DecidableEq, Inhabited

def encMeta : Option (Nat × Nat × Nat) → Bytes
  | none => []
  | some (t, n, f) => encUint t ++ encUint n ++ encUint f

def encData : Option Bytes → Bytes
  | none => []
  | some d => encBstr d

def Item.enc : Item → Bytes
  | .prim none => []
  | .prim (some p) => p.enc
  | .canon m d => encMeta m ++ encData d

def findBlock (bs : List Canonical) (n : Nat) : Option Canonical :=
  bs.find? (fun c => c.blockNum == n)

/-- Block selected by a scope key other than 0 (`none` = `KeyError`). -/
def scopeBlock (ctx : AadCtx) : Int → Option Canonical
  | .negSucc 0 => some ctx.tgt
  | .negSucc 1 => some ctx.secBlk
  | .negSucc _ => none
  | .ofNat n => findBlock ctx.blocks n

/-- Contribution of one scope entry; `none` = an exception inside `get_external_aad`
    (block number not present, BTSD absent). -/
def scopeItem (crcFn : Nat → Bytes → Bytes) (ctx : AadCtx) (k : Int) (f : Nat) : Option Item :=
  if k = 0 then
    some (.prim (if hasFlag f flagMetadata then some (refreshPrimary crcFn ctx.primary) else none))
  else
    match scopeBlock ctx k with
    | none => none
    | some c =>
      let m := if hasFlag f flagMetadata then some (c.typeCode, c.blockNum, c.flags) else none
      if hasFlag f flagBtsd then
        match c.btsd with
        | none => none
        | some d => some (.canon m (some d))
      else some (.canon m none)

/-- The loop of `get_external_aad` over the canonically ordered scope, appending to `acc`. -/
def aadLoop (crcFn : Nat → Bytes → Bytes) (ctx : AadCtx) : List (Int × Nat) → Bytes → Option Bytes
  | [], acc => some acc
  | (k, f) :: r, acc =>
    match scopeItem crcFn ctx k f with
    | none => none
    | some it => aadLoop crcFn ctx r (acc ++ it.enc)

/-- `CoseSecOpCtx.get_external_aad`: security source ‖ canonical scope map ‖ per-entry data ‖
    additional-protected bstr. `none` = the function raised. -/
def externalAad (crcFn : Nat → Bytes → Bytes) (ctx : AadCtx) : Option Bytes :=
  let sc := canonScope ctx.scope
  match aadLoop crcFn ctx sc (ctx.ssrc.enc ++ encScope sc) with
  | none => none
  | some a => some (a ++ encBstr ctx.addlProt)

/-- The data the AAD depends on ("covered view"): nothing else of the bundle influences it. -/
structure View where
  ssrc : Eid
  scope : List (Int × Nat)
  items : List Item
  addlProt : Bytes
  deriving Repr, DecidableEq, Inhabited

def itemsOf (crcFn : Nat → Bytes → Bytes) (ctx : AadCtx) : List (Int × Nat) → Option (List Item)
  | [] => some []
  | (k, f) :: r =>
    match scopeItem crcFn ctx k f with
    | none => none
    | some it =>
      match itemsOf crcFn ctx r with
      | none => none
      | some its => some (it :: its)

def coveredView (crcFn : Nat → Bytes → Bytes) (ctx : AadCtx) : Option View :=
  let sc := canonScope ctx.scope
  match itemsOf crcFn ctx sc with
  | none => none
  | some its => some ⟨ctx.ssrc, sc, its, ctx.addlProt⟩

def encItems : List Item → Bytes
  | [] => []
  | i :: r => i.enc ++ encItems r

def View.enc (v : View) : Bytes :=
  v.ssrc.enc ++ encScope v.scope ++ encItems v.items ++ encBstr v.addlProt

/-! ## COSE structures (RFC 9052 §4.4, §6.3, §5.3 as pycose builds them) -/

def ascii (s : String) : Bytes := s.toList.map (fun c => UInt8.ofNat c.toNat)

/-- pycose `_base_structure`: an empty protected map is authenticated as the empty string. -/
def effProt (prot : Bytes) : Bytes := if prot = [0xa0] then [] else prot

/-- `MAC_structure` / `Sig_structure` (COSE_Sign1): `[context, protected, external_aad, payload]`. -/
def macStructure (context : String) (prot aad payload : Bytes) : Bytes :=
  encArrHead 4 ++ encTstr (ascii context) ++ encBstr (effProt prot) ++ encBstr aad ++ encBstr payload

/-- `Enc_structure`: `[context, protected, external_aad]`. -/
def encStructure (context : String) (prot aad : Bytes) : Bytes :=
  encArrHead 3 ++ encTstr (ascii context) ++ encBstr (effProt prot) ++ encBstr aad

/-! ## Messages, primitives -/

structure Recipient where
  kid : Option Bytes
  /-- the recipient ciphertext: the wrapped content key -/
  wrapped : Bytes
  deriving Repr, DecidableEq, Inhabited

/-- Decoded COSE messages as far as the context uses them. `payload = none` is the detached
    (CBOR nil) form that travels in the security result. -/
inductive Msg where
  | mac0 (prot : Bytes) (kid : Option Bytes) (payload : Option Bytes) (tag : Bytes)
  | mac (prot : Bytes) (payload : Option Bytes) (tag : Bytes) (recips : List Recipient)
  | sign1 (prot : Bytes) (kid : Option Bytes) (payload : Option Bytes) (sig : Bytes)
  | enc0 (prot : Bytes) (kid : Option Bytes) (iv : Bytes) (ct : Option Bytes)
  | enc (prot : Bytes) (iv : Bytes) (ct : Option Bytes) (recips : List Recipient)
  deriving Repr, DecidableEq, Inhabited

/-- `msg_dec[2] = tgt_blk.btsd` in `decode_msg`. -/
def Msg.attach (d : Bytes) : Msg → Msg
  | .mac0 p k _ t => .mac0 p k (some d) t
  | .mac p _ t r => .mac p (some d) t r
  | .sign1 p k _ s => .sign1 p k (some d) s
  | .enc0 p k iv _ => .enc0 p k iv (some d)
  | .enc p iv _ r => .enc p iv (some d) r

/-- `msg_dec[2] = None` at the source. -/
def Msg.detach : Msg → Msg
  | .mac0 p k _ t => .mac0 p k none t
  | .mac p _ t r => .mac p none t r
  | .sign1 p k _ s => .sign1 p k none s
  | .enc0 p k iv _ => .enc0 p k iv none
  | .enc p iv _ r => .enc p iv none r

/-- The cryptographic primitives, as uninterpreted parameters. -/
structure Prims (Key : Type) where
  mac : Key → Bytes → Bytes
  verifySig : Key → Bytes → Bytes → Bool
  /-- `aeadEnc key iv aad plaintext` -/
  aeadEnc : Key → Bytes → Bytes → Bytes → Bytes
  /-- `aeadDec key iv aad ciphertext` -/
  aeadDec : Key → Bytes → Bytes → Bytes → Option Bytes
  /-- `keyWrap kek cek` -/
  keyWrap : Key → Key → Bytes
  unwrap : Key → Bytes → Option Key

section
variable {Key : Type} (P : Prims Key) (store : Bytes → Option Key)
variable (crcFn : Nat → Bytes → Bytes)

/-- `_get_cose_key` restricted to key identifiers: `none` = it raised. -/
def lookupKey (kid : Option Bytes) : Option Key :=
  match kid with
  | none => none
  | some k => store k

/-- The octets handed to the MAC for target `ctx.tgt` (`none` = exception on the way). -/
def macInput (ctx : AadCtx) (context : String) (prot : Bytes) : Option Bytes :=
  match externalAad crcFn ctx, ctx.tgt.btsd with
  | some aad, some d => some (macStructure context prot aad d)
  | _, _ => none

/-- The octets handed to the AEAD as associated data. -/
def encInput (ctx : AadCtx) (context : String) (prot : Bytes) : Option Bytes :=
  match externalAad crcFn ctx with
  | some aad => some (encStructure context prot aad)
  | none => none

def macRecipOk (tag input : Bytes) (r : Recipient) : Bool :=
  match lookupKey store r.kid with
  | none => false
  | some kek =>
    match P.unwrap kek r.wrapped with
    | none => false
    | some cek => tag == P.mac cek input

/-- `verify_bib_target`: `true` = verified; every exception inside is caught and means `false`. -/
def verifyBibTarget (ctx : AadCtx) (m : Msg) : Bool :=
  match m with
  | .mac0 prot kid _ tag =>
    match macInput crcFn ctx "MAC0" prot, lookupKey store kid with
    | some inp, some k => tag == P.mac k inp
    | _, _ => false
  | .mac prot _ tag recips =>
    match macInput crcFn ctx "MAC" prot with
    | some inp => recips.any (macRecipOk P store tag inp)
    | none => false
  | .sign1 prot kid _ sig =>
    match macInput crcFn ctx "Signature1" prot, lookupKey store kid with
    | some inp, some k => P.verifySig k inp sig
    | _, _ => false
  | _ => false

def encRecipPlain (iv aad ct : Bytes) (r : Recipient) : Option Bytes :=
  match lookupKey store r.kid with
  | none => none
  | some kek =>
    match P.unwrap kek r.wrapped with
    | none => none
    | some cek => P.aeadDec cek iv aad ct

/-- first recipient that decrypts (`break` on first success) -/
def firstPlain (iv aad ct : Bytes) : List Recipient → Option Bytes
  | [] => none
  | r :: rs =>
    match encRecipPlain P store iv aad ct r with
    | some p => some p
    | none => firstPlain iv aad ct rs

/-- Decryption part of `verify_bcb_target`: the plaintext, `none` on any failure. -/
def bcbPlain (ctx : AadCtx) (m : Msg) : Option Bytes :=
  match ctx.tgt.btsd with
  | none => none
  | some ct =>
    match m with
    | .enc0 prot kid iv _ =>
      match encInput crcFn ctx "Encrypt0" prot, lookupKey store kid with
      | some aad, some k => P.aeadDec k iv aad ct
      | _, _ => none
    | .enc prot iv _ recips =>
      match encInput crcFn ctx "Encrypt" prot with
      | some aad => firstPlain P store iv aad ct recips
      | none => none
    | _ => none

/-- `verify_bcb_target`: (failure?, target block afterwards). The plaintext is written into the
    target only on success and only when accept-after-verify is configured. -/
def verifyBcbTarget (accept : Bool) (ctx : AadCtx) (m : Msg) : Bool × Canonical :=
  match bcbPlain P store crcFn ctx m with
  | some p => (true, if accept then { ctx.tgt with btsd := some p } else ctx.tgt)
  | none => (false, ctx.tgt)

/-! ## Source side -/

/-- `apply_bib`, direct MAC (COSE_Mac0) for one target: the security result (payload detached). -/
def applyMac0 (ctx : AadCtx) (prot kid : Bytes) (k : Key) : Option Msg :=
  match macInput crcFn ctx "MAC0" prot with
  | some inp => some (.mac0 prot (some kid) none (P.mac k inp))
  | none => none

/-- `apply_bib`, COSE_Mac with one key-wrap recipient. -/
def applyMacKw (ctx : AadCtx) (prot kid : Bytes) (kek cek : Key) : Option Msg :=
  match macInput crcFn ctx "MAC" prot with
  | some inp => some (.mac prot none (P.mac cek inp) [⟨some kid, P.keyWrap kek cek⟩])
  | none => none

/-- `apply_bcb`, COSE_Encrypt0 for one target: (security result, target block afterwards).
    The AAD is computed from the target *before* its BTSD is replaced by the ciphertext. -/
def applyEnc0 (ctx : AadCtx) (prot kid iv : Bytes) (k : Key) : Option (Msg × Canonical) :=
  match encInput crcFn ctx "Encrypt0" prot, ctx.tgt.btsd with
  | some aad, some p =>
    some (.enc0 prot (some kid) iv none, { ctx.tgt with btsd := some (P.aeadEnc k iv aad p) })
  | _, _ => none

/-- `apply_bcb`, COSE_Encrypt with one key-wrap recipient. -/
def applyEncKw (ctx : AadCtx) (prot kid iv : Bytes) (kek cek : Key) : Option (Msg × Canonical) :=
  match encInput crcFn ctx "Encrypt" prot, ctx.tgt.btsd with
  | some aad, some p =>
    some (.enc prot iv none [⟨some kid, P.keyWrap kek cek⟩],
          { ctx.tgt with btsd := some (P.aeadEnc cek iv aad p) })
  | _, _ => none

/-! ## A whole BIB (`CoseContext.verify_bib`) -/

/-- An abstract security block as the COSE context sees it after `extract_secblk`. -/
structure SecBlock where
  blk : Canonical
  ssrc : Eid
  targets : List Nat
  paramIds : List Nat
  scope : List (Int × Nat)
  addlProt : Bytes
  /-- per target index: the result list (type code, decoded message) -/
  results : List (List (Nat × Msg))
  deriving Repr, Inhabited

def hasDup : List Nat → Bool
  | [] => false
  | x :: xs => xs.contains x || hasDup xs

inductive Verdict where
  | ok
  | failed (reason : Nat)
  | raised
  deriving Repr, DecidableEq, Inhabited

/-- `check_secblk` (as used by `verify_bib`: `False` ⇒ FAILED_SEC): duplicate parameter ids or
    duplicate result ids within one target's results. An absent parameters field and an empty result
    array (both dissect to `None`) are read as empty lists. -/
def checkSecblk (sb : SecBlock) : Verdict :=
  if hasDup sb.paramIds || sb.results.any (fun r => hasDup (r.map (·.1))) then .failed 15 else .ok

def ctxFor (primary : Primary) (blocks : List Canonical) (sb : SecBlock) (tgt : Canonical) : AadCtx :=
  ⟨sb.ssrc, sb.scope, primary, blocks, sb.blk, tgt, sb.addlProt⟩

/-- Loop of `verify_bib` over the targets from index `ix`; `fail` = a FAILED_SEC was recorded. -/
def verifyBibLoop (b : Bundle) (sb : SecBlock) : List Nat → Nat → Bool → Verdict
  | [], _, fail => if fail then .failed 15 else .ok
  | t :: ts, ix, fail =>
    match findBlock b.blocks t with
    | none => .raised
    | some tgt =>
      match sb.results[ix]? with
      | none => .raised
      | some [(_, m)] =>
        let good := verifyBibTarget P store crcFn (ctxFor b.primary b.blocks sb tgt) (m.attach (tgt.btsd.getD []))
        verifyBibLoop b sb ts (ix + 1) (fail || !good)
      | some _ => verifyBibLoop b sb ts (ix + 1) true

/-- `CoseContext.verify_bib` as a verdict (`ok` = it returned `None`). -/
def verifyBib (b : Bundle) (sb : SecBlock) : Verdict :=
  match checkSecblk sb with
  | .ok => verifyBibLoop P store crcFn b sb sb.targets 0 false
  | v => v

/-! ## What the codec does to dtn EID text before the AAD is built

  The external AAD is built from *decoded* endpoint IDs (`EidField.m2i` then `i2m`, through
  `urllib.parse.urlsplit`), not from the received octets. The re-encoding is the identity except for
  the normalisations below (found by the C03 check on the unchanged tree; reported as a weakness). -/

/-- TAB, CR and LF are removed anywhere in the text; a bare authority (`//node`) gets the path `/`. -/
def knownEidNorm (ssp : Bytes) : Bytes :=
  let t := ssp.filter (fun c => c != 9 && c != 13 && c != 10)
  match t with
  | 47 :: 47 :: rest => if rest.any (fun c => c == 47 || c == 63 || c == 35) then t else t ++ [47]
  | _ => t

/-! ## Key selection through a certificate (`_get_cose_key`, x5chain / x5t branch) -/

/-- What `_get_cose_key` learns about the certificate a message refers to. -/
structure CertInfo (Key : Type) where
  /-- `val_func(found_chain)` did not raise (path validation, key usages) -/
  chainValid : Bool
  /-- `tcpcl.session.match_id(security source, end-entity cert, id-on-bundleEID)`:
      `some true` = a NODE-ID of the certificate equals the security source, `some false` = the
      certificate has NODE-IDs but none matches, `none` = it has no NODE-ID at all -/
  nodeIdMatch : Option Bool
  /-- public key of the end-entity certificate -/
  key : Key

/-- The key store seen by the verifier when key references are certificates: a key is handed out only
    for a valid chain whose end-entity certificate *positively* names the security source. -/
def certStore {Key : Type} (certs : Bytes → Option (CertInfo Key)) (ref : Bytes) : Option Key :=
  match certs ref with
  | none => none
  | some c => if c.chainValid && c.nodeIdMatch == some true then some c.key else none

/-! ## What a block puts on the wire (`CanonicalBlock.ensure_block_type_specific_data`,
    `Bundle._update_from_admin`) -/

/-- A canonical block at the source: its `btsd` field and, possibly, an attached payload object
    (e.g. an `AdminRecord`) given by its own encoding. -/
structure TxBlock where
  blk : Canonical
  attached : Option Bytes

/-- The BTSD emitted: the field when it is set; the attached object is encoded only into an unset field. -/
def TxBlock.wireBtsd (b : TxBlock) : Bytes :=
  match b.blk.btsd with
  | some d => d
  | none => b.attached.getD []

/-! ## A whole BIB at the source (`CoseContext.apply_bib`, one COSE_Mac0 per operation) -/

/-- Results of `apply_bib` for the operations' target block numbers *in policy order*: result `i` is
    the MAC over target `i`. `none` = a target block is missing or the AAD cannot be built. -/
def applyBibResults (b : Bundle) (sb0 : SecBlock) (prot kid : Bytes) (k : Key) :
    List Nat → Option (List (List (Nat × Msg)))
  | [] => some []
  | t :: ts =>
    match findBlock b.blocks t with
    | none => none
    | some tgt =>
      match applyMac0 P crcFn (ctxFor b.primary b.blocks sb0 tgt) prot kid k, applyBibResults b sb0 prot kid k ts with
      | some m, some rs => some ([(17, m)] :: rs)
      | _, _ => none

/-- The BIB `apply_bib` adds: the target list is the operations' block numbers in the order the
    policy produced them, the results in the same order. -/
def applyBib (b : Bundle) (blk : Canonical) (ssrc : Eid) (scope : List (Int × Nat)) (prot kid : Bytes) (k : Key)
    (targets : List Nat) : Option SecBlock :=
  let sb0 : SecBlock := ⟨blk, ssrc, targets, [5], scope, [], []⟩
  match applyBibResults P crcFn b sb0 prot kid k targets with
  | none => none
  | some rs => some { sb0 with results := rs }

/-! ## A whole BCB (`CoseContext.verify_bcb`) -/

/-- the target block object is shared with the container: writing its BTSD changes the bundle -/
def replaceBlock (blocks : List Canonical) (c : Canonical) : List Canonical :=
  blocks.map (fun b => if b.blockNum == c.blockNum then c else b)

/-- Loop of `verify_bcb` over the targets from index `ix`: verdict and the canonical blocks afterwards
    (accepted targets hold their plaintext). `fail` = a FAILED_SEC was recorded for an earlier target;
    it is never withdrawn by a later target that verifies. -/
def verifyBcbLoop (accept : Bool) (prim : Primary) (sb : SecBlock) :
    List Nat → List Canonical → Nat → Bool → Verdict × List Canonical
  | [], blocks, _, fail => (if fail then .failed 15 else .ok, blocks)
  | t :: ts, blocks, ix, fail =>
    match findBlock blocks t with
    | none => (.raised, blocks)
    | some tgt =>
      match sb.results[ix]? with
      | none => (.raised, blocks)
      | some [(_, m)] =>
        let r := verifyBcbTarget P store crcFn accept (ctxFor prim blocks sb tgt) (m.attach (tgt.btsd.getD []))
        verifyBcbLoop accept prim sb ts (if accept then replaceBlock blocks r.2 else blocks) (ix + 1) (fail || !r.1)
      | some _ => verifyBcbLoop accept prim sb ts blocks (ix + 1) true

/-- `CoseContext.verify_bcb`: verdict (`ok` = it returned `None`) and the blocks afterwards. -/
def verifyBcb (accept : Bool) (b : Bundle) (sb : SecBlock) : Verdict × List Canonical :=
  match checkSecblk sb with
  | .ok => verifyBcbLoop P store crcFn accept b.primary sb sb.targets b.blocks 0 false
  | v => (v, b.blocks)

end

end Sec
end DtnVerif
