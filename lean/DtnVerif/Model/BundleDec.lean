/-
  BPv7 bundle decoders mirroring what `bp.encoding.Bundle(bytes)` accepts for the supported
  subset (cbor2 + scapy_cbor `CborArray.do_dissect` over PrimaryBlock / CanonicalBlock /
  Timestamp / EidField), the EID normalisation that `EidField.i2m ∘ EidField.m2i` performs
  (Python's `urlsplit`), and — written from RFC 9171 / RFC 8949 and *not* from the Python —
  an independent encoder `rfcEncode` (through a generic CBOR item tree) and an independent
  recogniser `rfc9171Shape` (through a generic CBOR item skipper).
  Import-free (apart from the shared models), executable.

  Supported subset of the decoder: definite-length heads of any width (cbor2 accepts non-shortest
  forms), uint in integer slots, bstr or CBOR null in byte-string slots, exact arities
  (crc field present iff crc type ≠ 0, fragment fields iff the fragment flag), crc type ∈ {0,1,2}
  (`CrcType(n)` raises otherwise), EIDs `[1,0]`, `[1,tstr]`, `[2,[uint…]]` with ≥ 1 component.
  Everything else yields `none` (= "the real decoder raises, or the input is outside the model").
-/
import DtnVerif.Model.Bundle
namespace DtnVerif
namespace Bp
open Cbor

/-! ## Model decoders -/

def decNatList : Nat → Bytes → Option (List Nat × Bytes)
  | 0, b => some ([], b)
  | n+1, b =>
    match decUint b with
    | none => none
    | some (x, r) =>
      match decNatList n r with
      | none => none
      | some (xs, r') => some (x :: xs, r')

/-- CBOR-level EID exactly as on the wire (`[1,0]`, `[1,tstr]`, `[2,[uints]]`). -/
def decEidRaw (b : Bytes) : Option (Eid × Bytes) :=
  match decArrHead b with
  | none => none
  | some (n, r0) =>
    if n != 2 then none else
    match decUint r0 with
    | none => none
    | some (sch, r1) =>
      if sch == 1 then
        match decHead r1 with
        | some (0, v, r2) => if v == 0 then some (.dtnNone, r2) else none
        | some (3, len, r2) =>
          if r2.length < len then none else some (.dtn (r2.take len), r2.drop len)
        | _ => none
      else if sch == 2 then
        match decArrHead r1 with
        | none => none
        | some (k, r2) =>
          if k == 0 then none else
          match decNatList k r2 with
          | none => none
          | some (ps, r3) => some (.ipn ps, r3)
      else none

def decTimestamp (b : Bytes) : Option (Timestamp × Bytes) :=
  match decArrHead b with
  | none => none
  | some (n, r0) =>
    if n != 2 then none else
    match decUint r0 with
    | none => none
    | some (t, r1) =>
      match decUint r1 with
      | none => none
      | some (s, r2) => some (⟨t, s⟩, r2)

/-- A byte-string slot (`BstrField.m2i(x) = bytes(x)`, `TypeError → None`): a bstr is taken as it
    is, CBOR null and a text string give `None`, and — quirk of `bytes(int)` — an unsigned integer `n` gives `n` zero
    octets (so `00` in place of `40` decodes to the empty string; one of the D20 classes).
    Like the machine the code runs on (`MemoryError`), the model refuses the allocation above a
    cap; the harness does not run inputs asking for ≥ 2^17 octets on the implementation. -/
def bstrAllocCap : Nat := 131072

def decOptBstr (b : Bytes) : Option (Option Bytes × Bytes) :=
  match decBstr b with
  | some (d, r) => some (some d, r)
  | none =>
    match decUint b with
    | some (n, r) => if n < bstrAllocCap then some (some (List.replicate n 0), r) else none
    | none =>
      match decTstr b with
      | some (_, r) => some (none, r)     -- a text string: `bytes(str)` raises TypeError → None
      | none =>
        match b with
        | [] => none
        | x :: r => if x == 0xf6 then some (none, r) else none

/-- Two unsigned integers when `c`, nothing (defaults 0, 0) otherwise (ConditionalField pair). -/
def decFragPair (c : Bool) (b : Bytes) : Option (Nat × Nat × Bytes) :=
  if c then
    match decUint b with
    | none => none
    | some (o, r) =>
      match decUint r with
      | none => none
      | some (t, r') => some (o, t, r')
  else some (0, 0, b)

/-- Optional trailing crc_value slot (ConditionalField on crc type ≠ 0). -/
def decCrcSlot (c : Bool) (b : Bytes) : Option (Option Bytes × Bytes) :=
  if c then decOptBstr b else some (none, b)

def decPrimaryRaw (b : Bytes) : Option (Primary × Bytes) :=
  match decArrHead b with
  | none => none
  | some (n, r0) =>
  match decUint r0 with
  | none => none
  | some (version, r1) =>
  match decUint r1 with
  | none => none
  | some (flags, r2) =>
  match decUint r2 with
  | none => none
  | some (crcType, r3) =>
  if crcType > 2 then none else
  match decEidRaw r3 with
  | none => none
  | some (dest, r4) =>
  match decEidRaw r4 with
  | none => none
  | some (src, r5) =>
  match decEidRaw r5 with
  | none => none
  | some (rpt, r6) =>
  match decTimestamp r6 with
  | none => none
  | some (ts, r7) =>
  match decUint r7 with
  | none => none
  | some (lifetime, r8) =>
  match decFragPair (isFragment flags) r8 with
  | none => none
  | some (fragOff, totalLen, r9) =>
  match decCrcSlot (crcType != 0) r9 with
  | none => none
  | some (crc, r10) =>
    let p : Primary := { version, flags, crcType, dest, src, rpt, ts, lifetime, fragOff, totalLen, crc }
    if n != p.count then none else some (p, r10)

def decCanonical (b : Bytes) : Option (Canonical × Bytes) :=
  match decArrHead b with
  | none => none
  | some (n, r0) =>
  match decUint r0 with
  | none => none
  | some (typeCode, r1) =>
  match decUint r1 with
  | none => none
  | some (blockNum, r2) =>
  match decUint r2 with
  | none => none
  | some (flags, r3) =>
  match decUint r3 with
  | none => none
  | some (crcType, r4) =>
  if crcType > 2 then none else
  match decOptBstr r4 with
  | none => none
  | some (btsd, r5) =>
  match decCrcSlot (crcType != 0) r5 with
  | none => none
  | some (crc, r6) =>
    let c : Canonical := { typeCode, blockNum, flags, crcType, btsd, crc }
    if n != c.count then none else some (c, r6)

/-- Canonical blocks up to the `0xff` break of the outer indefinite array (fuel = octets left). -/
def decBlocks : Nat → Bytes → Option (List Canonical × Bytes)
  | 0, _ => none
  | _, [] => none
  | fuel+1, x :: r =>
    if x == 0xff then some ([], r)
    else match decCanonical (x :: r) with
      | none => none
      | some (c, r') =>
        match decBlocks fuel r' with
        | none => none
        | some (cs, r'') => some (c :: cs, r'')

/-- exactly `n` canonical blocks (definite outer array, which cbor2 accepts as well) -/
def decBlocksN : Nat → Bytes → Option (List Canonical × Bytes)
  | 0, b => some ([], b)
  | n+1, b =>
    match decCanonical b with
    | none => none
    | some (c, r) =>
      match decBlocksN n r with
      | none => none
      | some (cs, r') => some (c :: cs, r')

/-- `cbor2.loads` + `Bundle.do_dissect`, field values as on the wire (EIDs not yet normalised).
    Octets after the first CBOR item are ignored, as `cbor2.loads` does. -/
def decodeBundleRaw (b : Bytes) : Option Bundle :=
  match b with
  | [] => none
  | x :: r =>
    if x == 0x9f then
      match decPrimaryRaw r with
      | none => none
      | some (p, r') =>
        match decBlocks r'.length r' with
        | none => none
        | some (cs, _) => some ⟨p, cs⟩
    else
      match decArrHead (x :: r) with
      | none => none
      | some (n, r0) =>
        if n == 0 then none else
        match decPrimaryRaw r0 with
        | none => none
        | some (p, r') =>
          match decBlocksN (n - 1) r' with
          | none => none
          | some (cs, _) => some ⟨p, cs⟩

/-! ## EID normalisation (`EidField.i2m (EidField.m2i x)`)

The decoded EID is held as the text `dtn:<ssp>`; every encoding (and every CRC computation) goes
through `urllib.parse.urlsplit` again. `urlsplit` removes TAB/CR/LF and splits authority, path,
query and fragment; the field code re-inserts a `/` after a non-empty authority and (since the D19
fix) appends the *raw* text from the first `?` or `#` on. -/

def stripTRN (s : Bytes) : Bytes := s.filter (fun c => c != 9 && c != 10 && c != 13)
/-- `/`, `?`, `#` end the authority -/
def isDelim (c : UInt8) : Bool := c == 0x2f || c == 0x3f || c == 0x23
/-- `?` or `#` -/
def isQF (c : UInt8) : Bool := c == 0x23 || c == 0x3f
/-- cut at the first `#` or `?` -/
def cutQF (s : Bytes) : Bytes := s.takeWhile (fun c => !isQF c)
/-- the text from the first `#` or `?` on (`x[ix:]` in `EidField.i2m`) -/
def tailQF (s : Bytes) : Bytes := s.dropWhile (fun c => !isQF c)
/-- `[`, `]` (IPv6 literal checks) and non-ASCII (NFKC check) in the authority are outside the model -/
def oddAuth (c : UInt8) : Bool := c == 0x5b || c == 0x5d || c ≥ 0x80

def normSsp (ssp : Bytes) : Option Bytes :=
  let tail := tailQF ssp
  let s := stripTRN ssp
  if s.take 2 == [0x2f, 0x2f] then
    let t := s.drop 2
    let netloc := t.takeWhile (fun c => !isDelim c)
    let path := cutQF (t.dropWhile (fun c => !isDelim c))
    if netloc.any oddAuth then none
    else if netloc.isEmpty then some (path ++ tail)
    else some ([0x2f, 0x2f] ++ netloc ++ (if path.head? == some 0x2f then path else 0x2f :: path) ++ tail)
  else some (cutQF s ++ tail)

/-- octets of the text `none` -/
def sspNone : Bytes := [0x6e, 0x6f, 0x6e, 0x65]

def normEid : Eid → Option Eid
  | .dtnNone => some .dtnNone
  | .dtn ssp => if ssp == sspNone then some .dtnNone else (normSsp ssp).map Eid.dtn
  | .ipn ps => some (.ipn ps)

def normPrimary (p : Primary) : Option Primary :=
  match normEid p.dest, normEid p.src, normEid p.rpt with
  | some d, some s, some r => some { p with dest := d, src := s, rpt := r }
  | _, _, _ => none

/-- What re-encoding the decoded object would emit, as a `Bundle` value. -/
def normBundle (b : Bundle) : Option Bundle :=
  (normPrimary b.primary).map fun p => { b with primary := p }

/-- Decoded bundle in the form in which it is re-encoded / CRC-checked. -/
def decodeBundle (b : Bytes) : Option Bundle := (decodeBundleRaw b).bind normBundle

/-! ## DTN time (RFC 9171 §4.2.6): milliseconds since 2000-01-01T00:00:00Z

`DtnTimeField.datetime_to_dtntime`: a Python `datetime` is an exact count of microseconds since the
epoch; the field value is that count divided by 1000 with integer division (`timedelta / timedelta`
then `int`), `dtntime_to_datetime` multiplies back. No floating point is involved. -/

def dtnTimeOfMicros (us : Nat) : Nat := us / 1000
def microsOfDtnTime (t : Nat) : Nat := t * 1000

/-! ## Well-formedness (explicit, decidable) -/

def u64 (n : Nat) : Bool := n < 18446744073709551616

def wfEid (e : Eid) : Bool :=
  normEid e == some e &&
  match e with
  | .dtnNone => true
  | .dtn ssp => u64 ssp.length
  | .ipn ps => !ps.isEmpty && u64 ps.length && ps.all u64

def wfOptBytes : Option Bytes → Bool
  | none => true
  | some d => u64 d.length

def wfPrimary (p : Primary) : Bool :=
  u64 p.version && u64 p.flags && p.crcType ≤ 2 && wfEid p.dest && wfEid p.src && wfEid p.rpt
  && u64 p.ts.time && u64 p.ts.seq && u64 p.lifetime
  && (if isFragment p.flags then u64 p.fragOff && u64 p.totalLen
      else p.fragOff == 0 && p.totalLen == 0)
  && (if p.crcType != 0 then wfOptBytes p.crc else p.crc.isNone)

def wfCanonical (c : Canonical) : Bool :=
  u64 c.typeCode && u64 c.blockNum && u64 c.flags && c.crcType ≤ 2 && wfOptBytes c.btsd
  && (if c.crcType != 0 then wfOptBytes c.crc else c.crc.isNone)

/-- Codec well-formedness: what the round trip needs. -/
def wf (b : Bundle) : Bool := wfPrimary b.primary && b.blocks.all wfCanonical

/-- the payload block (type 1) is the last block and the only one of its type -/
def payloadLast : List Canonical → Bool
  | [] => false
  | [c] => c.typeCode == 1
  | c :: cs => c.typeCode != 1 && payloadLast cs

def crcFieldOk (t : Nat) (crc : Option Bytes) : Bool :=
  match crc with
  | none => t == 0
  | some d => t != 0 && d.length == crcWidth t

/-- RFC 9171 well-formedness on top of `wf`: version 7, no nulls, CRC fields of the right width,
    payload block last. -/
def rfcWf (b : Bundle) : Bool :=
  wf b && b.primary.version == 7 && crcFieldOk b.primary.crcType b.primary.crc
  && b.blocks.all (fun c => c.btsd.isSome && crcFieldOk c.crcType c.crc)
  && payloadLast b.blocks

/-! ## RFC 9171 endpoint IDs (independent of the normalisation above) -/

def isNameChar (c : UInt8) : Bool :=
  (0x30 ≤ c && c ≤ 0x39) || (0x41 ≤ c && c ≤ 0x5a) || (0x61 ≤ c && c ≤ 0x7a)
  || c == 0x2d || c == 0x2e || c == 0x5f
def isVchar (c : UInt8) : Bool := 0x21 ≤ c && c ≤ 0x7e

/-- RFC 9171 §4.2.5.1.1: `dtn-hier-part = "//" node-name name-delim demux`, `node-name =
    1*(ALPHA/DIGIT/"-"/"."/"_")`, `name-delim = "/"`, `demux = *VCHAR`; `dtn:none`;
    §4.2.5.1.2: two-element ipn. -/
def rfcEid : Eid → Bool
  | .dtnNone => true
  | .ipn ps => ps.length == 2 && ps.all u64
  | .dtn ssp =>
    u64 ssp.length && ssp.take 2 == [0x2f, 0x2f] &&
    (let t := ssp.drop 2
     let d := t.dropWhile isNameChar
     !(t.takeWhile isNameChar).isEmpty && d.head? == some 0x2f && d.tail.all isVchar)

/-- `wf` with "EID is a fixed point of the code's normalisation" replaced by "EID is RFC 9171
    well-formed" — the predicate the property statement speaks about. -/
def wfRfcEids (b : Bundle) : Bool :=
  let p := b.primary
  u64 p.version && u64 p.flags && p.crcType ≤ 2 && rfcEid p.dest && rfcEid p.src && rfcEid p.rpt
  && u64 p.ts.time && u64 p.ts.seq && u64 p.lifetime
  && (if isFragment p.flags then u64 p.fragOff && u64 p.totalLen
      else p.fragOff == 0 && p.totalLen == 0)
  && (if p.crcType != 0 then wfOptBytes p.crc else p.crc.isNone)
  && b.blocks.all wfCanonical

/-! ## Independent RFC 9171 encoder (generic CBOR item tree, RFC 8949 §3) -/

inductive Item where
  | uint (n : Nat)
  | bstr (d : Bytes)
  | tstr (d : Bytes)
  | arr (xs : List Item)
  | null

/-- big-endian digits of `n` in `k` octets (RFC 8949: "network byte order") -/
def rfcBE : Nat → Nat → Bytes
  | 0, _ => []
  | k+1, n => rfcBE k (n / 256) ++ [UInt8.ofNat (n % 256)]

/-- RFC 8949 §3: initial byte = major type in the high 3 bits, additional information in the low 5;
    arguments 0..23 inline, then 1, 2, 4, 8 following octets (preferred = shortest serialisation,
    RFC 9171 §4.1 requires definite length / RFC 8949 §4.2.1 core deterministic heads). -/
def rfcHead (mt n : Nat) : Bytes :=
  if n ≤ 23 then [UInt8.ofNat (mt <<< 5 ||| n)]
  else if n ≤ 0xff then UInt8.ofNat (mt <<< 5 ||| 24) :: rfcBE 1 n
  else if n ≤ 0xffff then UInt8.ofNat (mt <<< 5 ||| 25) :: rfcBE 2 n
  else if n ≤ 0xffffffff then UInt8.ofNat (mt <<< 5 ||| 26) :: rfcBE 4 n
  else UInt8.ofNat (mt <<< 5 ||| 27) :: rfcBE 8 n

mutual
  def encItem : Item → Bytes
    | .uint n => rfcHead 0 n
    | .bstr d => rfcHead 2 d.length ++ d
    | .tstr d => rfcHead 3 d.length ++ d
    | .arr xs => rfcHead 4 xs.length ++ encItems xs
    | .null => [0xf6]
  def encItems : List Item → Bytes
    | [] => []
    | x :: xs => encItem x ++ encItems xs
end

/-- RFC 9171 §4.2.5: `[1, 0]` (dtn:none), `[1, tstr]`, `[2, [node, service]]`. -/
def eidItem : Eid → Item
  | .dtnNone => .arr [.uint 1, .uint 0]
  | .dtn ssp => .arr [.uint 1, .tstr ssp]
  | .ipn ps => .arr [.uint 2, .arr (ps.map .uint)]

def optBstrItem : Option Bytes → Item
  | none => .null
  | some d => .bstr d

/-- RFC 9171 §4.3.1 primary block: version, flags, CRC type, destination, source, report-to,
    creation timestamp `[time, seq]`, lifetime, [fragment offset, total ADU length], [CRC]. -/
def primaryItem (p : Primary) : Item :=
  .arr ([.uint p.version, .uint p.flags, .uint p.crcType, eidItem p.dest, eidItem p.src,
         eidItem p.rpt, .arr [.uint p.ts.time, .uint p.ts.seq], .uint p.lifetime]
        ++ (if p.flags % 2 = 1 then [.uint p.fragOff, .uint p.totalLen] else [])
        ++ (if p.crcType = 0 then [] else [optBstrItem p.crc]))

/-- RFC 9171 §4.3.2 canonical block: type, number, flags, CRC type, data (bstr), [CRC]. -/
def canonicalItem (c : Canonical) : Item :=
  .arr ([.uint c.typeCode, .uint c.blockNum, .uint c.flags, .uint c.crcType, optBstrItem c.btsd]
        ++ (if c.crcType = 0 then [] else [optBstrItem c.crc]))

/-- RFC 9171 §4.1: a bundle is an indefinite-length array: primary block, canonical blocks, break. -/
def rfcEncode (b : Bundle) : Bytes :=
  [0x9f] ++ encItem (primaryItem b.primary) ++ encItems (b.blocks.map canonicalItem) ++ [0xff]

/-! ## Independent RFC 9171 shape recogniser (generic CBOR item skipper) -/

/-- Read one definite head: (major type, argument, rest). RFC 8949 §3: additional information
    0..23 = the argument itself, 24/25/26/27 = 1/2/4/8 following octets in network byte order;
    28..30 reserved, 31 (indefinite / break) not allowed here. -/
def rdHead : Bytes → Option (Nat × Nat × Bytes)
  | [] => none
  | b :: r =>
    let mt := b.toNat / 32
    let ai := b.toNat % 32
    if ai < 24 then some (mt, ai, r)
    else if ai = 24 then
      match r with
      | a :: r' => some (mt, a.toNat, r')
      | _ => none
    else if ai = 25 then
      match r with
      | a :: b :: r' => some (mt, a.toNat * 256 + b.toNat, r')
      | _ => none
    else if ai = 26 then
      match r with
      | a :: b :: c :: d :: r' =>
        some (mt, ((a.toNat * 256 + b.toNat) * 256 + c.toNat) * 256 + d.toNat, r')
      | _ => none
    else if ai = 27 then
      match r with
      | a :: b :: c :: d :: e :: f :: g :: h :: r' =>
        some (mt, ((((((a.toNat * 256 + b.toNat) * 256 + c.toNat) * 256 + d.toNat) * 256
                    + e.toNat) * 256 + f.toNat) * 256 + g.toNat) * 256 + h.toNat, r')
      | _ => none
    else none

/-- Skip `n` pending well-formed definite-length CBOR items. An array head of `k` items replaces
    one pending item by `k`, a map head by `2k`, a tag by its one content item. Every step consumes
    at least one octet, so fuel = number of octets suffices. -/
def skipItems : Nat → Nat → Bytes → Option Bytes
  | _, 0, b => some b
  | 0, _+1, _ => none
  | fuel+1, n+1, b =>
    match rdHead b with
    | none => none
    | some (mt, arg, r) =>
      if mt ≤ 1 ∨ mt = 7 then skipItems fuel n r
      else if mt = 2 ∨ mt = 3 then
        if r.length < arg then none else skipItems fuel n (r.drop arg)
      else if mt = 4 then skipItems fuel (n + arg) r
      else if mt = 5 then skipItems fuel (n + 2 * arg) r
      else skipItems fuel (n + 1) r

/-- An unsigned integer item. -/
def rdUint (b : Bytes) : Option (Nat × Bytes) :=
  match rdHead b with
  | some (0, n, r) => some (n, r)
  | _ => none

/-- A byte string item: its length and the rest. -/
def rdBstr (b : Bytes) : Option (Nat × Bytes) :=
  match rdHead b with
  | some (2, n, r) => if r.length < n then none else some (n, r.drop n)
  | _ => none

/-- Primary block shape: definite array of 8–11 items = 8 + 2·fragment + (crc ≠ 0); version 7;
    flags, CRC type unsigned; three EIDs, timestamp, lifetime well-formed items; CRC a byte string
    of the width the CRC type dictates. Returns the rest. -/
def shapePrimary (b : Bytes) : Option Bytes :=
  match rdHead b with
  | some (4, n, r0) =>
    if n < 8 ∨ 11 < n then none else
    match rdUint r0 with
    | none => none
    | some (ver, r1) =>
    if ver ≠ 7 then none else
    match rdUint r1 with
    | none => none
    | some (flags, r2) =>
    match rdUint r2 with
    | none => none
    | some (ct, r3) =>
    if ct > 2 then none else
    let frag := flags % 2 = 1
    if n ≠ 8 + (if frag then 2 else 0) + (if ct = 0 then 0 else 1) then none else
    match skipItems r3.length (5 + (if frag then 2 else 0)) r3 with
    | none => none
    | some r4 =>
      if ct = 0 then some r4 else
      match rdBstr r4 with
      | none => none
      | some (len, r5) => if len = 2 * ct then some r5 else none
  | _ => none

/-- Canonical block shape: definite array of 5–6 items; type, number, flags, CRC type unsigned;
    data a byte string; CRC a byte string of the right width. Returns (type code, rest). -/
def shapeCanonical (b : Bytes) : Option (Nat × Bytes) :=
  match rdHead b with
  | some (4, n, r0) =>
    match rdUint r0 with
    | none => none
    | some (ty, r1) =>
    match rdUint r1 with
    | none => none
    | some (_, r2) =>
    match rdUint r2 with
    | none => none
    | some (_, r3) =>
    match rdUint r3 with
    | none => none
    | some (ct, r4) =>
    if ct > 2 then none else
    if n ≠ 5 + (if ct = 0 then 0 else 1) then none else
    match rdBstr r4 with
    | none => none
    | some (_, r5) =>
      if ct = 0 then some (ty, r5) else
      match rdBstr r5 with
      | none => none
      | some (len, r6) => if len = 2 * ct then some (ty, r6) else none
  | _ => none

/-- canonical blocks until the break; `last` = type code of the previous block, if any.
    Accepts iff the stream ends exactly at the break, there is at least one block, the last block
    is the payload block (type 1) and no earlier block has type 1. -/
def shapeBlocks : Nat → Option Nat → Bytes → Bool
  | 0, _, _ => false
  | _, _, [] => false
  | fuel+1, last, x :: r =>
    if x == 0xff then r.isEmpty && last == some 1
    else if last == some 1 then false
    else match shapeCanonical (x :: r) with
      | none => false
      | some (ty, r') => shapeBlocks fuel (some ty) r'

/-- RFC 9171 §4.1/§4.3: indefinite array, primary block (8–11 items), canonical blocks (5–6 items),
    payload block last, break, nothing after. -/
def rfc9171Shape (b : Bytes) : Bool :=
  match b with
  | 0x9f :: r =>
    match shapePrimary r with
    | none => false
    | some r' => shapeBlocks r'.length none r'
  | _ => false

end Bp
end DtnVerif
