/-
  TCPCLv4 message codec and receive framing, mirroring tcpcl/{messages,contact,formats}.py and
  `Messenger.recv_raw` (probe-decode, re-encode, consume). Import-free, executable.

  What the real receiver does (established by experiments on the real decoder, see DESIGN §7):
  scapy falls back to `Raw` for any incomplete or unknown payload and `MessageHead.post_dissection`
  turns that into `VerifyError` = "wait for more octets". Framing therefore depends only on the type
  octet, the fixed header widths and the three length fields. Extension-item lists are carried by the
  receiver as an opaque blob of `ext_size` octets.
-/
import DtnVerif.Model.Bytes
namespace DtnVerif
namespace Tcpcl

/-- Message type codes (RFC 9174 §4.?; pinned against Facts in Props/C07). -/
def tXferSegment : Nat := 1
def tXferAck : Nat := 2
def tXferRefuse : Nat := 3
def tKeepalive : Nat := 4
def tSessTerm : Nat := 5
def tMsgReject : Nat := 6
def tSessInit : Nat := 7

def magic : Bytes := [0x64, 0x74, 0x6e, 0x21]   -- "dtn!"

def flagEnd : Nat := 1
def flagStart : Nat := 2

def hasStart (flags : Nat) : Bool := (flags / 2) % 2 == 1
def hasEnd (flags : Nat) : Bool := flags % 2 == 1

inductive Msg where
  /-- contact header, version 4 -/
  | contact (flags : Nat)
  | sessInit (keepalive segMru xferMru : Nat) (nodeId : Bytes) (ext : Bytes)
  | sessTerm (flags reason : Nat)
  /-- `ext` is the encoded extension-item list; present on the wire iff START is set -/
  | xferSegment (flags tid : Nat) (ext : Bytes) (data : Bytes)
  | xferAck (flags tid len : Nat)
  | xferRefuse (reason tid : Nat)
  | keepalive
  | msgReject (rejId reason : Nat)
  deriving Repr, DecidableEq, Inhabited

def u8 (n : Nat) : Bytes := beBytes 1 n
def u16 (n : Nat) : Bytes := beBytes 2 n
def u32 (n : Nat) : Bytes := beBytes 4 n
def u64 (n : Nat) : Bytes := beBytes 8 n

/-- message type octet (0 for the contact header, which has none) -/
def Msg.type : Msg → Nat
  | .contact _ => 0
  | .sessInit .. => tSessInit
  | .sessTerm .. => tSessTerm
  | .xferSegment .. => tXferSegment
  | .xferAck .. => tXferAck
  | .xferRefuse .. => tXferRefuse
  | .keepalive => tKeepalive
  | .msgReject .. => tMsgReject

/-- everything after the type octet -/
def Msg.body : Msg → Bytes
  | .contact flags => u8 flags
  | .sessInit ka sm xm node ext =>
      u16 ka ++ (u64 sm ++ (u64 xm ++ (u16 node.length ++ (node ++ (u32 ext.length ++ ext)))))
  | .sessTerm flags reason => u8 flags ++ u8 reason
  | .xferSegment flags tid ext data =>
      u8 flags ++ (u64 tid
      ++ (if hasStart flags then u32 ext.length ++ (ext ++ (u64 data.length ++ data))
          else u64 data.length ++ data))
  | .xferAck flags tid len => u8 flags ++ (u64 tid ++ u64 len)
  | .xferRefuse reason tid => u8 reason ++ u64 tid
  | .keepalive => []
  | .msgReject rejId reason => u8 rejId ++ u8 reason

def encode (m : Msg) : Bytes :=
  match m with
  | .contact _ => magic ++ u8 4 ++ m.body
  | _ => u8 m.type ++ m.body

/-- the octet stream of a message sequence -/
def encodeAll : List Msg → Bytes
  | [] => []
  | m :: ms => encode m ++ encodeAll ms

/-- Values fit their fixed-width fields (what `struct.pack` accepts) and the extension list is
    only present with START. -/
def Msg.WF : Msg → Prop
  | .contact flags => flags < 256
  | .sessInit ka sm xm node ext =>
      ka < 65536 ∧ sm < 2^64 ∧ xm < 2^64 ∧ node.length < 65536 ∧ ext.length < 2^32
  | .sessTerm flags reason => flags < 256 ∧ reason < 256
  | .xferSegment flags tid ext data =>
      flags < 256 ∧ tid < 2^64 ∧ ext.length < 2^32 ∧ data.length < 2^64 ∧
      (hasStart flags = false → ext = [])
  | .xferAck flags tid len => flags < 256 ∧ tid < 2^64 ∧ len < 2^64
  | .xferRefuse reason tid => reason < 256 ∧ tid < 2^64
  | .keepalive => True
  | .msgReject rejId reason => rejId < 256 ∧ reason < 256

instance (m : Msg) : Decidable m.WF := by
  cases m <;> unfold Msg.WF <;> infer_instance

/-- Is this message the contact header (decoded before `_in_conn`) -/
def Msg.isContact : Msg → Bool
  | .contact _ => true
  | _ => false

inductive Probe where
  /-- incomplete: leave the buffer untouched and wait for more octets -/
  | need
  /-- a complete message occupying the first `n` octets -/
  | got (m : Msg) (n : Nat)
  /-- contact header with wrong magic or version (the endpoint closes) -/
  | bad
  deriving Repr, DecidableEq, Inhabited

/-- A parser consumes a prefix of the buffer and returns a value and the rest, or `none`
    ("not yet complete"). -/
abbrev P (α : Type) := Bytes → Option (α × Bytes)

def P.pure {α} (a : α) : P α := fun b => some (a, b)

def P.bind {α β} (p : P α) (f : α → P β) : P β := fun b =>
  match p b with
  | none => none
  | some (a, r) => f a r

/-- take exactly `k` octets as a big-endian number, or fail if fewer are present -/
def takeNat (k : Nat) : P Nat := fun b =>
  if b.length < k then none else some (beNat (b.take k), b.drop k)

def takeBytes (k : Nat) : P Bytes := fun b =>
  if b.length < k then none else some (b.take k, b.drop k)

def pSegment : P Msg :=
  (takeNat 1).bind fun flags => (takeNat 8).bind fun tid =>
    if hasStart flags then
      (takeNat 4).bind fun es => (takeBytes es).bind fun ext =>
      (takeNat 8).bind fun len => (takeBytes len).bind fun data =>
      P.pure (.xferSegment flags tid ext data)
    else
      (takeNat 8).bind fun len => (takeBytes len).bind fun data =>
      P.pure (.xferSegment flags tid [] data)

def pAck : P Msg :=
  (takeNat 1).bind fun flags => (takeNat 8).bind fun tid => (takeNat 8).bind fun len =>
    P.pure (.xferAck flags tid len)

def pRefuse : P Msg :=
  (takeNat 1).bind fun reason => (takeNat 8).bind fun tid => P.pure (.xferRefuse reason tid)

def pTerm : P Msg :=
  (takeNat 1).bind fun flags => (takeNat 1).bind fun reason => P.pure (.sessTerm flags reason)

def pReject : P Msg :=
  (takeNat 1).bind fun rid => (takeNat 1).bind fun reason => P.pure (.msgReject rid reason)

def pInit : P Msg :=
  (takeNat 2).bind fun ka => (takeNat 8).bind fun sm => (takeNat 8).bind fun xm =>
  (takeNat 2).bind fun nl => (takeBytes nl).bind fun node =>
  (takeNat 4).bind fun es => (takeBytes es).bind fun ext =>
    P.pure (.sessInit ka sm xm node ext)

/-- Body parser per message type: returns the message and the remaining octets, or `none` when the
    buffer does not yet hold the whole message (unknown types are rejected before, by `knownType`). -/
def parseBody (t : Nat) : P Msg :=
  if t = tXferSegment then pSegment
  else if t = tXferAck then pAck
  else if t = tXferRefuse then pRefuse
  else if t = tKeepalive then P.pure .keepalive
  else if t = tSessTerm then pTerm
  else if t = tMsgReject then pReject
  else if t = tSessInit then pInit
  else fun _ => none

def knownType (t : Nat) : Bool :=
  t == tXferSegment || t == tXferAck || t == tXferRefuse || t == tKeepalive || t == tSessTerm
    || t == tMsgReject || t == tSessInit

/-- `Messenger.recv_raw`'s probe of the current receive buffer. -/
def probe (inConn : Bool) (buf : Bytes) : Probe :=
  if inConn then
    match buf with
    | [] => .need
    | t :: rest =>
      -- an unknown message type cannot be delimited: the connection is closed
      if !knownType t.toNat then .bad else
      match parseBody t.toNat rest with
      | some (m, r) => .got m (buf.length - r.length)
      | none => .need
  else
    if buf.length < 5 then .need
    else if buf.take 4 ≠ magic ∨ (buf.drop 4).head? ≠ some 4 then .bad
    else
      match (buf.drop 5).head? with
      | none => .need
      | some f => .got (.contact f.toNat) 6

/-- Receive side of the messenger as far as framing is concerned. -/
structure Rx where
  inConn : Bool := false
  buf : Bytes := []
  /-- closed because of a bad contact header or an unknown message type -/
  dead : Bool := false
  deriving Repr, DecidableEq, Inhabited

/-- The `while self.__rx_buf:` loop: extract every complete message. `fuel` bounds the iterations
    (each one consumes at least one octet, so `buf.length + 1` always suffices). -/
def drainAux : Nat → Rx → List Msg → Rx × List Msg
  | 0, rx, acc => (rx, acc)
  | fuel+1, rx, acc =>
    if rx.dead then (rx, acc) else
    match probe rx.inConn rx.buf with
    | .need => (rx, acc)
    | .bad => ({ rx with dead := true, buf := [] }, acc)
    | .got m n =>
      drainAux fuel { rx with buf := rx.buf.drop n, inConn := rx.inConn || m.isContact } (acc ++ [m])

def drain (rx : Rx) : Rx × List Msg := drainAux (rx.buf.length + 1) rx []

/-- One `recv_raw(data)` call: append, then drain. Returns the messages handed to `recv_message`. -/
def feed (rx : Rx) (chunk : Bytes) : Rx × List Msg :=
  if rx.dead then (rx, []) else drain { rx with buf := rx.buf ++ chunk }

def feedAll : Rx → List Bytes → Rx × List Msg
  | rx, [] => (rx, [])
  | rx, c :: cs =>
    let (rx1, ms1) := feed rx c
    let (rx2, ms2) := feedAll rx1 cs
    (rx2, ms1 ++ ms2)

/- ---------- independent RFC 9174 reader (written from the RFC, structured differently) ---------- -/

/-- One extension item: flags, type, value. -/
structure ExtItem where
  flags : Nat
  type : Nat
  value : Bytes
  deriving Repr, DecidableEq, Inhabited

def encExtItem (e : ExtItem) : Bytes := u8 e.flags ++ u16 e.type ++ u16 e.value.length ++ e.value

def encExtItems : List ExtItem → Bytes
  | [] => []
  | e :: es => encExtItem e ++ encExtItems es

/-- Itemise an extension blob (RFC 9174 §4.8): flags(1) type(2) length(2) value(length). -/
def decExtItems : Nat → Bytes → Option (List ExtItem)
  | 0, b => if b = [] then some [] else none
  | fuel+1, b =>
    if b = [] then some [] else
    match b with
    | f :: t1 :: t2 :: l1 :: l2 :: rest =>
      let len := l1.toNat * 256 + l2.toNat
      if rest.length < len then none else
      match decExtItems fuel (rest.drop len) with
      | some items => some (⟨f.toNat, t1.toNat * 256 + t2.toNat, rest.take len⟩ :: items)
      | none => none
    | _ => none

end Tcpcl
end DtnVerif
