/-
  The D-Bus view of the UDPCL agent (src/udpcl/agent.py): the values handed to the signals
  `send_bundle_started` (st), `send_bundle_finished` (sts), `recv_bundle_finished` (sta{sv}),
  `polling_received` (xissq) and returned by `recv_bundle_get_queue` (as), `recv_bundle_pop_data`
  (ay), `send_bundle_data` (s), type-faithful to the Python objects, over the receive model
  (`Udpcl.Rx`, `recvDatagram`, `popData`) and the send-queue model (`txRun`). Import-free, executable.
-/
import DtnVerif.Model.Udpcl
namespace DtnVerif
namespace Udpcl

/-- A Python value as it reaches dbus-python (`int` is unbounded; `other` = None, float, list of
    non-strings, …). -/
inductive DVal
  | str (s : String)
  | int (v : Int)
  | bool (b : Bool)
  | bytes (b : Bytes)
  | strs (l : List String)
  | dict (kv : List (String × DVal))
  | other
  deriving Repr

/-- One complete D-Bus type of the signatures the UDPCL agent declares. -/
inductive SigT
  | s | t | q | i | x | v | as_ | ay | asv
  deriving DecidableEq, Repr

/-- split a signature string into complete types (only the forms that occur) -/
def parseSigChars : List Char → Option (List SigT)
  | [] => some []
  | 'a' :: '{' :: 's' :: 'v' :: '}' :: r => (parseSigChars r).map (SigT.asv :: ·)
  | 'a' :: 's' :: r => (parseSigChars r).map (SigT.as_ :: ·)
  | 'a' :: 'y' :: r => (parseSigChars r).map (SigT.ay :: ·)
  | 's' :: r => (parseSigChars r).map (SigT.s :: ·)
  | 't' :: r => (parseSigChars r).map (SigT.t :: ·)
  | 'q' :: r => (parseSigChars r).map (SigT.q :: ·)
  | 'i' :: r => (parseSigChars r).map (SigT.i :: ·)
  | 'x' :: r => (parseSigChars r).map (SigT.x :: ·)
  | 'v' :: r => (parseSigChars r).map (SigT.v :: ·)
  | _ => none

def parseSig (sig : String) : Option (List SigT) := parseSigChars sig.toList

def isVariant : DVal → Bool
  | .str _ | .int _ | .bool _ | .bytes _ | .strs _ => true
  | _ => false

def inRangeU (bits : Nat) : DVal → Bool
  | .int v => decide (0 ≤ v ∧ v < 2 ^ bits)
  | .bool _ => true        -- a Python bool is an int (0/1) to dbus-python's integer marshalling
  | _ => false

def inRangeS (bits : Nat) : DVal → Bool
  | .int v => decide (-(2 ^ (bits - 1) : Int) ≤ v ∧ v < 2 ^ (bits - 1))
  | .bool _ => true
  | _ => false

/-- dbus-python marshalling: does the value conform to the type (ranges included)? -/
def conformsTo (v : DVal) : SigT → Bool
  | .s => match v with | .str _ => true | _ => false
  | .t => inRangeU 64 v
  | .q => inRangeU 16 v
  | .i => inRangeS 32 v
  | .x => inRangeS 64 v
  | .v => isVariant v
  | .as_ => match v with | .strs _ => true | _ => false
  | .ay => match v with | .bytes _ => true | _ => false
  | .asv => match v with | .dict kv => kv.all (fun e => isVariant e.2) | _ => false

def conformsAll : List DVal → List SigT → Bool
  | [], [] => true
  | v :: vs, ty :: ts => conformsTo v ty && conformsAll vs ts
  | _, _ => false

/-- What D-Bus sees. -/
inductive DOut
  | sig (name : String) (args : List DVal)
  | ret (method : String) (v : DVal)
  | raised (method : String) (what : String)
  deriving Repr

/-! ## What happens (semantic observations) and how it is put on the bus -/

inductive Obs
  | announced (id : Nat) (q : QItem)        -- `_add_rx_item`: recv_bundle_finished
  | queueRet (ids : List Nat)                -- recv_bundle_get_queue()
  | popRet (bid : Nat) (d : Bytes)           -- recv_bundle_pop_data(bid)
  | popRaised (bid : Nat)                    -- … KeyError
  | sendRet (id : Nat)                       -- send_bundle_data(...) → str(id)
  | tx (e : TxEvent)                         -- started / datagram / finished
  deriving Repr

/-- `metadata = {'address': item.address, 'port': item.port}` (received items carry no local
    address or port) -/
def rxMeta (q : QItem) : DVal := .dict [("address", .str q.addr), ("port", .int q.port)]

def render : Obs → Option DOut
  | .announced id q => some (.sig "recv_bundle_finished" [.str (toString id), .int q.length, rxMeta q])
  | .queueRet ids => some (.ret "recv_bundle_get_queue" (.strs (ids.map toString)))
  | .popRet _ d => some (.ret "recv_bundle_pop_data" (.bytes d))
  | .popRaised _ => some (.raised "recv_bundle_pop_data" "KeyError")
  | .sendRet id => some (.ret "send_bundle_data" (.str (toString id)))
  | .tx (.started id len) => some (.sig "send_bundle_started" [.str (toString id), .int len])
  | .tx (.finished id len r) => some (.sig "send_bundle_finished" [.str (toString id), .int len, .str r])
  | .tx (.dgram _) => none

/-! ## The agent as the D-Bus client drives it -/

structure DState where
  rx : Rx := Rx.init
  mtu : Option Nat := none
  txNext : Nat := 0                       -- `_tx_id`
  txQueue : List (Nat × Bytes) := []      -- `_tx_queue` (transfers only)
  deriving Repr

inductive DEv
  | dgram (addr : String) (port : Nat) (data : Bytes)   -- a datagram arrives (no TLS requirement)
  | pop (bid : Nat)
  | getQueue
  | send (data : Bytes)                                  -- send_bundle_data
  | drain                                                -- idle + pacing callbacks until nothing is pending
  deriving Repr

def dstep (st : DState) : DEv → DState × List Obs
  | .dgram addr port data =>
    let rx' := (recvDatagram false st.rx addr port data).1
    ({ st with rx := rx' }, (rx'.queue.drop st.rx.queue.length).map fun e => .announced e.1 e.2)
  | .pop bid =>
    match popData st.rx bid with
    | some (d, rx') => ({ st with rx := rx' }, [.popRet bid d])
    | none => (st, [.popRaised bid])
  | .getQueue => (st, [.queueRet (queueIds st.rx)])
  | .send data =>
    ({ st with txNext := st.txNext + 1, txQueue := st.txQueue ++ [(st.txNext, data)] },
      [.sendRet st.txNext])
  | .drain => ({ st with txQueue := [] }, (txRun st.mtu st.txQueue).map .tx)

/-- `is_transfer_idle()`: nothing received waits to be popped and nothing waits in the send queue.
    (In the code `_tx_queue` is emptied when the idle callback hands a transfer to the pacing queue,
    a little before its `finished` signal; the model's `drain` is atomic, so the two agree whenever
    no callback is pending.) -/
def isTransferIdle (st : DState) : Bool := st.rx.queue.isEmpty && st.txQueue.isEmpty

/-- state and everything observed, oldest first -/
def drun (st : DState) : List DEv → DState × List Obs
  | [] => (st, [])
  | e :: rest =>
    let (st1, o1) := dstep st e
    let (st2, o2) := drun st1 rest
    (st2, o1 ++ o2)

/-! ## polling_received -/

/-- a value a peer can put into an extension map, as cbor2 hands it over -/
inductive PyVal
  | int (v : Int) | bool (b : Bool) | str (s : String) | other
  deriving Repr

def PyVal.toD : PyVal → DVal
  | .int v => .int v | .bool b => .bool b | .str s => .str s | .other => .other

/-- `isinstance(interval_ms, int) and 0 <= interval_ms < 2 ** 31` (a `bool` is an `int`) -/
def ivalOK : PyVal → Bool
  | .int v => decide (0 ≤ v) && decide (v < 2147483648)
  | .bool _ => true
  | _ => false

/-- `isinstance(node_id, str)` -/
def nodeOK : PyVal → Bool
  | .str _ => true
  | _ => false

/-- The SENDER_LISTEN branch of `_recv_ext_map`: the signal goes out only if `node_id` is a `str`
    and `interval_ms` an `int` with `0 ≤ interval_ms < 2^31`. -/
def pollingSignal (dtntime : Int) (interval nodeId : PyVal) (addr : String) (port : Nat) : Option DOut :=
  if nodeOK nodeId && ivalOK interval then
    some (.sig "polling_received" [.int dtntime, interval.toD, nodeId.toD, .str addr, .int port])
  else none

end Udpcl
end DtnVerif
