import DtnVerif.Drv.Util
import DtnVerif.Model.Btpu
namespace DtnVerif
namespace Drv
open Lean

private def boutcomeStr : Btpu.Outcome → String
  | .done => "done"
  | .attrError => "attrError"
  | .outside => "outside"

private def bodyJson : Btpu.Body → Json
  | .nothing => jobj [("kind", Json.str "nothing")]
  | .bundle d => jobj [("kind", Json.str "bundle"), ("hex", jhex d)]
  | .seg e x i d => jobj [("kind", Json.str (if e then "end" else "seg")), ("xfer", jnat x),
      ("idx", jnat i), ("hex", jhex d)]
  | .other => jobj [("kind", Json.str "other")]

private def msgJson (m : Btpu.Msg) : Json :=
  jobj [("type", jnat m.mtype), ("flags", jnat m.flags), ("length", jnat m.length),
    ("hints", jarr (m.hints.map fun h => jobj [("type", jnat h.htype), ("h", Json.bool h.hflag),
      ("length", jnat h.length), ("hex", jhex h.data)])),
    ("payload", jhex m.payload), ("exact", Json.bool m.exact), ("body", bodyJson m.body)]

/-- ops `btpu.*` (C20) -/
def btpuHandler : Handler := fun op j =>
  match op with
  | "btpu.send" => do
    let xfer ← getNat? j "xfer"
    let data ← getHex? j "data"
    let mtu := getNat? j "mtu"
    let remain : Json := match mtu with
      | some m => jint (Btpu.remainSize m)
      | none => Json.null
    let sent := Btpu.framesSent xfer data mtu
    match Btpu.sendTransfer xfer data mtu with
    | .ok fs => some (jobj [("frames", jarr (fs.map jhex)), ("remain", remain),
        ("sent", jarr (sent.map jhex))])
    | .failed => some (jobj [("failed", Json.bool true), ("remain", remain),
        ("sent", jarr (sent.map jhex))])
  | "btpu.build" => do
    -- message sets as the scapy classes build them: [{type, hints: [[type, hex]], payload: hex}]
    let ms ← getArr? j "msgs"
    let ms ← ms.toList.mapM fun m => do
      let t ← getNat? m "type"
      let hs ← getArr? m "hints"
      let hs ← hs.toList.mapM fun h =>
        match h with
        | .arr a => do
          let ht ← asNat? (← a[0]?)
          let hd ← asHex? (← a[1]?)
          some (ht, hd)
        | _ => none
      let pl ← getHex? m "payload"
      some (Btpu.mkMsg t hs pl)
    some (jobj [("hex", jhex (Btpu.encSet ms)), ("exact", Json.bool (ms.all Btpu.Msg.exact))])
  | "btpu.decode" => do
    let b ← getHex? j "hex"
    match Btpu.decodeSet b with
    | none => some (jobj [("outside", Json.bool true)])
    | some (ms, rest) =>
      some (jobj [("msgs", jarr (ms.map msgJson)), ("rest", jhex rest),
        ("reenc", jhex (Btpu.encSet ms ++ rest))])
  | "btpu.recv" => do
    let fs ← getArr? j "frames"
    let fs ← fs.toList.mapM fun d => do
      let c ← getStr? d "chan"
      let a ← getStr? d "addr"
      let b ← getHex? d "hex"
      some (c, a, b)
    let (s, outs) := fs.foldl (fun (acc : Btpu.Rx × List String) d =>
      let (s', o) := Btpu.recvFrame acc.1 d.1 d.2.1 d.2.2
      (s', boutcomeStr o :: acc.2)) (Btpu.Rx.init, [])
    some (jobj [
      ("queue", jarr (s.queue.map fun q => jobj [("id", jnat q.1), ("addr", Json.str q.2.addr),
        ("len", jnat q.2.length), ("hex", jhex q.2.data)])),
      ("pending", jnat s.prog.length),
      ("outcomes", jarr (outs.reverse.map Json.str))])
  | _ => none

end Drv
end DtnVerif
