/- Driver ops of the BPSec models: sec.aad, sec.macinput, sec.encinput, sec.macstructure, sec.encstructure, sec.chain, sec.crc. -/
import DtnVerif.Drv.Util
import DtnVerif.Model.Sec
import DtnVerif.Model.SecChain
namespace DtnVerif
namespace Drv
open Lean

namespace SecDrv

/-- Bitwise reflected CRC (independent of the table-driven `crcmod` stand-in of the harness). -/
def crcByte (poly : Nat) (c : Nat) (b : UInt8) : Nat :=
  (List.range 8).foldl (fun c _ => if c % 2 == 1 then (c >>> 1) ^^^ poly else c >>> 1) (c ^^^ b.toNat)

def crcRefl (poly init xorout : Nat) (d : Bytes) : Nat := (d.foldl (crcByte poly) init) ^^^ xorout

/-- CRC type 1 = CRC-16/X.25, type 2 = CRC-32C, big-endian octets. -/
def crcFn (t : Nat) (d : Bytes) : Bytes :=
  if t == 1 then beBytes 2 (crcRefl 0x8408 0xffff 0xffff d)
  else if t == 2 then beBytes 4 (crcRefl 0x82f63b78 0xffffffff 0xffffffff d)
  else []

def optHex? (j : Json) (k : String) : Option (Option Bytes) :=
  match j.getObjVal? k with
  | .ok .null => some none
  | .ok v => (asHex? v).map some
  | .error _ => some none

def eid? (j : Json) : Option Bp.Eid := do
  let t ← getStr? j "t"
  match t with
  | "none" => some .dtnNone
  | "dtn" => (getHex? j "ssp").map .dtn
  | "ipn" => (natList? j "parts").map .ipn
  | _ => none

def primary? (j : Json) : Option Bp.Primary := do
  let ts ← natList? j "ts"
  let tsv ← match ts with
    | [a, b] => some (Bp.Timestamp.mk a b)
    | _ => none
  some {
    version := ← getNat? j "version", flags := ← getNat? j "flags", crcType := ← getNat? j "crcType",
    dest := ← (getObj? j "dest").bind eid?, src := ← (getObj? j "src").bind eid?,
    rpt := ← (getObj? j "rpt").bind eid?, ts := tsv, lifetime := ← getNat? j "lifetime",
    fragOff := (getNat? j "fragOff").getD 0, totalLen := (getNat? j "totalLen").getD 0,
    crc := ← optHex? j "crc" }

def canonical? (j : Json) : Option Bp.Canonical := do
  some {
    typeCode := ← getNat? j "type", blockNum := ← getNat? j "num", flags := ← getNat? j "flags",
    crcType := ← getNat? j "crcType", btsd := ← optHex? j "btsd", crc := ← optHex? j "crc" }

def asInt? (j : Json) : Option Int :=
  match j.getInt? with
  | .ok v => some v
  | .error _ => none

def scope? (j : Json) (k : String) : Option (List (Int × Nat)) := do
  let a ← getArr? j k
  a.toList.mapM fun e =>
    match e with
    | .arr #[x, y] => do
      let kx ← asInt? x
      let fy ← asNat? y
      some (kx, fy)
    | _ => none

def ctx? (j : Json) : Option Sec.AadCtx := do
  let bl ← getArr? j "blocks"
  some {
    ssrc := ← (getObj? j "ssrc").bind eid?, scope := ← scope? j "scope",
    primary := ← (getObj? j "primary").bind primary?,
    blocks := ← bl.toList.mapM canonical?,
    secBlk := ← (getObj? j "secBlk").bind canonical?,
    tgt := ← (getObj? j "tgt").bind canonical?,
    addlProt := ← getHex? j "addlProt" }

def raised : Json := jobj [("raised", Json.bool true)]

def asb? (j : Json) : Option SecChain.Asb := do
  let rs ← getArr? j "results"
  let rl ← rs.toList.mapM fun r =>
    match r with
    | .arr a => a.toList.mapM asNat?
    | _ => none
  some {
    targets := ← natList? j "targets", ctxId := ← getNat? j "ctxId",
    paramIds := ← natList? j "paramIds", results := rl,
    extractOk := (getBool? j "extractOk").getD true,
    hasParams := (getBool? j "hasParams").getD true }

def blk? (j : Json) : Option SecChain.Blk := do
  let pl ← match j.getObjVal? "asb" with
    | .ok .null => some none
    | .ok v => (asb? v).map some
    | .error _ => some none
  some { typeCode := ← getNat? j "type", num := ← getNat? j "num",
         btsd := (getHex? j "btsd").getD [], pl := pl }

def outcome? (s : String) : Option SecChain.Outcome :=
  match s with
  | "ok" => some .ok
  | "fail" => some .fail
  | "raises" => some .raises
  | _ => none

def quirks? (j : Json) : Option SecChain.Quirks :=
  match j.getObjVal? "quirks" with
  | .ok (.str "legacy") => some ⟨true, true, true, true⟩
  | .ok (.str "current") => some SecChain.Quirks.current
  | .ok v => do
    some ⟨← getBool? v "d15", ← getBool? v "d16", ← getBool? v "d22", (getBool? v "d29").getD true⟩
  | .error _ => some SecChain.Quirks.current

def chain (j : Json) : Option Json := do
  let q ← quirks? j
  let accept ← getBool? j "accept"
  let deliver := (getBool? j "deliver").getD true
  let bl ← getArr? j "blocks"
  let st ← bl.toList.mapM blk?
  let oa := (getArr? j "orc").getD #[]
  let orcs ← oa.toList.mapM fun e =>
    match e with
    | .arr #[s, t, o] => do
      some ((← asNat? s), (← asNat? t), (← (asStr? o).bind outcome?))
    | _ => none
  let pa := (getArr? j "plain").getD #[]
  let pls ← pa.toList.mapM fun e =>
    match e with
    | .arr #[s, t, h] => do
      some ((← asNat? s), (← asNat? t), (← asHex? h))
    | _ => none
  let orc : Nat → Nat → SecChain.Outcome := fun s t =>
    match orcs.find? (fun x => x.1 == s && x.2.1 == t) with
    | some x => x.2.2
    | none => .fail
  let plain : Nat → Nat → Bytes := fun s t =>
    match pls.find? (fun x => x.1 == s && x.2.1 == t) with
    | some x => x.2.2
    | none => []
  let r := SecChain.run q ⟨accept, orc, plain⟩ deliver st
  let reason : Json := match r.reason with
    | none => Json.null
    | some (.code n) => jnat n
    | some .str => Json.str "str"
  some (jobj [("delivered", Json.bool r.delivered), ("deleted", Json.bool r.deleted),
    ("reason", reason), ("secDeleted", Json.bool r.secDeleted),
    ("blocks", jarr (r.blocks.map fun b =>
      jobj [("type", jnat b.typeCode), ("num", jnat b.num), ("btsd", jhex b.btsd)]))])

end SecDrv

open SecDrv in
def secHandler : Handler := fun op j =>
  match op with
  | "sec.crc" => do
    let t ← getNat? j "t"
    let d ← getHex? j "hex"
    some (jobj [("crc", jhex (crcFn t d))])
  | "sec.aad" => do
    let c ← (getObj? j "ctx").bind ctx?
    match Sec.externalAad crcFn c with
    | some a => some (jobj [("aad", jhex a), ("scope", jarr ((Sec.canonScope c.scope).map fun e => jarr [jint e.1, jnat e.2]))])
    | none => some raised
  | "sec.macinput" => do
    let c ← (getObj? j "ctx").bind ctx?
    let context ← getStr? j "context"
    let prot ← getHex? j "prot"
    match Sec.macInput crcFn c context prot with
    | some a => some (jobj [("input", jhex a)])
    | none => some raised
  | "sec.encinput" => do
    let c ← (getObj? j "ctx").bind ctx?
    let context ← getStr? j "context"
    let prot ← getHex? j "prot"
    match Sec.encInput crcFn c context prot with
    | some a => some (jobj [("input", jhex a)])
    | none => some raised
  | "sec.macstructure" => do
    let context ← getStr? j "context"
    some (jobj [("input", jhex (Sec.macStructure context (← getHex? j "prot") (← getHex? j "aad") (← getHex? j "payload")))])
  | "sec.encstructure" => do
    let context ← getStr? j "context"
    some (jobj [("input", jhex (Sec.encStructure context (← getHex? j "prot") (← getHex? j "aad")))])
  | "sec.chain" => chain j
  | _ => none

end Drv
end DtnVerif
