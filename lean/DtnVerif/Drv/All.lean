import DtnVerif.Drv.Basic
import DtnVerif.Drv.Tcpcl
import DtnVerif.Drv.TcpclEp
namespace DtnVerif
namespace Drv

/-- Every area registers its handler here (one line per area). -/
def handlers : List Handler := [
  basicHandler,
  tcpclCodecHandler,
  tcpclEpHandler
]

end Drv
end DtnVerif
