import DtnVerif.Drv.Basic
import DtnVerif.Drv.Tcpcl
import DtnVerif.Drv.TcpclEp
import DtnVerif.Drv.TcpclAgent
import DtnVerif.Drv.Agent
import DtnVerif.Drv.Sec
import DtnVerif.Drv.Frag
import DtnVerif.Drv.Bp
import DtnVerif.Drv.Udpcl
import DtnVerif.Drv.Btpu
import DtnVerif.Drv.Tls
namespace DtnVerif
namespace Drv

/-- Every area registers its handler here (one line per area). -/
def handlers : List Handler := [
  basicHandler,
  tcpclCodecHandler,
  tcpclEpHandler,
  tcpclAgentHandler,
  agentHandler,
  secHandler,
  fragHandler,
  bpHandler,
  udpclHandler,
  btpuHandler,
  tlsHandler
]

end Drv
end DtnVerif
