import DtnVerif.Drv.Basic
namespace DtnVerif
namespace Drv

/-- Every area registers its handler here (one line per area). -/
def handlers : List Handler := [
  basicHandler
]

end Drv
end DtnVerif
