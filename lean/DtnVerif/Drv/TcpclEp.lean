import DtnVerif.Drv.Util
import DtnVerif.Drv.Tcpcl
import DtnVerif.Model.TcpclEp
namespace DtnVerif
namespace Drv
open Lean Tcpcl

def cfgOfJson (j : Json) : Cfg :=
  { passive := (getBool? j "passive").getD false
    nodeId := (getHex? j "node").getD []
    keepalive := (getNat? j "keepalive").getD 0
    idle := (getNat? j "idle").getD 0
    segMru := (getNat? j "seg_mru").getD 10485760
    segInit := (getNat? j "seg_init").getD 104857
    privExt := (getBool? j "priv_ext").getD false }

def evOfJson (j : Json) : Option Ev := do
  let k ← getStr? j "e"
  match k with
  | "start" => pure .start
  | "send" => pure (.send (← getHex? j "data"))
  | "terminate" => pure (.terminate (← getNat? j "reason"))
  | "close" => pure .close
  | "pop" => pure (.pop (← getNat? j "tid"))
  | "query" =>
    match ← getStr? j "q" with
    | "state" => pure (.query .state)
    | "idle" => pure (.query .idle)
    | "txq" => pure (.query .txQueue)
    | "rxq" => pure (.query .rxQueue)
    | _ => none
  | "pq" => pure .procQueue
  | "pump" => pure (.pump (← getNat? j "n"))
  | "rx" => pure (.rx (← getHex? j "data"))
  | "eof" => pure .rxEof
  | "advance" => pure (.advance (← getNat? j "ms"))
  | "ka" => pure .keepaliveTimer
  | "idle" => pure .idleTimer
  | "modulate" => pure (.modulate (← getInt? j "raw"))
  | _ => none

def valToJson : Val → Json
  | .str s => jobj [("s", Json.str s)]
  | .nat n => jobj [("n", jnat n)]
  | .bytes b => jobj [("b", jhex b)]
  | .strs l => jobj [("ss", jarr (l.map Json.str))]
  | .bool b => jobj [("bool", Json.bool b)]

def outToJson : Out → Json
  | .wire b => jobj [("wire", jhex b)]
  | .sig n args => jobj [("sig", Json.str n), ("args", jarr (args.map valToJson))]
  | .closed => jobj [("closed", Json.bool true)]
  | .escaped w => jobj [("escaped", Json.str w)]
  | .raised w => jobj [("raised", Json.str w)]
  | .ret v => jobj [("ret", valToJson v)]

private def optNat : Option Nat → Json
  | none => Json.null
  | some n => jnat n

def snap (e : Ep) : Json :=
  jobj [("closed", Json.bool e.closed), ("state", Json.str e.state), ("txbuf", jnat e.txBuf.length),
        ("connbuf", jnat e.connBuf.length), ("rxbuf", jnat e.rx.buf.length), ("pq", jnat e.pqSources), ("txsrc", jnat e.txSrc),
        ("ka", optNat e.kaDeadline), ("idle", optNat e.idleDeadline), ("seg", jnat e.sendSegSize),
        ("in_sess", Json.bool e.inSess), ("in_term", Json.bool e.inTerm)]

def epTrace : Ep → List Ev → List Json
  | _, [] => []
  | e, ev :: evs =>
    let (e1, outs) := step e ev
    jobj [("out", jarr (outs.map outToJson)), ("snap", snap e1)] :: epTrace e1 evs

def tcpclEpHandler : Handler := fun op j =>
  match op with
  | "tcpcl.ep" => do
    let cfg := cfgOfJson ((getObj? j "cfg").getD (jobj []))
    let evs ← (← getArr? j "events").toList.mapM evOfJson
    some (jobj [("trace", jarr (epTrace { cfg := cfg } evs))])
  | _ => none

end Drv
end DtnVerif
