/- Driver ops for the BP agent model: `agent.run` (= `agent.recv_history`), `agent.forward`,
   `agent.report`, `agent.chain`. Bytes travel as hex strings. -/
import DtnVerif.Drv.Util
import DtnVerif.Model.BpAgent
namespace DtnVerif
namespace Drv
open Lean Agent Bp

def isNull (j : Json) (k : String) : Bool :=
  match j.getObjVal? k with
  | .ok .null => true
  | .ok _ => false
  | .error _ => true

def eidOf? (j : Json) : Option Eid :=
  match j with
  | .str "none" => some .dtnNone
  | _ =>
    match getHex? j "dtn" with
    | some b => some (.dtn b)
    | none => (natList? j "ipn").map Eid.ipn

def getEid? (j : Json) (k : String) : Option Eid := do eidOf? (← getObj? j k)

def optHex? (j : Json) (k : String) : Option (Option Bytes) :=
  if isNull j k then some none else (getHex? j k).map some

def getBoolD (j : Json) (k : String) (d : Bool) : Bool := (getBool? j k).getD d

def primaryOf? (j : Json) : Option Primary := do
  let ts ← natList? j "ts"
  some { version := ← getNat? j "ver", flags := ← getNat? j "flags", crcType := ← getNat? j "ct",
         dest := ← getEid? j "dest", src := ← getEid? j "src", rpt := ← getEid? j "rpt",
         ts := ⟨ts.getD 0 0, ts.getD 1 0⟩, lifetime := ← getNat? j "life",
         fragOff := (getNat? j "foff").getD 0, totalLen := (getNat? j "tlen").getD 0,
         crc := ← optHex? j "crc" }

def blkOf? (j : Json) : Option Blk := do
  let hop := match natList? j "hop" with
    | some [l, c] => some (l, c)
    | _ => none
  some { c := { typeCode := ← getNat? j "t", blockNum := ← getNat? j "n", flags := ← getNat? j "f",
                crcType := ← getNat? j "ct", btsd := ← optHex? j "btsd", crc := ← optHex? j "crc" },
         parsed := getBoolD j "parsed" true, hop := hop, adminReenc := ← optHex? j "reenc" }

def blocksOf? (j : Json) (k : String) : Option (List Blk) := do
  (← getArr? j k).toList.mapM blkOf?

def actionOf (s : String) : Action :=
  if s == "receive" then .receive else if s == "deliver" then .deliver
  else if s == "forward" then .forward else if s == "delete" then .delete
  else .other s.length

def secOf (j : Json) (k : String) : SecOut :=
  match getNat? j k with
  | some r => .fail r
  | none => if getStr? j k == some "raises" then .raises else .pass

def boolList? (j : Json) (k : String) : Option (List Bool) := do
  (← getArr? j k).toList.mapM (fun x => match x with | .bool b => some b | _ => none)

def rxOf? (j : Json) : Option RxBundle := do
  let b ← getObj? j "b"
  let adm := match getStr? j "adm" with
    | some "raises" => AdmOut.raises
    | some "delete" => .delete
    | _ => .done
  some { primary := ← primaryOf? (← getObj? b "pri"), rptNone := getBoolD b "rpt_none" false,
         blocks := ← blocksOf? b "blocks", crcOk := getBoolD j "crc_ok" true,
         routeBits := (boolList? j "bits").getD [], reasmRaises := getBoolD j "reasm_raises" false,
         bcb := secOf j "bcb", bib := secOf j "bib", adm := adm }

def spOf (j : Json) : SendParams :=
  let frag := match getStr? j "frag" with
    | some "consumed" => FragOut.consumed
    | some "raises" => .raises
    | some "unsendable" => .unsendable
    | _ => .none
  { txBits := (boolList? j "tx_bits").getD [], clOk := getBoolD j "cl_ok" true, frag := frag,
    crcs := (hexList? j "crcs").getD [] }

def evOf? (j : Json) : Option Ev := do
  let now ← getNat? j "now"
  match ← getStr? j "k" with
  | "recv" => some (.recv now (← rxOf? j))
  | "fwd" => some (.fwd now (spOf ((getObj? j "sp").getD Json.null)))
  | "rpt" => some (.sendRpt now (spOf ((getObj? j "sp").getD Json.null)))
  | _ => none

def jeid : Eid → Json
  | .dtnNone => Json.str "none"
  | .dtn b => jobj [("dtn", jhex b)]
  | .ipn l => jobj [("ipn", jarr (l.map jnat))]

def jopt (o : Option Nat) : Json := match o with | some n => jnat n | none => Json.null

def jident (i : Agent.Ident) : Json :=
  jobj [("src", jeid i.src), ("t", jnat i.time), ("s", jnat i.seq),
        ("frag", match i.frag with | some (o, l) => jarr [jnat o, jopt l] | none => Json.null)]

def jreply (r : Ctr) : Json :=
  jobj [("dest", jeid r.primary.dest), ("flags", jnat r.primary.flags),
        ("payload", match r.blocks with
          | b :: _ => (match b.c.btsd with | some d => jhex d | none => Json.null)
          | [] => Json.null)]

def jeffect : Effect → Json
  | .delivered id => jobj [("k", "delivered"), ("id", jident id)]
  | .queued id => jobj [("k", "queued"), ("id", jident id)]
  | .report id _ r => jobj [("k", "report"), ("id", jident id), ("reply", jreply r)]
  | .tx d => jobj [("k", "tx"), ("hex", jhex d)]
  | .fragmented => jobj [("k", "fragmented")]
  | .escaped => jobj [("k", "escaped")]


def optNat (j : Json) (k : String) : Option Nat := getNat? j k

def stOf (j : Json) : St :=
  let ts := (natList? j "ts").getD []
  { tsTime := ts[0]?, tsSeq := ts.getD 1 0 }

def runAll (cfg : Cfg) : St → List Ev → List Json → St × List Json
  | st, [], acc => (st, acc.reverse)
  | st, e :: es, acc =>
    let r := step cfg st e
    runAll cfg r.1 es (jarr (r.2.map jeffect) :: acc)

def cfgOf? (j : Json) : Option Cfg := do
  let routes := ((getArr? j "routes").getD #[]).toList.filterMap asStr?
  some { nodeId := ← getEid? j "node", rxRoutes := routes.map actionOf }

def jstate (st : St) : List (String × Json) :=
  [("seen", jarr (st.seen.map jident)), ("fwdq", jnat st.fwdQ.length), ("rptq", jnat st.rptQ.length),
   ("ts", jarr [jopt st.tsTime, jnat st.tsSeq])]

def actionsOf (j : Json) : Actions :=
  ((getArr? j "actions").getD #[]).toList.filterMap (fun a =>
    match a with
    | .arr #[.str s, t] => (asNat? t).map (fun n => (actionOf s, n))
    | _ => none)

def agentHandler : Handler := fun op j =>
  match op with
  | "agent.chain" => some (jobj [("rx", jarr (rxChain.map (fun k => Json.str (reprStr k))))])
  | "agent.run" | "agent.recv_history" => do
    let cfg ← cfgOf? j
    let evs ← (← getArr? j "events").toList.mapM evOf?
    let st0 := stOf ((getObj? j "init").getD Json.null)
    let (st, outs) := runAll cfg st0 evs []
    some (jobj (("steps", jarr outs) :: jstate st))
  | "agent.forward" => do
    -- one container already routed 'forward' (actions given), fired through `_do_fwd`
    let cfg ← cfgOf? j
    let b ← getObj? j "b"
    let c : Ctr := { primary := ← primaryOf? (← getObj? b "pri"), rptNone := getBoolD b "rpt_none" false,
                     blocks := ← blocksOf? b "blocks", actions := actionsOf j }
    let st0 := { stOf ((getObj? j "init").getD Json.null) with fwdQ := [c] }
    let (st, eff) := doFwd cfg st0 (← getNat? j "now") (spOf ((getObj? j "sp").getD Json.null))
    some (jobj (("effects", jarr (eff.map jeffect)) :: jstate st))
  | "agent.report" => do
    let b ← getObj? j "b"
    let c : Ctr := { primary := ← primaryOf? (← getObj? b "pri"), rptNone := getBoolD b "rpt_none" false,
                     blocks := ← blocksOf? b "blocks", actions := actionsOf j, reason := optNat j "reason" }
    match createReport c with
    | none => some (jobj [("report", Json.null)])
    | some r => some (jobj [("report", jreply r)])
  | _ => none

end Drv
end DtnVerif
