/- driver: tcpcl.agent — a list of agent-level operations through the `TcpclAgent` model -/
import DtnVerif.Drv.Util
import DtnVerif.Model.TcpclAgent
namespace DtnVerif
namespace Drv
open Lean TcpclAgent

private def outJson : AOut → Json
  | .closed id => jobj [("closed", jnat id)]
  | .sessTerm id => jobj [("sess_term", jnat id)]
  | .stopped => jobj [("stopped", Json.bool true)]
  | .ret b => jobj [("ret", Json.bool b)]

private def opOfJson (j : Json) : Option Op := do
  let k ← getStr? j "op"
  match k with
  | "bind" => some (.bind (← getNat? j "id"))
  | "establish" => some (.establish (← getNat? j "id"))
  | "contact_term" => some (.contactTerm (← getNat? j "id"))
  | "contact_closed" => some (.contactClosed (← getNat? j "id"))
  | "shutdown" => some .shutdown
  | "stop" => some .stop
  | _ => none

private def contactJson (c : Contact) : Json :=
  jobj [("id", jnat c.id), ("in_sess", Json.bool c.inSess), ("in_term", Json.bool c.inTerm)]

private def trace : Agent → List Op → List Json
  | _, [] => []
  | a, op :: ops =>
    let r := step a op
    jobj [("out", jarr (r.2.map outJson)), ("handlers", jarr (r.1.handlers.map contactJson))] :: trace r.1 ops

def tcpclAgentHandler : Handler := fun op j =>
  match op with
  | "tcpcl.agent" => do
    let soc := (getBool? j "stop_on_close").getD false
    let ops ← (← getArr? j "ops").toList.mapM opOfJson
    some (jobj [("trace", jarr (trace { stopOnClose := soc } ops))])
  | _ => none

end Drv
end DtnVerif
