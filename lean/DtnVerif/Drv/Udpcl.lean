import DtnVerif.Drv.Util
import DtnVerif.Model.Udpcl
import DtnVerif.Model.UdpclDbus
namespace DtnVerif
namespace Drv
open Lean

private def outcomeStr : Udpcl.Outcome → String
  | .done => "done"
  | .decodeError => "decodeError"
  | .error .mismatch => "mismatch"
  | .outside => "outside"

private def pairOf? (j : Json) : Option (Nat × Nat) :=
  match j with
  | .arr a => do
    let lo ← asNat? (← a[0]?)
    let hi ← asNat? (← a[1]?)
    some (lo, hi)
  | _ => none

private partial def dvalJson : Udpcl.DVal → Json
  | .str s => jobj [("s", Json.str s)]
  | .int v => jobj [("n", jint v)]
  | .bool b => jobj [("bool", Json.bool b)]
  | .bytes b => jobj [("b", jhex b)]
  | .strs l => jobj [("ss", jarr (l.map Json.str))]
  | .dict kv => jobj [("dict", jobj (kv.map fun e => (e.1, dvalJson e.2)))]
  | .other => jobj [("other", Json.bool true)]

private def doutJson : Udpcl.DOut → Json
  | .sig name args => jobj [("sig", Json.str name), ("args", jarr (args.map dvalJson))]
  | .ret m v => jobj [("ret", Json.str m), ("val", dvalJson v)]
  | .raised m w => jobj [("raised", Json.str m), ("what", Json.str w)]

private def devOf? (o : Json) : Option Udpcl.DEv :=
  match getNat? o "pop" with
  | some bid => some (.pop bid)
  | none =>
    match getHex? o "send" with
    | some d => some (.send d)
    | none =>
      match getBool? o "drain", getBool? o "queue" with
      | some true, _ => some .drain
      | _, some true => some .getQueue
      | _, _ =>
        match getStr? o "addr", getNat? o "port", getHex? o "hex" with
        | some a, some p, some b => some (.dgram a p b)
        | _, _, _ => none

/-- ops `udpcl.*` (C13, C18) -/
def udpclHandler : Handler := fun op j =>
  match op with
  | "udpcl.send" => do
    let id ← getNat? j "id"
    let data ← getHex? j "data"
    let mtu := getNat? j "mtu"
    let remain : Json := match mtu with
      | some m => jint (Udpcl.remainSize m id data.length)
      | none => Json.null
    let (ds, fin) := Udpcl.processTx id data mtu
    let finJ : Json := match fin with
      | some (i, l, r) => jarr [Json.str (toString i), jnat l, Json.str r]
      | none => Json.null
    match Udpcl.sendTransfer id data mtu with
    | .ok segs => some (jobj [("segs", jarr (segs.map jhex)), ("remain", remain),
        ("handed", jarr (ds.map jhex)), ("finished", finJ)])
    | .failed => some (jobj [("failed", Json.bool true), ("remain", remain),
        ("handed", jarr (ds.map jhex)), ("finished", finJ)])
  | "udpcl.recv" => do
    let rej := (getBool? j "reject").getD false
    let ds ← getArr? j "dgrams"
    let ds ← ds.toList.mapM fun d => do
      let a ← getStr? d "addr"
      let p ← getNat? d "port"
      let b ← getHex? d "hex"
      some (a, p, b)
    let (s, outs) := ds.foldl (fun (acc : Udpcl.Rx × List String) d =>
      let (s', o) := Udpcl.recvDatagram rej acc.1 d.1 d.2.1 d.2.2
      (s', outcomeStr o :: acc.2)) (Udpcl.Rx.init, [])
    some (jobj [
      ("queue", jarr (s.queue.map fun q => jobj [("id", jnat q.1), ("addr", Json.str q.2.addr),
        ("port", jnat q.2.port), ("len", jnat q.2.length), ("hex", jhex q.2.data)])),
      ("pending", jnat s.frags.length),
      ("outcomes", jarr (outs.reverse.map Json.str))])
  | "udpcl.txrun" => do
    -- the TX queue of one agent: [{id, data}] → per transfer the datagrams and the finished result
    let mtu := getNat? j "mtu"
    let items ← getArr? j "items"
    let items ← items.toList.mapM fun it => do
      let i ← getNat? it "id"
      let d ← getHex? it "data"
      some (i, d)
    some (jobj [("items", jarr (items.map fun t =>
      let evs := Udpcl.txItem mtu t
      jobj [("id", jnat t.1),
        ("dgrams", jarr (evs.filterMap fun e => match e with
          | .dgram d => some (jhex d)
          | _ => none)),
        ("finished", jarr (evs.filterMap fun e => match e with
          | .finished i l r => some (jarr [Json.str (toString i), jnat l, Json.str r])
          | _ => none))]))])
  | "udpcl.dbus" => do
    -- the D-Bus view: per event the typed signals / return values of the model
    let evs ← getArr? j "evs"
    let evs ← evs.toList.mapM fun o =>
      match getBool? o "idle" with
      | some true => some (none : Option Udpcl.DEv)      -- is_transfer_idle(): a query, no event
      | _ => (devOf? o).map some
    let st0 : Udpcl.DState := { mtu := getNat? j "mtu" }
    let (_, outs) := evs.foldl (fun (acc : Udpcl.DState × List Json) ev =>
      match ev with
      | none => (acc.1, jarr [jobj [("ret", Json.str "is_transfer_idle"),
          ("val", jobj [("bool", Json.bool (Udpcl.isTransferIdle acc.1))])]] :: acc.2)
      | some ev =>
        let (st', obs) := Udpcl.dstep acc.1 ev
        (st', jarr ((obs.filterMap Udpcl.render).map doutJson) :: acc.2)) (st0, [])
    some (jobj [("outs", jarr outs.reverse)])
  | "udpcl.hist" => do
    -- a D-Bus visible history: {"addr","port","hex"} = datagram, {"pop": id} = recv_bundle_pop_data
    let rej := (getBool? j "reject").getD false
    let ops ← getArr? j "ops"
    let (s, outs) := ops.toList.foldl (fun (acc : Udpcl.Rx × List Json) o =>
      match getNat? o "pop" with
      | some bid =>
        match Udpcl.popData acc.1 bid with
        | some (d, s') => (s', jobj [("pop", jhex d)] :: acc.2)
        | none => (acc.1, jobj [("pop", Json.str "KeyError")] :: acc.2)
      | none =>
        match getStr? o "addr", getNat? o "port", getHex? o "hex" with
        | some a, some p, some b =>
          let (s', oc) := Udpcl.recvDatagram rej acc.1 a p b
          (s', jobj [("outcome", Json.str (outcomeStr oc)),
            ("queue", jarr ((Udpcl.queueIds s').map jnat))] :: acc.2)
        | _, _, _ => (acc.1, jerr "bad op" :: acc.2)) (Udpcl.Rx.init, [])
    some (jobj [("results", jarr outs.reverse), ("queue", jarr ((Udpcl.queueIds s).map jnat)),
      ("next_id", jnat s.rxId)])
  | "udpcl.range_enc" => do
    let a ← getArr? j "pairs"
    let ps ← a.toList.mapM pairOf?
    some (jobj [("vals", jarr ((Udpcl.rangeEncode ps).map jnat))])
  | "udpcl.range_dec" => do
    let vs ← natList? j "vals"
    some (jobj [("pairs", jarr ((Udpcl.rangeDecode vs).map fun p => jarr [jnat p.1, jnat p.2]))])
  | _ => none

end Drv
end DtnVerif
