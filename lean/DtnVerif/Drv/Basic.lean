import DtnVerif.Drv.Util
import DtnVerif.Model.Cbor
namespace DtnVerif
namespace Drv
open Lean

/-- Foundation ops used by harness self-tests. -/
def basicHandler : Handler := fun op j =>
  match op with
  | "ping" => some (jobj [("pong", Json.bool true)])
  | "cbor.head" => do
    let mt ← getNat? j "mt"
    let n ← getNat? j "n"
    some (jobj [("hex", jhex (Cbor.head mt n)), ("len", jnat (Cbor.headLen n))])
  | "cbor.dechead" => do
    let b ← getHex? j "hex"
    match Cbor.decHead b with
    | some (mt, n, r) => some (jobj [("mt", jnat mt), ("n", jnat n), ("rest", jhex r)])
    | none => some (jobj [("none", Json.bool true)])
  | _ => none

end Drv
end DtnVerif
