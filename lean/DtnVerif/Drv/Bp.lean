/- Driver ops for the BPv7 codec / CRC models (C02, C08). Bundles travel as JSON:
   {"primary":{"version","flags","crc_type","dest","src","rpt","time","seq","lifetime","frag_off",
   "total_len","crc"}, "blocks":[{"type","num","flags","crc_type","btsd","crc"}]} with hex strings
   or null for octet strings and {"none":true} | {"dtn":hex} | {"ipn":[..]} for EIDs. -/
import DtnVerif.Drv.Util
import DtnVerif.Model.BundleDec
import DtnVerif.Model.Crc
import DtnVerif.Model.BpAsb
namespace DtnVerif
namespace Drv
open Lean Bp
namespace BpDrv

def jOptHex : Option Bytes → Json
  | none => Json.null
  | some d => jhex d

def optHex? (j : Json) (k : String) : Option (Option Bytes) :=
  match j.getObjVal? k with
  | .ok Json.null => some none
  | .ok (.str s) => (ofHex s).map some
  | _ => none

def eidToJson : Eid → Json
  | .dtnNone => jobj [("none", Json.bool true)]
  | .dtn ssp => jobj [("dtn", jhex ssp)]
  | .ipn ps => jobj [("ipn", jarr (ps.map jnat))]

def eidOfJson? (j : Json) : Option Eid :=
  match getHex? j "dtn" with
  | some d => some (.dtn d)
  | none =>
    match natList? j "ipn" with
    | some ps => some (.ipn ps)
    | none => match getBool? j "none" with
      | some _ => some .dtnNone
      | none => none

def primaryToJson (p : Primary) : Json :=
  jobj [("version", jnat p.version), ("flags", jnat p.flags), ("crc_type", jnat p.crcType),
        ("dest", eidToJson p.dest), ("src", eidToJson p.src), ("rpt", eidToJson p.rpt),
        ("time", jnat p.ts.time), ("seq", jnat p.ts.seq), ("lifetime", jnat p.lifetime),
        ("frag_off", jnat p.fragOff), ("total_len", jnat p.totalLen), ("crc", jOptHex p.crc)]

def primaryOfJson? (j : Json) : Option Primary := do
  let version ← getNat? j "version"
  let flags ← getNat? j "flags"
  let crcType ← getNat? j "crc_type"
  let dest ← (getObj? j "dest").bind eidOfJson?
  let src ← (getObj? j "src").bind eidOfJson?
  let rpt ← (getObj? j "rpt").bind eidOfJson?
  let time ← getNat? j "time"
  let seq ← getNat? j "seq"
  let lifetime ← getNat? j "lifetime"
  let fragOff ← getNat? j "frag_off"
  let totalLen ← getNat? j "total_len"
  let crc ← optHex? j "crc"
  pure { version, flags, crcType, dest, src, rpt, ts := ⟨time, seq⟩, lifetime, fragOff, totalLen, crc }

def canonicalToJson (c : Canonical) : Json :=
  jobj [("type", jnat c.typeCode), ("num", jnat c.blockNum), ("flags", jnat c.flags),
        ("crc_type", jnat c.crcType), ("btsd", jOptHex c.btsd), ("crc", jOptHex c.crc)]

def canonicalOfJson? (j : Json) : Option Canonical := do
  let typeCode ← getNat? j "type"
  let blockNum ← getNat? j "num"
  let flags ← getNat? j "flags"
  let crcType ← getNat? j "crc_type"
  let btsd ← optHex? j "btsd"
  let crc ← optHex? j "crc"
  pure { typeCode, blockNum, flags, crcType, btsd, crc }

def bundleToJson (b : Bundle) : Json :=
  jobj [("primary", primaryToJson b.primary), ("blocks", jarr (b.blocks.map canonicalToJson))]

def bundleOfJson? (j : Json) : Option Bundle := do
  let p ← (getObj? j "primary").bind primaryOfJson?
  let a ← getArr? j "blocks"
  let cs ← a.toList.mapM canonicalOfJson?
  pure ⟨p, cs⟩

def jOptBundle : Option Bundle → Json
  | none => Json.null
  | some b => bundleToJson b

def getBundle? (j : Json) : Option Bundle := (getObj? j "bundle").bind bundleOfJson?

def secValToJson : SecVal → Json
  | .uint n => jobj [("u", jnat n)]
  | .bstr d => jobj [("b", jhex d)]

def secValOfJson? (j : Json) : Option SecVal :=
  match getNat? j "u" with
  | some n => some (.uint n)
  | none => (getHex? j "b").map SecVal.bstr

def pairToJson (p : SecPair) : Json := jobj [("id", jnat p.1), ("v", secValToJson p.2)]

def pairOfJson? (j : Json) : Option SecPair := do
  let k ← getNat? j "id"
  let v ← (getObj? j "v").bind secValOfJson?
  pure (k, v)

def pairsOfJson? (j : Json) : Option (List SecPair) :=
  match j with
  | .arr a => a.toList.mapM pairOfJson?
  | _ => none

def asbToJson (a : Asb) : Json :=
  jobj [("targets", jarr (a.targets.map jnat)), ("ctx", jnat a.contextId), ("flags", jnat a.flags),
        ("source", eidToJson a.source), ("params", jarr (a.params.map pairToJson)),
        ("results", jarr (a.results.map fun r => jarr (r.map pairToJson)))]

def asbOfJson? (j : Json) : Option Asb := do
  let targets ← natList? j "targets"
  let contextId ← getNat? j "ctx"
  let flags ← getNat? j "flags"
  let source ← (getObj? j "source").bind eidOfJson?
  let params ← (getObj? j "params").bind pairsOfJson?
  let ra ← getArr? j "results"
  let results ← ra.toList.mapM pairsOfJson?
  pure { targets, contextId, flags, source, params, results }

end BpDrv
open BpDrv

def bpHandler : Handler := fun op j =>
  match op with
  | "bp.encode" => do
    let b ← getBundle? j
    some (jobj [("hex", jhex b.enc)])
  | "bp.rfcencode" => do
    let b ← getBundle? j
    some (jobj [("hex", jhex (rfcEncode b))])
  | "bp.wf" => do
    let b ← getBundle? j
    some (jobj [("wf", Json.bool (wf b)), ("rfcwf", Json.bool (rfcWf b))])
  | "bp.decode" => do
    let d ← getHex? j "hex"
    some (jobj [("raw", jOptBundle (decodeBundleRaw d)), ("norm", jOptBundle (decodeBundle d))])
  | "bp.shape" => do
    let d ← getHex? j "hex"
    some (jobj [("ok", Json.bool (rfc9171Shape d))])
  | "bp.crc" => do
    let d ← getHex? j "hex"
    let t ← getNat? j "type"
    some (jobj [("hex", jhex (crcOf t d)), ("crc16", jnat (Crc.crc16x25 d)), ("crc32c", jnat (Crc.crc32c d))])
  | "bp.updatecrc" => do
    let b ← getBundle? j
    some (jobj [("bundle", bundleToJson b.updateAllCrc), ("hex", jhex b.updateAllCrc.enc)])
  | "bp.checkcrc" => do
    let b ← getBundle? j
    some (jobj [("fail", jarr (b.checkAllCrc.map jnat))])
  | "bp.gate" => do
    -- receive path up to and including the CRC gate, then own-source / seen-set
    let d ← getHex? j "hex"
    let own ← (getObj? j "own").bind eidOfJson?
    match decodeBundle d with
    | none => some (jobj [("decoded", Json.bool false), ("raw", Json.bool (decodeBundleRaw d).isSome)])
    | some b =>
      let (seen, eff) := recvGate (recvSeen own) ([] : List Bp.Ident) b
      some (jobj [("decoded", Json.bool true), ("fail", jarr (b.checkAllCrc.map jnat)),
                  ("seen", jnat seen.length), ("effects", jnat eff.length), ("flags", jnat b.primary.flags),
                  ("reenc", jhex b.enc)])
  | "bp.normeid" => do
    let e ← (getObj? j "eid").bind eidOfJson?
    match normEid e with
    | none => some (jobj [("none", Json.bool true)])
    | some e' => some (jobj [("eid", eidToJson e'), ("wf", Json.bool (wfEid e))])
  | "bp.defaults" =>
    -- default-constructed objects: PrimaryBlock(), Timestamp(), CanonicalBlock(type_code=1, block_num=1, btsd=b'')
    some (jobj [("primary", jhex ({} : Primary).enc), ("timestamp", jhex ({} : Primary).ts.enc),
                ("canonical", jhex ({ typeCode := 1, blockNum := 1 } : Canonical).enc)])
  | "bp.updatecrckeep" => do
    let b ← getBundle? j
    let b' : Bundle := { primary := b.primary.updateCrcKeep, blocks := b.blocks.map Canonical.updateCrcKeep }
    some (jobj [("bundle", bundleToJson b'), ("hex", jhex b'.enc)])
  | "bp.dtntime" => do
    let us ← getNat? j "us"
    some (jobj [("dtntime", jnat (dtnTimeOfMicros us)), ("back_us", jnat (microsOfDtnTime (dtnTimeOfMicros us)))])
  | "bp.asbenc" => do
    let a ← (getObj? j "asb").bind asbOfJson?
    some (jobj [("hex", jhex a.enc), ("wf", Json.bool (wfAsb a))])
  | "bp.asbdec" => do
    let d ← getHex? j "hex"
    match decAsb d with
    | none => some (jobj [("asb", Json.null)])
    | some a => some (jobj [("asb", asbToJson a)])
  | "bp.btsd" => do
    let k ← getStr? j "kind"
    match k with
    | "prevnode" => do
      let e ← (getObj? j "eid").bind eidOfJson?
      some (jobj [("hex", jhex (encPrevNode e))])
    | "age" => do
      let a ← getNat? j "age"
      some (jobj [("hex", jhex (encBundleAge a))])
    | "hopcount" => do
      let l ← getNat? j "limit"
      let c ← getNat? j "count"
      some (jobj [("hex", jhex (encHopCount l c))])
    | _ => none
  | _ => none

end Drv
end DtnVerif
