/- JSON helpers for the line-protocol driver (imports Lean.Data.Json only; no Mathlib). -/
import Lean.Data.Json
import DtnVerif.Model.Bytes
namespace DtnVerif
namespace Drv
open Lean

def getNat? (j : Json) (k : String) : Option Nat :=
  match j.getObjValAs? Nat k with
  | .ok v => some v
  | .error _ => none

def getInt? (j : Json) (k : String) : Option Int :=
  match j.getObjValAs? Int k with
  | .ok v => some v
  | .error _ => none

def getStr? (j : Json) (k : String) : Option String :=
  match j.getObjValAs? String k with
  | .ok v => some v
  | .error _ => none

def getBool? (j : Json) (k : String) : Option Bool :=
  match j.getObjValAs? Bool k with
  | .ok v => some v
  | .error _ => none

def getHex? (j : Json) (k : String) : Option Bytes := do
  let s ← getStr? j k
  ofHex s

def getArr? (j : Json) (k : String) : Option (Array Json) :=
  match j.getObjVal? k with
  | .ok (.arr a) => some a
  | _ => none

def getObj? (j : Json) (k : String) : Option Json :=
  match j.getObjVal? k with
  | .ok v => some v
  | .error _ => none

def asNat? (j : Json) : Option Nat :=
  match j.getNat? with
  | .ok v => some v
  | .error _ => none

def asStr? (j : Json) : Option String :=
  match j.getStr? with
  | .ok v => some v
  | .error _ => none

def asHex? (j : Json) : Option Bytes := do
  let s ← asStr? j
  ofHex s

def natList? (j : Json) (k : String) : Option (List Nat) := do
  let a ← getArr? j k
  a.toList.mapM asNat?

def hexList? (j : Json) (k : String) : Option (List Bytes) := do
  let a ← getArr? j k
  a.toList.mapM asHex?

def jhex (b : Bytes) : Json := Json.str (toHex b)
def jnat (n : Nat) : Json := Json.num (JsonNumber.fromNat n)
def jint (n : Int) : Json := Json.num (JsonNumber.fromInt n)
def jarr (l : List Json) : Json := Json.arr l.toArray
def jobj (l : List (String × Json)) : Json := Json.mkObj l
def jerr (msg : String) : Json := Json.mkObj [("error", Json.str msg)]

/-- A handler looks at the "op" field and answers, or declines with `none`. -/
abbrev Handler := String → Json → Option Json

end Drv
end DtnVerif
