/- Driver ops for fragmentation / reassembly models: `frag.send`, `frag.reasm`, `frag.cover`. -/
import DtnVerif.Drv.Util
import DtnVerif.Model.Frag
import DtnVerif.Model.Reasm
namespace DtnVerif
namespace Drv
namespace FragDrv
open Lean Bp Frag Reasm

def optHex? (j : Json) (k : String) : Option (Option Bytes) :=
  match j.getObjVal? k with
  | .ok (.str s) => (ofHex s).map some
  | _ => some none

def eid? (j : Json) : Option Eid :=
  match j.getObjVal? "dtn" with
  | .ok (.str s) => (ofHex s).map Eid.dtn
  | _ =>
    match natList? j "ipn" with
    | some l => some (.ipn l)
    | none => some .dtnNone

def primary? (j : Json) : Option Primary := do
  let dest ← eid? (← getObj? j "dest")
  let src ← eid? (← getObj? j "src")
  let rpt ← eid? (← getObj? j "rpt")
  some { version := (getNat? j "version").getD 7, flags := ← getNat? j "flags", crcType := ← getNat? j "crc",
         dest := dest, src := src, rpt := rpt,
         ts := ⟨← getNat? j "time", ← getNat? j "seq"⟩, lifetime := ← getNat? j "lifetime",
         fragOff := (getNat? j "fragoff").getD 0, totalLen := (getNat? j "total").getD 0,
         crc := ← optHex? j "crcv" }

def blk? (j : Json) : Option Blk := do
  some { c := { typeCode := ← getNat? j "type", blockNum := ← getNat? j "num", flags := ← getNat? j "flags",
                crcType := ← getNat? j "crc", btsd := ← optHex? j "btsd", crc := ← optHex? j "crcv" },
         layer := ← optHex? j "layer" }

def fbundle? (j : Json) : Option FBundle := do
  let p ← primary? (← getObj? j "primary")
  let bs ← (← getArr? j "blocks").toList.mapM blk?
  some ⟨p, bs⟩

def zeroCrc (t : Nat) (_ : Bytes) : Bytes := zeros (crcWidth t)

def jeid : Eid → Json
  | .dtnNone => jobj []
  | .dtn s => jobj [("dtn", jhex s)]
  | .ipn l => jobj [("ipn", jarr (l.map jnat))]

def jopt (o : Option Bytes) : Json := match o with | none => Json.null | some b => jhex b

def jentry (e : Option Entry) : Json :=
  match e with
  | none => Json.null
  | some e => jobj [("total", jnat e.total), ("first", Json.bool e.first.isSome),
      ("ranges", jarr (e.ranges.map fun r => jarr [jnat r.1, jnat r.2])), ("data", jhex e.data)]

def ev? (j : Json) : Option Ev :=
  match getObj? j "recv" with
  | some b => (fbundle? b).map Ev.recv
  | none => (getNat? j "idle").map Ev.idle

def evKey (s : AState) : Ev → Option Key
  | .recv b => some (keyOf b.primary)
  | .idle j => (s.pending[j]?).map (fun b => keyOf b.primary)

/-- run events one by one, reporting after each: delivered count, pending count, entry of the
    event's key -/
def reasmTrace (cfg : RCfg) : AState → List Ev → List Json → AState × List Json
  | s, [], acc => (s, acc.reverse)
  | s, e :: es, acc =>
    let k := evKey s e
    let s' := step cfg s e
    let o := jobj [("ndel", jnat s'.delivered.length), ("npend", jnat s'.pending.length),
                   ("entry", jentry (k.bind s'.table))]
    reasmTrace cfg s' es (o :: acc)

def handler : Handler := fun op j =>
  match op with
  | "frag.send" => do
    let b ← fbundle? (← getObj? j "bundle")
    let mtu := getNat? j "mtu"
    let now : Timestamp := ⟨(getNat? j "now").getD 1, (getNat? j "nowseq").getD 0⟩
    let cfg : Cfg := { crcFn := zeroCrc, secStep := id,
                       now := if (getBool? j "as_source").getD true then some now else none,
                       reroute := (getBool? j "reroute").getD true }
    let r := sendBundle cfg cfg.now mtu b
    let failIdx := (natList? j "fail").getD []
    let fr := sendFailing cfg (fun i => failIdx.contains i) mtu b
    some (jobj [("escaped", Json.bool fr.escaped), ("nsched", jnat r.scheduled.length),
                ("idle_escapes", jarr (fr.idleEscapes.map jnat)),
                ("outs", jarr (fr.handed.map jhex))])
  | "frag.reasm" => do
    let node ← eid? (← getObj? j "node")
    let evs ← (← getArr? j "events").toList.mapM ev?
    let cfg : RCfg := { nodeId := node, deliver := fun _ => (getBool? j "deliver").getD true, crcOk := fun _ => true,
                        crcFn := zeroCrc }
    let (s, tr) := reasmTrace cfg AState.init evs []
    some (jobj [("trace", jarr tr), ("delivered", jarr (s.delivered.map fun b => jhex b.enc))])
  | "frag.cover" => do
    let offs ← natList? j "offs"
    let lens ← natList? j "lens"
    let total ← getNat? j "total"
    some (jobj [("covered", Json.bool (Cover.coveredB (offs.zip lens) total)),
                ("exact", Json.bool (Cover.exactB (offs.zip lens) total))])
  | _ => none

end FragDrv

/-- ops `frag.send`, `frag.reasm`, `frag.cover` -/
def fragHandler : Handler := FragDrv.handler

end Drv
end DtnVerif
