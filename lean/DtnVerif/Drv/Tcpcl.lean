import DtnVerif.Drv.Util
import DtnVerif.Model.TcpclCodec
namespace DtnVerif
namespace Drv
open Lean Tcpcl

def msgToJson : Msg → Json
  | .contact f => jobj [("k", "contact"), ("flags", jnat f)]
  | .sessInit ka sm xm node ext =>
    jobj [("k", "sess_init"), ("keepalive", jnat ka), ("seg_mru", jnat sm), ("xfer_mru", jnat xm),
          ("node", jhex node), ("ext", jhex ext)]
  | .sessTerm f r => jobj [("k", "sess_term"), ("flags", jnat f), ("reason", jnat r)]
  | .xferSegment f t ext d =>
    jobj [("k", "xfer_segment"), ("flags", jnat f), ("tid", jnat t), ("ext", jhex ext), ("data", jhex d)]
  | .xferAck f t l => jobj [("k", "xfer_ack"), ("flags", jnat f), ("tid", jnat t), ("len", jnat l)]
  | .xferRefuse r t => jobj [("k", "xfer_refuse"), ("reason", jnat r), ("tid", jnat t)]
  | .keepalive => jobj [("k", "keepalive")]
  | .msgReject i r => jobj [("k", "msg_reject"), ("rej_id", jnat i), ("reason", jnat r)]

def msgOfJson (j : Json) : Option Msg := do
  let k ← getStr? j "k"
  match k with
  | "contact" => pure (.contact (← getNat? j "flags"))
  | "sess_init" =>
    pure (.sessInit (← getNat? j "keepalive") (← getNat? j "seg_mru") (← getNat? j "xfer_mru")
      (← getHex? j "node") (← getHex? j "ext"))
  | "sess_term" => pure (.sessTerm (← getNat? j "flags") (← getNat? j "reason"))
  | "xfer_segment" =>
    pure (.xferSegment (← getNat? j "flags") (← getNat? j "tid") (← getHex? j "ext") (← getHex? j "data"))
  | "xfer_ack" => pure (.xferAck (← getNat? j "flags") (← getNat? j "tid") (← getNat? j "len"))
  | "xfer_refuse" => pure (.xferRefuse (← getNat? j "reason") (← getNat? j "tid"))
  | "keepalive" => pure .keepalive
  | "msg_reject" => pure (.msgReject (← getNat? j "rej_id") (← getNat? j "reason"))
  | _ => none

def extToJson (e : ExtItem) : Json :=
  jobj [("flags", jnat e.flags), ("type", jnat e.type), ("value", jhex e.value)]

/-- feed chunk by chunk, reporting after each chunk what was handed over and the buffer use -/
def feedTrace : Rx → List Bytes → List Json
  | _, [] => []
  | rx, c :: cs =>
    let (rx', ms) := feed rx c
    jobj [("msgs", jarr (ms.map msgToJson)), ("buf", jnat rx'.buf.length), ("dead", Json.bool rx'.dead),
          ("in_conn", Json.bool rx'.inConn)] :: feedTrace rx' cs

def tcpclCodecHandler : Handler := fun op j =>
  match op with
  | "tcpcl.encode" => do
    let m ← msgOfJson (← getObj? j "msg")
    some (jobj [("hex", jhex (encode m)), ("wf", Json.bool (decide m.WF))])
  | "tcpcl.feed" => do
    let chunks ← hexList? j "chunks"
    let inConn := (getBool? j "in_conn").getD false
    some (jobj [("trace", jarr (feedTrace { inConn := inConn } chunks))])
  | "tcpcl.ext" => do
    let b ← getHex? j "hex"
    match decExtItems (b.length + 1) b with
    | some items => some (jobj [("items", jarr (items.map extToJson))])
    | none => some (jobj [("none", Json.bool true)])
  | _ => none

end Drv
end DtnVerif
