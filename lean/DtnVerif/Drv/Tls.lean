import DtnVerif.Drv.Util
import DtnVerif.Model.TlsPolicy
namespace DtnVerif
namespace Drv
open Lean
open TlsPolicy

private def idStr : IdResult → String
  | .absent => "absent"
  | .matched => "matched"
  | .mismatch => "mismatch"

private def idOf? : String → Option IdResult
  | "absent" => some .absent
  | "matched" => some .matched
  | "mismatch" => some .mismatch
  | _ => none

private def hsOf? : String → Option Handshake
  | "ok" => some .ok
  | "sslerror" => some .sslError
  | "oserror" => some .osError
  | _ => none

private def escStr : Esc → String
  | .attributeError => "AttributeError"
  | .typeError => "TypeError"
  | .osError => "OSError"

private def msgStr : Msg → String
  | .contact true => "contact:1"
  | .contact false => "contact:0"
  | .sessInit => "sess_init"
  | .sessTerm r => s!"sess_term:{r}"

private def stStr : St → String
  | .contactNegotiating => "contact-negotiating"
  | .sessionNegotiating => "session-negotiating"
  | .established => "established"
  | .ending => "ending"

private def contactStr : Contact → String
  | .proceedClear => "proceed-clear"
  | .proceedTls => "proceed-tls"
  | .close true => "close-after-attempt"
  | .close false => "close-before-attempt"
  | .wedged => "wedged"

private def sessStr : Sess → String
  | .notDelivered => "not-delivered"
  | .escaped x => "escaped:" ++ escStr x
  | .established => "established"
  | .terminated r => s!"terminated:{r}"

/-- `null` / absent key ⇒ `none`; `true` / `false` ⇒ `some` -/
private def optBool (j : Json) (k : String) : Option (Option Bool) :=
  match j.getObjVal? k with
  | .ok (.bool b) => some (some b)
  | .ok .null => some none
  | .error _ => some none
  | _ => none

/-- absent ⇒ `Quirks.current`; `"old"` ⇒ every former defect; object ⇒ individual switches -/
private def quirksOf (j : Json) : Quirks :=
  match j.getObjVal? "quirks" with
  | .ok (.str "old") => Quirks.old
  | .ok (.obj _) =>
    let qj := (getObj? j "quirks").getD Json.null
    let g (k : String) : Bool := (getBool? qj k).getD false
    { callsNative := g "calls_native", uncheckedDnsCounts := g "unchecked_dns_counts",
      carriesPlaintext := g "carries_plaintext", noCertRaises := g "no_cert_raises",
      handshakeOsEscapes := g "handshake_os_escapes", handlesAfterClose := g "handles_after_close" }
  | _ => Quirks.current

/-- key absent ⇒ `none`; present ⇒ `some value` -/
private def fileBool (j : Json) (k : String) : Option (Option Bool) :=
  match j.getObjVal? k with
  | .ok (.bool b) => some (some b)
  | .error _ => some none
  | _ => none

/-- key absent ⇒ `none`; `null` ⇒ `some none`; boolean ⇒ `some (some b)` -/
private def fileOptBool (j : Json) (k : String) : Option (Option (Option Bool)) :=
  match j.getObjVal? k with
  | .ok (.bool b) => some (some (some b))
  | .ok .null => some (some none)
  | .error _ => some none
  | _ => none

private def cfgFileOf? (f : Json) : Option CfgFile := do
  let tlsEnable ← fileBool f "tls_enable"
  let requireTls ← fileOptBool f "require_tls"
  let requireHost ← fileBool f "require_host_authn"
  let requireNode ← fileBool f "require_node_authn"
  some { tlsEnable, requireTls, requireHost, requireNode }

private def cfgJ (c : Cfg) : Json :=
  jobj [("passive", Json.bool c.passive), ("tls_enable", Json.bool c.tlsEnable),
        ("require_tls", match c.requireTls with | none => Json.null | some b => Json.bool b),
        ("require_host", Json.bool c.requireHost), ("require_node", Json.bool c.requireNode)]

/-- `cfg`: the options directly; or `cfg_file` (+ `passive`): the options as a configuration file gives them -/
private def cfgOf? (j : Json) : Option Cfg :=
  match getObj? j "cfg" with
  | some c => do
    let passive ← getBool? c "passive"
    let tlsEnable ← getBool? c "tls_enable"
    let requireTls ← optBool c "require_tls"
    let requireHost ← getBool? c "require_host"
    let requireNode ← getBool? c "require_node"
    some { passive, tlsEnable, requireTls, requireHost, requireNode }
  | none => do
    let f ← cfgFileOf? (← getObj? j "cfg_file")
    let passive ← getBool? j "passive"
    some (loadFile passive f)

private def envOf? (j : Json) : Option Env := do
  let e ← getObj? j "env"
  let peerFlags ← getNat? e "peer_flags"
  let handshake ← hsOf? (← getStr? e "handshake")
  let pipelined ← getBool? e "pipelined"
  let nativeMatch ← getBool? e "native"
  some { peerFlags, handshake, pipelined, nativeMatch }

private def gnameOf? (j : Json) : Option GName :=
  match j with
  | .arr a => do
    let k ← asStr? (← a[0]?)
    match k with
    | "ip" => do some (.ip (← asHex? (← a[1]?)))
    | "dns" => do some (.dns (← asStr? (← a[1]?)))
    | "uri" => do some (.uri (← asStr? (← a[1]?)))
    | "other" => some .other
    | _ => none
  | _ => none

/-- `null` ⇒ no SAN extension; array of `[kind, value]` otherwise -/
private def sanOf? (j : Json) : Option (Option (List GName)) :=
  match j with
  | .null => some none
  | .arr a => do
    let l ← a.toList.mapM gnameOf?
    some (some l)
  | _ => none

private def certOf? (j : Json) : Option (Option Cert) :=
  match j with
  | .null => some none
  | .obj _ => do
    let s ← sanOf? ((getObj? j "san").getD Json.null)
    some (some ⟨s⟩)
  | _ => none

private def connOf? (j : Json) : Option Conn := do
  let n ← getObj? j "conn"
  let peerName ← getStr? n "peer_name"
  let sockAddr ← getStr? n "sock_addr"
  let sockOctets ← getHex? n "sock_octets"
  let nodeId ← getStr? n "node"
  let cert ← certOf? ((getObj? n "cert").getD Json.null)
  some { peerName, sockAddr, sockOctets, nodeId, cert }

private def peerOf? (j : Json) : Option PeerId := do
  let p ← getObj? j "peer"
  let certPresent ← getBool? p "cert_present"
  let dnsKnown ← getBool? p "dns_known"
  let ip ← idOf? (← getStr? p "ip")
  let dns ← idOf? (← getStr? p "dns")
  let node ← idOf? (← getStr? p "node")
  some { certPresent, dnsKnown, ip, dns, node }

private def peerJ (p : PeerId) : Json :=
  jobj [("cert_present", Json.bool p.certPresent), ("dns_known", Json.bool p.dnsKnown),
        ("ip", Json.str (idStr p.ip)), ("dns", Json.str (idStr p.dns)), ("node", Json.str (idStr p.node))]

private def outcomeJ (o : Outcome) (p : PeerId) : Json :=
  jobj [
    ("contact", Json.str (contactStr o.contact)),
    ("sess", Json.str (sessStr o.sess)),
    ("clear", jarr (o.clear.map fun m => Json.str (msgStr m))),
    ("secured", jarr (o.secured.map fun m => Json.str (msgStr m))),
    ("state", Json.str (stStr o.state)),
    ("closed", Json.bool o.closed),
    ("is_secure", Json.bool o.isSecure),
    ("attempted", Json.bool o.attempted),
    ("escaped", jarr (o.escaped.map fun x => Json.str (escStr x))),
    ("params", match o.params with
      | none => Json.null
      | some q => jobj [("peer_dns", Json.bool q.peerDns), ("ip", Json.str (idStr q.ip)),
                        ("dns", Json.str (idStr q.dns)), ("node", Json.str (idStr q.node))]),
    ("init_from_plaintext", Json.bool o.initFromPlaintext),
    ("peer", peerJ p)]

/-- ops `tls.*` (C15) -/
def tlsHandler : Handler := fun op j =>
  match op with
  | "tls.negotiate" => do
    -- concrete certificate contents
    let c ← cfgOf? j
    let e ← envOf? j
    let n ← connOf? j
    some (outcomeJ (outcomeC (quirksOf j) c e n) (peerIdOf c n))
  | "tls.decide" => do
    -- abstract identifier results
    let c ← cfgOf? j
    let e ← envOf? j
    let p ← peerOf? j
    some (outcomeJ (outcome (quirksOf j) c e p) p)
  | "tls.loadcfg" => do
    -- `Config.from_file` on the policy options
    let f ← cfgFileOf? (← getObj? j "cfg_file")
    let passive := (getBool? j "passive").getD false
    some (jobj [("cfg", cfgJ (loadFile passive f))])
  | "tls.match" => do
    -- `match_id` alone: ref `null` = Python None
    let kind ← getStr? j "kind"
    let san ← sanOf? ((getObj? j "san").getD Json.null)
    let refJ := (getObj? j "ref").getD Json.null
    match kind with
    | "ip" =>
      let r : Option (List UInt8) := asHex? refJ
      some (jobj [("result", Json.str (idStr (matchId r (san.map ipValues))))])
    | "dns" =>
      let r : Option String := asStr? refJ
      some (jobj [("result", Json.str (idStr (matchId r (san.map dnsValues))))])
    | "uri" =>
      let r : Option String := asStr? refJ
      some (jobj [("result", Json.str (idStr (matchId r (san.map uriValues))))])
    | _ => none
  | _ => none

end Drv
end DtnVerif
