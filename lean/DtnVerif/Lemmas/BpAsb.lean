/- Round trip of the Abstract Security Block codec (Model/BpAsb.lean). -/
import DtnVerif.Model.BpAsb
import DtnVerif.Lemmas.BundleDec
namespace DtnVerif
namespace Bp
open Cbor

theorem sizeEidB_eq (e : Eid) : sizeEidB e = sizeEid e := by cases e <;> rfl

theorem decSecVal_enc (v : SecVal) (r : Bytes) (h : wfSecVal v = true) :
    decSecVal (v.enc ++ r) = some (v, r) := by
  cases v with
  | uint n => simp [SecVal.enc, decSecVal, decUint_enc n r ((u64_iff _).1 h)]
  | bstr d =>
    have hl : d.length < 2 ^ 64 := (u64_iff _).1 h
    have hu : decUint (encBstr d ++ r) = none := by
      simp [decUint, encBstr, List.append_assoc, decHead_head 2 d.length (d ++ r) (by omega) hl]
    simp [SecVal.enc, decSecVal, hu, decBstr_enc d r hl]

theorem decPair_enc (p : SecPair) (r : Bytes) (h : wfPair p = true) :
    decPair (encPair p ++ r) = some (p, r) := by
  simp only [wfPair, Bool.and_eq_true] at h
  simp only [encPair, List.append_assoc, decPair, decArrHead_enc 2 _ (by omega),
    decUint_enc _ _ ((u64_iff _).1 h.1), decSecVal_enc _ _ h.2]
  simp

theorem decPairList_enc (ps : List SecPair) (r : Bytes) (h : ps.all wfPair = true) :
    decPairList ps.length (encPairList ps ++ r) = some (ps, r) := by
  induction ps with
  | nil => rfl
  | cons p ps ih =>
    simp only [List.all_cons, Bool.and_eq_true] at h
    simp only [List.length_cons, encPairList, List.append_assoc, decPairList,
      decPair_enc p _ h.1, ih h.2]

theorem decPairs_enc (ps : List SecPair) (r : Bytes) (h : wfPairs ps = true) :
    decPairs (encPairs ps ++ r) = some (ps, r) := by
  simp only [wfPairs, Bool.and_eq_true] at h
  simp only [encPairs, List.append_assoc, decPairs, decArrHead_enc _ _ ((u64_iff _).1 h.1),
    decPairList_enc ps r h.2]

theorem decResultList_enc (rs : List (List SecPair)) (r : Bytes) (h : rs.all wfPairs = true) :
    decResultList rs.length (encResultList rs ++ r) = some (rs, r) := by
  induction rs with
  | nil => rfl
  | cons x xs ih =>
    simp only [List.all_cons, Bool.and_eq_true] at h
    simp only [List.length_cons, encResultList, List.append_assoc, decResultList,
      decPairs_enc x _ h.1, ih h.2]

theorem decParams_enc (flags : Nat) (ps : List SecPair) (r : Bytes)
    (h : (if hasParams flags then wfPairs ps else ps.isEmpty) = true) :
    decParams (hasParams flags) ((if hasParams flags then encPairs ps else []) ++ r) = some (ps, r) := by
  unfold decParams
  cases hf : hasParams flags
  · simp only [hf, Bool.false_eq_true, if_false] at h ⊢
    cases ps with
    | nil => rfl
    | cons => simp at h
  · simp only [hf, if_true] at h ⊢
    exact decPairs_enc ps r h

theorem decAsbPrefix_enc (a : Asb) (r : Bytes) (h : wfAsb a = true) :
    decAsbPrefix (a.enc ++ r) = some (a, r) := by
  simp only [wfAsb, Bool.and_eq_true] at h
  obtain ⟨⟨⟨⟨⟨⟨⟨htl, ht⟩, hc⟩, hf⟩, hs⟩, hp⟩, hrl⟩, hr⟩ := h
  rw [sizeEidB_eq] at hs
  simp only [Asb.enc, List.append_assoc, decAsbPrefix, decArrHead_enc _ _ ((u64_iff _).1 htl),
    decNatList_enc _ _ ht, decUint_enc _ _ ((u64_iff _).1 hc), decUint_enc _ _ ((u64_iff _).1 hf),
    decEidRaw_enc _ _ hs, decParams_enc _ _ _ hp, decArrHead_enc _ _ ((u64_iff _).1 hrl),
    decResultList_enc _ _ hr]

theorem decAsb_enc (a : Asb) (h : wfAsb a = true) : decAsb a.enc = some a := by
  have := decAsbPrefix_enc a [] h
  rw [List.append_nil] at this
  simp [decAsb, this]

end Bp
end DtnVerif
