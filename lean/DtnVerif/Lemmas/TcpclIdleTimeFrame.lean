/-
  The negotiated idle time is only ever set by `merge_session_params`.
  (Generated from the pattern of Lemmas/TcpclCfg.lean.)
-/
import DtnVerif.Model.TcpclEp
namespace DtnVerif
namespace Tcpcl

@[simp] theorem idt_kaReset (e : Ep) : (kaReset e).idleTime = e.idleTime := rfl
@[simp] theorem idt_idleReset (e : Ep) : (idleReset e).idleTime = e.idleTime := rfl
@[simp] theorem idt_sendMessage (e : Ep) (m : Msg) : (sendMessage e m).idleTime = e.idleTime := rfl
@[simp] theorem idt_pqTrigger (e : Ep) : (pqTrigger e).idleTime = e.idleTime := by
  unfold pqTrigger; split <;> rfl
@[simp] theorem idt_setState (e : Ep) (s : String) : (setState e s).1.idleTime = e.idleTime := by
  unfold setState; split <;> rfl
@[simp] theorem idt_flush (e : Ep) : (flushPendStart e).1.idleTime = e.idleTime := rfl
@[simp] theorem idt_doClose (e : Ep) : (doClose e).1.idleTime = e.idleTime := by
  unfold doClose; split <;> rfl
@[simp] theorem idt_checkSessTerm (e : Ep) : (checkSessTerm e).1.idleTime = e.idleTime := by
  unfold checkSessTerm; split
  · exact idt_doClose e
  · rfl
@[simp] theorem idt_sendBufferDecreased (e : Ep) : (sendBufferDecreased e).idleTime = e.idleTime := by
  unfold sendBufferDecreased; split
  · exact idt_pqTrigger e
  · rfl
@[simp] theorem idt_sendContact (e : Ep) : (sendContact e).idleTime = e.idleTime := rfl
@[simp] theorem idt_sendInit (e : Ep) : (sendInit e).idleTime = e.idleTime := rfl
@[simp] theorem idt_sendReject (e : Ep) (r : Nat) (m : Msg) : (sendReject e r m).idleTime = e.idleTime := rfl
@[simp] theorem idt_sendSessTerm (e : Ep) (r : Nat) (b : Bool) : (sendSessTerm e r b).1.idleTime = e.idleTime := by
  unfold sendSessTerm
  split
  · rfl
  · split
    · rfl
    · simp
@[simp] theorem idt_sendSegment (e : Ep) (it : TxItem) (s : Nat) : (sendSegment e it s).1.idleTime = e.idleTime := by
  unfold sendSegment
  simp only []
  split
  · rfl
  · split <;> simp
@[simp] theorem idt_processQueue (e : Ep) : (processQueue e).1.idleTime = e.idleTime := by
  unfold processQueue
  split
  · simp
  · split
    · rfl
    · split
      · simp
      · split
        · rfl
        · simp
@[simp] theorem idt_pullTx (e : Ep) : (pullTx e).idleTime = e.idleTime := by
  unfold pullTx; split <;> simp

@[simp] theorem idt_writeConn (e : Ep) (n : Nat) (up : Bool) : (writeConn e n up).1.idleTime = e.idleTime := by
  unfold writeConn
  split
  · split
    · simp
    · rfl
  · simp only []
    split
    · simp
    · split
      · simp
      · rfl

@[simp] theorem idt_pump (e : Ep) (n : Nat) : (pump e n).1.idleTime = e.idleTime := by
  unfold pump; simp

@[simp] theorem idt_onContact (e : Ep) : (onContact e).1.idleTime = e.idleTime := by
  unfold onContact; simp only []; cases e.cfg.passive <;> simp
@[simp] theorem idt_onSessTerm (e : Ep) (m : Msg) (r : Nat) : (onSessTerm e m r).1.idleTime = e.idleTime := by
  unfold onSessTerm
  split
  · rfl
  · simp only [idt_checkSessTerm, idt_flush]
    split <;> simp
@[simp] theorem idt_segAccept (e : Ep) (f t : Nat) (c d : Bytes) (o : List Out) :
    (segAccept e f t c d o).1.idleTime = e.idleTime := by
  unfold segAccept; simp only []; split <;> simp
@[simp] theorem idt_onSegment (e : Ep) (m : Msg) (f t : Nat) (d : Bytes) :
    (onSegment e m f t d).1.idleTime = e.idleTime := by
  unfold onSegment
  split
  · rfl
  · split
    · simp
    · split
      · split <;> simp
      · rfl
@[simp] theorem idt_onAck (e : Ep) (m : Msg) (f t l : Nat) : (onAck e m f t l).1.idleTime = e.idleTime := by
  unfold onAck
  split
  · rfl
  · split
    · rfl
    · split
      · split <;> simp
      · rfl
@[simp] theorem idt_onRefuse (e : Ep) (m : Msg) (r t : Nat) : (onRefuse e m r t).1.idleTime = e.idleTime := by
  unfold onRefuse
  split
  · rfl
  · split
    · rfl
    · simp only [idt_checkSessTerm]
      split
      · split <;> simp
      · rfl
theorem idt_handleMsg_noninit (e : Ep) (m : Msg) (hm : ∀ a b c d x, m ≠ .sessInit a b c d x) :
    (handleMsg e m).1.idleTime = e.idleTime := by
  unfold handleMsg
  cases m with
  | sessInit a b c d x => exact absurd rfl (hm a b c d x)
  | contact f => simp
  | sessTerm f r => simp
  | keepalive => rfl
  | msgReject a b => rfl
  | xferSegment f t x d => simp
  | xferAck f t l => simp
  | xferRefuse r t => simp

theorem idt_step_nonrx (e : Ep) (ev : Ev) (hne : ∀ c, ev ≠ .rx c) : (step e ev).1.idleTime = e.idleTime := by
  unfold step
  cases ev with
  | pump n => simp only []; split <;> (try split) <;> simp
  | advance ms => rfl
  | start =>
    simp only []
    split
    · rfl
    · split
      · rfl
      · simp only [idt_setState]; split <;> simp
  | send d => simp only []; split <;> simp
  | terminate r => simp only []; split <;> simp
  | close => simp only []; split <;> simp
  | pop t =>
    simp only []
    have : (popRx e t).1.idleTime = e.idleTime := by unfold popRx; split <;> rfl
    split <;> simp [this]
  | query q => simp only []; split <;> rfl
  | procQueue =>
    simp only []
    split
    · rfl
    · split
      · rfl
      · simp
  | rx c => exact absurd rfl (hne c)
  | rxEof => simp only []; split <;> simp
  | keepaliveTimer =>
    simp only []
    split
    · rfl
    · split <;> simp
  | idleTimer =>
    simp only []
    split
    · rfl
    · split
      · rfl
      · split <;> simp
  | modulate raw =>
    simp only []
    split
    · rfl
    · split <;> rfl


end Tcpcl
end DtnVerif
