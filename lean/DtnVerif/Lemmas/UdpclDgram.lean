/- Helper lemmas for C13: `_recv_datagram` on TRANSFER messages, padding, and the range codec. -/
import DtnVerif.Model.Udpcl
import DtnVerif.Lemmas.Cbor
namespace DtnVerif
namespace Udpcl
open Cbor

theorem parseTransferVal_enc (id total off : Nat) (chunk r : Bytes)
    (h1 : id < 2 ^ 64) (h2 : total < 2 ^ 64) (h3 : off < 2 ^ 64) (h4 : chunk.length < 2 ^ 64) :
    parseTransferVal (encArrHead 4 ++ (encUint id ++ (encUint total ++ (encUint off ++
      (encBstr chunk ++ r))))) = some ((id, total, off, chunk), r) := by
  unfold parseTransferVal
  rw [decArrHead_enc 4 _ (by decide)]
  simp only [ne_eq, not_true_eq_false, if_false]
  rw [decUint_enc id _ h1]
  simp only []
  rw [decUint_enc total _ h2]
  simp only []
  rw [decUint_enc off _ h3]
  simp only []
  rw [decBstr_enc chunk _ h4]

theorem parseExtMap_enc (id total off : Nat) (chunk r : Bytes)
    (h1 : id < 2 ^ 64) (h2 : total < 2 ^ 64) (h3 : off < 2 ^ 64) (h4 : chunk.length < 2 ^ 64) :
    parseExtMap (encTransfer id total off chunk ++ r) =
      some (⟨some (id, total, off, chunk), []⟩, r) := by
  unfold parseExtMap encTransfer
  simp only [List.append_assoc]
  rw [decMapHead_enc 1 _ (by decide)]
  simp only [parsePairs]
  rw [decUint_enc 2 _ (by decide)]
  simp only [if_true]
  rw [parseTransferVal_enc id total off chunk r h1 h2 h3 h4]

theorem encTransfer_head (id total off : Nat) (chunk : Bytes) :
    ∃ tl, encTransfer id total off chunk = 0xa1 :: tl := by
  refine ⟨encUint 2 ++ (encArrHead 4 ++ (encUint id ++ (encUint total ++
    (encUint off ++ encBstr chunk)))), ?_⟩
  simp [encTransfer, encMapHead, head]

/-- One TRANSFER message at the front of what is left of a datagram is handled on its own. -/
theorem recvLoop_enc (f : Nat) (addr : String) (port : Nat) (s : Rx) (id total off : Nat)
    (chunk r : Bytes)
    (h1 : id < 2 ^ 64) (h2 : total < 2 ^ 64) (h3 : off < 2 ^ 64) (h4 : chunk.length < 2 ^ 64) :
    recvLoop (f + 1) false addr port s (encTransfer id total off chunk ++ r) =
      match recvTransfer s ⟨addr, port, id⟩ total off chunk with
      | .ok s' => recvLoop f false addr port s' r
      | .error e => (s, .error e) := by
  have hp := parseExtMap_enc id total off chunk r h1 h2 h3 h4
  obtain ⟨tl, htl⟩ := encTransfer_head id total off chunk
  rw [htl] at hp ⊢
  simp only [List.cons_append] at hp ⊢
  conv => lhs; unfold recvLoop
  have e0 : ((0xa1 : UInt8) = 0x00) = False := by decide
  have e1 : (20 ≤ (0xa1 : UInt8).toNat ∧ (0xa1 : UInt8).toNat ≤ 23) = False := by decide
  have e2 : ((0xa1 : UInt8) = 0x06) = False := by decide
  have e3 : ((0xa1 : UInt8).toNat / 32 = 4) = False := by decide
  have e4 : ((0xa1 : UInt8).toNat / 32 = 5) = True := by decide
  simp only [e0, e1, e2, e3, e4, if_false, if_true, hp]
  unfold recvExtMap
  simp only [List.any_nil, Bool.false_eq_true, if_false]
  cases recvTransfer s ⟨addr, port, id⟩ total off chunk <;> rfl

theorem recvLoop_nil (f : Nat) (rej : Bool) (addr : String) (port : Nat) (s : Rx) :
    recvLoop f rej addr port s [] = (s, .done) := by
  cases f <;> rfl

/-- A zero octet ends the processing of the datagram: the rest is padding. -/
theorem recvLoop_pad (f : Nat) (rej : Bool) (addr : String) (port : Nat) (s : Rx) (r : Bytes) :
    recvLoop f rej addr port s (0x00 :: r) = (s, .done) := by
  cases f with
  | zero => rfl
  | succ f => simp [recvLoop]

/-! ### range codec -/

/-- Atomic intervals of a normalised `portion` interval: ascending, non-empty, with gaps. -/
def Norm : Bool → Nat → List (Nat × Nat) → Prop
  | _, _, [] => True
  | strict, seen, (lo, hi) :: rest =>
    (if strict then seen < lo else seen ≤ lo) ∧ lo < hi ∧ Norm true hi rest

theorem rangeDecode_encode_from : ∀ (s : List (Nat × Nat)) (strict : Bool) (seen : Nat)
    (acc : List (Nat × Nat)), Norm strict seen s →
    (strict = true → ∃ l t, acc = (l, seen) :: t) → (strict = false → acc = []) →
    rangeDecodeFrom seen acc (rangeEncodeFrom seen s) = s.reverse ++ acc := by
  intro s
  induction s with
  | nil => intro strict seen acc _ _ _; simp [rangeEncodeFrom, rangeDecodeFrom]
  | cons p rest ih =>
    intro strict seen acc hn hs hf
    obtain ⟨lo, hi⟩ := p
    obtain ⟨h1, h2, h3⟩ := hn
    have hle : seen ≤ lo := by
      cases strict <;> simp at h1 <;> omega
    simp only [rangeEncodeFrom, rangeDecodeFrom]
    have e1 : seen + (lo - seen) = lo := by omega
    have e2 : lo + (hi - lo) = hi := by omega
    rw [e1, e2]
    have hpush : pushRange acc lo hi = (lo, hi) :: acc := by
      unfold pushRange
      have : ¬ hi ≤ lo := by omega
      simp only [this, if_false]
      cases strict with
      | false => rw [hf rfl]
      | true =>
        obtain ⟨l, t, rfl⟩ := hs rfl
        simp at h1
        have : ¬ lo ≤ seen := by omega
        simp only [this, if_false]
    rw [hpush, ih true hi ((lo, hi) :: acc) h3 (fun _ => ⟨lo, acc, rfl⟩) (fun h => by cases h)]
    simp

end Udpcl
end DtnVerif
