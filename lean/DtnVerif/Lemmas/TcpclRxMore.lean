/-
  `rxMore` (later messages of the current read still in `__rx_buf`) is only ever set inside the
  `recv_raw` loop and is cleared when the loop ends: between events it is always `false`.
  (Frame lemmas generated from the pattern of Lemmas/TcpclSucc.lean.)
-/
import DtnVerif.Model.TcpclEp
namespace DtnVerif
namespace Tcpcl

@[simp] theorem rm_kaReset (e : Ep) : (kaReset e).rxMore = e.rxMore := rfl
@[simp] theorem rm_idleReset (e : Ep) : (idleReset e).rxMore = e.rxMore := rfl
@[simp] theorem rm_sendMessage (e : Ep) (m : Msg) : (sendMessage e m).rxMore = e.rxMore := rfl
@[simp] theorem rm_pqTrigger (e : Ep) : (pqTrigger e).rxMore = e.rxMore := by
  unfold pqTrigger; split <;> rfl
@[simp] theorem rm_setState (e : Ep) (s : String) : (setState e s).1.rxMore = e.rxMore := by
  unfold setState; split <;> rfl
@[simp] theorem rm_flush (e : Ep) : (flushPendStart e).1.rxMore = e.rxMore := rfl
@[simp] theorem rm_doClose (e : Ep) : (doClose e).1.rxMore = e.rxMore := by
  unfold doClose; split <;> rfl
@[simp] theorem rm_checkSessTerm (e : Ep) : (checkSessTerm e).1.rxMore = e.rxMore := by
  unfold checkSessTerm; split
  · exact rm_doClose e
  · rfl
@[simp] theorem rm_sendBufferDecreased (e : Ep) : (sendBufferDecreased e).rxMore = e.rxMore := by
  unfold sendBufferDecreased; split
  · exact rm_pqTrigger e
  · rfl
@[simp] theorem rm_mergeSession (e : Ep) (p : PeerInit) : (mergeSession e p).rxMore = e.rxMore := rfl
@[simp] theorem rm_sendContact (e : Ep) : (sendContact e).rxMore = e.rxMore := rfl
@[simp] theorem rm_sendInit (e : Ep) : (sendInit e).rxMore = e.rxMore := rfl
@[simp] theorem rm_sendReject (e : Ep) (r : Nat) (m : Msg) : (sendReject e r m).rxMore = e.rxMore := rfl
@[simp] theorem rm_sendSessTerm (e : Ep) (r : Nat) (b : Bool) : (sendSessTerm e r b).1.rxMore = e.rxMore := by
  unfold sendSessTerm
  split
  · rfl
  · split
    · rfl
    · simp
@[simp] theorem rm_sendSegment (e : Ep) (it : TxItem) (s : Nat) : (sendSegment e it s).1.rxMore = e.rxMore := by
  unfold sendSegment
  simp only []
  split
  · rfl
  · split <;> simp
@[simp] theorem rm_processQueue (e : Ep) : (processQueue e).1.rxMore = e.rxMore := by
  unfold processQueue
  split
  · simp
  · split
    · rfl
    · split
      · simp
      · split
        · rfl
        · simp
@[simp] theorem rm_pullTx (e : Ep) : (pullTx e).rxMore = e.rxMore := by
  unfold pullTx; split <;> simp

@[simp] theorem rm_writeConn (e : Ep) (n : Nat) (up : Bool) : (writeConn e n up).1.rxMore = e.rxMore := by
  unfold writeConn
  split
  · split <;> simp
  · simp only []
    split
    · simp
    · split <;> simp
@[simp] theorem rm_pump (e : Ep) (n : Nat) : (pump e n).1.rxMore = e.rxMore := by
  unfold pump; simp

@[simp] theorem rm_onContact (e : Ep) : (onContact e).1.rxMore = e.rxMore := by
  unfold onContact; simp only []; cases e.cfg.passive <;> simp
@[simp] theorem rm_onSessInit (e : Ep) (p : PeerInit) : (onSessInit e p).1.rxMore = e.rxMore := by
  unfold onSessInit; simp only []; cases e.cfg.passive <;> simp
@[simp] theorem rm_onSessTerm (e : Ep) (m : Msg) (r : Nat) : (onSessTerm e m r).1.rxMore = e.rxMore := by
  unfold onSessTerm
  split
  · rfl
  · simp only [rm_checkSessTerm, rm_flush]
    split <;> simp
@[simp] theorem rm_segAccept (e : Ep) (f t : Nat) (c d : Bytes) (o : List Out) :
    (segAccept e f t c d o).1.rxMore = e.rxMore := by
  unfold segAccept; simp only []; split <;> simp
@[simp] theorem rm_onSegment (e : Ep) (m : Msg) (f t : Nat) (d : Bytes) :
    (onSegment e m f t d).1.rxMore = e.rxMore := by
  unfold onSegment
  split
  · rfl
  · split
    · simp
    · split
      · split <;> simp
      · rfl
@[simp] theorem rm_onRefuse (e : Ep) (m : Msg) (r t : Nat) : (onRefuse e m r t).1.rxMore = e.rxMore := by
  unfold onRefuse
  split
  · rfl
  · split
    · rfl
    · simp only [rm_checkSessTerm]
      split
      · split <;> simp
      · rfl

@[simp] theorem rm_onAck (e : Ep) (m : Msg) (f t l : Nat) : (onAck e m f t l).1.rxMore = e.rxMore := by
  unfold onAck
  split
  · rfl
  · split
    · rfl
    · split
      · split
        · rfl
        · simp
      · rfl

theorem rxMore_step_nonrx (e : Ep) (ev : Ev) (h : ∀ c, ev ≠ .rx c) : (step e ev).1.rxMore = e.rxMore := by
  unfold step
  cases ev with
  | rx c => exact absurd rfl (h c)
  | advance ms => rfl
  | start =>
    simp only []
    split
    · rfl
    · split
      · rfl
      · simp only [rm_setState]; split <;> simp
  | send d => simp only []; split <;> simp
  | terminate r => simp only []; split <;> simp
  | close => simp only []; split <;> simp
  | pop t =>
    simp only []
    have : (popRx e t).1.rxMore = e.rxMore := by unfold popRx; split <;> rfl
    split <;> simp [this]
  | query q => simp only []; split <;> rfl
  | procQueue =>
    simp only []
    split
    · rfl
    · split
      · rfl
      · simp
  | pump n => simp only []; split <;> (try split) <;> simp
  | rxEof => simp only []; split <;> simp
  | keepaliveTimer =>
    simp only []
    split
    · rfl
    · split <;> simp
  | idleTimer =>
    simp only []
    split
    · rfl
    · split
      · rfl
      · split <;> simp
  | modulate raw =>
    simp only []
    split
    · rfl
    · split <;> rfl

theorem rxMore_recvRaw (e : Ep) (c : Bytes) : (recvRaw e c).1.rxMore = false := by
  unfold recvRaw
  simp only []
  split
  · simp
  · rfl

/-- between events `rxMore` is `false` -/
theorem rxMore_step (e : Ep) (ev : Ev) (h : e.rxMore = false) : (step e ev).1.rxMore = false := by
  by_cases hrx : ∃ c, ev = .rx c
  · obtain ⟨c, rfl⟩ := hrx
    unfold step
    simp only []
    split
    · exact h
    · exact rxMore_recvRaw e c
  · rw [rxMore_step_nonrx e ev (fun c hc => hrx ⟨c, hc⟩)]; exact h

theorem rxMore_run (evs : List Ev) : ∀ (e : Ep), e.rxMore = false → (runEp e evs).rxMore = false := by
  induction evs with
  | nil => intro e h; exact h
  | cons ev evs ih =>
    intro e h
    have : runEp e (ev :: evs) = runEp (step e ev).1 evs := by
      simp only [runEp, run]
    rw [this]
    exact ih _ (rxMore_step e ev h)

end Tcpcl
end DtnVerif
