/- Helper lemmas for C13: segment sizing and the segmenting loop of `Udpcl.sendTransfer`. -/
import DtnVerif.Model.Udpcl
import DtnVerif.Lemmas.Cbor
namespace DtnVerif
namespace Udpcl
open Cbor

theorem encTransfer_length (id total off : Nat) (chunk : Bytes) :
    (encTransfer id total off chunk).length =
      3 + headLen id + headLen total + headLen off + headLen chunk.length + chunk.length := by
  simp only [encTransfer, List.length_append, encMapHead_length, encUint_length, encArrHead_length,
    encBstr_length]
  have h1 : headLen 1 = 1 := by decide
  have h2 : headLen 2 = 1 := by decide
  have h4 : headLen 4 = 1 := by decide
  omega

theorem extBaseEncsize_eq (id total : Nat) :
    extBaseEncsize id total = 4 + headLen id + 2 * headLen total := by
  unfold extBaseEncsize
  rw [encTransfer_length]
  have h0 : headLen 0 = 1 := by decide
  simp only [List.length_nil, h0]; omega

/-- The octets the sizing reserves for everything but the fragment data. -/
def overhead (id total : Nat) : Nat := 3 + headLen id + 3 * headLen total

theorem remainSize_eq (mtu id total : Nat) :
    remainSize mtu id total = (mtu : Int) - (overhead id total : Int) := by
  unfold remainSize dataSizeEncsize overhead
  rw [extBaseEncsize_eq, encUint_length]; omega

/-- A segment whose offset and data length do not exceed the total length fits the MTU when its
    data fits `remain_size`. -/
theorem encTransfer_le_mtu (mtu id total off : Nat) (chunk : Bytes)
    (hoff : off ≤ total) (hlen : chunk.length ≤ total)
    (hrem : (chunk.length : Int) ≤ remainSize mtu id total) :
    (encTransfer id total off chunk).length ≤ mtu := by
  rw [encTransfer_length]
  rw [remainSize_eq] at hrem
  unfold overhead at hrem
  have h1 := headLen_mono hoff
  have h2 := headLen_mono hlen
  omega

/-- Consecutive parts starting at `off`. -/
def Contig : Nat → List (Nat × Bytes) → Prop
  | _, [] => True
  | off, p :: ps => p.1 = off ∧ Contig (off + p.2.length) ps

theorem splitLoop_spec (data : Bytes) (remain : Nat) (hr : 0 < remain) :
    ∀ (fuel off : Nat), data.length - off < fuel →
      Contig off (splitLoop fuel data remain off) ∧
        ((splitLoop fuel data remain off).map (·.2)).flatten = data.drop off ∧
        ∀ p ∈ splitLoop fuel data remain off, 0 < p.2.length ∧ p.2.length ≤ remain := by
  intro fuel
  induction fuel with
  | zero => intro off h; omega
  | succ fuel ih =>
    intro off hf
    unfold splitLoop
    by_cases hlt : off < data.length
    · simp only [hlt, if_true]
      obtain ⟨hc, hcat, hall⟩ := ih (off + remain) (by omega)
      refine ⟨?_, ?_, ?_⟩
      · refine ⟨rfl, ?_⟩
        show Contig (off + ((data.drop off).take remain).length) _
        by_cases hfit : off + remain ≤ data.length
        · have : ((data.drop off).take remain).length = remain := by
            simp [List.length_take, List.length_drop]; omega
          rw [this]; exact hc
        · -- last chunk: nothing follows
          have hnil : splitLoop fuel data remain (off + remain) = [] := by
            cases fuel with
            | zero => rfl
            | succ f =>
              unfold splitLoop
              have : ¬ (off + remain < data.length) := by omega
              simp only [this, if_false]
          rw [hnil]; trivial
      · simp only [List.map_cons, List.flatten_cons, hcat]
        rw [← List.drop_drop]
        exact List.take_append_drop remain (data.drop off)
      · intro p hp
        rcases List.mem_cons.mp hp with rfl | hp
        · simp only [List.length_take, List.length_drop]; omega
        · exact hall p hp
    · simp only [hlt, if_false]
      refine ⟨trivial, ?_, ?_⟩
      · simp [List.drop_of_length_le (Nat.le_of_not_lt hlt)]
      · intro p hp; cases hp

/-- Parts that are consecutive from `off` and concatenate to `data.drop off` are slices of `data`. -/
theorem contig_slices (data : Bytes) :
    ∀ (ps : List (Nat × Bytes)) (off : Nat), off ≤ data.length → Contig off ps →
      (ps.map (·.2)).flatten = data.drop off →
      ∀ p ∈ ps, p.1 + p.2.length ≤ data.length ∧ p.2 = (data.drop p.1).take p.2.length := by
  intro ps
  induction ps with
  | nil => intro off _ _ _ p hp; cases hp
  | cons q qs ih =>
    intro off hoff hc hcat p hp
    obtain ⟨hq, hc'⟩ := hc
    simp only [List.map_cons, List.flatten_cons] at hcat
    have hlen : q.2.length ≤ (data.drop off).length := by
      rw [← hcat]; simp
    have htake : q.2 = (data.drop off).take q.2.length := by
      rw [← hcat]; simp
    have hdrop : (qs.map (·.2)).flatten = data.drop (off + q.2.length) := by
      rw [← List.drop_drop, ← hcat]; simp
    rcases List.mem_cons.mp hp with rfl | hp
    · rw [hq]; refine ⟨?_, htake⟩
      rw [List.length_drop] at hlen
      omega
    · rw [List.length_drop] at hlen
      exact ih _ (by omega) hc' hdrop p hp

theorem contig_lower : ∀ (ps : List (Nat × Bytes)) (off : Nat), Contig off ps →
    ∀ p ∈ ps, off ≤ p.1 := by
  intro ps
  induction ps with
  | nil => intro off _ p hp; cases hp
  | cons q qs ih =>
    intro off hc p hp
    obtain ⟨hq, hc'⟩ := hc
    rcases List.mem_cons.mp hp with rfl | hp
    · omega
    · have := ih _ hc' p hp; omega

/-- consecutive parts cover every index from `off` up to the end of their concatenation -/
theorem contig_cover : ∀ (ps : List (Nat × Bytes)) (off : Nat), Contig off ps →
    ∀ i, off ≤ i → i < off + ((ps.map (·.2)).flatten).length →
      ∃ p ∈ ps, p.1 ≤ i ∧ i < p.1 + p.2.length := by
  intro ps
  induction ps with
  | nil => intro off _ i h1 h2; simp at h2; omega
  | cons q qs ih =>
    intro off hc i h1 h2
    obtain ⟨hq, hc'⟩ := hc
    simp only [List.map_cons, List.flatten_cons, List.length_append] at h2
    by_cases hi : i < off + q.2.length
    · exact ⟨q, List.mem_cons_self, by omega, by omega⟩
    · obtain ⟨p, hp, h3, h4⟩ := ih _ hc' i (by omega) (by omega)
      exact ⟨p, List.mem_cons_of_mem _ hp, h3, h4⟩

end Udpcl
end DtnVerif
