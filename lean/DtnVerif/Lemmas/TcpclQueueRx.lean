/-
  The receive map `_rx_map` (an insertion-ordered association list in the model) refines a partial
  map `Nat → Option Bytes`: completion of a transfer is `set`, `pop` is `remove`, the queue query lists
  the keys, each once.
-/
import DtnVerif.Lemmas.TcpclQueueRun
namespace DtnVerif
namespace Tcpcl

def rxLookup (m : List (Nat × Bytes)) (t : Nat) : Option Bytes := (m.find? (·.1 == t)).map (·.2)

/-- abstract `set` on a partial map -/
def absSet (A : Nat → Option Bytes) (p : Nat × Bytes) : Nat → Option Bytes :=
  fun t => if t = p.1 then some p.2 else A t
def absIns (A : Nat → Option Bytes) (new : List (Nat × Bytes)) : Nat → Option Bytes := new.foldl absSet A
def absDel (A : Nat → Option Bytes) (tid : Nat) : Nat → Option Bytes := fun t => if t = tid then none else A t

theorem rxLookup_isSome (m : List (Nat × Bytes)) (t : Nat) : (rxLookup m t).isSome ↔ t ∈ m.map (·.1) := by
  induction m with
  | nil => simp [rxLookup]
  | cons p m ih =>
    simp only [rxLookup, List.find?_cons, List.map_cons, List.mem_cons] at ih ⊢
    by_cases h : p.1 = t
    · simp [h]
    · have : (p.1 == t) = false := by simpa using h
      simp only [this]
      rw [ih]
      constructor
      · exact Or.inr
      · rintro (h' | h')
        · exact absurd h'.symm h
        · exact h'

theorem rxLookup_set (m : List (Nat × Bytes)) (tid : Nat) (d : Bytes) (t : Nat) :
    rxLookup (rxMapSet m tid d) t = absSet (rxLookup m) (tid, d) t := by
  unfold rxMapSet absSet
  by_cases hany : m.any (·.1 == tid) = true
  · simp only [hany, if_true]
    induction m with
    | nil => simp at hany
    | cons p m ih =>
      simp only [rxLookup, List.map_cons, List.find?_cons]
      by_cases hp : p.1 = tid
      · by_cases ht : t = tid
        · simp [hp, ht]
        · have h1 : (tid == t) = false := by simpa using (fun h => ht h.symm)
          have h2 : (p.1 == t) = false := by simpa [hp] using (fun h => ht h.symm)
          simp only [hp, beq_self_eq_true, if_true, h1, ht, if_false, h2]
          by_cases hany' : m.any (·.1 == tid) = true
          · have := ih hany'
            simp only [rxLookup, ht, if_false] at this
            exact this
          · -- no further entry with this key: the map leaves the tail alone
            have hid : m.map (fun kv => if (kv.1 == tid) = true then (tid, d) else kv) = m := by
              conv => rhs; rw [← List.map_id m]
              apply List.map_congr_left
              intro kv hkv
              have : (kv.1 == tid) = false := by
                have h := hany'
                simp only [List.any_eq_true, not_exists, not_and, Bool.not_eq_true] at h
                exact h kv hkv
              simp [this]
            rw [hid]
      · have hp' : (p.1 == tid) = false := by simpa using hp
        have hany' : m.any (·.1 == tid) = true := by
          simpa [List.any_cons, hp'] using hany
        have := ih hany'
        simp only [hp', Bool.false_eq_true, if_false]
        by_cases hpt : p.1 = t
        · have ht : ¬ t = tid := fun h => hp (hpt.trans h)
          simp [hpt, ht]
        · have hpt' : (p.1 == t) = false := by simpa using hpt
          simp only [hpt']
          simp only [rxLookup] at this
          exact this
  · have hany' : m.any (·.1 == tid) = false := Bool.eq_false_iff.mpr hany
    simp only [hany', Bool.false_eq_true, if_false]
    simp only [rxLookup, List.find?_append]
    by_cases ht : t = tid
    · subst ht
      have : m.find? (·.1 == t) = none := by
        rw [List.find?_eq_none]
        intro x hx
        simp only [List.any_eq_false] at hany'
        exact hany' x hx
      simp [this]
    · have : (tid == t) = false := by simpa using (fun h => ht h.symm)
      simp [this, ht]

theorem rxLookup_ins (m new : List (Nat × Bytes)) (t : Nat) :
    rxLookup (rxIns m new) t = absIns (rxLookup m) new t := by
  induction new generalizing m with
  | nil => rfl
  | cons p new ih =>
    simp only [rxIns, absIns, List.foldl_cons] at ih ⊢
    rw [ih]
    have : rxLookup (rxMapSet m p.1 p.2) = absSet (rxLookup m) p := by
      funext t'
      exact rxLookup_set m p.1 p.2 t'
    rw [this]

theorem rxLookup_del (m : List (Nat × Bytes)) (tid t : Nat) :
    rxLookup (m.filter (·.1 != tid)) t = absDel (rxLookup m) tid t := by
  unfold absDel
  induction m with
  | nil => simp [rxLookup]
  | cons p m ih =>
    simp only [rxLookup] at ih ⊢
    by_cases hp : p.1 = tid
    · simp only [List.filter_cons, hp, bne_self_eq_false, Bool.false_eq_true, if_false, List.find?_cons]
      rw [ih]
      by_cases ht : t = tid
      · simp [ht]
      · have : (tid == t) = false := by simpa using (fun h => ht h.symm)
        simp [ht, this]
    · have hp' : (p.1 != tid) = true := by simpa using hp
      simp only [List.filter_cons, hp', if_true, List.find?_cons]
      by_cases hpt : p.1 = t
      · have ht : ¬ t = tid := fun h => hp (hpt.trans h)
        simp [hpt, ht]
      · have : (p.1 == t) = false := by simpa using hpt
        simp only [this]
        exact ih

/-- keys stay distinct -/
theorem rxMapSet_keys_nodup (m : List (Nat × Bytes)) (tid : Nat) (d : Bytes) (h : (m.map (·.1)).Nodup) :
    ((rxMapSet m tid d).map (·.1)).Nodup := by
  unfold rxMapSet
  split
  · have : (m.map (fun kv => if (kv.1 == tid) = true then (tid, d) else kv)).map (·.1) = m.map (·.1) := by
      rw [List.map_map]
      apply List.map_congr_left
      intro kv _
      simp only [Function.comp]
      split
      · rename_i h; simpa using (beq_iff_eq.mp h).symm
      · rfl
    rw [this]; exact h
  · rename_i hany
    simp only [List.map_append, List.map_cons, List.map_nil]
    refine List.nodup_append.mpr ⟨h, by simp, ?_⟩
    intro a ha b hb hab
    simp only [List.mem_cons, List.not_mem_nil, or_false] at hb
    subst hb; subst hab
    apply hany
    simp only [List.mem_map] at ha
    obtain ⟨kv, hkv, rfl⟩ := ha
    simp only [List.any_eq_true]
    exact ⟨kv, hkv, by simp⟩

theorem rxMapSet_mem (m : List (Nat × Bytes)) (tid : Nat) (d : Bytes) (p : Nat × Bytes)
    (h : p ∈ rxMapSet m tid d) : p = (tid, d) ∨ p ∈ m := by
  unfold rxMapSet at h
  split at h
  · simp only [List.mem_map] at h
    obtain ⟨kv, hkv, rfl⟩ := h
    split
    · exact Or.inl rfl
    · exact Or.inr hkv
  · simp only [List.mem_append, List.mem_cons, List.not_mem_nil, or_false] at h
    exact h.symm

/-- receive-queue invariant: every queued entry is a completed received transfer; keys distinct -/
structure RxQInv (e : Ep) : Prop where
  sound : ∀ p ∈ e.rxMap, p ∈ e.rxLog
  keys : (e.rxMap.map (·.1)).Nodup

theorem RxQInv.ins {m log new : List (Nat × Bytes)} (h1 : ∀ p ∈ m, p ∈ log) (h2 : (m.map (·.1)).Nodup) :
    (∀ p ∈ rxIns m new, p ∈ log ++ new) ∧ ((rxIns m new).map (·.1)).Nodup := by
  induction new generalizing m log with
  | nil => exact ⟨by simpa [rxIns] using h1, by simpa [rxIns] using h2⟩
  | cons q new ih =>
    have := ih (m := rxMapSet m q.1 q.2) (log := log ++ [q]) (by
      intro p hp
      rcases rxMapSet_mem m q.1 q.2 p hp with h | h
      · simp [h]
      · simp [h1 p h]) (rxMapSet_keys_nodup m q.1 q.2 h2)
    simpa [rxIns, List.append_assoc] using this

theorem RxQInv.step (e : Ep) (ev : Ev) (h : RxQInv e) (hq : QInv e) : RxQInv (step e ev).1 := by
  by_cases hs : ev.isSend = true
  · cases ev with
    | send d =>
      cases hc : e.closed
      · obtain ⟨_, _, _, h1, h2, _⟩ := q_step_send_fields e d hc
        exact ⟨by rw [h1, h2]; exact h.sound, by rw [h1]; exact h.keys⟩
      · rw [q_step_send_closed e d hc]; exact h
    | _ => simp [Ev.isSend] at hs
  · by_cases hp : ev.isPop = true
    · cases ev with
      | pop tid =>
        rw [q_step_pop]
        unfold popRx
        split
        · refine ⟨?_, ?_⟩
          · intro p hp'
            exact h.sound p (List.mem_filter.mp hp').1
          · have : (e.rxMap.filter (·.1 != tid)).map (·.1) = (e.rxMap.map (·.1)).filter (· != tid) := by
              rw [List.filter_map]; rfl
            simp only []
            rw [this]
            exact h.keys.filter _
        · exact h
      | _ => simp [Ev.isPop] at hp
    · obtain ⟨_, _, ⟨new, _, b2, b3⟩⟩ := q_step e ev (by simpa using hs) (by simpa using hp) hq
      have := RxQInv.ins (new := new) h.sound h.keys
      exact ⟨by rw [b2, b3]; exact this.1, by rw [b3]; exact this.2⟩

theorem QInv.step (e : Ep) (ev : Ev) (hq : QInv e) : QInv (step e ev).1 := by
  obtain ⟨_, _, h, _⟩ := (TxHist.init hq).step_any ev
  exact h.inv

theorem q_run_inv (evs : List Ev) : ∀ e : Ep, QInv e → RxQInv e → QInv (run e evs).1 ∧ RxQInv (run e evs).1 := by
  induction evs with
  | nil => intro e h1 h2; exact ⟨h1, h2⟩
  | cons ev evs ih =>
    intro e h1 h2
    rw [run_cons_fst]
    exact ih _ (h1.step e ev) (h2.step e ev h1)

theorem QInv.init (cfg : Cfg) : QInv { cfg := cfg } :=
  ⟨by simp [Ep.inflight, tmpTids], by simp, by simp [Ep.inflight, tmpTids], by simp⟩

theorem RxQInv.init (cfg : Cfg) : RxQInv { cfg := cfg } := ⟨by simp, by simp⟩

end Tcpcl
end DtnVerif
