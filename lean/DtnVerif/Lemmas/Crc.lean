/- Lemmas about the block CRC operations (Model/Crc.lean): update/check, widths. -/
import DtnVerif.Model.Crc
import DtnVerif.Lemmas.Bytes
namespace DtnVerif
namespace Bp
open Crc

@[simp] theorem Primary.zeroed_crcType (p : Primary) : p.zeroed.crcType = p.crcType := rfl
@[simp] theorem Canonical.zeroed_crcType (c : Canonical) : c.zeroed.crcType = c.crcType := rfl

/-- the zeroed form does not depend on the CRC value present -/
theorem Primary.zeroed_setCrc (p : Primary) (v : Option Bytes) :
    ({ p with crc := v } : Primary).zeroed = p.zeroed := rfl
theorem Canonical.zeroed_setCrc (c : Canonical) (v : Option Bytes) :
    ({ c with crc := v } : Canonical).zeroed = c.zeroed := rfl

theorem Primary.crcValue_setCrc (p : Primary) (v : Option Bytes) :
    ({ p with crc := v } : Primary).crcValue = p.crcValue := rfl
theorem Canonical.crcValue_setCrc (c : Canonical) (v : Option Bytes) :
    ({ c with crc := v } : Canonical).crcValue = c.crcValue := rfl

theorem Primary.check_update (p : Primary) : p.updateCrc.checkCrc = true := by
  unfold Primary.updateCrc
  split
  · rename_i h; simp [Primary.checkCrc, h]
  · rename_i h
    simp only [Primary.checkCrc, h]
    simp [Primary.crcValue_setCrc]

theorem Canonical.check_update (c : Canonical) : c.updateCrc.checkCrc = true := by
  unfold Canonical.updateCrc
  split
  · rename_i h; simp [Canonical.checkCrc, h]
  · rename_i h
    simp only [Canonical.checkCrc, h]
    simp [Canonical.crcValue_setCrc]

/-- a block that passes its check is a fixed point of `updateCrc` -/
theorem Canonical.update_of_check (c : Canonical) (h : c.checkCrc = true) : c.updateCrc = c := by
  unfold Canonical.checkCrc at h
  unfold Canonical.updateCrc
  cases c with
  | mk ty num fl ct btsd crc =>
    by_cases h0 : (ct == 0) = true
    · simp only [h0, if_true] at h ⊢
      cases crc <;> simp_all
    · simp only [h0, Bool.false_eq_true, if_false, beq_iff_eq] at h ⊢
      rw [h]
      simp [Canonical.crcValue, Canonical.zeroed]

theorem Primary.update_of_check (p : Primary) (h : p.checkCrc = true) : p.updateCrc = p := by
  unfold Primary.checkCrc at h
  unfold Primary.updateCrc
  cases p with
  | mk v fl ct d s r ts l fo tl crc =>
    by_cases h0 : (ct == 0) = true
    · simp only [h0, if_true] at h ⊢
      cases crc <;> simp_all
    · simp only [h0, Bool.false_eq_true, if_false, beq_iff_eq] at h ⊢
      rw [h]
      simp [Primary.crcValue, Primary.zeroed]

theorem crcOf_length (t : Nat) (d : Bytes) : (crcOf t d).length = crcWidth t := by
  unfold crcOf crcWidth
  split
  · simp
  · split <;> simp

theorem checkAllCrc_nil_iff (b : Bundle) :
    b.checkAllCrc = [] ↔ b.primary.checkCrc = true ∧ ∀ c ∈ b.blocks, c.checkCrc = true := by
  unfold Bundle.checkAllCrc
  constructor
  · intro h
    rw [List.append_eq_nil_iff] at h
    obtain ⟨h1, h2⟩ := h
    constructor
    · by_cases hp : b.primary.checkCrc = true
      · exact hp
      · simp [hp] at h1
    · intro c hc
      rw [List.map_eq_nil_iff, List.filter_eq_nil_iff] at h2
      have := h2 c hc
      simpa using this
  · intro ⟨h1, h2⟩
    rw [List.append_eq_nil_iff]
    constructor
    · simp [h1]
    · rw [List.map_eq_nil_iff, List.filter_eq_nil_iff]
      intro c hc
      simp [h2 c hc]

end Bp
end DtnVerif
