/-
  A transfer reported successful has left the send queue for good: its id is not in `_tx_map`
  (hence not awaiting an acknowledgement) and lies below the next id to be handed out.
-/
import DtnVerif.Lemmas.TcpclQueueRx
import DtnVerif.Lemmas.TcpclSucc
namespace DtnVerif
namespace Tcpcl

structure SP (e : Ep) : Prop where
  succ : ∀ t ∈ e.successLog, t ∉ e.txMap ∧ t < e.txNextId
  pos : 1 ≤ e.txNextId
  mapPos : ∀ t ∈ e.txMap, 1 ≤ t

/-- a step that finishes transfers but reports no success -/
theorem SP.of_rel {e : Ep} {r : Res} (hs : SP e) (hr : TxRel e r) (hl : r.1.successLog = e.successLog) : SP r.1 := by
  obtain ⟨fin, _, a2, _, _, a5⟩ := hr
  refine ⟨?_, a5 ▸ hs.pos, ?_⟩
  · intro t ht
    rw [hl] at ht
    obtain ⟨h1, h2⟩ := hs.succ t ht
    rw [a2, a5]
    exact ⟨fun h => h1 (List.mem_filter.mp h).1, h2⟩
  · intro t ht
    rw [a2] at ht
    exact hs.mapPos t (List.mem_filter.mp ht).1

theorem succ_handleMsg_nonack (e : Ep) (m : Msg) (hm : ∀ f t l, m ≠ .xferAck f t l) :
    (handleMsg e m).1.successLog = e.successLog := by
  unfold handleMsg
  cases m with
  | xferAck f t l => exact absurd rfl (hm f t l)
  | contact f => simp
  | sessInit ka sm xm node ext => simp
  | sessTerm f r => simp
  | keepalive => rfl
  | msgReject a b => rfl
  | xferSegment flags tid ext data => simp
  | xferRefuse r t => simp

/-- the state in which `_check_sess_term` is called after a final acknowledgement was accepted -/
def ackState (e : Ep) (t : Nat) : Ep := { e with txPendAck := e.txPendAck.erase t, txMap := e.txMap.erase t, successLog := e.successLog ++ [t] }

theorem q_ackState (e : Ep) (t : Nat) (hq : QInv e) (htm : t ∈ e.txMap) (hta : t ∈ e.txPendAck) : QInv (ackState e t) := by
  have hfl := hq.fl
  simp only [Ep.inflight, List.nodup_append] at hfl
  have := (QStep.remove (e := e) (e' := ackState e t) (o := [txSig (t, 0, "success")]) t 0 "success" rfl rfl rfl rfl htm
    (by
      simp only [ackState, Ep.inflight, List.filter_append]
      rw [filter_ne_self_of_not_mem (l := e.txPendStart.map (·.tid)),
        filter_ne_self_of_not_mem (l := tmpTids e.txTmp), hfl.2.1.2.1.erase_eq_filter]
      · intro h; exact hfl.2.1.2.2 t h t hta rfl
      · intro h; exact hfl.2.2 t h t (by simp [hta]) rfl)
    (by simp [txFin, isSig, txSig]) (by simp [rxFin, isSig, txSig])) hq
  exact this.1

theorem sp_ackState (e : Ep) (t : Nat) (hq : QInv e) (hs : SP e) (htm : t ∈ e.txMap) : SP (ackState e t) := by
  refine ⟨?_, hs.pos, ?_⟩
  · intro x hx
    simp only [ackState, List.mem_append, List.mem_singleton] at hx ⊢
    rcases hx with hx | hx
    · obtain ⟨g1, g2⟩ := hs.succ x hx
      exact ⟨fun h => g1 (List.mem_of_mem_erase h), g2⟩
    · subst hx
      exact ⟨fun h => ((List.Nodup.mem_erase_iff hq.nd).mp h).1 rfl, hq.fresh x htm⟩
  · intro y hy
    exact hs.mapPos y (List.mem_of_mem_erase hy)

/-- the acknowledgement handler: either nothing is reported, or `t` is reported and erased from the map -/
theorem sp_onAck (e : Ep) (m : Msg) (f t l : Nat) (hq : QInv e) (hs : SP e) : SP (onAck e m f t l).1 := by
  unfold onAck
  split
  · exact ⟨hs.succ, hs.pos, hs.mapPos⟩
  · split
    · exact ⟨hs.succ, hs.pos, hs.mapPos⟩
    · rename_i hmap
      split
      · split
        · exact ⟨hs.succ, hs.pos, hs.mapPos⟩
        · rename_i hack
          have htm : t ∈ e.txMap := by simpa using hmap
          have hta : t ∈ e.txPendAck := by simpa using hack
          show SP (checkSessTerm (ackState e t)).1
          exact (sp_ackState e t hq hs htm).of_rel (q_checkSessTerm _ (q_ackState e t hq htm hta)).2.1 (by simp)
      · exact ⟨hs.succ, hs.pos, hs.mapPos⟩

theorem sp_handleMsg (e : Ep) (m : Msg) (hq : QInv e) (hs : SP e) : SP (handleMsg e m).1 := by
  by_cases hm : ∃ f t l, m = .xferAck f t l
  · obtain ⟨f, t, l, rfl⟩ := hm
    unfold handleMsg
    simp only []
    have hq' : QInv { e with processed := e.processed ++ [.xferAck f t l] } := QInv.of_qv (e := e) rfl hq
    have hs' : SP { e with processed := e.processed ++ [.xferAck f t l] } := ⟨hs.succ, hs.pos, hs.mapPos⟩
    exact sp_onAck _ _ f t l hq' hs'
  · have hm' : ∀ f t l, m ≠ .xferAck f t l := fun f t l h => hm ⟨f, t, l, h⟩
    exact hs.of_rel (q_handleMsg e m hq).2.1 (succ_handleMsg_nonack e m hm')

theorem sp_handleMsgs (ms : List Msg) (e : Ep) (hq : QInv e) (hs : SP e) :
    SP (handleMsgs e ms).1 ∧ QInv (handleMsgs e ms).1 := by
  induction ms generalizing e with
  | nil => exact ⟨hs, hq⟩
  | cons m ms ih =>
    unfold handleMsgs
    split
    · exact ⟨hs, hq⟩
    · have hq' : QInv { e with rxMore := !ms.isEmpty || e.rx.dead } := QInv.of_qv (e := e) rfl hq
      have hs' : SP { e with rxMore := !ms.isEmpty || e.rx.dead } := ⟨hs.succ, hs.pos, hs.mapPos⟩
      exact ih _ (q_handleMsg _ m hq').1 (sp_handleMsg _ m hq' hs')

theorem sp_recvRaw (e : Ep) (c : Bytes) (hq : QInv e) (hs : SP e) : SP (recvRaw e c).1 := by
  unfold recvRaw
  simp only []
  have hq0 : QInv (rxEntry e c) := QInv.of_qv (e := e) rfl hq
  have hs0 : SP (rxEntry e c) := ⟨hs.succ, hs.pos, hs.mapPos⟩
  obtain ⟨h1', h2'⟩ := sp_handleMsgs (feed e.rx c).2 _ hq0 hs0
  have h1 : SP { (handleMsgs (rxEntry e c) (feed e.rx c).2).1 with rxMore := false } := ⟨h1'.succ, h1'.pos, h1'.mapPos⟩
  have h2 : QInv { (handleMsgs (rxEntry e c) (feed e.rx c).2).1 with rxMore := false } :=
    QInv.of_qv (e := (handleMsgs (rxEntry e c) (feed e.rx c).2).1) rfl h2'
  split
  · show SP (doClose _).1
    exact h1.of_rel (q_doClose _ h2).2.1 (by simp)
  · exact h1

/-- events other than reading from the socket report no success -/
theorem successLog_step_nonrx (e : Ep) (ev : Ev) (h : ∀ c, ev ≠ .rx c) : (step e ev).1.successLog = e.successLog := by
  unfold step
  cases ev with
  | rx c => exact absurd rfl (h c)
  | advance ms => rfl
  | start =>
    simp only []
    split
    · rfl
    · split
      · rfl
      · simp only [succ_setState]; split <;> simp
  | send d => simp only []; split <;> simp
  | terminate r => simp only []; split <;> simp
  | close => simp only []; split <;> simp
  | pop t =>
    simp only []
    have : (popRx e t).1.successLog = e.successLog := by unfold popRx; split <;> rfl
    split <;> simp [this]
  | query q => simp only []; split <;> rfl
  | procQueue =>
    simp only []
    split
    · rfl
    · split
      · rfl
      · simp
  | pump n => simp only []; split <;> (try split) <;> simp
  | rxEof => simp only []; split <;> simp
  | keepaliveTimer =>
    simp only []
    split
    · rfl
    · split <;> simp
  | idleTimer =>
    simp only []
    split
    · rfl
    · split
      · rfl
      · split <;> simp
  | modulate raw =>
    simp only []
    split
    · rfl
    · split <;> rfl

theorem sp_step (e : Ep) (ev : Ev) (hq : QInv e) (hs : SP e) : SP (step e ev).1 := by
  by_cases hrx : ∃ c, ev = .rx c
  · obtain ⟨c, rfl⟩ := hrx
    unfold step
    simp only []
    split
    · exact hs
    · exact sp_recvRaw e c hq hs
  · have hrx' : ∀ c, ev ≠ .rx c := fun c h => hrx ⟨c, h⟩
    have hl := successLog_step_nonrx e ev hrx'
    by_cases hsend : ev.isSend = true
    · cases ev with
      | send d =>
        cases hc : e.closed
        · obtain ⟨_, hm, hx, _, _, _⟩ := q_step_send_fields e d hc
          refine ⟨?_, by rw [hx]; exact Nat.le_succ_of_le hs.pos, ?_⟩
          · intro t ht
            rw [hl] at ht
            obtain ⟨g1, g2⟩ := hs.succ t ht
            rw [hm, hx]
            refine ⟨?_, Nat.lt_succ_of_lt g2⟩
            simp only [List.mem_append, List.mem_singleton, not_or]
            exact ⟨g1, Nat.ne_of_lt g2⟩
          · intro t ht
            rw [hm] at ht
            simp only [List.mem_append, List.mem_singleton] at ht
            rcases ht with ht | ht
            · exact hs.mapPos t ht
            · rw [ht]; exact hs.pos
        · rw [q_step_send_closed e d hc]; exact hs
      | _ => simp [Ev.isSend] at hsend
    · by_cases hpop : ev.isPop = true
      · cases ev with
        | pop tid =>
          rw [q_step_pop]
          obtain ⟨p1, p2, _, _, _, _⟩ := qv_tx_popRx e tid
          have p3 : (popRx e tid).1.successLog = e.successLog := by unfold popRx; split <;> rfl
          exact ⟨by rw [p3, p1, p2]; exact hs.succ, by rw [p2]; exact hs.pos, by rw [p1]; exact hs.mapPos⟩
        | _ => simp [Ev.isPop] at hpop
      · exact hs.of_rel (q_step e ev (by simpa using hsend) (by simpa using hpop) hq).2.1 hl

theorem sp_init (cfg : Cfg) : SP { cfg := cfg } := ⟨by simp, by simp, by simp⟩

end Tcpcl
end DtnVerif
