import DtnVerif.Model.Bytes
namespace DtnVerif

@[simp] theorem beBytes_length (k n : Nat) : (beBytes k n).length = k := by
  induction k generalizing n with
  | zero => rfl
  | succ k ih => simp [beBytes, ih]

theorem beNat_cons_aux (b : Bytes) (acc : Nat) :
    b.foldl (fun acc x => acc * 256 + x.toNat) acc = acc * 256 ^ b.length + beNat b := by
  induction b generalizing acc with
  | nil => simp [beNat]
  | cons x xs ih =>
    simp only [List.foldl_cons, beNat, List.length_cons]
    rw [ih, ih (0 * 256 + x.toNat)]
    rw [Nat.pow_succ, Nat.add_mul, Nat.zero_mul, Nat.zero_add]
    rw [Nat.mul_comm (256 ^ xs.length) 256, Nat.mul_assoc, Nat.add_assoc]

theorem beNat_cons (x : UInt8) (xs : Bytes) :
    beNat (x :: xs) = x.toNat * 256 ^ xs.length + beNat xs := by
  simp only [beNat, List.foldl_cons]
  rw [beNat_cons_aux]
  simp [beNat]

theorem beNat_beBytes (k n : Nat) (h : n < 256 ^ k) : beNat (beBytes k n) = n := by
  induction k generalizing n with
  | zero => simp at h; subst h; rfl
  | succ k ih =>
    simp only [beBytes]
    rw [beNat_cons, beBytes_length]
    have hpos : 0 < 256 ^ k := Nat.pow_pos (by decide)
    have h1 : n / 256 ^ k < 256 := by
      rw [Nat.div_lt_iff_lt_mul hpos]
      rw [Nat.pow_succ] at h
      rw [Nat.mul_comm]; exact h
    rw [ih _ (Nat.mod_lt _ hpos)]
    have : (UInt8.ofNat (n / 256 ^ k % 256)).toNat = n / 256 ^ k := by
      rw [Nat.mod_eq_of_lt h1]
      simp [UInt8.toNat_ofNat']
      exact h1
    rw [this]
    exact Nat.div_add_mod' n (256 ^ k)

theorem beNat_lt (b : Bytes) : beNat b < 256 ^ b.length := by
  induction b with
  | nil => simp [beNat]
  | cons x xs ih =>
    rw [beNat_cons, List.length_cons, Nat.pow_succ]
    have hx : x.toNat < 256 := x.toNat_lt
    have : x.toNat * 256 ^ xs.length + beNat xs < (x.toNat + 1) * 256 ^ xs.length := by
      rw [Nat.add_mul, Nat.one_mul]; omega
    calc x.toNat * 256 ^ xs.length + beNat xs < (x.toNat + 1) * 256 ^ xs.length := this
      _ ≤ 256 * 256 ^ xs.length := Nat.mul_le_mul_right _ hx
      _ = 256 ^ xs.length * 256 := Nat.mul_comm _ _

theorem splice_length (buf p : Bytes) (off : Nat) (h : off + p.length ≤ buf.length) :
    (splice buf off p).length = buf.length := by
  simp [splice]; omega

end DtnVerif
