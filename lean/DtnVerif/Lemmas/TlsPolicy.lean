/-
  Lemmas about Model/TlsPolicy.lean: membership in the type-filtered SAN value lists (induction over
  the unbounded SAN list), characterisation of `matchId`, the finite decision tables
  (`contactDecision`, `authDecision`) and the shape of `render`.
-/
import DtnVerif.Model.TlsPolicy
namespace DtnVerif
namespace TlsPolicy

/-! ## `get_values_for_type` -/

theorem mem_ipValues (names : List GName) (o : List UInt8) :
    o ∈ ipValues names ↔ GName.ip o ∈ names := by
  induction names with
  | nil => simp [ipValues]
  | cons g r ih =>
    unfold ipValues at ih ⊢
    cases g <;> simp [ih]

theorem mem_dnsValues (names : List GName) (s : String) :
    s ∈ dnsValues names ↔ GName.dns s ∈ names := by
  induction names with
  | nil => simp [dnsValues]
  | cons g r ih =>
    unfold dnsValues at ih ⊢
    cases g <;> simp [ih]

theorem mem_uriValues (names : List GName) (s : String) :
    s ∈ uriValues names ↔ GName.uri s ∈ names := by
  induction names with
  | nil => simp [uriValues]
  | cons g r ih =>
    unfold uriValues at ih ⊢
    cases g <;> simp [ih]

theorem ipValues_ne_nil (names : List GName) : ipValues names ≠ [] ↔ ∃ o, GName.ip o ∈ names := by
  rw [ne_eq, List.eq_nil_iff_forall_not_mem]
  simp [mem_ipValues]

theorem dnsValues_ne_nil (names : List GName) : dnsValues names ≠ [] ↔ ∃ s, GName.dns s ∈ names := by
  rw [ne_eq, List.eq_nil_iff_forall_not_mem]
  simp [mem_dnsValues]

theorem uriValues_ne_nil (names : List GName) : uriValues names ≠ [] ↔ ∃ s, GName.uri s ∈ names := by
  rw [ne_eq, List.eq_nil_iff_forall_not_mem]
  simp [mem_uriValues]

/-! ## `match_id` -/

section
variable {α : Type} [DecidableEq α]

theorem matchId_absent_iff (ref : Option α) (ids : Option (List α)) :
    matchId ref ids = .absent ↔ (ids = none ∨ ids = some []) := by
  unfold matchId
  split
  · simp
  · simp
  · split
    · simp
    · split <;> simp

theorem matchId_matched_iff (ref : Option α) (ids : Option (List α)) :
    matchId ref ids = .matched ↔ ∃ r l, ref = some r ∧ ids = some l ∧ r ∈ l := by
  unfold matchId
  split
  · simp
  · simp
  · rename_i i is
    split
    · simp
    · rename_i r
      split
      · rename_i h
        simp only [true_iff]
        exact ⟨r, i :: is, rfl, rfl, h⟩
      · rename_i h
        simp only [reduceCtorEq, false_iff]
        rintro ⟨r', l, hr, hl, hm⟩
        cases hr
        cases hl
        exact h hm

theorem matchId_mismatch_iff (ref : Option α) (ids : Option (List α)) :
    matchId ref ids = .mismatch ↔ ∃ l, ids = some l ∧ l ≠ [] ∧ ∀ r, ref = some r → r ∉ l := by
  unfold matchId
  split
  · simp
  · simp
  · rename_i i is
    split
    · simp
    · rename_i r
      split
      · rename_i h
        simp only [reduceCtorEq, false_iff]
        rintro ⟨l, hl, _, hn⟩
        cases hl
        exact hn r rfl h
      · rename_i h
        simp only [true_iff]
        refine ⟨i :: is, rfl, by simp, ?_⟩
        intro r' hr'
        cases hr'
        exact h

/-- Nothing equals Python `None`: without a reference there is never a match. -/
theorem matchId_none_ref (ids : Option (List α)) : matchId (none : Option α) ids ≠ .matched := by
  intro h
  obtain ⟨r, l, hr, _, _⟩ := (matchId_matched_iff _ _).mp h
  cases hr

end

/-! ## Contact decision (finite table) -/

theorem contactDecision_attempted (os : Bool) (req : Option Bool) (t p : Bool) (hs : Handshake) :
    (contactDecision os req t p hs).attempted = (t && p && (req != some false)) := by
  cases os <;> rcases req with _ | _ | _ <;> cases t <;> cases p <;> cases hs <;> rfl

theorem contactDecision_proceedTls_iff (os : Bool) (req : Option Bool) (t p : Bool) (hs : Handshake) :
    contactDecision os req t p hs = .proceedTls ↔ (t = true ∧ p = true ∧ hs = .ok ∧ req ≠ some false) := by
  cases os <;> rcases req with _ | _ | _ <;> cases t <;> cases p <;> cases hs <;> decide

theorem contactDecision_proceedClear_iff (os : Bool) (req : Option Bool) (t p : Bool) (hs : Handshake) :
    contactDecision os req t p hs = .proceedClear ↔ ((t && p) = false ∧ req ≠ some true) := by
  cases os <;> rcases req with _ | _ | _ <;> cases t <;> cases p <;> cases hs <;> decide

theorem contactDecision_close_iff (os : Bool) (req : Option Bool) (t p : Bool) (hs : Handshake) (a : Bool) :
    contactDecision os req t p hs = .close a ↔
      (a = (t && p && (req != some false)) ∧
       (req = some (!(t && p)) ∨ ((t && p) = true ∧ (hs = .sslError ∨ (hs = .osError ∧ os = false))))) := by
  cases os <;> rcases req with _ | _ | _ <;> cases t <;> cases p <;> cases hs <;> cases a <;> decide

theorem contactDecision_wedged_iff (os : Bool) (req : Option Bool) (t p : Bool) (hs : Handshake) :
    contactDecision os req t p hs = .wedged ↔
      (t = true ∧ p = true ∧ hs = .osError ∧ os = true ∧ req ≠ some false) := by
  cases os <;> rcases req with _ | _ | _ <;> cases t <;> cases p <;> cases hs <;> decide

/-! ## Authentication decision (finite table) -/

theorem authDecision_establish_iff (u : Bool) (ip dns node : IdResult) (k rh rn : Bool) :
    authDecision u ip dns node k rh rn = .establish ↔
      (ip ≠ .mismatch ∧ (k = true → dns ≠ .mismatch) ∧ node ≠ .mismatch ∧
       (rh = true → (ip = .matched ∨ (dns ≠ .absent ∧ (u = true ∨ k = true)))) ∧
       (rn = true → node = .matched)) := by
  cases u <;> cases ip <;> cases dns <;> cases node <;> cases k <;> cases rh <;> cases rn <;> decide

theorem authDecision_cases (u : Bool) (ip dns node : IdResult) (k rh rn : Bool) :
    authDecision u ip dns node k rh rn = .establish ∨ authDecision u ip dns node k rh rn = .termContactFailure := by
  cases h : authDecision u ip dns node k rh rn <;> simp

/-! ## Shape of the observable outcome -/

attribute [local simp] Contact.isTls Contact.isClose Contact.closedBeforeFlush Contact.escapes Contact.proceeds
  Contact.attempted Sess.delivered Sess.termOut Sess.state Sess.escapes Sess.isEstablished

theorem render_isSecure (c : Cfg) (e : Env) (p : PeerId) (ct : Contact) (ss : Sess) :
    (render c e p ct ss).isSecure = true ↔ ct = .proceedTls := by
  cases ct <;> simp [render]

theorem render_attempted (c : Cfg) (e : Env) (p : PeerId) (ct : Contact) (ss : Sess) :
    (render c e p ct ss).attempted = ct.attempted := rfl

theorem render_closed (c : Cfg) (e : Env) (p : PeerId) (ct : Contact) (ss : Sess) :
    (render c e p ct ss).closed = true ↔ ∃ a, ct = .close a := by
  cases ct <;> simp [render]

theorem render_state_established (c : Cfg) (e : Env) (p : PeerId) (ct : Contact) (ss : Sess) :
    (render c e p ct ss).state = .established ↔ ss = .established := by
  cases ss <;> simp [render]

theorem render_state_ending (c : Cfg) (e : Env) (p : PeerId) (ct : Contact) (ss : Sess) :
    (render c e p ct ss).state = .ending ↔ ∃ r, ss = .terminated r := by
  cases ss <;> simp [render]

theorem render_sessInit_clear (c : Cfg) (e : Env) (p : PeerId) (ct : Contact) (ss : Sess) :
    Msg.sessInit ∈ (render c e p ct ss).clear → ct = .proceedClear := by
  rcases c with ⟨pas, te, rt, rh, rn⟩
  cases pas <;> cases ct <;> cases ss <;> simp [render, Contact.proceeds] <;>
    (try (rename_i a; cases a <;> simp))

theorem render_sessInit_secured (c : Cfg) (e : Env) (p : PeerId) (ct : Contact) (ss : Sess) :
    Msg.sessInit ∈ (render c e p ct ss).secured → ct = .proceedTls := by
  cases ct <;> simp [render]

theorem render_secured_nil (c : Cfg) (e : Env) (p : PeerId) (ct : Contact) (ss : Sess) (h : ct ≠ .proceedTls) :
    (render c e p ct ss).secured = [] := by
  cases ct <;> simp_all [render]

theorem render_sessTerm_secured (c : Cfg) (e : Env) (p : PeerId) (ss : Sess) (r : Nat) :
    Msg.sessTerm r ∈ (render c e p .proceedTls ss).secured ↔ ss = .terminated r := by
  rcases c with ⟨pas, te, rt, rh, rn⟩
  cases pas <;> cases ss <;> simp [render] <;> exact eq_comm

theorem render_sessTerm_clear (c : Cfg) (e : Env) (p : PeerId) (ct : Contact) (ss : Sess) (r : Nat) :
    Msg.sessTerm r ∉ (render c e p ct ss).clear := by
  rcases c with ⟨pas, te, rt, rh, rn⟩
  cases pas <;> cases ct <;> cases ss <;> simp [render, Contact.proceeds] <;>
    (try (rename_i a; cases a <;> simp))

/-! ## Session decision -/

theorem sessDecision_established (q : Quirks) (c : Cfg) (e : Env) (p : PeerId) (ct : Contact)
    (h : sessDecision q c e p ct = .established) : ct = .proceedClear ∨ ct = .proceedTls := by
  cases ct <;> simp_all [sessDecision] <;> (split at h <;> simp_all)

theorem sessDecision_terminated (q : Quirks) (c : Cfg) (e : Env) (p : PeerId) (ct : Contact) (r : Nat)
    (h : sessDecision q c e p ct = .terminated r) : ct = .proceedTls ∧ r = reasonContactFailure := by
  cases ct with
  | proceedClear => simp [sessDecision] at h
  | close a => simp [sessDecision] at h; split at h <;> simp_all
  | wedged => simp [sessDecision] at h
  | proceedTls =>
    refine ⟨rfl, ?_⟩
    simp only [sessDecision] at h
    repeat' split at h
    all_goals simp_all

/-- Under TLS with the SESS_INIT looked at, the reference call harmless and a certificate presented
    (or its absence read as "nothing presented"), the session result is exactly the authentication
    decision. -/
theorem sessDecision_tls (q : Quirks) (c : Cfg) (e : Env) (p : PeerId)
    (hp : e.pipelined = true → q.carriesPlaintext = true)
    (hn : q.callsNative = true → e.nativeMatch = true)
    (hc : p.certPresent = true ∨
      (q.noCertRaises = false ∧ p.ip = .absent ∧ p.dns = .absent ∧ p.node = .absent)) :
    (authDecision q.uncheckedDnsCounts p.ip p.dns p.node p.dnsKnown c.requireHost c.requireNode = .establish →
      sessDecision q c e p .proceedTls = .established) ∧
    (authDecision q.uncheckedDnsCounts p.ip p.dns p.node p.dnsKnown c.requireHost c.requireNode = .termContactFailure →
      sessDecision q c e p .proceedTls = .terminated reasonContactFailure) := by
  have h1 : (e.pipelined && !q.carriesPlaintext) = false := by
    cases hpp : e.pipelined <;> simp
    exact hp hpp
  have h2 : (q.callsNative && !e.nativeMatch) = false := by
    cases hcn : q.callsNative <;> simp
    exact hn hcn
  rcases hc with hc | ⟨hr, hi, hd, hno⟩
  · constructor <;> intro h <;> simp [sessDecision, h1, h2, hc, h]
  · cases hcp : p.certPresent
    · rw [hi, hd, hno]
      constructor <;> intro h <;> simp [sessDecision, h1, h2, hcp, hr, h]
    · constructor <;> intro h <;> simp [sessDecision, h1, h2, hcp, h]

/-- Conversely: an established TLS session went through the authentication decision. -/
theorem sessDecision_tls_established (q : Quirks) (c : Cfg) (e : Env) (p : PeerId)
    (habs : p.certPresent = false → p.ip = .absent ∧ p.dns = .absent ∧ p.node = .absent)
    (h : sessDecision q c e p .proceedTls = .established) :
    authDecision q.uncheckedDnsCounts p.ip p.dns p.node p.dnsKnown c.requireHost c.requireNode = .establish ∧
    (e.pipelined = true → q.carriesPlaintext = true) := by
  simp only [sessDecision] at h
  split at h
  · cases h
  · rename_i h1
    split at h
    · cases h
    · split at h
      · rename_i hcp
        have hcp' : p.certPresent = false := by simpa using hcp
        obtain ⟨hi, hd, hno⟩ := habs hcp'
        split at h
        · cases h
        · rw [hi, hd, hno]
          refine ⟨?_, ?_⟩
          · rcases authDecision_cases q.uncheckedDnsCounts .absent .absent .absent p.dnsKnown c.requireHost c.requireNode with ha | ha
            · exact ha
            · rw [ha] at h; cases h
          · intro hpp
            cases hq : q.carriesPlaintext
            · simp [hpp, hq] at h1
            · rfl
      · refine ⟨?_, ?_⟩
        · rcases authDecision_cases q.uncheckedDnsCounts p.ip p.dns p.node p.dnsKnown c.requireHost c.requireNode with ha | ha
          · exact ha
          · rw [ha] at h; cases h
        · intro hpp
          cases hq : q.carriesPlaintext
          · simp [hpp, hq] at h1
          · rfl

end TlsPolicy
end DtnVerif
