/-
  A transfer awaiting its final acknowledgement has had its END segment emitted.
  (Generated from the pattern of Lemmas/TcpclAck.lean.)
-/
import DtnVerif.Model.TcpclEp
namespace DtnVerif
namespace Tcpcl

/-- an END segment of transfer `t` is among `ms` -/
def endSeg (t : Nat) (ms : List Msg) : Prop := ∃ f x d, hasEnd f = true ∧ Msg.xferSegment f t x d ∈ ms

theorem endSeg.mono {t : Nat} {ms : List Msg} (y : List Msg) (h : endSeg t ms) : endSeg t (ms ++ y) := by
  obtain ⟨f, x, d, h1, h2⟩ := h
  exact ⟨f, x, d, h1, List.mem_append_left _ h2⟩

def PEInv (e : Ep) : Prop := ∀ t ∈ e.txPendAck, endSeg t e.emitted

structure PeView where
  txPendAck : List Nat
  emitted : List Msg

def Ep.peView (e : Ep) : PeView := ⟨e.txPendAck, e.emitted⟩

theorem pe_of_view {e e' : Ep} (h : e'.peView = e.peView) (hi : PEInv e) : PEInv e' := by
  simp only [Ep.peView, PeView.mk.injEq] at h
  obtain ⟨h1, h2⟩ := h
  unfold PEInv at *
  rw [h1, h2]; exact hi

/-- fewer transfers awaiting, more messages emitted -/
theorem pe_weaken {e e' : Ep} (h1 : ∀ t ∈ e'.txPendAck, t ∈ e.txPendAck) (h2 : ∃ y, e'.emitted = e.emitted ++ y)
    (hi : PEInv e) : PEInv e' := by
  obtain ⟨y, hy⟩ := h2
  intro t ht
  rw [hy]
  exact (hi t (h1 t ht)).mono y

@[simp] theorem pe6_kaReset (e : Ep) : (kaReset e).peView = e.peView := rfl
@[simp] theorem pe6_idleReset (e : Ep) : (idleReset e).peView = e.peView := rfl
@[simp] theorem pe6_pqTrigger (e : Ep) : (pqTrigger e).peView = e.peView := by
  unfold pqTrigger; split <;> rfl
@[simp] theorem pe6_setState (e : Ep) (s : String) : (setState e s).1.peView = e.peView := by
  unfold setState; split <;> rfl
@[simp] theorem pe6_flush (e : Ep) : (flushPendStart e).1.peView = e.peView := rfl
@[simp] theorem pe6_doClose (e : Ep) : (doClose e).1.peView = e.peView := by
  unfold doClose; split <;> rfl
@[simp] theorem pe6_checkSessTerm (e : Ep) : (checkSessTerm e).1.peView = e.peView := by
  unfold checkSessTerm; split
  · exact pe6_doClose e
  · rfl
@[simp] theorem pe6_sendBufferDecreased (e : Ep) : (sendBufferDecreased e).peView = e.peView := by
  unfold sendBufferDecreased; split
  · exact pe6_pqTrigger e
  · rfl
@[simp] theorem pe6_mergeSession (e : Ep) (p : PeerInit) : (mergeSession e p).peView = e.peView := rfl

theorem pe_sendMessage (e : Ep) (m : Msg) (hi : PEInv e) : PEInv (sendMessage e m) :=
  pe_weaken (e := e) (fun _ h => h) ⟨[m], rfl⟩ hi

theorem pe_sendContact (e : Ep) (hi : PEInv e) : PEInv (sendContact e) :=
  pe_of_view (e := sendMessage e (.contact 0)) rfl (pe_sendMessage e _ hi)

theorem pe_sendInit (e : Ep) (hi : PEInv e) : PEInv (sendInit e) :=
  pe_of_view (e := sendMessage e (.sessInit e.cfg.keepalive e.cfg.segMru sizeMax e.cfg.nodeId (sessionExt e.cfg)))
    rfl (pe_sendMessage e _ hi)

theorem pe_sendReject (e : Ep) (r : Nat) (m : Msg) (hi : PEInv e) : PEInv (sendReject e r m) :=
  pe_sendMessage e _ hi

theorem pe_sendSessTerm (e : Ep) (r : Nat) (b : Bool) (hi : PEInv e) :
    PEInv (sendSessTerm e r b).1 := by
  unfold sendSessTerm
  split
  · exact hi
  · split
    · exact hi
    · simp only []
      refine pe_of_view (pe6_flush _) (pe_sendMessage _ _ ?_)
      exact pe_of_view (by rw [pe6_setState]; rfl) hi

theorem pe_pqTrigger (e : Ep) (hi : PEInv e) : PEInv (pqTrigger e) := pe_of_view (pe6_pqTrigger e) hi

theorem pe_hasEnd_end (p : Prop) [Decidable p] : hasEnd (flagEnd + if p then flagStart else 0) = true := by
  split <;> decide

theorem pe_sendSegment (e : Ep) (it : TxItem) (sent : Nat) (hi : PEInv e) :
    PEInv (sendSegment e it sent).1 := by
  unfold sendSegment
  simp only []
  split
  · exact pe_of_view rfl hi
  · split
    · apply pe_pqTrigger
      intro t ht
      have ht' : t ∈ e.txPendAck ++ [it.tid] := ht
      rcases List.mem_append.mp ht' with ht' | ht'
      · obtain ⟨f, x, d, h1, h2⟩ := hi t ht'
        exact ⟨f, x, d, h1, List.mem_append_left _ h2⟩
      · rw [List.mem_singleton.mp ht']
        exact ⟨_, _, _, pe_hasEnd_end _, List.mem_append_right _ (List.mem_singleton.mpr rfl)⟩
    · exact pe_of_view rfl (pe_sendMessage e _ hi)

theorem pe_processQueue (e : Ep) (hi : PEInv e) : PEInv (processQueue e).1 := by
  unfold processQueue
  split
  · exact pe_sendSegment e _ _ hi
  · split
    · exact hi
    · split
      · exact pe_of_view (by simp only [pe6_checkSessTerm, pe6_flush]) hi
      · split
        · exact hi
        · exact pe_sendSegment _ _ _ (pe_of_view rfl hi)

theorem pe_pullTx (e : Ep) (hi : PEInv e) : PEInv (pullTx e) := by
  unfold pullTx
  split
  · exact pe_of_view (by rw [pe6_sendBufferDecreased]; rfl) hi
  · exact hi

theorem pe_writeConn (e : Ep) (n : Nat) (up : Bool) (hi : PEInv e) : PEInv (writeConn e n up).1 := by
  unfold writeConn
  split
  · split
    · exact pe_of_view (pe6_checkSessTerm e) hi
    · exact hi
  · simp only []
    split
    · exact hi
    · split
      · exact pe_of_view (by rw [pe6_checkSessTerm]; rfl) hi
      · exact pe_of_view rfl hi

theorem pe_pump (e : Ep) (n : Nat) (hi : PEInv e) : PEInv (pump e n).1 :=
  pe_writeConn _ _ _ (pe_pullTx e hi)

/-! receive handlers -/

theorem pe_onContact (e : Ep) (hi : PEInv e) : PEInv (onContact e).1 := by
  unfold onContact
  simp only []
  have h1 : PEInv (if e.cfg.passive then sendContact e else e) := by
    split
    · exact pe_sendContact e hi
    · exact hi
  have h2 : PEInv (setState (if e.cfg.passive then sendContact e else e) "session-negotiating").1 :=
    pe_of_view (pe6_setState _ _) h1
  split
  · exact pe_sendInit _ h2
  · exact h2

theorem pe_onSessInit (e : Ep) (p : PeerInit) (hi : PEInv e) : PEInv (onSessInit e p).1 := by
  unfold onSessInit
  simp only []
  have h1 : PEInv (if e.cfg.passive then sendInit e else e) := by
    split
    · exact pe_sendInit e hi
    · exact hi
  refine pe_of_view ?_ h1
  rw [pe6_setState, pe6_mergeSession]; rfl

theorem pe_onSessTerm (e : Ep) (m : Msg) (r : Nat) (hi : PEInv e) : PEInv (onSessTerm e m r).1 := by
  unfold onSessTerm
  split
  · exact pe_sendReject e _ _ hi
  · simp only []
    refine pe_of_view (by rw [pe6_checkSessTerm, pe6_flush]) (e := { (if !e.inTerm then sendSessTerm e r true else (e, [])).1 with gotTerm := true }) ?_
    refine pe_of_view (e := (if !e.inTerm then sendSessTerm e r true else (e, [])).1) rfl ?_
    split
    · exact pe_sendSessTerm e r true hi
    · exact hi

theorem pe_segAccept (e : Ep) (flags tid : Nat) (cur data : Bytes) (o1 : List Out) (hi : PEInv e) :
    PEInv (segAccept e flags tid cur data o1).1 := by
  unfold segAccept
  simp only []
  split
  · exact pe_of_view (e := sendMessage e (.xferAck flags tid (cur ++ data).length)) (by rw [pe6_checkSessTerm]; rfl)
      (pe_sendMessage e _ hi)
  · exact pe_sendMessage _ _ (pe_of_view rfl hi)

theorem pe_onSegment (e : Ep) (m : Msg) (flags tid : Nat) (data : Bytes) (hi : PEInv e) :
    PEInv (onSegment e m flags tid data).1 := by
  unfold onSegment
  split
  · exact pe_sendReject e _ _ hi
  · split
    · exact pe_segAccept _ _ _ _ _ _ (pe_of_view rfl hi)
    · split
      · split
        · exact pe_segAccept _ _ _ _ _ _ hi
        · exact pe_sendReject e _ _ hi
      · exact pe_sendReject e _ _ hi

theorem pe_onAck (e : Ep) (m : Msg) (f t l : Nat) (hi : PEInv e) : PEInv (onAck e m f t l).1 := by
  unfold onAck
  split
  · exact pe_sendReject e _ _ hi
  · split
    · exact pe_sendReject e _ _ hi
    · split
      · split
        · exact pe_sendReject e _ _ hi
        · refine pe_of_view (e := { e with txPendAck := e.txPendAck.erase t }) (by rw [pe6_checkSessTerm]; rfl) ?_
          exact pe_weaken (e := e) (fun _ h => List.mem_of_mem_erase h) ⟨[], by simp⟩ hi
      · exact pe_of_view rfl hi

theorem pe_onRefuse (e : Ep) (m : Msg) (r t : Nat) (hi : PEInv e) : PEInv (onRefuse e m r t).1 := by
  unfold onRefuse
  split
  · exact pe_sendReject e _ _ hi
  · split
    · exact pe_sendReject e _ _ hi
    · refine pe_of_view (e := { e with txPendAck := e.txPendAck.erase t }) ?_
        (pe_weaken (e := e) (fun _ h => List.mem_of_mem_erase h) ⟨[], by simp⟩ hi)
      simp only [pe6_checkSessTerm]
      split
      · split
        · rw [pe6_pqTrigger]; rfl
        · rfl
      · rfl

theorem pe_handleMsg (e : Ep) (m : Msg) (hi : PEInv e) : PEInv (handleMsg e m).1 := by
  have h0 : PEInv { e with processed := e.processed ++ [m] } := pe_of_view rfl hi
  unfold handleMsg
  cases m with
  | contact f => exact pe_onContact _ h0
  | sessInit ka sm xm node ext => exact pe_onSessInit _ _ h0
  | sessTerm f r => exact pe_onSessTerm _ _ _ h0
  | keepalive => exact h0
  | msgReject a b => exact h0
  | xferSegment flags tid ext data => exact pe_onSegment _ _ _ _ _ h0
  | xferAck f t l => exact pe_onAck _ _ _ _ _ h0
  | xferRefuse r t => exact pe_onRefuse _ _ _ _ h0

theorem pe_handleMsgs (ms : List Msg) (e : Ep) (hi : PEInv e) : PEInv (handleMsgs e ms).1 := by
  induction ms generalizing e with
  | nil => exact hi
  | cons m ms ih =>
    unfold handleMsgs
    split
    · exact hi
    · exact ih _ (pe_handleMsg _ m (pe_of_view (e := e) rfl hi))

theorem pe_recvRaw (e : Ep) (c : Bytes) (hi : PEInv e) : PEInv (recvRaw e c).1 := by
  unfold recvRaw
  simp only []
  have h0 : PEInv (rxEntry e c) := pe_of_view rfl hi
  have h1 := pe_handleMsgs (feed e.rx c).2 _ h0
  split
  · exact pe_of_view (pe6_doClose _) h1
  · exact h1

theorem pe_step (e : Ep) (ev : Ev) (hi : PEInv e) : PEInv (step e ev).1 := by
  unfold step
  cases ev with
  | advance ms => exact pe_of_view rfl hi
  | start =>
    simp only []
    split
    · exact hi
    · split
      · exact hi
      · refine pe_of_view (pe6_setState _ _) ?_
        split
        · exact pe_sendContact _ (pe_of_view rfl hi)
        · exact pe_of_view rfl hi
  | send d =>
    simp only []
    split
    · exact hi
    · exact pe_of_view (by rw [pe6_pqTrigger]; rfl) hi
  | terminate r =>
    simp only []
    split
    · exact hi
    · exact pe_sendSessTerm _ _ _ hi
  | close =>
    simp only []
    split
    · exact hi
    · exact pe_of_view (pe6_doClose _) hi
  | pop t =>
    simp only []
    have : PEInv (popRx e t).1 := by
      refine pe_of_view ?_ hi
      unfold popRx; split <;> rfl
    split <;> exact this
  | query q => simp only []; split <;> exact hi
  | procQueue =>
    simp only []
    split
    · exact pe_of_view rfl hi
    · split
      · exact hi
      · exact pe_of_view rfl (pe_processQueue _ (pe_of_view (e := e) rfl hi))
  | pump n =>
    simp only []
    split
    · exact hi
    · split
      · exact hi
      · exact pe_of_view rfl (pe_pump _ _ (pe_of_view (e := e) rfl hi))
  | rx c =>
    simp only []
    split
    · exact hi
    · exact pe_recvRaw e c hi
  | rxEof =>
    simp only []
    split
    · exact hi
    · exact pe_of_view (pe6_doClose _) hi
  | keepaliveTimer =>
    simp only []
    split
    · exact hi
    · split
      · exact hi
      · exact pe_sendMessage _ _ (pe_of_view rfl hi)
  | idleTimer =>
    simp only []
    split
    · exact hi
    · split
      · exact hi
      · split
        · exact pe_of_view (by rw [pe6_doClose]; rfl) hi
        · exact pe_sendSessTerm _ _ _ (pe_of_view rfl hi)
  | modulate raw =>
    simp only []
    split
    · exact hi
    · split
      · exact pe_of_view rfl hi
      · exact hi

theorem pe_init (cfg : Cfg) : PEInv { cfg := cfg } := by
  intro m hm; simp at hm

theorem pe_run (evs : List Ev) (e : Ep) (hi : PEInv e) : PEInv (runEp e evs) := by
  induction evs generalizing e with
  | nil => exact hi
  | cons ev evs ih =>
    simp only [runEp, run]
    exact ih _ (pe_step e ev hi)

end Tcpcl
end DtnVerif
