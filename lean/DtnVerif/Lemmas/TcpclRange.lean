/-
  Numeric ranges at the D-Bus boundary: every unsigned argument ('t') of every signal the endpoint
  emits is below 2^64, against any peer, provided the user hands in bundles shorter than 2^64 octets
  and fewer than 2^64 octets have been received in all. (Lengths from ACKs are below 2^64 because they
  were decoded from eight octets; received lengths because the data was really received.)
-/
import DtnVerif.Lemmas.TcpclDecodeWF
import DtnVerif.Lemmas.TcpclRx
namespace DtnVerif
namespace Tcpcl

def B64 : Nat := 18446744073709551616

theorem B64_eq : B64 = 2 ^ 64 := by decide

def Val.inRange : Val → Bool
  | .nat n => decide (n < B64)
  | _ => true

def Out.rangeOK : Out → Bool
  | .sig _ a => a.all Val.inRange
  | _ => true

def ranges (os : List Out) : Bool := os.all Out.rangeOK

@[simp] theorem ranges_nil : ranges [] = true := rfl
@[simp] theorem ranges_append (a b : List Out) : ranges (a ++ b) = (ranges a && ranges b) := by
  simp [ranges, List.all_append]
@[simp] theorem ranges_cons (o : Out) (os : List Out) : ranges (o :: os) = (o.rangeOK && ranges os) := by
  simp [ranges]

theorem ranges_app {a b : List Out} (ha : ranges a = true) (hb : ranges b = true) : ranges (a ++ b) = true := by
  simp [ha, hb]
theorem ranges_cons' {o : Out} {os : List Out} (ho : o.rangeOK = true) (hos : ranges os = true) :
    ranges (o :: os) = true := by simp [ho, hos]
theorem rangeOK_sig2 (n s : String) (x : Nat) (h : x < B64) : (Out.sig n [.str s, .nat x]).rangeOK = true := by
  simp [Out.rangeOK, Val.inRange, h]
theorem rangeOK_sig3 (n s t : String) (x : Nat) (h : x < B64) : (Out.sig n [.str s, .nat x, .str t]).rangeOK = true := by
  simp [Out.rangeOK, Val.inRange, h]
theorem rangeOK_wire (b : Bytes) : (Out.wire b).rangeOK = true := rfl

def rxW : Option (Nat × Bytes) → Nat
  | some (_, d) => d.length
  | none => 0

/-- `k`: data octets of messages already extracted from the stream and not handled yet -/
def RI (k : Nat) (e : Ep) : Prop :=
  (∀ it ∈ e.txPendStart, it.data.length < B64) ∧ (∀ p ∈ e.ackLen, p.2 < B64)
  ∧ rxW e.rxTmp + k + e.rx.buf.length ≤ e.rxBytes.length ∧ e.rxBytes.length < B64

structure RgView where
  txPendStart : List TxItem
  ackLen : List (Nat × Nat)
  rxTmp : Option (Nat × Bytes)
  rx : Rx
  rxBytes : Bytes

def Ep.rgView (e : Ep) : RgView := ⟨e.txPendStart, e.ackLen, e.rxTmp, e.rx, e.rxBytes⟩

theorem ri_of_view {k : Nat} {e e' : Ep} (h : e'.rgView = e.rgView) (hi : RI k e) : RI k e' := by
  simp only [Ep.rgView, RgView.mk.injEq] at h
  obtain ⟨h1, h2, h3, h4, h5⟩ := h
  unfold RI at *
  rw [h1, h2, h3, h4, h5]; exact hi

/-- fewer transfers waiting, everything else the same -/
theorem ri_sub {k : Nat} {e e' : Ep} (hs : ∀ it ∈ e'.txPendStart, it ∈ e.txPendStart) (h2 : e'.ackLen = e.ackLen)
    (h3 : e'.rxTmp = e.rxTmp) (h4 : e'.rx = e.rx) (h5 : e'.rxBytes = e.rxBytes) (hi : RI k e) : RI k e' := by
  unfold RI at *
  rw [h2, h3, h4, h5]
  exact ⟨fun it h => hi.1 it (hs it h), hi.2⟩

@[simp] theorem rgv_kaReset (e : Ep) : (kaReset e).rgView = e.rgView := rfl
@[simp] theorem rgv_idleReset (e : Ep) : (idleReset e).rgView = e.rgView := rfl
@[simp] theorem rgv_sendMessage (e : Ep) (m : Msg) : (sendMessage e m).rgView = e.rgView := rfl
@[simp] theorem rgv_sendContact (e : Ep) : (sendContact e).rgView = e.rgView := rfl
@[simp] theorem rgv_sendInit (e : Ep) : (sendInit e).rgView = e.rgView := rfl
@[simp] theorem rgv_sendReject (e : Ep) (r : Nat) (m : Msg) : (sendReject e r m).rgView = e.rgView := rfl
@[simp] theorem rgv_mergeSession (e : Ep) (p : PeerInit) : (mergeSession e p).rgView = e.rgView := rfl
@[simp] theorem rgv_pqTrigger (e : Ep) : (pqTrigger e).rgView = e.rgView := by
  unfold pqTrigger; split <;> rfl
@[simp] theorem rgv_setState (e : Ep) (s : String) : (setState e s).1.rgView = e.rgView := by
  unfold setState; split <;> rfl
@[simp] theorem rgv_sendBufferDecreased (e : Ep) : (sendBufferDecreased e).rgView = e.rgView := by
  unfold sendBufferDecreased; split
  · exact rgv_pqTrigger e
  · rfl
@[simp] theorem rgv_pullTx (e : Ep) : (pullTx e).rgView = e.rgView := by
  unfold pullTx; split
  · rw [rgv_sendBufferDecreased]; rfl
  · rfl

@[simp] theorem rg_setState (e : Ep) (s : String) : ranges (setState e s).2 = true := by
  unfold setState; split <;> simp [Out.rangeOK, Val.inRange]

theorem ri_flush {k : Nat} (e : Ep) (hi : RI k e) : RI k (flushPendStart e).1 ∧ ranges (flushPendStart e).2 = true := by
  constructor
  · exact ri_sub (e := e) (e' := (flushPendStart e).1) (by intro it h; cases h) rfl rfl rfl rfl hi
  · unfold flushPendStart ranges
    simp [List.all_map, Out.rangeOK, Val.inRange, B64]

theorem ri_doClose {k : Nat} (e : Ep) (hi : RI k e) : RI k (doClose e).1 ∧ ranges (doClose e).2 = true := by
  unfold doClose
  split
  · exact ⟨hi, rfl⟩
  · obtain ⟨h1, h2⟩ := ri_flush e hi
    exact ⟨ri_of_view (e := (flushPendStart e).1) rfl h1, by simp [h2, Out.rangeOK]⟩

theorem ri_checkSessTerm {k : Nat} (e : Ep) (hi : RI k e) :
    RI k (checkSessTerm e).1 ∧ ranges (checkSessTerm e).2 = true := by
  unfold checkSessTerm
  split
  · exact ri_doClose e hi
  · exact ⟨hi, rfl⟩

theorem ri_sendSessTerm {k : Nat} (e : Ep) (r : Nat) (b : Bool) (hi : RI k e) :
    RI k (sendSessTerm e r b).1 ∧ ranges (sendSessTerm e r b).2 = true := by
  unfold sendSessTerm
  split
  · exact ⟨hi, by simp [Out.rangeOK]⟩
  · split
    · exact ⟨hi, by simp [Out.rangeOK]⟩
    · simp only []
      have h1 : RI k (sendMessage (setState { e with inTerm := true } "ending").1 (.sessTerm (if b then 1 else 0) r)) := by
        refine ri_of_view ?_ hi
        rw [rgv_sendMessage, rgv_setState]; rfl
      obtain ⟨h2, h3⟩ := ri_flush _ h1
      exact ⟨h2, by simp [h3]⟩

theorem ri_sendSegment {k : Nat} (e : Ep) (it : TxItem) (s : Nat) (hi : RI k e) :
    RI k (sendSegment e it s).1 ∧ ranges (sendSegment e it s).2.1 = true := by
  unfold sendSegment
  simp only []
  split
  · exact ⟨ri_of_view rfl hi, by simp [Out.rangeOK]⟩
  · split
    · exact ⟨ri_of_view (by rw [rgv_pqTrigger]; rfl) hi, rfl⟩
    · exact ⟨ri_of_view rfl hi, rfl⟩

theorem ri_processQueue {k : Nat} (e : Ep) (hi : RI k e) :
    RI k (processQueue e).1 ∧ ranges (processQueue e).2.1 = true := by
  unfold processQueue
  split
  · exact ri_sendSegment e _ _ hi
  · split
    · exact ⟨hi, rfl⟩
    · split
      · obtain ⟨h1, h2⟩ := ri_flush e hi
        obtain ⟨h3, h4⟩ := ri_checkSessTerm _ h1
        exact ⟨h3, by simp [h2, h4]⟩
      · split
        · exact ⟨hi, rfl⟩
        · rename_i it rest hq
          have hlen : it.data.length < B64 := hi.1 it (by rw [hq]; simp)
          have h1 : RI k { e with txPendStart := rest, txTmp := some (it, 0), nStarted := e.nStarted + 1 } :=
            ri_sub (e := e) (by intro x hx; show x ∈ e.txPendStart; rw [hq]; exact List.mem_cons_of_mem _ hx) rfl rfl rfl rfl hi
          obtain ⟨h2, h3⟩ := ri_sendSegment _ it 0 h1
          exact ⟨h2, ranges_cons' (rangeOK_sig2 _ _ _ hlen) h3⟩

theorem ri_writeConn {k : Nat} (e : Ep) (n : Nat) (up : Bool) (hi : RI k e) :
    RI k (writeConn e n up).1 ∧ ranges (writeConn e n up).2 = true := by
  unfold writeConn
  split
  · split
    · exact ri_checkSessTerm e hi
    · exact ⟨hi, rfl⟩
  · simp only []
    split
    · exact ⟨hi, rfl⟩
    · have h1 : RI k { e with connBuf := e.connBuf.drop (min n (e.connBuf.take chunkSize).length), accepted := e.accepted ++ (e.connBuf.take chunkSize).take (min n (e.connBuf.take chunkSize).length) } :=
        ri_of_view rfl hi
      split
      · obtain ⟨h2, h3⟩ := ri_checkSessTerm _ h1
        exact ⟨h2, ranges_cons' (rangeOK_wire _) h3⟩
      · exact ⟨h1, ranges_cons' (rangeOK_wire _) rfl⟩

theorem ri_pump {k : Nat} (e : Ep) (n : Nat) (hi : RI k e) : RI k (pump e n).1 ∧ ranges (pump e n).2 = true := by
  unfold pump
  exact ri_writeConn _ _ _ (ri_of_view (rgv_pullTx e) hi)

theorem ri_onContact {k : Nat} (e : Ep) (hi : RI k e) : RI k (onContact e).1 ∧ ranges (onContact e).2 = true := by
  unfold onContact
  simp only []
  refine ⟨ri_of_view ?_ hi, rg_setState _ _⟩
  split <;> split <;> simp

theorem ri_onSessInit {k : Nat} (e : Ep) (p : PeerInit) (hi : RI k e) :
    RI k (onSessInit e p).1 ∧ ranges (onSessInit e p).2 = true := by
  unfold onSessInit
  simp only []
  refine ⟨ri_of_view ?_ hi, rg_setState _ _⟩
  rw [rgv_setState, rgv_mergeSession]
  split
  · rfl
  · rfl

theorem ri_onSessTerm {k : Nat} (e : Ep) (m : Msg) (r : Nat) (hi : RI k e) :
    RI k (onSessTerm e m r).1 ∧ ranges (onSessTerm e m r).2 = true := by
  unfold onSessTerm
  split
  · exact ⟨ri_of_view (rgv_sendReject e _ m) hi, rfl⟩
  · simp only []
    have h1 : RI k (if (!e.inTerm) = true then sendSessTerm e r true else (e, [])).1
        ∧ ranges (if (!e.inTerm) = true then sendSessTerm e r true else (e, [])).2 = true := by
      split
      · exact ri_sendSessTerm e r true hi
      · exact ⟨hi, rfl⟩
    obtain ⟨h1a, h1b⟩ := h1
    obtain ⟨h2, h3⟩ := ri_flush { (if (!e.inTerm) = true then sendSessTerm e r true else (e, [])).1 with gotTerm := true }
      (ri_of_view rfl h1a)
    obtain ⟨h4, h5⟩ := ri_checkSessTerm _ h2
    exact ⟨h4, ranges_app (ranges_app h1b h3) h5⟩

/-- a segment accepted into the transfer `(tid, cur)`: `cur` is what `rxTmp` holds, `data` is paid for by `k` -/
theorem ri_segAccept {k : Nat} (e : Ep) (flags tid : Nat) (cur data : Bytes) (o1 : List Out)
    (hcur : rxW e.rxTmp = cur.length) (hi : RI (data.length + k) e) (ho : ranges o1 = true) :
    RI k (segAccept e flags tid cur data o1).1 ∧ ranges (segAccept e flags tid cur data o1).2 = true := by
  obtain ⟨i1, i2, i3, i4⟩ := hi
  have hlen : (cur ++ data).length < B64 := by
    rw [List.length_append]; omega
  unfold segAccept
  simp only []
  split
  · generalize hm : sendMessage e (.xferAck flags tid (cur ++ data).length) = e2
    have hv : e2.rgView = e.rgView := by rw [← hm]; rfl
    simp only [Ep.rgView, RgView.mk.injEq] at hv
    obtain ⟨v1, v2, v3, v4, v5⟩ := hv
    have h1 : RI k { e2 with rxTmp := none, rxMap := rxMapSet e2.rxMap tid (cur ++ data), rxLog := e2.rxLog ++ [(tid, cur ++ data)] } := by
      refine ⟨by show ∀ it ∈ e2.txPendStart, _; rw [v1]; exact i1, by show ∀ p ∈ e2.ackLen, _; rw [v2]; exact i2, ?_, by show e2.rxBytes.length < B64; rw [v5]; exact i4⟩
      show rxW none + k + e2.rx.buf.length ≤ e2.rxBytes.length
      rw [v4, v5]; simp only [rxW]; omega
    obtain ⟨h2, h3⟩ := ri_checkSessTerm _ h1
    exact ⟨h2, ranges_app (ranges_app ho (ranges_cons' (rangeOK_sig3 _ _ _ _ hlen) rfl)) h3⟩
  · refine ⟨?_, ranges_app ho (ranges_cons' (rangeOK_sig2 _ _ _ hlen) rfl)⟩
    refine ri_of_view (e := { e with rxTmp := some (tid, cur ++ data) }) rfl ?_
    refine ⟨i1, i2, ?_, i4⟩
    show rxW (some (tid, cur ++ data)) + k + e.rx.buf.length ≤ e.rxBytes.length
    simp only [rxW, List.length_append]; omega

theorem ri_onSegment {k : Nat} (e : Ep) (m : Msg) (flags tid : Nat) (data : Bytes) (hi : RI (data.length + k) e) :
    RI k (onSegment e m flags tid data).1 ∧ ranges (onSegment e m flags tid data).2 = true := by
  have hdown : RI k e := ⟨hi.1, hi.2.1, by have := hi.2.2.1; omega, hi.2.2.2⟩
  unfold onSegment
  split
  · exact ⟨ri_of_view (rgv_sendReject e _ m) hdown, rfl⟩
  · split
    · refine ri_segAccept { e with rxTmp := some (tid, []) } flags tid [] data _ rfl ?_ (by simp [Out.rangeOK, Val.inRange])
      refine ⟨hi.1, hi.2.1, ?_, hi.2.2.2⟩
      show rxW (some (tid, [])) + (data.length + k) + e.rx.buf.length ≤ e.rxBytes.length
      have := hi.2.2.1
      simp only [rxW, List.length_nil]; omega
    · split
      · rename_i t d heq
        split
        · exact ri_segAccept e flags tid d data [] (by rw [heq]; rfl) hi rfl
        · exact ⟨ri_of_view (rgv_sendReject e _ m) hdown, rfl⟩
      · exact ⟨ri_of_view (rgv_sendReject e _ m) hdown, rfl⟩

theorem ri_onAck {k : Nat} (e : Ep) (m : Msg) (f t l : Nat) (hl : l < B64) (hi : RI k e) :
    RI k (onAck e m f t l).1 ∧ ranges (onAck e m f t l).2 = true := by
  unfold onAck
  split
  · exact ⟨ri_of_view (rgv_sendReject e _ m) hi, rfl⟩
  · split
    · exact ⟨ri_of_view (rgv_sendReject e _ m) hi, rfl⟩
    · split
      · split
        · exact ⟨ri_of_view (rgv_sendReject e _ m) hi, rfl⟩
        · simp only []
          obtain ⟨h1, h2⟩ := ri_checkSessTerm { e with txPendAck := e.txPendAck.erase t, txMap := e.txMap.erase t, successLog := e.successLog ++ [t] } (ri_of_view rfl hi)
          exact ⟨h1, ranges_cons' (rangeOK_sig3 _ _ _ _ hl) h2⟩
      · refine ⟨?_, ranges_cons' (rangeOK_sig2 _ _ _ hl) rfl⟩
        obtain ⟨i1, i2, i3, i4⟩ := hi
        refine ⟨i1, ?_, i3, i4⟩
        intro p hp
        show p.2 < B64
        have hp' : p ∈ (t, l) :: e.ackLen.filter (·.1 != t) := hp
        rcases List.mem_cons.mp hp' with h | h
        · rw [h]; exact hl
        · exact i2 p (List.mem_filter.mp h).1

theorem ri_onRefuse {k : Nat} (e : Ep) (m : Msg) (r t : Nat) (hi : RI k e) :
    RI k (onRefuse e m r t).1 ∧ ranges (onRefuse e m r t).2 = true := by
  unfold onRefuse
  split
  · exact ⟨ri_of_view (rgv_sendReject e _ m) hi, rfl⟩
  · split
    · exact ⟨ri_of_view (rgv_sendReject e _ m) hi, rfl⟩
    · simp only []
      have hack : ((e.ackLen.find? (·.1 == t)).map (·.2) |>.getD 0) < B64 := by
        cases hf : e.ackLen.find? (·.1 == t) with
        | none => simp [B64]
        | some p =>
          simp only [Option.map_some, Option.getD_some]
          exact hi.2.1 p (List.mem_of_find?_eq_some hf)
      have h1 : RI k { e with txMap := e.txMap.erase t, txPendAck := e.txPendAck.erase t, txPendStart := e.txPendStart.filter (·.tid != t) } :=
        ri_sub (e := e) (by intro x hx; exact (List.mem_filter.mp hx).1) rfl rfl rfl rfl hi
      have h2 : ∀ e1 : Ep, RI k e1 → RI k (match e1.txTmp with
          | some (it, _) => if it.tid == t then pqTrigger { e1 with txTmp := none } else e1
          | none => e1) := by
        intro e1 h
        split
        · split
          · exact ri_of_view (by rw [rgv_pqTrigger]; rfl) h
          · exact h
        · exact h
      obtain ⟨h3, h4⟩ := ri_checkSessTerm _ (h2 _ h1)
      exact ⟨h3, ranges_cons' (rangeOK_sig3 _ _ _ _ hack) h4⟩

/-- one well-formed message, whose data octets are covered by the credit -/
theorem ri_handleMsg {k : Nat} (e : Ep) (m : Msg) (hm : m.WF) (hi : RI (dataLen m + k) e) :
    RI k (handleMsg e m).1 ∧ ranges (handleMsg e m).2 = true := by
  have h0 : RI (dataLen m + k) { e with processed := e.processed ++ [m] } := ri_of_view rfl hi
  have hdown : RI k { e with processed := e.processed ++ [m] } :=
    ⟨h0.1, h0.2.1, by have := h0.2.2.1; omega, h0.2.2.2⟩
  unfold handleMsg
  cases m with
  | contact f => exact ri_onContact _ hdown
  | sessInit ka sm xm node ext => exact ri_onSessInit _ _ hdown
  | sessTerm f r => exact ri_onSessTerm _ _ _ hdown
  | keepalive => exact ⟨hdown, rfl⟩
  | msgReject a b => exact ⟨hdown, rfl⟩
  | xferSegment flags tid ext data => exact ri_onSegment _ _ _ _ _ h0
  | xferAck f t l => exact ri_onAck _ _ _ _ _ (by rw [B64_eq]; exact hm.2.2) hdown
  | xferRefuse r t => exact ri_onRefuse _ _ _ _ hdown

theorem ri_handleMsgs (ms : List Msg) (e : Ep) (hw : ∀ m ∈ ms, m.WF) (hi : RI (sumData ms) e) :
    RI 0 (handleMsgs e ms).1 ∧ ranges (handleMsgs e ms).2 = true := by
  induction ms generalizing e with
  | nil => exact ⟨hi, rfl⟩
  | cons m ms ih =>
    have hdown0 : RI 0 e := ⟨hi.1, hi.2.1, by have := hi.2.2.1; omega, hi.2.2.2⟩
    unfold handleMsgs
    split
    · exact ⟨hdown0, rfl⟩
    · simp only []
      have hsum : sumData (m :: ms) = dataLen m + sumData ms := by simp [sumData]
      rw [hsum] at hi
      obtain ⟨h1, h2⟩ := ri_handleMsg { e with rxMore := !ms.isEmpty || e.rx.dead } m (hw m (by simp)) (ri_of_view rfl hi)
      obtain ⟨h3, h4⟩ := ih _ (fun x hx => hw x (List.mem_cons_of_mem _ hx)) h1
      exact ⟨h3, by simp [h2, h4]⟩

theorem ri_recvRaw (e : Ep) (c : Bytes) (hi : RI 0 e) (hb : e.rxBytes.length + c.length < B64) :
    RI 0 (recvRaw e c).1 ∧ ranges (recvRaw e c).2 = true := by
  obtain ⟨hw, hl⟩ := feed_wf e.rx c
  have h0 : RI (sumData (feed e.rx c).2) (rxEntry e c) := by
    obtain ⟨i1, i2, i3, i4⟩ := hi
    refine ⟨i1, i2, ?_, ?_⟩
    · show rxW e.rxTmp + sumData (feed e.rx c).2 + (feed e.rx c).1.buf.length ≤ (e.rxBytes ++ c).length
      rw [List.length_append]; omega
    · show (e.rxBytes ++ c).length < B64
      rw [List.length_append]; exact hb
  obtain ⟨h1, h2⟩ := ri_handleMsgs (feed e.rx c).2 _ hw h0
  unfold recvRaw
  simp only []
  have h3 : RI 0 { (handleMsgs (rxEntry e c) (feed e.rx c).2).1 with rxMore := false } := ri_of_view rfl h1
  split
  · obtain ⟨h4, h5⟩ := ri_doClose _ h3
    exact ⟨h4, by simp [h2, h5]⟩
  · exact ⟨h3, h2⟩

theorem ri_step (e : Ep) (ev : Ev) (hi : RI 0 e) (hsend : ∀ d, ev = .send d → d.length < B64)
    (hrx : ∀ c, ev = .rx c → e.rxBytes.length + c.length < B64) :
    RI 0 (step e ev).1 ∧ ranges (step e ev).2 = true := by
  unfold step
  cases ev with
  | advance ms => exact ⟨ri_of_view rfl hi, rfl⟩
  | start =>
    simp only []
    split
    · exact ⟨hi, rfl⟩
    · split
      · exact ⟨hi, rfl⟩
      · refine ⟨ri_of_view ?_ hi, rg_setState _ _⟩
        rw [rgv_setState]
        split
        · rfl
        · rfl
  | send d =>
    simp only []
    split
    · exact ⟨hi, rfl⟩
    · refine ⟨?_, rfl⟩
      refine ri_of_view (e := { e with txNextId := e.txNextId + 1, txPendStart := e.txPendStart ++ [⟨e.txNextId, d⟩], txMap := e.txMap ++ [e.txNextId], sendLog := e.sendLog ++ [⟨e.txNextId, d⟩] }) (by rw [rgv_pqTrigger]) ?_
      obtain ⟨i1, i2, i3, i4⟩ := hi
      refine ⟨?_, i2, i3, i4⟩
      intro it hit
      have hit' : it ∈ e.txPendStart ++ [⟨e.txNextId, d⟩] := hit
      rcases List.mem_append.mp hit' with h | h
      · exact i1 it h
      · rw [List.mem_singleton.mp h]; exact hsend d rfl
  | terminate r =>
    simp only []
    split
    · exact ⟨hi, rfl⟩
    · exact ri_sendSessTerm e r false hi
  | close =>
    simp only []
    split
    · exact ⟨hi, rfl⟩
    · exact ri_doClose e hi
  | pop t =>
    simp only []
    have hp : RI 0 (popRx e t).1 ∧ ranges (popRx e t).2 = true := by
      unfold popRx
      split
      · exact ⟨ri_of_view rfl hi, rfl⟩
      · exact ⟨hi, rfl⟩
    split <;> exact hp
  | query q =>
    simp only []
    split <;> exact ⟨hi, rfl⟩
  | procQueue =>
    simp only []
    split
    · exact ⟨ri_of_view rfl hi, rfl⟩
    · split
      · exact ⟨hi, rfl⟩
      · obtain ⟨h1, h2⟩ := ri_processQueue { e with pqPend := false } (ri_of_view rfl hi)
        exact ⟨ri_of_view rfl h1, h2⟩
  | pump n =>
    simp only []
    split
    · exact ⟨hi, rfl⟩
    · split
      · exact ⟨hi, rfl⟩
      · obtain ⟨h1, h2⟩ := ri_pump { e with txIdle := false } n (ri_of_view rfl hi)
        exact ⟨ri_of_view rfl h1, h2⟩
  | rx c =>
    simp only []
    split
    · exact ⟨hi, rfl⟩
    · exact ri_recvRaw e c hi (hrx c rfl)
  | rxEof =>
    simp only []
    split
    · exact ⟨hi, rfl⟩
    · exact ri_doClose e hi
  | keepaliveTimer =>
    simp only []
    split
    · exact ⟨hi, rfl⟩
    · split
      · exact ⟨hi, rfl⟩
      · exact ⟨ri_of_view (by rw [rgv_sendMessage]; rfl) hi, rfl⟩
  | idleTimer =>
    simp only []
    split
    · exact ⟨hi, rfl⟩
    · split
      · exact ⟨hi, rfl⟩
      · split
        · exact ri_doClose _ (ri_of_view rfl hi)
        · exact ri_sendSessTerm _ 1 false (ri_of_view rfl hi)
  | modulate raw =>
    simp only []
    split
    · exact ⟨hi, rfl⟩
    · split
      · exact ⟨ri_of_view rfl hi, rfl⟩
      · exact ⟨hi, rfl⟩

theorem ri_init (cfg : Cfg) : RI 0 { cfg := cfg } := by
  refine ⟨?_, ?_, ?_, (by show (0 : Nat) < B64; decide)⟩
  · intro it h; exact absurd h (by simp)
  · intro p h; exact absurd h (by simp)
  · show rxW none + 0 + 0 ≤ 0
    decide

/-- the hypotheses of a run: bundles handed in are shorter than 2^64 octets, and at every read the
    octets received so far plus the new ones stay below 2^64 -/
def RunOK : Ep → List Ev → Prop
  | _, [] => True
  | e, ev :: evs =>
    (∀ d, ev = .send d → d.length < B64) ∧ (∀ c, ev = .rx c → e.rxBytes.length + c.length < B64)
    ∧ RunOK (step e ev).1 evs

theorem ri_run (evs : List Ev) (e : Ep) (hi : RI 0 e) (hok : RunOK e evs) :
    ∀ os ∈ (run e evs).2, ranges os = true := by
  induction evs generalizing e with
  | nil => intro os h; simp [run] at h
  | cons ev evs ih =>
    intro os h
    obtain ⟨h1, h2, h3⟩ := hok
    obtain ⟨s1, s2⟩ := ri_step e ev hi h1 h2
    simp only [run, List.mem_cons] at h
    rcases h with h | h
    · rw [h]; exact s2
    · exact ih (step e ev).1 s1 h3 os h

end Tcpcl
end DtnVerif
