/-
  A final XFER_ACK is emitted only for a transfer recorded as completely received, with its length.
  (Generated from the pattern of Lemmas/TcpclEmit.lean.)
-/
import DtnVerif.Model.TcpclEp
namespace DtnVerif
namespace Tcpcl

/-- a final acknowledgement is only ever emitted for a transfer that is in the receive log, with its length -/
def ackOK (log : List (Nat × Bytes)) : Msg → Prop
  | .xferAck f t l => hasEnd f = true → ∃ d, (t, d) ∈ log ∧ d.length = l
  | _ => True

theorem ackOK_mono {log : List (Nat × Bytes)} (x : List (Nat × Bytes)) {m : Msg} (h : ackOK log m) : ackOK (log ++ x) m := by
  cases m <;> simp only [ackOK] at h ⊢
  intro he
  obtain ⟨d, hd, hl⟩ := h he
  exact ⟨d, List.mem_append_left _ hd, hl⟩

def AckInv (e : Ep) : Prop := ∀ m ∈ e.emitted, ackOK e.rxLog m

structure AckView where
  rxLog : List (Nat × Bytes)
  emitted : List Msg

def Ep.ackView (e : Ep) : AckView := ⟨e.rxLog, e.emitted⟩

theorem ackInv_of_view {e e' : Ep} (h : e'.ackView = e.ackView) (hi : AckInv e) : AckInv e' := by
  simp only [Ep.ackView, AckView.mk.injEq] at h
  obtain ⟨h1, h2⟩ := h
  unfold AckInv at *
  rw [h1, h2]; exact hi

@[simp] theorem av_kaReset (e : Ep) : (kaReset e).ackView = e.ackView := rfl
@[simp] theorem av_idleReset (e : Ep) : (idleReset e).ackView = e.ackView := rfl
@[simp] theorem av_pqTrigger (e : Ep) : (pqTrigger e).ackView = e.ackView := by
  unfold pqTrigger; split <;> rfl
@[simp] theorem av_setState (e : Ep) (s : String) : (setState e s).1.ackView = e.ackView := by
  unfold setState; split <;> rfl
@[simp] theorem av_flush (e : Ep) : (flushPendStart e).1.ackView = e.ackView := rfl
@[simp] theorem av_doClose (e : Ep) : (doClose e).1.ackView = e.ackView := by
  unfold doClose; split <;> rfl
@[simp] theorem av_checkSessTerm (e : Ep) : (checkSessTerm e).1.ackView = e.ackView := by
  unfold checkSessTerm; split
  · exact av_doClose e
  · rfl
@[simp] theorem av_sendBufferDecreased (e : Ep) : (sendBufferDecreased e).ackView = e.ackView := by
  unfold sendBufferDecreased; split
  · exact av_pqTrigger e
  · rfl
@[simp] theorem av_mergeSession (e : Ep) (p : PeerInit) : (mergeSession e p).ackView = e.ackView := rfl

theorem ackInv_sendMessage (e : Ep) (m : Msg) (hi : AckInv e) (hm : ackOK e.rxLog m := by trivial) :
    AckInv (sendMessage e m) := by
  unfold AckInv at *
  intro x hx
  simp only [sendMessage, sendReady, kaReset, idleReset, List.mem_append, List.mem_singleton] at hx
  rcases hx with hx | hx
  · exact hi x hx
  · subst hx; exact hm

theorem ackInv_sendContact (e : Ep) (hi : AckInv e) : AckInv (sendContact e) :=
  ackInv_of_view (e := sendMessage e (.contact 0)) rfl (ackInv_sendMessage e _ hi)

theorem ackInv_sendInit (e : Ep) (hi : AckInv e) : AckInv (sendInit e) :=
  ackInv_of_view (e := sendMessage e (.sessInit e.cfg.keepalive e.cfg.segMru sizeMax e.cfg.nodeId (sessionExt e.cfg)))
    rfl (ackInv_sendMessage e _ hi)

theorem ackInv_sendReject (e : Ep) (r : Nat) (m : Msg) (hi : AckInv e) : AckInv (sendReject e r m) :=
  ackInv_sendMessage e _ hi

theorem ackInv_sendSessTerm (e : Ep) (r : Nat) (b : Bool) (hi : AckInv e) :
    AckInv (sendSessTerm e r b).1 := by
  unfold sendSessTerm
  split
  · exact hi
  · split
    · exact hi
    · simp only []
      refine ackInv_of_view (av_flush _) (ackInv_sendMessage _ _ ?_)
      exact ackInv_of_view (by rw [av_setState]; rfl) hi

theorem ackInv_sendSegment (e : Ep) (it : TxItem) (sent : Nat) (hi : AckInv e) :
    AckInv (sendSegment e it sent).1 := by
  unfold sendSegment
  simp only []
  split
  · exact ackInv_of_view rfl hi
  · split
    · refine ackInv_of_view (by rw [av_pqTrigger]; rfl) (ackInv_sendMessage e _ hi)
    · exact ackInv_of_view rfl (ackInv_sendMessage e _ hi)

theorem ackInv_processQueue (e : Ep) (hi : AckInv e) : AckInv (processQueue e).1 := by
  unfold processQueue
  split
  · exact ackInv_sendSegment e _ _ hi
  · split
    · exact hi
    · split
      · exact ackInv_of_view (by simp only [av_checkSessTerm, av_flush]) hi
      · split
        · exact hi
        · exact ackInv_sendSegment _ _ _ (ackInv_of_view rfl hi)

theorem ackInv_pullTx (e : Ep) (hi : AckInv e) : AckInv (pullTx e) := by
  unfold pullTx
  split
  · exact ackInv_of_view (by rw [av_sendBufferDecreased]; rfl) hi
  · exact hi

theorem ackInv_writeConn (e : Ep) (n : Nat) (up : Bool) (hi : AckInv e) : AckInv (writeConn e n up).1 := by
  unfold writeConn
  split
  · split
    · exact ackInv_of_view (av_checkSessTerm e) hi
    · exact hi
  · simp only []
    split
    · exact hi
    · split
      · exact ackInv_of_view (by rw [av_checkSessTerm]; rfl) hi
      · exact ackInv_of_view rfl hi

theorem ackInv_pump (e : Ep) (n : Nat) (hi : AckInv e) : AckInv (pump e n).1 :=
  ackInv_writeConn _ _ _ (ackInv_pullTx e hi)

/-! receive handlers -/

theorem ackInv_onContact (e : Ep) (hi : AckInv e) : AckInv (onContact e).1 := by
  unfold onContact
  simp only []
  have h1 : AckInv (if e.cfg.passive then sendContact e else e) := by
    split
    · exact ackInv_sendContact e hi
    · exact hi
  have h2 : AckInv (setState (if e.cfg.passive then sendContact e else e) "session-negotiating").1 :=
    ackInv_of_view (av_setState _ _) h1
  split
  · exact ackInv_sendInit _ h2
  · exact h2

theorem ackInv_onSessInit (e : Ep) (p : PeerInit) (hi : AckInv e) : AckInv (onSessInit e p).1 := by
  unfold onSessInit
  simp only []
  have h1 : AckInv (if e.cfg.passive then sendInit e else e) := by
    split
    · exact ackInv_sendInit e hi
    · exact hi
  refine ackInv_of_view ?_ h1
  rw [av_setState, av_mergeSession]; rfl

theorem ackInv_onSessTerm (e : Ep) (m : Msg) (r : Nat) (hi : AckInv e) : AckInv (onSessTerm e m r).1 := by
  unfold onSessTerm
  split
  · exact ackInv_sendReject e _ _ hi
  · simp only []
    refine ackInv_of_view (by rw [av_checkSessTerm, av_flush]) (e := { (if !e.inTerm then sendSessTerm e r true else (e, [])).1 with gotTerm := true }) ?_
    refine ackInv_of_view (e := (if !e.inTerm then sendSessTerm e r true else (e, [])).1) rfl ?_
    split
    · exact ackInv_sendSessTerm e r true hi
    · exact hi

theorem ackInv_segAccept (e : Ep) (flags tid : Nat) (cur data : Bytes) (o1 : List Out) (hi : AckInv e) :
    AckInv (segAccept e flags tid cur data o1).1 := by
  unfold segAccept
  simp only []
  split
  · rename_i hend
    refine ackInv_of_view (e := { sendMessage e (.xferAck flags tid (cur ++ data).length) with
        rxLog := e.rxLog ++ [(tid, cur ++ data)] }) (by rw [av_checkSessTerm]; rfl) ?_
    intro m hm
    simp only [sendMessage, sendReady, kaReset, idleReset, List.mem_append, List.mem_singleton] at hm
    rcases hm with hm | hm
    · exact ackOK_mono _ (hi m hm)
    · subst hm
      intro _
      exact ⟨cur ++ data, by simp, rfl⟩
  · rename_i hend
    refine ackInv_sendMessage _ _ (ackInv_of_view rfl hi) ?_
    intro he
    exact absurd he hend

theorem ackInv_onSegment (e : Ep) (m : Msg) (flags tid : Nat) (data : Bytes) (hi : AckInv e) :
    AckInv (onSegment e m flags tid data).1 := by
  unfold onSegment
  split
  · exact ackInv_sendReject e _ _ hi
  · split
    · exact ackInv_segAccept _ _ _ _ _ _ (ackInv_of_view rfl hi)
    · split
      · split
        · exact ackInv_segAccept _ _ _ _ _ _ hi
        · exact ackInv_sendReject e _ _ hi
      · exact ackInv_sendReject e _ _ hi

theorem ackInv_onAck (e : Ep) (m : Msg) (f t l : Nat) (hi : AckInv e) : AckInv (onAck e m f t l).1 := by
  unfold onAck
  split
  · exact ackInv_sendReject e _ _ hi
  · split
    · exact ackInv_sendReject e _ _ hi
    · split
      · split
        · exact ackInv_sendReject e _ _ hi
        · exact ackInv_of_view (by rw [av_checkSessTerm]; rfl) hi
      · exact ackInv_of_view rfl hi

theorem ackInv_onRefuse (e : Ep) (m : Msg) (r t : Nat) (hi : AckInv e) : AckInv (onRefuse e m r t).1 := by
  unfold onRefuse
  split
  · exact ackInv_sendReject e _ _ hi
  · split
    · exact ackInv_sendReject e _ _ hi
    · refine ackInv_of_view ?_ hi
      simp only [av_checkSessTerm]
      split
      · split
        · rw [av_pqTrigger]; rfl
        · rfl
      · rfl

theorem ackInv_handleMsg (e : Ep) (m : Msg) (hi : AckInv e) : AckInv (handleMsg e m).1 := by
  have h0 : AckInv { e with processed := e.processed ++ [m] } := ackInv_of_view rfl hi
  unfold handleMsg
  cases m with
  | contact f => exact ackInv_onContact _ h0
  | sessInit ka sm xm node ext => exact ackInv_onSessInit _ _ h0
  | sessTerm f r => exact ackInv_onSessTerm _ _ _ h0
  | keepalive => exact h0
  | msgReject a b => exact h0
  | xferSegment flags tid ext data => exact ackInv_onSegment _ _ _ _ _ h0
  | xferAck f t l => exact ackInv_onAck _ _ _ _ _ h0
  | xferRefuse r t => exact ackInv_onRefuse _ _ _ _ h0

theorem ackInv_handleMsgs (ms : List Msg) (e : Ep) (hi : AckInv e) : AckInv (handleMsgs e ms).1 := by
  induction ms generalizing e with
  | nil => exact hi
  | cons m ms ih =>
    unfold handleMsgs
    split
    · exact hi
    · exact ih _ (ackInv_handleMsg _ m (ackInv_of_view (e := e) rfl hi))

theorem ackInv_recvRaw (e : Ep) (c : Bytes) (hi : AckInv e) : AckInv (recvRaw e c).1 := by
  unfold recvRaw
  simp only []
  have h0 : AckInv (rxEntry e c) := ackInv_of_view rfl hi
  have h1 := ackInv_handleMsgs (feed e.rx c).2 _ h0
  split
  · exact ackInv_of_view (av_doClose _) h1
  · exact h1

theorem ackInv_step (e : Ep) (ev : Ev) (hi : AckInv e) : AckInv (step e ev).1 := by
  unfold step
  cases ev with
  | advance ms => exact ackInv_of_view rfl hi
  | start =>
    simp only []
    split
    · exact hi
    · split
      · exact hi
      · refine ackInv_of_view (av_setState _ _) ?_
        split
        · exact ackInv_sendContact _ (ackInv_of_view rfl hi)
        · exact ackInv_of_view rfl hi
  | send d =>
    simp only []
    split
    · exact hi
    · exact ackInv_of_view (by rw [av_pqTrigger]; rfl) hi
  | terminate r =>
    simp only []
    split
    · exact hi
    · exact ackInv_sendSessTerm _ _ _ hi
  | close =>
    simp only []
    split
    · exact hi
    · exact ackInv_of_view (av_doClose _) hi
  | pop t =>
    simp only []
    have : AckInv (popRx e t).1 := by
      refine ackInv_of_view ?_ hi
      unfold popRx; split <;> rfl
    split <;> exact this
  | query q => simp only []; split <;> exact hi
  | procQueue =>
    simp only []
    split
    · exact ackInv_of_view rfl hi
    · split
      · exact hi
      · exact ackInv_of_view rfl (ackInv_processQueue _ (ackInv_of_view (e := e) rfl hi))
  | pump n =>
    simp only []
    split
    · exact hi
    · split
      · exact hi
      · exact ackInv_of_view rfl (ackInv_pump _ _ (ackInv_of_view (e := e) rfl hi))
  | rx c =>
    simp only []
    split
    · exact hi
    · exact ackInv_recvRaw e c hi
  | rxEof =>
    simp only []
    split
    · exact hi
    · exact ackInv_of_view (av_doClose _) hi
  | keepaliveTimer =>
    simp only []
    split
    · exact hi
    · split
      · exact hi
      · exact ackInv_sendMessage _ _ (ackInv_of_view rfl hi)
  | idleTimer =>
    simp only []
    split
    · exact hi
    · split
      · exact hi
      · split
        · exact ackInv_of_view (by rw [av_doClose]; rfl) hi
        · exact ackInv_sendSessTerm _ _ _ (ackInv_of_view rfl hi)
  | modulate raw =>
    simp only []
    split
    · exact hi
    · split
      · exact ackInv_of_view rfl hi
      · exact hi

theorem ackInv_init (cfg : Cfg) : AckInv { cfg := cfg } := by
  intro m hm; simp at hm

theorem ackInv_run (evs : List Ev) (e : Ep) (hi : AckInv e) : AckInv (runEp e evs) := by
  induction evs generalizing e with
  | nil => exact hi
  | cons ev evs ih =>
    simp only [runEp, run]
    exact ih _ (ackInv_step e ev hi)

end Tcpcl
end DtnVerif
