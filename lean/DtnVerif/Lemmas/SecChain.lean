/-
  Lemmas about the BPSec receive-chain model (Model/SecChain.lean): the declarative notion of a
  defective security block, what one block verification does to the failure list and to the block
  list, and the two iteration schemes.
-/
import DtnVerif.Model.SecChain
namespace DtnVerif
namespace SecChain

/-! ## Declarative defect predicates (the property's list of ways a block can be unverifiable) -/

/-- Target `t` at index `ix` cannot be verified: block missing, no result list for the index,
    not exactly one result, or the cryptographic check did not succeed. -/
def targetDefect (orc : Nat → Outcome) (pres : Nat → Bool) (results : List (List Nat)) (ix t : Nat) : Bool :=
  !pres t ||
  (match results[ix]? with
   | none => true
   | some rl => rl.length != 1 || orc t != .ok)

def anyTargetDefect (orc : Nat → Outcome) (pres : Nat → Bool) (results : List (List Nat)) :
    List Nat → Nat → Bool
  | [], _ => false
  | t :: ts, ix => targetDefect orc pres results ix t || anyTargetDefect orc pres results ts (ix + 1)

/-- Unknown context, duplicate / malformed parameter or result ids, undecodable additional headers,
    or some target defective. -/
def asbDefect (e : Env) (pres : Nat → Bool) (num : Nat) (a : Asb) : Bool :=
  a.ctxId != coseContextId || (hasDup a.paramIds || a.results.any hasDup) || !a.extractOk ||
  anyTargetDefect (e.orc num) pres a.results a.targets 0

/-- What trips D29: no parameters field, or an empty result array somewhere. -/
def noneTrap (a : Asb) : Bool := !a.hasParams || a.results.any (fun r => r.isEmpty)

def blkNoTrap (b : Blk) : Bool :=
  match b.pl with
  | none => true
  | some a => !noneTrap a

theorem checkResults_dup (q : Quirks) : ∀ (rs : List (List Nat)), rs.any hasDup = true → checkResults q rs ≠ .ok
  | [], h => by simp at h
  | r :: rs, h => by
    simp only [List.any_cons, Bool.or_eq_true] at h
    unfold checkResults
    split
    · simp
    · split
      · simp
      · rename_i h2
        rcases h with h | h
        · exact absurd h h2
        · exact checkResults_dup q rs h

theorem checkResults_ok (q : Quirks) : ∀ (rs : List (List Nat)), rs.any hasDup = false →
    (q.noneRaises = false ∨ rs.any (fun r => r.isEmpty) = false) → checkResults q rs = .ok
  | [], _, _ => rfl
  | r :: rs, h, ht => by
    simp only [List.any_cons, Bool.or_eq_false_iff] at h
    unfold checkResults
    have h1 : (r.isEmpty && q.noneRaises) = false := by
      rcases ht with ht | ht
      · simp [ht]
      · simp only [List.any_cons, Bool.or_eq_false_iff] at ht
        simp [ht.1]
    simp only [h1, Bool.false_eq_true, ↓reduceIte, h.1]
    apply checkResults_ok q rs h.2
    rcases ht with ht | ht
    · exact Or.inl ht
    · simp only [List.any_cons, Bool.or_eq_false_iff] at ht
      exact Or.inr ht.2

theorem checkSecblk_dup (q : Quirks) (a : Asb) (h : (hasDup a.paramIds || a.results.any hasDup) = true) :
    checkSecblk q a ≠ .ok := by
  unfold checkSecblk
  split
  · simp
  · split
    · simp
    · rename_i h2
      simp only [Bool.or_eq_true] at h
      rcases h with h | h
      · exact absurd h h2
      · exact checkResults_dup q a.results h

theorem checkSecblk_ok (q : Quirks) (a : Asb) (h : (hasDup a.paramIds || a.results.any hasDup) = false)
    (ht : q.noneRaises = false ∨ noneTrap a = false) : checkSecblk q a = .ok := by
  simp only [Bool.or_eq_false_iff] at h
  unfold checkSecblk
  have h1 : (!a.hasParams && q.noneRaises) = false := by
    rcases ht with ht | ht
    · simp [ht]
    · simp only [noneTrap, Bool.or_eq_false_iff] at ht
      simp [ht.1]
  simp only [h1, Bool.false_eq_true, ↓reduceIte, h.1]
  apply checkResults_ok q a.results h.2
  rcases ht with ht | ht
  · exact Or.inl ht
  · simp only [noneTrap, Bool.or_eq_false_iff] at ht
    exact Or.inr ht.2

theorem checkResults_notrap (q : Quirks) : ∀ (rs : List (List Nat)), rs.any (fun r => r.isEmpty) = false →
    checkResults q rs = checkResults Quirks.current rs ∧ checkResults Quirks.current rs ≠ .raises
  | [], _ => ⟨rfl, by simp [checkResults]⟩
  | r :: rs, h => by
    simp only [List.any_cons, Bool.or_eq_false_iff] at h
    obtain ⟨ih1, ih2⟩ := checkResults_notrap q rs h.2
    unfold checkResults
    simp only [h.1, Bool.false_and, Bool.false_eq_true, ↓reduceIte]
    split
    · exact ⟨rfl, by simp⟩
    · exact ⟨ih1, ih2⟩

theorem checkSecblk_notrap (q : Quirks) (a : Asb) (h : noneTrap a = false) :
    checkSecblk q a = checkSecblk Quirks.current a ∧ checkSecblk Quirks.current a ≠ .raises := by
  simp only [noneTrap, Bool.or_eq_false_iff] at h
  obtain ⟨r1, r2⟩ := checkResults_notrap q a.results h.2
  unfold checkSecblk
  simp only [h.1, Bool.false_and, Bool.false_eq_true, ↓reduceIte]
  split
  · exact ⟨rfl, by simp⟩
  · exact ⟨r1, r2⟩

/-- A block of type 11/12 whose BTSD is not an ASB is defective as such. -/
def blkDefect (e : Env) (pres : Nat → Bool) (b : Blk) : Bool :=
  match b.pl with
  | none => true
  | some a => asbDefect e pres b.num a

def isSec (b : Blk) : Bool := b.typeCode == typeBib || b.typeCode == typeBcb

/-- The bundle carries an integrity or confidentiality block that does not verify for every target. -/
def bundleDefect (e : Env) (st : List Blk) : Bool :=
  st.any (fun b => isSec b && blkDefect e (present st) b)

/-! ## The target loop -/

def LoopRes.bad : LoopRes → Bool
  | .raised _ => true
  | .done f _ _ => f

theorem targetLoop_fail (accept isBcb : Bool) (orc : Nat → Outcome) (pres : Nat → Bool)
    (results : List (List Nat)) :
    ∀ (ts : List Nat) (ix : Nat) (allAcc : Bool) (w : List Nat),
      (targetLoop accept isBcb orc pres results ts ix true allAcc w).bad = true
  | [], _, _, _ => by simp [targetLoop, LoopRes.bad]
  | t :: ts, ix, allAcc, w => by
    unfold targetLoop
    split
    · rfl
    · split
      · rfl
      · split
        · exact targetLoop_fail accept isBcb orc pres results ts (ix + 1) false w
        · split
          · exact targetLoop_fail accept isBcb orc pres results ts (ix + 1) _ _
          · exact targetLoop_fail accept isBcb orc pres results ts (ix + 1) false w
          · rfl

theorem targetLoop_defect (accept isBcb : Bool) (orc : Nat → Outcome) (pres : Nat → Bool)
    (results : List (List Nat)) :
    ∀ (ts : List Nat) (ix : Nat) (fail allAcc : Bool) (w : List Nat),
      anyTargetDefect orc pres results ts ix = true →
      (targetLoop accept isBcb orc pres results ts ix fail allAcc w).bad = true
  | [], _, _, _, _, h => by simp [anyTargetDefect] at h
  | t :: ts, ix, fail, allAcc, w, h => by
    simp only [anyTargetDefect, targetDefect, Bool.or_eq_true] at h
    unfold targetLoop
    by_cases hp : pres t = true
    · simp only [hp, Bool.not_true, Bool.false_eq_true, ↓reduceIte]
      cases hr : results[ix]? with
      | none => rfl
      | some rl =>
        simp only
        by_cases hl : (rl.length != 1) = true
        · simp only [hl, ↓reduceIte]
          exact targetLoop_fail accept isBcb orc pres results ts (ix + 1) false w
        · simp only [hl, Bool.false_eq_true, ↓reduceIte]
          cases ho : orc t with
          | ok =>
            simp only
            apply targetLoop_defect accept isBcb orc pres results ts (ix + 1)
            rcases h with h | h
            · simp [hp, hr, hl, ho] at h
            · exact h
          | fail => exact targetLoop_fail accept isBcb orc pres results ts (ix + 1) false w
          | raises => rfl
    · simp [hp, LoopRes.bad]

theorem targetLoop_clean (accept isBcb : Bool) (orc : Nat → Outcome) (pres : Nat → Bool)
    (results : List (List Nat)) :
    ∀ (ts : List Nat) (ix : Nat) (allAcc : Bool) (w : List Nat),
      anyTargetDefect orc pres results ts ix = false →
      ∃ a w', targetLoop accept isBcb orc pres results ts ix false allAcc w = .done false a w'
  | [], _, allAcc, w, _ => ⟨allAcc, w, by simp [targetLoop]⟩
  | t :: ts, ix, allAcc, w, h => by
    simp only [anyTargetDefect, targetDefect, Bool.or_eq_false_iff] at h
    obtain ⟨⟨hp, hm⟩, hrest⟩ := h
    have hp' : pres t = true := by simpa using hp
    unfold targetLoop
    simp only [hp', Bool.not_true, Bool.false_eq_true, ↓reduceIte]
    cases hr : results[ix]? with
    | none => simp [hr] at hm
    | some rl =>
      simp only [hr, Bool.or_eq_false_iff] at hm
      simp only [hm.1, Bool.false_eq_true, ↓reduceIte]
      have ho : orc t = .ok := by
        have := hm.2
        simpa using this
      simp only [ho]
      exact targetLoop_clean accept isBcb orc pres results ts (ix + 1) _ _ hrest

/-- a defective target at any position makes the target list defective -/
theorem anyTargetDefect_index (orc : Nat → Outcome) (pres : Nat → Bool) (results : List (List Nat)) :
    ∀ (ts : List Nat) (ix j : Nat) (hj : j < ts.length),
      targetDefect orc pres results (ix + j) ts[j] = true → anyTargetDefect orc pres results ts ix = true
  | [], _, j, hj, _ => by simp at hj
  | t :: ts, ix, 0, _, h => by
    simp only [anyTargetDefect, Bool.or_eq_true]
    left
    simpa using h
  | t :: ts, ix, j + 1, hj, h => by
    simp only [anyTargetDefect, Bool.or_eq_true]
    right
    apply anyTargetDefect_index orc pres results ts (ix + 1) j (by simpa using hj)
    have e : ix + (j + 1) = ix + 1 + j := by omega
    rw [e] at h
    simpa using h

/-- a defect stays a defect when fewer blocks are present -/
theorem anyTargetDefect_mono (orc : Nat → Outcome) (pres pres' : Nat → Bool) (results : List (List Nat))
    (hsub : ∀ n, pres' n = true → pres n = true) :
    ∀ (ts : List Nat) (ix : Nat), anyTargetDefect orc pres results ts ix = true →
      anyTargetDefect orc pres' results ts ix = true
  | [], _, h => by simp [anyTargetDefect] at h
  | t :: ts, ix, h => by
    simp only [anyTargetDefect, Bool.or_eq_true] at h ⊢
    rcases h with h | h
    · left
      simp only [targetDefect, Bool.or_eq_true, Bool.not_eq_eq_eq_not, Bool.not_true] at h ⊢
      rcases h with h | h
      · left
        cases hp : pres' t with
        | false => rfl
        | true => rw [hsub t hp] at h; exact absurd h (by simp)
      · right; exact h
    · right; exact anyTargetDefect_mono orc pres pres' results hsub ts (ix + 1) h

/-! ## One block -/

/-- reason codes a structural / cryptographic failure is recorded with -/
def Fail.isSecCode : Fail → Bool
  | .code n => n == reasonUnknownSec || n == reasonFailedSec
  | .str => false

theorem verifyAsb_fails (q : Quirks) (e : Env) (tc : Nat) (st : List Blk) (num : Nat) (a : Asb)
    (h : asbDefect e (present st) num a = true) : (verifyAsb q e tc st num a).2.isSome = true := by
  unfold verifyAsb
  by_cases h1 : (a.ctxId != coseContextId) = true
  · simp [h1]
  · simp only [h1, Bool.false_eq_true, ↓reduceIte]
    cases h2 : checkSecblk q a with
    | bad => simp
    | raises => simp
    | ok =>
      simp only
      by_cases h3 : a.extractOk = true
      · simp only [h3, Bool.not_true, Bool.false_eq_true, ↓reduceIte]
        have hdup : (hasDup a.paramIds || a.results.any hasDup) = false := by
          cases hh : (hasDup a.paramIds || a.results.any hasDup) with
          | false => rfl
          | true => exact absurd h2 (checkSecblk_dup q a hh)
        have hd : anyTargetDefect (e.orc num) (present st) a.results a.targets 0 = true := by
          simpa [asbDefect, h1, hdup, h3] using h
        have hb := targetLoop_defect e.accept (tc == typeBcb) (e.orc num) (present st) a.results
          a.targets 0 false true [] hd
        cases hl : targetLoop e.accept (tc == typeBcb) (e.orc num) (present st) a.results a.targets 0 false true [] with
        | raised w => simp
        | done f aa w =>
          rw [hl] at hb
          simp only [LoopRes.bad] at hb
          simp [hb]
      · simp [h3]

theorem verifyAsb_clean (q : Quirks) (e : Env) (tc : Nat) (st : List Blk) (num : Nat) (a : Asb)
    (h : asbDefect e (present st) num a = false) (ht : q.noneRaises = false ∨ noneTrap a = false) :
    (verifyAsb q e tc st num a).2 = none := by
  simp only [asbDefect] at h
  rw [Bool.or_eq_false_iff, Bool.or_eq_false_iff, Bool.or_eq_false_iff] at h
  obtain ⟨⟨⟨h1, h2⟩, h3⟩, h4⟩ := h
  have h2' : checkSecblk q a = .ok := checkSecblk_ok q a h2 ht
  have h3' : a.extractOk = true := by simpa using h3
  obtain ⟨aa, w, hl⟩ := targetLoop_clean e.accept (tc == typeBcb) (e.orc num) (present st) a.results
    a.targets 0 true [] h4
  unfold verifyAsb
  simp [h1, h2', h3', hl]

theorem verifyAsb_code (q : Quirks) (hq : q.excAsString = false) (e : Env) (tc : Nat) (st : List Blk)
    (num : Nat) (a : Asb) (f : Fail) (h : (verifyAsb q e tc st num a).2 = some f) : f.isSecCode = true := by
  have hx : excFail q = .code reasonFailedSec := by simp [excFail, hq]
  unfold verifyAsb at h
  by_cases h1 : (a.ctxId != coseContextId) = true
  · simp only [h1, ↓reduceIte, Option.some.injEq] at h
    subst h; decide
  · simp only [h1, Bool.false_eq_true, ↓reduceIte] at h
    cases h2 : checkSecblk q a with
    | bad => simp only [h2, Option.some.injEq] at h; subst h; decide
    | raises => simp only [h2, hx, Option.some.injEq] at h; subst h; decide
    | ok =>
      simp only [h2] at h
      by_cases h3 : a.extractOk = true
      · simp only [h3, Bool.not_true, Bool.false_eq_true, ↓reduceIte] at h
        cases hl : targetLoop e.accept (tc == typeBcb) (e.orc num) (present st) a.results a.targets 0 false true [] with
        | raised w => simp only [hl, hx, Option.some.injEq] at h; subst h; decide
        | done ff aa w =>
          simp only [hl] at h
          cases ff with
          | false => simp at h
          | true => simp only [↓reduceIte, Option.some.injEq] at h; subst h; decide
      · simp only [h3, Bool.not_false, ↓reduceIte, hx, Option.some.injEq] at h
        subst h; decide

theorem verifyBlock_fails (q : Quirks) (e : Env) (tc : Nat) (st : List Blk) (b : Blk)
    (h : blkDefect e (present st) b = true) : (verifyBlock q e tc st b).2.isSome = true := by
  unfold verifyBlock
  cases hp : b.pl with
  | none => simp
  | some a =>
    simp only
    apply verifyAsb_fails
    simpa [blkDefect, hp] using h

theorem verifyBlock_clean (q : Quirks) (e : Env) (tc : Nat) (st : List Blk) (b : Blk)
    (h : blkDefect e (present st) b = false) (ht : q.noneRaises = false ∨ blkNoTrap b = true) :
    (verifyBlock q e tc st b).2 = none := by
  unfold verifyBlock
  cases hp : b.pl with
  | none => simp [blkDefect, hp] at h
  | some a =>
    simp only
    apply verifyAsb_clean
    · simpa [blkDefect, hp] using h
    · rcases ht with ht | ht
      · exact Or.inl ht
      · right
        simpa [blkNoTrap, hp] using ht

theorem verifyBlock_code (q : Quirks) (hq : q.excAsString = false) (e : Env) (tc : Nat) (st : List Blk)
    (b : Blk) (f : Fail) (h : (verifyBlock q e tc st b).2 = some f) : f.isSecCode = true := by
  unfold verifyBlock at h
  cases hp : b.pl with
  | none => simp only [hp, Option.some.injEq] at h; subst h; decide
  | some a =>
    simp only [hp] at h
    exact verifyAsb_code q hq e tc st b.num a f h

/-! ## How the block list evolves -/

def SameShape (b b' : Blk) : Prop := b'.typeCode = b.typeCode ∧ b'.num = b.num ∧ b'.pl = b.pl

/-- `st'` arises from `st` by rewriting BTSDs and removing blocks of type `tc`. -/
structure Evolves (tc : Nat) (st st' : List Blk) : Prop where
  back : ∀ b' ∈ st', ∃ b ∈ st, SameShape b b'
  keep : ∀ b ∈ st, b.typeCode ≠ tc → ∃ b' ∈ st', SameShape b b'

theorem Evolves.refl (tc : Nat) (st : List Blk) : Evolves tc st st :=
  ⟨fun b hb => ⟨b, hb, rfl, rfl, rfl⟩, fun b hb _ => ⟨b, hb, rfl, rfl, rfl⟩⟩

theorem Evolves.trans {tc : Nat} {a b c : List Blk} (h1 : Evolves tc a b) (h2 : Evolves tc b c) :
    Evolves tc a c := by
  constructor
  · intro z hz
    obtain ⟨y, hy, e1, e2, e3⟩ := h2.back z hz
    obtain ⟨x, hx, f1, f2, f3⟩ := h1.back y hy
    exact ⟨x, hx, by rw [e1, f1], by rw [e2, f2], by rw [e3, f3]⟩
  · intro x hx hne
    obtain ⟨y, hy, e1, e2, e3⟩ := h1.keep x hx hne
    obtain ⟨z, hz, f1, f2, f3⟩ := h2.keep y hy (by rw [e1]; exact hne)
    exact ⟨z, hz, by rw [f1, e1], by rw [f2, e2], by rw [f3, e3]⟩

theorem evolves_write (tc : Nat) (plain : Nat → Bytes) (w : List Nat) (st : List Blk) :
    Evolves tc st (writePlain plain w st) := by
  unfold writePlain
  constructor
  · intro b' hb'
    simp only [List.mem_map] at hb'
    obtain ⟨b, hb, rfl⟩ := hb'
    refine ⟨b, hb, ?_⟩
    split <;> exact ⟨rfl, rfl, rfl⟩
  · intro b hb _
    refine ⟨_, List.mem_map.mpr ⟨b, hb, rfl⟩, ?_⟩
    split <;> exact ⟨rfl, rfl, rfl⟩

theorem evolves_remove (tc n : Nat) (st : List Blk) : Evolves tc st (removeBlk tc n st) := by
  unfold removeBlk
  constructor
  · intro b' hb'
    exact ⟨b', (List.mem_filter.mp hb').1, rfl, rfl, rfl⟩
  · intro b hb hne
    refine ⟨b, List.mem_filter.mpr ⟨hb, ?_⟩, rfl, rfl, rfl⟩
    have : (b.typeCode == tc) = false := by simpa using hne
    simp [this]

theorem evolves_verifyAsb (q : Quirks) (e : Env) (tc : Nat) (st : List Blk) (num : Nat) (a : Asb) :
    Evolves tc st (verifyAsb q e tc st num a).1 := by
  unfold verifyAsb
  split
  · exact Evolves.refl tc st
  · split
    · exact Evolves.refl tc st
    · exact Evolves.refl tc st
    · split
      · exact Evolves.refl tc st
      · split
        · exact evolves_write tc _ _ st
        · simp only
          split
          · exact (evolves_write tc _ _ st).trans (evolves_remove tc num _)
          · exact evolves_write tc _ _ st

theorem evolves_verifyBlock (q : Quirks) (e : Env) (tc : Nat) (st : List Blk) (b : Blk) :
    Evolves tc st (verifyBlock q e tc st b).1 := by
  unfold verifyBlock
  split
  · exact evolves_verifyAsb q e tc st b.num _
  · exact Evolves.refl tc st

theorem present_iff (st : List Blk) (n : Nat) : present st n = true ↔ ∃ b ∈ st, b.num = n := by
  simp [present]

theorem Evolves.present_sub {tc : Nat} {st st' : List Blk} (h : Evolves tc st st') (n : Nat)
    (hp : present st' n = true) : present st n = true := by
  rw [present_iff] at hp ⊢
  obtain ⟨b', hb', hn⟩ := hp
  obtain ⟨b, hb, _, e2, _⟩ := h.back b' hb'
  exact ⟨b, hb, by rw [← e2, hn]⟩

/-- the defect predicate looks at number and ASB only, and is monotone in the missing blocks -/
theorem blkDefect_mono (e : Env) (pres pres' : Nat → Bool) (hsub : ∀ n, pres' n = true → pres n = true)
    (b b' : Blk) (hs : SameShape b b') (h : blkDefect e pres b = true) : blkDefect e pres' b' = true := by
  obtain ⟨_, e2, e3⟩ := hs
  unfold blkDefect at h ⊢
  rw [e3, e2]
  cases hp : b.pl with
  | none => rfl
  | some a =>
    simp only [hp, asbDefect, Bool.or_eq_true] at h ⊢
    rcases h with h | h
    · left; exact h
    · right; exact anyTargetDefect_mono (e.orc b.num) pres pres' a.results hsub a.targets 0 h

/-! ## The verdict of a step -/

theorem codesOf_sec : ∀ (fs : List Fail), (∀ f ∈ fs, f.isSecCode = true) →
    ∃ cs, codesOf fs = some cs ∧ cs.length = fs.length ∧
      ∀ c ∈ cs, c = reasonUnknownSec ∨ c = reasonFailedSec
  | [], _ => ⟨[], rfl, rfl, by simp⟩
  | .str :: r, h => by
    have := h .str (by simp)
    simp [Fail.isSecCode] at this
  | .code n :: r, h => by
    obtain ⟨cs, h1, h2, h3⟩ := codesOf_sec r (fun f hf => h f (by simp [hf]))
    refine ⟨n :: cs, by simp [codesOf, h1], by simp [h2], ?_⟩
    intro c hc
    simp only [List.mem_cons] at hc
    rcases hc with hc | hc
    · have := h (.code n) (by simp)
      simp only [Fail.isSecCode, Bool.or_eq_true, beq_iff_eq] at this
      rw [hc]; exact this
    · exact h3 c hc

theorem maxList_sec : ∀ (cs : List Nat), cs ≠ [] →
    (∀ c ∈ cs, c = reasonUnknownSec ∨ c = reasonFailedSec) →
    maxList cs = reasonUnknownSec ∨ maxList cs = reasonFailedSec
  | [], h, _ => absurd rfl h
  | [c], _, h => by
    have := h c (by simp)
    simp only [maxList, reasonUnknownSec, reasonFailedSec] at this ⊢
    rcases this with e | e <;> subst e <;> decide
  | c :: d :: r, _, h => by
    have h0 := h c (by simp)
    have ih := maxList_sec (d :: r) (by simp) (fun x hx => h x (by simp [hx]))
    simp only [reasonUnknownSec, reasonFailedSec] at h0 ih ⊢
    show Nat.max c (maxList (d :: r)) = 13 ∨ Nat.max c (maxList (d :: r)) = 15
    rcases h0 with e | e <;> rcases ih with f | f <;> rw [e, f] <;> decide

/-- A non-empty failure list of reason codes 13/15 makes the step record `delete` with that maximum. -/
theorem verdict_codes (fs : List Fail) (hne : fs ≠ []) (hc : ∀ f ∈ fs, f.isSecCode = true) :
    ∃ n, verdict fs = .del (.code n) ∧ (n = reasonUnknownSec ∨ n = reasonFailedSec) := by
  obtain ⟨cs, h1, h2, h3⟩ := codesOf_sec fs hc
  have hcs : cs ≠ [] := by
    intro e
    rw [e] at h2
    exact hne (List.length_eq_zero_iff.mp h2.symm)
  refine ⟨maxList cs, ?_, maxList_sec cs hcs h3⟩
  cases fs with
  | nil => exact absurd rfl hne
  | cons f r => simp [verdict, h1]

theorem verdict_nil : verdict [] = .pass := rfl

/-! ## Iteration over a snapshot (repaired code) -/

theorem iterCopy_spec (q : Quirks) (e : Env) (tc : Nat) :
    ∀ (bs st : List Blk) (acc : List Fail),
      Evolves tc st (iterCopy q e tc bs st acc).1 ∧
      ∃ suf, (iterCopy q e tc bs st acc).2 = acc ++ suf ∧
        (q.excAsString = false → ∀ f ∈ suf, f.isSecCode = true) ∧
        (∀ st0, Evolves tc st0 st → (∃ b ∈ bs, blkDefect e (present st0) b = true) → suf ≠ [])
  | [], st, acc => ⟨Evolves.refl tc st, [], by simp [iterCopy], by simp, by simp⟩
  | b :: bs, st, acc => by
    have ev := evolves_verifyBlock q e tc st b
    obtain ⟨ih1, suf, ih2, ih3, ih4⟩ :=
      iterCopy_spec q e tc bs (verifyBlock q e tc st b).1 (acc ++ optList (verifyBlock q e tc st b).2)
    refine ⟨ev.trans ih1, optList (verifyBlock q e tc st b).2 ++ suf, ?_, ?_, ?_⟩
    · simp only [iterCopy, ih2, List.append_assoc]
    · intro hq f hf
      simp only [List.mem_append] at hf
      rcases hf with hf | hf
      · cases hv : (verifyBlock q e tc st b).2 with
        | none => simp [hv, optList] at hf
        | some g =>
          simp only [hv, optList, List.mem_singleton] at hf
          rw [hf]
          exact verifyBlock_code q hq e tc st b g hv
      · exact ih3 hq f hf
    · intro st0 h0 hex
      obtain ⟨d, hd, hdef⟩ := hex
      simp only [List.mem_cons] at hd
      rcases hd with hd | hd
      · subst hd
        have hdef' := blkDefect_mono e (present st0) (present st) (fun n => h0.present_sub n) d d
          ⟨rfl, rfl, rfl⟩ hdef
        have := verifyBlock_fails q e tc st d hdef'
        cases hv : (verifyBlock q e tc st d).2 with
        | none => simp [hv] at this
        | some g => simp [optList]
      · have := ih4 st0 (h0.trans ev) ⟨d, hd, hdef⟩
        simp [this]

/-! ## Iteration over the live list (the code as it is) -/

theorem iterIdx_clean (q : Quirks) (e : Env) (tc : Nat) (st0 : List Blk)
    (hclean : ∀ st b, Evolves tc st0 st → b ∈ st.filter (sel q tc) → (verifyBlock q e tc st b).2 = none) :
    ∀ (fuel i : Nat) (st : List Blk) (acc : List Fail), Evolves tc st0 st →
      (iterIdx q e tc fuel i st acc).2 = acc ∧ Evolves tc st0 (iterIdx q e tc fuel i st acc).1
  | 0, _, st, acc, h => ⟨rfl, h⟩
  | fuel + 1, i, st, acc, h => by
    unfold iterIdx
    cases hg : (st.filter (sel q tc))[i]? with
    | none => exact ⟨rfl, h⟩
    | some b =>
      simp only
      have hb : b ∈ st.filter (sel q tc) := List.mem_of_getElem? hg
      have hn := hclean st b h hb
      have ih := iterIdx_clean q e tc st0 hclean fuel (i + 1) (verifyBlock q e tc st b).1
        (acc ++ optList (verifyBlock q e tc st b).2) (h.trans (evolves_verifyBlock q e tc st b))
      rw [hn] at ih ⊢
      simpa [optList] using ih

/-- When verifying never changes the block list, the live-list loop visits every selected block. -/
theorem iterIdx_const (q : Quirks) (e : Env) (tc : Nat) (st : List Blk)
    (hconst : ∀ b ∈ st.filter (sel q tc), (verifyBlock q e tc st b).1 = st) :
    ∀ (fuel i : Nat) (acc : List Fail), (st.filter (sel q tc)).length ≤ i + fuel →
      iterIdx q e tc fuel i st acc =
        (st, acc ++ ((st.filter (sel q tc)).drop i).flatMap (fun b => optList (verifyBlock q e tc st b).2))
  | 0, i, acc, h => by
    have : (st.filter (sel q tc)).drop i = [] := List.drop_eq_nil_of_le (by omega)
    simp [iterIdx, this]
  | fuel + 1, i, acc, h => by
    unfold iterIdx
    cases hg : (st.filter (sel q tc))[i]? with
    | none =>
      have : (st.filter (sel q tc)).drop i = [] :=
        List.drop_eq_nil_of_le (by simpa using hg)
      simp [this]
    | some b =>
      simp only
      have hb : b ∈ st.filter (sel q tc) := List.mem_of_getElem? hg
      rw [hconst b hb]
      rw [iterIdx_const q e tc st hconst fuel (i + 1) _ (by omega)]
      have hi : i < (st.filter (sel q tc)).length := by
        rcases List.getElem?_eq_some_iff.mp hg with ⟨hi, _⟩
        exact hi
      have hd : (st.filter (sel q tc)).drop i = b :: (st.filter (sel q tc)).drop (i + 1) := by
        rw [List.drop_eq_getElem_cons hi]
        congr 1
        rcases List.getElem?_eq_some_iff.mp hg with ⟨_, e⟩
        exact e
      rw [hd]
      simp [List.append_assoc]

/-! ## Clean blocks stay clean while only security blocks disappear -/

theorem anyTargetDefect_transfer (orc : Nat → Outcome) (pres pres' : Nat → Bool) (results : List (List Nat)) :
    ∀ (ts : List Nat) (ix : Nat), anyTargetDefect orc pres results ts ix = false →
      (∀ t ∈ ts, pres t = true → pres' t = true) → anyTargetDefect orc pres' results ts ix = false
  | [], _, _, _ => rfl
  | t :: ts, ix, h, hp => by
    simp only [anyTargetDefect, targetDefect, Bool.or_eq_false_iff] at h ⊢
    obtain ⟨⟨h1, h2⟩, h3⟩ := h
    have ht : pres t = true := by simpa using h1
    refine ⟨⟨by simp [hp t (by simp) ht], h2⟩, ?_⟩
    exact anyTargetDefect_transfer orc pres pres' results ts (ix + 1) h3 (fun u hu => hp u (by simp [hu]))

theorem blkClean_transfer (e : Env) (pres pres' : Nat → Bool) (b b' : Blk) (hs : SameShape b b')
    (h : blkDefect e pres b = false)
    (hp : ∀ a, b.pl = some a → ∀ t ∈ a.targets, pres t = true → pres' t = true) :
    blkDefect e pres' b' = false := by
  obtain ⟨_, e2, e3⟩ := hs
  unfold blkDefect at h ⊢
  rw [e3, e2]
  cases hpl : b.pl with
  | none => simp [hpl] at h
  | some a =>
    simp only [hpl, asbDefect, Bool.or_eq_false_iff] at h ⊢
    exact ⟨h.1, anyTargetDefect_transfer (e.orc b.num) pres pres' a.results a.targets 0 h.2 (hp a hpl)⟩

/-- every block of the later list has the shape of a block of the earlier one -/
def Back (st st' : List Blk) : Prop := ∀ b' ∈ st', ∃ b ∈ st, SameShape b b'
/-- no non-security block was lost -/
def KeepsNonSec (st st' : List Blk) : Prop := ∀ b ∈ st, isSec b = false → ∃ b' ∈ st', SameShape b b'

theorem isSec_shape {b b' : Blk} (hs : SameShape b b') : isSec b' = isSec b := by
  simp [isSec, hs.1]

theorem Back.trans {a b c : List Blk} (h1 : Back a b) (h2 : Back b c) : Back a c := by
  intro z hz
  obtain ⟨y, hy, e1, e2, e3⟩ := h2 z hz
  obtain ⟨x, hx, f1, f2, f3⟩ := h1 y hy
  exact ⟨x, hx, by rw [e1, f1], by rw [e2, f2], by rw [e3, f3]⟩

theorem KeepsNonSec.trans {a b c : List Blk} (h1 : KeepsNonSec a b) (h2 : KeepsNonSec b c) :
    KeepsNonSec a c := by
  intro x hx hns
  obtain ⟨y, hy, sh⟩ := h1 x hx hns
  obtain ⟨z, hz, sh2⟩ := h2 y hy (by rw [isSec_shape sh]; exact hns)
  exact ⟨z, hz, by rw [sh2.1, sh.1], by rw [sh2.2.1, sh.2.1], by rw [sh2.2.2, sh.2.2]⟩

theorem Evolves.keepsNonSec {tc : Nat} {st st' : List Blk} (h : Evolves tc st st')
    (htc : tc = typeBib ∨ tc = typeBcb) : KeepsNonSec st st' := by
  intro b hb hns
  apply h.keep b hb
  intro e
  simp only [isSec, Bool.or_eq_false_iff, beq_eq_false_iff_ne] at hns
  rcases htc with h1 | h1
  · exact hns.1 (by rw [e, h1])
  · exact hns.2 (by rw [e, h1])

/-- The pass-side hypotheses: every security block is clean, and no security block is itself the
    target of a security block. -/
structure AllVerify (q : Quirks) (e : Env) (st : List Blk) : Prop where
  clean : ∀ b ∈ st, isSec b = true → blkDefect e (present st) b = false
  /-- while D29 is in the code: every security block has its parameters field and no empty result array -/
  notrap : q.noneRaises = true → ∀ b ∈ st, isSec b = true → blkNoTrap b = true
  plain : ∀ b ∈ st, isSec b = true → ∀ a, b.pl = some a → ∀ t ∈ a.targets, ∀ b' ∈ st, b'.num = t → isSec b' = false

theorem clean_later {q : Quirks} (e : Env) (st st' : List Blk) (hv : AllVerify q e st) (hb : Back st st')
    (hk : KeepsNonSec st st') (b' : Blk) (hb' : b' ∈ st') (hs : isSec b' = true) :
    blkDefect e (present st') b' = false := by
  obtain ⟨b, hbm, sh⟩ := hb b' hb'
  have hsb : isSec b = true := by rw [← isSec_shape sh]; exact hs
  apply blkClean_transfer e (present st) (present st') b b' sh (hv.clean b hbm hsb)
  intro a ha t ht hp
  rw [present_iff] at hp ⊢
  obtain ⟨bt, hbt, hn⟩ := hp
  obtain ⟨bt', hbt', sh'⟩ := hk bt hbt (hv.plain b hbm hsb a ha t ht bt hbt hn)
  exact ⟨bt', hbt', by rw [sh'.2.1, hn]⟩

theorem sel_isSec (q : Quirks) (tc : Nat) (htc : tc = typeBib ∨ tc = typeBcb) (b : Blk)
    (h : sel q tc b = true) : isSec b = true := by
  simp only [sel, Bool.and_eq_true, beq_iff_eq] at h
  simp only [isSec, Bool.or_eq_true, beq_iff_eq]
  rcases htc with e | e
  · left; rw [h.1, e]
  · right; rw [h.1, e]

/-- One step of the code as it is, on a bundle whose security blocks all verify. -/
theorem stepRun_clean (q : Quirks) (e : Env) (tc : Nat) (htc : tc = typeBib ∨ tc = typeBcb)
    (st0 st : List Blk) (hv : AllVerify q e st0) (hb : Back st0 st) (hk : KeepsNonSec st0 st) :
    (stepRun q e tc st).2 = [] ∧ Back st0 (stepRun q e tc st).1 ∧ KeepsNonSec st0 (stepRun q e tc st).1 := by
  have hclean : ∀ st' b, Evolves tc st st' → b ∈ st'.filter (sel q tc) →
      (verifyBlock q e tc st' b).2 = none := by
    intro st' b ev hbm
    obtain ⟨hm, hsel⟩ := List.mem_filter.mp hbm
    apply verifyBlock_clean
    · exact clean_later e st0 st' hv (hb.trans ev.back) (hk.trans (ev.keepsNonSec htc)) b hm
        (sel_isSec q tc htc b hsel)
    · cases hq : q.noneRaises with
      | false => exact Or.inl rfl
      | true =>
        right
        obtain ⟨b0, hb0, sh⟩ := (hb.trans ev.back) b hm
        have := hv.notrap hq b0 hb0 (by rw [← isSec_shape sh]; exact sel_isSec q tc htc b hsel)
        simpa [blkNoTrap, sh.2.2] using this
  unfold stepRun
  split
  · obtain ⟨h1, h2⟩ := iterIdx_clean q e tc st hclean (st.length + 1) 0 st [] (Evolves.refl tc st)
    exact ⟨h1, hb.trans h2.back, hk.trans (h2.keepsNonSec htc)⟩
  · obtain ⟨h1, suf, h2, _, _⟩ := iterCopy_spec q e tc (st.filter (sel q tc)) st []
    refine ⟨?_, hb.trans h1.back, hk.trans (h1.keepsNonSec htc)⟩
    -- snapshot iteration: same argument, every visited block is clean in the state it is visited in
    have : ∀ (bs st' : List Blk) (acc : List Fail), Evolves tc st st' →
        (∀ b ∈ bs, sel q tc b = true ∧ ∃ b0 ∈ st0, SameShape b0 b) →
        (iterCopy q e tc bs st' acc).2 = acc := by
      intro bs
      induction bs with
      | nil => intro st' acc _ _; rfl
      | cons b bs ih =>
        intro st' acc ev hbs
        obtain ⟨hsel, b0, hb0, sh⟩ := hbs b (by simp)
        have hsb0 : isSec b0 = true := by rw [← isSec_shape sh]; exact sel_isSec q tc htc b hsel
        have hcl : blkDefect e (present st') b = false := by
          apply blkClean_transfer e (present st0) (present st') b0 b sh (hv.clean b0 hb0 hsb0)
          intro a ha t ht hp
          rw [present_iff] at hp ⊢
          obtain ⟨bt, hbt, hn⟩ := hp
          obtain ⟨bt', hbt', sh'⟩ := (hk.trans (ev.keepsNonSec htc)) bt hbt
            (hv.plain b0 hb0 hsb0 a ha t ht bt hbt hn)
          exact ⟨bt', hbt', by rw [sh'.2.1, hn]⟩
        have hnt : q.noneRaises = false ∨ blkNoTrap b = true := by
          cases hq : q.noneRaises with
          | false => exact Or.inl rfl
          | true =>
            right
            have := hv.notrap hq b0 hb0 hsb0
            simpa [blkNoTrap, sh.2.2] using this
        have hn := verifyBlock_clean q e tc st' b hcl hnt
        simp only [iterCopy]
        rw [hn]
        simpa [optList] using ih (verifyBlock q e tc st' b).1 acc
          (ev.trans (evolves_verifyBlock q e tc st' b)) (fun x hx => hbs x (by simp [hx]))
    apply this _ st [] (Evolves.refl tc st)
    intro b hbm
    obtain ⟨hm, hsel⟩ := List.mem_filter.mp hbm
    exact ⟨hsel, hb b hm⟩

/-! ## Bundles on which verification cannot change the block list (no acceptance, nothing raises) -/

/-- no target lookup, result lookup or cryptographic step raises -/
def targetsNoRaise (orc : Nat → Outcome) (pres : Nat → Bool) (results : List (List Nat)) :
    List Nat → Nat → Bool
  | [], _ => true
  | t :: ts, ix =>
    pres t && (results[ix]?).isSome && orc t != .raises && targetsNoRaise orc pres results ts (ix + 1)

/-- An ASB on which nothing raises (D16 cannot occur) and which is never removed without acceptance
    (it has at least one target). -/
def asbNoQuirk (e : Env) (pres : Nat → Bool) (num : Nat) (a : Asb) : Bool :=
  a.targets != [] && !noneTrap a && a.extractOk &&
  targetsNoRaise (e.orc num) pres a.results a.targets 0

/-- …and the block dissected as an ASB at all (D22 cannot occur). -/
def blkNoQuirk (e : Env) (pres : Nat → Bool) (b : Blk) : Bool :=
  match b.pl with
  | none => false
  | some a => asbNoQuirk e pres b.num a

theorem targetLoop_noaccept (isBcb : Bool) (orc : Nat → Outcome) (pres : Nat → Bool)
    (results : List (List Nat)) :
    ∀ (ts : List Nat) (ix : Nat) (fail allAcc : Bool) (w : List Nat),
      targetsNoRaise orc pres results ts ix = true →
      ∃ f a', targetLoop false isBcb orc pres results ts ix fail allAcc w = .done f a' w ∧
        (ts ≠ [] → a' = false) ∧ (allAcc = false → a' = false)
  | [], _, fail, allAcc, w, _ => ⟨fail, allAcc, by simp [targetLoop], by simp, by simp⟩
  | t :: ts, ix, fail, allAcc, w, h => by
    simp only [targetsNoRaise, Bool.and_eq_true] at h
    obtain ⟨⟨⟨hp, hr⟩, ho⟩, hrest⟩ := h
    unfold targetLoop
    simp only [hp, Bool.not_true, Bool.false_eq_true, ↓reduceIte]
    cases hres : results[ix]? with
    | none => simp [hres] at hr
    | some rl =>
      simp only
      by_cases hl : (rl.length != 1) = true
      · simp only [hl, ↓reduceIte]
        obtain ⟨f, a', h1, _, h3⟩ := targetLoop_noaccept isBcb orc pres results ts (ix + 1) true false w hrest
        exact ⟨f, a', h1, fun _ => h3 rfl, fun _ => h3 rfl⟩
      · simp only [hl, Bool.false_eq_true, ↓reduceIte]
        cases hoc : orc t with
        | ok =>
          simp only [Bool.and_false, Bool.false_and, Bool.false_eq_true, ↓reduceIte]
          obtain ⟨f, a', h1, _, h3⟩ := targetLoop_noaccept isBcb orc pres results ts (ix + 1) fail false w hrest
          exact ⟨f, a', h1, fun _ => h3 rfl, fun _ => h3 rfl⟩
        | fail =>
          simp only
          obtain ⟨f, a', h1, _, h3⟩ := targetLoop_noaccept isBcb orc pres results ts (ix + 1) true false w hrest
          exact ⟨f, a', h1, fun _ => h3 rfl, fun _ => h3 rfl⟩
        | raises => simp [hoc] at ho

theorem flatMap_congr' {α β : Type} (l : List α) (f g : α → List β) (h : ∀ a ∈ l, f a = g a) :
    l.flatMap f = l.flatMap g := by
  induction l with
  | nil => rfl
  | cons a l ih =>
    simp only [List.flatMap_cons]
    rw [h a (by simp), ih (fun x hx => h x (by simp [hx]))]

theorem writePlain_nil (plain : Nat → Bytes) (st : List Blk) : writePlain plain [] st = st := by
  simp [writePlain]

/-- Without acceptance and without raising, verifying an ASB leaves the block list alone and its
    verdict does not depend on the quirks. -/
theorem verifyAsb_const (e : Env) (tc : Nat) (st : List Blk) (num : Nat) (a : Asb)
    (hacc : e.accept = false) (hq : asbNoQuirk e (present st) num a = true) :
    ∃ r, ∀ q, verifyAsb q e tc st num a = (st, r) := by
  simp only [asbNoQuirk, Bool.and_eq_true] at hq
  obtain ⟨⟨⟨ht, hc⟩, hx⟩, hn⟩ := hq
  have htne : a.targets ≠ [] := by simpa using ht
  have hnt : noneTrap a = false := by simpa using hc
  have hcq : ∀ q, checkSecblk q a = checkSecblk Quirks.current a := fun q => (checkSecblk_notrap q a hnt).1
  by_cases h1 : (a.ctxId != coseContextId) = true
  · exact ⟨some (.code reasonUnknownSec), fun q => by simp [verifyAsb, h1]⟩
  · cases h2 : checkSecblk Quirks.current a with
    | bad => exact ⟨some (.code reasonFailedSec), fun q => by simp [verifyAsb, h1, hcq q, h2]⟩
    | raises => exact absurd h2 (checkSecblk_notrap Quirks.current a hnt).2
    | ok =>
      obtain ⟨f, a', hl, ha1, _⟩ := targetLoop_noaccept (tc == typeBcb) (e.orc num) (present st) a.results
        a.targets 0 false true [] hn
      have ha' : a' = false := ha1 htne
      subst ha'
      refine ⟨if f then some (.code reasonFailedSec) else none, fun q => ?_⟩
      simp [verifyAsb, h1, hcq q, h2, hx, hacc, hl, writePlain_nil]

theorem verifyBlock_const (e : Env) (tc : Nat) (st : List Blk) (b : Blk)
    (hacc : e.accept = false) (hq : blkNoQuirk e (present st) b = true) :
    ∀ q, verifyBlock q e tc st b = (st, (verifyBlock Quirks.current e tc st b).2) := by
  intro q
  unfold blkNoQuirk at hq
  cases hp : b.pl with
  | none => simp [hp] at hq
  | some a =>
    simp only [hp] at hq
    obtain ⟨r, hr⟩ := verifyAsb_const e tc st b.num a hacc hq
    simp [verifyBlock, hp, hr]

theorem iterCopy_const (q : Quirks) (e : Env) (tc : Nat) (st : List Blk) :
    ∀ (bs : List Blk) (acc : List Fail), (∀ b ∈ bs, (verifyBlock q e tc st b).1 = st) →
      iterCopy q e tc bs st acc =
        (st, acc ++ bs.flatMap (fun b => optList (verifyBlock q e tc st b).2))
  | [], acc, _ => by simp [iterCopy]
  | b :: bs, acc, h => by
    simp only [iterCopy]
    rw [h b (by simp), iterCopy_const q e tc st bs _ (fun x hx => h x (by simp [hx]))]
    simp [List.append_assoc]

/-- A step on such a bundle: nothing changes and every block of the step's type contributes its
    verdict (either iteration scheme). -/
theorem stepRun_const (q : Quirks) (e : Env) (tc : Nat)
    (htc : tc = typeBib ∨ tc = typeBcb) (st : List Blk) (hacc : e.accept = false)
    (hwell : ∀ b ∈ st, isSec b = true → blkNoQuirk e (present st) b = true) :
    stepRun q e tc st =
      (st, (st.filter (fun b => b.typeCode == tc)).flatMap
        (fun b => optList (verifyBlock Quirks.current e tc st b).2)) := by
  have hsel : st.filter (sel q tc) = st.filter (fun b => b.typeCode == tc) := by
    apply List.filter_congr
    intro b hb
    simp only [sel]
    cases htcb : (b.typeCode == tc) with
    | false => rfl
    | true =>
      have hs : isSec b = true := by
        simp only [beq_iff_eq] at htcb
        simp only [isSec, Bool.or_eq_true, beq_iff_eq]
        rcases htc with e1 | e1
        · left; rw [htcb, e1]
        · right; rw [htcb, e1]
      have := hwell b hb hs
      unfold blkNoQuirk at this
      cases hp : b.pl with
      | none => simp [hp] at this
      | some a => simp
  have hconst : ∀ b ∈ st.filter (sel q tc), (verifyBlock q e tc st b).1 = st := by
    intro b hb
    obtain ⟨hm, hs⟩ := List.mem_filter.mp hb
    rw [verifyBlock_const e tc st b hacc (hwell b hm (sel_isSec q tc htc b hs)) q]
  have hlen : (st.filter (sel q tc)).length ≤ 0 + (st.length + 1) := by
    have := List.length_filter_le (sel q tc) st
    omega
  have hcongr : (st.filter (sel q tc)).flatMap (fun b => optList (verifyBlock q e tc st b).2) =
      (st.filter (sel q tc)).flatMap (fun b => optList (verifyBlock Quirks.current e tc st b).2) := by
    apply flatMap_congr'
    intro b hb
    obtain ⟨hm, hs⟩ := List.mem_filter.mp hb
    rw [verifyBlock_const e tc st b hacc (hwell b hm (sel_isSec q tc htc b hs)) q]
  unfold stepRun
  split
  · rw [iterIdx_const q e tc st hconst (st.length + 1) 0 [] hlen]
    simp only [List.drop_zero, List.nil_append, Prod.mk.injEq, true_and]
    rw [hcongr, hsel]
  · rw [iterCopy_const q e tc st _ [] hconst]
    simp only [List.nil_append, Prod.mk.injEq, true_and]
    rw [hcongr, hsel]

theorem flatMap_fails_ne (e : Env) (tc : Nat) (st : List Blk) (b : Blk) (hb : b ∈ st)
    (htc : b.typeCode = tc) (hd : blkDefect e (present st) b = true) :
    (st.filter (fun b => b.typeCode == tc)).flatMap
      (fun b => optList (verifyBlock Quirks.current e tc st b).2) ≠ [] := by
  intro h
  rw [List.flatMap_eq_nil_iff] at h
  have := h b (List.mem_filter.mpr ⟨hb, by simp [htc]⟩)
  have hf := verifyBlock_fails Quirks.current e tc st b hd
  cases hv : (verifyBlock Quirks.current e tc st b).2 with
  | none => simp [hv] at hf
  | some g => simp [hv, optList] at this

theorem flatMap_codes (e : Env) (tc : Nat) (st : List Blk) :
    ∀ f ∈ (st.filter (fun b => b.typeCode == tc)).flatMap
      (fun b => optList (verifyBlock Quirks.current e tc st b).2), f.isSecCode = true := by
  intro f hf
  simp only [List.mem_flatMap] at hf
  obtain ⟨b, _, hfb⟩ := hf
  cases hv : (verifyBlock Quirks.current e tc st b).2 with
  | none => simp [hv, optList] at hfb
  | some g =>
    simp only [hv, optList, List.mem_singleton] at hfb
    rw [hfb]
    exact verifyBlock_code Quirks.current rfl e tc st b g hv

end SecChain
end DtnVerif
