/-
  Shape of what an endpoint emits: never an XFER_REFUSE, its SESS_INIT announces the configured
  segment MRU and keepalive interval, and a KEEPALIVE only with a positive configured interval.
  (Needed to discharge the peer assumptions of G-tx in the two-endpoint system, and for C09.)
-/
import DtnVerif.Model.TcpclEp
import DtnVerif.Lemmas.TcpclTimer
import DtnVerif.Lemmas.TcpclKaCfg
namespace DtnVerif
namespace Tcpcl

def emitOK (cfg : Cfg) : Msg → Prop
  | .xferRefuse .. => False
  | .sessInit ka sm xm node _ => sm = cfg.segMru ∧ ka = cfg.keepalive ∧ xm = sizeMax ∧ node = cfg.nodeId
  | .keepalive => 0 < cfg.keepalive
  | _ => True

def EmitInv (e : Ep) : Prop := ∀ m ∈ e.emitted, emitOK e.cfg m

structure EmitView where
  cfg : Cfg
  emitted : List Msg

def Ep.emitView (e : Ep) : EmitView := ⟨e.cfg, e.emitted⟩

theorem emitInv_of_view {e e' : Ep} (h : e'.emitView = e.emitView) (hi : EmitInv e) : EmitInv e' := by
  simp only [Ep.emitView, EmitView.mk.injEq] at h
  obtain ⟨h1, h2⟩ := h
  unfold EmitInv at *
  rw [h1, h2]; exact hi

@[simp] theorem ev_kaReset (e : Ep) : (kaReset e).emitView = e.emitView := rfl
@[simp] theorem ev_idleReset (e : Ep) : (idleReset e).emitView = e.emitView := rfl
@[simp] theorem ev_pqTrigger (e : Ep) : (pqTrigger e).emitView = e.emitView := by
  unfold pqTrigger; split <;> rfl
@[simp] theorem ev_setState (e : Ep) (s : String) : (setState e s).1.emitView = e.emitView := by
  unfold setState; split <;> rfl
@[simp] theorem ev_flush (e : Ep) : (flushPendStart e).1.emitView = e.emitView := rfl
@[simp] theorem ev_doClose (e : Ep) : (doClose e).1.emitView = e.emitView := by
  unfold doClose; split <;> rfl
@[simp] theorem ev_checkSessTerm (e : Ep) : (checkSessTerm e).1.emitView = e.emitView := by
  unfold checkSessTerm; split
  · exact ev_doClose e
  · rfl
@[simp] theorem ev_sendBufferDecreased (e : Ep) : (sendBufferDecreased e).emitView = e.emitView := by
  unfold sendBufferDecreased; split
  · exact ev_pqTrigger e
  · rfl
@[simp] theorem ev_mergeSession (e : Ep) (p : PeerInit) : (mergeSession e p).emitView = e.emitView := rfl

theorem emitInv_sendMessage (e : Ep) (m : Msg) (hi : EmitInv e) (hm : emitOK e.cfg m := by trivial) :
    EmitInv (sendMessage e m) := by
  unfold EmitInv at *
  intro x hx
  simp only [sendMessage, sendReady, kaReset, idleReset, List.mem_append, List.mem_singleton] at hx
  rcases hx with hx | hx
  · exact hi x hx
  · subst hx; exact hm

theorem emitInv_sendContact (e : Ep) (hi : EmitInv e) : EmitInv (sendContact e) :=
  emitInv_of_view (e := sendMessage e (.contact 0)) rfl (emitInv_sendMessage e _ hi)

theorem emitInv_sendInit (e : Ep) (hi : EmitInv e) : EmitInv (sendInit e) :=
  emitInv_of_view (e := sendMessage e (.sessInit e.cfg.keepalive e.cfg.segMru sizeMax e.cfg.nodeId (sessionExt e.cfg)))
    rfl (emitInv_sendMessage e _ hi ⟨rfl, rfl, rfl, rfl⟩)

theorem emitInv_sendReject (e : Ep) (r : Nat) (m : Msg) (hi : EmitInv e) : EmitInv (sendReject e r m) :=
  emitInv_sendMessage e _ hi

theorem emitInv_sendSessTerm (e : Ep) (r : Nat) (b : Bool) (hi : EmitInv e) :
    EmitInv (sendSessTerm e r b).1 := by
  unfold sendSessTerm
  split
  · exact hi
  · split
    · exact hi
    · simp only []
      refine emitInv_of_view (ev_flush _) (emitInv_sendMessage _ _ ?_)
      exact emitInv_of_view (by rw [ev_setState]; rfl) hi

theorem emitInv_sendSegment (e : Ep) (it : TxItem) (sent : Nat) (hi : EmitInv e) :
    EmitInv (sendSegment e it sent).1 := by
  unfold sendSegment
  simp only []
  split
  · exact emitInv_of_view rfl hi
  · split
    · refine emitInv_of_view (by rw [ev_pqTrigger]; rfl) (emitInv_sendMessage e _ hi)
    · exact emitInv_of_view rfl (emitInv_sendMessage e _ hi)

theorem emitInv_processQueue (e : Ep) (hi : EmitInv e) : EmitInv (processQueue e).1 := by
  unfold processQueue
  split
  · exact emitInv_sendSegment e _ _ hi
  · split
    · exact hi
    · split
      · exact emitInv_of_view (by simp only [ev_checkSessTerm, ev_flush]) hi
      · split
        · exact hi
        · exact emitInv_sendSegment _ _ _ (emitInv_of_view rfl hi)

theorem emitInv_pullTx (e : Ep) (hi : EmitInv e) : EmitInv (pullTx e) := by
  unfold pullTx
  split
  · exact emitInv_of_view (by rw [ev_sendBufferDecreased]; rfl) hi
  · exact hi

theorem emitInv_writeConn (e : Ep) (n : Nat) (up : Bool) (hi : EmitInv e) : EmitInv (writeConn e n up).1 := by
  unfold writeConn
  split
  · split
    · exact emitInv_of_view (ev_checkSessTerm e) hi
    · exact hi
  · simp only []
    split
    · exact hi
    · split
      · exact emitInv_of_view (by rw [ev_checkSessTerm]; rfl) hi
      · exact emitInv_of_view rfl hi

theorem emitInv_pump (e : Ep) (n : Nat) (hi : EmitInv e) : EmitInv (pump e n).1 :=
  emitInv_writeConn _ _ _ (emitInv_pullTx e hi)

/-! receive handlers -/

theorem emitInv_onContact (e : Ep) (hi : EmitInv e) : EmitInv (onContact e).1 := by
  unfold onContact
  simp only []
  have h1 : EmitInv (if e.cfg.passive then sendContact e else e) := by
    split
    · exact emitInv_sendContact e hi
    · exact hi
  have h2 : EmitInv (setState (if e.cfg.passive then sendContact e else e) "session-negotiating").1 :=
    emitInv_of_view (ev_setState _ _) h1
  split
  · exact emitInv_sendInit _ h2
  · exact h2

theorem emitInv_onSessInit (e : Ep) (p : PeerInit) (hi : EmitInv e) : EmitInv (onSessInit e p).1 := by
  unfold onSessInit
  simp only []
  have h1 : EmitInv (if e.cfg.passive then sendInit e else e) := by
    split
    · exact emitInv_sendInit e hi
    · exact hi
  refine emitInv_of_view ?_ h1
  rw [ev_setState, ev_mergeSession]; rfl

theorem emitInv_onSessTerm (e : Ep) (m : Msg) (r : Nat) (hi : EmitInv e) : EmitInv (onSessTerm e m r).1 := by
  unfold onSessTerm
  split
  · exact emitInv_sendReject e _ _ hi
  · simp only []
    refine emitInv_of_view (by rw [ev_checkSessTerm, ev_flush]) (e := { (if !e.inTerm then sendSessTerm e r true else (e, [])).1 with gotTerm := true }) ?_
    refine emitInv_of_view (e := (if !e.inTerm then sendSessTerm e r true else (e, [])).1) rfl ?_
    split
    · exact emitInv_sendSessTerm e r true hi
    · exact hi

theorem emitInv_segAccept (e : Ep) (flags tid : Nat) (cur data : Bytes) (o1 : List Out) (hi : EmitInv e) :
    EmitInv (segAccept e flags tid cur data o1).1 := by
  unfold segAccept
  simp only []
  split
  · exact emitInv_of_view (by rw [ev_checkSessTerm]; rfl) (emitInv_sendMessage e _ hi)
  · exact emitInv_sendMessage _ _ (emitInv_of_view rfl hi)

theorem emitInv_onSegment (e : Ep) (m : Msg) (flags tid : Nat) (data : Bytes) (hi : EmitInv e) :
    EmitInv (onSegment e m flags tid data).1 := by
  unfold onSegment
  split
  · exact emitInv_sendReject e _ _ hi
  · split
    · exact emitInv_segAccept _ _ _ _ _ _ (emitInv_of_view rfl hi)
    · split
      · split
        · exact emitInv_segAccept _ _ _ _ _ _ hi
        · exact emitInv_sendReject e _ _ hi
      · exact emitInv_sendReject e _ _ hi

theorem emitInv_onAck (e : Ep) (m : Msg) (f t l : Nat) (hi : EmitInv e) : EmitInv (onAck e m f t l).1 := by
  unfold onAck
  split
  · exact emitInv_sendReject e _ _ hi
  · split
    · exact emitInv_sendReject e _ _ hi
    · split
      · split
        · exact emitInv_sendReject e _ _ hi
        · exact emitInv_of_view (by rw [ev_checkSessTerm]; rfl) hi
      · exact emitInv_of_view rfl hi

theorem emitInv_onRefuse (e : Ep) (m : Msg) (r t : Nat) (hi : EmitInv e) : EmitInv (onRefuse e m r t).1 := by
  unfold onRefuse
  split
  · exact emitInv_sendReject e _ _ hi
  · split
    · exact emitInv_sendReject e _ _ hi
    · refine emitInv_of_view ?_ hi
      simp only [ev_checkSessTerm]
      split
      · split
        · rw [ev_pqTrigger]; rfl
        · rfl
      · rfl

theorem emitInv_handleMsg (e : Ep) (m : Msg) (hi : EmitInv e) : EmitInv (handleMsg e m).1 := by
  have h0 : EmitInv { e with processed := e.processed ++ [m] } := emitInv_of_view rfl hi
  unfold handleMsg
  cases m with
  | contact f => exact emitInv_onContact _ h0
  | sessInit ka sm xm node ext => exact emitInv_onSessInit _ _ h0
  | sessTerm f r => exact emitInv_onSessTerm _ _ _ h0
  | keepalive => exact h0
  | msgReject a b => exact h0
  | xferSegment flags tid ext data => exact emitInv_onSegment _ _ _ _ _ h0
  | xferAck f t l => exact emitInv_onAck _ _ _ _ _ h0
  | xferRefuse r t => exact emitInv_onRefuse _ _ _ _ h0

theorem emitInv_handleMsgs (ms : List Msg) (e : Ep) (hi : EmitInv e) : EmitInv (handleMsgs e ms).1 := by
  induction ms generalizing e with
  | nil => exact hi
  | cons m ms ih =>
    unfold handleMsgs
    split
    · exact hi
    · exact ih _ (emitInv_handleMsg _ m (emitInv_of_view (e := e) rfl hi))

theorem emitInv_recvRaw (e : Ep) (c : Bytes) (hi : EmitInv e) : EmitInv (recvRaw e c).1 := by
  unfold recvRaw
  simp only []
  have h0 : EmitInv (rxEntry e c) := emitInv_of_view rfl hi
  have h1 := emitInv_handleMsgs (feed e.rx c).2 _ h0
  split
  · exact emitInv_of_view (ev_doClose _) h1
  · exact h1

theorem emitInv_step (e : Ep) (ev : Ev) (hi : EmitInv e)
    (hk : e.kaDeadline.isSome = true → 0 < e.cfg.keepalive) : EmitInv (step e ev).1 := by
  unfold step
  cases ev with
  | advance ms => exact emitInv_of_view rfl hi
  | start =>
    simp only []
    split
    · exact hi
    · split
      · exact hi
      · refine emitInv_of_view (ev_setState _ _) ?_
        split
        · exact emitInv_sendContact _ (emitInv_of_view rfl hi)
        · exact emitInv_of_view rfl hi
  | send d =>
    simp only []
    split
    · exact hi
    · exact emitInv_of_view (by rw [ev_pqTrigger]; rfl) hi
  | terminate r =>
    simp only []
    split
    · exact hi
    · exact emitInv_sendSessTerm _ _ _ hi
  | close =>
    simp only []
    split
    · exact hi
    · exact emitInv_of_view (ev_doClose _) hi
  | pop t =>
    simp only []
    have : EmitInv (popRx e t).1 := by
      refine emitInv_of_view ?_ hi
      unfold popRx; split <;> rfl
    split <;> exact this
  | query q => simp only []; split <;> exact hi
  | procQueue =>
    simp only []
    split
    · exact emitInv_of_view rfl hi
    · split
      · exact hi
      · exact emitInv_of_view rfl (emitInv_processQueue _ (emitInv_of_view (e := e) rfl hi))
  | pump n =>
    simp only []
    split
    · exact hi
    · split
      · exact hi
      · exact emitInv_of_view rfl (emitInv_pump _ _ (emitInv_of_view (e := e) rfl hi))
  | rx c =>
    simp only []
    split
    · exact hi
    · exact emitInv_recvRaw e c hi
  | rxEof =>
    simp only []
    split
    · exact hi
    · exact emitInv_of_view (ev_doClose _) hi
  | keepaliveTimer =>
    simp only []
    split
    · exact hi
    · split
      · exact hi
      · rename_i d hd
        exact emitInv_sendMessage _ _ (emitInv_of_view rfl hi) (hk (by rw [hd]; rfl))
  | idleTimer =>
    simp only []
    split
    · exact hi
    · split
      · exact hi
      · split
        · exact emitInv_of_view (by rw [ev_doClose]; rfl) hi
        · exact emitInv_sendSessTerm _ _ _ (emitInv_of_view rfl hi)
  | modulate raw =>
    simp only []
    split
    · exact hi
    · split
      · exact emitInv_of_view rfl hi
      · exact hi

theorem emitInv_init (cfg : Cfg) : EmitInv { cfg := cfg } := by
  intro m hm; simp at hm

theorem emitInv_run (evs : List Ev) (e : Ep) (hi : EmitInv e) (ht : TimerInv e) (hc : KC e) :
    EmitInv (runEp e evs) := by
  induction evs generalizing e with
  | nil => exact hi
  | cons ev evs ih =>
    simp only [runEp, run]
    exact ih _ (emitInv_step e ev hi (fun h => hc (ht.1 h))) (timerInv_step e ev ht) (kc_step e ev hc)

end Tcpcl
end DtnVerif
