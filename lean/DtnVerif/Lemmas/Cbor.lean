import DtnVerif.Model.Cbor
import DtnVerif.Lemmas.Bytes
namespace DtnVerif
namespace Cbor

theorem headLen_pos (n : Nat) : 0 < headLen n := by
  unfold headLen; split <;> (try split) <;> (try split) <;> (try split) <;> omega

theorem headLen_le_nine (n : Nat) : headLen n ≤ 9 := by
  unfold headLen; split <;> (try split) <;> (try split) <;> (try split) <;> omega

theorem headLen_mono {a b : Nat} (h : a ≤ b) : headLen a ≤ headLen b := by
  unfold headLen
  split <;> split <;> (try split) <;> (try split) <;> (try split) <;> (try split) <;>
    (try split) <;> (try split) <;> omega

@[simp] theorem head_length (mt n : Nat) : (head mt n).length = headLen n := by
  unfold head headLen
  split
  · simp
  · split
    · simp
    · split
      · simp
      · split <;> simp

theorem ofNat_toNat_lt {x : Nat} (h : x < 256) : (UInt8.ofNat x).toNat = x := by
  simp [UInt8.toNat_ofNat']; exact h

private theorem div32 {mt a : Nat} (ha : a < 32) : (mt * 32 + a) / 32 = mt := by omega
private theorem mod32 {mt a : Nat} (ha : a < 32) : (mt * 32 + a) % 32 = a := by omega

/-- Decoding a shortest-form head followed by anything returns exactly its parts. -/
theorem decHead_head (mt n : Nat) (r : Bytes) (hmt : mt < 8) (hn : n < 2 ^ 64) :
    decHead (head mt n ++ r) = some (mt, n, r) := by
  unfold head
  split
  · rename_i h
    have hb : mt * 32 + n < 256 := by omega
    simp only [List.singleton_append, decHead, ofNat_toNat_lt hb]
    rw [div32 (by omega), mod32 (by omega)]
    simp [h]
  · split
    · rename_i h1 h2
      have hb : mt * 32 + 24 < 256 := by omega
      simp only [List.cons_append, decHead, ofNat_toNat_lt hb]
      rw [div32 (by omega), mod32 (by omega)]
      have hl : (beBytes 1 n ++ r).length ≥ 1 := by simp
      simp only [show ¬ (24 < 24) by omega, if_false, if_true]
      have : ¬ ((beBytes 1 n ++ r).length < 1) := by omega
      simp only [this, if_false, show ¬ ((1:Nat) = 0) by omega]
      have ht : (beBytes 1 n ++ r).take 1 = beBytes 1 n := by
        rw [List.take_append_of_le_length (by simp)]; simp [List.take_of_length_le]
      have hd : (beBytes 1 n ++ r).drop 1 = r := by
        rw [List.drop_append_of_le_length (by simp)]; simp [List.drop_of_length_le]
      rw [ht, hd, beNat_beBytes 1 n (by simpa using h2)]
    · split
      · rename_i h1 h2 h3
        have hb : mt * 32 + 25 < 256 := by omega
        simp only [List.cons_append, decHead, ofNat_toNat_lt hb]
        rw [div32 (by omega), mod32 (by omega)]
        simp only [show ¬ (25 < 24) by omega, show ¬ ((25:Nat) = 24) by omega, if_false, if_true]
        have : ¬ ((beBytes 2 n ++ r).length < 2) := by simp
        simp only [this, if_false, show ¬ ((2:Nat) = 0) by omega]
        have ht : (beBytes 2 n ++ r).take 2 = beBytes 2 n := by
          rw [List.take_append_of_le_length (by simp)]; simp [List.take_of_length_le]
        have hd : (beBytes 2 n ++ r).drop 2 = r := by
          rw [List.drop_append_of_le_length (by simp)]; simp [List.drop_of_length_le]
        rw [ht, hd, beNat_beBytes 2 n (by simpa using h3)]
      · split
        · rename_i h1 h2 h3 h4
          have hb : mt * 32 + 26 < 256 := by omega
          simp only [List.cons_append, decHead, ofNat_toNat_lt hb]
          rw [div32 (by omega), mod32 (by omega)]
          simp only [show ¬ (26 < 24) by omega, show ¬ ((26:Nat) = 24) by omega,
            show ¬ ((26:Nat) = 25) by omega, if_false, if_true]
          have : ¬ ((beBytes 4 n ++ r).length < 4) := by simp
          simp only [this, if_false, show ¬ ((4:Nat) = 0) by omega]
          have ht : (beBytes 4 n ++ r).take 4 = beBytes 4 n := by
            rw [List.take_append_of_le_length (by simp)]; simp [List.take_of_length_le]
          have hd : (beBytes 4 n ++ r).drop 4 = r := by
            rw [List.drop_append_of_le_length (by simp)]; simp [List.drop_of_length_le]
          rw [ht, hd, beNat_beBytes 4 n (by simpa using h4)]
        · rename_i h1 h2 h3 h4
          have hb : mt * 32 + 27 < 256 := by omega
          simp only [List.cons_append, decHead, ofNat_toNat_lt hb]
          rw [div32 (by omega), mod32 (by omega)]
          simp only [show ¬ (27 < 24) by omega, show ¬ ((27:Nat) = 24) by omega,
            show ¬ ((27:Nat) = 25) by omega, show ¬ ((27:Nat) = 26) by omega, if_false, if_true]
          have : ¬ ((beBytes 8 n ++ r).length < 8) := by simp
          simp only [this, if_false, show ¬ ((8:Nat) = 0) by omega]
          have ht : (beBytes 8 n ++ r).take 8 = beBytes 8 n := by
            rw [List.take_append_of_le_length (by simp)]; simp [List.take_of_length_le]
          have hd : (beBytes 8 n ++ r).drop 8 = r := by
            rw [List.drop_append_of_le_length (by simp)]; simp [List.drop_of_length_le]
          rw [ht, hd, beNat_beBytes 8 n (by simpa using hn)]

theorem decUint_enc (n : Nat) (r : Bytes) (hn : n < 2 ^ 64) :
    decUint (encUint n ++ r) = some (n, r) := by
  simp [decUint, encUint, decHead_head 0 n r (by omega) hn]

theorem decArrHead_enc (n : Nat) (r : Bytes) (hn : n < 2 ^ 64) :
    decArrHead (encArrHead n ++ r) = some (n, r) := by
  simp [decArrHead, encArrHead, decHead_head 4 n r (by omega) hn]

theorem decMapHead_enc (n : Nat) (r : Bytes) (hn : n < 2 ^ 64) :
    decMapHead (encMapHead n ++ r) = some (n, r) := by
  simp [decMapHead, encMapHead, decHead_head 5 n r (by omega) hn]

theorem decBstr_enc (d r : Bytes) (hn : d.length < 2 ^ 64) :
    decBstr (encBstr d ++ r) = some (d, r) := by
  simp [decBstr, encBstr, List.append_assoc, decHead_head 2 d.length (d ++ r) (by omega) hn]

theorem decTstr_enc (d r : Bytes) (hn : d.length < 2 ^ 64) :
    decTstr (encTstr d ++ r) = some (d, r) := by
  simp [decTstr, encTstr, List.append_assoc, decHead_head 3 d.length (d ++ r) (by omega) hn]

@[simp] theorem encUint_length (n : Nat) : (encUint n).length = headLen n := by simp [encUint]
@[simp] theorem encBstr_length (d : Bytes) : (encBstr d).length = headLen d.length + d.length := by
  simp [encBstr]
@[simp] theorem encTstr_length (d : Bytes) : (encTstr d).length = headLen d.length + d.length := by
  simp [encTstr]
@[simp] theorem encArrHead_length (n : Nat) : (encArrHead n).length = headLen n := by
  simp [encArrHead]
@[simp] theorem encMapHead_length (n : Nat) : (encMapHead n).length = headLen n := by
  simp [encMapHead]

end Cbor
end DtnVerif
